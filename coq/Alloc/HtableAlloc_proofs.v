(* C14 - ares_htable_expand / ares_htable_insert under allocation failure, for every oracle. *)
From CAres.Alloc Require Import HtableAlloc.
From CAres.Gen Require Import Consts.
Local Open Scope nat_scope.

Lemma bindM_ok_inv {A B} (m : M A) (k : A -> M B) h b h' :
  bindM m k h = Ok (b, h') -> exists a h1, m h = Ok (a, h1) /\ k a h1 = Ok (b, h').
Proof.
  unfold bindM. destruct (m h) as [[a h1]|s|u]; intros H; try discriminate. eauto.
Qed.

(* number of allocation requests ares_htable_expand issues before it moves anything *)
Definition ht_prealloc_count (t : htable) : nat :=
  1 + (if Nat.eqb (ht_coll t) 0 then 0 else 1) + ht_coll t.

Section Proofs.
  Variable hash : Z -> nat.
  Variable f : oracle.

  (* the undo of a failed list pre-allocation restores the ledger *)
  Lemma ht_expand_undo_lists ab (pa : option blk) lists L nx :
    (forall b, In b lists -> b <> ab) -> (forall pb, pa = Some pb -> pb <> ab) ->
    ht_expand_undo (Some ab) pa lists
      (mkHeap nx (lists ++ match pa with Some pb => pb :: ab :: L | None => ab :: L end))
    = Ok (tt, mkHeap nx L).
  Proof.
    intros Hl Hp. unfold ht_expand_undo, bindM, free. simpl.
    assert (Hin : memb ab (lists ++ match pa with Some pb => pb :: ab :: L | None => ab :: L end) = true).
    { apply memb_In. apply in_or_app. right. destruct pa; simpl; auto. }
    rewrite Hin.
    assert (Hrm : remove_one ab (lists ++ match pa with Some pb => pb :: ab :: L | None => ab :: L end)
                  = lists ++ match pa with Some pb => pb :: L | None => L end).
    { destruct pa as [pb|].
      - replace (lists ++ pb :: ab :: L) with ((lists ++ [pb]) ++ ab :: L) by (rewrite <- app_assoc; reflexivity).
        rewrite remove_one_middle.
        + rewrite <- app_assoc. reflexivity.
        + intros Hi. apply in_app_or in Hi. destruct Hi as [Hi|[Hi|[]]].
          * apply Hl in Hi. congruence.
          * apply (Hp pb eq_refl). congruence.
      - apply remove_one_middle. intros Hi. apply Hl in Hi. congruence. }
    rewrite Hrm.
    rewrite (free_all_prefix lists (mkHeap nx (lists ++ match pa with Some pb => pb :: L | None => L end))
                             (match pa with Some pb => pb :: L | None => L end)); [|reflexivity].
    simpl. destruct pa as [pb|]; simpl; [rewrite Nat.eqb_refl|]; reflexivity.
  Qed.

  (* ares_htable_expand returns ARES_FALSE only because an allocation was refused, and then
     the table and the ledger are exactly as before *)
  Theorem ht_expand_atomic t h r h' :
    ht_expand hash f t h = Ok (r, h') -> fst r = false ->
    snd r = t /\ h_live h' = h_live h /\
    exists j, j < ht_prealloc_count t /\ f (h_next h + j) = false.
  Proof.
    unfold ht_expand, ht_prealloc_count.
    destruct (Z.eqb (Z.of_nat (ht_size t)) ARES__HTABLE_MAX_BUCKETS).
    { intros H Hr. inversion H; subst. simpl in Hr. discriminate. }
    intros H Hr.
    apply bindM_ok_inv in H as (arr & h1 & Ha & H).
    unfold malloc in Ha. destruct (f (h_next h)) eqn:E0; inversion Ha; subst; clear Ha.
    2:{ unfold ht_expand_undo, bindM, free, free_all, ret in H. simpl in H. inversion H; subst. simpl.
        split; [reflexivity|]. split; [reflexivity|]. exists 0. split; [lia|]. rewrite Nat.add_0_r. exact E0. }
    set (n0 := h_next h) in *.
    apply bindM_ok_inv in H as (prearr & h2 & Hp & H).
    destruct (Nat.eqb (ht_coll t) 0) eqn:Ec.
    - (* no recorded collision: no spare lists *)
      inversion Hp; subst; clear Hp.
      apply bindM_ok_inv in H as ([lists ok] & h3 & Hm & H).
      apply Nat.eqb_eq in Ec. rewrite Ec in Hm. simpl in Hm. inversion Hm; subst; clear Hm.
      simpl in H. exfalso.
      apply bindM_ok_inv in H as ([[nb unused] coll] & h4 & _ & H).
      apply bindM_ok_inv in H as (u1 & h5 & _ & H).
      apply bindM_ok_inv in H as (u2 & h6 & _ & H).
      apply bindM_ok_inv in H as (u3 & h7 & _ & H).
      inversion H; subst. simpl in Hr. discriminate.
    - apply bindM_ok_inv in Hp as (p & h2' & Hpm & Hp).
      unfold malloc in Hpm. simpl in Hpm.
      destruct (f (S n0)) eqn:E1; inversion Hpm; subst; clear Hpm; inversion Hp; subst; clear Hp.
      2:{ unfold ht_expand_undo, bindM, free, free_all, ret in H. simpl in H.
          rewrite Nat.eqb_refl in H. simpl in H. inversion H; subst. simpl.
          split; [reflexivity|]. split; [reflexivity|]. exists 1. split; [lia|].
          replace (n0 + 1) with (S n0) by lia. exact E1. }
      apply bindM_ok_inv in H as ([lists ok] & h3 & Hm & H).
      destruct (malloc_n_spec f (ht_coll t) [] (mkHeap (S (S n0)) (S n0 :: n0 :: h_live h)))
        as (bs & ok' & h3' & Hrun & (new & Hbs & Hlive & Hlen & Hle & Hnext & Hbnd) & Hfail).
      assert (Heq : lists = bs /\ ok = ok' /\ h3 = h3') by (rewrite Hrun in Hm; inversion Hm; auto).
      destruct Heq as (-> & -> & ->). clear Hm. rewrite app_nil_r in Hbs. subst bs.
      destruct ok'; simpl in H.
      + exfalso.
        apply bindM_ok_inv in H as ([[nb unused] coll] & h4 & _ & H).
        apply bindM_ok_inv in H as (u1 & h5 & _ & H).
        apply bindM_ok_inv in H as (u2 & h6 & _ & H).
        apply bindM_ok_inv in H as (u3 & h7 & _ & H).
        inversion H; subst. simpl in Hr. discriminate.
      + apply bindM_ok_inv in H as (u & h4 & Hu & H). inversion H; subst; clear H. simpl.
        destruct h3' as [nx3 live3]. simpl in *. subst live3.
        pose proof (ht_expand_undo_lists n0 (Some (S n0)) new (h_live h) nx3) as Hx.
        cbv beta iota in Hx. rewrite Hx in Hu.
        * inversion Hu; subst. simpl. split; [reflexivity|]. split; [reflexivity|].
          destruct Hfail as [Hfail _]. destruct (Hfail eq_refl) as (j & Hj & Hfj & _).
          exists (2 + j). split; [lia|].
          replace (n0 + (2 + j)) with (S (S n0) + j) by lia. exact Hfj.
        * intros b Hb. apply Hbnd in Hb. lia.
        * intros pb Hpb. inversion Hpb. lia.
  Qed.

  (* conversely: a refused request among the pre-allocations makes the expansion fail cleanly *)
  Theorem ht_expand_refused t h j :
    Z.eqb (Z.of_nat (ht_size t)) ARES__HTABLE_MAX_BUCKETS = false ->
    j < ht_prealloc_count t -> f (h_next h + j) = false ->
    exists h', ht_expand hash f t h = Ok ((false, t), h') /\ h_live h' = h_live h.
  Proof.
    intros Hsz Hj Hf. unfold ht_expand, ht_prealloc_count in *. rewrite Hsz.
    unfold bindM at 1. unfold malloc at 1. set (n0 := h_next h) in *.
    destruct (f n0) eqn:E0.
    2:{ eexists. unfold ht_expand_undo, bindM, free, free_all, ret. simpl. split; reflexivity. }
    destruct (Nat.eqb (ht_coll t) 0) eqn:Ec.
    - apply Nat.eqb_eq in Ec. rewrite Ec in Hj. simpl in Hj.
      assert (j = 0) by lia. subst j. rewrite Nat.add_0_r in Hf. congruence.
    - unfold bindM at 1. unfold bindM at 1. unfold malloc at 1. simpl.
      destruct (f (S n0)) eqn:E1.
      2:{ eexists. unfold ht_expand_undo, bindM, free, free_all, ret. simpl.
          rewrite Nat.eqb_refl. simpl. split; reflexivity. }
      simpl. unfold bindM at 1.
      destruct (malloc_n_spec f (ht_coll t) [] (mkHeap (S (S n0)) (S n0 :: n0 :: h_live h)))
        as (bs & ok' & h3' & Hrun & (new & Hbs & Hlive & Hlen & Hle & Hnext & Hbnd) & Hfail).
      rewrite Hrun. rewrite app_nil_r in Hbs. subst bs.
      assert (Hok : ok' = false).
      { apply Hfail. simpl.
        destruct j as [|[|j]]; [rewrite Nat.add_0_r in Hf; congruence | replace (n0 + 1) with (S n0) in Hf by lia; congruence|].
        (* the refused request is among the list pre-allocations; take the first refused one *)
        assert (Hex : exists i, i < ht_coll t /\ f (S (S n0) + i) = false).
        { exists j. split; [simpl in Hj; lia|]. replace (S (S n0) + j) with (n0 + S (S j)) by lia. exact Hf. }
        clear Hf Hj j.
        destruct Hex as (i & Hi & Hfi).
        destruct (first_failure f (S (S n0)) i Hfi) as (m & Hm & Hfm & Hpre).
        exists m. split; [lia|]. split; assumption. }
      subst ok'. simpl.
      destruct h3' as [nx3 live3]. simpl in *. subst live3.
      unfold bindM at 1.
      pose proof (ht_expand_undo_lists n0 (Some (S n0)) new (h_live h) nx3) as Hx.
      cbv beta iota in Hx. rewrite Hx.
      + eexists. simpl. split; reflexivity.
      + intros b Hb. apply Hbnd in Hb. lia.
      + intros pb Hpb. inversion Hpb. lia.
  Qed.

  Lemma ht_expand_c14 t h :
    (forall r h', ht_expand hash f t h = Ok (r, h') -> fst r = false ->
       snd r = t /\ h_live h' = h_live h /\ exists j, j < ht_prealloc_count t /\ f (h_next h + j) = false) /\
    (forall j, Z.eqb (Z.of_nat (ht_size t)) ARES__HTABLE_MAX_BUCKETS = false ->
       j < ht_prealloc_count t -> f (h_next h + j) = false ->
       exists h', ht_expand hash f t h = Ok ((false, t), h') /\ h_live h' = h_live h).
  Proof.
    split.
    - intros r h'. apply ht_expand_atomic.
    - intros j. apply ht_expand_refused.
  Qed.

  (* ---- ares_htable_insert ---- *)
  Definition ht_needs_expand (t : htable) : bool :=
    Nat.ltb (ht_size t * Z.to_nat ARES__HTABLE_EXPAND_PERCENT / 100) (ht_keys t + 1).

  Definition ht_maybe_expand (t : htable) : M (bool * htable) :=
    if ht_needs_expand t then ht_expand hash f t else ret (true, t).

  Lemma flat_map_set_nth_empty (l : list (option hchain)) idx c :
    chain_ents (nth idx l None) = [] -> hc_ents c = [] ->
    flat_map chain_ents (set_nth l idx (Some c)) = flat_map chain_ents l.
  Proof.
    unfold set_nth. revert idx. induction l as [|x l IH]; intros idx Hn Hc.
    - destruct idx; simpl; rewrite Hc; reflexivity.
    - destruct idx as [|idx]; simpl in *.
      + rewrite Hn, Hc. reflexivity.
      + f_equal. apply IH; assumption.
  Qed.

  Lemma flat_map_blocks_set_nth_len (l : list (option hchain)) idx lb :
    nth idx l None = None ->
    length (flat_map chain_blocks (set_nth l idx (Some (mkHc lb [])))) = S (length (flat_map chain_blocks l)).
  Proof.
    unfold set_nth. revert idx. induction l as [|x l IH]; intros idx En.
    - destruct idx; reflexivity.
    - destruct idx as [|idx]; simpl in *.
      + subst x. simpl. reflexivity.
      + rewrite !app_length. rewrite IH by exact En. lia.
  Qed.

  (* A failed insert leaves the table as it was, or as a completed expansion left it, plus at
     most one empty chain header (owned by the table) in the bucket the key hashes to; the
     association list is untouched by the insert itself, and nothing is leaked. *)
  Theorem ht_insert_atomic t k v h r h' :
    ht_insert hash f t k v h = Ok (r, h') -> fst r = false ->
    exists ok t1 h1, ht_maybe_expand t h = Ok ((ok, t1), h1) /\
      ((ok = false /\ snd r = t /\ h_live h' = h_live h) \/
       (ok = true /\ ht_abs (snd r) = ht_abs t1 /\
        ((snd r = t1 /\ h_live h' = h_live h1) \/
         (exists lb, h_live h' = lb :: h_live h1 /\ In lb (ht_blocks (snd r)) /\
                     ht_blocks (snd r) <> ht_blocks t1)))).
  Proof.
    unfold ht_insert. intros H Hr.
    destruct (chain_find (chain_ents (nth (hidx hash (ht_size t) k) (ht_buckets t) None)) k).
    { destruct (nth (hidx hash (ht_size t) k) (ht_buckets t) None);
        inversion H; subst; simpl in Hr; discriminate. }
    apply bindM_ok_inv in H as ([ok t1] & h1 & He & H).
    exists ok, t1, h1. split; [exact He|].
    destruct ok; simpl in H.
    2:{ left. inversion H; subst. simpl.
        unfold ht_maybe_expand, ht_needs_expand in He.
        destruct (Nat.ltb _ _); [|inversion He].
        destruct (ht_expand_atomic t h (false, t1) h' He eq_refl) as (Ht & Hl & _).
        simpl in Ht. subst t1. auto. }
    right. split; [reflexivity|].
    apply bindM_ok_inv in H as (c & h2 & Hc & H).
    set (idx := hidx hash (ht_size t1) k) in *.
    destruct (nth idx (ht_buckets t1) None) as [c0|] eqn:En.
    - (* the bucket has a chain: only the node allocation can be refused *)
      inversion Hc; subst; clear Hc.
      apply bindM_ok_inv in H as (n & h3 & Hn & H).
      unfold malloc in Hn. destruct (f (h_next h2)); inversion Hn; subst; clear Hn;
        inversion H; subst; simpl in *; [discriminate|].
      split; [reflexivity|]. left. auto.
    - apply bindM_ok_inv in Hc as (p & h2' & Hp & Hc).
      unfold malloc in Hp. destruct (f (h_next h1)) eqn:Ef1; inversion Hp; subst; clear Hp;
        inversion Hc; subst; clear Hc.
      + (* chain header obtained, node refused: the empty header stays in the table *)
        apply bindM_ok_inv in H as (n & h3 & Hn & H).
        unfold malloc in Hn. simpl in Hn.
        destruct (f (S (h_next h1))); inversion Hn; subst; clear Hn;
          inversion H; subst; simpl in *; [discriminate|].
        split.
        * unfold ht_abs. simpl. rewrite flat_map_set_nth_empty; [reflexivity | rewrite En; reflexivity | reflexivity].
        * right. exists (h_next h1). split; [reflexivity|].
          unfold ht_blocks. simpl. split.
          -- right. right. apply in_flat_map. exists (Some (mkHc (h_next h1) [])). split.
             ++ unfold set_nth. apply in_or_app. right. left. reflexivity.
             ++ simpl. left. reflexivity.
          -- intros Heq. injection Heq as Heq.
             pose proof (flat_map_blocks_set_nth_len (ht_buckets t1) idx (h_next h1) En) as Hlen.
             rewrite Heq in Hlen. lia.
      + (* chain header refused *)
        inversion H; subst. simpl. split; [reflexivity|]. left. auto.
  Qed.
End Proofs.
