(* C14 on the C19 container models.

   coq/Dsa/{LList,SList,Htable,Buf}.v are the refinement-proved, implementation-tied models of
   C19; every allocation site there takes the allocator's answer as an argument.  Here the
   answers are drawn from an allocation ORACLE at the current request counter n, and the C14
   statement "a refused request makes the operation fail and leaves the container as it was" is
   derived from the C19 lemmas for every oracle and every counter, i.e. for every position of
   the failing allocation.  (Alloc/{List,Htable,Buf}Alloc.v are the coarser models that add the
   block ledger; the allocdsa engine ties both to the code at the same allocation index.) *)
From CAres.Core Require Import AllocFault.
From CAres.Dsa Require LList LList_proofs SList SList_proofs Htable Htable_proofs Buf Buf_proofs.
From CAres.Gen Require Import Consts.
From Coq Require Import Permutation.
Local Open Scope nat_scope.

(* the answers to requests n, n+1, .., n+k-1 *)
Definition answers (f : oracle) (n k : nat) : list bool := map f (seq n k).

Lemma answers_nth (f : oracle) n k j : j < k -> nth_error (answers f n k) j = Some (f (n + j)).
Proof.
  intros Hj. unfold answers. rewrite nth_error_map.
  rewrite (nth_error_nth' (seq n k) 0) by (rewrite seq_length; exact Hj).
  rewrite seq_nth by exact Hj. reflexivity.
Qed.

Lemma answers_In_false (f : oracle) n k : In false (answers f n k) <-> exists j, j < k /\ f (n + j) = false.
Proof.
  unfold answers. rewrite in_map_iff. split.
  - intros (x & Hx & Hin). apply in_seq in Hin. exists (x - n). split; [lia|].
    replace (n + (x - n)) with x by lia. exact Hx.
  - intros (j & Hj & Hf). exists (n + j). split; [exact Hf|]. apply in_seq. lia.
Qed.

Lemma firstn_answers (f : oracle) n k r : r <= k -> firstn r (answers f n k) = answers f n r.
Proof.
  intros Hr. unfold answers. rewrite firstn_map. f_equal.
  revert n k Hr. induction r as [|r IH]; intros n k Hr; [reflexivity|].
  destruct k as [|k]; [lia|]. simpl. f_equal. apply IH. lia.
Qed.

(* ---- ares_llist ---- *)
Lemma c19_llist_insert_refused (f : oracle) n h l v :
  f n = false ->
  LList.ll_insert_first (f n) h l v = Ok (h, None) /\ LList.ll_insert_last (f n) h l v = Ok (h, None).
Proof.
  intros ->. split; [apply LList_proofs.ll_insert_first_alloc_fail_atomic | apply LList_proofs.ll_insert_last_alloc_fail_atomic].
Qed.

Lemma c19_llist_insert_at_node_refused (f : oracle) n h nd v :
  f n = false -> LList.ll_node_live h nd = true ->
  LList.ll_insert_before (f n) h (Some nd) v = Ok (h, None) /\ LList.ll_insert_after (f n) h (Some nd) v = Ok (h, None).
Proof.
  intros -> Hl. split; [apply LList_proofs.ll_insert_before_alloc_fail_atomic | apply LList_proofs.ll_insert_after_alloc_fail_atomic]; exact Hl.
Qed.

(* ---- ares_slist: node, next[], prev[] are requests n, n+1, n+2; the head realloc is n+3 ---- *)
Lemma c19_slist_insert_refused {D} (cmp : D -> D -> Z) heads (f : oracle) n (s : SList.slist D) d :
  (exists j, j < 3 /\ f (n + j) = false) \/
  (f (n + 3) = false /\
   SList.sl_levels s < SList.sl_calc_level (SList.sl_max_level (SList.sl_cnt s) (SList.sl_levels s)) 1 heads) ->
  SList.sl_insert cmp heads (f n) (f (n + 1)) (f (n + 2)) (f (n + 3)) s d = Ok (s, None).
Proof.
  intros H. apply SList_proofs.sl_insert_alloc_fail_atomic.
  destruct H as [(j & Hj & Hf) | H].
  - destruct j as [|[|[|j]]]; [rewrite Nat.add_0_r in Hf; tauto | tauto | tauto | lia].
  - tauto.
Qed.

(* ---- ares_htable ---- *)
Section Htable.
  Context {K V : Type}.
  Variable keq : K -> K -> bool.
  Variable hash : K -> Z -> Z.
  Hypothesis keq_sym : forall a b, keq a b = keq b a.
  Hypothesis keq_trans : forall a b c, keq a b = true -> keq b c = true -> keq a c = true.
  Hypothesis hash_keq : forall a b s, keq a b = true -> hash a s = hash b s.

  (* ares_htable_expand: a refused pre-allocation leaves the concrete table exactly as it was *)
  Lemma c19_htable_expand_refused (f : oracle) n k (h : @Htable.ht K V) :
    Htable.ht_expand_requests h <= k ->
    (exists j, j < Htable.ht_expand_requests h /\ f (n + j) = false) ->
    exists o', Htable.ht_expand hash (answers f n k) h = Ok (h, false, o').
  Proof.
    intros Hk Hj. apply Htable_proofs.ht_expand_alloc_fail_atomic.
    rewrite firstn_answers by exact Hk. apply answers_In_false. exact Hj.
  Qed.

  (* ares_htable_insert: a failed insert changes neither the map nor the key count, keeps the
     invariant, and happens only when one of the requests it made was refused *)
  Lemma c19_htable_insert_failed (f : oracle) n k (h h' : @Htable.ht K V) e :
    Htable_proofs.ht_inv keq hash h ->
    Htable.ht_insert keq hash (answers f n k) h e = Ok (h', Htable.HtFailed) ->
    Htable_proofs.ht_inv keq hash h' /\
    Permutation (Htable_proofs.ht_entries h') (Htable_proofs.ht_entries h) /\
    (exists j, j < k /\ f (n + j) = false) /\
    (forall key, Htable.ht_get keq hash h' key = Htable.ht_get keq hash h key) /\
    Htable.ht_num_keys h' = Htable.ht_num_keys h.
  Proof.
    intros Hinv Hrun.
    destruct (Htable_proofs.ht_insert_alloc_fail_atomic keq hash keq_sym keq_trans hash_keq _ h e h' Hinv Hrun)
      as (A & B & C & D & E).
    split; [exact A|]. split; [exact B|]. split; [apply answers_In_false; exact C|]. split; [exact D | exact E].
  Qed.
End Htable.

(* ---- ares_buf: the realloc of ares_buf_ensure_space is request n ---- *)
Lemma c19_buf_append_refused junk (f : oracle) n b bytes st b' :
  Buf_proofs.buf_inv b -> (Buf.buf_zlen bytes < Buf.BUF_ALLOC_LIMIT)%Z ->
  Buf.buf_append junk (f n) b bytes = Ok (st, b') -> st = ARES_ENOMEM ->
  Buf_proofs.buf_inv b' /\ Buf.buf_remaining b' = Buf.buf_remaining b /\
  Buf.bufs_tagged (Buf.buf_abs b') = Buf.bufs_tagged (Buf.buf_abs b).
Proof. apply Buf_proofs.buf_append_alloc_fail_atomic. Qed.
