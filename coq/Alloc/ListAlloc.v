(* C14 - allocation-bearing operations of ares_llist.c and ares_slist.c, in the shape of
   the C code: every ares_malloc_zero / ares_realloc_zero consumes one oracle answer, the
   fail: blocks free what the C code frees.  The element payload is an abstract Z.

   llist:  ares_llist_create, ares_llist_insert_at (first/last/before), node claim/destroy,
           ares_llist_destroy.
   slist:  ares_slist_insert (node, next[], prev[], possibly realloc of head[]; label fail:),
           ares_slist_node_destroy.  The level drawn by the coin flips is an argument. *)
From CAres.Core Require Export AllocFault.
From CAres.Gen Require Import Consts.
Local Open Scope nat_scope.

(* ------------------------------ ares_llist ------------------------------ *)
Record llnode := mkLn { ln_blk : blk; ln_val : Z }.
Record llist := mkLl { ll_blk : blk; ll_nodes : list llnode }.

Inductive ll_pos := LHead | LTail | LBefore (i : nat).

(* ares_llist_attach_at *)
Definition ll_attach (l : llist) (pos : ll_pos) (n : llnode) : llist :=
  mkLl (ll_blk l)
       (match pos with
        | LHead => n :: ll_nodes l
        | LTail => ll_nodes l ++ [n]
        | LBefore i => firstn i (ll_nodes l) ++ n :: skipn i (ll_nodes l)
        end).

Definition ll_abs (l : llist) : list Z := map ln_val (ll_nodes l).

Section Llist.
  Variable f : oracle.

  (* ares_llist_create *)
  Definition llist_create : M (option llist) :=
    p <- malloc f ;;
    match p with
    | None => ret None
    | Some b => ret (Some (mkLl b []))
    end.

  (* ares_llist_insert_at: node = ares_malloc_zero(); if (node == NULL) return NULL; attach *)
  Definition llist_insert_at (l : llist) (pos : ll_pos) (v : Z) : M (option llnode * llist) :=
    p <- malloc f ;;
    match p with
    | None => ret (None, l)
    | Some b => let n := mkLn b v in ret (Some n, ll_attach l pos n)
    end.

  (* ares_llist_node_claim of the i-th node (detach + ares_free(node)); NULL node: no-op *)
  Definition llist_node_claim (l : llist) (i : nat) : M llist :=
    match nth_error (ll_nodes l) i with
    | None => ret l
    | Some n => free (Some (ln_blk n)) ;;;
                ret (mkLl (ll_blk l) (firstn i (ll_nodes l) ++ skipn (S i) (ll_nodes l)))
    end.

  (* ares_llist_destroy: every node, then the list header *)
  Definition llist_destroy (l : llist) : M unit :=
    free_all (map ln_blk (ll_nodes l)) ;;; free (Some (ll_blk l)).
End Llist.

(* ------------------------------ ares_slist ------------------------------ *)
Record slnode := mkSn { sn_blk : blk; sn_next : blk; sn_prev : blk; sn_levels : nat; sn_val : Z }.
Record slist := mkSl {
  sl_blk : blk;              (* the ares_slist_t *)
  sl_head : blk;             (* list->head array *)
  sl_levels : nat;           (* list->levels *)
  sl_nodes : list slnode }.  (* level-0 chain, ascending *)

Definition sl_abs (l : slist) : list Z := map sn_val (sl_nodes l).

(* ares_slist_node_push, level-0 view: before the first element that is not smaller *)
Fixpoint sl_push (n : slnode) (l : list slnode) : list slnode :=
  match l with
  | [] => [n]
  | x :: r => if Z.ltb (sn_val x) (sn_val n) then x :: sl_push n r else n :: x :: r
  end.

Fixpoint z_insert (v : Z) (l : list Z) : list Z :=
  match l with
  | [] => [v]
  | x :: r => if Z.ltb x v then x :: z_insert v r else v :: x :: r
  end.

Section Slist.
  Variable f : oracle.

  (* ares_slist_create: the list, then list->head; the list is freed if head cannot be had *)
  Definition slist_create : M (option slist) :=
    p <- malloc f ;;
    match p with
    | None => ret None
    | Some lb =>
      hd <- malloc f ;;
      match hd with
      | None => free (Some lb) ;;; ret None
      | Some hb => ret (Some (mkSl lb hb (Z.to_nat ARES__SLIST_START_LEVELS) []))
      end
    end.

  (* label fail: of ares_slist_insert *)
  Definition slist_insert_fail (node next prev : option blk) : M unit :=
    match node with
    | None => ret tt
    | Some _ => free prev ;;; free next ;;; free node
    end.

  Definition slist_insert (l : slist) (v : Z) (level : nat) : M (option slnode * slist) :=
    node <- malloc f ;;
    match node with
    | None => slist_insert_fail None None None ;;; ret (None, l)
    | Some nb =>
      next <- malloc f ;;
      match next with
      | None => slist_insert_fail node None None ;;; ret (None, l)
      | Some xb =>
        prev <- malloc f ;;
        match prev with
        | None => slist_insert_fail node next None ;;; ret (None, l)
        | Some pb =>
          let n := mkSn nb xb pb level v in
          if Nat.ltb (sl_levels l) level then
            head <- realloc f (Some (sl_head l)) ;;
            match head with
            | None => slist_insert_fail node next prev ;;; ret (None, l)
            | Some hb => ret (Some n, mkSl (sl_blk l) hb level (sl_push n (sl_nodes l)))
            end
          else ret (Some n, mkSl (sl_blk l) (sl_head l) (sl_levels l) (sl_push n (sl_nodes l)))
        end
      end
    end.

  (* ares_slist_node_claim / _destroy of the i-th node: pop, free next, prev, node *)
  Definition slist_node_destroy (l : slist) (i : nat) : M slist :=
    match nth_error (sl_nodes l) i with
    | None => ret l
    | Some n => free (Some (sn_next n)) ;;; free (Some (sn_prev n)) ;;; free (Some (sn_blk n)) ;;;
                ret (mkSl (sl_blk l) (sl_head l) (sl_levels l)
                          (firstn i (sl_nodes l) ++ skipn (S i) (sl_nodes l)))
    end.
End Slist.

(* ares_slist_destroy *)
Definition slist_destroy (l : slist) : M unit :=
  free_all (flat_map (fun n => [sn_next n; sn_prev n; sn_blk n]) (sl_nodes l)) ;;;
  free (Some (sl_head l)) ;;; free (Some (sl_blk l)).
