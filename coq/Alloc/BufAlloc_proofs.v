(* C14 - ares_buf growth is all-or-nothing, for every allocation oracle. *)
From CAres.Alloc Require Import BufAlloc.
From CAres.Gen Require Import Consts.
Local Open Scope nat_scope.

Ltac fin := repeat split; auto; try lia; try (intros; congruence); try (intros; discriminate).

Definition buf_wf (b : buf) : Prop :=
  data_len b <= b_alloc_len b /\ b_off b <= data_len b /\
  (b_alloc b = None -> b_alloc_len b = 0) /\
  (forall t, b_tag b = Some t -> t <= data_len b).

Lemma skipn_skipn {A} (l : list A) a b : skipn a (skipn b l) = skipn (b + a) l.
Proof.
  revert l; induction b as [|b IH]; intros l; simpl; [reflexivity|].
  destruct l as [|x l]; [destruct a; reflexivity | apply IH].
Qed.

Lemma buf_reclaim_spec b :
  buf_wf b ->
  exists b1, buf_reclaim b = Ok b1 /\ buf_wf b1 /\
    buf_unread b1 = buf_unread b /\ buf_tagged b1 = buf_tagged b /\
    b_alloc b1 = b_alloc b /\ b_alloc_len b1 = b_alloc_len b /\ data_len b1 <= data_len b.
Proof.
  intros (Hlen & Hoff & Hnone & Htag). unfold buf_reclaim.
  destruct (b_alloc b) as [ab|] eqn:Ea.
  2:{ exists b. repeat split; auto; try lia; try (intros; congruence). }
  set (prefix := match b_tag b with
                 | Some t => if Nat.ltb t (b_off b) then t else b_off b
                 | None => b_off b end).
  assert (Hp : prefix <= b_off b /\ (forall t, b_tag b = Some t -> prefix <= t)).
  { subst prefix. destruct (b_tag b) as [t|].
    - destruct (Nat.ltb_spec t (b_off b)); split; try lia; intros t' Ht'; inversion Ht'; lia.
    - split; [lia | intros t' Ht'; discriminate]. }
  destruct Hp as [Hp1 Hp2].
  destruct (Nat.eqb_spec prefix 0) as [E0|E0].
  { exists b. repeat split; auto; try lia; try (intros; congruence). }
  destruct (Nat.ltb_spec (data_len b) prefix) as [Hbad|Hok]; [lia|].
  eexists. split; [reflexivity|].
  unfold buf_wf, buf_unread, buf_tagged, data_len in *. simpl.
  rewrite skipn_length.
  split; [|split; [|split; [|split; [|split]]]]; auto.
  - split; [lia|]. split; [lia|]. split; [intros H; discriminate|].
    intros t Ht. destruct (b_tag b) as [t0|] eqn:Et; simpl in Ht; inversion Ht; subst.
    specialize (Htag t0 eq_refl). specialize (Hp2 t0 eq_refl). lia.
  - rewrite skipn_skipn. f_equal. lia.
  - destruct (b_tag b) as [t0|] eqn:Et; simpl; [|reflexivity].
    rewrite skipn_skipn. f_equal. f_equal. specialize (Hp2 t0 eq_refl). lia.
  - lia.
Qed.

Lemma buf_grow_spec need dl : forall fuel sz,
  1 <= fuel -> 1 <= sz -> dl <= sz -> need + dl <= 2 * sz + fuel - 1 ->
  exists sz', buf_grow fuel sz dl need = Ok sz' /\ need <= sz' - dl /\ dl <= sz'.
Proof.
  induction fuel as [|fu IH]; intros sz Hf Hsz Hdl Hb; [lia|].
  simpl. destruct (Nat.ltb_spec (sz + (sz + 0)) dl) as [H|H]; [lia|].
  destruct (Nat.leb_spec need (sz + (sz + 0) - dl)) as [H1|H1].
  - eexists. split; [reflexivity|]. lia.
  - destruct fu as [|fu]; [lia|].
    apply IH; lia.
Qed.

(* ares_buf_ensure_space: success leaves room for `needed` bytes plus the terminator; a
   refused realloc leaves the reader's view, the allocation and the ledger as they were *)
Lemma buf_ensure_space_spec f b needed h :
  buf_wf b -> (forall ab, b_alloc b = Some ab -> In ab (h_live h)) ->
  exists st b1 h', buf_ensure_space f b needed h = Ok ((st, b1), h') /\ buf_wf b1 /\
    buf_unread b1 = buf_unread b /\ buf_tagged b1 = buf_tagged b /\
    ((st = ARES_SUCCESS /\ S needed <= b_alloc_len b1 - data_len b1 /\
      ((b_alloc b1 = b_alloc b /\ h' = h) \/
       (f (h_next h) = true /\ b_alloc b1 = Some (h_next h) /\ h_next h' = S (h_next h) /\
        h_live h' = h_next h :: match b_alloc b with Some ab => remove_one ab (h_live h) | None => h_live h end)))
     \/
     (st = ARES_ENOMEM /\ f (h_next h) = false /\ b_alloc b1 = b_alloc b /\
      b_alloc_len b1 = b_alloc_len b /\ h_live h' = h_live h /\ h_next h' = S (h_next h))).
Proof.
  intros Hwf Hlive. unfold buf_ensure_space.
  destruct Hwf as (Hlen & Hoff & Hnone & Htag).
  destruct (Nat.ltb_spec (b_alloc_len b) (data_len b)) as [Hbad|_]; [lia|].
  destruct (Nat.leb_spec (S needed) (b_alloc_len b - data_len b)) as [Hfit|Hnofit].
  { exists ARES_SUCCESS, b, h. split; [reflexivity|]. split; [repeat split; auto|].
    split; [reflexivity|]. split; [reflexivity|]. left. auto. }
  destruct (buf_reclaim_spec b) as [b1 (Hr & Hwf1 & Hun & Htg & Hal & Hall & Hdl)]; [repeat split; auto|].
  rewrite Hr.
  destruct (Nat.leb_spec (S needed) (b_alloc_len b1 - data_len b1)) as [Hfit1|Hnofit1].
  { exists ARES_SUCCESS, b1, h. split; [reflexivity|]. split; [exact Hwf1|].
    split; [exact Hun|]. split; [exact Htg|]. left. auto. }
  destruct Hwf1 as (Hlen1 & Hoff1 & Hnone1 & Htag1).
  set (sz0 := if Nat.eqb (b_alloc_len b1) 0 then 16 else b_alloc_len b1).
  assert (Hsz0 : 1 <= sz0 /\ data_len b1 <= sz0).
  { subst sz0. destruct (Nat.eqb_spec (b_alloc_len b1) 0); lia. }
  destruct (buf_grow_spec (S needed) (data_len b1) (S needed + data_len b1) sz0)
    as [sz (Hg & Hg1 & Hg2)]; try lia.
  rewrite Hg. unfold bindM, realloc, malloc, ret.
  destruct (b_alloc b1) as [ab|] eqn:Eab.
  - assert (Hin : In ab (h_live h)) by (apply Hlive; congruence).
    apply memb_In in Hin. rewrite Hin.
    destruct (f (h_next h)) eqn:Ef.
    + eexists; eexists; eexists. split; [reflexivity|].
      unfold buf_wf, buf_unread, buf_tagged, data_len in *. simpl.
      split; [repeat split; auto; try lia; intros; discriminate|].
      split; [exact Hun|]. split; [exact Htg|]. left.
      split; [reflexivity|]. split; [lia|]. right.
      rewrite <- Hal. auto.
    + eexists; eexists; eexists. split; [reflexivity|].
      split; [fin|]. split; [exact Hun|]. split; [exact Htg|]. right.
      simpl. fin.
  - destruct (f (h_next h)) eqn:Ef.
    + eexists; eexists; eexists. split; [reflexivity|].
      unfold buf_wf, buf_unread, buf_tagged, data_len in *. simpl.
      split; [repeat split; auto; try lia; intros; discriminate|].
      split; [exact Hun|]. split; [exact Htg|]. left.
      split; [reflexivity|]. split; [lia|]. right.
      rewrite <- Hal. auto.
    + eexists; eexists; eexists. split; [reflexivity|].
      split; [fin|]. split; [exact Hun|]. split; [exact Htg|]. right.
      simpl. fin.
Qed.

(* ares_buf_append *)
Lemma buf_append_atomic f b bytes h :
  buf_wf b -> (forall ab, b_alloc b = Some ab -> In ab (h_live h)) ->
  exists st b1 h', buf_append f b bytes h = Ok ((st, b1), h') /\ buf_wf b1 /\
    ((st = ARES_SUCCESS /\ buf_unread b1 = buf_unread b ++ bytes /\
      buf_tagged b1 = option_map (fun l => l ++ bytes) (buf_tagged b) /\
      ((b_alloc b1 = b_alloc b /\ h' = h) \/
       (f (h_next h) = true /\ b_alloc b1 = Some (h_next h) /\
        h_live h' = h_next h :: match b_alloc b with Some ab => remove_one ab (h_live h) | None => h_live h end)))
     \/
     (st = ARES_ENOMEM /\ bytes <> [] /\ f (h_next h) = false /\
      buf_unread b1 = buf_unread b /\ buf_tagged b1 = buf_tagged b /\
      b_alloc b1 = b_alloc b /\ h_live h' = h_live h)).
Proof.
  intros Hwf Hlive. unfold buf_append.
  destruct (Nat.eqb_spec (length bytes) 0) as [E0|E0].
  { exists ARES_SUCCESS, b, h. split; [reflexivity|]. split; [exact Hwf|]. left.
    destruct bytes; [|discriminate]. rewrite app_nil_r.
    split; [reflexivity|]. split; [reflexivity|]. split.
    - destruct (buf_tagged b); simpl; [rewrite app_nil_r|]; reflexivity.
    - left; auto. }
  destruct (buf_ensure_space_spec f b (length bytes) h Hwf Hlive)
    as (st & b1 & h' & Hrun & Hwf1 & Hun & Htg & Hcase).
  unfold bindM. rewrite Hrun.
  destruct Hcase as [(Hst & Hroom & Hheap) | (Hst & Hf & Hal & Hall & Hlv & Hnx)].
  - subst st. simpl.
    destruct Hwf1 as (Hlen1 & Hoff1 & Hnone1 & Htag1).
    destruct (Nat.ltb_spec (b_alloc_len b1) (data_len b1 + length bytes)) as [Hbad|_]; [lia|].
    eexists; eexists; eexists. split; [reflexivity|].
    unfold buf_wf, buf_unread, buf_tagged, data_len in *. simpl. rewrite app_length.
    split.
    { split; [lia|]. split; [lia|]. split.
      - intros Hn. apply Hnone1 in Hn. lia.
      - intros t Ht. apply Htag1 in Ht. lia. }
    left. split; [reflexivity|]. split.
    { rewrite skipn_app. rewrite Hun.
      replace (b_off b1 - length (b_data b1)) with 0 by lia. reflexivity. }
    split.
    { rewrite <- Htg. destruct (b_tag b1) as [t|] eqn:Et; simpl; [|reflexivity].
      rewrite skipn_app. specialize (Htag1 t eq_refl).
      replace (t - length (b_data b1)) with 0 by lia. reflexivity. }
    destruct Hheap as [[Ha Hh] | (Hf & Ha & Hn & Hl)]; [left; auto | right; auto].
  - subst st. simpl.
    eexists; eexists; eexists. split; [reflexivity|]. split; [exact Hwf1|]. right.
    repeat split; auto. intros Hb. subst bytes. simpl in E0. lia.
Qed.

(* non-vacuity: a buffer with consumed data and a tag; the append needs more room *)
Example buf_append_example :
  let b := mkBuf (Some 3) 32 (map Z.of_nat (seq 0 30)) 10 (Some 4) in
  let h := mkHeap 5 [3; 0] in
  buf_wf b /\
  (exists b1, buf_append (fail_at 5) b (repeat 7%Z 40) h = Ok ((ARES_ENOMEM, b1), mkHeap 6 [3; 0])
              /\ buf_unread b1 = buf_unread b) /\
  (exists b1 h', buf_append never_fail b (repeat 7%Z 40) h = Ok ((ARES_SUCCESS, b1), h')
              /\ b_alloc_len b1 = 128 /\ h_live h' = [5; 0]).
Proof.
  simpl. split; [|split].
  - unfold buf_wf, data_len; simpl. repeat split; try lia; try (intros; discriminate); try (intros t Ht; inversion Ht; lia).
  - eexists. vm_compute. split; reflexivity.
  - eexists; eexists. vm_compute. split; [reflexivity|]. split; reflexivity.
Qed.
