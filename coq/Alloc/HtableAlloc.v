(* C14 - ares_htable.c: create, insert, expand, remove, destroy with every allocation site
   explicit.  Keys and payloads are abstract Z; the (seeded) hash function is a parameter.

   ares_htable_expand pre-allocates EVERYTHING (the new bucket array, the array of spare
   lists, one spare ares_llist_t per recorded collision) before it moves the first entry; any
   failure jumps to done:, which frees what was obtained and restores htable->size.  The move
   itself allocates nothing.  It is modelled concretely (the drivers compare allocation counts
   and contents with the implementation) but the atomicity theorems do not depend on it.

   A chain is an ares_llist_t (one block) with its nodes (one block each), head first. *)
From CAres.Core Require Export AllocFault.
From CAres.Gen Require Import Consts.
Local Open Scope nat_scope.

Record hent := mkHe { he_node : blk; he_key : Z; he_val : Z }.
Record hchain := mkHc { hc_blk : blk; hc_ents : list hent }.
Record htable := mkHt {
  ht_blk : blk;                          (* the ares_htable_t *)
  ht_arr : blk;                          (* htable->buckets *)
  ht_size : nat;
  ht_keys : nat;                         (* num_keys *)
  ht_coll : nat;                         (* num_collisions *)
  ht_buckets : list (option hchain) }.   (* length = size *)

Definition set_nth {A} (l : list A) (i : nat) (x : A) : list A := firstn i l ++ x :: skipn (S i) l.

(* the abstract value: the association list, bucket by bucket *)
Definition chain_ents (c : option hchain) : list hent := match c with Some c => hc_ents c | None => [] end.
Definition ht_abs (t : htable) : list (Z * Z) :=
  map (fun e => (he_key e, he_val e)) (flat_map chain_ents (ht_buckets t)).

(* every block the table owns *)
Definition chain_blocks (c : option hchain) : list blk :=
  match c with Some c => hc_blk c :: map he_node (hc_ents c) | None => [] end.
Definition ht_blocks (t : htable) : list blk :=
  ht_blk t :: ht_arr t :: flat_map chain_blocks (ht_buckets t).

Fixpoint chain_find (l : list hent) (k : Z) : option hent :=
  match l with
  | [] => None
  | e :: r => if Z.eqb (he_key e) k then Some e else chain_find r k
  end.

Fixpoint chain_replace (l : list hent) (k v : Z) : list hent :=
  match l with
  | [] => []
  | e :: r => if Z.eqb (he_key e) k then mkHe (he_node e) k v :: r else e :: chain_replace r k v
  end.

Fixpoint chain_remove (l : list hent) (k : Z) : list hent :=
  match l with
  | [] => []
  | e :: r => if Z.eqb (he_key e) k then r else e :: chain_remove r k
  end.

Definition HT_CORRUPT : Z := (-2)%Z.   (* the "this isn't possible" goto done in the middle of the move *)

Section Htable.
  Variable hash : Z -> nat.
  Variable f : oracle.

  (* HASH_IDX: hash & (size - 1), size a power of two *)
  Definition hidx (sz : nat) (k : Z) : nat := hash k mod sz.

  Definition ht_get (t : htable) (k : Z) : option Z :=
    option_map he_val (chain_find (chain_ents (nth (hidx (ht_size t) k) (ht_buckets t) None)) k).

  (* ares_htable_create *)
  Definition ht_create : M (option htable) :=
    p <- malloc f ;;
    match p with
    | None => ret None
    | Some hb =>
      a <- malloc f ;;
      match a with
      | None => free (Some hb) ;;; ret None          (* fail: ares_htable_destroy(htable) *)
      | Some ab => let sz := Z.to_nat ARES__HTABLE_MIN_BUCKETS in
                   ret (Some (mkHt hb ab sz 0 0 (repeat None sz)))
      end
    end.

  (* one old chain of the move loop of ares_htable_expand; returns whether the old list
     header was re-used (swapped into the new array) *)
  Fixpoint move_chain (cblk : blk) (ents : list hent) (nb : list (option hchain))
           (pre : list blk) (coll nsize : nat)
    : outcome (bool * list (option hchain) * list blk * nat) :=
    match ents with
    | [] => Ok (false, nb, pre, coll)
    | e :: rest =>
      let idx := hidx nsize (he_key e) in
      match nth idx nb None with
      | None =>
        match rest with
        | [] => Ok (true, set_nth nb idx (Some (mkHc cblk [e])), pre, coll)       (* Swap! *)
        | _ :: _ =>
          match pre with
          | [] => Err HT_CORRUPT
          | p :: pre' => move_chain cblk rest (set_nth nb idx (Some (mkHc p [e]))) pre' coll nsize
          end
        end
      | Some c =>
        move_chain cblk rest (set_nth nb idx (Some (mkHc (hc_blk c) (e :: hc_ents c)))) pre (S coll) nsize
      end
    end.

  Fixpoint move_all (old : list (option hchain)) (nb : list (option hchain)) (pre : list blk)
           (coll nsize : nat) : M (list (option hchain) * list blk * nat) :=
    match old with
    | [] => ret (nb, pre, coll)
    | None :: r => move_all r nb pre coll nsize
    | Some c :: r =>
      match move_chain (hc_blk c) (hc_ents c) nb pre coll nsize with
      | UB k => fun _ => UB k
      | Err s => fun _ => Err s
      | Ok (reused, nb1, pre1, coll1) =>
        (if reused then ret tt else free (Some (hc_blk c))) ;;;    (* abandoned bucket, destroy *)
        move_all r nb1 pre1 coll1 nsize
      end
    end.

  (* label done: of ares_htable_expand on a pre-allocation failure *)
  Definition ht_expand_undo (arr prearr : option blk) (lists : list blk) : M unit :=
    free arr ;;; free_all lists ;;; free prearr.

  (* ares_htable_expand *)
  Definition ht_expand (t : htable) : M (bool * htable) :=
    (* compared in Z: the constant is 2^24, too large to build as a unary nat when extracted *)
    if Z.eqb (Z.of_nat (ht_size t)) ARES__HTABLE_MAX_BUCKETS then ret (true, t)
    else
      let nsize := 2 * ht_size t in
      arr <- malloc f ;;
      match arr with
      | None => ht_expand_undo None None [] ;;; ret (false, t)
      | Some ab =>
        prearr <- (if Nat.eqb (ht_coll t) 0 then ret (Some None)
                   else p <- malloc f ;; match p with None => ret None | Some pb => ret (Some (Some pb)) end) ;;
        match prearr with
        | None => ht_expand_undo arr None [] ;;; ret (false, t)
        | Some pa =>
          r <- malloc_n f (ht_coll t) [] ;;
          let (lists, ok) := r in
          if negb ok then ht_expand_undo arr pa lists ;;; ret (false, t)
          else
            m <- move_all (ht_buckets t) (repeat None nsize) lists 0 nsize ;;
            let '(nb, unused, coll) := m in
            free (Some (ht_arr t)) ;;;
            free_all unused ;;; free pa ;;;
            ret (true, mkHt (ht_blk t) ab nsize (ht_keys t) coll nb)
        end
      end.

  (* ares_htable_insert *)
  Definition ht_insert (t : htable) (k v : Z) : M (bool * htable) :=
    let idx := hidx (ht_size t) k in
    match chain_find (chain_ents (nth idx (ht_buckets t) None)) k with
    | Some _ =>
      (* replace: no allocation *)
      match nth idx (ht_buckets t) None with
      | Some c => ret (true, mkHt (ht_blk t) (ht_arr t) (ht_size t) (ht_keys t) (ht_coll t)
                                 (set_nth (ht_buckets t) idx (Some (mkHc (hc_blk c) (chain_replace (hc_ents c) k v)))))
      | None => ret (true, t)
      end
    | None =>
      e <- (if Nat.ltb (ht_size t * Z.to_nat ARES__HTABLE_EXPAND_PERCENT / 100) (ht_keys t + 1)
            then ht_expand t else ret (true, t)) ;;
      let (ok, t1) := e in
      if negb ok then ret (false, t1)
      else
        let idx := hidx (ht_size t1) k in
        c <- match nth idx (ht_buckets t1) None with
             | Some c => ret (Some (c, t1))
             | None =>
               p <- malloc f ;;                      (* ares_llist_create *)
               match p with
               | None => ret None
               | Some lb => let c := mkHc lb [] in
                            ret (Some (c, mkHt (ht_blk t1) (ht_arr t1) (ht_size t1) (ht_keys t1) (ht_coll t1)
                                               (set_nth (ht_buckets t1) idx (Some c))))
               end
             end ;;
        match c with
        | None => ret (false, t1)
        | Some (c, t2) =>
          n <- malloc f ;;                           (* ares_llist_insert_first *)
          match n with
          | None => ret (false, t2)
          | Some nb =>
            let c' := mkHc (hc_blk c) (mkHe nb k v :: hc_ents c) in
            ret (true, mkHt (ht_blk t2) (ht_arr t2) (ht_size t2) (S (ht_keys t2))
                            (if Nat.ltb 1 (length (hc_ents c')) then S (ht_coll t2) else ht_coll t2)
                            (set_nth (ht_buckets t2) idx (Some c')))
          end
        end
    end.

  (* ares_htable_remove *)
  Definition ht_remove (t : htable) (k : Z) : M (bool * htable) :=
    let idx := hidx (ht_size t) k in
    match nth idx (ht_buckets t) None with
    | None => ret (false, t)
    | Some c =>
      match chain_find (hc_ents c) k with
      | None => ret (false, t)
      | Some e =>
        free (Some (he_node e)) ;;;
        ret (true, mkHt (ht_blk t) (ht_arr t) (ht_size t) (ht_keys t - 1)
                        (if Nat.ltb 1 (length (hc_ents c)) then ht_coll t - 1 else ht_coll t)
                        (set_nth (ht_buckets t) idx (Some (mkHc (hc_blk c) (chain_remove (hc_ents c) k)))))
      end
    end.

  (* ares_htable_destroy *)
  Definition ht_destroy (t : htable) : M unit :=
    free_all (flat_map chain_blocks (ht_buckets t)) ;;; free (Some (ht_arr t)) ;;; free (Some (ht_blk t)).
End Htable.
