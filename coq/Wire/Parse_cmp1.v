(* C04_complete, part 1: what the reference reads at a message position the cursor operations
   fetch (the forward direction of Parse_ref2.v). *)
From CAres.Wire Require Import Cursor Cursor_proofs Name Name_proofs Record Parse Parse_proofs Escape Escape_proofs RefDecode Bits Name_ref Parse_ref Parse_ref2 Parse_sets Parse_ref3.
From CAres.Gen Require Import Consts LeafFns Tables.
Local Open Scope Z_scope.

Lemma printable_isprint : forall b, (b < 256)%N -> printable b = c_isprint (Z.of_N b).
Proof.
  intros b Hb. assert (Hin : In (Z.of_N b) octets) by (apply in_octets; lia).
  assert (Hall : forallb (fun z => Bool.eqb (printable (Z.to_N z)) (c_isprint z)) octets = true) by (vm_compute; reflexivity).
  rewrite forallb_forall in Hall. specialize (Hall _ Hin). rewrite N2Z.id in Hall. apply Bool.eqb_prop in Hall. exact Hall.
Qed.

Lemma all_printable_forallb l : bytes_ok l -> all_printable l = forallb printable l.
Proof.
  unfold all_printable. induction l as [|b l IH]; intros Hb; [reflexivity|].
  inversion Hb as [|? ? Hb1 Hb2]; subst. cbn [forallb]. rewrite (printable_isprint b Hb1), (IH Hb2). reflexivity.
Qed.

Lemma in_firstn {A} (x : A) : forall k l, In x (firstn k l) -> In x l.
Proof. induction k as [|k IH]; intros [|y l] H; cbn in *; try contradiction. destruct H as [H|H]; [left; exact H | right; apply IH; exact H]. Qed.

Lemma in_skipn {A} (x : A) : forall k l, In x (skipn k l) -> In x l.
Proof. induction k as [|k IH]; intros [|y l] H; cbn in *; try contradiction; try exact H. right. apply IH. exact H. Qed.

Section Fwd.
  Variable bs : list N.
  Hypothesis Hb : bytes_ok bs.
  Hypothesis Hl : Z.of_nat (length bs) < 2 ^ 64.
  Notation at_ := (at_ bs).
  Notation pos_ok := (pos_ok bs).

  Lemma u8_fwd o v :
    pos_ok o -> octet bs (Z.to_nat o) = Some v -> fetch_u8 (at_ o) = Ok (v, at_ (o + 1)) /\ pos_ok (o + 1).
  Proof.
    intros Ho H. destruct (at_good bs Hb Hl o Ho) as (Hc & Hx & Hbo).
    pose proof (fetch_u8_ref _ Hc Hx Hbo) as R. change (c_data (at_ o)) with bs in R; change (c_off (at_ o)) with o in R.
    rewrite H in R. destruct R as (R & _ & _). split; [exact R|].
    destruct (u8_at bs Hb Hl o v _ Ho R) as (_ & _ & G & _). exact G.
  Qed.

  Lemma be16_fwd o v :
    pos_ok o -> u16_at bs (Z.to_nat o) = Some v -> fetch_be16 (at_ o) = Ok (v, at_ (o + 2)) /\ pos_ok (o + 2).
  Proof.
    intros Ho H. destruct (at_good bs Hb Hl o Ho) as (Hc & Hx & Hbo).
    pose proof (fetch_be16_ref _ Hc Hx Hbo) as R. change (c_data (at_ o)) with bs in R; change (c_off (at_ o)) with o in R.
    rewrite H in R. destruct R as (R & _). split; [exact R|].
    destruct (be16_at bs Hb Hl o v _ Ho R) as (_ & _ & G). exact G.
  Qed.

  Lemma be32_fwd o v :
    pos_ok o -> u32_at bs (Z.to_nat o) = Some v -> fetch_be32 (at_ o) = Ok (v, at_ (o + 4)) /\ pos_ok (o + 4).
  Proof.
    intros Ho H. destruct (at_good bs Hb Hl o Ho) as (Hc & Hx & Hbo).
    pose proof (fetch_be32_ref bs _ Hc Hx Hbo) as R. change (c_data (at_ o)) with bs in R; change (c_off (at_ o)) with o in R.
    rewrite H in R. split; [exact R|].
    destruct (be32_at bs Hb Hl o v _ Ho R) as (_ & _ & G). exact G.
  Qed.

  Lemma slice_bound i k l : slice bs i k = Some l -> (i + k <= length bs)%nat.
  Proof. unfold slice. destruct (Nat.leb (i + k) (length bs)) eqn:E; [|discriminate]. intros _. apply Nat.leb_le. exact E. Qed.

  Lemma slice_bytes_ok i k l : slice bs i k = Some l -> bytes_ok l.
  Proof.
    unfold slice. destruct (Nat.leb (i + k) (length bs)); [|discriminate]. intros H. injection H as <-.
    unfold bytes_ok in *. rewrite Forall_forall in *. intros x Hx. apply Hb.
    apply (in_skipn x i). apply (in_firstn x k). exact Hx.
  Qed.

  Lemma bytes_fwd o len l :
    pos_ok o -> 0 < len -> slice bs (Z.to_nat o) (Z.to_nat len) = Some l ->
    fetch_bytes (at_ o) len = Ok (l, at_ (o + len)) /\ pos_ok (o + len).
  Proof.
    intros Ho Hlen S. destruct (at_good bs Hb Hl o Ho) as (Hc & Hx & Hbo).
    pose proof (slice_bound _ _ _ S) as Hbound.
    assert (Hpo : pos_ok (o + len)) by (unfold Parse_ref2.pos_ok in *; lia).
    split; [|exact Hpo].
    unfold fetch_bytes, fetch_remaining. rewrite (buf_len_ok _ Hc). cbn [bind].
    change (c_off (at_ o)) with o. change (c_len (at_ o)) with (Z.of_nat (length bs)).
    replace (len =? 0) with false by (symmetry; apply Z.eqb_neq; lia). cbn [orb].
    replace (Z.of_nat (length bs) - o <? len) with false by (symmetry; apply Z.ltb_ge; unfold Parse_ref2.pos_ok in *; lia).
    pose proof (slice_rest (at_ o) (Z.to_nat len) Hc) as SR. change (c_data (at_ o)) with bs in SR; change (c_off (at_ o)) with o in SR.
    rewrite S in SR. unfold read_bytes. rewrite take_exact_spec.
    destruct (Nat.leb (Z.to_nat len) (length (c_rest (at_ o)))); [|discriminate]. injection SR as ->. cbn [bind].
    rewrite (checked_consume_spec _ len Hc) by lia.
    change (c_off (at_ o)) with o. change (c_len (at_ o)) with (Z.of_nat (length bs)).
    replace (Z.of_nat (length bs) - o <? len) with false by (symmetry; apply Z.ltb_ge; unfold Parse_ref2.pos_ok in *; lia).
    reflexivity.
  Qed.

  Lemma peek_fwd o len l :
    pos_ok o -> slice bs (Z.to_nat o) (Z.to_nat len) = Some l -> peek_bytes (at_ o) len = Ok l.
  Proof.
    intros Ho S. destruct (at_good bs Hb Hl o Ho) as (Hc & Hx & Hbo).
    pose proof (slice_rest (at_ o) (Z.to_nat len) Hc) as SR. change (c_data (at_ o)) with bs in SR; change (c_off (at_ o)) with o in SR.
    rewrite S in SR. unfold peek_bytes, read_bytes. rewrite take_exact_spec.
    destruct (Nat.leb (Z.to_nat len) (length (c_rest (at_ o)))); [|discriminate]. injection SR as ->. reflexivity.
  Qed.

  Lemma str_fwd o len l :
    pos_ok o -> 0 < len -> slice bs (Z.to_nat o) (Z.to_nat len) = Some l -> forallb printable l = true ->
    fetch_str (at_ o) len = Ok (l, at_ (o + len)) /\ pos_ok (o + len).
  Proof.
    intros Ho Hlen S Hp. destruct (at_good bs Hb Hl o Ho) as (Hc & Hx & Hbo).
    pose proof (slice_bound _ _ _ S) as Hbound.
    assert (Hpo : pos_ok (o + len)) by (unfold Parse_ref2.pos_ok in *; lia).
    split; [|exact Hpo].
    unfold fetch_str, fetch_remaining. rewrite (buf_len_ok _ Hc). cbn [bind].
    change (c_off (at_ o)) with o. change (c_len (at_ o)) with (Z.of_nat (length bs)).
    replace (len =? 0) with false by (symmetry; apply Z.eqb_neq; lia). cbn [orb].
    replace (Z.of_nat (length bs) - o <? len) with false by (symmetry; apply Z.ltb_ge; unfold Parse_ref2.pos_ok in *; lia).
    pose proof (slice_rest (at_ o) (Z.to_nat len) Hc) as SR. change (c_data (at_ o)) with bs in SR; change (c_off (at_ o)) with o in SR.
    rewrite S in SR. unfold read_bytes. rewrite take_exact_spec.
    pose proof (slice_bytes_ok _ _ _ S) as Hbl.
    destruct (Nat.leb (Z.to_nat len) (length (c_rest (at_ o)))); [|discriminate]. injection SR as SRl.
    assert (Hfl : firstn (Z.to_nat len) (c_rest (at_ o)) = l) by (symmetry; exact SRl). rewrite Hfl. cbn [bind].
    rewrite (all_printable_forallb l Hbl), Hp. cbn [negb].
    rewrite (checked_consume_spec _ len Hc) by lia.
    change (c_off (at_ o)) with o. change (c_len (at_ o)) with (Z.of_nat (length bs)).
    replace (Z.of_nat (length bs) - o <? len) with false by (symmetry; apply Z.ltb_ge; unfold Parse_ref2.pos_ok in *; lia).
    reflexivity.
  Qed.

  Lemma name_fwd fuel o ls en :
    pos_ok o -> (name_fuel (cur_of_bytes bs) <= fuel)%nat -> ref_name bs (Z.to_nat o) = Some (ls, en) ->
    dns_name_parse fuel (at_ o) true false = Ok (escape_name ls, at_ (Z.of_nat en)) /\ pos_ok (Z.of_nat en).
  Proof.
    intros Ho Hf H. destruct (at_good bs Hb Hl o Ho) as (Hc & Hx & Hbo).
    pose proof (name_parse_ref fuel _ Hc Hx Hbo Hf) as R. change (c_data (at_ o)) with bs in R; change (c_off (at_ o)) with o in R.
    rewrite H in R. destruct R as [R _]. split; [exact R|].
    destruct (name_at bs Hb Hl fuel o _ _ Ho Hf R) as (ls' & en' & R' & _ & Hc' & G).
    rewrite H in R'. injection R' as <- <-. exact G.
  Qed.
End Fwd.
