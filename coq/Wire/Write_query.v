(* The legacy query builders (ares_create_query / ares_mkquery -> ares_dns_record_create_query ->
   ares_dns_write): the width of the question TYPE.
   Gen/Tables.v records, from probing the working tree, whether ares_dns_rec_type_isvalid() accepts
   question types outside 0..65536 ([rec_type_query_outside]); both statements below compile on
   either tree and say something on one of them. *)
From CAres.Wire Require Import Cursor Name Record Parse Escape RefDecode Write Roundtrip.
From CAres.Gen Require Import Consts LeafFns Tables.
Local Open Scope Z_scope.

Definition ex_qname : list N := [97; 46; 101; 120]%N.     (* "a.ex" *)

(* a tree that accepts them sends a different question: type 65537 goes out as A *)
Theorem query_type_truncated :
  rec_type_query_outside = true ->
  exists bs d', create_query wfixed ex_qname 1 65537 7 1 0 = Ok bs /\ dns_parse bs 0 = Ok d' /\
                d_qd d' = [mkQ ex_qname 1 1].
Proof.
  intros H. vm_compute in H.
  first [discriminate H | (eexists _, _; split; [vm_compute; reflexivity | split; vm_compute; reflexivity])].
Qed.

(* a tree that refuses them: every record the builder returns has a question type that fits *)
Theorem query_type_fits name dnsclass type id flags max_udp d :
  rec_type_query_outside = false ->
  record_create_query name dnsclass type id flags max_udp = Ok d ->
  Forall (fun q => 0 <= q_type q < 65536) (d_qd d).
Proof.
  (* no bare [discriminate] here: on a tree where the constant is [true] the hypothesis Hout is itself
     absurd, and the proof must not depend on which tree generated Tables.v *)
  intros Hout H. unfold record_create_query in H.
  destruct (record_create id (Z.land flags 65535) ARES_OPCODE_QUERY ARES_RCODE_NOERROR) as [d0| |] eqn:E0; cbn [bind] in H;
    [|discriminate H|discriminate H].
  assert (Hq0 : d_qd d0 = []).
  { unfold record_create in E0. destruct (c_ares_dns_flags_arevalid _) as [fv| |]; cbn [bind] in E0;
      [|discriminate E0|discriminate E0].
    match type of E0 with (if ?c then _ else _) = _ => destruct c end; [discriminate E0|]. injection E0 as <-. reflexivity. }
  destruct (query_add d0 name type dnsclass) as [d1| |] eqn:E1; cbn [bind] in H; [|discriminate H|discriminate H].
  assert (Hq1 : d_qd d1 = [mkQ name type dnsclass] /\ 0 <= type < 65536).
  { unfold query_add in E1. destruct (rec_type_isvalid type true) eqn:Ev; cbn [negb orb] in E1; [|discriminate E1].
    destruct (negb (class_isvalid dnsclass type true)); [discriminate E1|]. injection E1 as <-. cbn [d_qd]. rewrite Hq0.
    split; [reflexivity|].
    unfold rec_type_isvalid in Ev. destruct ((0 <=? type) && (type <=? 65536)) eqn:Er.
    - apply andb_true_iff in Er. destruct Er as (A & B). apply Z.leb_le in A. apply Z.leb_le in B.
      unfold tbl_rec_types_invalid_query, zmem in Ev. cbn [existsb] in Ev.
      destruct (type =? 65536) eqn:E6; [discriminate Ev|]. apply Z.eqb_neq in E6. lia.
    - rewrite Ev in Hout. discriminate Hout. }
  destruct Hq1 as (Hq1 & Hr).
  assert (Hd : d_qd d = d_qd d1).
  { destruct (max_udp >? 0); [|injection H as <-; reflexivity].
    destruct (max_udp >? 65535); [discriminate H|].
    repeat match type of H with bind ?m _ = _ => destruct m; cbn [bind] in H; [|discriminate H|discriminate H] end.
    injection H as <-. reflexivity. }
  rewrite Hd, Hq1. constructor; [exact Hr | constructor].
Qed.
