(* C04_sound, RR sections: each field decoder of the parser model against RefDecode.ref_field. *)
From CAres.Wire Require Import Cursor Cursor_proofs Name Name_proofs Record Parse Parse_proofs Escape Escape_proofs RefDecode Bits Name_ref Parse_ref Parse_ref2 Parse_sets.
From CAres.Gen Require Import Consts LeafFns Tables.
Local Open Scope Z_scope.

Lemma slice_length bs i k l : slice bs i k = Some l -> length l = k.
Proof.
  unfold slice. destruct (Nat.leb (i + k) (length bs)) eqn:E; [|discriminate]. intros H. injection H as <-.
  apply Nat.leb_le in E. rewrite firstn_length, skipn_length. lia.
Qed.

(* the extended RCODE bits of an OPT RR joining the 12-bit rcode being assembled *)
Definition rc_upd (rc : Z) (ext : option Z) : Z :=
  match ext with Some x => Z.lor rc (x * 16) | None => rc end.

(* ref_rr after the fixed part of the RR: owner name, TYPE, CLASS, TTL, RDLENGTH known *)
Definition ref_body (bs : list N) (name : list N) (t cls ttl : Z) (rd : nat) (rdlen : Z)
  : option (rr * nat * option Z * bool) :=
  let e := (rd + Z.to_nat rdlen)%nat in
  if t =? 41 then
    match ref_tlvs (S (Z.to_nat rdlen)) bs rd e with
    | None => None
    | Some opts =>
      Some (mkRR name 41 1 0
                 [(ARES_RR_OPT_UDP_SIZE, FU16 cls); (ARES_RR_OPT_VERSION, FU8 ((ttl / 65536) mod 256));
                  (ARES_RR_OPT_FLAGS, FU16 (ttl mod 65536)); (ARES_RR_OPT_OPTIONS, FOpt opts)],
            e, Some (ttl / 16777216), true)
    end
  else
    match layout t with
    | None =>
      match slice bs rd (Z.to_nat rdlen) with
      | Some d => Some (mkRR name ARES_REC_TYPE_RAW_RR cls ttl
                             [(ARES_RR_RAW_RR_TYPE, FU16 t); (ARES_RR_RAW_RR_DATA, FBin (Some d))], e, None, true)
      | None => None
      end
    | Some lay =>
      match ref_fields bs lay rd e with
      | None => None
      | Some (fs, used) =>
        if Nat.ltb e used then None
        else Some (mkRR name t cls ttl fs, e, None,
                   Nat.eqb used e || existsb (fun kv => is_tlvs (snd kv)) lay)
      end
    end.

Lemma ref_rr_body bs pos :
  ref_rr bs pos =
  match ref_name bs pos with
  | None => None
  | Some (owner, p) =>
    match u16_at bs p, u16_at bs (p + 2), u32_at bs (p + 4), u16_at bs (p + 8) with
    | Some t, Some cls, Some ttl, Some rdlen =>
      if Nat.ltb (length bs) (p + 10 + Z.to_nat rdlen) then None
      else ref_body bs (escape_name owner) t cls ttl (p + 10) rdlen
    | _, _, _, _ => None
    end
  end.
Proof. reflexivity. Qed.

Lemma layout_valid t lay : layout t = Some lay -> rec_type_isvalid t false = true /\ t <> 41.
Proof.
  unfold layout.
  repeat match goal with
         | |- (if ?t =? ?k then _ else _) = _ -> _ =>
           let E := fresh "E" in
           destruct (t =? k) eqn:E; [apply Z.eqb_eq in E; subst t; intros _; split; [reflexivity | discriminate] | clear E]
         end.
  discriminate.
Qed.

(* the OPT TTL field, RFC 6891 6.1.3, as the C code slices it *)
Lemma opt_ext_rcode t : 0 <= t < 2 ^ 32 -> Z.land (Z.shiftr t 20) 4080 = (t / 16777216) * 16.
Proof.
  intros Ht.
  assert (E : Z.land (Z.shiftr t 20) 4080 = Z.shiftl (Z.land (Z.shiftr t 24) 255) 4).
  { apply Z.bits_inj'. intros i Hi. rewrite Z.land_spec, Z.shiftr_spec by lia.
    change 4080 with (Z.shiftl 255 4).
    destruct (Z.ltb i 4) eqn:E4.
    - apply Z.ltb_lt in E4. rewrite !Z.shiftl_spec_low by lia. apply andb_false_r.
    - apply Z.ltb_ge in E4. rewrite !Z.shiftl_spec by lia. rewrite Z.land_spec, Z.shiftr_spec by lia.
      replace (i - 4 + 24) with (i + 20) by lia. reflexivity. }
  rewrite E. change 255 with (Z.ones 8). rewrite Z.land_ones by lia.
  rewrite Z.shiftr_div_pow2 by lia. rewrite Z.shiftl_mul_pow2 by lia.
  change (2 ^ 24) with 16777216. change (2 ^ 4) with 16. change (2 ^ 8) with 256.
  rewrite Z.mod_small; [reflexivity|]. change (2 ^ 32) with 4294967296 in Ht.
  split; [apply Z.div_pos; lia | apply Z.div_lt_upper_bound; lia].
Qed.

Lemma opt_version t : 0 <= t -> Z.land (Z.land (Z.shiftr t 16) 255) 255 = (t / 65536) mod 256.
Proof.
  intros Ht. change 255 with (Z.ones 8). rewrite !Z.land_ones by lia. rewrite Z.shiftr_div_pow2 by lia.
  change (2 ^ 16) with 65536. change (2 ^ 8) with 256. rewrite Z.mod_mod by lia. reflexivity.
Qed.

Lemma opt_flags t : 0 <= t -> Z.land t 65535 = t mod 65536.
Proof. intros Ht. change 65535 with (Z.ones 16). rewrite Z.land_ones by lia. reflexivity. Qed.

Lemma ref_fields_app bs e : forall l1 l2 pos,
  ref_fields bs (l1 ++ l2) pos e =
  match ref_fields bs l1 pos e with
  | Some (fs1, p1) => match ref_fields bs l2 p1 e with
                      | Some (fs2, p2) => Some (fs1 ++ fs2, p2)
                      | None => None
                      end
  | None => None
  end.
Proof.
  induction l1 as [|[key k] l1 IH]; intros l2 pos; cbn [app ref_fields].
  - destruct (ref_fields bs l2 pos e) as [[fs2 p2]|]; reflexivity.
  - destruct (ref_field bs k pos e) as [[v nxt]|]; [|reflexivity]. rewrite IH.
    destruct (ref_fields bs l1 nxt e) as [[fs1 p1]|]; [|reflexivity].
    destruct (ref_fields bs l2 p1 e) as [[fs2 p2]|]; reflexivity.
Qed.

Section Fields.
  Variable bs : list N.
  Hypothesis Hb : bytes_ok bs.
  Hypothesis Hl : Z.of_nat (length bs) < 2 ^ 64.
  Variable fuel : nat.
  Hypothesis Hfuel : (name_fuel (cur_of_bytes bs) <= fuel)%nat.
  Notation n := (Z.of_nat (length bs)).

  Notation at_ := (at_ bs).
  Notation pos_ok := (pos_ok bs).

  (* RDATA of the RR being decoded: starts at [rd], RDLENGTH [rdl], ends at [e] *)
  Variables rd rdl : Z.
  Hypothesis Hrd : pos_ok rd.
  Hypothesis Hrdl : 0 <= rdl < 65536.
  Let e : Z := rd + rdl.

  (* what one field decoder does, in terms of the reference: value, next position, setter *)
  Definition field_agrees (k : fkind) (key : Z) (o : Z) (r : rr) (res : st) : Prop :=
    exists v o', ref_field bs k (Z.to_nat o) (Z.to_nat e) = Some (v, Z.to_nat o') /\
                 fst res = at_ o' /\ pos_ok o' /\ o <= o' /\ rr_set r key v = Ok (snd res).

  Lemma rem_at o :
    pos_ok o -> rd <= o ->
    rr_remaining_len (at_ o) (n - rd) rdl = Ok (if o - rd >=? rdl then 0 else rdl - (o - rd)).
  Proof.
    intros Ho Hro. destruct (at_good bs Hb Hl o Ho) as (Hc & _ & _).
    destruct (rr_remaining_len_ok (at_ o) (n - rd) rdl Hc) as (m & Hm & _ & Hmeq).
    rewrite Hm. f_equal. rewrite Hmeq.
    change (c_len (at_ o)) with n. change (c_off (at_ o)) with o.
    replace (n - rd - (n - o)) with (o - rd) by lia.
    unfold pos_ok, Parse_ref2.pos_ok in *. rewrite Z.mod_small by (rewrite pow64 in *; lia).
    destruct (o - rd >=? rdl) eqn:E; [reflexivity|].
    rewrite Z.geb_leb in E. apply Z.leb_gt in E. apply Z.mod_small. rewrite pow64 in *. lia.
  Qed.

  Lemma u8_field o r key res :
    pos_ok o -> parse_and_set_u8 (at_ o, r) key = Ok res -> field_agrees KU8 key o r res.
  Proof.
    intros Ho H. unfold parse_and_set_u8 in H. cbn [fst snd] in H.
    destruct (fetch_u8 (at_ o)) as [[v c']| |] eqn:E; cbn [bind fst snd] in H; try discriminate.
    destruct (u8_at bs Hb Hl o v c' Ho E) as (U & -> & Ho' & _).
    destruct (rr_set r key (FU8 v)) as [r'| |] eqn:Es; cbn [bind fst snd] in H; try discriminate. injection H as <-.
    exists (FU8 v), (o + 1). cbn [ref_field]. rewrite U.
    replace (Z.to_nat (o + 1)) with (Z.to_nat o + 1)%nat by (unfold pos_ok in *; lia).
    split; [reflexivity | split; [reflexivity | split; [exact Ho' | split; [lia | exact Es]]]].
  Qed.

  Lemma u16_field o r key res :
    pos_ok o -> parse_and_set_be16 (at_ o, r) key = Ok res -> field_agrees KU16 key o r res.
  Proof.
    intros Ho H. unfold parse_and_set_be16 in H. cbn [fst snd] in H.
    destruct (fetch_be16 (at_ o)) as [[v c']| |] eqn:E; cbn [bind fst snd] in H; try discriminate.
    destruct (be16_at bs Hb Hl o v c' Ho E) as (U & -> & Ho').
    destruct (rr_set r key (FU16 v)) as [r'| |] eqn:Es; cbn [bind fst snd] in H; try discriminate. injection H as <-.
    exists (FU16 v), (o + 2). cbn [ref_field]. rewrite U.
    replace (Z.to_nat (o + 2)) with (Z.to_nat o + 2)%nat by (unfold pos_ok in *; lia).
    split; [reflexivity | split; [reflexivity | split; [exact Ho' | split; [lia | exact Es]]]].
  Qed.

  Lemma u32_field o r key res :
    pos_ok o -> parse_and_set_be32 (at_ o, r) key = Ok res -> field_agrees KU32 key o r res.
  Proof.
    intros Ho H. unfold parse_and_set_be32 in H. cbn [fst snd] in H.
    destruct (fetch_be32 (at_ o)) as [[v c']| |] eqn:E; cbn [bind fst snd] in H; try discriminate.
    destruct (be32_at bs Hb Hl o v c' Ho E) as (U & -> & Ho').
    destruct (rr_set r key (FU32 v)) as [r'| |] eqn:Es; cbn [bind fst snd] in H; try discriminate. injection H as <-.
    exists (FU32 v), (o + 4). cbn [ref_field]. rewrite U.
    replace (Z.to_nat (o + 4)) with (Z.to_nat o + 4)%nat by (unfold pos_ok in *; lia).
    split; [reflexivity | split; [reflexivity | split; [exact Ho' | split; [lia | exact Es]]]].
  Qed.

  Definition set_addr4 (s : st) (key : Z) : outcome st :=
    do r <- fetch_bytes (fst s) sizeof_in_addr;
    do r' <- rr_set (snd s) key (FAddr (fst r));
    Ok (snd r, r').
  Definition set_addr6 (s : st) (key : Z) : outcome st :=
    do r <- fetch_bytes (fst s) sizeof_in6_addr;
    do r' <- rr_set (snd s) key (FAddr6 (fst r));
    Ok (snd r, r').

  Lemma addr4_field o r key res :
    pos_ok o -> set_addr4 (at_ o, r) key = Ok res -> field_agrees KAddr4 key o r res.
  Proof.
    intros Ho H. unfold set_addr4 in H. cbn [fst snd] in H.
    destruct (fetch_bytes (at_ o) sizeof_in_addr) as [[l c']| |] eqn:E; cbn [bind fst snd] in H; try discriminate.
    destruct (bytes_at bs Hb Hl o sizeof_in_addr l c' Ho ltac:(discriminate) E) as (U & -> & Ho' & _).
    destruct (rr_set r key (FAddr l)) as [r'| |] eqn:Es; cbn [bind fst snd] in H; try discriminate. injection H as <-.
    exists (FAddr l), (o + 4). cbn [ref_field]. change (Z.to_nat sizeof_in_addr) with 4%nat in U. rewrite U.
    replace (Z.to_nat (o + 4)) with (Z.to_nat o + 4)%nat by (unfold pos_ok in *; lia).
    split; [reflexivity | split; [reflexivity | split; [exact Ho' | split; [lia | exact Es]]]].
  Qed.

  Lemma addr6_field o r key res :
    pos_ok o -> set_addr6 (at_ o, r) key = Ok res -> field_agrees KAddr6 key o r res.
  Proof.
    intros Ho H. unfold set_addr6 in H. cbn [fst snd] in H.
    destruct (fetch_bytes (at_ o) sizeof_in6_addr) as [[l c']| |] eqn:E; cbn [bind fst snd] in H; try discriminate.
    destruct (bytes_at bs Hb Hl o sizeof_in6_addr l c' Ho ltac:(discriminate) E) as (U & -> & Ho' & _).
    destruct (rr_set r key (FAddr6 l)) as [r'| |] eqn:Es; cbn [bind fst snd] in H; try discriminate. injection H as <-.
    exists (FAddr6 l), (o + 16). cbn [ref_field]. change (Z.to_nat sizeof_in6_addr) with 16%nat in U. rewrite U.
    replace (Z.to_nat (o + 16)) with (Z.to_nat o + 16)%nat by (unfold pos_ok in *; lia).
    split; [reflexivity | split; [reflexivity | split; [exact Ho' | split; [lia | exact Es]]]].
  Qed.

  Lemma name_field o r key res :
    pos_ok o -> parse_and_set_dns_name fuel (at_ o, r) key = Ok res -> field_agrees KName key o r res.
  Proof.
    intros Ho H. unfold parse_and_set_dns_name in H. cbn [fst snd] in H.
    destruct (dns_name_parse fuel (at_ o) true false) as [[nm c']| |] eqn:E; cbn [bind fst snd] in H; try discriminate.
    destruct (name_at bs Hb Hl fuel o nm c' Ho Hfuel E) as (ls & en & R & -> & -> & Ho').
    destruct (rr_set r key (FName (Some (escape_name ls)))) as [r'| |] eqn:Es; cbn [bind fst snd] in H; try discriminate. injection H as <-.
    exists (FName (Some (escape_name ls))), (Z.of_nat en). cbn [ref_field]. rewrite R. rewrite Nat2Z.id.
    split; [reflexivity | split; [reflexivity | split; [exact Ho' | split; [| exact Es]]]].
    (* the cursor moved forward *)
    destruct (at_good bs Hb Hl o Ho) as (Hc & _ & _).
    pose proof (dns_name_parse_safe fuel _ true false Hc Hfuel) as S. rewrite E in S. cbn [safe snd] in S.
    destruct S as (_ & _ & Hlt). change (c_off (at_ o)) with o in Hlt. cbn in Hlt. lia.
  Qed.

  Ltac posu := unfold e, pos_ok, Parse_ref2.pos_ok in *.
  Ltac leb_false :=
    match goal with |- context [Nat.leb ?a ?b] =>
      let X := fresh "X" in destruct (Nat.leb a b) eqn:X; [apply Nat.leb_le in X; posu; lia|] end.
  Ltac leb_true :=
    match goal with |- context [Nat.leb ?a ?b] =>
      let X := fresh "X" in destruct (Nat.leb a b) eqn:X; [|apply Nat.leb_gt in X; posu; lia] end.
  Ltac ltb_false :=
    match goal with |- context [Nat.ltb ?a ?b] =>
      let X := fresh "X" in destruct (Nat.ltb a b) eqn:X; [apply Nat.ltb_lt in X; posu; lia|] end.

  (* <character-string> bounded by what is left of RDATA *)
  Lemma str_field o r key ne res :
    pos_ok o -> rd <= o ->
    (do m <- rr_remaining_len (at_ o) (n - rd) rdl; parse_and_set_dns_str (at_ o, r) m key (negb ne)) = Ok res ->
    field_agrees (KCharStr ne) key o r res.
  Proof.
    intros Ho Hro H. rewrite (rem_at o Ho Hro) in H. cbn [bind] in H.
    unfold parse_and_set_dns_str in H. cbn [fst snd] in H.
    match type of H with bind ?m _ = _ => destruct m as [[str c']| |] eqn:E end; cbn [bind fst snd] in H; try discriminate.
    unfold parse_dns_binstr in E.
    destruct (o - rd >=? rdl) eqn:Eg; [change (0 =? 0) with true in E; discriminate E|].
    rewrite Z.geb_leb in Eg. apply Z.leb_gt in Eg.
    destruct (rdl - (o - rd) =? 0) eqn:E0; [discriminate|].
    destruct (fetch_u8 (at_ o)) as [[len c1]| |] eqn:E8; cbn [bind] in E; try discriminate.
    destruct (u8_at bs Hb Hl o len c1 Ho E8) as (U & -> & Ho1 & Hlen).
    rewrite Z.mod_small in E by (rewrite pow64; lia).
    destruct (len >? rdl - (o - rd) - 1) eqn:Egt; [discriminate|].
    rewrite Z.gtb_ltb in Egt. apply Z.ltb_ge in Egt.
    destruct (len =? 0) eqn:El0.
    - injection E as <- <-. apply Z.eqb_eq in El0. subst len.
      destruct ne; [discriminate H|]. cbn [negb andb] in H.
      destruct (rr_set r key (FStr (Some []))) as [r'| |] eqn:Es; cbn [bind fst snd] in H; try discriminate. injection H as <-.
      exists (FStr (Some [])), (o + 1). cbn [ref_field]. leb_false. rewrite U. cbn [andb].
      change (Z.to_nat 0) with 0%nat. ltb_false.
      unfold slice. leb_true.
      replace (Z.to_nat o + 1 + 0)%nat with (Z.to_nat (o + 1)) by (posu; lia). cbn [firstn].
      split; [reflexivity | split; [reflexivity | split; [exact Ho1 | split; [lia | exact Es]]]].
    - apply Z.eqb_neq in El0.
      rewrite (buf_len_at bs Hb Hl _ Ho1) in E. cbn [bind] in E.
      match type of E with bind ?m _ = _ => destruct m as [[]| |] end; cbn [bind] in E; try discriminate.
      destruct (bytes_at bs Hb Hl (o + 1) len str c' Ho1 ltac:(lia) E) as (S & -> & Ho2 & _).
      assert (Hn0 : negb (negb ne) && (Z.of_nat (length str) =? 0) = false).
      { rewrite (slice_length _ _ _ _ S). replace (Z.of_nat (Z.to_nat len) =? 0) with false; [apply andb_false_r|].
        symmetry. apply Z.eqb_neq. lia. }
      rewrite Hn0 in H.
      destruct (rr_set r key (FStr (Some str))) as [r'| |] eqn:Es; cbn [bind fst snd] in H; try discriminate. injection H as <-.
      exists (FStr (Some str)), (o + 1 + len). cbn [ref_field]. leb_false. rewrite U.
      replace (len =? 0) with false by (symmetry; apply Z.eqb_neq; exact El0). rewrite andb_false_r.
      ltb_false. replace (Z.to_nat o + 1)%nat with (Z.to_nat (o + 1)) by (posu; lia). rewrite S.
      replace (Z.to_nat (o + 1) + Z.to_nat len)%nat with (Z.to_nat (o + 1 + len)) by (posu; lia).
      split; [reflexivity | split; [reflexivity | split; [exact Ho2 | split; [lia | exact Es]]]].
  Qed.

  (* the rest of RDATA as an opaque block *)
  Lemma restbin_field o r key res :
    pos_ok o -> rd <= o ->
    parse_and_set_rest_bin (at_ o, r) (n - rd) rdl key = Ok res -> field_agrees KRestBin key o r res.
  Proof.
    intros Ho Hro H. unfold parse_and_set_rest_bin in H. cbn [fst snd] in H.
    rewrite (rem_at o Ho Hro) in H. cbn [bind] in H.
    destruct (o - rd >=? rdl) eqn:Eg; [change (0 =? 0) with true in H; discriminate H|].
    rewrite Z.geb_leb in Eg. apply Z.leb_gt in Eg.
    destruct (rdl - (o - rd) =? 0) eqn:E0; [discriminate|].
    destruct (fetch_bytes (at_ o) (rdl - (o - rd))) as [[l c']| |] eqn:E; cbn [bind fst snd] in H; try discriminate.
    destruct (bytes_at bs Hb Hl o (rdl - (o - rd)) l c' Ho ltac:(lia) E) as (S & -> & Ho' & _).
    destruct (rr_set r key (FBin (Some l))) as [r'| |] eqn:Es; cbn [bind fst snd] in H; try discriminate. injection H as <-.
    exists (FBin (Some l)), e. cbn [ref_field]. leb_false.
    replace (Z.to_nat e - Z.to_nat o)%nat with (Z.to_nat (rdl - (o - rd))) by (posu; lia). rewrite S.
    replace (o + (rdl - (o - rd))) with e in * by (unfold e; lia).
    split; [reflexivity | split; [reflexivity | split; [exact Ho' | split; [unfold e; lia | exact Es]]]].
  Qed.

  (* the rest of RDATA as text (URI target) *)
  Definition set_rest_text (s : st) (key : Z) : outcome st :=
    do remaining_len <- rr_remaining_len (fst s) (n - rd) rdl;
    if remaining_len =? 0 then Err ARES_EBADRESP else
    do r <- fetch_str (fst s) remaining_len;
    if negb (all_printable (fst r)) then Err ARES_EBADRESP else
    do r' <- rr_set (snd s) key (FName (Some (fst r)));
    Ok (snd r, r').

  Lemma resttext_field o r key res :
    pos_ok o -> rd <= o -> set_rest_text (at_ o, r) key = Ok res -> field_agrees KRestText key o r res.
  Proof.
    intros Ho Hro H. unfold set_rest_text in H. cbn [fst snd] in H.
    rewrite (rem_at o Ho Hro) in H. cbn [bind] in H.
    destruct (o - rd >=? rdl) eqn:Eg; [change (0 =? 0) with true in H; discriminate H|].
    rewrite Z.geb_leb in Eg. apply Z.leb_gt in Eg.
    destruct (rdl - (o - rd) =? 0) eqn:E0; [discriminate|].
    destruct (fetch_str (at_ o) (rdl - (o - rd))) as [[l c']| |] eqn:E; cbn [bind fst snd] in H; try discriminate.
    destruct (str_at bs Hb Hl o (rdl - (o - rd)) l c' Ho ltac:(lia) E) as (S & -> & Ho' & _).
    destruct (negb (all_printable l)); [discriminate|].
    destruct (rr_set r key (FName (Some l))) as [r'| |] eqn:Es; cbn [bind fst snd] in H; try discriminate. injection H as <-.
    exists (FName (Some l)), e. cbn [ref_field]. leb_false.
    replace (Z.to_nat e - Z.to_nat o)%nat with (Z.to_nat (rdl - (o - rd))) by (posu; lia). rewrite S.
    replace (o + (rdl - (o - rd))) with e in * by (unfold e; lia).
    split; [reflexivity | split; [reflexivity | split; [exact Ho' | split; [unfold e; lia | exact Es]]]].
  Qed.

  (* ---- a whole layout of simple fields ---- *)
  Definition simple_kind (k : fkind) : bool :=
    match k with KCharStrs | KTlvs => false | _ => true end.

  Definition dec_field (k : fkind) (key : Z) (s : st) : outcome st :=
    match k with
    | KAddr4 => set_addr4 s key
    | KAddr6 => set_addr6 s key
    | KU8 => parse_and_set_u8 s key
    | KU16 => parse_and_set_be16 s key
    | KU32 => parse_and_set_be32 s key
    | KName => parse_and_set_dns_name fuel s key
    | KCharStr ne => do m <- rr_remaining_len (fst s) (n - rd) rdl; parse_and_set_dns_str s m key (negb ne)
    | KRestBin => parse_and_set_rest_bin s (n - rd) rdl key
    | KRestText => set_rest_text s key
    | KCharStrs | KTlvs => Err ARES_EFORMERR
    end.

  Lemma dec_field_agrees k key o r res :
    pos_ok o -> rd <= o -> dec_field k key (at_ o, r) = Ok res -> field_agrees k key o r res.
  Proof.
    intros Ho Hro H. destruct k; cbn [dec_field] in H; try discriminate.
    - apply addr4_field; assumption.
    - apply addr6_field; assumption.
    - apply u8_field; assumption.
    - apply u16_field; assumption.
    - apply u32_field; assumption.
    - apply name_field; assumption.
    - apply str_field; assumption.
    - apply restbin_field; assumption.
    - apply resttext_field; assumption.
  Qed.

  (* the last decoder is in tail position and the "remaining length" of a <character-string> is
     computed in the enclosing function, as in the C functions *)
  Fixpoint dec_fields (lay : list (Z * fkind)) (s : st) : outcome st :=
    match lay with
    | [] => Ok s
    | (key, KCharStr ne) :: rest =>
      do m <- rr_remaining_len (fst s) (n - rd) rdl;
      match rest with
      | [] => parse_and_set_dns_str s m key (negb ne)
      | _ => do s' <- parse_and_set_dns_str s m key (negb ne); dec_fields rest s'
      end
    | (key, k) :: rest =>
      match rest with
      | [] => dec_field k key s
      | _ => do s' <- dec_field k key s; dec_fields rest s'
      end
    end.

  Lemma dec_fields_unfold key k rest s :
    dec_fields ((key, k) :: rest) s =
    match rest with
    | [] => dec_field k key s
    | _ => do s' <- dec_field k key s; dec_fields rest s'
    end.
  Proof.
    destruct k; try reflexivity.
    cbn [dec_fields dec_field]. destruct (rr_remaining_len (fst s) (n - rd) rdl); destruct rest; reflexivity.
  Qed.

  Lemma dec_fields_agree : forall lay o r res,
    pos_ok o -> rd <= o -> dec_fields lay (at_ o, r) = Ok res ->
    exists fs o', ref_fields bs lay (Z.to_nat o) (Z.to_nat e) = Some (fs, Z.to_nat o') /\
                  fst res = at_ o' /\ pos_ok o' /\ o <= o' /\ sets r fs = Ok (snd res) /\
                  map fst fs = map fst lay.
  Proof.
    induction lay as [|[key k] rest IH]; intros o r res Ho Hro H.
    - cbn in H. injection H as <-. exists [], o. cbn.
      split; [reflexivity | split; [reflexivity | split; [exact Ho | split; [lia | split; reflexivity]]]].
    - destruct rest as [|b rest'].
      + rewrite dec_fields_unfold in H. destruct (dec_field_agrees k key o r res Ho Hro H) as (v & o' & R & Hc & Ho' & Hle & Hs).
        exists [(key, v)], o'. cbn [ref_fields]. rewrite R. cbn [sets]. rewrite Hs. cbn [bind].
        split; [reflexivity | split; [exact Hc | split; [exact Ho' | split; [exact Hle | split; reflexivity]]]].
      + remember (b :: rest') as rest eqn:Erest.
        assert (H' : (do s' <- dec_field k key (at_ o, r); dec_fields rest s') = Ok res).
        { rewrite dec_fields_unfold in H. rewrite Erest. rewrite Erest in H. exact H. }
        clear H. destruct (dec_field k key (at_ o, r)) as [[c1 r1]| |] eqn:E1; cbn [bind] in H'; try discriminate.
        destruct (dec_field_agrees k key o r _ Ho Hro E1) as (v & o1 & R & Hc & Ho1 & Hle & Hs).
        cbn [fst snd] in Hc, Hs. subst c1.
        destruct (IH o1 r1 res Ho1 ltac:(lia) H') as (fs & o' & R' & Hc' & Ho' & Hle' & Hs' & Hk).
        exists ((key, v) :: fs), o'. cbn [ref_fields]. rewrite R, R'. cbn [sets]. rewrite Hs. cbn [bind].
        split; [reflexivity | split; [exact Hc' | split; [exact Ho' | split; [lia | split; [exact Hs'|]]]]].
        cbn [map fst]. rewrite Hk. reflexivity.
  Qed.

  (* ---- the multistring loop (TXT) ---- *)
  Lemma charstrs_done o f : (0 < f)%nat -> o = e -> ref_charstrs f bs (Z.to_nat o) (Z.to_nat e) = Some [].
  Proof.
    intros Hf ->. destruct f; [lia|]. cbn [ref_charstrs]. rewrite Nat.leb_refl, Nat.eqb_refl. reflexivity.
  Qed.

  Lemma mloop vp : forall lf o acc res,
    pos_ok o -> rd <= o ->
    multistring_loop lf (at_ o) (n - rd) rdl vp acc = Ok res ->
    exists l o', res = (acc ++ l, at_ o') /\ pos_ok o' /\ o <= o' /\ e <= o' /\
      (o' = e -> forall f, (Z.to_nat e - Z.to_nat o < f)%nat ->
                 ref_charstrs f bs (Z.to_nat o) (Z.to_nat e) = Some l).
  Proof.
    induction lf as [|lf IH]; intros o acc res Ho Hro H; cbn [multistring_loop] in H;
      rewrite (buf_len_at bs Hb Hl o Ho) in H; cbn [bind] in H;
      replace (n - rd - (n - o)) with (o - rd) in H by lia;
      rewrite Z.mod_small in H by (posu; rewrite pow64 in *; lia);
      destruct (o - rd <? rdl) eqn:Elt; cbn [negb] in H; try discriminate.
    1,3: apply Z.ltb_ge in Elt; injection H as <-; exists [], o; rewrite app_nil_r;
         (split; [reflexivity | split; [exact Ho | split; [lia | split; [unfold e; lia|]]]]);
         intros Heq f Hf; apply charstrs_done; [lia | exact Heq].
    apply Z.ltb_lt in Elt.
    destruct (fetch_u8 (at_ o)) as [[len c1]| |] eqn:E8; cbn [bind] in H; try discriminate.
    destruct (u8_at bs Hb Hl o len c1 Ho E8) as (U & -> & Ho1 & Hlen).
    rewrite (buf_len_at bs Hb Hl _ Ho1) in H. cbn [bind] in H.
    match type of H with bind ?m _ = _ => destruct m as [[]| |] end; cbn [bind] in H; try discriminate.
    assert (Hstep : exists str, slice bs (Z.to_nat (o + 1)) (Z.to_nat len) = Some str /\ pos_ok (o + 1 + len) /\
              multistring_loop lf (at_ (o + 1 + len)) (n - rd) rdl vp (acc ++ [str]) = Ok res).
    { destruct (len =? 0) eqn:El0; cbn [negb] in H.
      - cbn [bind fst snd] in H. apply Z.eqb_eq in El0. subst len. exists [].
        replace (o + 1 + 0) with (o + 1) by lia. split; [|split; [exact Ho1 | exact H]].
        unfold slice. change (Z.to_nat 0) with 0%nat. leb_true. reflexivity.
      - apply Z.eqb_neq in El0.
        destruct (fetch_bytes (at_ (o + 1)) len) as [[str c2]| |] eqn:Eb; cbn [bind fst snd] in H; try discriminate.
        destruct (bytes_at bs Hb Hl (o + 1) len str c2 Ho1 ltac:(lia) Eb) as (S & -> & Ho2 & _).
        exists str. split; [exact S | split; [exact Ho2 | exact H]]. }
    destruct Hstep as (str & S & Ho2 & Hrec).
    destruct (IH _ _ _ Ho2 ltac:(lia) Hrec) as (l & o' & -> & Ho' & Hle & Hee & Href).
    exists (str :: l), o'. rewrite <- app_assoc. cbn [app].
    split; [reflexivity | split; [exact Ho' | split; [lia | split; [exact Hee|]]]].
    intros Heq f Hf. destruct f; [lia|]. cbn [ref_charstrs]. leb_false. rewrite U.
    replace (Z.to_nat o + 1)%nat with (Z.to_nat (o + 1)) by (posu; lia). rewrite S.
    replace (Z.to_nat (o + 1) + Z.to_nat len)%nat with (Z.to_nat (o + 1 + len)) by (posu; lia).
    rewrite (Href Heq f); [reflexivity|]. posu. lia.
  Qed.

  (* TXT: what ares_dns_parse_and_set_dns_abin stores is the list of <character-string>s *)
  Lemma abin_field r key vp res :
    parse_and_set_dns_abin (at_ rd, r) rdl key vp = Ok res ->
    exists l o', fst res = at_ o' /\ pos_ok o' /\ e <= o' /\ rr_set r key (FAbin l) = Ok (snd res) /\
      (o' = e -> ref_field bs KCharStrs (Z.to_nat rd) (Z.to_nat e) = Some (FAbin l, Z.to_nat e)).
  Proof.
    intros H. unfold parse_and_set_dns_abin, multistring_parse_buf in H. cbn [fst snd] in H.
    rewrite (buf_len_at bs Hb Hl rd Hrd) in H. cbn [bind] in H.
    destruct (rdl =? 0) eqn:E0; [discriminate|]. apply Z.eqb_neq in E0.
    match type of H with bind ?m _ = _ => destruct m as [[l c']| |] eqn:El end; cbn [bind fst snd] in H; try discriminate.
    destruct (mloop vp _ rd [] _ Hrd ltac:(lia) El) as (l' & o' & Hres & Ho' & Hle & Hee & Href).
    cbn [app] in Hres. injection Hres as -> ->.
    destruct (rr_set r key (FAbin l')) as [r'| |] eqn:Es; cbn [bind fst snd] in H; try discriminate. injection H as <-.
    exists l', o'. split; [reflexivity | split; [exact Ho' | split; [exact Hee | split; [exact Es|]]]].
    intros Heq. cbn [ref_field]. leb_false. rewrite (Href Heq); [reflexivity | lia].
  Qed.

  (* ---- the option loop (OPT, SVCB, HTTPS) of the fixed tree ---- *)
  Lemma tlvs_done o f : (0 < f)%nat -> o = e -> ref_tlvs f bs (Z.to_nat o) (Z.to_nat e) = Some [].
  Proof.
    intros Hf ->. destruct f; [lia|]. cbn [ref_tlvs]. rewrite Nat.leb_refl, Nat.eqb_refl. reflexivity.
  Qed.

  Lemma oloop key : forall lf o r res,
    pos_ok o -> rd <= o ->
    opt_loop fixed_tree lf (at_ o, r) (n - rd) rdl key = Ok res ->
    exists l o', fst res = at_ o' /\ pos_ok o' /\ o <= o' /\ (rd + rdl <= o -> o' = o) /\ e <= o' /\
      adds r key l = Ok (snd res) /\
      (o' = e -> forall f, (Z.to_nat e - Z.to_nat o < f)%nat ->
                 ref_tlvs f bs (Z.to_nat o) (Z.to_nat e) = Some l).
  Proof.
    induction lf as [|lf IH]; intros o r res Ho Hro H; cbn [opt_loop fst snd] in H;
      rewrite (rem_at o Ho Hro) in H; cbn [bind] in H;
      destruct (o - rd >=? rdl) eqn:Eg.
    1,3: change (0 =? 0) with true in H; rewrite Z.geb_leb in Eg; apply Z.leb_le in Eg; injection H as <-;
         exists [], o; cbn [fst snd adds];
         (split; [reflexivity | split; [exact Ho | split; [lia | split; [reflexivity | split; [unfold e; lia | split; [reflexivity|]]]]]]);
         intros Heq f Hf; apply tlvs_done; [lia | exact Heq].
    all: rewrite Z.geb_leb in Eg; apply Z.leb_gt in Eg;
         destruct (rdl - (o - rd) =? 0) eqn:E0; [apply Z.eqb_eq in E0; lia|]; try discriminate.
    destruct (fetch_be16 (at_ o)) as [[opt c1]| |] eqn:E1; cbn [bind] in H; try discriminate.
    destruct (be16_at bs Hb Hl o opt c1 Ho E1) as (U1 & -> & Ho1).
    destruct (fetch_be16 (at_ (o + 2))) as [[len c2]| |] eqn:E2; cbn [bind] in H; try discriminate.
    destruct (be16_at bs Hb Hl (o + 2) len c2 Ho1 E2) as (U2 & -> & Ho2).
    assert (Hlen : 0 <= len).
    { destruct (at_good bs Hb Hl (o + 2) Ho1) as (Hc & _ & _).
      pose proof (fetch_be16_safe _ Hc) as S. rewrite E2 in S. cbn [safe fst snd] in S. lia. }
    assert (Hstep : exists v, slice bs (Z.to_nat (o + 2 + 2)) (Z.to_nat len) = Some v /\ pos_ok (o + 2 + 2 + len) /\
              (do r' <- rr_add_opt r key opt v; opt_loop fixed_tree lf (at_ (o + 2 + 2 + len), r') (n - rd) rdl key) = Ok res).
    { destruct (len =? 0) eqn:El0; cbn [negb] in H.
      - cbn [bind fst snd] in H. apply Z.eqb_eq in El0. subst len. exists [].
        replace (o + 2 + 2 + 0) with (o + 2 + 2) by lia. split; [|split; [exact Ho2 | exact H]].
        unfold slice. change (Z.to_nat 0) with 0%nat. leb_true. reflexivity.
      - apply Z.eqb_neq in El0.
        destruct (fetch_bytes (at_ (o + 2 + 2)) len) as [[v c3]| |] eqn:Eb; cbn [bind fst snd] in H; try discriminate.
        destruct (bytes_at bs Hb Hl (o + 2 + 2) len v c3 Ho2 ltac:(lia) Eb) as (S & -> & Ho3 & _).
        exists v. split; [exact S | split; [exact Ho3 | exact H]]. }
    destruct Hstep as (v & S & Ho3 & Hrec).
    destruct (rr_add_opt r key opt v) as [r1| |] eqn:Ea; cbn [bind] in Hrec; try discriminate.
    destruct (IH _ _ _ Ho3 ltac:(lia) Hrec) as (l & o' & Hc' & Ho' & Hle & _ & Hee & Hadds & Href).
    exists ((opt, v) :: l), o'. cbn [adds]. rewrite Ea. cbn [bind].
    split; [exact Hc' | split; [exact Ho' | split; [lia | split; [lia | split; [exact Hee | split; [exact Hadds|]]]]]].
    intros Heq f Hf. destruct f; [lia|]. cbn [ref_tlvs]. leb_false. rewrite U1.
    replace (Z.to_nat o + 2)%nat with (Z.to_nat (o + 2)) by (posu; lia). rewrite U2.
    replace (Z.to_nat o + 4)%nat with (Z.to_nat (o + 2 + 2)) by (posu; lia). rewrite S.
    replace (Z.to_nat (o + 2 + 2) + Z.to_nat len)%nat with (Z.to_nat (o + 2 + 2 + len)) by (posu; lia).
    rewrite (Href Heq f); [reflexivity|]. posu. lia.
  Qed.

  (* ---- the per-type decoders follow the layout table ---- *)
  Definition simple_layout (lay : list (Z * fkind)) : bool := forallb (fun kv => simple_kind (snd kv)) lay.

  Ltac eqb_literals :=
    repeat match goal with
           | |- context [Z.eqb ?a ?b] =>
             let v := eval vm_compute in (Z.eqb a b) in
             match v with true => idtac | false => idtac end;
             change (Z.eqb a b) with v; cbv iota
           end.

  Ltac nodup_keys := repeat (apply NoDup_cons; [cbn; intuition discriminate|]); apply NoDup_nil.

  Ltac one_layout :=
    intros Hs; first [discriminate Hs |
      split; [unfold parse_rr_data; cbv zeta; eqb_literals;
              unfold parse_rr_a, parse_rr_aaaa, parse_rr_ns, parse_rr_cname, parse_rr_ptr, parse_rr_soa, parse_rr_hinfo,
                     parse_rr_mx, parse_rr_sig, parse_rr_srv, parse_rr_naptr, parse_rr_tlsa, parse_rr_uri, parse_rr_caa;
              cbn [fst snd]; try (rewrite (buf_len_at bs Hb Hl rd Hrd); cbn [bind]); reflexivity
            | split; [vm_compute; reflexivity | split; [vm_compute; nodup_keys | split; [reflexivity | discriminate]]]]].

  Lemma layout_simple t lay r0 raw cls ttl rc :
    layout t = Some lay -> simple_layout lay = true ->
    parse_rr_data fixed_tree fuel (at_ rd, r0) rdl t raw cls ttl rc = (do s' <- dec_fields lay (at_ rd, r0); Ok (s', rc))
    /\ map fst (zero_fields (rr_keys t)) = map fst lay /\ NoDup (map fst lay)
    /\ rec_type_isvalid t false = true /\ t <> 41.
  Proof.
    unfold layout.
    repeat match goal with
           | |- (if ?t =? ?k then _ else _) = _ -> _ =>
             let E := fresh "E" in
             destruct (t =? k) eqn:E;
             [apply Z.eqb_eq in E; subst t; intros H; injection H as <-; one_layout | clear E]
           end.
    discriminate.
  Qed.

  (* ---- one RDATA against the reference ---- *)
  Definition body_agrees (name : list N) (t cls ttl rc : Z) (c1 : cursor) (r1 : rr) (rc' : Z) : Prop :=
    exists o', c1 = at_ o' /\ pos_ok o' /\ rd <= o' /\
      (o' <= e -> exists r_ref ext x,
          ref_body bs name t cls ttl (Z.to_nat rd) rdl = Some (r_ref, Z.to_nat e, ext, x) /\
          norm_rr r1 = norm_rr r_ref /\ rc' = rc_upd rc ext).

  Lemma e_nat : (Z.to_nat rd + Z.to_nat rdl)%nat = Z.to_nat e.
  Proof. posu. lia. Qed.

  Lemma simple_rr t lay name cls ttl raw rc c1 r1 rc' :
    layout t = Some lay -> simple_layout lay = true ->
    parse_rr_data fixed_tree fuel (at_ rd, mkRR name t cls ttl (zero_fields (rr_keys t))) rdl t raw cls ttl rc
      = Ok ((c1, r1), rc') ->
    body_agrees name t cls ttl rc c1 r1 rc'.
  Proof.
    intros Hlay Hs H. destruct (layout_simple t lay (mkRR name t cls ttl (zero_fields (rr_keys t))) raw cls ttl rc Hlay Hs) as (Heq & Hk & Hnd & _ & Hn41).
    rewrite Heq in H. destruct (dec_fields lay _) as [[c r]| |] eqn:E; cbn [bind] in H; try discriminate.
    injection H as -> -> <-.
    destruct (dec_fields_agree lay rd _ _ Hrd ltac:(lia) E) as (fs & o' & R & Hc & Ho' & Hle & Hsets & Hkeys).
    cbn [fst snd] in Hc, Hsets.
    exists o'. split; [exact Hc | split; [exact Ho' | split; [exact Hle|]]].
    intros Hoe. exists (mkRR name t cls ttl fs), None, (Nat.eqb (Z.to_nat o') (Z.to_nat e) || existsb (fun kv => is_tlvs (snd kv)) lay).
    split; [|split; [|reflexivity]].
    - unfold ref_body. cbv zeta. rewrite e_nat. replace (t =? 41) with false by (symmetry; apply Z.eqb_neq; exact Hn41).
      rewrite Hlay, R. ltb_false. reflexivity.
    - f_equal.
      pose proof (sets_fields fs _ _ [] (zero_fields (rr_keys t)) [] Hsets (eq_sym (app_nil_r _))) as F.
      cbn [rr_fields rr_name rr_type rr_class rr_ttl app] in F. rewrite app_nil_r in F. apply F.
      + rewrite Hk, Hkeys. reflexivity.
      + rewrite Hk. exact Hnd.
  Qed.

  Lemma txt_rr name cls ttl raw rc c1 r1 rc' :
    parse_rr_data fixed_tree fuel (at_ rd, mkRR name 16 cls ttl (zero_fields (rr_keys 16))) rdl 16 raw cls ttl rc
      = Ok ((c1, r1), rc') ->
    body_agrees name 16 cls ttl rc c1 r1 rc'.
  Proof.
    intros H. unfold parse_rr_data in H. cbv zeta in H.
    change (parse_rr_txt (at_ rd, mkRR name 16 cls ttl (zero_fields (rr_keys 16))) rdl)
      with (parse_and_set_dns_abin (at_ rd, mkRR name 16 cls ttl (zero_fields (rr_keys 16))) rdl ARES_RR_TXT_DATA false) in H.
    change (16 =? ARES_REC_TYPE_A) with false in H. change (16 =? ARES_REC_TYPE_NS) with false in H.
    change (16 =? ARES_REC_TYPE_CNAME) with false in H. change (16 =? ARES_REC_TYPE_SOA) with false in H.
    change (16 =? ARES_REC_TYPE_PTR) with false in H. change (16 =? ARES_REC_TYPE_HINFO) with false in H.
    change (16 =? ARES_REC_TYPE_MX) with false in H. change (16 =? ARES_REC_TYPE_TXT) with true in H. cbv iota in H.
    destruct (parse_and_set_dns_abin _ rdl ARES_RR_TXT_DATA false) as [[c r]| |] eqn:E; cbn [bind] in H; try discriminate.
    injection H as -> -> <-.
    destruct (abin_field _ _ _ _ E) as (l & o' & Hc & Ho' & Hee & Hset & Href). cbn [fst snd] in Hc, Hset.
    exists o'. split; [exact Hc | split; [exact Ho' | split; [posu; lia|]]].
    intros Hoe. assert (Heq : o' = e) by lia. specialize (Href Heq).
    exists (mkRR name 16 cls ttl [(ARES_RR_TXT_DATA, FAbin l)]), None, true.
    split; [|split; [|reflexivity]].
    - unfold ref_body. cbv zeta. rewrite e_nat. change (16 =? 41) with false. cbv iota.
      change (layout 16) with (Some [(ARES_RR_TXT_DATA, KCharStrs)]). cbv iota. cbn [ref_fields]. rewrite Href.
      rewrite Nat.ltb_irrefl, Nat.eqb_refl. reflexivity.
    - f_equal. destruct (rr_set_inv _ _ _ _ Hset) as (-> & _). reflexivity.
  Qed.

  (* SVCB and HTTPS: priority, target, parameter TLVs *)
  Definition svcb_like (kp kt kpar : Z) (s : st) : outcome st :=
    do orig_len <- buf_len (fst s);
    do s <- parse_and_set_be16 s kp;
    do s <- parse_and_set_dns_name fuel s kt;
    opt_loop fixed_tree (Z.to_nat rdl) s orig_len rdl kpar.

  Lemma svcb_like_agree kp kt kpar r0 res :
    svcb_like kp kt kpar (at_ rd, r0) = Ok res ->
    exists v1 v2 l o2 o' r2,
      ref_fields bs [(kp, KU16); (kt, KName)] (Z.to_nat rd) (Z.to_nat e) = Some ([(kp, v1); (kt, v2)], Z.to_nat o2) /\
      sets r0 [(kp, v1); (kt, v2)] = Ok r2 /\ adds r2 kpar l = Ok (snd res) /\
      fst res = at_ o' /\ pos_ok o' /\ pos_ok o2 /\ rd <= o2 /\ o2 <= o' /\ e <= o' /\
      (o' = e -> ref_tlvs (S (Z.to_nat e - Z.to_nat o2)) bs (Z.to_nat o2) (Z.to_nat e) = Some l).
  Proof.
    intros H. unfold svcb_like in H. cbn [fst] in H. rewrite (buf_len_at bs Hb Hl rd Hrd) in H. cbn [bind] in H.
    destruct (parse_and_set_be16 (at_ rd, r0) kp) as [s1| |] eqn:E1; cbn [bind] in H; try discriminate.
    destruct (parse_and_set_dns_name fuel s1 kt) as [[c2 r2]| |] eqn:E2; cbn [bind] in H; try discriminate.
    assert (Hd : dec_fields [(kp, KU16); (kt, KName)] (at_ rd, r0) = Ok (c2, r2)).
    { cbn [dec_fields dec_field]. rewrite E1. cbn [bind]. exact E2. }
    destruct (dec_fields_agree _ rd _ _ Hrd ltac:(lia) Hd) as (fs & o2 & R & Hc & Ho2 & Hle & Hsets & Hkeys).
    cbn [fst snd] in Hc, Hsets. subst c2.
    destruct fs as [|[k1 v1] [|[k2 v2] [|]]]; try discriminate. cbn [map fst] in Hkeys. injection Hkeys as -> ->.
    destruct (oloop kpar _ o2 r2 res Ho2 ltac:(lia) H) as (l & o' & Hc' & Ho' & Hle' & _ & Hee & Hadds & Href).
    exists v1, v2, l, o2, o', r2.
    split; [exact R | split; [exact Hsets | split; [exact Hadds | split; [exact Hc' | split; [exact Ho' |
      split; [exact Ho2 | split; [exact Hle | split; [exact Hle' | split; [exact Hee|]]]]]]]]].
    intros Heq. apply Href; [exact Heq | lia].
  Qed.

  Ltac eqb_literals_in H :=
    repeat match type of H with
           | context [Z.eqb ?a ?b] =>
             let v := eval vm_compute in (Z.eqb a b) in
             match v with true => idtac | false => idtac end;
             change (Z.eqb a b) with v in H; cbv iota in H
           end.

  Lemma tlv_rr t kp kt kpar name cls ttl rc c1 r1 rc' :
    layout t = Some [(kp, KU16); (kt, KName); (kpar, KTlvs)] ->
    zero_fields (rr_keys t) = [(kp, FU16 0); (kt, FName None); (kpar, FOpt [])] ->
    NoDup [kp; kt; kpar] -> t <> 41 ->
    (do s' <- svcb_like kp kt kpar (at_ rd, mkRR name t cls ttl (zero_fields (rr_keys t))); Ok (s', rc))
      = Ok ((c1, r1), rc') ->
    body_agrees name t cls ttl rc c1 r1 rc'.
  Proof.
    intros Hlay Hz Hnd Hn41 H.
    destruct (svcb_like _ _ _ _) as [[c r]| |] eqn:E; cbn [bind] in H; try discriminate. injection H as -> -> <-.
    destruct (svcb_like_agree _ _ _ _ _ E) as (v1 & v2 & l & o2 & o' & r2 & R & Hsets & Hadds & Hc & Ho' & Ho2 & Hr2 & Hle & Hee & Href).
    cbn [fst snd] in Hc, Hadds.
    exists o'. split; [exact Hc | split; [exact Ho' | split; [lia|]]].
    intros Hoe. assert (Heq : o' = e) by lia. specialize (Href Heq).
    exists (mkRR name t cls ttl [(kp, v1); (kt, v2); (kpar, FOpt l)]), None,
           (Nat.eqb (Z.to_nat o2) (Z.to_nat e) || existsb (fun kv => is_tlvs (snd kv)) [(kp, KU16); (kt, KName); (kpar, KTlvs)]).
    split; [|split; [|reflexivity]].
    - unfold ref_body. cbv zeta. rewrite e_nat. replace (t =? 41) with false by (symmetry; apply Z.eqb_neq; exact Hn41).
      rewrite Hlay.
      change [(kp, KU16); (kt, KName); (kpar, KTlvs)] with ([(kp, KU16); (kt, KName)] ++ [(kpar, KTlvs)]) at 1.
      rewrite ref_fields_app, R. cbn [ref_fields ref_field]. rewrite Href. cbn [app]. ltb_false. reflexivity.
    - f_equal.
      assert (Hnd0 : NoDup (map fst (zero_fields (rr_keys t)))) by (rewrite Hz; exact Hnd).
      pose proof (sets_fields _ _ _ [] [(kp, FU16 0); (kt, FName None)] [(kpar, FOpt [])] Hsets Hz eq_refl Hnd0) as F.
      cbn [rr_fields rr_name rr_type rr_class rr_ttl app] in F. subst r2.
      assert (Hnin : ~ In kpar (map fst [(kp, v1); (kt, v2)])).
      { cbn [map fst]. inversion Hnd as [|? ? H1 H2]. inversion H2 as [|? ? H3 H4]. subst.
        cbn [In] in *. intros [G|[G|[]]]; subst.
        - apply H1. right. left. reflexivity.
        - apply H3. left. reflexivity. }
      pose proof (adds_fields l _ _ kpar [(kp, v1); (kt, v2)] [] [] Hadds eq_refl Hnin) as G.
      cbn [rr_fields rr_name rr_type rr_class rr_ttl app] in G. exact G.
  Qed.

  Lemma svcb_rr name cls ttl raw rc c1 r1 rc' :
    parse_rr_data fixed_tree fuel (at_ rd, mkRR name 64 cls ttl (zero_fields (rr_keys 64))) rdl 64 raw cls ttl rc
      = Ok ((c1, r1), rc') ->
    body_agrees name 64 cls ttl rc c1 r1 rc'.
  Proof.
    intros H. unfold parse_rr_data in H. cbv zeta in H. eqb_literals_in H.
    apply (tlv_rr 64 ARES_RR_SVCB_PRIORITY ARES_RR_SVCB_TARGET ARES_RR_SVCB_PARAMS); try reflexivity.
    - vm_compute. nodup_keys.
    - discriminate.
    - exact H.
  Qed.

  Lemma https_rr name cls ttl raw rc c1 r1 rc' :
    parse_rr_data fixed_tree fuel (at_ rd, mkRR name 65 cls ttl (zero_fields (rr_keys 65))) rdl 65 raw cls ttl rc
      = Ok ((c1, r1), rc') ->
    body_agrees name 65 cls ttl rc c1 r1 rc'.
  Proof.
    intros H. unfold parse_rr_data in H. cbv zeta in H. eqb_literals_in H.
    apply (tlv_rr 65 ARES_RR_HTTPS_PRIORITY ARES_RR_HTTPS_TARGET ARES_RR_HTTPS_PARAMS); try reflexivity.
    - vm_compute. nodup_keys.
    - discriminate.
    - exact H.
  Qed.

  (* OPT, RFC 6891: CLASS is the UDP size, TTL is extended-rcode | version | flags *)
  Lemma opt_rr name raw cls ttl rc c1 r1 rc' :
    0 <= ttl < 2 ^ 32 ->
    parse_rr_data fixed_tree fuel (at_ rd, mkRR name 41 1 0 (zero_fields (rr_keys 41))) rdl 41 raw cls ttl rc
      = Ok ((c1, r1), rc') ->
    body_agrees name 41 cls ttl rc c1 r1 rc'.
  Proof.
    intros Httl H. unfold parse_rr_data in H. cbv zeta in H. eqb_literals_in H.
    unfold parse_rr_opt in H. cbv zeta in H. cbn [fst snd] in H.
    rewrite (buf_len_at bs Hb Hl rd Hrd) in H. cbn [bind] in H.
    match type of H with bind ?m _ = _ => destruct m as [ra| |] eqn:E1 end; cbn [bind] in H; try discriminate.
    match type of H with bind ?m _ = _ => destruct m as [rb| |] eqn:E2 end; cbn [bind] in H; try discriminate.
    match type of H with bind ?m _ = _ => destruct m as [rc0| |] eqn:E3 end; cbn [bind] in H; try discriminate.
    match type of H with bind ?m _ = _ => destruct m as [[c r]| |] eqn:E4 end; cbn [bind] in H; try discriminate.
    injection H as -> -> <-.
    destruct (oloop _ _ rd rc0 _ Hrd ltac:(lia) E4) as (l & o' & Hc & Ho' & Hle & _ & Hee & Hadds & Href).
    cbn [fst snd] in Hc, Hadds.
    exists o'. split; [exact Hc | split; [exact Ho' | split; [lia|]]].
    intros Hoe. assert (Heq : o' = e) by lia. specialize (Href Heq (S (Z.to_nat rdl)) ltac:(posu; lia)).
    eexists _, _, _. split; [|split].
    - unfold ref_body. cbv zeta. rewrite e_nat. change (41 =? 41) with true. cbv iota. rewrite Href. reflexivity.
    - f_equal.
      assert (Hsets : sets (mkRR name 41 1 0 (zero_fields (rr_keys 41)))
                [(ARES_RR_OPT_UDP_SIZE, FU16 cls);
                 (ARES_RR_OPT_VERSION, FU8 (Z.land (Z.land (Z.shiftr ttl 16) 255) 255));
                 (ARES_RR_OPT_FLAGS, FU16 (Z.land ttl 65535))] = Ok rc0).
      { cbn [sets]. rewrite E1. cbn [bind]. rewrite E2. cbn [bind]. rewrite E3. reflexivity. }
      assert (Hz : zero_fields (rr_keys 41) = [] ++ [(ARES_RR_OPT_UDP_SIZE, FU16 0); (ARES_RR_OPT_VERSION, FU8 0); (ARES_RR_OPT_FLAGS, FU16 0)]
                                                 ++ [(ARES_RR_OPT_OPTIONS, FOpt [])]) by reflexivity.
      assert (Hnd0 : NoDup (map fst (zero_fields (rr_keys 41)))) by (vm_compute; nodup_keys).
      pose proof (sets_fields _ _ _ _ _ _ Hsets Hz eq_refl Hnd0) as F.
      cbn [rr_fields rr_name rr_type rr_class rr_ttl app] in F. subst rc0.
      assert (Hnin : ~ In ARES_RR_OPT_OPTIONS (map fst
                [(ARES_RR_OPT_UDP_SIZE, FU16 cls);
                 (ARES_RR_OPT_VERSION, FU8 (Z.land (Z.land (Z.shiftr ttl 16) 255) 255));
                 (ARES_RR_OPT_FLAGS, FU16 (Z.land ttl 65535))])) by (cbn; intuition discriminate).
      pose proof (adds_fields l _ _ ARES_RR_OPT_OPTIONS
                  [(ARES_RR_OPT_UDP_SIZE, FU16 cls);
                   (ARES_RR_OPT_VERSION, FU8 (Z.land (Z.land (Z.shiftr ttl 16) 255) 255));
                   (ARES_RR_OPT_FLAGS, FU16 (Z.land ttl 65535))] [] [] Hadds eq_refl Hnin) as G.
      cbn [rr_fields rr_name rr_type rr_class rr_ttl app] in G. rewrite G.
      rewrite (opt_version ttl) by lia. rewrite (opt_flags ttl) by lia. reflexivity.
    - cbn [rc_upd]. rewrite (opt_ext_rcode ttl Httl). reflexivity.
  Qed.

  (* a type without a decoder: opaque RDATA *)
  Lemma raw_rr name raw cls ttl rc c1 r1 rc' :
    layout raw = None -> raw <> 41 -> rd + rdl <= n ->
    parse_rr_data fixed_tree fuel (at_ rd, mkRR name 65536 cls ttl (zero_fields (rr_keys 65536))) rdl 65536 raw cls ttl rc
      = Ok ((c1, r1), rc') ->
    body_agrees name raw cls ttl rc c1 r1 rc'.
  Proof.
    intros Hlay Hn41 Hen H. unfold parse_rr_data in H. cbv zeta in H. eqb_literals_in H.
    unfold parse_rr_raw_rr in H. cbn [fixed_tree v_raw_type_first fst snd] in H.
    match type of H with bind (bind ?m _) _ = _ => destruct m as [ra| |] eqn:E1 end; cbn [bind] in H; try discriminate.
    destruct (rr_set_inv _ _ _ _ E1) as (-> & _).
    change (zero_fields (rr_keys 65536)) with [(ARES_RR_RAW_RR_TYPE, FU16 0); (ARES_RR_RAW_RR_DATA, FBin None)] in H.
    cbn [rr_fields rr_name rr_type rr_class rr_ttl assoc_set] in H. rewrite Z.eqb_refl in H.
    assert (Href0 : forall d, slice bs (Z.to_nat rd) (Z.to_nat rdl) = Some d ->
              ref_body bs name raw cls ttl (Z.to_nat rd) rdl =
              Some (mkRR name ARES_REC_TYPE_RAW_RR cls ttl
                         [(ARES_RR_RAW_RR_TYPE, FU16 raw); (ARES_RR_RAW_RR_DATA, FBin (Some d))], Z.to_nat e, None, true)).
    { intros d Hd. unfold ref_body. cbv zeta. rewrite e_nat.
      replace (raw =? 41) with false by (symmetry; apply Z.eqb_neq; exact Hn41). rewrite Hlay, Hd. reflexivity. }
    destruct (rdl =? 0) eqn:E0.
    - apply Z.eqb_eq in E0. cbn [bind] in H. injection H as <- <- <-.
      exists rd. split; [reflexivity | split; [exact Hrd | split; [lia|]]].
      intros _. eexists _, _, _. split; [apply (Href0 []) | split; [|reflexivity]].
      + rewrite E0. unfold slice. change (Z.to_nat 0) with 0%nat. leb_true. reflexivity.
      + reflexivity.
    - apply Z.eqb_neq in E0.
      destruct (fetch_bytes (at_ rd) rdl) as [[d c2]| |] eqn:Eb; cbn [bind fst snd] in H; try discriminate.
      destruct (bytes_at bs Hb Hl rd rdl d c2 Hrd ltac:(lia) Eb) as (S & -> & Ho' & _).
      match type of H with bind (bind ?m _) _ = _ => destruct m as [rb| |] eqn:E2 end; cbn [bind] in H; try discriminate.
      destruct (rr_set_inv _ _ _ _ E2) as (-> & _). injection H as <- <- <-.
      exists e. split; [reflexivity | split; [exact Ho' | split; [unfold e; lia|]]].
      intros _. eexists _, _, _. split; [apply (Href0 d S) | split; [|reflexivity]].
      reflexivity.
  Qed.

  (* ares_dns_parse_rr_data for whatever TYPE the RR carries (flags 0: no forced RAW_RR) *)
  Lemma rr_data_agree name raw cls ttl rc type r0 c1 r1 rc' :
    0 <= raw < 65536 -> 0 <= ttl < 2 ^ 32 -> rd + rdl <= n ->
    type = (if negb (rec_type_isvalid raw false) then ARES_REC_TYPE_RAW_RR else raw) ->
    r0 = mkRR name type (if type =? ARES_REC_TYPE_OPT then ARES_CLASS_IN else cls)
              (if type =? ARES_REC_TYPE_OPT then 0 else ttl) (zero_fields (rr_keys type)) ->
    parse_rr_data fixed_tree fuel (at_ rd, r0) rdl type raw cls ttl rc = Ok ((c1, r1), rc') ->
    body_agrees name raw cls ttl rc c1 r1 rc'.
  Proof.
    intros Hraw Httl Hen Htype Hr0 H. destruct (rec_type_isvalid raw false) eqn:Ev; cbn [negb] in Htype; subst type.
    - destruct (layout raw) as [lay|] eqn:Elay.
      + destruct (layout_valid raw lay Elay) as (_ & Hn41).
        replace (raw =? ARES_REC_TYPE_OPT) with false in Hr0 by (symmetry; apply Z.eqb_neq; exact Hn41). subst r0.
        destruct (simple_layout lay) eqn:Es.
        * apply (simple_rr raw lay name cls ttl raw rc c1 r1 rc' Elay Es H).
        * revert Elay. unfold layout.
          repeat match goal with
                 | |- (if ?t =? ?k then _ else _) = _ -> _ =>
                   let E := fresh "E" in
                   destruct (t =? k) eqn:E;
                   [apply Z.eqb_eq in E; subst raw; intros G; injection G as <-;
                    first [discriminate Es | apply (txt_rr _ _ _ _ _ _ _ _ H) | apply (svcb_rr _ _ _ _ _ _ _ _ H)
                          | apply (https_rr _ _ _ _ _ _ _ _ H)] | clear E]
                 end.
          discriminate.
      + unfold rec_type_isvalid in Ev. apply zmem_in in Ev. unfold tbl_rec_types_valid_rr in Ev. cbn [In] in Ev.
        repeat (destruct Ev as [Ev|Ev]; [subst raw; try discriminate Elay|]).
        * (* 41 *) subst r0. apply (opt_rr name 41 cls ttl rc c1 r1 rc' Httl H).
        * (* 255 *) unfold parse_rr_data in H. cbv zeta in H. eqb_literals_in H. discriminate H.
        * lia.
        * destruct Ev.
    - subst r0. change (ARES_REC_TYPE_RAW_RR =? ARES_REC_TYPE_OPT) with false in H. cbv iota in H.
      destruct (layout raw) as [lay|] eqn:Elay.
      { destruct (layout_valid raw lay Elay) as (Hv & _). rewrite Hv in Ev. discriminate. }
      assert (Hn41 : raw <> 41) by (intros ->; discriminate Ev).
      apply (raw_rr name raw cls ttl rc c1 r1 rc' Elay Hn41 Hen H).
  Qed.
End Fields.
