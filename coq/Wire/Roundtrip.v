(* C03: what "equal field by field" means (record_eqb) - the executable oracle of the round trip.
   Names are compared as label sequences (two presentation forms of the same labels are the same
   name: "example.com." / "example.com", "\097" / "a"); a NULL pointer with length 0 equals an
   empty byte string; everything else is compared exactly, in order. *)
From Coq Require Import List ZArith Bool.
Import ListNotations.
From CAres.Gen Require Import Consts Tables.
From CAres.Wire Require Import Record Escape Write.
Local Open Scope Z_scope.

Fixpoint labels_eqb (a b : list (list N)) : bool :=
  match a, b with
  | [], [] => true
  | x :: a', y :: b' => list_eqb x y && labels_eqb a' b'
  | _, _ => false
  end.

Definition name_eqb (a b : list N) : bool :=
  match unescape a, unescape b with
  | Some x, Some y => labels_eqb x y
  | _, _ => list_eqb a b
  end.

Definition optbytes_eqb (a b : option (list N)) : bool :=
  list_eqb (match a with Some x => x | None => [] end) (match b with Some x => x | None => [] end).



Fixpoint opts_eqb (a b : list (Z * list N)) : bool :=
  match a, b with
  | [], [] => true
  | (c, v) :: a', (c', v') :: b' => (c =? c') && list_eqb v v' && opts_eqb a' b'
  | _, _ => false
  end.

Definition text_of (v : fval) : option (option (list N)) :=
  match v with FName s | FStr s => Some s | _ => None end.

Definition fval_eqb (key : Z) (a b : fval) : bool :=
  match text_of a, text_of b with
  | Some x, Some y =>
    if (key_datatype key =? ARES_DATATYPE_NAME) && negb (key =? ARES_RR_URI_TARGET) then
      match x, y with
      | Some n, Some m => name_eqb n m
      | None, None => true
      | _, _ => false
      end
    else optbytes_eqb x y
  | _, _ =>
    match a, b with
    | FAddr x, FAddr y | FAddr6 x, FAddr6 y => list_eqb x y
    | FU8 x, FU8 y | FU16 x, FU16 y | FU32 x, FU32 y => x =? y
    | FBin x, FBin y => optbytes_eqb x y
    | FAbin x, FAbin y => labels_eqb x y
    | FOpt x, FOpt y => opts_eqb x y
    | _, _ => false
    end
  end.

Fixpoint fields_eqb (a b : list (Z * fval)) : bool :=
  match a, b with
  | [], [] => true
  | (k, v) :: a', (k', v') :: b' => (k =? k') && fval_eqb k v v' && fields_eqb a' b'
  | _, _ => false
  end.

Definition rr_eqb (a b : rr) : bool :=
  name_eqb (rr_name a) (rr_name b) && (rr_type a =? rr_type b) && (rr_class a =? rr_class b)
  && (rr_ttl a =? rr_ttl b) && fields_eqb (rr_fields a) (rr_fields b).

Fixpoint rrs_eqb (a b : list rr) : bool :=
  match a, b with
  | [], [] => true
  | x :: a', y :: b' => rr_eqb x y && rrs_eqb a' b'
  | _, _ => false
  end.

Fixpoint qds_eqb (a b : list question) : bool :=
  match a, b with
  | [], [] => true
  | x :: a', y :: b' => name_eqb (q_name x) (q_name y) && (q_type x =? q_type y) && (q_class x =? q_class y) && qds_eqb a' b'
  | _, _ => false
  end.

Definition record_eqb (a b : dnsrec) : bool :=
  (d_id a =? d_id b) && (d_flags a =? d_flags b) && (d_opcode a =? d_opcode b) && (d_rcode a =? d_rcode b)
  && qds_eqb (d_qd a) (d_qd b) && rrs_eqb (d_an a) (d_an b) && rrs_eqb (d_ns a) (d_ns b) && rrs_eqb (d_ar a) (d_ar b).
