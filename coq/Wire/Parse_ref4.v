(* C04_sound, RR sections: ares_dns_parse_rr / the section loops against ref_rr / ref_rrs. *)
From CAres.Wire Require Import Cursor Cursor_proofs Name Name_proofs Record Parse Parse_proofs Escape Escape_proofs RefDecode Bits Name_ref Parse_ref Parse_ref2 Parse_sets Parse_ref3.
From CAres.Gen Require Import Consts LeafFns Tables.
Local Open Scope Z_scope.

Lemma octet_bound bs i v : bytes_ok bs -> octet bs i = Some v -> 0 <= v < 256.
Proof.
  intros Hb H. unfold octet in H. destruct (nth_error bs i) as [b|] eqn:E; [|discriminate]. injection H as <-.
  apply (bytes_ok_nth bs i b Hb E).
Qed.

Lemma u16_bound bs i v : bytes_ok bs -> u16_at bs i = Some v -> 0 <= v < 65536.
Proof.
  intros Hb H. unfold u16_at in H.
  destruct (octet bs i) as [a|] eqn:Ea; [|discriminate]. destruct (octet bs (i + 1)) as [b|] eqn:Eb; [|discriminate].
  injection H as <-. pose proof (octet_bound _ _ _ Hb Ea). pose proof (octet_bound _ _ _ Hb Eb). lia.
Qed.

Lemma u32_bound bs i v : bytes_ok bs -> u32_at bs i = Some v -> 0 <= v < 2 ^ 32.
Proof.
  intros Hb H. unfold u32_at in H.
  destruct (u16_at bs i) as [a|] eqn:Ea; [|discriminate]. destruct (u16_at bs (i + 2)) as [b|] eqn:Eb; [|discriminate].
  injection H as <-. pose proof (u16_bound _ _ _ Hb Ea). pose proof (u16_bound _ _ _ Hb Eb).
  change (2 ^ 32) with 4294967296. lia.
Qed.

(* the RRs of one section and the rcode being assembled *)
Definition app_sect (d : dnsrec) (sect : Z) (rs : list rr) (rc : Z) : dnsrec :=
  if sect =? ARES_SECTION_ANSWER then
    mkRec (d_id d) (d_flags d) (d_opcode d) (d_rcode d) rc (d_qd d) (d_an d ++ rs) (d_ns d) (d_ar d)
  else if sect =? ARES_SECTION_AUTHORITY then
    mkRec (d_id d) (d_flags d) (d_opcode d) (d_rcode d) rc (d_qd d) (d_an d) (d_ns d ++ rs) (d_ar d)
  else
    mkRec (d_id d) (d_flags d) (d_opcode d) (d_rcode d) rc (d_qd d) (d_an d) (d_ns d) (d_ar d ++ rs).

Lemma app_sect_one d sect r rc : section_append (set_raw_rcode d rc) sect r = app_sect d sect [r] rc.
Proof. unfold section_append, app_sect. destruct (sect =? ARES_SECTION_ANSWER); [reflexivity|]. destruct (sect =? ARES_SECTION_AUTHORITY); reflexivity. Qed.

Lemma app_sect_nil d sect : app_sect d sect [] (d_raw_rcode d) = d.
Proof.
  unfold app_sect. destruct d; cbn. destruct (sect =? ARES_SECTION_ANSWER); [rewrite app_nil_r; reflexivity|].
  destruct (sect =? ARES_SECTION_AUTHORITY); rewrite app_nil_r; reflexivity.
Qed.

Lemma app_sect_app d sect l1 rc1 l2 rc2 : app_sect (app_sect d sect l1 rc1) sect l2 rc2 = app_sect d sect (l1 ++ l2) rc2.
Proof.
  unfold app_sect. destruct (sect =? ARES_SECTION_ANSWER); [cbn; rewrite app_assoc; reflexivity|].
  destruct (sect =? ARES_SECTION_AUTHORITY); cbn; rewrite app_assoc; reflexivity.
Qed.

Lemma rr_add_inv name sect type cls ttl r0 :
  rr_add name sect type cls ttl = Ok r0 -> r0 = mkRR name type cls ttl (zero_fields (rr_keys type)).
Proof. unfold rr_add. match goal with |- (if ?c then _ else _) = _ -> _ => destruct c end; [discriminate|]. intros H. injection H as <-. reflexivity. Qed.

Section RRs.
  Variable bs : list N.
  Hypothesis Hb : bytes_ok bs.
  Hypothesis Hl : Z.of_nat (length bs) < 2 ^ 64.
  Variable fuel : nat.
  Hypothesis Hfuel : (name_fuel (cur_of_bytes bs) <= fuel)%nat.
  Notation n := (Z.of_nat (length bs)).
  Notation at_ := (at_ bs).
  Notation pos_ok := (pos_ok bs).

  Lemma parse_rr_ref p sect d c' d' :
    pos_ok p ->
    parse_rr fixed_tree fuel (at_ p) 0 sect d = Ok (c', d') ->
    exists r_ref e ext x r_p,
      ref_rr bs (Z.to_nat p) = Some (r_ref, Z.to_nat e, ext, x) /\ c' = at_ e /\ pos_ok e /\
      d' = app_sect d sect [r_p] (rc_upd (d_raw_rcode d) ext) /\ norm_rr r_p = norm_rr r_ref.
  Proof.
    intros Hp H. unfold parse_rr in H.
    destruct (dns_name_parse fuel (at_ p) true false) as [[nm c]| |] eqn:En; cbn [bind] in H; try discriminate.
    destruct (name_at bs Hb Hl fuel p nm c Hp Hfuel En) as (ls & en & Rn & -> & -> & Hp1).
    destruct (fetch_be16 (at_ (Z.of_nat en))) as [[raw c]| |] eqn:E1; cbn [bind] in H; try discriminate.
    destruct (be16_at bs Hb Hl _ raw c Hp1 E1) as (U1 & -> & Hp2).
    destruct (fetch_be16 (at_ (Z.of_nat en + 2))) as [[cls c]| |] eqn:E2; cbn [bind] in H; try discriminate.
    destruct (be16_at bs Hb Hl _ cls c Hp2 E2) as (U2 & -> & Hp3).
    destruct (fetch_be32 (at_ (Z.of_nat en + 2 + 2))) as [[ttl c]| |] eqn:E3; cbn [bind] in H; try discriminate.
    destruct (be32_at bs Hb Hl _ ttl c Hp3 E3) as (U3 & -> & Hp4).
    destruct (fetch_be16 (at_ (Z.of_nat en + 2 + 2 + 4))) as [[rdl c]| |] eqn:E4; cbn [bind] in H; try discriminate.
    destruct (be16_at bs Hb Hl _ rdl c Hp4 E4) as (U4 & -> & Hrd).
    pose proof (u16_bound _ _ _ Hb U1) as Braw. pose proof (u16_bound _ _ _ Hb U4) as Brdl.
    pose proof (u32_bound _ _ _ Hb U3) as Bttl.
    set (rd := Z.of_nat en + 2 + 2 + 4 + 2) in *.
    cbv zeta in H. rewrite !Z.land_0_l in H. change (0 =? 0) with true in H. cbn [negb] in H.
    rewrite !andb_false_r in H. cbv iota in H.
    rewrite (buf_len_at bs Hb Hl rd Hrd) in H. cbn [bind] in H.
    destruct (rdl >? n - rd) eqn:Egt; [discriminate|]. rewrite Z.gtb_ltb in Egt. apply Z.ltb_ge in Egt.
    match type of H with bind ?m _ = _ => destruct m as [r0| |] eqn:Ea end; cbn [bind] in H; try discriminate.
    apply rr_add_inv in Ea.
    match type of H with bind ?m _ = _ => destruct m as [[[c1 r1] rc']| |] eqn:Ed end; cbn [bind] in H; try discriminate.
    destruct (rr_data_agree bs Hb Hl fuel Hfuel rd rdl Hrd Brdl (escape_name ls) raw cls ttl (d_raw_rcode d) _ r0 c1 r1 rc'
                Braw Bttl ltac:(lia) eq_refl Ea Ed) as (o' & -> & Ho' & Hle & Hbody).
    rewrite (buf_len_at bs Hb Hl o' Ho') in H. cbn [bind] in H.
    replace (n - rd - (n - o')) with (o' - rd) in H by lia.
    rewrite Z.mod_small in H by (unfold Parse_ref2.pos_ok in *; rewrite pow64 in *; lia).
    destruct (o' - rd >? rdl) eqn:Ep; [discriminate|]. rewrite Z.gtb_ltb in Ep. apply Z.ltb_ge in Ep.
    destruct (Hbody ltac:(lia)) as (r_ref & ext & x & Rb & Hnorm & ->).
    assert (He : pos_ok (rd + rdl)) by (unfold Parse_ref2.pos_ok in *; lia).
    assert (Hc : (do c <- (if o' - rd <? rdl then do r <- consume (at_ o') ((rdl - (o' - rd)) mod 2 ^ 64); Ok (snd r) else Ok (at_ o'));
                  Ok (c, section_append (set_raw_rcode d (rc_upd (d_raw_rcode d) ext)) sect r1)) = Ok (c', d')) by exact H.
    clear H.
    assert (Hcur : (if o' - rd <? rdl then do r <- consume (at_ o') ((rdl - (o' - rd)) mod 2 ^ 64); Ok (snd r) else Ok (at_ o'))
                   = Ok (at_ (rd + rdl))).
    { destruct (o' - rd <? rdl) eqn:Elt.
      - apply Z.ltb_lt in Elt. rewrite Z.mod_small by (rewrite pow64; lia).
        rewrite (consume_at bs Hb Hl o' (rdl - (o' - rd)) Ho') by lia. cbn [bind snd]. f_equal. f_equal. lia.
      - apply Z.ltb_ge in Elt. f_equal. f_equal. lia. }
    rewrite Hcur in Hc. cbn [bind] in Hc. injection Hc as <- <-.
    exists r_ref, (rd + rdl), ext, x, r1.
    split; [|split; [reflexivity | split; [exact He | split; [apply app_sect_one | exact Hnorm]]]].
    rewrite ref_rr_body, Rn. rewrite Nat2Z.id in U1.
    replace (Z.to_nat (Z.of_nat en + 2)) with (en + 2)%nat in U2 by lia.
    replace (Z.to_nat (Z.of_nat en + 2 + 2)) with (en + 4)%nat in U3 by lia.
    replace (Z.to_nat (Z.of_nat en + 2 + 2 + 4)) with (en + 8)%nat in U4 by lia.
    rewrite U1, U2, U3, U4.
    destruct (Nat.ltb (length bs) (en + 10 + Z.to_nat rdl)) eqn:El; [apply Nat.ltb_lt in El; unfold rd in *; lia|].
    replace (en + 10)%nat with (Z.to_nat rd) by (unfold rd; lia). exact Rb.
  Qed.

  Definition rc_fold (rc : Z) (exts : list Z) : Z := fold_left (fun rc x => Z.lor rc (x * 16)) exts rc.

  Lemma raw_rcode_app_sect d sect l rc : d_raw_rcode (app_sect d sect l rc) = rc.
  Proof. unfold app_sect. destruct (sect =? ARES_SECTION_ANSWER); [reflexivity|]. destruct (sect =? ARES_SECTION_AUTHORITY); reflexivity. Qed.

  Lemma parse_rrs_ref sect : forall k p d c' d',
    pos_ok p ->
    parse_rrs fixed_tree fuel k (at_ p) 0 sect d = Ok (c', d') ->
    exists rs_ref e exts x rs_p,
      ref_rrs k bs (Z.to_nat p) = Some (rs_ref, Z.to_nat e, exts, x) /\ c' = at_ e /\ pos_ok e /\
      d' = app_sect d sect rs_p (rc_fold (d_raw_rcode d) exts) /\ map norm_rr rs_p = map norm_rr rs_ref.
  Proof.
    induction k as [|k IH]; intros p d c' d' Hp H.
    - cbn [parse_rrs] in H. injection H as <- <-. exists [], p, [], true, [].
      cbn [ref_rrs rc_fold fold_left map]. rewrite app_sect_nil.
      split; [reflexivity | split; [reflexivity | split; [exact Hp | split; reflexivity]]].
    - cbn [parse_rrs] in H.
      destruct (parse_rr fixed_tree fuel (at_ p) 0 sect d) as [[c1 d1]| |] eqn:E1; cbn [bind fst snd] in H; try discriminate.
      destruct (parse_rr_ref p sect d c1 d1 Hp E1) as (r_ref & e1 & ext & x1 & r_p & R1 & -> & He1 & -> & Hn1).
      destruct (IH e1 _ c' d' He1 H) as (rs_ref & e & exts & x & rs_p & R & -> & He & -> & Hn).
      exists (r_ref :: rs_ref), e, ((match ext with Some x => [x] | None => [] end) ++ exts), (x1 && x), (r_p :: rs_p).
      cbn [ref_rrs]. rewrite R1, R. rewrite app_sect_app, raw_rcode_app_sect.
      split; [reflexivity | split; [reflexivity | split; [exact He | split; [|cbn [map]; rewrite Hn1, Hn; reflexivity]]]].
      f_equal. unfold rc_fold. rewrite fold_left_app. destruct ext; reflexivity.
  Qed.
End RRs.
