(* C03: write-then-parse.  Concrete witnesses against the model of the pinned tree
   ([wpinned] / [dns_parse_pinned]), the same inputs on the fixed variant, and the buffer-level
   lemma behind the RDLENGTH / TCP-length back-patching. *)
From CAres.Wire Require Import Cursor Name Record Parse Escape Write Roundtrip.
From CAres.Gen Require Import Consts Tables.
Local Open Scope Z_scope.

Definition txt (s : list N) : list N := s.
Definition nm (s : list N) : list N := s.

(* "a" *)
Definition n_a : list N := [97]%N.

(* a response: question a/A/IN, answer a A 1.2.3.4 *)
Definition rec_shared : dnsrec :=
  mkRec 1 (ARES_FLAG_QR) 0 0 0 [mkQ n_a 1 1]
        [mkRR n_a 1 1 60 [(ARES_RR_A_ADDR, FAddr [1; 2; 3; 4]%N)]] [] [].

(* ---- 1. TCP framing: compression offsets count the length prefix ---- *)
Definition frame_body (b : wbuf) (start : nat) : list N := skipn (start + 2) (w_live b).

Theorem frame_refuted_pinned :
  exists d b', write_buf_tcp wpinned d wb_empty = Ok (ARES_SUCCESS, b') /\
               forall d', dns_parse_pinned (frame_body b' 0) 0 = Ok d' -> record_eqb d d' = false.
Proof.
  exists rec_shared. eexists. split; [vm_compute; reflexivity|].
  intros d' H. vm_compute in H.
  first [discriminate H | injection H as <-; vm_compute; reflexivity].
Qed.

Example frame_fixed_ok :
  exists b' d', write_buf_tcp wfixed rec_shared wb_empty = Ok (ARES_SUCCESS, b') /\
                dns_parse (frame_body b' 0) 0 = Ok d' /\ record_eqb rec_shared d' = true.
Proof. eexists _, _. split; [vm_compute; reflexivity|]. split; vm_compute; reflexivity. Qed.

(* second frame in a buffer that already holds one: still position independent when fixed *)
Example frame_fixed_second_position :
  exists b1 b2 d', write_buf_tcp wfixed rec_shared wb_empty = Ok (ARES_SUCCESS, b1) /\
                   write_buf_tcp wfixed rec_shared b1 = Ok (ARES_SUCCESS, b2) /\
                   w_live b2 = w_live b1 ++ w_live b1 /\
                   dns_parse (frame_body b2 (length (w_live b1))) 0 = Ok d' /\ record_eqb rec_shared d' = true.
Proof.
  eexists _, _, _. split; [vm_compute; reflexivity|]. split; [vm_compute; reflexivity|].
  split; [vm_compute; reflexivity|]. split; vm_compute; reflexivity.
Qed.

(* ---- 2. a TXT string of more than 255 octets is split (both variants: a known finding) ---- *)
Definition rec_long_txt : dnsrec :=
  mkRec 1 0 0 0 0 [mkQ n_a 16 1]
        [mkRR n_a 16 1 0 [(ARES_RR_TXT_DATA, FAbin [repeat 120%N 256])]] [] [].

Theorem abin_split_refuted :
  exists d bs d', dns_write d = Ok bs /\ dns_parse bs 0 = Ok d' /\ record_eqb d d' = false.
Proof.
  exists rec_long_txt. eexists _, _. split; [vm_compute; reflexivity|]. split; vm_compute; reflexivity.
Qed.

(* ---- 3. names whose text is longer than the 511-octet scratch buffer are truncated ---- *)
(* SRV target: two labels of 63 non-printable octets (\001 each: 4 characters per octet), then a
   label "aaaaabbb": 514 characters of text, 138 octets on the wire *)
Definition esc1 : list N := [92; 48; 48; 49]%N.
Definition long_label : list N := concat (repeat esc1 63).
Definition long_name : list N := (long_label ++ [46] ++ long_label ++ [46] ++ [97; 97; 97; 97; 97; 98; 98; 98])%N.
Definition rec_long_name : dnsrec :=
  mkRec 1 0 0 0 0 [mkQ n_a 33 1]
        [mkRR n_a 33 1 0 [(ARES_RR_SRV_PRIORITY, FU16 0); (ARES_RR_SRV_WEIGHT, FU16 0); (ARES_RR_SRV_PORT, FU16 0);
                          (ARES_RR_SRV_TARGET, FName (Some long_name))]] [] [].

Theorem long_name_truncated_refuted_pinned :
  exists d bs d', dns_write_pinned d = Ok bs /\ dns_parse_pinned bs 0 = Ok d' /\ record_eqb d d' = false.
Proof.
  exists rec_long_name. eexists _, _. split; [vm_compute; reflexivity|]. split; vm_compute; reflexivity.
Qed.

Example long_name_refused_fixed : dns_write rec_long_name = Err ARES_EBADNAME.
Proof. vm_compute. reflexivity. Qed.

(* ---- 4. more than 65535 octets: 260 TXT RRs of 255 octets ---- *)
Definition txt_rr (i : N) : rr := mkRR n_a 16 1 0 [(ARES_RR_TXT_DATA, FAbin [repeat i 255])].
Definition rec_huge : dnsrec := mkRec 1 0 0 0 0 [mkQ n_a 16 1] (repeat (txt_rr 120) 260) [] [].

(* stated through booleans so that the 67 000-octet message only exists inside vm_compute *)
Definition written_length (wv : wvariant) (d : dnsrec) : option Z :=
  match dns_write_v wv d with Ok bs => Some (Z.of_nat (length bs)) | _ => None end.

Theorem length_refuted_pinned :
  exists d n, written_length wpinned d = Some n /\ n > 65535.
Proof.
  exists rec_huge. eexists. split; [vm_compute; reflexivity|]. reflexivity.
Qed.

Example length_refused_fixed : dns_write rec_huge = Err ARES_EBADQUERY.
Proof. vm_compute. reflexivity. Qed.

(* ---- 5. a name first written beyond offset 16383 is referenced by a truncated pointer ---- *)
(* 65 TXT RRs (owner "a") push the message past 16 KiB; then "b" is written at offset >= 16384 and
   used again *)
Definition n_b : list N := [98]%N.
Definition rec_far : dnsrec :=
  mkRec 1 0 0 0 0 [mkQ n_a 16 1]
        (repeat (txt_rr 120) 65 ++ [mkRR n_b 1 1 0 [(ARES_RR_A_ADDR, FAddr [1; 2; 3; 4]%N)];
                                    mkRR n_b 1 1 0 [(ARES_RR_A_ADDR, FAddr [5; 6; 7; 8]%N)]]) [] [].

(* write succeeded with at most 65535 octets, and the result does not parse back to the record *)
Definition roundtrip_broken (wv : wvariant) (pv : variant) (d : dnsrec) : bool :=
  match dns_write_v wv d with
  | Ok bs => (Z.of_nat (length bs) <=? 65535)
             && match dns_parse_v pv bs 0 with Ok d' => negb (record_eqb d d') | _ => true end
  | _ => false
  end.

Definition roundtrip_holds (wv : wvariant) (pv : variant) (d : dnsrec) : bool :=
  match dns_write_v wv d with
  | Ok bs => (Z.of_nat (length bs) <=? 65535)
             && match dns_parse_v pv bs 0 with
                | Ok d' => record_eqb d d' && match dns_write_v wv d' with Ok bs' => list_eqb bs bs' | _ => false end
                | _ => false
                end
  | _ => false
  end.

Theorem pointer_truncation_refuted_pinned : exists d, roundtrip_broken wpinned pinned_tree d = true.
Proof. exists rec_far. vm_compute. reflexivity. Qed.

Example pointer_fixed_ok : roundtrip_holds wfixed fixed_tree rec_far = true.
Proof. vm_compute. reflexivity. Qed.
