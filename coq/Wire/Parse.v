(* ares_dns_parse() / ares_dns_parse_buf() of src/lib/record/ares_dns_parse.c, with every
   per-type RDATA decoder, ares_dns_multistring_parse_buf() of ares_dns_multistring.c and the
   OPT / SVCB option loops.  Same checks in the same order as the C code; the status
   conventions (`if (status != ARES_SUCCESS) return status;`) are the [do] of the outcome monad.

   The model is parametrised by a [variant]: the code as proposed in fixes/C04-*.patch
   ([fixed_tree], what [dns_parse] and every theorem about agreement with the RFCs is about) and
   the code of the pinned tree ([pinned_tree], kept for the _refuted witnesses).

   Not modelled: allocation failure (ARES_ENOMEM paths; they belong to C14) - every malloc
   succeeds, so ares_dns_record_rr_prealloc() is a no-op. *)
From CAres.Wire Require Export Cursor Name Record.
From CAres.Gen Require Import Consts LeafFns Tables.
Local Open Scope Z_scope.

Record variant := mkVariant {
  v_raw_type_first : bool;   (* ares_dns_parse_rr_raw_rr stores the type before testing rdlength == 0 *)
  v_opt_append : bool }.     (* OPT / SVCB / HTTPS decoders append (add_opt_own) instead of replace *)
Definition fixed_tree : variant := mkVariant true true.
Definition pinned_tree : variant := mkVariant false false.

Definition st := (cursor * rr)%type.

(* ares_dns_rr_remaining_len(buf, orig_len, rdlength) *)
Definition rr_remaining_len (c : cursor) (orig_len rdlength : Z) : outcome Z :=
  do l <- buf_len c;
  c_ares_dns_rr_remaining_len orig_len rdlength l.

Section Decoders.
  Variable vr : variant.
  Variable fuel : nat.       (* name-parser fuel: S (data_len), computed once per message *)

  (* ares_dns_parse_and_set_dns_name(buf, ARES_FALSE, rr, key) *)
  Definition parse_and_set_dns_name (s : st) (key : Z) : outcome st :=
    do r <- dns_name_parse fuel (fst s) true false;
    do r' <- rr_set (snd s) key (FName (Some (fst r)));
    Ok (snd r, r').

  (* ares_dns_parse_and_set_dns_str(buf, max_len, rr, key, blank_allowed) *)
  Definition parse_and_set_dns_str (s : st) (max_len key : Z) (blank_allowed : bool) : outcome st :=
    do r <- parse_dns_binstr (fst s) max_len true true;          (* ares_buf_parse_dns_str *)
    if negb blank_allowed && (Z.of_nat (length (fst r)) =? 0) then Err ARES_EBADRESP else
    do r' <- rr_set (snd s) key (FStr (Some (fst r)));
    Ok (snd r, r').

  (* the loop of ares_dns_multistring_parse_buf; one iteration consumes at least one octet,
     so [lfuel] = remaining_len iterations suffice *)
  Fixpoint multistring_loop (lfuel : nat) (c : cursor) (orig_len remaining_len : Z)
           (validate_printable : bool) (acc : list (list N)) {struct lfuel}
    : outcome (list (list N) * cursor) :=
    do bl <- buf_len c;
    if negb (((orig_len - bl) mod 2 ^ 64) <? remaining_len) then Ok (acc, c) else
    match lfuel with
    | O => Err OutOfFuel
    | S lf =>
      do r <- fetch_u8 c;
      let '(len, c1) := r in
      do bl1 <- buf_len c1;
      do _ <- (if negb (len =? 0) && validate_printable && (bl1 >=? len) then
                 do data <- peek_bytes c1 len;
                 if negb (all_printable data) then Err ARES_EBADSTR else Ok tt
               else Ok tt);
      do r2 <- (if negb (len =? 0) then fetch_bytes c1 len else Ok ([], c1));
      multistring_loop lf (snd r2) orig_len remaining_len validate_printable (acc ++ [fst r2])
    end.

  (* ares_dns_multistring_parse_buf(buf, remaining_len, &strs, validate_printable) *)
  Definition multistring_parse_buf (c : cursor) (remaining_len : Z) (validate_printable : bool)
    : outcome (list (list N) * cursor) :=
    do orig_len <- buf_len c;
    if remaining_len =? 0 then Err ARES_EBADRESP else
    multistring_loop (Z.to_nat remaining_len) c orig_len remaining_len validate_printable [].

  (* ares_dns_parse_and_set_dns_abin *)
  Definition parse_and_set_dns_abin (s : st) (max_len key : Z) (validate_printable : bool) : outcome st :=
    do r <- multistring_parse_buf (fst s) max_len validate_printable;
    do r' <- rr_set (snd s) key (FAbin (fst r));
    Ok (snd r, r').

  Definition parse_and_set_be32 (s : st) (key : Z) : outcome st :=
    do r <- fetch_be32 (fst s);
    do r' <- rr_set (snd s) key (FU32 (fst r));
    Ok (snd r, r').

  Definition parse_and_set_be16 (s : st) (key : Z) : outcome st :=
    do r <- fetch_be16 (fst s);
    do r' <- rr_set (snd s) key (FU16 (fst r));
    Ok (snd r, r').

  Definition parse_and_set_u8 (s : st) (key : Z) : outcome st :=
    do r <- fetch_u8 (fst s);
    do r' <- rr_set (snd s) key (FU8 (fst r));
    Ok (snd r, r').

  (* "rest of RDATA is binary, required non-empty": SIG signature, TLSA data, CAA value *)
  Definition parse_and_set_rest_bin (s : st) (orig_len rdlength key : Z) : outcome st :=
    do len <- rr_remaining_len (fst s) orig_len rdlength;
    if len =? 0 then Err ARES_EBADRESP else
    do r <- fetch_bytes (fst s) len;                          (* ares_buf_fetch_bytes_dup *)
    do r' <- rr_set (snd s) key (FBin (Some (fst r)));
    Ok (snd r, r').

  Definition parse_rr_a (s : st) : outcome st :=
    do r <- fetch_bytes (fst s) sizeof_in_addr;
    do r' <- rr_set (snd s) ARES_RR_A_ADDR (FAddr (fst r));
    Ok (snd r, r').

  Definition parse_rr_aaaa (s : st) : outcome st :=
    do r <- fetch_bytes (fst s) sizeof_in6_addr;
    do r' <- rr_set (snd s) ARES_RR_AAAA_ADDR (FAddr6 (fst r));
    Ok (snd r, r').

  Definition parse_rr_ns (s : st) := parse_and_set_dns_name s ARES_RR_NS_NSDNAME.
  Definition parse_rr_cname (s : st) := parse_and_set_dns_name s ARES_RR_CNAME_CNAME.
  Definition parse_rr_ptr (s : st) := parse_and_set_dns_name s ARES_RR_PTR_DNAME.

  Definition parse_rr_soa (s : st) : outcome st :=
    do s <- parse_and_set_dns_name s ARES_RR_SOA_MNAME;
    do s <- parse_and_set_dns_name s ARES_RR_SOA_RNAME;
    do s <- parse_and_set_be32 s ARES_RR_SOA_SERIAL;
    do s <- parse_and_set_be32 s ARES_RR_SOA_REFRESH;
    do s <- parse_and_set_be32 s ARES_RR_SOA_RETRY;
    do s <- parse_and_set_be32 s ARES_RR_SOA_EXPIRE;
    parse_and_set_be32 s ARES_RR_SOA_MINIMUM.

  Definition parse_rr_hinfo (s : st) (rdlength : Z) : outcome st :=
    do orig_len <- buf_len (fst s);
    do m <- rr_remaining_len (fst s) orig_len rdlength;
    do s <- parse_and_set_dns_str s m ARES_RR_HINFO_CPU true;
    do m <- rr_remaining_len (fst s) orig_len rdlength;
    parse_and_set_dns_str s m ARES_RR_HINFO_OS true.

  Definition parse_rr_mx (s : st) : outcome st :=
    do s <- parse_and_set_be16 s ARES_RR_MX_PREFERENCE;
    parse_and_set_dns_name s ARES_RR_MX_EXCHANGE.

  Definition parse_rr_txt (s : st) (rdlength : Z) : outcome st :=
    parse_and_set_dns_abin s rdlength ARES_RR_TXT_DATA false.

  Definition parse_rr_sig (s : st) (rdlength : Z) : outcome st :=
    do orig_len <- buf_len (fst s);
    do s <- parse_and_set_be16 s ARES_RR_SIG_TYPE_COVERED;
    do s <- parse_and_set_u8 s ARES_RR_SIG_ALGORITHM;
    do s <- parse_and_set_u8 s ARES_RR_SIG_LABELS;
    do s <- parse_and_set_be32 s ARES_RR_SIG_ORIGINAL_TTL;
    do s <- parse_and_set_be32 s ARES_RR_SIG_EXPIRATION;
    do s <- parse_and_set_be32 s ARES_RR_SIG_INCEPTION;
    do s <- parse_and_set_be16 s ARES_RR_SIG_KEY_TAG;
    do s <- parse_and_set_dns_name s ARES_RR_SIG_SIGNERS_NAME;
    parse_and_set_rest_bin s orig_len rdlength ARES_RR_SIG_SIGNATURE.

  Definition parse_rr_srv (s : st) : outcome st :=
    do s <- parse_and_set_be16 s ARES_RR_SRV_PRIORITY;
    do s <- parse_and_set_be16 s ARES_RR_SRV_WEIGHT;
    do s <- parse_and_set_be16 s ARES_RR_SRV_PORT;
    parse_and_set_dns_name s ARES_RR_SRV_TARGET.

  Definition parse_rr_naptr (s : st) (rdlength : Z) : outcome st :=
    do orig_len <- buf_len (fst s);
    do s <- parse_and_set_be16 s ARES_RR_NAPTR_ORDER;
    do s <- parse_and_set_be16 s ARES_RR_NAPTR_PREFERENCE;
    do m <- rr_remaining_len (fst s) orig_len rdlength;
    do s <- parse_and_set_dns_str s m ARES_RR_NAPTR_FLAGS true;
    do m <- rr_remaining_len (fst s) orig_len rdlength;
    do s <- parse_and_set_dns_str s m ARES_RR_NAPTR_SERVICES true;
    do m <- rr_remaining_len (fst s) orig_len rdlength;
    do s <- parse_and_set_dns_str s m ARES_RR_NAPTR_REGEXP true;
    parse_and_set_dns_name s ARES_RR_NAPTR_REPLACEMENT.

  (* `while (ares_dns_rr_remaining_len(buf, orig_len, rdlength))` of OPT / SVCB / HTTPS:
     option code, length, value; one iteration consumes at least four octets *)
  Fixpoint opt_loop (lfuel : nat) (s : st) (orig_len rdlength key : Z) {struct lfuel} : outcome st :=
    do m <- rr_remaining_len (fst s) orig_len rdlength;
    if m =? 0 then Ok s else
    match lfuel with
    | O => Err OutOfFuel
    | S lf =>
      do r <- fetch_be16 (fst s);
      let '(opt, c1) := r in
      do r1 <- fetch_be16 c1;
      let '(len, c2) := r1 in
      do r2 <- (if negb (len =? 0) then fetch_bytes c2 len else Ok ([], c2));
      do r' <- (if v_opt_append vr then rr_add_opt else rr_set_opt) (snd s) key opt (fst r2);
      opt_loop lf (snd r2, r') orig_len rdlength key
    end.

  Definition parse_rr_opt (s : st) (rdlength raw_class raw_ttl raw_rcode : Z) : outcome (st * Z) :=
    do orig_len <- buf_len (fst s);
    do r <- rr_set (snd s) ARES_RR_OPT_UDP_SIZE (FU16 raw_class);
    let rcode_high := Z.land (Z.shiftr raw_ttl 20) 4080 in               (* 0x0FF0 *)
    let raw_rcode := Z.lor raw_rcode rcode_high in                        (* rr->parent->raw_rcode |= *)
    do r <- rr_set r ARES_RR_OPT_VERSION (FU8 (Z.land (Z.land (Z.shiftr raw_ttl 16) 255) 255));
    do r <- rr_set r ARES_RR_OPT_FLAGS (FU16 (Z.land raw_ttl 65535));
    do s <- opt_loop (Z.to_nat rdlength) (fst s, r) orig_len rdlength ARES_RR_OPT_OPTIONS;
    Ok (s, raw_rcode).

  Definition parse_rr_tlsa (s : st) (rdlength : Z) : outcome st :=
    do orig_len <- buf_len (fst s);
    do s <- parse_and_set_u8 s ARES_RR_TLSA_CERT_USAGE;
    do s <- parse_and_set_u8 s ARES_RR_TLSA_SELECTOR;
    do s <- parse_and_set_u8 s ARES_RR_TLSA_MATCH;
    parse_and_set_rest_bin s orig_len rdlength ARES_RR_TLSA_DATA.

  Definition parse_rr_svcb (s : st) (rdlength : Z) : outcome st :=
    do orig_len <- buf_len (fst s);
    do s <- parse_and_set_be16 s ARES_RR_SVCB_PRIORITY;
    do s <- parse_and_set_dns_name s ARES_RR_SVCB_TARGET;
    opt_loop (Z.to_nat rdlength) s orig_len rdlength ARES_RR_SVCB_PARAMS.

  Definition parse_rr_https (s : st) (rdlength : Z) : outcome st :=
    do orig_len <- buf_len (fst s);
    do s <- parse_and_set_be16 s ARES_RR_HTTPS_PRIORITY;
    do s <- parse_and_set_dns_name s ARES_RR_HTTPS_TARGET;
    opt_loop (Z.to_nat rdlength) s orig_len rdlength ARES_RR_HTTPS_PARAMS.

  Definition parse_rr_uri (s : st) (rdlength : Z) : outcome st :=
    do orig_len <- buf_len (fst s);
    do s <- parse_and_set_be16 s ARES_RR_URI_PRIORITY;
    do s <- parse_and_set_be16 s ARES_RR_URI_WEIGHT;
    do remaining_len <- rr_remaining_len (fst s) orig_len rdlength;
    if remaining_len =? 0 then Err ARES_EBADRESP else
    do r <- fetch_str (fst s) remaining_len;                    (* ares_buf_fetch_str_dup *)
    if negb (all_printable (fst r)) then Err ARES_EBADRESP else
    do r' <- rr_set (snd s) ARES_RR_URI_TARGET (FName (Some (fst r)));
    Ok (snd r, r').

  Definition parse_rr_caa (s : st) (rdlength : Z) : outcome st :=
    do orig_len <- buf_len (fst s);
    do s <- parse_and_set_u8 s ARES_RR_CAA_CRITICAL;
    do m <- rr_remaining_len (fst s) orig_len rdlength;
    do s <- parse_and_set_dns_str s m ARES_RR_CAA_TAG false;
    parse_and_set_rest_bin s orig_len rdlength ARES_RR_CAA_VALUE.

  Definition parse_rr_raw_rr (s : st) (rdlength raw_type : Z) : outcome st :=
    if v_raw_type_first vr then
      do r0 <- rr_set (snd s) ARES_RR_RAW_RR_TYPE (FU16 raw_type);
      if rdlength =? 0 then Ok (fst s, r0) else
      do r <- fetch_bytes (fst s) rdlength;
      do r' <- rr_set r0 ARES_RR_RAW_RR_DATA (FBin (Some (fst r)));
      Ok (snd r, r')
    else
      if rdlength =? 0 then Ok s else
      do r <- fetch_bytes (fst s) rdlength;
      do r' <- rr_set (snd s) ARES_RR_RAW_RR_TYPE (FU16 raw_type);
      do r' <- rr_set r' ARES_RR_RAW_RR_DATA (FBin (Some (fst r)));
      Ok (snd r, r').

  (* ares_dns_parse_rr_data: the switch over the (possibly overridden) type *)
  Definition parse_rr_data (s : st) (rdlength type raw_type raw_class raw_ttl raw_rcode : Z)
    : outcome (st * Z) :=
    let plain (m : outcome st) := do s' <- m; Ok (s', raw_rcode) in
    if type =? ARES_REC_TYPE_A then plain (parse_rr_a s)
    else if type =? ARES_REC_TYPE_NS then plain (parse_rr_ns s)
    else if type =? ARES_REC_TYPE_CNAME then plain (parse_rr_cname s)
    else if type =? ARES_REC_TYPE_SOA then plain (parse_rr_soa s)
    else if type =? ARES_REC_TYPE_PTR then plain (parse_rr_ptr s)
    else if type =? ARES_REC_TYPE_HINFO then plain (parse_rr_hinfo s rdlength)
    else if type =? ARES_REC_TYPE_MX then plain (parse_rr_mx s)
    else if type =? ARES_REC_TYPE_TXT then plain (parse_rr_txt s rdlength)
    else if type =? ARES_REC_TYPE_SIG then plain (parse_rr_sig s rdlength)
    else if type =? ARES_REC_TYPE_AAAA then plain (parse_rr_aaaa s)
    else if type =? ARES_REC_TYPE_SRV then plain (parse_rr_srv s)
    else if type =? ARES_REC_TYPE_NAPTR then plain (parse_rr_naptr s rdlength)
    else if type =? ARES_REC_TYPE_ANY then Err ARES_EBADRESP
    else if type =? ARES_REC_TYPE_OPT then parse_rr_opt s rdlength raw_class raw_ttl raw_rcode
    else if type =? ARES_REC_TYPE_TLSA then plain (parse_rr_tlsa s rdlength)
    else if type =? ARES_REC_TYPE_SVCB then plain (parse_rr_svcb s rdlength)
    else if type =? ARES_REC_TYPE_HTTPS then plain (parse_rr_https s rdlength)
    else if type =? ARES_REC_TYPE_URI then plain (parse_rr_uri s rdlength)
    else if type =? ARES_REC_TYPE_CAA then plain (parse_rr_caa s rdlength)
    else if type =? ARES_REC_TYPE_RAW_RR then plain (parse_rr_raw_rr s rdlength raw_type)
    else Err ARES_EFORMERR.

  (* ares_dns_parse_header *)
  Definition parse_header (c : cursor) : outcome (cursor * dnsrec * (Z * Z * Z * Z)) :=
    do r <- fetch_be16 c; let '(id, c) := r in
    do r <- fetch_be16 c; let '(u16, c) := r in
    let bit (mask flag : Z) := if negb (Z.land u16 mask =? 0) then flag else 0 in
    let dns_flags :=
        Z.lor (Z.lor (Z.lor (Z.lor (Z.lor (Z.lor (bit 32768 ARES_FLAG_QR) (bit 1024 ARES_FLAG_AA))
                                                 (bit 512 ARES_FLAG_TC)) (bit 256 ARES_FLAG_RD))
                            (bit 128 ARES_FLAG_RA)) (bit 32 ARES_FLAG_AD)) (bit 16 ARES_FLAG_CD) in
    let opcode := Z.land (Z.shiftr u16 11) 15 in
    let rcode := Z.land u16 15 in
    do r <- fetch_be16 c; let '(qdcount, c) := r in
    do r <- fetch_be16 c; let '(ancount, c) := r in
    do r <- fetch_be16 c; let '(nscount, c) := r in
    do r <- fetch_be16 c; let '(arcount, c) := r in
    do d <- record_create id dns_flags opcode ARES_RCODE_NOERROR;
    Ok (c, set_raw_rcode d rcode, (qdcount, ancount, nscount, arcount)).

  (* ares_dns_parse_qd *)
  Definition parse_qd (c : cursor) (d : dnsrec) : outcome (cursor * dnsrec) :=
    do r <- dns_name_parse fuel c true false; let '(name, c) := r in
    do r <- fetch_be16 c; let '(qtype, c) := r in
    do r <- fetch_be16 c; let '(qclass, c) := r in
    do d' <- query_add d name qtype qclass;
    Ok (c, d').

  (* ares_dns_parse_rr *)
  Definition parse_rr (c : cursor) (flags sect : Z) (d : dnsrec) : outcome (cursor * dnsrec) :=
    do r <- dns_name_parse fuel c true false; let '(name, c) := r in
    do r <- fetch_be16 c; let '(raw_type, c) := r in
    do r <- fetch_be16 c; let '(qclass, c) := r in
    do r <- fetch_be32 c; let '(ttl, c) := r in
    do r <- fetch_be16 c; let '(rdlength, c) := r in
    let type := if negb (rec_type_isvalid raw_type false) then ARES_REC_TYPE_RAW_RR else raw_type in
    let namecomp := allow_name_comp type in
    let forced (s base ext : Z) :=
        (sect =? s) && negb (Z.land flags (if namecomp then base else ext) =? 0) in
    let type := if forced ARES_SECTION_ANSWER ARES_DNS_PARSE_AN_BASE_RAW ARES_DNS_PARSE_AN_EXT_RAW
                then ARES_REC_TYPE_RAW_RR else type in
    let type := if forced ARES_SECTION_AUTHORITY ARES_DNS_PARSE_NS_BASE_RAW ARES_DNS_PARSE_NS_EXT_RAW
                then ARES_REC_TYPE_RAW_RR else type in
    let type := if forced ARES_SECTION_ADDITIONAL ARES_DNS_PARSE_AR_BASE_RAW ARES_DNS_PARSE_AR_EXT_RAW
                then ARES_REC_TYPE_RAW_RR else type in
    do bl <- buf_len c;
    if rdlength >? bl then Err ARES_EBADRESP else
    do r0 <- rr_add name sect type
                    (if type =? ARES_REC_TYPE_OPT then ARES_CLASS_IN else qclass)
                    (if type =? ARES_REC_TYPE_OPT then 0 else ttl);
    do remaining_len <- buf_len c;
    do res <- parse_rr_data (c, r0) rdlength type raw_type qclass ttl (d_raw_rcode d);
    let '((c, r1), raw_rcode) := res in
    do bl2 <- buf_len c;
    let processed_len := (remaining_len - bl2) mod 2 ^ 64 in
    if processed_len >? rdlength then Err ARES_EBADRESP else
    do c <- (if processed_len <? rdlength then
               (* return value of ares_buf_consume is ignored *)
               do r <- consume c ((rdlength - processed_len) mod 2 ^ 64); Ok (snd r)
             else Ok c);
    Ok (c, section_append (set_raw_rcode d raw_rcode) sect r1).

  Fixpoint parse_rrs (n : nat) (c : cursor) (flags sect : Z) (d : dnsrec) {struct n}
    : outcome (cursor * dnsrec) :=
    match n with
    | O => Ok (c, d)
    | S n' => do r <- parse_rr c flags sect d; parse_rrs n' (fst r) flags sect (snd r)
    end.

  Fixpoint parse_qds (n : nat) (c : cursor) (d : dnsrec) {struct n} : outcome (cursor * dnsrec) :=
    match n with
    | O => Ok (c, d)
    | S n' => do r <- parse_qd c d; parse_qds n' (fst r) (snd r)
    end.

  (* ares_dns_parse_buf *)
  Definition parse_buf (c : cursor) (flags : Z) : outcome dnsrec :=
    do bl <- buf_len c;
    if bl >? 65535 then Err ARES_EFORMERR else
    do h <- parse_header c;
    let '(c, d, (qdcount, ancount, nscount, arcount)) := h in
    if qdcount =? 0 then Err ARES_EBADRESP else
    if qdcount >? 1 then Err ARES_EBADRESP else
    do r <- parse_qds (Z.to_nat qdcount) c d;
    do r <- parse_rrs (Z.to_nat ancount) (fst r) flags ARES_SECTION_ANSWER (snd r);
    do r <- parse_rrs (Z.to_nat nscount) (fst r) flags ARES_SECTION_AUTHORITY (snd r);
    do r <- parse_rrs (Z.to_nat arcount) (fst r) flags ARES_SECTION_ADDITIONAL (snd r);
    let d := snd r in
    Ok (if negb (rcode_isvalid (d_raw_rcode d)) then set_rcode d ARES_RCODE_SERVFAIL
        else set_rcode d (d_raw_rcode d)).
End Decoders.

(* ares_dns_parse(buf, buf_len, flags, &dnsrec) on a block of exactly [bs] *)
Definition dns_parse_v (vr : variant) (bs : list N) (flags : Z) : outcome dnsrec :=
  if Z.of_nat (length bs) =? 0 then Err ARES_EFORMERR else
  let c := cur_of_bytes bs in
  parse_buf vr (name_fuel c) c flags.

Definition dns_parse := dns_parse_v fixed_tree.
Definition dns_parse_pinned := dns_parse_v pinned_tree.
