(* C03, names written WITH hostname validation (owner names, question names): ares_split_dns_name
   with validate_hostname = TRUE on canonical text whose octets are all hostname characters. *)
From CAres.Wire Require Import Cursor Cursor_proofs Name Name_proofs Record Escape Escape_proofs RefDecode Bits
     Name_ref Write Write_name Split_tokens.
From CAres.Gen Require Import Consts LeafFns Tables.
Local Open Scope Z_scope.

Definition host_octet (b : N) : Prop := c_is_hostnamech (Z.of_N b) = true.
Definition host_label (l : list N) : Prop := Forall host_octet l.

(* hostname characters are printable octets (generated tables) *)
Lemma hostname_printable : forallb (fun c => c_isprint c && (c <? 256) && (0 <=? c)) tbl_is_hostnamech = true.
Proof. vm_compute. reflexivity. Qed.

Lemma isprint_octets_agree : forallb (fun c => Bool.eqb (c_isprint c) ((32 <=? c) && (c <=? 126))) octets = true.
Proof. vm_compute. reflexivity. Qed.

Lemma host_octet_facts b : host_octet b -> (b < 256)%N /\ printable b = true.
Proof.
  intros H. unfold host_octet in H. apply zmem_in in H.
  pose proof hostname_printable as T. rewrite forallb_forall in T. specialize (T _ H).
  apply andb_prop in T. destruct T as [T T3]. apply andb_prop in T. destruct T as [T1 T2].
  apply Z.ltb_lt in T2. apply Z.leb_le in T3. split; [lia|].
  pose proof isprint_octets_agree as A. rewrite forallb_forall in A.
  specialize (A _ (in_octets _ (conj T3 T2))). apply eqb_prop in A. unfold printable. rewrite <- A. exact T1.
Qed.

(* with validation, the scanner accepts exactly the same text and yields the same labels when all
   octets it produces are hostname characters; in general it only adds refusals *)
Lemma split_go_true_len : forall n t done cur r, (length t <= n)%nat ->
  split_go true t done cur = Ok r -> split_go false t done cur = Ok r.
Proof.
  induction n as [|n IH]; intros t done cur r Hn H.
  - destruct t; [exact H | simpl in Hn; lia].
  - destruct t as [|c rest]; [exact H|]. cbn [length] in Hn. cbn [split_go] in *.
    destruct (Z.of_N c =? 46); [apply (IH rest _ _ _ ltac:(lia) H)|].
    destruct (Z.of_N c =? 92).
    + destruct rest as [|d1 rest1]; [exact H|]. cbn [length] in Hn.
      destruct (c_isdigit (Z.of_N d1)).
      * destruct rest1 as [|d2 [|d3 rest3]]; try exact H. cbn [length] in Hn.
        destruct (negb (c_isdigit (Z.of_N d2))); [exact H|].
        destruct (negb (c_isdigit (Z.of_N d3))); [exact H|].
        match type of H with (if ?c then _ else _) = _ => destruct c end; [exact H|].
        cbn [andb] in *.
        match type of H with (if ?c then _ else _) = _ => destruct c end; [discriminate|].
        apply (IH rest3 _ _ _ ltac:(lia) H).
      * cbn [andb] in *.
        match type of H with (if ?c then _ else _) = _ => destruct c end; [discriminate|].
        apply (IH rest1 _ _ _ ltac:(lia) H).
    + cbn [andb] in *.
      match type of H with (if ?c then _ else _) = _ => destruct c end; [discriminate|].
      apply (IH rest _ _ _ ltac:(lia) H).
Qed.

Lemma split_dns_name_true_false t r : split_dns_name true t = Ok r -> split_dns_name false t = Ok r.
Proof.
  unfold split_dns_name. intros H.
  destruct (split_go true t [] []) as [ls| |] eqn:E; cbn [bind] in H; try discriminate.
  rewrite (split_go_true_len (length t) t [] [] ls (le_n _) E). exact H.
Qed.

Lemma split_go_true_escape_octet b rest done cur :
  host_octet b ->
  split_go true (escape_octet b ++ rest) done cur = split_go true rest done (cur ++ [b]).
Proof.
  intros Hh. destruct (host_octet_facts b Hh) as [Hb Hp]. unfold escape_octet. rewrite Hp. cbn [negb].
  unfold host_octet in Hh.
  destruct (c_is_reservedch (Z.of_N b)) eqn:Er.
  - cbn [app split_go]. change (Z.of_N 92) with 92. cbn [Z.eqb Pos.eqb].
    rewrite (Write_name.c_isdigit_spec b Hb), (reserved_is_not_digit b Er). rewrite Hh. cbn [negb andb]. reflexivity.
  - cbn [app split_go]. destruct dot_backslash_reserved as [Rd Rb].
    destruct (Z.of_N b =? 46) eqn:E1; [apply Z.eqb_eq in E1; rewrite E1 in Er; congruence|].
    destruct (Z.of_N b =? 92) eqn:E2; [apply Z.eqb_eq in E2; rewrite E2 in Er; congruence|].
    rewrite Hh. cbn [negb andb]. reflexivity.
Qed.

Lemma split_go_true_escape_label l : forall rest done cur,
  host_label l -> split_go true (Escape.escape_label l ++ rest) done cur = split_go true rest done (cur ++ l).
Proof.
  induction l as [|b l IH]; intros rest done cur H.
  - rewrite app_nil_r. reflexivity.
  - inversion H as [|? ? Hb Hl]; subst. unfold Escape.escape_label in *. cbn [flat_map].
    rewrite <- app_assoc. rewrite split_go_true_escape_octet by assumption.
    rewrite IH by assumption. rewrite <- app_assoc. reflexivity.
Qed.

Lemma split_go_true_escape_name ls : forall done,
  Forall host_label ls -> ls <> [] ->
  split_go true (escape_name ls) done [] = Ok (done ++ ls).
Proof.
  induction ls as [|l ls IH]; intros done Hok Hne; [congruence|].
  inversion Hok as [|? ? Hl Hls]; subst.
  unfold escape_name in *. cbn [map join_dots].
  destruct ls as [|l2 ls'].
  - cbn [map join_dots]. rewrite <- (app_nil_r (Escape.escape_label l)).
    rewrite split_go_true_escape_label by assumption. reflexivity.
  - cbn [map] in *. rewrite split_go_true_escape_label by assumption.
    cbn [split_go]. change (Z.of_N 46 =? 46) with true. cbn iota.
    rewrite IH by (assumption || discriminate). rewrite <- app_assoc. reflexivity.
Qed.

(* ares_split_dns_name with or without validation agrees on canonical hostname text *)
Lemma split_dns_name_canonical_v (v : bool) ls :
  Forall label_ok ls -> wire_len ls <= 256 -> (v = true -> Forall host_label ls) ->
  split_dns_name v (escape_name ls) = Ok ls.
Proof.
  intros Hls Hw Hv. destruct v; [|apply split_dns_name_canonical; assumption].
  pose proof (split_dns_name_canonical ls Hls Hw) as F. unfold split_dns_name in *.
  destruct ls as [|l0 ls0]; [exact F|].
  rewrite (split_go_true_escape_name (l0 :: ls0) [] (Hv eq_refl) ltac:(discriminate)).
  rewrite (split_go_escape_name (l0 :: ls0) []) in F; [exact F | | discriminate].
  eapply Forall_impl; [|exact Hls]. intros a [H _]. exact H.
Qed.
