(* Every failure inside ares_dns_write_buf carries a failure status: the `status != ARES_SUCCESS`
   test after it cannot mistake a failed write for a successful one. *)
From Coq Require Import List ZArith Lia Bool.
Import ListNotations.
From CAres.Wire Require Import Cursor Name Record Parse Escape RefDecode Write Write_query2.
From CAres.Gen Require Import Consts LeafFns Tables.
Local Open Scope Z_scope.

Definition errs_ok {A} (m : outcome A) : Prop := forall s, m = Err s -> s <> ARES_SUCCESS.

Lemma errs_ok_ok {A} (a : A) : errs_ok (Ok a).
Proof. intros s H. discriminate H. Qed.

Lemma errs_ok_err {A} s : s <> ARES_SUCCESS -> errs_ok (@Err A s).
Proof. intros Hs s' H. injection H as <-. exact Hs. Qed.

Lemma errs_bind {A B} (m : outcome A) (f : A -> outcome B) : errs_ok m -> (forall x, errs_ok (f x)) -> errs_ok (bind m f).
Proof.
  intros Hm Hf s H. destruct m as [a|s0|]; cbn [bind] in H; [apply (Hf a s H) | | discriminate H].
  injection H as <-. apply (Hm s0 eq_refl).
Qed.

Lemma errs_if {A} (c : bool) (m1 m2 : outcome A) : errs_ok m1 -> errs_ok m2 -> errs_ok (if c then m1 else m2).
Proof. destruct c; auto. Qed.

Lemma errs_set_length b len : errs_ok (wchecked (wb_set_length b len)).
Proof.
  unfold wchecked, wb_set_length. intros s H.
  destruct (w_fresh b); [cbn in H; injection H as <-; discriminate|].
  destruct (len <? 0); [cbn in H; injection H as <-; discriminate|].
  destruct (len <=? w_n b); [cbn in H; discriminate H|].
  destruct (Nat.leb _ _); cbn in H; discriminate H.
Qed.

Section E.
  Variable wv : wvariant.
  Variable base : Z.

  Lemma errs_name b nl v name : errs_ok (name_write wv base b nl v name).
  Proof. intros s H. apply (name_write_err _ _ _ _ _ _ _ H). Qed.

  Ltac leaf := intros s H; repeat match type of H with
                                  | context [match ?m with _ => _ end] => destruct m
                                  | context [if ?c then _ else _] => destruct c
                                  end; try discriminate H; injection H as <-; discriminate.

  Lemma errs_be16 b r k : errs_ok (write_rr_be16 b r k). Proof. unfold write_rr_be16. leaf. Qed.
  Lemma errs_be32 b r k : errs_ok (write_rr_be32 b r k). Proof. unfold write_rr_be32. leaf. Qed.
  Lemma errs_u8 b r k : errs_ok (write_rr_u8 b r k). Proof. unfold write_rr_u8. leaf. Qed.
  Lemma errs_str b r k : errs_ok (write_rr_str b r k). Proof. unfold write_rr_str. leaf. Qed.
  Lemma errs_rest_bin b r k : errs_ok (write_rr_rest_bin b r k). Proof. unfold write_rr_rest_bin. leaf. Qed.
  Lemma errs_abin b r k : errs_ok (write_rr_abin b r k). Proof. unfold write_rr_abin. leaf. Qed.

  Lemma errs_rr_name b r nl k : errs_ok (write_rr_name wv base b r nl k).
  Proof.
    unfold write_rr_name. destruct (get_field r k) as [[| | | | |[n|]|[n|]| | |]|]; try (apply errs_ok_err; discriminate); apply errs_name.
  Qed.

  Ltac compose :=
    repeat first [ apply errs_ok_ok | apply errs_ok_err; discriminate
                 | apply errs_be16 | apply errs_be32 | apply errs_u8 | apply errs_str | apply errs_rest_bin | apply errs_abin
                 | apply errs_rr_name | apply errs_name | apply errs_set_length
                 | apply errs_bind; [|intros ?] | apply errs_if ].

  Lemma errs_rr_data b r nlp rcode : errs_ok (write_rr_data wv base b r nlp rcode).
  Proof.
    unfold write_rr_data. cbv zeta.
    repeat match goal with |- errs_ok (if ?c then _ else _) => apply errs_if end; compose;
      repeat match goal with
             | |- errs_ok (match get_field ?r ?k with _ => _ end) => destruct (get_field r k) as [[| | | | |[?|]|[?|]|[?|]| |]|]; compose
             end.
  Qed.

  Lemma errs_one_rr b nl r rcode ttl_dec : errs_ok (write_one_rr wv base b nl r rcode ttl_dec).
  Proof.
    unfold write_one_rr. cbv zeta.
    repeat first [ apply errs_rr_data | apply errs_ok_ok | apply errs_name | apply errs_set_length | apply errs_bind; [|intros ?] ].
  Qed.

  Lemma errs_rrs rcode ttl_dec : forall rs b nl, errs_ok (write_rrs wv base b nl rs rcode ttl_dec).
  Proof. induction rs as [|r rs IH]; intros b nl; cbn [write_rrs]; [apply errs_ok_ok|]. apply errs_bind; [apply errs_one_rr | intros x; apply IH]. Qed.

  Lemma errs_questions : forall qs b nl, errs_ok (write_questions wv base b nl qs).
  Proof. induction qs as [|q qs IH]; intros b nl; cbn [write_questions]; [apply errs_ok_ok|]. apply errs_bind; [apply errs_name | intros x; apply IH]. Qed.
End E.
