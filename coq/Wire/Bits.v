(* Octet arithmetic shared by the agreement proofs: the bit tests the C code uses on a length /
   pointer octet versus plain comparisons, and big-endian assembly as sums. *)
From Coq Require Import List ZArith Lia Bool.
Import ListNotations.
Local Open Scope Z_scope.

Definition octets : list Z := map Z.of_nat (seq 0 256).

Lemma in_octets b : 0 <= b < 256 -> In b octets.
Proof.
  intros H. unfold octets. replace b with (Z.of_nat (Z.to_nat b)) by lia.
  apply in_map. apply in_seq. lia.
Qed.

Definition octet_tests (b : Z) : bool :=
  Bool.eqb (Z.land b 192 =? 192) (192 <=? b)
  && Bool.eqb (Z.land b 192 =? 0) (b <? 64)
  && (if 192 <=? b then Z.land b 63 =? b - 192 else true).

Lemma octet_tests_all : forallb octet_tests octets = true.
Proof. vm_compute. reflexivity. Qed.

Lemma octet_tests_ok b : 0 <= b < 256 -> octet_tests b = true.
Proof. intros H. pose proof octet_tests_all as A. rewrite forallb_forall in A. apply A, in_octets, H. Qed.

Lemma is_pointer_octet b : 0 <= b < 256 -> (Z.land b 192 =? 192) = (192 <=? b).
Proof.
  intros H. pose proof (octet_tests_ok b H) as T. unfold octet_tests in T.
  apply andb_prop in T. destruct T as [T _]. apply andb_prop in T. destruct T as [T _].
  apply eqb_prop in T. exact T.
Qed.

Lemma is_label_octet b : 0 <= b < 256 -> (Z.land b 192 =? 0) = (b <? 64).
Proof.
  intros H. pose proof (octet_tests_ok b H) as T. unfold octet_tests in T.
  apply andb_prop in T. destruct T as [T _]. apply andb_prop in T. destruct T as [_ T].
  apply eqb_prop in T. exact T.
Qed.

Lemma pointer_high b : 192 <= b < 256 -> Z.land b 63 = b - 192.
Proof.
  intros H. pose proof (octet_tests_ok b ltac:(lia)) as T. unfold octet_tests in T.
  apply andb_prop in T. destruct T as [_ T].
  destruct (192 <=? b) eqn:E; [apply Z.eqb_eq in T; exact T | apply Z.leb_gt in E; lia].
Qed.

(* a | (k << 8) with a below 2^8: disjoint bits, so it is a sum *)
Lemma land_shiftl_low k a n : 0 <= a < 2 ^ n -> 0 <= n -> Z.land (Z.shiftl k n) a = 0.
Proof.
  intros Ha Hn. apply Z.bits_inj'. intros i Hi. rewrite Z.land_spec, Z.bits_0.
  destruct (Z.ltb_spec i n).
  - rewrite Z.shiftl_spec_low by assumption. reflexivity.
  - destruct (Z.eq_dec a 0) as [->|Hne]; [rewrite Z.bits_0; apply andb_false_r|].
    rewrite (Z.bits_above_log2 a i); [apply andb_false_r | lia |].
    assert (Z.log2 a < n) by (apply Z.log2_lt_pow2; lia). lia.
Qed.

Lemma lor_shiftl_add k a n : 0 <= a < 2 ^ n -> 0 <= n -> Z.lor (Z.shiftl k n) a = k * 2 ^ n + a.
Proof.
  intros Ha Hn. rewrite <- Z.lxor_lor by (apply land_shiftl_low; assumption).
  rewrite <- Z.add_nocarry_lxor by (apply land_shiftl_low; assumption).
  rewrite Z.shiftl_mul_pow2 by assumption. reflexivity.
Qed.

Lemma pointer_offset b b2 :
  192 <= b < 256 -> 0 <= b2 < 256 -> Z.lor (Z.shiftl (Z.land b 63) 8) b2 = (b - 192) * 256 + b2.
Proof.
  intros Hb Hb2. rewrite pointer_high by assumption.
  rewrite (lor_shiftl_add (b - 192) b2 8) by (change (2 ^ 8) with 256; lia). reflexivity.
Qed.

Lemma be16_value b0 b1 :
  0 <= b0 < 256 -> 0 <= b1 < 256 -> Z.land (Z.lor (Z.shiftl b0 8) b1) 65535 = b0 * 256 + b1.
Proof.
  intros H0 H1. rewrite (lor_shiftl_add b0 b1 8) by (change (2 ^ 8) with 256; lia).
  change 65535 with (Z.ones 16). rewrite Z.land_ones by lia. change (2 ^ 8) with 256.
  apply Z.mod_small. change (2 ^ 16) with 65536. lia.
Qed.

Lemma be32_value b0 b1 b2 b3 :
  0 <= b0 < 256 -> 0 <= b1 < 256 -> 0 <= b2 < 256 -> 0 <= b3 < 256 ->
  Z.lor (Z.lor (Z.lor (Z.shiftl b0 24) (Z.shiftl b1 16)) (Z.shiftl b2 8)) b3
  = (b0 * 256 + b1) * 65536 + (b2 * 256 + b3).
Proof.
  intros H0 H1 H2 H3.
  assert (E1 : Z.lor (Z.shiftl b0 24) (Z.shiftl b1 16) = Z.shiftl (b0 * 256 + b1) 16).
  { replace (Z.shiftl b0 24) with (Z.shiftl (Z.shiftl b0 8) 16) by (rewrite Z.shiftl_shiftl by lia; reflexivity).
    rewrite <- Z.shiftl_lor. rewrite (lor_shiftl_add b0 b1 8) by (change (2 ^ 8) with 256; lia).
    change (2 ^ 8) with 256. reflexivity. }
  rewrite E1.
  assert (E2 : Z.lor (Z.shiftl (b0 * 256 + b1) 16) (Z.shiftl b2 8) = Z.shiftl ((b0 * 256 + b1) * 256 + b2) 8).
  { replace (Z.shiftl (b0 * 256 + b1) 16) with (Z.shiftl (Z.shiftl (b0 * 256 + b1) 8) 8)
      by (rewrite Z.shiftl_shiftl by lia; reflexivity).
    rewrite <- Z.shiftl_lor. rewrite (lor_shiftl_add (b0 * 256 + b1) b2 8) by (change (2 ^ 8) with 256; lia).
    change (2 ^ 8) with 256. reflexivity. }
  rewrite E2.
  rewrite (lor_shiftl_add _ b3 8) by (change (2 ^ 8) with 256; lia). change (2 ^ 8) with 256. lia.
Qed.
