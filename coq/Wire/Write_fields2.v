(* What each field writer appends, and that the RFC reference decoder reads it back - in any
   context of the right length (the octets do not depend on what precedes them). *)
From Coq Require Import List ZArith Lia Bool.
Import ListNotations.
From CAres.Wire Require Import Cursor Name Record Parse Escape Escape_proofs RefDecode Name_ref Write Write_name Write_host
     Write_name2 Write_pos Write_patch Write_enc Write_fields Write_query2.
From CAres.Gen Require Import Consts LeafFns Tables.
Local Open Scope Z_scope.

(* ---- octets of the scalar kinds ---- *)
Lemma land255 x : Z.land x 255 = x mod 256.
Proof. change 255 with (Z.ones 8). rewrite Z.land_ones by lia. reflexivity. Qed.

Lemma byte_value v : 0 <= v < 256 -> Z.of_N (Z.to_N (Z.land v 255)) = v.
Proof. intros H. rewrite land255, Z.mod_small by exact H. apply Z2N.id. lia. Qed.

Lemma octet_byte C v post : 0 <= v < 256 -> octet (C ++ [Z.to_N (Z.land v 255)] ++ post) (length C) = Some v.
Proof. intros H. cbn [app]. rewrite octet_app_mid, byte_value by exact H. reflexivity. Qed.

Lemma u16_at_ctx C v post : 0 <= v < 65536 -> u16_at (C ++ be16b v ++ post) (length C) = Some v.
Proof. intros H. rewrite <- (Nat.add_0_r (length C)), u16_at_app_r. apply u16_at_be16b. exact H. Qed.

Lemma be32b_split v : 0 <= v < 2 ^ 32 -> be32b v = be16b (v / 65536) ++ be16b (v mod 65536).
Proof.
  intros H. unfold be32b, be16b. cbn [app]. rewrite !land255. rewrite !Z.shiftr_div_pow2 by lia.
  change (2 ^ 24) with 16777216. change (2 ^ 16) with 65536. change (2 ^ 8) with 256.
  rewrite !Z.mod_mod by lia.
  assert (E1 : v / 65536 / 256 = v / 16777216) by (rewrite Z.div_div by lia; reflexivity).
  assert (E2 : (v mod 65536) / 256 mod 256 = v / 256 mod 256).
  { change 65536 with (256 * 256). rewrite Z.rem_mul_r by lia.
    rewrite (Z.mul_comm 256 (v / 256 mod 256)), Z.div_add by lia. rewrite (Z.div_small (v mod 256)) by (apply Z.mod_pos_bound; lia).
    rewrite Z.add_0_l. rewrite Z.mod_mod by lia. reflexivity. }
  assert (E3 : (v mod 65536) mod 256 = v mod 256).
  { change 65536 with (256 * 256). rewrite Z.rem_mul_r by lia. rewrite (Z.mul_comm 256 (v / 256 mod 256)), Z.mod_add by lia.
    apply Z.mod_mod. lia. }
  rewrite E1, E2, E3. reflexivity.
Qed.

Lemma u32_at_ctx C v post : 0 <= v < 2 ^ 32 -> u32_at (C ++ be32b v ++ post) (length C) = Some v.
Proof.
  intros H. change (2 ^ 32) with 4294967296 in H.
  assert (Hhi : 0 <= v / 65536 < 65536) by (split; [apply Z.div_pos; lia | apply Z.div_lt_upper_bound; lia]).
  assert (Hlo : 0 <= v mod 65536 < 65536) by (apply Z.mod_pos_bound; lia).
  rewrite be32b_split by (change (2 ^ 32) with 4294967296; exact H). unfold u32_at.
  rewrite <- app_assoc, (u16_at_ctx C _ _ Hhi).
  replace (length C + 2)%nat with (length (C ++ be16b (v / 65536))) by (rewrite app_length; reflexivity).
  rewrite app_assoc, (u16_at_ctx _ _ _ Hlo). f_equal. rewrite Z.mul_comm. symmetry. apply Z.div_mod. lia.
Qed.

Lemma bytes_ok_be32b v : bytes_ok (be32b v).
Proof.
  unfold be32b. rewrite !land255.
  repeat constructor; apply N2Z.inj_lt; rewrite Z2N.id by (apply Z.mod_pos_bound; lia); apply Z.mod_pos_bound; lia.
Qed.

Lemma bytes_ok_byte v : bytes_ok [Z.to_N (Z.land v 255)].
Proof. rewrite land255. repeat constructor. apply N2Z.inj_lt. rewrite Z2N.id by (apply Z.mod_pos_bound; lia). apply Z.mod_pos_bound. lia. Qed.

(* ---- <character-string>s ---- *)
Definition enc_charstr (s : list N) : list N := N.of_nat (length s) :: s.

Lemma len_byte s : (length s <= 255)%nat -> Z.to_N (Z.land (Z.land (slen s) 255) 255) = N.of_nat (length s).
Proof.
  intros H. unfold slen. rewrite !land255, Z.mod_mod by lia. rewrite Z.mod_small by lia. rewrite <- nat_N_Z. apply N2Z.id.
Qed.

Lemma charstr_decodes (ne : bool) C s post e :
  (length s <= 255)%nat -> (ne = true -> s <> []) -> (length C + S (length s) <= e)%nat ->
  ref_field (C ++ enc_charstr s ++ post) (KCharStr ne) (length C) e = Some (FStr (Some s), (length C + S (length s))%nat).
Proof.
  intros Hl Hne He. cbn [ref_field]. unfold enc_charstr. cbn [app].
  replace (Nat.leb e (length C)) with false by (symmetry; apply Nat.leb_gt; lia).
  rewrite octet_app_mid. rewrite nat_N_Z.
  replace (ne && (Z.of_nat (length s) =? 0)) with false.
  2:{ destruct ne; [|reflexivity]. cbn [andb]. symmetry. apply Z.eqb_neq. destruct s; [exfalso; apply Hne; reflexivity | cbn [length]; lia]. }
  rewrite Nat2Z.id.
  replace (Nat.ltb e (length C + 1 + length s)) with false by (symmetry; apply Nat.ltb_ge; lia).
  replace (C ++ N.of_nat (length s) :: s ++ post) with ((C ++ [N.of_nat (length s)]) ++ s ++ post) by (rewrite <- app_assoc; reflexivity).
  replace (length C + 1)%nat with (length (C ++ [N.of_nat (length s)])) by (rewrite app_length; reflexivity).
  rewrite slice_app_mid. rewrite app_length. cbn [length]. f_equal. f_equal. lia.
Qed.

Definition enc_charstrs (l : list (list N)) : list N := flat_map enc_charstr l.

Lemma charstrs_decodes : forall l C post f,
  Forall (fun s => (length s <= 255)%nat) l -> (length l < f)%nat ->
  ref_charstrs f (C ++ enc_charstrs l ++ post) (length C) (length C + length (enc_charstrs l)) = Some l.
Proof.
  induction l as [|s l IH]; intros C post f Hl Hf.
  - destruct f; [lia|]. cbn [enc_charstrs flat_map length ref_charstrs]. rewrite Nat.add_0_r, Nat.leb_refl, Nat.eqb_refl. reflexivity.
  - destruct f; [cbn in Hf; lia|]. inversion Hl as [|? ? Hs Hl']; subst.
    cbn [enc_charstrs flat_map]. fold (enc_charstrs l).
    set (bs := C ++ (enc_charstr s ++ enc_charstrs l) ++ post).
    set (C' := (C ++ [N.of_nat (length s)]) ++ s).
    assert (HC' : length C' = (length C + 1 + length s)%nat) by (unfold C'; rewrite !app_length; reflexivity).
    assert (Hbs : bs = C' ++ enc_charstrs l ++ post) by (unfold bs, C', enc_charstr; rewrite <- !app_assoc; reflexivity).
    assert (Hend : (length C + length (enc_charstr s ++ enc_charstrs l) = length C' + length (enc_charstrs l))%nat)
      by (rewrite HC', app_length; unfold enc_charstr; cbn [length]; lia).
    assert (Ho : octet bs (length C) = Some (Z.of_nat (length s))).
    { unfold bs, enc_charstr. rewrite <- app_assoc. cbn [app]. rewrite octet_app_mid, nat_N_Z. reflexivity. }
    assert (Hsl : slice bs (length C + 1) (length s) = Some s).
    { rewrite Hbs. unfold C'. rewrite <- app_assoc.
      replace (length C + 1)%nat with (length (C ++ [N.of_nat (length s)])) by (rewrite app_length; reflexivity).
      apply slice_app_mid. }
    cbn [ref_charstrs]. rewrite Hend.
    replace (Nat.leb (length C' + length (enc_charstrs l)) (length C)) with false by (symmetry; apply Nat.leb_gt; lia).
    rewrite Ho, Nat2Z.id, Hsl. rewrite <- HC'. rewrite Hbs.
    rewrite (IH C' post f Hl') by (cbn [length] in Hf; lia). reflexivity.
Qed.

(* ---- option TLVs ---- *)
Definition enc_tlv (ov : Z * list N) : list N := be16b (fst ov) ++ be16b (Z.land (slen (snd ov)) 65535) ++ snd ov.
Definition enc_tlvs (l : list (Z * list N)) : list N := flat_map enc_tlv l.
Definition tlv_wf (ov : Z * list N) : Prop := 0 <= fst ov < 65536 /\ slen (snd ov) <= 65535.

Lemma tlvs_decodes : forall l C post f,
  Forall tlv_wf l -> (length l < f)%nat ->
  ref_tlvs f (C ++ enc_tlvs l ++ post) (length C) (length C + length (enc_tlvs l)) = Some l.
Proof.
  induction l as [|[code v] l IH]; intros C post f Hl Hf.
  - destruct f; [lia|]. cbn [enc_tlvs flat_map length ref_tlvs]. rewrite Nat.add_0_r, Nat.leb_refl, Nat.eqb_refl. reflexivity.
  - destruct f; [cbn in Hf; lia|]. inversion Hl as [|? ? Hs Hl']; subst. destruct Hs as (Hc & Hv). cbn [fst snd] in Hc, Hv.
    cbn [enc_tlvs flat_map]. fold (enc_tlvs l).
    assert (Hlen : Z.land (slen v) 65535 = slen v) by (apply land_u16; unfold slen in *; lia).
    assert (Hlv : 0 <= slen v < 65536) by (unfold slen in *; lia).
    change (enc_tlv (code, v)) with (be16b code ++ be16b (Z.land (slen v) 65535) ++ v). rewrite !Hlen.
    set (bs := C ++ ((be16b code ++ be16b (slen v) ++ v) ++ enc_tlvs l) ++ post).
    set (C1 := C ++ be16b code). set (C2 := C1 ++ be16b (slen v)). set (C' := C2 ++ v).
    assert (HC' : length C' = (length C + 4 + length v)%nat) by (unfold C', C2, C1; rewrite !app_length; cbn [length be16b]; lia).
    assert (Hbs : bs = C' ++ enc_tlvs l ++ post) by (unfold bs, C', C2, C1; rewrite <- !app_assoc; reflexivity).
    assert (Hend : (length C + length ((be16b code ++ be16b (slen v) ++ v) ++ enc_tlvs l) = length C' + length (enc_tlvs l))%nat)
      by (rewrite HC', !app_length; cbn [length be16b]; lia).
    assert (U1 : u16_at bs (length C) = Some code).
    { unfold bs. rewrite <- !app_assoc. apply u16_at_ctx. exact Hc. }
    assert (U2 : u16_at bs (length C + 2) = Some (slen v)).
    { unfold bs. rewrite <- !app_assoc. rewrite (app_assoc C). fold C1.
      replace (length C + 2)%nat with (length C1) by (unfold C1; rewrite app_length; reflexivity). apply u16_at_ctx. exact Hlv. }
    assert (Hsl : slice bs (length C + 4) (Z.to_nat (slen v)) = Some v).
    { unfold slen. rewrite Nat2Z.id. rewrite Hbs. unfold C'. rewrite <- app_assoc.
      replace (length C + 4)%nat with (length C2) by (unfold C2, C1; rewrite !app_length; cbn [length be16b]; lia).
      apply slice_app_mid. }
    cbn [ref_tlvs]. rewrite Hend.
    replace (Nat.leb (length C' + length (enc_tlvs l)) (length C)) with false by (symmetry; apply Nat.leb_gt; lia).
    rewrite U1, U2, Hsl.
    replace (length C + 4 + Z.to_nat (slen v))%nat with (length C') by (rewrite HC'; unfold slen; lia).
    rewrite Hbs. rewrite (IH C' post f Hl') by (cbn [length] in Hf; lia). reflexivity.
Qed.

(* ---- what the writers append ---- *)
Lemma write_binstr_short s b : (length s <= 255)%nat ->
  w_live (write_binstr (S (length s)) b s) = w_live b ++ enc_charstr s /\
  (wb_wf b -> wb_wf (write_binstr (S (length s)) b s)) /\
  (w_fresh b = false -> w_fresh (write_binstr (S (length s)) b s) = false).
Proof.
  intros H. cbn [write_binstr]. rewrite Nat.min_l by exact H. rewrite firstn_all, skipn_all.
  rewrite w_live_append, w_live_append_byte.
  assert (E : Z.to_N (Z.land (Z.of_nat (length s)) 255) = N.of_nat (length s)).
  { rewrite land255, Z.mod_small by lia. rewrite <- nat_N_Z. apply N2Z.id. }
  rewrite E. unfold enc_charstr. rewrite <- app_assoc. split; [reflexivity|].
  split; intros G; [apply wb_wf_append; apply wb_wf_append; exact G | apply fresh_append; apply fresh_append; exact G].
Qed.

Lemma abin_fold_live : forall l b,
  Forall (fun s => (length s <= 255)%nat) l ->
  let b' := fold_left (fun b s => write_binstr (S (length s)) b s) l b in
  w_live b' = w_live b ++ enc_charstrs l /\ (wb_wf b -> wb_wf b') /\ (w_fresh b = false -> w_fresh b' = false).
Proof.
  induction l as [|s l IH]; intros b Hl; cbv zeta.
  - cbn. rewrite app_nil_r. auto.
  - inversion Hl as [|? ? Hs Hl']; subst. cbn [fold_left enc_charstrs flat_map]. fold (enc_charstrs l).
    destruct (write_binstr_short s b Hs) as (E1 & W1 & F1).
    destruct (IH (write_binstr (S (length s)) b s) Hl') as (E2 & W2 & F2). cbv zeta in E2, W2, F2.
    rewrite E2, E1, <- app_assoc. auto.
Qed.

Lemma opts_fold_live : forall l b,
  let b' := fold_left (fun b ov => wb_append (wb_append_be16 (wb_append_be16 b (fst ov)) (Z.land (slen (snd ov)) 65535)) (snd ov)) l b in
  w_live b' = w_live b ++ enc_tlvs l /\ (wb_wf b -> wb_wf b') /\ (w_fresh b = false -> w_fresh b' = false).
Proof.
  induction l as [|ov l IH]; intros b; cbv zeta.
  - cbn. rewrite app_nil_r. auto.
  - cbn [fold_left enc_tlvs flat_map]. fold (enc_tlvs l).
    destruct (IH (wb_append (wb_append_be16 (wb_append_be16 b (fst ov)) (Z.land (slen (snd ov)) 65535)) (snd ov))) as (E2 & W2 & F2).
    cbv zeta in E2, W2, F2. rewrite E2. unfold wb_append_be16 at 1 2. rewrite !w_live_append. unfold enc_tlv. rewrite <- !app_assoc.
    split; [reflexivity|]. split; intros G.
    + apply W2. apply wb_wf_append. apply wb_wf_be16. apply wb_wf_be16. exact G.
    + apply F2. apply fresh_append. apply fresh_append. apply fresh_append. exact G.
Qed.

Lemma bytes_ok_flat {A} (f : A -> list N) l : Forall (fun x => bytes_ok (f x)) l -> bytes_ok (flat_map f l).
Proof. induction 1; [constructor | cbn [flat_map]; apply bytes_ok_app; assumption]. Qed.

Lemma bytes_ok_len_byte n : (n <= 255)%nat -> (N.of_nat n < 256)%N.
Proof. intros H. lia. Qed.

(* ---- values a field may hold for the round trip ---- *)
Definition name_text_wf (n : list N) : Prop :=
  exists ls, n = escape_name ls /\ Forall label_ok ls /\ wire_len ls <= 256 /\ slen n < 512.

Definition fval_wf (k : fkind) (v : fval) : Prop :=
  match k with
  | KAddr4 => exists a, v = FAddr a /\ length a = 4%nat /\ bytes_ok a
  | KAddr6 => exists a, v = FAddr6 a /\ length a = 16%nat /\ bytes_ok a
  | KU8 => exists z, v = FU8 z /\ 0 <= z < 256
  | KU16 => exists z, v = FU16 z /\ 0 <= z < 65536
  | KU32 => exists z, v = FU32 z /\ 0 <= z < 2 ^ 32
  | KName => exists n, (v = FName (Some n) \/ v = FStr (Some n)) /\ name_text_wf n
  | KCharStr ne => exists s, (v = FStr (Some s) \/ v = FName (Some s)) /\ (length s <= 255)%nat /\ bytes_ok s /\ (ne = true -> s <> [])
  | KRestBin => exists d, v = FBin (Some d) /\ d <> [] /\ bytes_ok d
  | KRestText => exists s, (v = FName (Some s) \/ v = FStr (Some s)) /\ s <> [] /\ bytes_ok s
  | KCharStrs => exists l, v = FAbin l /\ l <> [] /\ Forall (fun s => (length s <= 255)%nat /\ bytes_ok s) l
  | KTlvs => exists l, v = FOpt l /\ Forall (fun ov => tlv_wf ov /\ bytes_ok (snd ov)) l
  end.

(* what the reference decoder reports for it *)
Definition dec_val (k : fkind) (v : fval) : fval :=
  match k, v with
  | KName, FStr s => FName s
  | KCharStr _, FName s => FStr s
  | KRestText, FStr s => FName s
  | _, _ => v
  end.

Lemma dec_val_norm k v : fval_wf k v -> norm_fval (dec_val k v) = norm_fval v.
Proof.
  destruct k; cbn [fval_wf]; intros H; repeat (destruct H as (? & H)); try (destruct H as [->| ->]); subst; try reflexivity;
    match goal with H : _ \/ _ |- _ => destruct H as [->| ->]; reflexivity end.
Qed.

Definition olp_ok (C : list N) (nlp : option (list nameoffset)) : Prop :=
  match nlp with Some ol => ol_ok C ol | None => True end.

Definition last_kind (k : fkind) : bool :=
  match k with KRestBin | KRestText | KCharStrs | KTlvs => true | _ => false end.

Lemma enc_charstrs_len l : (length l <= length (enc_charstrs l))%nat.
Proof.
  induction l as [|s l IH]; [cbn; lia|]. change (enc_charstrs (s :: l)) with (enc_charstr s ++ enc_charstrs l).
  rewrite app_length. unfold enc_charstr. cbn [length]. lia.
Qed.

Lemma enc_tlvs_len l : (length l <= length (enc_tlvs l))%nat.
Proof.
  induction l as [|ov l IH]; [cbn; lia|]. change (enc_tlvs (ov :: l)) with (enc_tlv ov ++ enc_tlvs l).
  rewrite app_length. unfold enc_tlv. rewrite !app_length. cbn [length be16b]. lia.
Qed.

Lemma live_is_app2 b L x y : live_is b L -> live_is (wb_append (wb_append b x) y) (L ++ x ++ y).
Proof. intros H. rewrite app_assoc. apply live_is_append. apply live_is_append. exact H. Qed.

(* ---- one field: what is appended, and that the reference reads it back in any context ---- *)
Lemma wfield_spec k key r v b nlp b' nlp' L C :
  get_field r key = Some v -> fval_wf k v ->
  wfield wfixed 0 k key r (b, nlp) = Ok (b', nlp') ->
  live_is b L -> length C = length L -> olp_ok C nlp ->
  exists X, live_is b' (L ++ X) /\ bytes_ok X /\ olp_ok (C ++ X) nlp' /\ (nlp = None -> nlp' = None) /\
    forall e post, (length C + length X <= e)%nat -> (last_kind k = true -> e = (length C + length X)%nat) ->
      ref_field (C ++ X ++ post) k (length C) e
      = Some (dec_val k v, if is_tlvs k then length C else (length C + length X)%nat).
Proof.
  intros Hg Hwf H Hb HC Hol. pose proof Hb as (Hbw & Hbf & Hbl).
  destruct k; cbn [fval_wf] in Hwf; unfold wfield in H; change (fst (b, nlp)) with b in H; change (snd (b, nlp)) with nlp in H.
  - (* addr4 *)
    destruct Hwf as (a & -> & Ha & Hab). rewrite Hg in H. injection H as <- <-.
    exists a. split; [apply live_is_append; exact Hb|]. split; [exact Hab|]. split; [destruct nlp; [apply ol_ok_app; exact Hol | exact I]|].
    split; [auto|]. intros e post _ _. cbn [ref_field dec_val is_tlvs]. rewrite <- Ha, slice_app_mid. reflexivity.
  - (* addr6 *)
    destruct Hwf as (a & -> & Ha & Hab). rewrite Hg in H. injection H as <- <-.
    exists a. split; [apply live_is_append; exact Hb|]. split; [exact Hab|]. split; [destruct nlp; [apply ol_ok_app; exact Hol | exact I]|].
    split; [auto|]. intros e post _ _. cbn [ref_field dec_val is_tlvs]. rewrite <- Ha, slice_app_mid. reflexivity.
  - (* u8 *)
    destruct Hwf as (z & -> & Hz). unfold write_rr_u8 in H. rewrite Hg in H. cbn [bind] in H. injection H as <- <-.
    exists [Z.to_N (Z.land z 255)]. split; [apply live_is_append; exact Hb|]. split; [apply bytes_ok_byte|].
    split; [destruct nlp; [apply ol_ok_app; exact Hol | exact I]|]. split; [auto|].
    intros e post _ _. cbn [ref_field dec_val is_tlvs]. rewrite (octet_byte C z post Hz). reflexivity.
  - (* u16 *)
    destruct Hwf as (z & -> & Hz). unfold write_rr_be16 in H. rewrite Hg in H. cbn [bind] in H. injection H as <- <-.
    exists (be16b z). split; [apply live_is_append; exact Hb|]. split; [apply bytes_ok_be16b|].
    split; [destruct nlp; [apply ol_ok_app; exact Hol | exact I]|]. split; [auto|].
    intros e post _ _. cbn [ref_field dec_val is_tlvs]. rewrite (u16_at_ctx C z post Hz). reflexivity.
  - (* u32 *)
    destruct Hwf as (z & -> & Hz). unfold write_rr_be32 in H. rewrite Hg in H. cbn [bind] in H. injection H as <- <-.
    exists (be32b z). split; [apply live_is_append; exact Hb|]. split; [apply bytes_ok_be32b|].
    split; [destruct nlp; [apply ol_ok_app; exact Hol | exact I]|]. split; [auto|].
    intros e post _ _. cbn [ref_field dec_val is_tlvs]. rewrite (u32_at_ctx C z post Hz). reflexivity.
  - (* name *)
    destruct Hwf as (n & Hv & ls & -> & Hls & Hw & Ht).
    assert (Hnw : name_write wfixed 0 b nlp false (escape_name ls) = Ok (b', nlp')).
    { unfold write_rr_name in H. rewrite Hg in H. destruct Hv as [->| ->]; exact H. }
    pose proof (name_write_enc wfixed 0 b nlp false (escape_name ls)) as W. cbn [wfixed wv_msg_relative] in W.
    rewrite (live_is_len b L Hb), Z.sub_0_r, <- HC in W.
    destruct (name_enc wfixed (Z.of_nat (length C)) nlp false (escape_name ls)) as [[x nl'']| |] eqn:Ee;
      [|rewrite W in Hnw; discriminate Hnw|rewrite W in Hnw; discriminate Hnw].
    destruct W as (b'' & Ew & Hl'' & Hw'' & Hf''). rewrite Hnw in Ew. injection Ew as <- <-.
    assert (Hdv : dec_val KName v = FName (Some (escape_name ls))) by (destruct Hv as [->| ->]; reflexivity).
    destruct nlp as [ol|].
    + destruct (name_enc_ok false C ol ls x nlp' Hol Hls Hw Ht ltac:(discriminate) Ee) as (ol' & -> & Hol' & Hxb & Href).
      exists x. split; [split; [auto | split; [auto | rewrite Hl'', Hbl; reflexivity]]|]. split; [exact Hxb|]. split; [exact Hol'|].
      split; [discriminate|]. intros e post _ _. cbn [ref_field is_tlvs]. rewrite Href, Hdv. reflexivity.
    + rewrite (name_enc_none wfixed _ ls Hls Hw Ht) in Ee. injection Ee as <- <-.
      exists (enc_labels ls ++ [0%N]). split; [split; [auto | split; [auto | rewrite Hl'', Hbl; reflexivity]]|].
      split; [apply bytes_ok_app; [apply bytes_ok_enc; exact Hls | repeat constructor]|]. split; [exact I|]. split; [reflexivity|].
      intros e post _ _. cbn [ref_field is_tlvs]. rewrite <- app_assoc. cbn [app].
      rewrite (name_uncompressed_decodes C ls post Hls), Hdv. rewrite app_length. cbn [length]. f_equal. f_equal. lia.
  - (* <character-string> *)
    destruct Hwf as (s & Hv & Hl & Hsb & Hne).
    assert (Hws : Ok (wb_append (wb_append_byte b (Z.land (slen s) 255)) s, nlp) = Ok (b', nlp')).
    { unfold write_rr_str in H. rewrite Hg in H.
      assert (Hgt : slen s >? 255 = false) by (rewrite Z.gtb_ltb; apply Z.ltb_ge; unfold slen; lia).
      destruct Hv as [->| ->]; rewrite Hgt in H; exact H. }
    injection Hws as <- <-.
    assert (Hdv : dec_val (KCharStr nonempty) v = FStr (Some s)) by (destruct Hv as [->| ->]; reflexivity).
    exists (enc_charstr s). split.
    { unfold wb_append_byte, enc_charstr. rewrite <- (len_byte s Hl). apply (live_is_app2 b L [_] s Hb). }
    split; [unfold enc_charstr; constructor; [apply bytes_ok_len_byte; exact Hl | exact Hsb]|].
    split; [destruct nlp; [apply ol_ok_app; exact Hol | exact I]|]. split; [auto|].
    intros e post He _. cbn [is_tlvs]. unfold enc_charstr in He. cbn [length] in He.
    rewrite (charstr_decodes nonempty C s post e Hl Hne He), Hdv. reflexivity.
  - (* <character-string>s *)
    destruct Hwf as (l & -> & Hne & Hl).
    unfold write_rr_abin in H. rewrite Hg in H. destruct l as [|s0 l0]; [congruence|].
    assert (Hb' : b' = fold_left (fun b s => write_binstr (S (length s)) b s) (s0 :: l0) b /\ nlp' = nlp)
      by (split; [assert (G : Ok (fold_left (fun b s => write_binstr (S (length s)) b s) (s0 :: l0) b, nlp) = Ok (b', nlp')) by exact H; congruence
                 |assert (G : Ok (fold_left (fun b s => write_binstr (S (length s)) b s) (s0 :: l0) b, nlp) = Ok (b', nlp')) by exact H; congruence]).
    destruct Hb' as (-> & ->). clear H.
    assert (Hl1 : Forall (fun s => (length s <= 255)%nat) (s0 :: l0)) by (eapply Forall_impl; [|exact Hl]; intros ? (? & _); assumption).
    destruct (abin_fold_live (s0 :: l0) b Hl1) as (E & Wf & Ff). cbv zeta in E, Wf, Ff.
    exists (enc_charstrs (s0 :: l0)). split; [split; [auto | split; [auto | rewrite E, Hbl; reflexivity]]|].
    split; [apply bytes_ok_flat; eapply Forall_impl; [|exact Hl]; intros s (Hs1 & Hs2); unfold enc_charstr; constructor;
            [apply bytes_ok_len_byte; exact Hs1 | exact Hs2]|].
    split; [destruct nlp; [apply ol_ok_app; exact Hol | exact I]|]. split; [auto|].
    intros e post _ He. specialize (He eq_refl). subst e. cbn [ref_field dec_val is_tlvs].
    assert (Hpos : (0 < length (enc_charstrs (s0 :: l0)))%nat) by (unfold enc_charstrs; cbn [flat_map]; unfold enc_charstr at 1; cbn [app length]; lia).
    replace (Nat.leb (length C + length (enc_charstrs (s0 :: l0))) (length C)) with false by (symmetry; apply Nat.leb_gt; lia).
    rewrite (charstrs_decodes (s0 :: l0) C post _ Hl1); [reflexivity|].
    pose proof (enc_charstrs_len (s0 :: l0)). lia.
  - (* rest, binary *)
    destruct Hwf as (d & -> & Hd & Hdb). unfold write_rr_rest_bin in H. rewrite Hg in H.
    replace (slen d =? 0) with false in H by (symmetry; apply Z.eqb_neq; unfold slen; destruct d; [congruence | cbn [length]; lia]).
    cbn [bind] in H. injection H as <- <-.
    exists d. split; [apply live_is_append; exact Hb|]. split; [exact Hdb|].
    split; [destruct nlp; [apply ol_ok_app; exact Hol | exact I]|]. split; [auto|].
    intros e post _ He. specialize (He eq_refl). subst e. cbn [ref_field dec_val is_tlvs].
    replace (Nat.leb (length C + length d) (length C)) with false by (symmetry; apply Nat.leb_gt; destruct d; [congruence | cbn [length]; lia]).
    replace (length C + length d - length C)%nat with (length d) by lia. rewrite slice_app_mid. reflexivity.
  - (* rest, text *)
    destruct Hwf as (s & Hv & Hs & Hsb).
    assert (Hws : Ok (wb_append b s, nlp) = Ok (b', nlp')).
    { assert (Hz : slen s =? 0 = false) by (apply Z.eqb_neq; unfold slen; destruct s; [congruence | cbn [length]; lia]).
      rewrite Hg in H. destruct Hv as [->| ->]; rewrite Hz in H; exact H. }
    injection Hws as <- <-.
    assert (Hdv : dec_val KRestText v = FName (Some s)) by (destruct Hv as [->| ->]; reflexivity).
    exists s. split; [apply live_is_append; exact Hb|]. split; [exact Hsb|].
    split; [destruct nlp; [apply ol_ok_app; exact Hol | exact I]|]. split; [auto|].
    intros e post _ He. specialize (He eq_refl). subst e. cbn [ref_field is_tlvs].
    replace (Nat.leb (length C + length s) (length C)) with false by (symmetry; apply Nat.leb_gt; destruct s; [congruence | cbn [length]; lia]).
    replace (length C + length s - length C)%nat with (length s) by lia. rewrite slice_app_mid, Hdv. reflexivity.
  - (* option TLVs *)
    destruct Hwf as (l & -> & Hl). injection H as <- <-. unfold write_opts. rewrite Hg.
    destruct (opts_fold_live l b) as (E & Wf & Ff). cbv zeta in E, Wf, Ff.
    assert (Hl1 : Forall tlv_wf l) by (eapply Forall_impl; [|exact Hl]; intros ? (? & _); assumption).
    exists (enc_tlvs l). split; [split; [auto | split; [auto | rewrite E, Hbl; reflexivity]]|].
    split; [apply bytes_ok_flat; eapply Forall_impl; [|exact Hl]; intros ov (_ & Hs2); unfold enc_tlv;
            repeat apply bytes_ok_app; try apply bytes_ok_be16b; exact Hs2|].
    split; [destruct nlp; [apply ol_ok_app; exact Hol | exact I]|]. split; [auto|].
    intros e post _ He. specialize (He eq_refl). subst e. cbn [ref_field dec_val is_tlvs].
    rewrite (tlvs_decodes l C post _ Hl1); [reflexivity|].
    pose proof (enc_tlvs_len l). lia.
Qed.

(* ---- a whole layout ---- *)
Definition field_of (r : rr) (key : Z) : fval := match get_field r key with Some v => v | None => FU8 0 end.

Definition lay_vals (lay : list (Z * fkind)) (r : rr) : list (Z * fval) :=
  map (fun kv => (fst kv, dec_val (snd kv) (field_of r (fst kv)))) lay.

Definition fields_wf (lay : list (Z * fkind)) (r : rr) : Prop :=
  Forall (fun kv => exists v, get_field r (fst kv) = Some v /\ fval_wf (snd kv) v) lay.

Fixpoint last_ok (lay : list (Z * fkind)) : bool :=
  match lay with
  | [] => true
  | (_, k) :: rest => (negb (last_kind k) || match rest with [] => true | _ => false end) && last_ok rest
  end.

Lemma wfields_spec : forall lay r b nlp b' nlp' L C,
  wfields wfixed 0 lay r (b, nlp) = Ok (b', nlp') ->
  live_is b L -> length C = length L -> olp_ok C nlp -> fields_wf lay r -> last_ok lay = true ->
  exists D, live_is b' (L ++ D) /\ bytes_ok D /\ olp_ok (C ++ D) nlp' /\ (nlp = None -> nlp' = None) /\
    forall post, exists used,
      ref_fields (C ++ D ++ post) lay (length C) (length C + length D) = Some (lay_vals lay r, used) /\
      (used <= length C + length D)%nat /\
      (Nat.eqb used (length C + length D) || existsb (fun kv => is_tlvs (snd kv)) lay = true).
Proof.
  induction lay as [|[key k] rest IH]; intros r b nlp b' nlp' L C H Hb HC Hol Hwf Hlast.
  - cbn in H. injection H as <- <-. exists []. rewrite !app_nil_r. split; [exact Hb|]. split; [constructor|]. split; [exact Hol|].
    split; [auto|]. intros post. exists (length C). cbn [ref_fields lay_vals map length]. rewrite Nat.add_0_r.
    split; [reflexivity|]. split; [lia|]. rewrite Nat.eqb_refl. reflexivity.
  - cbn [wfields] in H. destruct (wfield wfixed 0 k key r (b, nlp)) as [[b1 nlp1]| |] eqn:E1; cbn [bind] in H; try discriminate.
    inversion Hwf as [|? ? Hf1 Hwf']; subst. destruct Hf1 as (v & Hg & Hv). cbn [fst snd] in Hg, Hv.
    cbn [last_ok] in Hlast. apply andb_true_iff in Hlast. destruct Hlast as (Hl1 & Hl2).
    destruct (wfield_spec k key r v b nlp b1 nlp1 L C Hg Hv E1 Hb HC Hol) as (X & Hb1 & HXb & Hol1 & Hn1 & Hdec).
    destruct (IH r b1 nlp1 b' nlp' (L ++ X) (C ++ X) H Hb1 ltac:(rewrite !app_length; lia) Hol1 Hwf' Hl2)
      as (D' & Hb' & HDb & Hol' & Hn' & Hdec').
    exists (X ++ D'). split; [rewrite app_assoc; exact Hb'|]. split; [apply bytes_ok_app; assumption|].
    split; [rewrite app_assoc; exact Hol'|]. split; [auto|].
    intros post. destruct (Hdec' post) as (used' & R' & Hu' & Hx').
    assert (Hlen : (length C + length (X ++ D') = length (C ++ X) + length D')%nat) by (rewrite !app_length; lia).
    assert (Hfv : field_of r key = v) by (unfold field_of; rewrite Hg; reflexivity).
    cbn [ref_fields lay_vals map fst snd]. rewrite Hfv.
    rewrite <- app_assoc. rewrite Hlen.
    assert (Hlk : last_kind k = true -> D' = []).
    { intros Hk. rewrite Hk in Hl1. cbn [negb orb] in Hl1. destruct rest; [|discriminate Hl1].
      cbn in H. injection H as <- <-. destruct Hb1 as (_ & _ & G1). destruct Hb' as (_ & _ & G2).
      rewrite G1 in G2. rewrite <- (app_nil_r (L ++ X)) in G2 at 1. apply app_inv_head in G2. symmetry. exact G2. }
    rewrite (Hdec (length (C ++ X) + length D')%nat (D' ++ post)).
    + destruct (is_tlvs k) eqn:Et.
      * (* tlvs: the last field *)
        assert (Hk : last_kind k = true) by (destruct k; try discriminate Et; reflexivity).
        specialize (Hlk Hk). subst D'. rewrite Hk in Hl1. cbn [negb orb] in Hl1. destruct rest; [|discriminate Hl1].
        cbn [ref_fields lay_vals map existsb snd]. rewrite Et. exists (length C).
        split; [reflexivity|]. split; [rewrite app_length; lia|]. apply orb_true_r.
      * fold (lay_vals rest r). rewrite app_length in R'. rewrite app_assoc, app_length. rewrite R'.
        exists used'. split; [reflexivity|]. split; [rewrite app_length in Hu'; lia|].
        cbn [existsb snd]. rewrite Et. cbn [orb]. rewrite app_length in Hx'. exact Hx'.
    + rewrite app_length. lia.
    + intros Hk. rewrite (Hlk Hk). rewrite app_length. cbn [length]. lia.
Qed.
