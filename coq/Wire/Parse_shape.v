(* C02_result_shape: a successful ares_dns_parse yields a fully formed record - exactly one question,
   as many RRs per section as the header announces, every RR of a type the library knows, with
   every key of that type present (in table order) and holding a value of the key's datatype. *)
From CAres.Wire Require Import Cursor Cursor_proofs Name Name_proofs Record Parse Parse_proofs Escape Escape_proofs RefDecode Bits Name_ref Parse_ref.
From CAres.Gen Require Import Consts LeafFns Tables.
Local Open Scope Z_scope.

Definition fields_typed (fs : list (Z * fval)) : Prop :=
  Forall (fun kv => setter_accepts (snd kv) (key_datatype (fst kv)) = true) fs.

Definition rr_shape (r : rr) : Prop :=
  rec_type_isvalid (rr_type r) false = true /\
  map fst (rr_fields r) = rr_keys (rr_type r) /\
  fields_typed (rr_fields r).

(* ---- table facts, checked on the generated tables ---- *)
Fixpoint zlist_eqb (a b : list Z) : bool :=
  match a, b with
  | [], [] => true
  | x :: a', y :: b' => (x =? y) && zlist_eqb a' b'
  | _, _ => false
  end.

Lemma zlist_eqb_eq a : forall b, zlist_eqb a b = true -> a = b.
Proof.
  induction a as [|x a IH]; intros [|y b] H; simpl in H; try discriminate; [reflexivity|].
  apply andb_prop in H. destruct H as [H1 H2]. apply Z.eqb_eq in H1. subst. f_equal. auto.
Qed.

Definition zero_fields_ok (t : Z) : bool :=
  zlist_eqb (map fst (zero_fields (rr_keys t))) (rr_keys t)
  && forallb (fun kv => setter_accepts (snd kv) (key_datatype (fst kv))) (zero_fields (rr_keys t)).

Lemma zero_fields_table : forallb zero_fields_ok tbl_rec_types_valid_rr = true.
Proof. vm_compute. reflexivity. Qed.

Lemma rr_add_shape nm sect t c ttl r : rr_add nm sect t c ttl = Ok r -> rr_shape r /\ rr_type r = t.
Proof.
  unfold rr_add. intros H.
  match type of H with (if ?c then _ else _) = _ => destruct c eqn:E end; [discriminate|].
  injection H as <-. apply orb_false_elim in E. destruct E as [E _]. apply orb_false_elim in E. destruct E as [_ E].
  apply negb_false_iff in E. split; [|reflexivity].
  unfold rr_shape. cbn [rr_type rr_fields]. split; [exact E|].
  unfold rec_type_isvalid in E. apply zmem_in in E.
  pose proof zero_fields_table as T. rewrite forallb_forall in T. specialize (T _ E).
  unfold zero_fields_ok in T. apply andb_prop in T. destruct T as [T1 T2].
  split; [apply zlist_eqb_eq; exact T1|].
  unfold fields_typed. apply Forall_forall. rewrite forallb_forall in T2. exact T2.
Qed.

(* ---- setters preserve the shape ---- *)
Lemma assoc_set_keys {A} k (v : A) l : map fst (assoc_set k v l) = map fst l.
Proof.
  induction l as [|[k' v'] l IH]; [reflexivity|]. cbn [assoc_set].
  destruct (k =? k') eqn:E; [apply Z.eqb_eq in E; subst; reflexivity | cbn [map fst]; rewrite IH; reflexivity].
Qed.

Lemma assoc_set_typed k v l :
  fields_typed l -> setter_accepts v (key_datatype k) = true -> fields_typed (assoc_set k v l).
Proof.
  intros Hl Hv. induction l as [|[k' v'] l IH]; [constructor|]. cbn [assoc_set].
  inversion Hl as [|? ? H1 H2]; subst.
  destruct (k =? k') eqn:E; [constructor; [exact Hv | exact H2] | constructor; [exact H1 | apply IH; exact H2]].
Qed.

Definition rr_keeps (r r' : rr) : Prop := rr_shape r -> rr_shape r'.

Lemma rr_set_shape r k v r' : rr_set r k v = Ok r' -> rr_keeps r r'.
Proof.
  unfold rr_set. intros H (S1 & S2 & S3).
  destruct (negb (setter_accepts v (key_datatype k))) eqn:Ea; [discriminate|]. apply negb_false_iff in Ea.
  destruct (negb (rr_type r =? key_to_rec_type k)); [discriminate|].
  destruct (assoc_get k (rr_fields r)); [|discriminate]. injection H as <-.
  unfold rr_shape. cbn [rr_type rr_fields]. split; [exact S1|]. split; [rewrite assoc_set_keys; exact S2|].
  apply assoc_set_typed; assumption.
Qed.

Lemma opt_typed k l : key_datatype k =? ARES_DATATYPE_OPT = true -> setter_accepts (FOpt l) (key_datatype k) = true.
Proof. intros H. exact H. Qed.

Lemma rr_set_opt_shape r k o v r' : rr_set_opt r k o v = Ok r' -> rr_keeps r r'.
Proof.
  unfold rr_set_opt. intros H (S1 & S2 & S3).
  destruct (negb (key_datatype k =? ARES_DATATYPE_OPT)) eqn:Ea; [discriminate|]. apply negb_false_iff in Ea.
  destruct (negb (rr_type r =? key_to_rec_type k)); [discriminate|].
  destruct (assoc_get k (rr_fields r)) as [[]|]; try discriminate. injection H as <-.
  unfold rr_shape. cbn [rr_type rr_fields]. split; [exact S1|]. split; [rewrite assoc_set_keys; exact S2|].
  apply assoc_set_typed; [assumption | exact Ea].
Qed.

Lemma rr_add_opt_shape r k o v r' : rr_add_opt r k o v = Ok r' -> rr_keeps r r'.
Proof.
  unfold rr_add_opt. intros H (S1 & S2 & S3).
  destruct (negb (key_datatype k =? ARES_DATATYPE_OPT)) eqn:Ea; [discriminate|]. apply negb_false_iff in Ea.
  destruct (negb (rr_type r =? key_to_rec_type k)); [discriminate|].
  destruct (assoc_get k (rr_fields r)) as [[]|]; try discriminate. injection H as <-.
  unfold rr_shape. cbn [rr_type rr_fields]. split; [exact S1|]. split; [rewrite assoc_set_keys; exact S2|].
  apply assoc_set_typed; [assumption | exact Ea].
Qed.

(* ---- "if it returns normally, the result satisfies P" ---- *)
Definition ensures {A} (P : A -> Prop) (m : outcome A) : Prop := forall a, m = Ok a -> P a.

Lemma ens_bind {A B} (Q : A -> Prop) (P : B -> Prop) (m : outcome A) (f : A -> outcome B) :
  ensures Q m -> (forall a, Q a -> ensures P (f a)) -> ensures P (bind m f).
Proof. intros Hm Hf b H. destruct m as [a| |]; cbn [bind] in H; try discriminate. exact (Hf a (Hm a eq_refl) b H). Qed.

Lemma ens_true {A} (m : outcome A) : ensures (fun _ => True) m.
Proof. intros a _. exact I. Qed.

Lemma ens_ok {A} (P : A -> Prop) a : P a -> ensures P (Ok a).
Proof. intros H b E. injection E as <-. exact H. Qed.

Lemma ens_err {A} (P : A -> Prop) s : ensures P (@Err A s).
Proof. intros a E. discriminate. Qed.

Lemma ens_if {A} (P : A -> Prop) (c : bool) m1 m2 : ensures P m1 -> ensures P m2 -> ensures P (if c then m1 else m2).
Proof. destruct c; auto. Qed.

Definition sh (s : st) : Prop := rr_shape (snd s).

Lemma ens_rr_set r k v : rr_shape r -> ensures rr_shape (rr_set r k v).
Proof. intros H r' E. exact (rr_set_shape _ _ _ _ E H). Qed.

(* a fetch followed by a setter *)
Ltac set_tail :=
  eapply ens_bind; [apply ens_rr_set; assumption | intros ? ?; apply ens_ok; assumption].

Section Shape.
  Variable vr : variant.
  Variable fuel : nat.

  Lemma sh_dns_name s key : sh s -> ensures sh (parse_and_set_dns_name fuel s key).
  Proof. intros H. unfold parse_and_set_dns_name. eapply ens_bind; [apply ens_true | intros ? _]. set_tail. Qed.

  Lemma sh_dns_str s m key b : sh s -> ensures sh (parse_and_set_dns_str s m key b).
  Proof.
    intros H. unfold parse_and_set_dns_str. eapply ens_bind; [apply ens_true | intros ? _].
    apply ens_if; [apply ens_err | set_tail].
  Qed.

  Lemma sh_dns_abin s m key vp : sh s -> ensures sh (parse_and_set_dns_abin s m key vp).
  Proof. intros H. unfold parse_and_set_dns_abin. eapply ens_bind; [apply ens_true | intros ? _]. set_tail. Qed.

  Lemma sh_be32 s key : sh s -> ensures sh (parse_and_set_be32 s key).
  Proof. intros H. unfold parse_and_set_be32. eapply ens_bind; [apply ens_true | intros ? _]. set_tail. Qed.
  Lemma sh_be16 s key : sh s -> ensures sh (parse_and_set_be16 s key).
  Proof. intros H. unfold parse_and_set_be16. eapply ens_bind; [apply ens_true | intros ? _]. set_tail. Qed.
  Lemma sh_u8 s key : sh s -> ensures sh (parse_and_set_u8 s key).
  Proof. intros H. unfold parse_and_set_u8. eapply ens_bind; [apply ens_true | intros ? _]. set_tail. Qed.

  Lemma sh_rest_bin s o r key : sh s -> ensures sh (parse_and_set_rest_bin s o r key).
  Proof.
    intros H. unfold parse_and_set_rest_bin. eapply ens_bind; [apply ens_true | intros ? _].
    apply ens_if; [apply ens_err|]. eapply ens_bind; [apply ens_true | intros ? _]. set_tail.
  Qed.

  Ltac shp := first
    [ apply sh_dns_name | apply sh_dns_str | apply sh_dns_abin | apply sh_be32 | apply sh_be16 | apply sh_u8 | apply sh_rest_bin ]; assumption.

  Ltac shseq := repeat first
    [ shp
    | eapply ens_bind; [shp | intros ? ?]
    | eapply ens_bind; [apply ens_true | intros ? _] ].

  Lemma sh_opt_loop o rd key : forall lfuel s, sh s -> ensures sh (opt_loop vr lfuel s o rd key).
  Proof.
    induction lfuel as [|lf IH]; intros s H; cbn [opt_loop].
    - eapply ens_bind; [apply ens_true | intros ? _]. apply ens_if; [apply ens_ok; exact H | apply ens_err].
    - eapply ens_bind; [apply ens_true | intros ? _]. apply ens_if; [apply ens_ok; exact H|].
      eapply ens_bind; [apply ens_true | intros [opt c1] _].
      eapply ens_bind; [apply ens_true | intros [len c2] _].
      eapply ens_bind; [apply ens_true | intros r2 _].
      eapply ens_bind with (Q := rr_shape).
      + intros r' E. destruct (v_opt_append vr); [exact (rr_add_opt_shape _ _ _ _ _ E H) | exact (rr_set_opt_shape _ _ _ _ _ E H)].
      + intros r' Hr'. apply IH. exact Hr'.
  Qed.

  Lemma sh_parse_rr_data s rdl type rt cls ttl rc :
    sh s -> ensures (fun r => sh (fst r)) (parse_rr_data vr fuel s rdl type rt cls ttl rc).
  Proof.
    intros H. unfold parse_rr_data. cbv zeta.
    assert (Hplain : forall m, ensures sh m -> ensures (fun r : st * Z => sh (fst r)) (do s' <- m; Ok (s', rc))).
    { intros m Hm. eapply ens_bind; [exact Hm | intros s' Hs'; apply ens_ok; exact Hs']. }
    repeat match goal with |- ensures _ (if ?c then _ else _) => apply ens_if end;
      try apply ens_err; try apply Hplain.
    - unfold parse_rr_a. eapply ens_bind; [apply ens_true | intros ? _]. set_tail.
    - unfold parse_rr_ns. shseq.
    - unfold parse_rr_cname. shseq.
    - unfold parse_rr_soa. shseq.
    - unfold parse_rr_ptr. shseq.
    - unfold parse_rr_hinfo. shseq.
    - unfold parse_rr_mx. shseq.
    - unfold parse_rr_txt. shseq.
    - unfold parse_rr_sig. shseq.
    - unfold parse_rr_aaaa. eapply ens_bind; [apply ens_true | intros ? _]. set_tail.
    - unfold parse_rr_srv. shseq.
    - unfold parse_rr_naptr. shseq.
    - unfold parse_rr_opt. eapply ens_bind; [apply ens_true | intros ? _].
      eapply ens_bind; [apply ens_rr_set; exact H | intros r1 H1].
      eapply ens_bind; [apply ens_rr_set; exact H1 | intros r2 H2].
      eapply ens_bind; [apply ens_rr_set; exact H2 | intros r3 H3].
      eapply ens_bind; [apply sh_opt_loop; exact H3 | intros s4 H4]. apply ens_ok. exact H4.
    - unfold parse_rr_tlsa. shseq.
    - unfold parse_rr_svcb. eapply ens_bind; [apply ens_true | intros ? _].
      eapply ens_bind; [shp | intros ? ?]. eapply ens_bind; [shp | intros ? ?]. apply sh_opt_loop. assumption.
    - unfold parse_rr_https. eapply ens_bind; [apply ens_true | intros ? _].
      eapply ens_bind; [shp | intros ? ?]. eapply ens_bind; [shp | intros ? ?]. apply sh_opt_loop. assumption.
    - unfold parse_rr_uri. eapply ens_bind; [apply ens_true | intros ? _].
      eapply ens_bind; [shp | intros s1 H1]. eapply ens_bind; [shp | intros s2 H2].
      eapply ens_bind; [apply ens_true | intros ? _]. apply ens_if; [apply ens_err|].
      eapply ens_bind; [apply ens_true | intros ? _]. apply ens_if; [apply ens_err|].
      eapply ens_bind; [apply ens_rr_set; exact H2 | intros ? ?; apply ens_ok; assumption].
    - unfold parse_rr_caa. shseq.
    - unfold parse_rr_raw_rr. destruct (v_raw_type_first vr).
      + eapply ens_bind; [apply ens_rr_set; exact H | intros r0 H0].
        apply ens_if; [apply ens_ok; exact H0|].
        eapply ens_bind; [apply ens_true | intros ? _].
        eapply ens_bind; [apply ens_rr_set; exact H0 | intros ? ?; apply ens_ok; assumption].
      + apply ens_if; [apply ens_ok; exact H|].
        eapply ens_bind; [apply ens_true | intros ? _].
        eapply ens_bind; [apply ens_rr_set; exact H | intros r1 H1].
        eapply ens_bind; [apply ens_rr_set; exact H1 | intros ? ?; apply ens_ok; assumption].
  Qed.
End Shape.

Definition lens (d : dnsrec) : nat * nat * nat := (length (d_an d), length (d_ns d), length (d_ar d)).
Definition all_shape (d : dnsrec) : Prop := Forall rr_shape (d_an d) /\ Forall rr_shape (d_ns d) /\ Forall rr_shape (d_ar d).
Definition bump (sect : Z) (l : nat * nat * nat) : nat * nat * nat :=
  let '(a, n, r) := l in
  if sect =? ARES_SECTION_ANSWER then (S a, n, r) else if sect =? ARES_SECTION_AUTHORITY then (a, S n, r) else (a, n, S r).

Lemma section_append_shape d sect r :
  all_shape d -> rr_shape r ->
  all_shape (section_append d sect r) /\ lens (section_append d sect r) = bump sect (lens d)
  /\ d_qd (section_append d sect r) = d_qd d.
Proof.
  intros (Ha & Hn & Hr) Hs. unfold section_append, lens, bump, all_shape.
  destruct (sect =? ARES_SECTION_ANSWER); [|destruct (sect =? ARES_SECTION_AUTHORITY)]; cbn [d_an d_ns d_ar d_qd];
    rewrite ?app_length; cbn [length]; repeat split; try assumption;
    try (apply Forall_app; split; [assumption | constructor; [assumption | constructor]]);
    f_equal; try f_equal; lia.
Qed.

Section Message.
  Variable vr : variant.
  Variable fuel : nat.

  Lemma parse_rr_shape c fl sect d :
    all_shape d ->
    ensures (fun r => all_shape (snd r) /\ lens (snd r) = bump sect (lens d) /\ d_qd (snd r) = d_qd d)
            (parse_rr vr fuel c fl sect d).
  Proof.
    intros Hd. unfold parse_rr.
    eapply ens_bind; [apply ens_true | intros [name c1] _].
    eapply ens_bind; [apply ens_true | intros [rt c2] _].
    eapply ens_bind; [apply ens_true | intros [qc c3] _].
    eapply ens_bind; [apply ens_true | intros [ttl c4] _].
    eapply ens_bind; [apply ens_true | intros [rdl c5] _].
    cbv zeta.
    eapply ens_bind; [apply ens_true | intros bl _].
    apply ens_if; [apply ens_err|].
    eapply ens_bind with (Q := rr_shape); [intros r0 E; exact (proj1 (rr_add_shape _ _ _ _ _ _ E))|]. intros r0 H0.
    eapply ens_bind; [apply ens_true | intros rem _].
    eapply ens_bind; [apply (sh_parse_rr_data vr fuel (c5, r0)); exact H0|]. intros [[c6 r1] rc] H1. cbn [fst snd sh] in H1.
    eapply ens_bind; [apply ens_true | intros bl2 _].
    apply ens_if; [apply ens_err|].
    eapply ens_bind; [apply ens_true | intros c7 _].
    apply ens_ok. cbn [snd].
    apply (section_append_shape (set_raw_rcode d rc) sect r1); [exact Hd | exact H1].
  Qed.

  Fixpoint bumps (n : nat) (sect : Z) (l : nat * nat * nat) : nat * nat * nat :=
    match n with O => l | S n' => bumps n' sect (bump sect l) end.

  Lemma parse_rrs_shape fl sect : forall n c d,
    all_shape d ->
    ensures (fun r => all_shape (snd r) /\ lens (snd r) = bumps n sect (lens d) /\ d_qd (snd r) = d_qd d)
            (parse_rrs vr fuel n c fl sect d).
  Proof.
    induction n as [|n IH]; intros c d Hd; cbn [parse_rrs bumps].
    - apply ens_ok. cbn [snd]. repeat split; try apply Hd.
    - eapply ens_bind; [apply parse_rr_shape; exact Hd|]. intros [c1 d1] (H1 & H2 & H3). cbn [fst snd] in *.
      intros r E. destruct (IH c1 d1 H1 r E) as (I1 & I2 & I3). rewrite H2 in I2. rewrite H3 in I3. auto.
  Qed.
End Message.

Lemma bumps_answer n a m r : bumps n ARES_SECTION_ANSWER (a, m, r) = ((n + a)%nat, m, r).
Proof. revert a. induction n as [|n IH]; intros a; cbn [bumps bump]; [reflexivity|].
  change (ARES_SECTION_ANSWER =? ARES_SECTION_ANSWER) with true. cbn iota. rewrite IH. f_equal. f_equal. lia. Qed.
Lemma bumps_authority n a m r : bumps n ARES_SECTION_AUTHORITY (a, m, r) = (a, (n + m)%nat, r).
Proof. revert m. induction n as [|n IH]; intros m; cbn [bumps bump]; [reflexivity|].
  change (ARES_SECTION_AUTHORITY =? ARES_SECTION_ANSWER) with false. change (ARES_SECTION_AUTHORITY =? ARES_SECTION_AUTHORITY) with true.
  cbn iota. rewrite IH. f_equal. f_equal. lia. Qed.
Lemma bumps_additional n a m r : bumps n ARES_SECTION_ADDITIONAL (a, m, r) = (a, m, (n + r)%nat).
Proof. revert r. induction n as [|n IH]; intros r; cbn [bumps bump]; [reflexivity|].
  change (ARES_SECTION_ADDITIONAL =? ARES_SECTION_ANSWER) with false. change (ARES_SECTION_ADDITIONAL =? ARES_SECTION_AUTHORITY) with false.
  cbn iota. rewrite IH. f_equal. lia. Qed.

(* C02_result_shape *)
Theorem result_shape vr bs flags r :
  bytes_ok bs -> Z.of_nat (length bs) < 2 ^ 64 ->
  dns_parse_v vr bs flags = Ok r ->
  length (d_qd r) = 1%nat /\
  u16_at bs 4 = Some 1 /\
  u16_at bs 6 = Some (Z.of_nat (length (d_an r))) /\
  u16_at bs 8 = Some (Z.of_nat (length (d_ns r))) /\
  u16_at bs 10 = Some (Z.of_nat (length (d_ar r))) /\
  Forall rr_shape (d_an r ++ d_ns r ++ d_ar r).
Proof.
  intros Hb Hl H. unfold dns_parse_v in H.
  destruct (Z.of_nat (length bs) =? 0); [discriminate|].
  unfold parse_buf in H.
  destruct (buf_len (cur_of_bytes bs)) as [bl| |]; cbn [bind] in H; try discriminate.
  destruct (bl >? 65535); [discriminate|].
  destruct (parse_header (cur_of_bytes bs)) as [[[c1 d0] [[[qd an] ns] ar]]| |] eqn:Eh; cbn [bind] in H; try discriminate.
  destruct (parse_header_ref bs c1 d0 _ Hb Hl Eh) as (id & fl & qd' & an' & ns' & ar' & U0 & U2 & U4 & U6 & U8 & U10 & -> & H12 & Hcnt & Hhq & Hfl0).
  injection Hcnt as -> -> -> ->.
  destruct (qd' =? 0) eqn:Eq0; [discriminate|]. destruct (qd' >? 1) eqn:Eq1; [discriminate|].
  assert (Hqd1 : qd' = 1).
  { apply Z.eqb_neq in Eq0. rewrite Z.gtb_ltb in Eq1. apply Z.ltb_ge in Eq1.
    pose proof (fetch_be16_ref (set_off (cur_of_bytes bs) 4)) as R.
    destruct (good_cursor bs 4 Hb Hl ltac:(lia)) as (Hc & Hx & Hbo). specialize (R Hc Hx Hbo).
    cbn [c_data c_off set_off cur_of_bytes] in R. change (Z.to_nat 4) with 4%nat in R. rewrite U4 in R. lia. }
  subst qd'. change (Z.to_nat 1) with 1%nat in H. cbn [parse_qds] in H.
  destruct (parse_qd _ (set_off (cur_of_bytes bs) 12) d0) as [[cq dq]| |] eqn:Eqd; cbn [bind fst snd] in H; try discriminate.
  destruct (parse_qd_ref bs _ d0 cq dq Hb Hl H12 (le_n _) Eqd) as (qn & p & qt & qc & _ & _ & _ & Hqd & _).
  assert (Hd0 : d_qd d0 = [] /\ d_an d0 = [] /\ d_ns d0 = [] /\ d_ar d0 = []).
  { unfold parse_header in Eh. repeat inv_step Eh. injection Eh as _ <- _.
    match goal with E : record_create _ _ _ _ = Ok _ |- _ => unfold record_create in E; repeat inv_step E; injection E as <- end.
    repeat split; reflexivity. }
  destruct Hd0 as (Q0 & A0 & N0 & R0).
  assert (Hdq : d_an dq = [] /\ d_ns dq = [] /\ d_ar dq = []).
  { unfold parse_qd in Eqd. repeat inv_step Eqd. injection Eqd as _ <-.
    match goal with E : query_add _ _ _ _ = Ok _ |- _ => unfold query_add in E; repeat inv_step E; injection E as <- end.
    cbn [d_an d_ns d_ar]. auto. }
  destruct Hdq as (A1 & N1 & R1).
  assert (Hsh0 : all_shape dq) by (unfold all_shape; rewrite A1, N1, R1; repeat split; constructor).
  destruct (parse_rrs vr _ (Z.to_nat an') cq flags ARES_SECTION_ANSWER dq) as [[c3 d2]| |] eqn:E1; cbn [bind fst snd] in H; try discriminate.
  destruct (parse_rrs_shape vr _ flags ARES_SECTION_ANSWER _ _ _ Hsh0 _ E1) as (S1 & L1 & Q1). cbn [snd] in *.
  destruct (parse_rrs vr _ (Z.to_nat ns') c3 flags ARES_SECTION_AUTHORITY d2) as [[c4 d3]| |] eqn:E2; cbn [bind fst snd] in H; try discriminate.
  destruct (parse_rrs_shape vr _ flags ARES_SECTION_AUTHORITY _ _ _ S1 _ E2) as (S2 & L2 & Q2). cbn [snd] in *.
  destruct (parse_rrs vr _ (Z.to_nat ar') c4 flags ARES_SECTION_ADDITIONAL d3) as [[c5 d4]| |] eqn:E3; cbn [bind fst snd] in H; try discriminate.
  destruct (parse_rrs_shape vr _ flags ARES_SECTION_ADDITIONAL _ _ _ S2 _ E3) as (S3 & L3 & Q3). cbn [snd] in *.
  unfold lens in L1, L2, L3. rewrite A1, N1, R1 in L1. cbn [length] in L1. rewrite bumps_answer in L1.
  injection L1 as La Ln Lr. rewrite La, Ln, Lr in L2. rewrite bumps_authority in L2. injection L2 as La2 Ln2 Lr2.
  rewrite La2, Ln2, Lr2 in L3. rewrite bumps_additional in L3. injection L3 as La3 Ln3 Lr3.
  assert (Hfin : d_qd r = d_qd d4 /\ d_an r = d_an d4 /\ d_ns r = d_ns d4 /\ d_ar r = d_ar d4).
  { injection H as <-. destruct (negb (rcode_isvalid (d_raw_rcode d4))); repeat split; reflexivity. }
  destruct Hfin as (F1 & F2 & F3 & F4). rewrite F1, F2, F3, F4, Q3, Q2, Q1, Hqd, Q0, La3, Ln3, Lr3.
  assert (Bn : forall v i, u16_at bs i = Some v -> 0 <= v).
  { intros v i U. unfold u16_at in U. destruct (octet bs i) as [a|] eqn:Ea; [|discriminate]. destruct (octet bs (i + 1)) as [b|] eqn:Eb; [|discriminate].
    injection U as <-. unfold octet in Ea, Eb. destruct (nth_error bs i); [|discriminate]. destruct (nth_error bs (i + 1)); [|discriminate].
    injection Ea as <-. injection Eb as <-. lia. }
  pose proof (Bn _ _ U6). pose proof (Bn _ _ U8). pose proof (Bn _ _ U10).
  split; [reflexivity|]. split; [exact U4|].
  replace (Z.of_nat (Z.to_nat an' + 0)) with an' by lia.
  replace (Z.of_nat (Z.to_nat ns' + 0)) with ns' by lia.
  replace (Z.of_nat (Z.to_nat ar' + 0)) with ar' by lia.
  split; [exact U6|]. split; [exact U8|]. split; [exact U10|].
  destruct S3 as (Sa & Sn & Sr). apply Forall_app; split; [exact Sa | apply Forall_app; split; assumption].
Qed.
