(* An INDEPENDENT reference decoder for DNS messages, written from the RFCs only:
     RFC 1035 section 4 (message, header, question, RR format, RDATA of A NS CNAME SOA PTR HINFO MX
     TXT, name compression 4.1.4), RFC 3596 (AAAA), RFC 2535 (SIG), RFC 2782 (SRV), RFC 3403 (NAPTR),
     RFC 6891 (OPT pseudo-RR: CLASS = UDP payload size, TTL = extended RCODE | VERSION | flags),
     RFC 6698 (TLSA), RFC 9460 (SVCB/HTTPS), RFC 7553 (URI), RFC 8659 (CAA).
   It shares with the model of the C code (Parse.v) only the record type (so that dumps can be
   compared) and the key numbers of Gen/Consts.v - no cursor, no helper of Name.v / Parse.v.
   Positions are plain naturals, every access is an option.

   Two notions:
   * [ref_decode]: LENIENT extraction - what the octets say, for every message the layout of which
     can be followed at all (trailing octets inside RDATA or after the message are ignored,
     compressed names are accepted anywhere, no semantic restrictions).  Used for soundness:
     whatever the parser reports must equal this.
   * [ref_strict]: well-formed within the SUPPORTED SUBSET - what a parser must accept
     (completeness); see the definition for the restrictions. *)
From Coq Require Import List ZArith Lia Bool.
Import ListNotations.
From CAres.Gen Require Import Consts Tables.
From CAres.Wire Require Import Record Escape.
Local Open Scope Z_scope.

(* ---- octets ---- *)
Definition octet (bs : list N) (i : nat) : option Z :=
  match nth_error bs i with Some b => Some (Z.of_N b) | None => None end.

Definition u16_at (bs : list N) (i : nat) : option Z :=
  match octet bs i, octet bs (i + 1) with
  | Some a, Some b => Some (a * 256 + b)
  | _, _ => None
  end.

Definition u32_at (bs : list N) (i : nat) : option Z :=
  match u16_at bs i, u16_at bs (i + 2) with
  | Some a, Some b => Some (a * 65536 + b)
  | _, _ => None
  end.

Definition slice (bs : list N) (i n : nat) : option (list N) :=
  if Nat.leb (i + n) (length bs) then Some (firstn n (skipn i bs)) else None.

(* ---- names, RFC 1035 4.1.4 ----
   A name is a sequence of labels ending in a zero octet, or ending in a pointer.  A pointer
   refers to a PRIOR occurrence: its target must lie strictly before the start of the label
   sequence that contains it ([start]).  Hence the walk is strictly decreasing and terminates. *)
Fixpoint ref_scan (follow : nat -> option (list label)) (bf : nat) (bs : list N) (start pos : nat)
  : option (list label * nat) :=
  match bf with
  | O => None
  | S bf' =>
    match octet bs pos with
    | None => None
    | Some b =>
      if b =? 0 then Some ([], (pos + 1)%nat)
      else if b <? 64 then
        match slice bs (pos + 1) (Z.to_nat b) with
        | None => None
        | Some l =>
          match ref_scan follow bf' bs start (pos + 1 + Z.to_nat b) with
          | Some (rest, e) => Some (l :: rest, e)
          | None => None
          end
        end
      else if b >=? 192 then
        match octet bs (pos + 1) with
        | None => None
        | Some b2 =>
          let tgt := Z.to_nat ((b - 192) * 256 + b2) in
          if Nat.ltb tgt start then
            match follow tgt with
            | Some rest => Some (rest, (pos + 2)%nat)
            | None => None
            end
          else None
        end
      else None                                         (* 01 / 10: reserved *)
    end
  end.

Fixpoint ref_name_fuel (jf : nat) (bs : list N) (start : nat) : option (list label * nat) :=
  match jf with
  | O => None
  | S jf' =>
    ref_scan (fun tgt => match ref_name_fuel jf' bs tgt with Some (ls, _) => Some ls | None => None end)
             (S (length bs)) bs start start
  end.

(* labels of the name at [pos] and the position just after it in the enclosing structure *)
Definition ref_name (bs : list N) (pos : nat) : option (list label * nat) :=
  ref_name_fuel (S pos) bs pos.

(* ---- RDATA layouts: one table, per RR type the ordered fields ---- *)
Inductive fkind :=
| KAddr4 | KAddr6 | KU8 | KU16 | KU32
| KName                 (* domain name, possibly compressed *)
| KCharStr (nonempty : bool)  (* <character-string>: length octet + octets *)
| KCharStrs             (* one or more <character-string> up to the end of RDATA *)
| KRestBin              (* the rest of RDATA, at least one octet *)
| KRestText             (* the rest of RDATA as text, at least one octet *)
| KTlvs.                (* (code16, len16, value) up to the end of RDATA *)

Definition layout (t : Z) : option (list (Z * fkind)) :=
  if t =? 1 then Some [(ARES_RR_A_ADDR, KAddr4)]
  else if t =? 2 then Some [(ARES_RR_NS_NSDNAME, KName)]
  else if t =? 5 then Some [(ARES_RR_CNAME_CNAME, KName)]
  else if t =? 6 then Some [(ARES_RR_SOA_MNAME, KName); (ARES_RR_SOA_RNAME, KName); (ARES_RR_SOA_SERIAL, KU32);
                            (ARES_RR_SOA_REFRESH, KU32); (ARES_RR_SOA_RETRY, KU32); (ARES_RR_SOA_EXPIRE, KU32);
                            (ARES_RR_SOA_MINIMUM, KU32)]
  else if t =? 12 then Some [(ARES_RR_PTR_DNAME, KName)]
  else if t =? 13 then Some [(ARES_RR_HINFO_CPU, KCharStr false); (ARES_RR_HINFO_OS, KCharStr false)]
  else if t =? 15 then Some [(ARES_RR_MX_PREFERENCE, KU16); (ARES_RR_MX_EXCHANGE, KName)]
  else if t =? 16 then Some [(ARES_RR_TXT_DATA, KCharStrs)]
  else if t =? 24 then Some [(ARES_RR_SIG_TYPE_COVERED, KU16); (ARES_RR_SIG_ALGORITHM, KU8); (ARES_RR_SIG_LABELS, KU8);
                             (ARES_RR_SIG_ORIGINAL_TTL, KU32); (ARES_RR_SIG_EXPIRATION, KU32);
                             (ARES_RR_SIG_INCEPTION, KU32); (ARES_RR_SIG_KEY_TAG, KU16);
                             (ARES_RR_SIG_SIGNERS_NAME, KName); (ARES_RR_SIG_SIGNATURE, KRestBin)]
  else if t =? 28 then Some [(ARES_RR_AAAA_ADDR, KAddr6)]
  else if t =? 33 then Some [(ARES_RR_SRV_PRIORITY, KU16); (ARES_RR_SRV_WEIGHT, KU16); (ARES_RR_SRV_PORT, KU16);
                             (ARES_RR_SRV_TARGET, KName)]
  else if t =? 35 then Some [(ARES_RR_NAPTR_ORDER, KU16); (ARES_RR_NAPTR_PREFERENCE, KU16);
                             (ARES_RR_NAPTR_FLAGS, KCharStr false); (ARES_RR_NAPTR_SERVICES, KCharStr false);
                             (ARES_RR_NAPTR_REGEXP, KCharStr false); (ARES_RR_NAPTR_REPLACEMENT, KName)]
  else if t =? 52 then Some [(ARES_RR_TLSA_CERT_USAGE, KU8); (ARES_RR_TLSA_SELECTOR, KU8); (ARES_RR_TLSA_MATCH, KU8);
                             (ARES_RR_TLSA_DATA, KRestBin)]
  else if t =? 64 then Some [(ARES_RR_SVCB_PRIORITY, KU16); (ARES_RR_SVCB_TARGET, KName); (ARES_RR_SVCB_PARAMS, KTlvs)]
  else if t =? 65 then Some [(ARES_RR_HTTPS_PRIORITY, KU16); (ARES_RR_HTTPS_TARGET, KName); (ARES_RR_HTTPS_PARAMS, KTlvs)]
  else if t =? 256 then Some [(ARES_RR_URI_PRIORITY, KU16); (ARES_RR_URI_WEIGHT, KU16); (ARES_RR_URI_TARGET, KRestText)]
  else if t =? 257 then Some [(ARES_RR_CAA_CRITICAL, KU8); (ARES_RR_CAA_TAG, KCharStr true); (ARES_RR_CAA_VALUE, KRestBin)]
  else None.

(* <character-string>s up to [e]; the last one must not run past [e] *)
Fixpoint ref_charstrs (fuel : nat) (bs : list N) (pos e : nat) : option (list (list N)) :=
  match fuel with
  | O => None
  | S f =>
    if Nat.leb e pos then (if Nat.eqb pos e then Some [] else None)
    else match octet bs pos with
         | None => None
         | Some n =>
           match slice bs (pos + 1) (Z.to_nat n) with
           | None => None
           | Some s => match ref_charstrs f bs (pos + 1 + Z.to_nat n) e with
                       | Some rest => Some (s :: rest)
                       | None => None
                       end
           end
         end
  end.

(* option TLVs up to [e] exactly *)
Fixpoint ref_tlvs (fuel : nat) (bs : list N) (pos e : nat) : option (list (Z * list N)) :=
  match fuel with
  | O => None
  | S f =>
    if Nat.leb e pos then (if Nat.eqb pos e then Some [] else None)
    else match u16_at bs pos, u16_at bs (pos + 2) with
         | Some code, Some n =>
           match slice bs (pos + 4) (Z.to_nat n) with
           | None => None
           | Some v => match ref_tlvs f bs (pos + 4 + Z.to_nat n) e with
                       | Some rest => Some ((code, v) :: rest)
                       | None => None
                       end
           end
         | _, _ => None
         end
  end.

(* one field at [pos] inside RDATA ending at [e]: value and next position *)
Definition ref_field (bs : list N) (k : fkind) (pos e : nat) : option (fval * nat) :=
  match k with
  | KAddr4 => match slice bs pos 4 with Some b => Some (FAddr b, (pos + 4)%nat) | None => None end
  | KAddr6 => match slice bs pos 16 with Some b => Some (FAddr6 b, (pos + 16)%nat) | None => None end
  | KU8 => match octet bs pos with Some v => Some (FU8 v, (pos + 1)%nat) | None => None end
  | KU16 => match u16_at bs pos with Some v => Some (FU16 v, (pos + 2)%nat) | None => None end
  | KU32 => match u32_at bs pos with Some v => Some (FU32 v, (pos + 4)%nat) | None => None end
  | KName => match ref_name bs pos with
             | Some (ls, nxt) => Some (FName (Some (escape_name ls)), nxt)
             | None => None
             end
  | KCharStr nonempty =>
    if Nat.leb e pos then None else
    match octet bs pos with
    | None => None
    | Some n =>
      if nonempty && (n =? 0) then None else
      if Nat.ltb e (pos + 1 + Z.to_nat n) then None else
      match slice bs (pos + 1) (Z.to_nat n) with
      | Some s => Some (FStr (Some s), (pos + 1 + Z.to_nat n)%nat)
      | None => None
      end
    end
  | KCharStrs =>
    if Nat.leb e pos then None else
    match ref_charstrs (S (e - pos)) bs pos e with
    | Some l => Some (FAbin l, e)
    | None => None
    end
  | KRestBin =>
    if Nat.leb e pos then None else
    match slice bs pos (e - pos) with Some b => Some (FBin (Some b), e) | None => None end
  | KRestText =>
    if Nat.leb e pos then None else
    match slice bs pos (e - pos) with Some b => Some (FName (Some b), e) | None => None end
  | KTlvs =>
    match ref_tlvs (S (e - pos)) bs pos e with
    | Some l => Some (FOpt l, pos)     (* position irrelevant: always the last field *)
    | None => None
    end
  end.

Fixpoint ref_fields (bs : list N) (lay : list (Z * fkind)) (pos e : nat) : option (list (Z * fval) * nat) :=
  match lay with
  | [] => Some ([], pos)
  | (key, k) :: rest =>
    match ref_field bs k pos e with
    | None => None
    | Some (v, nxt) =>
      match ref_fields bs rest nxt e with
      | Some (fs, p) => Some ((key, v) :: fs, p)
      | None => None
      end
    end
  end.

Definition is_tlvs (k : fkind) : bool := match k with KTlvs => true | _ => false end.

(* one RR at [pos]: the record, the next position, and for OPT the 8 extension bits of the rcode.
   [strict]: RDATA must be consumed exactly (and not overrun) *)
Definition ref_rr (bs : list N) (pos : nat) : option (rr * nat * option Z * bool) :=
  match ref_name bs pos with
  | None => None
  | Some (owner, p) =>
    match u16_at bs p, u16_at bs (p + 2), u32_at bs (p + 4), u16_at bs (p + 8) with
    | Some t, Some cls, Some ttl, Some rdlen =>
      let rd := (p + 10)%nat in
      let e := (rd + Z.to_nat rdlen)%nat in
      if Nat.ltb (length bs) e then None else
      let name := escape_name owner in
      if t =? 41 then
        (* RFC 6891 6.1.2/6.1.3: CLASS = requestor's UDP payload size;
           TTL = EXTENDED-RCODE(8) | VERSION(8) | DO(1) Z(15) *)
        match ref_tlvs (S (Z.to_nat rdlen)) bs rd e with
        | None => None
        | Some opts =>
          Some (mkRR name 41 1 0
                     [(ARES_RR_OPT_UDP_SIZE, FU16 cls); (ARES_RR_OPT_VERSION, FU8 ((ttl / 65536) mod 256));
                      (ARES_RR_OPT_FLAGS, FU16 (ttl mod 65536)); (ARES_RR_OPT_OPTIONS, FOpt opts)],
                e, Some (ttl / 16777216), true)
        end
      else
        match layout t with
        | None =>
          (* a type without a known layout: opaque RDATA *)
          match slice bs rd (Z.to_nat rdlen) with
          | Some d => Some (mkRR name ARES_REC_TYPE_RAW_RR cls ttl
                                 [(ARES_RR_RAW_RR_TYPE, FU16 t); (ARES_RR_RAW_RR_DATA, FBin (Some d))], e, None, true)
          | None => None
          end
        | Some lay =>
          match ref_fields bs lay rd e with
          | None => None
          | Some (fs, used) =>
            if Nat.ltb e used then None          (* a field ran past RDLENGTH *)
            else Some (mkRR name t cls ttl fs, e, None,
                       Nat.eqb used e || existsb (fun kv => is_tlvs (snd kv)) lay)
          end
        end
    | _, _, _, _ => None
    end
  end.

Fixpoint ref_rrs (n : nat) (bs : list N) (pos : nat) : option (list rr * nat * list Z * bool) :=
  match n with
  | O => Some ([], pos, [], true)
  | S n' =>
    match ref_rr bs pos with
    | None => None
    | Some (r, p, ext, ex) =>
      match ref_rrs n' bs p with
      | None => None
      | Some (rs, p', exts, ex') =>
        Some (r :: rs, p', (match ext with Some x => [x] | None => [] end) ++ exts, ex && ex')
      end
    end
  end.

Record ref_result := mkRef {
  rf_rec : dnsrec;           (* d_rcode = the full 12-bit RCODE the message carries *)
  rf_end : nat;              (* position after the last RR *)
  rf_exact : bool }.         (* every RDATA was consumed exactly *)

(* RFC 1035 4.1.1 header, one question, three RR sections *)
Definition ref_decode (bs : list N) : option ref_result :=
  if Z.of_nat (length bs) >? 65535 then None else
  match u16_at bs 0, u16_at bs 2, u16_at bs 4, u16_at bs 6, u16_at bs 8, u16_at bs 10 with
  | Some id, Some fl, Some qd, Some an, Some ns, Some ar =>
    if negb (qd =? 1) then None else
    let bit (v flag : Z) := if (fl / v) mod 2 =? 1 then flag else 0 in
    let flags := bit 32768 ARES_FLAG_QR + bit 1024 ARES_FLAG_AA + bit 512 ARES_FLAG_TC + bit 256 ARES_FLAG_RD
                 + bit 128 ARES_FLAG_RA + bit 32 ARES_FLAG_AD + bit 16 ARES_FLAG_CD in
    let opcode := (fl / 2048) mod 16 in
    let rcode4 := fl mod 16 in
    match ref_name bs 12 with
    | None => None
    | Some (qn, p) =>
      match u16_at bs p, u16_at bs (p + 2) with
      | Some qt, Some qc =>
        match ref_rrs (Z.to_nat an) bs (p + 4) with
        | None => None
        | Some (ans, p1, e1, x1) =>
          match ref_rrs (Z.to_nat ns) bs p1 with
          | None => None
          | Some (nss, p2, e2, x2) =>
            match ref_rrs (Z.to_nat ar) bs p2 with
            | None => None
            | Some (ars, p3, e3, x3) =>
              match e1 ++ e2 ++ e3 with
              | _ :: _ :: _ => None          (* RFC 6891 6.1.1: at most one OPT RR *)
              | exts =>
                let rcode := match exts with [x] => x * 16 + rcode4 | _ => rcode4 end in
                Some (mkRef (mkRec id flags opcode rcode rcode [mkQ (escape_name qn) qt qc] ans nss ars)
                            p3 (x1 && x2 && x3))
              end
            end
          end
        end
      | _, _ => None
      end
    end
  | _, _, _, _, _, _ => None
  end.

(* ---- agreement ---- *)

(* a NULL pointer with length 0 and an empty byte string are the same value *)
Definition norm_fval (v : fval) : fval :=
  match v with
  | FBin None => FBin (Some [])
  | FName None => FName (Some [])
  | FStr None => FStr (Some [])
  | FStr (Some s) => FName (Some s)          (* STR and NAME keys are both text *)
  | x => x
  end.

Definition norm_rr (r : rr) : rr :=
  mkRR (rr_name r) (rr_type r) (rr_class r) (rr_ttl r) (map (fun kv => (fst kv, norm_fval (snd kv))) (rr_fields r)).

(* the library reports an RCODE it has no enumerator for as SERVFAIL *)
Definition reported_rcode (rc : Z) : Z := if rcode_isvalid rc then rc else ARES_RCODE_SERVFAIL.

Definition norm_ref (r : dnsrec) : dnsrec :=
  mkRec (d_id r) (d_flags r) (d_opcode r) (reported_rcode (d_rcode r)) 0 (d_qd r)
        (map norm_rr (d_an r)) (map norm_rr (d_ns r)) (map norm_rr (d_ar r)).

Definition norm_parsed (r : dnsrec) : dnsrec :=
  mkRec (d_id r) (d_flags r) (d_opcode r) (d_rcode r) 0 (d_qd r)
        (map norm_rr (d_an r)) (map norm_rr (d_ns r)) (map norm_rr (d_ar r)).

Definition fields_agree (parsed : dnsrec) (ref : dnsrec) : Prop := norm_parsed parsed = norm_ref ref.

(* ---- the supported subset (completeness): a message the parser must accept ----
   * the lenient decoder can follow it and every RDATA is consumed exactly;
   * header: opcode one of QUERY IQUERY STATUS NOTIFY UPDATE (Tables.opcode_isvalid);
   * question class and every RR class one the library knows (Tables.class_isvalid; OPT exempt);
   * no RR of the QTYPE-only type 255;
   * text fields (<character-string> of HINFO NAPTR CAA, URI target) printable ASCII - the
     library refuses to hand out other octets as C strings. *)
Definition text_ok (v : fval) (dt : Z) : bool :=
  match v with
  | FStr (Some s) => forallb printable s
  | FName (Some s) => if dt =? ARES_DATATYPE_STR then forallb printable s else true
  | _ => true
  end.

Definition rr_supported (r : rr) : bool :=
  negb (rr_type r =? 255)
  && match assoc_get ARES_RR_RAW_RR_TYPE (rr_fields r) with Some (FU16 t) => negb (t =? 255) | _ => true end
  && ((rr_type r =? 41) || class_isvalid (rr_class r) (rr_type r) false)
  && forallb (fun kv => text_ok (snd kv) (key_datatype (fst kv))
                        && (negb (fst kv =? ARES_RR_URI_TARGET)
                            || match snd kv with FName (Some s) => forallb printable s | _ => true end))
             (rr_fields r).

Definition ref_strict (bs : list N) : bool :=
  match ref_decode bs with
  | None => false
  | Some rf =>
    let d := rf_rec rf in
    rf_exact rf
    && opcode_isvalid (d_opcode d)
    && forallb (fun q => class_isvalid (q_class q) (q_type q) true) (d_qd d)
    && forallb rr_supported (d_an d ++ d_ns d ++ d_ar d)
  end.
