(* C04_sound, RR sections: primitive fetches of the parser model against the reference accessors
   (octet, u16_at, u32_at, slice, ref_name), at a position of the message. *)
From CAres.Wire Require Import Cursor Cursor_proofs Name Name_proofs Record Parse Parse_proofs Escape Escape_proofs RefDecode Bits Name_ref Parse_ref.
From CAres.Gen Require Import Consts LeafFns Tables.
Local Open Scope Z_scope.

Section At.
  Variable bs : list N.
  Hypothesis Hb : bytes_ok bs.
  Hypothesis Hl : Z.of_nat (length bs) < 2 ^ 64.
  Let n : Z := Z.of_nat (length bs).

  Definition at_ (o : Z) : cursor := set_off (cur_of_bytes bs) o.
  Definition pos_ok (o : Z) : Prop := 0 <= o <= Z.of_nat (length bs).

  Lemma at_good o : pos_ok o -> cur_ok (at_ o) /\ exact (at_ o) /\ bytes_ok (c_data (at_ o)).
  Proof. intros H. apply (good_cursor bs o Hb Hl H). Qed.

  Lemma u8_at o v c' :
    pos_ok o -> fetch_u8 (at_ o) = Ok (v, c') ->
    octet bs (Z.to_nat o) = Some v /\ c' = at_ (o + 1) /\ pos_ok (o + 1) /\ 0 <= v < 256.
  Proof.
    intros Ho H. destruct (at_good o Ho) as (Hc & Hx & Hbo).
    pose proof (fetch_u8_ref _ Hc Hx Hbo) as R. change (c_data (at_ o)) with bs in R; change (c_off (at_ o)) with o in R.
    destruct (octet bs (Z.to_nat o)) as [b|].
    - destruct R as (R & Hv & Hlt). rewrite R in H. injection H as <- <-.
      split; [reflexivity | split; [reflexivity | split; [|exact Hv]]].
      change (c_off (at_ o)) with o in Hlt. change (c_len (at_ o)) with (Z.of_nat (length bs)) in Hlt. unfold pos_ok in *. lia.
    - destruct R as [R _]. rewrite R in H. discriminate.
  Qed.

  Lemma be16_at o v c' :
    pos_ok o -> fetch_be16 (at_ o) = Ok (v, c') ->
    u16_at bs (Z.to_nat o) = Some v /\ c' = at_ (o + 2) /\ pos_ok (o + 2).
  Proof.
    intros Ho H. destruct (fetch_be16_at bs o v c' Hb Hl Ho H) as (U & -> & L).
    split; [exact U | split; [reflexivity|]]. unfold pos_ok in *. lia.
  Qed.

  Lemma fetch_be32_ref c :
    cur_ok c -> exact c -> bytes_ok (c_data c) ->
    match u32_at (c_data c) (Z.to_nat (c_off c)) with
    | Some v => fetch_be32 c = Ok (v, set_off c (c_off c + 4))
    | None => fetch_be32 c = Err ARES_EBADRESP
    end.
  Proof.
    intros Hc Hx Hbo. unfold u32_at, u16_at.
    pose proof (octet_rest c 0 Hc) as O0. pose proof (octet_rest c 1 Hc) as O1.
    pose proof (octet_rest c 2 Hc) as O2. pose proof (octet_rest c 3 Hc) as O3. rewrite Nat.add_0_r in O0.
    replace (Z.to_nat (c_off c) + 2 + 1)%nat with (Z.to_nat (c_off c) + 3)%nat by lia.
    rewrite O0, O1, O2, O3.
    pose proof Hc as (Hoff & Hlen & _ & Hr).
    unfold fetch_be32, fetch_remaining. rewrite (buf_len_ok c Hc). cbn [bind].
    assert (Hrl : length (c_rest c) = Z.to_nat (c_len c - c_off c)).
    { rewrite Hr, skipn_length. unfold exact in Hx. lia. }
    destruct (nth_error (c_rest c) 3) as [x3|] eqn:E3.
    - assert (Hl4 : (3 < length (c_rest c))%nat) by (apply nth_error_Some; congruence).
      destruct (nth_error (c_rest c) 0) as [x0|] eqn:E0; [|apply nth_error_None in E0; lia].
      destruct (nth_error (c_rest c) 1) as [x1|] eqn:E1; [|apply nth_error_None in E1; lia].
      destruct (nth_error (c_rest c) 2) as [x2|] eqn:E2; [|apply nth_error_None in E2; lia].
      destruct (c_len c - c_off c <? 4) eqn:E; [apply Z.ltb_lt in E; lia|].
      unfold byte_rel. rewrite E0, E1, E2, E3. cbn [bind].
      rewrite (checked_consume_spec c 4 Hc) by lia. rewrite E.
      assert (B : forall k x, nth_error (c_rest c) k = Some x -> 0 <= Z.of_N x < 256).
      { intros k x Ek. rewrite Hr, nth_error_skipn in Ek. apply (bytes_ok_nth _ _ _ Hbo Ek). }
      rewrite (be32_value _ _ _ _ (B _ _ E0) (B _ _ E1) (B _ _ E2) (B _ _ E3)). reflexivity.
    - assert (Hl4 : (length (c_rest c) <= 3)%nat) by (apply nth_error_None; exact E3).
      destruct (c_len c - c_off c <? 4) eqn:E; [|apply Z.ltb_ge in E; lia].
      destruct (nth_error (c_rest c) 0); [destruct (nth_error (c_rest c) 1); [destruct (nth_error (c_rest c) 2)|]|]; reflexivity.
  Qed.

  Lemma be32_at o v c' :
    pos_ok o -> fetch_be32 (at_ o) = Ok (v, c') ->
    u32_at bs (Z.to_nat o) = Some v /\ c' = at_ (o + 4) /\ pos_ok (o + 4).
  Proof.
    intros Ho H. destruct (at_good o Ho) as (Hc & Hx & Hbo).
    pose proof (fetch_be32_ref _ Hc Hx Hbo) as R. change (c_data (at_ o)) with bs in R; change (c_off (at_ o)) with o in R.
    destruct (u32_at bs (Z.to_nat o)) as [v0|].
    - rewrite R in H. injection H as <- <-. split; [reflexivity | split; [reflexivity|]].
      pose proof (fetch_be32_safe _ Hc) as S. rewrite R in S. cbn [safe fst snd] in S.
      destruct S as (_ & Hco & _). destruct Hco as ((_ & Hle) & _).
      change (c_off (set_off (at_ o) (o + 4))) with (o + 4) in Hle. change (c_len (set_off (at_ o) (o + 4))) with (Z.of_nat (length bs)) in Hle.
      unfold pos_ok in *. lia.
    - rewrite R in H. discriminate.
  Qed.

  Lemma bytes_at o len l c' :
    pos_ok o -> 0 <= len -> fetch_bytes (at_ o) len = Ok (l, c') ->
    slice bs (Z.to_nat o) (Z.to_nat len) = Some l /\ c' = at_ (o + len) /\ pos_ok (o + len) /\ 0 < len.
  Proof.
    intros Ho Hl0 H. destruct (at_good o Ho) as (Hc & Hx & Hbo).
    unfold fetch_bytes, fetch_remaining in H. rewrite (buf_len_ok _ Hc) in H. cbn [bind] in H.
    destruct (len =? 0) eqn:E0; [discriminate|]. apply Z.eqb_neq in E0. cbn [orb] in H.
    destruct (c_len (at_ o) - c_off (at_ o) <? len) eqn:E; [discriminate|]. apply Z.ltb_ge in E.
    change (c_off (at_ o)) with o in E. change (c_len (at_ o)) with (Z.of_nat (length bs)) in E.
    assert (Hlen : 0 < len) by lia.
    pose proof (slice_rest (at_ o) (Z.to_nat len) Hc) as S. change (c_data (at_ o)) with bs in S; change (c_off (at_ o)) with o in S.
    unfold read_bytes in H. rewrite take_exact_spec in H.
    destruct (Nat.leb (Z.to_nat len) (length (c_rest (at_ o)))) eqn:El; cbn [bind] in H; [|discriminate].
    rewrite (checked_consume_spec _ len Hc) in H by lia.
    destruct (c_len (at_ o) - c_off (at_ o) <? len); [discriminate|]. injection H as <- <-.
    split; [exact S | split; [reflexivity | split; [unfold pos_ok in *; lia | exact Hlen]]].
  Qed.

  Lemma name_at fuel o nm c' :
    pos_ok o -> (name_fuel (cur_of_bytes bs) <= fuel)%nat ->
    dns_name_parse fuel (at_ o) true false = Ok (nm, c') ->
    exists ls e, ref_name bs (Z.to_nat o) = Some (ls, e) /\ nm = escape_name ls /\ c' = at_ (Z.of_nat e) /\
                 pos_ok (Z.of_nat e).
  Proof.
    intros Ho Hf H. destruct (at_good o Ho) as (Hc & Hx & Hbo).
    pose proof (name_parse_ref fuel _ Hc Hx Hbo Hf) as R. change (c_data (at_ o)) with bs in R; change (c_off (at_ o)) with o in R.
    destruct (ref_name bs (Z.to_nat o)) as [[ls e]|].
    - destruct R as [R _]. rewrite R in H. injection H as <- <-.
      exists ls, e. split; [reflexivity | split; [reflexivity | split; [reflexivity|]]].
      pose proof (dns_name_parse_safe fuel _ true false Hc Hf) as S. rewrite R in S. cbn [safe snd] in S.
      destruct S as ((Hle & _) & _). change (c_off (set_off (at_ o) (Z.of_nat e))) with (Z.of_nat e) in Hle.
      change (c_len (set_off (at_ o) (Z.of_nat e))) with (Z.of_nat (length bs)) in Hle. unfold pos_ok. lia.
    - destruct R as (s & R). rewrite R in H. discriminate.
  Qed.

  Lemma buf_len_at o : pos_ok o -> buf_len (at_ o) = Ok (Z.of_nat (length bs) - o).
  Proof. intros Ho. destruct (at_good o Ho) as (Hc & _ & _). rewrite (buf_len_ok _ Hc). reflexivity. Qed.

  (* ares_buf_fetch_str_dup at a message position *)
  Lemma str_at o len l c' :
    pos_ok o -> 0 <= len -> fetch_str (at_ o) len = Ok (l, c') ->
    slice bs (Z.to_nat o) (Z.to_nat len) = Some l /\ c' = at_ (o + len) /\ pos_ok (o + len) /\ 0 < len.
  Proof.
    intros Ho Hl0 H. destruct (at_good o Ho) as (Hc & Hx & Hbo).
    unfold fetch_str, fetch_remaining in H. rewrite (buf_len_ok _ Hc) in H. cbn [bind] in H.
    destruct (len =? 0) eqn:E0; [discriminate|]. apply Z.eqb_neq in E0. cbn [orb] in H.
    destruct (c_len (at_ o) - c_off (at_ o) <? len) eqn:E; [discriminate|]. apply Z.ltb_ge in E.
    change (c_off (at_ o)) with o in E. change (c_len (at_ o)) with (Z.of_nat (length bs)) in E.
    assert (Hlen : 0 < len) by lia.
    pose proof (slice_rest (at_ o) (Z.to_nat len) Hc) as S. change (c_data (at_ o)) with bs in S; change (c_off (at_ o)) with o in S.
    unfold read_bytes in H. rewrite take_exact_spec in H.
    destruct (Nat.leb (Z.to_nat len) (length (c_rest (at_ o)))) eqn:El; cbn [bind] in H; [|discriminate].
    destruct (negb (all_printable _)); [discriminate|].
    rewrite (checked_consume_spec _ len Hc) in H by lia.
    destruct (c_len (at_ o) - c_off (at_ o) <? len); [discriminate|]. injection H as <- <-.
    split; [exact S | split; [reflexivity | split; [unfold pos_ok in *; lia | exact Hlen]]].
  Qed.

  (* ares_buf_consume with its status ignored, within the block *)
  Lemma consume_at o k :
    pos_ok o -> 0 <= k -> o + k <= Z.of_nat (length bs) ->
    consume (at_ o) k = Ok (ARES_SUCCESS, at_ (o + k)).
  Proof.
    intros Ho Hk Hle. destruct (at_good o Ho) as (Hc & _ & _).
    rewrite (consume_spec _ k Hc Hk). change (c_off (at_ o)) with o. change (c_len (at_ o)) with (Z.of_nat (length bs)).
    destruct (Z.of_nat (length bs) - o <? k) eqn:E; [apply Z.ltb_lt in E; lia | reflexivity].
  Qed.
End At.
