(* The name writer as a function of (position, offset list, text): the octets ares_dns_name_write
   appends and the list it leaves do not depend on what the buffer holds, only on its length.
   Hence a name decodes (RFC walk) in ANY context of that length in which the registered names
   decode - in particular after the RDLENGTH slot in front of it has been back-patched. *)
From Coq Require Import List ZArith Lia Bool.
Import ListNotations.
From CAres.Wire Require Import Cursor Name Record Parse Escape Escape_proofs RefDecode Name_ref Write Write_name Write_host
     Write_name2 Write_pos Write_patch.
From CAres.Gen Require Import Consts LeafFns Tables.
Local Open Scope Z_scope.

Definition emit_bytes (ls : list (list N)) : list N :=
  flat_map (fun l => Z.to_N (Z.land (Z.land (slen l) 255) 255) :: l) ls.

Definition emit (b : wbuf) (ls : list (list N)) : wbuf :=
  fold_left (fun b l => wb_append (wb_append_byte b (Z.land (slen l) 255)) l) ls b.

Lemma emit_live ls : forall b, w_live (emit b ls) = w_live b ++ emit_bytes ls.
Proof.
  induction ls as [|l ls IH]; intros b; [cbn; rewrite app_nil_r; reflexivity|].
  unfold emit in *. cbn [fold_left emit_bytes flat_map]. rewrite IH, w_live_append, w_live_append_byte.
  rewrite <- !app_assoc. reflexivity.
Qed.

Lemma fresh_append b y : w_fresh b = false -> w_fresh (wb_append b y) = false.
Proof. intros H. destruct y; [exact H | reflexivity]. Qed.

Lemma emit_fresh ls : forall b, w_fresh b = false -> w_fresh (emit b ls) = false.
Proof.
  induction ls as [|l ls IH]; intros b H; [exact H|]. unfold emit in *. cbn [fold_left]. apply IH.
  apply fresh_append. apply fresh_append. exact H.
Qed.

(* buffers we reason about: consistent and already written to *)
Definition live_is (b : wbuf) (l : list N) : Prop := wb_wf b /\ w_fresh b = false /\ w_live b = l.

Lemma live_is_holds b l : live_is b l <-> holds b l (w_shadow b).
Proof. unfold live_is, holds. tauto. Qed.

Lemma live_is_append b l y : live_is b l -> live_is (wb_append b y) (l ++ y).
Proof.
  intros (Hw & Hf & Hl). split; [apply wb_wf_append; exact Hw|]. split; [apply fresh_append; exact Hf|].
  rewrite w_live_append, Hl. reflexivity.
Qed.

Lemma live_is_len b l : live_is b l -> wb_len b = Z.of_nat (length l).
Proof. intros (Hw & _ & Hl). rewrite (wb_len_live b Hw), Hl. reflexivity. Qed.

(* ---- the name writer, purely ---- *)
Definition name_enc (wv : wvariant) (pos : Z) (nl : option (list nameoffset)) (validate : bool) (name : list N)
  : outcome (list N * option (list nameoffset)) :=
  if wv_name_no_trunc wv && (slen name >=? 512) then Err ARES_EBADNAME else
  let name_copy := firstn 511 name in
  let orig_name_len := slen name_copy in
  let off := match nl with Some l => nameoffset_find l name_copy | None => None end in
  let name_copy := match off with
                   | Some (on, _) => if negb (slen on =? orig_name_len)
                                     then (if wv_strip_dangling_escape wv then strip_odd_backslash else fun t => t)
                                            (firstn (Z.to_nat (orig_name_len - (slen on + 1))) name_copy)
                                     else name_copy
                   | None => name_copy
                   end in
  let name_len := slen name_copy in
  let exact := match off with Some (on, _) => slen on =? orig_name_len | None => false end in
  do x1 <- (if negb exact then
              do labels <- split_dns_name validate name_copy;
              Ok (emit_bytes labels ++ match off with None => [Z.to_N (Z.land 0 255)] | Some _ => [] end)
            else Ok []);
  let x2 := match off with
            | Some (_, idx) => let v := Z.lor 49152 (Z.land idx 16383) in
                               [Z.to_N (Z.land (Z.land (Z.shiftr v 8) 255) 255); Z.to_N (Z.land (Z.land v 255) 255)]
            | None => []
            end in
  match nl with
  | Some l =>
    if negb exact && (name_len >? 0) && negb (wv_ptr_limit wv && (pos >=? 16384)) then
      do l' <- nameoffset_create l name pos;
      Ok (x1 ++ x2, Some l')
    else Ok (x1 ++ x2, nl)
  | None => Ok (x1 ++ x2, nl)
  end.

Lemma name_write_enc wv base b nl v name :
  match name_enc wv (if wv_msg_relative wv then wb_len b - base else wb_len b) nl v name with
  | Ok (x, nl') => exists b', name_write wv base b nl v name = Ok (b', nl') /\ w_live b' = w_live b ++ x /\
                              (wb_wf b -> wb_wf b') /\ (w_fresh b = false -> w_fresh b' = false)
  | Err s => name_write wv base b nl v name = Err s
  | UB k => name_write wv base b nl v name = UB k
  end.
Proof.
  unfold name_enc, name_write. cbv zeta.
  destruct (wv_name_no_trunc wv && (slen name >=? 512)); [reflexivity|].
  set (nc := firstn 511 name).
  destruct (match nl with Some l => nameoffset_find l nc | None => None end) as [[on idx]|] eqn:Eoff;
    [destruct (slen on =? slen nc) eqn:Eex|]; cbn [negb];
    try (match goal with |- context [split_dns_name ?v ?t] => destruct (split_dns_name v t) as [labels| |] end);
    cbn [bind]; try reflexivity;
    (destruct nl as [l|];
     [match goal with |- match (if ?c then _ else _) with _ => _ end => destruct c end;
      [match goal with |- context [nameoffset_create ?l ?n ?p] => destruct (nameoffset_create l n p) as [l'| |] end;
       cbn [bind]; try reflexivity|]|]);
    (eexists; split; [reflexivity|]; split;
     [unfold wb_append_be16; fold (emit b labels) || idtac;
      rewrite ?w_live_append, ?w_live_append_byte, ?emit_live, ?w_live_append; rewrite <- ?app_assoc, ?app_nil_r; reflexivity
     |split; intros HH;
      [repeat (first [apply wb_wf_be16 | apply wb_wf_append | apply wb_wf_emit]); exact HH
      |repeat (first [apply fresh_append | apply emit_fresh]); exact HH]]).
Qed.

Lemma wb_of_live_is l : live_is (wb_of_live l [] false) l.
Proof.
  unfold live_is, wb_of_live, wb_wf. cbn [w_n w_rev w_fresh]. split; [|split; [reflexivity|]].
  - rewrite rev_append_rev, app_nil_r, rev_length. reflexivity.
  - unfold w_live. cbn [w_rev]. rewrite !rev_append_rev, !app_nil_r. apply rev_involutive.
Qed.

(* a name written against an offset list decodes in any context of the right length in which the
   registered names decode (fixed variant) *)
Lemma name_enc_ok (v : bool) C ol ls x nl' :
  ol_ok C ol -> Forall label_ok ls -> wire_len ls <= 256 -> slen (escape_name ls) < 512 ->
  (v = true -> Forall host_label ls) ->
  name_enc wfixed (Z.of_nat (length C)) (Some ol) v (escape_name ls) = Ok (x, nl') ->
  exists ol', nl' = Some ol' /\ ol_ok (C ++ x) ol' /\ bytes_ok x /\
              forall post, ref_name (C ++ x ++ post) (length C) = Some (ls, (length C + length x)%nat).
Proof.
  intros Hol Hls Hw Ht Hv He.
  destruct (wb_of_live_is C) as (Hwf & Hfr & Hlive). set (b := wb_of_live C [] false) in *.
  pose proof (name_write_enc wfixed 0 b (Some ol) v (escape_name ls)) as W.
  cbn [wfixed wv_msg_relative] in W. rewrite (wb_len_live b Hwf), Hlive, Z.sub_0_r, He in W.
  destruct W as (b' & Ew & Hl' & _).
  destruct (name_write_compressed v b [] C ol ls Hwf Hlive Hol Hls Hw Ht Hv b' nl' Ew)
    as (more & ol' & -> & _ & Hlive' & Hol' & Hmb & Href).
  cbn [app] in Hlive'. rewrite Hlive' in Hl'. apply app_inv_head in Hl'. subst more.
  exists ol'. split; [reflexivity | split; [exact Hol' | split; [exact Hmb | exact Href]]].
Qed.

(* ... and without a list (types that must not be compressed): labels and the root octet *)
Lemma name_enc_none wv pos ls :
  Forall label_ok ls -> wire_len ls <= 256 -> slen (escape_name ls) < 512 ->
  name_enc wv pos None false (escape_name ls) = Ok (enc_labels ls ++ [0%N], None).
Proof.
  intros Hls Hw Ht.
  set (b := wb_of_live [] [] false).
  pose proof (name_write_enc wv 0 b None false (escape_name ls)) as W.
  destruct (name_write_uncompressed wv 0 b ls Hls Hw Ht) as (b' & Ew & Hl').
  (* the pure function does not look at the position when there is no list *)
  assert (Hpos : forall p q, name_enc wv p None false (escape_name ls) = name_enc wv q None false (escape_name ls)) by reflexivity.
  rewrite (Hpos pos (if wv_msg_relative wv then wb_len b - 0 else wb_len b)).
  destruct (name_enc wv _ None false (escape_name ls)) as [[x nl']| |].
  - destruct W as (b'' & Ew' & Hl'' & _). rewrite Ew in Ew'. injection Ew' as <- <-.
    rewrite Hl' in Hl''. apply app_inv_head in Hl''. subst x. reflexivity.
  - rewrite Ew in W. discriminate W.
  - rewrite Ew in W. discriminate W.
Qed.
