(* C04_sound: whatever ares_dns_parse() (fixes applied) accepts, every field of the record it
   returns is what the RFC reference decoder extracts from the same octets. *)
From CAres.Wire Require Import Cursor Cursor_proofs Name Name_proofs Record Parse Parse_proofs Escape Escape_proofs RefDecode Bits Name_ref Parse_ref Parse_ref2 Parse_sets Parse_ref3 Parse_ref4.
From CAres.Gen Require Import Consts LeafFns Tables.
Local Open Scope Z_scope.

(* the record after the header: everything but the rcode nibble is in [hq] *)
Lemma parse_header_rec c c' d cnts :
  parse_header c = Ok (c', d, cnts) -> d_an d = [] /\ d_ns d = [] /\ d_ar d = [].
Proof.
  intros H. unfold parse_header in H.
  repeat (inv_step H). injection H as <- <- <-.
  match goal with Ec : record_create _ _ _ _ = Ok _ |- _ =>
    unfold record_create in Ec; destruct (c_ares_dns_flags_arevalid _) as [fv| |]; cbn [bind] in Ec; try discriminate;
    match type of Ec with (if ?c then _ else _) = _ => destruct c end; [discriminate|]; injection Ec as <-
  end. repeat split; reflexivity.
Qed.

Lemma parse_header_rcode bs c' d cnts fl :
  bytes_ok bs -> Z.of_nat (length bs) < 2 ^ 64 ->
  parse_header (cur_of_bytes bs) = Ok (c', d, cnts) -> u16_at bs 2 = Some fl -> d_raw_rcode d = Z.land fl 15.
Proof.
  intros Hb Hl H U. unfold parse_header in H.
  assert (H0 : cur_of_bytes bs = set_off (cur_of_bytes bs) 0) by reflexivity.
  rewrite H0 in H.
  destruct (fetch_be16 (set_off (cur_of_bytes bs) 0)) as [[id c1]| |] eqn:E1; cbn [bind] in H; try discriminate.
  destruct (fetch_be16_at bs 0 id c1 Hb Hl ltac:(lia) E1) as (U1 & -> & L1).
  destruct (fetch_be16 (set_off (cur_of_bytes bs) (0 + 2))) as [[fl' c2]| |] eqn:E2; cbn [bind] in H; try discriminate.
  destruct (fetch_be16_at bs (0 + 2) fl' c2 Hb Hl ltac:(lia) E2) as (U2 & -> & L2).
  change (Z.to_nat (0 + 2)) with 2%nat in U2. rewrite U in U2. injection U2 as <-.
  repeat (inv_step H). injection H as <- <- <-. reflexivity.
Qed.

Lemma parse_qd_rec fuel c d c' d' :
  parse_qd fuel c d = Ok (c', d') ->
  d_an d' = d_an d /\ d_ns d' = d_ns d /\ d_ar d' = d_ar d /\ d_raw_rcode d' = d_raw_rcode d.
Proof.
  intros H. unfold parse_qd in H. repeat (inv_step H). injection H as <- <-.
  match goal with Eq : query_add _ _ _ _ = Ok _ |- _ =>
    unfold query_add in Eq; match type of Eq with (if ?c then _ else _) = _ => destruct c end; [discriminate|]; injection Eq as <-
  end. repeat split; reflexivity.
Qed.

Lemma norm_parsed_assemble dq ans_p nss_p ars_p rc1 rc2 raw rcode :
  d_an dq = [] -> d_ns dq = [] -> d_ar dq = [] ->
  norm_parsed (set_rcode (app_sect (app_sect (app_sect dq ARES_SECTION_ANSWER ans_p rc1) ARES_SECTION_AUTHORITY nss_p rc2)
                                   ARES_SECTION_ADDITIONAL ars_p raw) rcode)
  = mkRec (d_id dq) (d_flags dq) (d_opcode dq) rcode 0 (d_qd dq) (map norm_rr ans_p) (map norm_rr nss_p) (map norm_rr ars_p).
Proof. destruct dq. cbn. intros -> -> ->. reflexivity. Qed.

Lemma lor_ext_rcode a x : 0 <= a < 16 -> Z.lor a (x * 16) = x * 16 + a.
Proof.
  intros Ha. rewrite Z.lor_comm. change 16 with (2 ^ 4) at 1. rewrite <- Z.shiftl_mul_pow2 by lia.
  rewrite (lor_shiftl_add x a 4) by (change (2 ^ 4) with 16; lia). reflexivity.
Qed.

Theorem sound_fixed bs r rf :
  bytes_ok bs ->
  dns_parse bs 0 = Ok r -> ref_decode bs = Some rf -> fields_agree r (rf_rec rf).
Proof.
  intros Hb H F.
  assert (Hl : Z.of_nat (length bs) < 2 ^ 64).
  { unfold ref_decode in F. destruct (Z.of_nat (length bs) >? 65535) eqn:E; [discriminate|].
    rewrite Z.gtb_ltb in E. apply Z.ltb_ge in E. rewrite pow64. lia. }
  unfold dns_parse, dns_parse_v in H.
  destruct (Z.of_nat (length bs) =? 0); [discriminate|].
  unfold parse_buf in H.
  destruct (buf_len (cur_of_bytes bs)) as [bl| |]; cbn [bind] in H; try discriminate.
  destruct (bl >? 65535); [discriminate|].
  destruct (parse_header (cur_of_bytes bs)) as [[[c1 d0] [[[qd an] ns] ar]]| |] eqn:Eh; cbn [bind] in H; try discriminate.
  destruct (parse_header_ref bs c1 d0 _ Hb Hl Eh) as (id & fl & qd' & an' & ns' & ar' & U0 & U2 & U4 & U6 & U8 & U10 & -> & H12 & Hcnt & Hhq & Hfl0).
  pose proof (parse_header_rec _ _ _ _ Eh) as Hd0. pose proof (parse_header_rcode bs _ _ _ fl Hb Hl Eh U2) as Hrc0.
  injection Hcnt as -> -> -> ->.
  destruct (qd' =? 0); [discriminate|]. destruct (qd' >? 1) eqn:Eq1; [discriminate|].
  set (fuel := name_fuel (cur_of_bytes bs)) in *.
  destruct (parse_qds fuel (Z.to_nat qd') (set_off (cur_of_bytes bs) 12) d0) as [[c2 d1]| |] eqn:Eqs;
    cbn [bind fst snd] in H; try discriminate.
  unfold ref_decode in F. destruct (Z.of_nat (length bs) >? 65535); [discriminate|].
  rewrite U0, U2, U4, U6, U8, U10 in F.
  destruct (negb (qd' =? 1)) eqn:Eq; [discriminate|]. apply negb_false_iff in Eq. apply Z.eqb_eq in Eq. subst qd'.
  change (Z.to_nat 1) with 1%nat in Eqs. cbn [parse_qds] in Eqs.
  destruct (parse_qd fuel (set_off (cur_of_bytes bs) 12) d0) as [[cq dq]| |] eqn:Eqd; cbn [bind fst snd] in Eqs; try discriminate.
  injection Eqs as <- <-.
  destruct (parse_qd_ref bs _ d0 cq dq Hb Hl H12 (le_n _) Eqd) as (qn & p & qt & qc & Rn & Ut & Uc & Hqd & Hids).
  pose proof (parse_qd_rec _ _ _ _ _ Eqd) as Hdq.
  rewrite Rn, Ut, Uc in F.
  (* the cursor after the question *)
  assert (Hcq : cq = at_ bs (Z.of_nat p + 2 + 2) /\ pos_ok bs (Z.of_nat p + 2 + 2)).
  { unfold parse_qd in Eqd.
    destruct (good_cursor bs 12 Hb Hl ltac:(lia)) as (Hc & Hx & Hbo).
    pose proof (name_parse_ref fuel _ Hc Hx Hbo (le_n _)) as R. cbn [c_data c_off set_off cur_of_bytes] in R.
    change (Z.to_nat 12) with 12%nat in R. rewrite Rn in R. destruct R as [R _]. rewrite R in Eqd. cbn [bind] in Eqd.
    rewrite set_off_set_off in Eqd.
    assert (Hp : pos_ok bs (Z.of_nat p)).
    { pose proof (dns_name_parse_safe fuel _ true false Hc (le_n _)) as S. rewrite R in S. cbn [safe snd] in S.
      destruct S as ((Hle & _) & _). cbn [c_off c_len set_off cur_of_bytes] in Hle. unfold pos_ok. lia. }
    change (set_off (cur_of_bytes bs) (Z.of_nat p)) with (at_ bs (Z.of_nat p)) in Eqd.
    destruct (fetch_be16 (at_ bs (Z.of_nat p))) as [[qt' c3]| |] eqn:E1; cbn [bind] in Eqd; try discriminate.
    destruct (be16_at bs Hb Hl _ _ _ Hp E1) as (_ & -> & Hp2).
    destruct (fetch_be16 (at_ bs (Z.of_nat p + 2))) as [[qc' c4]| |] eqn:E2; cbn [bind] in Eqd; try discriminate.
    destruct (be16_at bs Hb Hl _ _ _ Hp2 E2) as (_ & -> & Hp3).
    match type of Eqd with bind ?m _ = _ => destruct m end; cbn [bind] in Eqd; try discriminate.
    injection Eqd as <- _. split; [reflexivity | exact Hp3]. }
  destruct Hcq as (-> & Hpq).
  destruct (parse_rrs fixed_tree fuel (Z.to_nat an') _ 0 ARES_SECTION_ANSWER dq) as [[c3 d2]| |] eqn:E1; cbn [bind fst snd] in H; try discriminate.
  destruct (parse_rrs_ref bs Hb Hl fuel (le_n _) _ _ _ _ _ _ Hpq E1) as (ans & p1 & e1 & x1 & ans_p & R1 & -> & Hp1 & -> & N1).
  destruct (parse_rrs fixed_tree fuel (Z.to_nat ns') _ 0 ARES_SECTION_AUTHORITY _) as [[c4 d3]| |] eqn:E2; cbn [bind fst snd] in H; try discriminate.
  destruct (parse_rrs_ref bs Hb Hl fuel (le_n _) _ _ _ _ _ _ Hp1 E2) as (nss & p2 & e2 & x2 & nss_p & R2 & -> & Hp2 & -> & N2).
  destruct (parse_rrs fixed_tree fuel (Z.to_nat ar') _ 0 ARES_SECTION_ADDITIONAL _) as [[c5 d4]| |] eqn:E3; cbn [bind fst snd] in H; try discriminate.
  destruct (parse_rrs_ref bs Hb Hl fuel (le_n _) _ _ _ _ _ _ Hp2 E3) as (ars & p3 & e3 & x3 & ars_p & R3 & -> & Hp3 & -> & N3).
  replace (p + 4)%nat with (Z.to_nat (Z.of_nat p + 2 + 2)) in F by lia.
  rewrite R1, R2, R3 in F.
  rewrite !raw_rcode_app_sect in H.
  (* the parsed record, spelled out *)
  unfold hq in Hhq. injection Hhq as I1 I2 I3 I4. injection Hids as J1 J2 J3.
  set (raw := rc_fold (rc_fold (rc_fold (d_raw_rcode dq) e1) e2) e3) in *.
  assert (Hr : norm_parsed r = mkRec id (hdr_flags_c fl) (Z.land (Z.shiftr fl 11) 15) (reported_rcode raw) 0
                                    [mkQ (escape_name qn) qt qc] (map norm_rr ans) (map norm_rr nss) (map norm_rr ars)).
  { assert (Hrr : r = set_rcode (app_sect (app_sect (app_sect dq ARES_SECTION_ANSWER ans_p (rc_fold (d_raw_rcode dq) e1))
                                  ARES_SECTION_AUTHORITY nss_p (rc_fold (rc_fold (d_raw_rcode dq) e1) e2))
                                  ARES_SECTION_ADDITIONAL ars_p raw) (reported_rcode raw)).
    { injection H as <-. unfold reported_rcode. destruct (rcode_isvalid raw); reflexivity. }
    destruct Hd0 as (A1 & A2 & A3). destruct Hdq as (B1 & B2 & B3 & _).
    rewrite Hrr, norm_parsed_assemble by congruence.
    rewrite J1, J2, J3, I1, I2, I3, Hqd, I4, N1, N2, N3. reflexivity. }
  unfold fields_agree. rewrite Hr.
  assert (Hraw0 : d_raw_rcode dq = fl mod 16).
  { destruct Hdq as (_ & _ & _ & ->). rewrite Hrc0. apply rcode4_agree. }
  assert (Hraw : raw = rc_fold (fl mod 16) (e1 ++ e2 ++ e3)).
  { unfold raw, rc_fold. rewrite !fold_left_app, Hraw0. reflexivity. }
  assert (H16 : 0 <= fl mod 16 < 16) by (apply Z.mod_pos_bound; lia).
  destruct (e1 ++ e2 ++ e3) as [|x [|y l]] eqn:Ee; try discriminate; injection F as <-;
    unfold norm_ref; cbn [rf_rec d_id d_flags d_opcode d_rcode d_qd d_an d_ns d_ar];
    rewrite hdr_flags_agree, (opcode_agree fl Hfl0), Hraw; unfold rc_fold; cbn [fold_left].
  - reflexivity.
  - rewrite (lor_ext_rcode _ x H16). reflexivity.
Qed.

(* the theorem is not vacuous: a response with a compressed A, TXT and MX answer and an OPT RR that
   carries extended-rcode bits is accepted by the parser model and followed by the reference *)
Definition ex_msg : list N :=
  [18;52;129;128;0;1;0;3;0;0;0;1;  1;97;2;98;99;0; 0;1;0;1;
   192;12;0;1;0;1;0;0;0;60;0;4;1;2;3;4;
   192;12;0;16;0;1;0;0;0;60;0;4;2;104;105;0;
   192;12;0;15;0;1;0;0;0;60;0;4;0;10;192;12;
   0;0;41;4;208;1;0;128;0;0;6;0;10;0;2;171;205]%N.

Example sound_fixed_applies :
  exists r rf, dns_parse ex_msg 0 = Ok r /\ ref_decode ex_msg = Some rf /\
               length (d_an r) = 3%nat /\ length (d_ar r) = 1%nat /\ d_rcode r = 16.
Proof.
  eexists _, _. split; [vm_compute; reflexivity|]. split; [vm_compute; reflexivity|].
  vm_compute. repeat split; reflexivity.
Qed.
