(* C04: agreement between the model of the parser (Parse.v) and the RFC reference decoder
   (RefDecode.v).  This file holds the concrete witnesses: the two defects of the pinned tree
   (refuted statements, on the faithful [pinned_tree] variant) and the same messages on the
   fixed variant. *)
From CAres.Wire Require Import Cursor Name Record Parse Escape RefDecode.
From CAres.Gen Require Import Consts Tables.
Local Open Scope Z_scope.

(* header: id 1, QR RD RA, qd 1, an [an], ar [ar]; question: root, A, IN *)
Definition ex_hdr (an ar : N) : list N :=
  [0; 1; 129; 128; 0; 1; 0; an; 0; 0; 0; ar; 0; 0; 1; 0; 1]%N.

(* one answer RR: root owner, TYPE 99, CLASS IN, TTL 0, RDLENGTH 0 *)
Definition ex_raw_empty : list N := (ex_hdr 1 0 ++ [0; 0; 99; 0; 1; 0; 0; 0; 0; 0; 0])%N.

(* OPT RR with the option code 15 twice (two Extended DNS Errors, RFC 8914) *)
Definition ex_opt_dup : list N :=
  (ex_hdr 0 1 ++ [0; 0; 41; 4; 208; 0; 0; 0; 0; 0; 10; 0; 15; 0; 1; 170; 0; 15; 0; 1; 187])%N.

(* pinned tree: an RR of an undecoded type with empty RDATA is reported with type 0 although the
   octets say 99: C04_sound does not hold for the pinned tree *)
Theorem sound_refuted_raw_empty_pinned :
  exists bs r rf, dns_parse_pinned bs 0 = Ok r /\ ref_decode bs = Some rf /\
                  ~ fields_agree r (rf_rec rf).
Proof.
  eexists ex_raw_empty, _, _. split; [vm_compute; reflexivity|]. split; [vm_compute; reflexivity|].
  unfold fields_agree. intros H. vm_compute in H. discriminate H.
Qed.

(* pinned tree: two options with the same code collapse into one *)
Theorem sound_refuted_opt_duplicate_pinned :
  exists bs r rf, dns_parse_pinned bs 0 = Ok r /\ ref_decode bs = Some rf /\
                  ~ fields_agree r (rf_rec rf).
Proof.
  eexists ex_opt_dup, _, _. split; [vm_compute; reflexivity|]. split; [vm_compute; reflexivity|].
  unfold fields_agree. intros H. vm_compute in H. discriminate H.
Qed.

(* with fixes/C04-*.patch the same two messages agree with the reference decoder *)
Example fixed_raw_empty_agrees :
  exists r rf, dns_parse ex_raw_empty 0 = Ok r /\ ref_decode ex_raw_empty = Some rf /\ fields_agree r (rf_rec rf).
Proof.
  eexists _, _. split; [vm_compute; reflexivity|]. split; [vm_compute; reflexivity|].
  vm_compute. reflexivity.
Qed.

Example fixed_opt_dup_agrees :
  exists r rf, dns_parse ex_opt_dup 0 = Ok r /\ ref_decode ex_opt_dup = Some rf /\ fields_agree r (rf_rec rf).
Proof.
  eexists _, _. split; [vm_compute; reflexivity|]. split; [vm_compute; reflexivity|].
  vm_compute. reflexivity.
Qed.
