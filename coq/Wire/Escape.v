(* Presentation format of domain names (RFC 1035 section 5.1, RFC 4343 section 2.1):
   labels are joined by ".", an octet outside the printable ASCII range is written \DDD (three
   decimal digits), a special character is written with a preceding backslash.
   This file is SPECIFICATION: it is written from the RFC text, not from the C code; the only
   thing taken from the library is WHICH printable characters it chooses to escape
   (Tables.c_is_reservedch), because that choice is free in the RFC and the dumps are compared
   as text.  [unescape] accepts every RFC escape, whichever characters were escaped. *)
From Coq Require Import List ZArith Lia Bool.
Import ListNotations.
From CAres.Gen Require Import Tables.
Local Open Scope Z_scope.

Definition label := list N.

Definition printable (b : N) : bool := (32 <=? Z.of_N b) && (Z.of_N b <=? 126).

Definition digit (d : Z) : N := Z.to_N (48 + d).

Definition escape_octet (b : N) : list N :=
  let c := Z.of_N b in
  if negb (printable b) then [92%N; digit (c / 100); digit ((c / 10) mod 10); digit (c mod 10)]
  else if c_is_reservedch c then [92%N; b]
  else [b].

Definition escape_label (l : label) : list N := flat_map escape_octet l.

Fixpoint join_dots (ls : list (list N)) : list N :=
  match ls with
  | [] => []
  | [l] => l
  | l :: rest => l ++ 46%N :: join_dots rest
  end.

Definition escape_name (ls : list label) : list N := join_dots (map escape_label ls).

(* ---- unescaping: text -> labels ---- *)

Definition is_digit (b : N) : bool := (48 <=? Z.of_N b) && (Z.of_N b <=? 57).
Definition digit_val (b : N) : Z := Z.of_N b - 48.

Inductive tok := TDot | TOct (b : N).

(* text -> tokens: an unescaped "." separates labels; "\DDD" is the octet DDD (<= 255);
   "\X" (X not a digit) is the octet X *)
Fixpoint tokens (t : list N) {struct t} : option (list tok) :=
  match t with
  | [] => Some []
  | b :: rest =>
    if Z.of_N b =? 46 then option_map (cons TDot) (tokens rest)
    else if Z.of_N b =? 92 then
      match rest with
      | [] => None
      | d1 :: rest1 =>
        if is_digit d1 then
          match rest1 with
          | d2 :: d3 :: rest3 =>
            if is_digit d2 && is_digit d3 then
              let v := digit_val d1 * 100 + digit_val d2 * 10 + digit_val d3 in
              if v >? 255 then None else option_map (cons (TOct (Z.to_N v))) (tokens rest3)
            else None
          | _ => None
          end
        else option_map (cons (TOct d1)) (tokens rest1)
      end
    else option_map (cons (TOct b)) (tokens rest)
  end.

(* tokens -> labels (split at dots); [cur] is the label being collected *)
Fixpoint split_dots (ts : list tok) (cur : label) : list label :=
  match ts with
  | [] => [cur]
  | TDot :: rest => cur :: split_dots rest []
  | TOct b :: rest => split_dots rest (cur ++ [b])
  end.

Definition is_dot (t : list N) : bool := match t with [b] => Z.of_N b =? 46 | _ => false end.

(* the empty text is the root; otherwise every label must be non-empty, except that one
   trailing dot is allowed ("." alone is the root) *)
Definition unescape (t : list N) : option (list label) :=
  match t with
  | [] => Some []
  | _ =>
    if is_dot t then Some [] else
    match tokens t with
    | None => None
    | Some ts =>
      let ls := split_dots ts [] in
      let ls := match rev ls with [] :: r => rev r | _ => ls end in     (* trailing dot *)
      if forallb (fun l => negb (Nat.eqb (length l) 0)) ls then Some ls else None
    end
  end.
