(* Names in ANY presentation text (trailing dot, \DDD, \X): the labels of "prefix.suffix" are the
   labels of the prefix followed by the labels of the suffix whenever the whole text is a valid
   name - which is what makes the compression of ares_dns_name_write sound for text that is not in
   canonical form. *)
From Coq Require Import List ZArith Lia Bool.
Import ListNotations.
From CAres.Wire Require Import Cursor Name Record Escape Escape_proofs RefDecode Name_ref Write Split_tokens Write_name Write_host Ref_mono Write_name2.
From CAres.Gen Require Import Consts LeafFns Tables.
Local Open Scope Z_scope.

Definition cleanup (raw : list (list N)) : list (list N) :=
  let l1 := if last_is_empty raw then removelast raw else raw in
  if Nat.eqb (length l1) 1 && last_is_empty l1 then removelast l1 else l1.

Definition labels_fit (ls : list (list N)) : bool :=
  negb (existsb (fun l => (slen l =? 0) || (slen l >? 63)) ls)
  && negb (negb (Nat.eqb (length ls) 0) && (fold_right (fun l a => slen l + a) 0 ls + Z.of_nat (length ls) - 1 >? 255)).

Lemma split_false_raw t :
  split_dns_name false t =
  match tokens t with
  | None => Err ARES_EBADNAME
  | Some ts => let ls := cleanup (split_dots ts []) in if labels_fit ls then Ok ls else Err ARES_EBADNAME
  end.
Proof.
  unfold split_dns_name. rewrite split_go_tokens. destruct (tokens t) as [ts|]; [|reflexivity]. cbn [bind app].
  unfold cleanup, labels_fit. cbv zeta.
  destruct (existsb _ _); [reflexivity|]. cbn [negb andb].
  match goal with |- (if ?c then _ else _) = _ => destruct c end; reflexivity.
Qed.

Lemma last_is_empty_app a b : b <> [] -> last_is_empty (a ++ b) = last_is_empty b.
Proof.
  intros Hb. unfold last_is_empty. rewrite rev_app_distr. destruct (rev b) as [|x r] eqn:E.
  - exfalso. apply Hb. apply (f_equal (@rev _)) in E. rewrite rev_involutive in E. exact E.
  - reflexivity.
Qed.

Lemma split_dots_single_empty : forall ts cur, split_dots ts cur = [[]] -> ts = [] /\ cur = [].
Proof.
  induction ts as [|[|b] ts IH]; intros cur H; cbn [split_dots] in H.
  - injection H as ->. auto.
  - exfalso. injection H as _ H. apply (split_dots_nonempty ts [] H).
  - destruct (IH _ H) as (_ & Hc). destruct cur; discriminate Hc.
Qed.

Lemma tokens_nonempty t ts : t <> [] -> tokens t = Some ts -> ts <> [].
Proof.
  intros Ht H. destruct t as [|b rest]; [congruence|]. cbn [tokens] in H.
  assert (G : forall (o : option (list tok)) x, option_map (cons x) o = Some ts -> ts <> []).
  { intros o x E. destruct o; cbn in E; [injection E as <-; discriminate | discriminate E]. }
  destruct (Z.of_N b =? 46); [apply (G _ _ H)|].
  destruct (Z.of_N b =? 92); [|apply (G _ _ H)].
  destruct rest as [|d1 rest1]; [discriminate H|]. destruct (is_digit d1); [|apply (G _ _ H)].
  destruct rest1 as [|d2 [|d3 rest3]]; try discriminate H.
  destruct (is_digit d2 && is_digit d3); [|discriminate H]. cbv zeta in H.
  match type of H with (if ?c then _ else _) = _ => destruct c end; [discriminate H | apply (G _ _ H)].
Qed.

Lemma fit_nonempty ls : labels_fit ls = true -> Forall (fun l => l <> []) ls.
Proof.
  unfold labels_fit. intros H. apply andb_true_iff in H. destruct H as (H & _). apply negb_true_iff in H.
  apply Forall_forall. intros l Hin ->. assert (E : existsb (fun l => (slen l =? 0) || (slen l >? 63)) ls = true).
  { apply existsb_exists. exists []. split; [exact Hin | reflexivity]. }
  rewrite E in H. discriminate.
Qed.

Lemma cleanup_nonempty_id raw : Forall (fun l => l <> []) raw -> cleanup raw = raw.
Proof.
  intros H. unfold cleanup. cbv zeta. rewrite (last_is_empty_false raw H). rewrite (last_is_empty_false raw H). rewrite andb_false_r. reflexivity.
Qed.

Lemma relast {A} (a : list A) d r : a <> [] -> removelast a ++ last a d :: r = a ++ r.
Proof. intros H. rewrite <- (removelast_last_app a d H) at 3. rewrite <- app_assoc. reflexivity. Qed.

(* the key fact, on raw label lists *)
Lemma cleanup_concat (Rp Ro ls ps ms : list (list N)) :
  Rp <> [] -> Ro <> [] -> Ro <> [[]] ->
  (if labels_fit (cleanup (Rp ++ Ro)) then Ok (cleanup (Rp ++ Ro)) else @Err (list (list N)) ARES_EBADNAME) = Ok ls ->
  (if labels_fit (cleanup Rp) then Ok (cleanup Rp) else @Err (list (list N)) ARES_EBADNAME) = Ok ps ->
  (if labels_fit (cleanup Ro) then Ok (cleanup Ro) else @Err (list (list N)) ARES_EBADNAME) = Ok ms ->
  ls = ps ++ ms.
Proof.
  intros HRp HRo HRo1 Hn Hp Ho.
  set (X := if last_is_empty Ro then removelast Ro else Ro).
  assert (HX : (if last_is_empty (Rp ++ Ro) then removelast (Rp ++ Ro) else Rp ++ Ro) = Rp ++ X).
  { rewrite (last_is_empty_app Rp Ro HRo). unfold X. destruct (last_is_empty Ro); [|reflexivity].
    apply removelast_app. exact HRo. }
  assert (HXne : X <> []).
  { unfold X. destruct (last_is_empty Ro) eqn:El; [|exact HRo].
    intros E. destruct Ro as [|r0 [|r1 Ro']]; [congruence | | cbn in E; destruct Ro'; discriminate E].
    unfold last_is_empty in El. cbn in El. destruct r0; [apply HRo1; reflexivity | discriminate El]. }
  unfold cleanup in Hn. cbv zeta in Hn. rewrite HX in Hn.
  assert (Hlen : Nat.eqb (length (Rp ++ X)) 1 = false).
  { apply Nat.eqb_neq. rewrite app_length. destruct Rp; [congruence|]. destruct X; [congruence|]. cbn [length]. lia. }
  rewrite Hlen in Hn. cbn [andb] in Hn.
  destruct (labels_fit (Rp ++ X)) eqn:Efit; [|discriminate Hn]. injection Hn as <-.
  pose proof (fit_nonempty _ Efit) as Hne. apply Forall_app in Hne. destruct Hne as (HneP & HneX).
  rewrite (cleanup_nonempty_id Rp HneP) in Hp. destruct (labels_fit Rp); [|discriminate Hp]. injection Hp as <-.
  unfold cleanup in Ho. cbv zeta in Ho. fold X in Ho.
  rewrite (last_is_empty_false X HneX), andb_false_r in Ho. destruct (labels_fit X); [|discriminate Ho]. injection Ho as <-.
  reflexivity.
Qed.

Lemma split_concat prefix on ls ps ms :
  on <> [] ->
  split_dns_name false (prefix ++ 46%N :: on) = Ok ls ->
  split_dns_name false prefix = Ok ps -> split_dns_name false on = Ok ms ->
  ls = ps ++ ms.
Proof.
  intros Hon Hn Hp Ho. rewrite split_false_raw in Hn, Hp, Ho.
  destruct (tokens prefix) as [tp|] eqn:Etp; [|discriminate Hp].
  destruct (tokens on) as [to|] eqn:Eto; [|discriminate Ho].
  rewrite (tokens_app _ _ _ Etp) in Hn. cbn [tokens] in Hn. change (Z.of_N 46 =? 46) with true in Hn. cbv iota in Hn.
  rewrite Eto in Hn. cbn [option_map] in Hn. cbv zeta in Hn, Hp, Ho.
  rewrite split_dots_app in Hn. rewrite (relast _ _ _ (split_dots_nonempty tp [])) in Hn.
  apply (cleanup_concat (split_dots tp []) (split_dots to []) ls ps ms); try assumption.
  - apply split_dots_nonempty.
  - apply split_dots_nonempty.
  - intros E. destruct (split_dots_single_empty to [] E) as (E1 & _). apply (tokens_nonempty on to Hon Eto). exact E1.
Qed.

(* determinism across the two modes of the splitter *)
Lemma split_mode v t ls : split_dns_name v t = Ok ls -> split_dns_name false t = Ok ls.
Proof. destruct v; [apply split_dns_name_true_false | auto]. Qed.

(* ---- the offset-list invariant for names in any presentation text ---- *)
Definition entry_okg (out : list N) (e : nameoffset) : Prop :=
  exists ms en, split_dns_name false (fst e) = Ok ms /\ fst e <> [] /\ Forall label_ok ms /\
                0 <= snd e < 16384 /\ (Z.to_nat (snd e) < length out)%nat /\
                ref_name out (Z.to_nat (snd e)) = Some (ms, en).

Definition ol_okg (out : list N) (ol : list nameoffset) : Prop := Forall (entry_okg out) ol.

Lemma entry_okg_app out more e : entry_okg out e -> entry_okg (out ++ more) e.
Proof.
  intros (ms & en & H1 & H2 & H3 & H4 & H5 & H6).
  exists ms, en. repeat split; try assumption; try lia.
  - rewrite app_length. lia.
  - apply Ref_mono.ref_name_app. exact H6.
Qed.

Lemma ol_okg_app out more ol : ol_okg out ol -> ol_okg (out ++ more) ol.
Proof. intros H. eapply Forall_impl; [|exact H]. intros e. apply entry_okg_app. Qed.

Theorem name_write_gen (v : bool) b pre out ol name ls :
  wb_wf b -> w_live b = pre ++ out -> ol_okg out ol ->
  split_dns_name v name = Ok ls -> Forall label_ok ls -> slen name < 512 ->
  forall b' nl', name_write wfixed (Z.of_nat (length pre)) b (Some ol) v name = Ok (b', nl') ->
  exists more ol', nl' = Some ol' /\ wb_wf b' /\ w_live b' = pre ++ out ++ more /\ ol_okg (out ++ more) ol' /\
    bytes_ok more /\
    forall post, ref_name (out ++ more ++ post) (length out) = Some (ls, (length out + length more)%nat).
Proof.
  intros Hwf Hlive Hol Hsp Hls Ht b' nl' H.
  pose proof (split_mode v name ls Hsp) as Hspf.
  assert (Hpos : wb_len b - Z.of_nat (length pre) = Z.of_nat (length out)).
  { rewrite (wb_len_live b Hwf), Hlive, app_length. lia. }
  unfold name_write in H. cbn [wv_msg_relative wv_name_no_trunc wv_ptr_limit wv_strip_dangling_escape wfixed] in H.
  rewrite Hpos in H.
  replace (slen name >=? 512) with false in H by (symmetry; rewrite Z.geb_leb; apply Z.leb_gt; exact Ht).
  cbn [andb] in H.
  assert (Hcopy : firstn 511 name = name) by (apply firstn_all2; unfold slen in Ht; lia).
  rewrite Hcopy in H.
  destruct (nameoffset_find ol name) as [[on idx]|] eqn:Efind.
  - (* a registered suffix *)
    destruct (find_spec _ _ _ Efind) as [Hin Hmatch].
    unfold ol_okg in Hol. rewrite Forall_forall in Hol.
    destruct (Hol _ Hin) as (ms & en & Hon & Honne & Hms & Hidx & Hidxlt & Href). cbn [fst snd] in *.
    destruct Hmatch as (Hle & Hskip & Hdot). cbn [fst] in *.
    destruct (slen on =? slen name) eqn:Eex.
    + (* exact match: only a pointer *)
      apply Z.eqb_eq in Eex. cbn [negb andb] in H.
      replace (slen name - slen on) with 0 in Hskip by lia. cbn [Z.to_nat skipn] in Hskip.
      assert (Hlm : ls = ms).
      { change (skipn (Z.to_nat 0) name) with name in Hskip. rewrite <- Hskip in Hspf. rewrite Hspf in Hon. injection Hon as <-. reflexivity. }
      injection H as <- <-.
      exists [Z.to_N (192 + idx / 256); Z.to_N (idx mod 256)], ol.
      split; [reflexivity|]. split; [apply wb_wf_be16; exact Hwf|].
      split; [rewrite (w_live_be16_ptr b idx Hidx), Hlive, <- app_assoc; reflexivity|].
      split; [apply ol_okg_app; unfold ol_okg; rewrite Forall_forall; exact Hol|].
      split; [apply ptr_bytes_ok; exact Hidx|].
      intros post. unfold ref_name. cbn [ref_name_fuel].
      pose proof (ref_scan_enc_ptr
                    (fun tgt => match ref_name_fuel (length out) (out ++ [Z.to_N (192 + idx / 256); Z.to_N (idx mod 256)] ++ post) tgt
                                with Some (ls0, _) => Some ls0 | None => None end)
                    (length out) idx ms [] (S (length (out ++ [Z.to_N (192 + idx / 256); Z.to_N (idx mod 256)] ++ post)))
                    out post (Forall_nil _) ltac:(simpl; lia) Hidx Hidxlt
                    (follow_knows out _ (length out) (Z.to_nat idx) ms en Hidxlt Href)) as D.
      cbn [enc_labels flat_map app length] in D. cbn [app]. rewrite D. subst ms. f_equal. f_equal. cbn [length]. lia.
    + (* a proper suffix: labels of the prefix, then a pointer *)
      apply Z.eqb_neq in Eex. cbn [negb] in H.
      assert (Hp : 0 < slen name - slen on) by lia.
      destruct Hdot as [Hd|Hd]; [lia|].
      set (p := Z.to_nat (slen name - slen on)) in *.
      assert (Hp1 : Z.to_nat (slen name - slen on - 1) = (p - 1)%nat) by (unfold p; lia).
      rewrite Hp1 in Hd.
      pose proof (split_at_dot name p ltac:(unfold p; lia) Hd) as Hsplitname.
      rewrite <- Hskip in Hsplitname.
      replace (Z.to_nat (slen name - (slen on + 1))) with (p - 1)%nat in H by (unfold p; lia).
      set (prefix := firstn (p - 1) name) in *.
      destruct (split_dns_name v prefix) as [ps| |] eqn:Esp0; cbn [bind] in H; try discriminate.
      assert (Esp : split_dns_name false prefix = Ok ps) by (destruct v; [apply split_dns_name_true_false; exact Esp0 | exact Esp0]).
      assert (Hlabels : ls = ps ++ ms).
      { apply (split_concat prefix on ls ps ms Honne); [rewrite <- Hsplitname; exact Hspf | exact Esp | exact Hon]. }
      assert (Hps : Forall label_ok ps) by (rewrite Hlabels in Hls; apply Forall_app in Hls; exact (proj1 Hls)).
      set (b1 := fold_left (fun b l => wb_append (wb_append_byte b (Z.land (slen l) 255)) l) ps b) in *.
      assert (Hb1 : w_live b1 = w_live b ++ enc_labels ps) by (apply emit_labels_live; exact Hps).
      assert (Hwf1 : wb_wf b1) by (apply wb_wf_emit; exact Hwf).
      set (more := enc_labels ps ++ [Z.to_N (192 + idx / 256); Z.to_N (idx mod 256)]).
      assert (Hlive2 : w_live (wb_append_be16 b1 (Z.lor 49152 (Z.land idx 16383))) = pre ++ out ++ more).
      { rewrite (w_live_be16_ptr b1 idx Hidx), Hb1, Hlive. unfold more. rewrite <- !app_assoc. reflexivity. }
      assert (Hdec : forall post, ref_name (out ++ more ++ post) (length out) = Some (ls, (length out + length more)%nat)).
      { intros post. unfold ref_name. cbn [ref_name_fuel]. unfold more. rewrite <- !app_assoc. cbn [app].
        pose proof (ref_scan_enc_ptr
                      (fun tgt => match ref_name_fuel (length out) (out ++ enc_labels ps ++ Z.to_N (192 + idx / 256) :: Z.to_N (idx mod 256) :: post) tgt
                                  with Some (ls0, _) => Some ls0 | None => None end)
                      (length out) idx ms ps (S (length (out ++ enc_labels ps ++ Z.to_N (192 + idx / 256) :: Z.to_N (idx mod 256) :: post)))
                      out post Hps) as D.
        specialize (D ltac:(rewrite !app_length; cbn [length];
                            assert (length ps <= length (enc_labels ps))%nat
                              by (clear; induction ps as [|l ps IH]; [simpl; lia|]; cbn [enc_labels flat_map length]; fold (enc_labels ps); rewrite app_length; simpl; lia);
                            lia) Hidx Hidxlt).
        specialize (D (follow_knows out _ (length out) (Z.to_nat idx) ms en Hidxlt Href)).
        rewrite D. rewrite Hlabels. f_equal. f_equal. rewrite !app_length. cbn [length]. lia. }
      cbn [negb andb] in H.
      destruct ((slen prefix >? 0) && negb (Z.of_nat (length out) >=? 16384)) eqn:Ereg.
      * (* registered *)
        try rewrite Ereg in H.
        destruct (nameoffset_create ol name (Z.of_nat (length out))) as [ol'| |] eqn:Ec; cbn [bind] in H; try discriminate.
        injection H as <- <-.
        exists more, ol'. split; [reflexivity|].
        split; [apply wb_wf_be16; exact Hwf1|].
        split; [exact Hlive2|].
        assert (Hmb : bytes_ok more) by (unfold more; apply bytes_ok_app; [apply bytes_ok_enc; exact Hps | apply ptr_bytes_ok; exact Hidx]).
        split; [|split; [exact Hmb | exact Hdec]].
        unfold nameoffset_create in Ec.
        destruct ((slen name =? 0) || (slen name >? 255)) eqn:Ec0; [discriminate|]. injection Ec as <-.
        apply orb_false_iff in Ec0. destruct Ec0 as (Ec0 & _).
        apply Forall_app. split; [apply ol_okg_app; unfold ol_okg; rewrite Forall_forall; exact Hol|].
        constructor; [|constructor].
        apply andb_prop in Ereg. destruct Ereg as [_ Elim]. apply negb_true_iff in Elim.
        rewrite Z.geb_leb in Elim. apply Z.leb_gt in Elim.
        exists ls, (length out + length more)%nat. cbn [fst snd].
        split; [exact Hspf|]. split; [intros Hnil; rewrite Hnil in Ec0; discriminate Ec0|]. split; [exact Hls|].
        split; [lia|]. rewrite Nat2Z.id. split.
        -- rewrite app_length. unfold more. rewrite app_length. cbn [length]. lia.
        -- specialize (Hdec []). rewrite !app_nil_r in Hdec. exact Hdec.
      * try rewrite Ereg in H. injection H as <- <-.
        exists more, ol. split; [reflexivity|].
        split; [apply wb_wf_be16; exact Hwf1|].
        split; [exact Hlive2|]. split; [apply ol_okg_app; unfold ol_okg; rewrite Forall_forall; exact Hol|].
        split; [unfold more; apply bytes_ok_app; [apply bytes_ok_enc; exact Hps | apply ptr_bytes_ok; exact Hidx] | exact Hdec].
  - (* no suffix registered: all labels and the terminating zero octet *)
    cbn [negb andb] in H.
    rewrite Hsp in H. cbn [bind] in H.
    set (b1 := fold_left (fun b l => wb_append (wb_append_byte b (Z.land (slen l) 255)) l) ls b) in *.
    assert (Hb1 : w_live b1 = w_live b ++ enc_labels ls) by (apply emit_labels_live; exact Hls).
    assert (Hwf1 : wb_wf b1) by (apply wb_wf_emit; exact Hwf).
    set (more := enc_labels ls ++ [0%N]).
    assert (Hlive2 : w_live (wb_append_byte b1 0) = pre ++ out ++ more).
    { rewrite w_live_append_byte, Hb1, Hlive. unfold more. rewrite <- !app_assoc. reflexivity. }
    assert (Hdec : forall post, ref_name (out ++ more ++ post) (length out) = Some (ls, (length out + length more)%nat)).
    { intros post. unfold more. rewrite <- !app_assoc. cbn [app].
      rewrite (name_uncompressed_decodes out ls post Hls). f_equal. f_equal. rewrite app_length. cbn [length]. lia. }
    destruct ((slen name >? 0) && negb (Z.of_nat (length out) >=? 16384)) eqn:Ereg; try rewrite Ereg in H.
    + destruct (nameoffset_create ol name (Z.of_nat (length out))) as [ol'| |] eqn:Ec; cbn [bind] in H; try discriminate.
      injection H as <- <-.
      exists more, ol'. split; [reflexivity|].
      split; [apply wb_wf_append; exact Hwf1|].
      split; [exact Hlive2|].
      assert (Hmb : bytes_ok more) by (unfold more; apply bytes_ok_app; [apply bytes_ok_enc; exact Hls | constructor; [lia | constructor]]).
      split; [|split; [exact Hmb | exact Hdec]].
      unfold nameoffset_create in Ec.
      destruct ((slen name =? 0) || (slen name >? 255)) eqn:Ec0; [discriminate|]. injection Ec as <-.
      apply orb_false_iff in Ec0. destruct Ec0 as (Ec0 & _).
      apply Forall_app. split; [apply ol_okg_app; exact Hol|].
      constructor; [|constructor].
      apply andb_prop in Ereg. destruct Ereg as [Egt Elim]. apply negb_true_iff in Elim.
      rewrite Z.geb_leb in Elim. apply Z.leb_gt in Elim.
      rewrite Z.gtb_ltb in Egt. apply Z.ltb_lt in Egt.
      exists ls, (length out + length more)%nat. cbn [fst snd].
      split; [exact Hspf|]. split; [intros Hnil; rewrite Hnil in Ec0; discriminate Ec0|]. split; [exact Hls|].
      split; [lia|]. rewrite Nat2Z.id. split.
      * rewrite app_length. unfold more. rewrite app_length. cbn [length]. lia.
      * specialize (Hdec []). rewrite !app_nil_r in Hdec. exact Hdec.
    + injection H as <- <-.
      exists more, ol. split; [reflexivity|].
      split; [apply wb_wf_append; exact Hwf1|].
      split; [exact Hlive2|]. split; [apply ol_okg_app; exact Hol|].
      split; [unfold more; apply bytes_ok_app; [apply bytes_ok_enc; exact Hls | constructor; [lia | constructor]] | exact Hdec].
Qed.

