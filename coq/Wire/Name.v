(* ares_dns_name_parse() and ares_fetch_dnsname_into_buf() of src/lib/record/ares_dns_name.c,
   and the legacy wrappers ares_expand_name() / ares_expand_string()
   (src/lib/legacy/ares_expand_name.c, ares_expand_string.c).

   The `while (1)` loop of ares_dns_name_parse is modelled by two nested structural
   recursions (DESIGN.md appendix A.3): [name_fwd] walks forward over labels inside one
   segment (fuel [bf]), [name_seg] starts a new segment after a followed compression pointer
   (fuel [jf]).  Fuel exhaustion is [Err OutOfFuel]; Name_proofs.v shows that with both fuels
   = S (data_len) it never happens - that is the "cannot loop" theorem.

   The parser additionally returns a ghost trace (NEWEST EVENT FIRST) of the positions at which
   it read a label-length / pointer octet and of the pointer targets it followed; the trace is
   only used to STATE that pointers go strictly backward. *)
From CAres.Wire Require Export Cursor.
From CAres.Gen Require Import Consts LeafFns Tables.
Local Open Scope Z_scope.

Inductive name_ev :=
| EvOctet (pos : Z)      (* a length / pointer octet was read at this offset *)
| EvJump (target : Z).   (* a compression pointer to this offset was followed *)

(* the escaping loop of ares_fetch_dnsname_into_buf over the bytes of one label;
   [want] = (dest != NULL) *)
Fixpoint escape_label (is_hostname want : bool) (l : list N) : outcome (list N) :=
  match l with
  | [] => Ok []
  | b :: t =>
    let c := Z.of_N b in
    if is_hostname && negb (c_is_hostnamech c) then Err ARES_EBADRESP else
    do rest <- escape_label is_hostname want t;
    if negb want then Ok rest else
    if negb (c_isprint c) then
      Ok (92%N :: Z.to_N (48 + c / 100) :: Z.to_N (48 + (c mod 100) / 10) :: Z.to_N (48 + c mod 10) :: rest)
    else if c_is_reservedch c then Ok (92%N :: b :: rest)
    else Ok (b :: rest)
  end.

(* ares_fetch_dnsname_into_buf(buf, dest, len, is_hostname) *)
Definition fetch_dnsname_into_buf (c : cursor) (want : bool) (dest : list N) (len : Z)
           (is_hostname : bool) : outcome (list N * cursor) :=
  do rem <- fetch_remaining c;                       (* ares_buf_peek *)
  if (len =? 0) || (rem <? len) then Err ARES_EBADRESP else
  do raw <- peek_bytes c len;                        (* ptr[i], i < len *)
  do esc <- escape_label is_hostname want raw;
  do c' <- checked (consume c len);
  Ok (dest ++ esc, c').

Record name_st := mkNst {
  ns_cur : cursor;
  ns_save : Z;              (* save_offset *)
  ns_buf : list N;          (* namebuf *)
  ns_trace : list name_ev }.

Section NameParse.
  Variable is_hostname : bool.
  Variable want : bool.        (* name != NULL *)
  Variable bf0 : nat.          (* forward fuel handed to every segment *)

  (* one segment of the loop: iterations until the terminating zero octet or a pointer;
     [jump] continues after a followed pointer *)
  Fixpoint name_fwd (jump : cursor -> Z -> Z -> list N -> list name_ev -> outcome name_st)
           (bf : nat) (c : cursor) (label_start save_offset : Z) (nb : list N)
           (tr : list name_ev) {struct bf} : outcome name_st :=
    match bf with
    | O => Err OutOfFuel
    | S bf' =>
      do pos <- get_position c;
      let label_start := if label_start >? pos then pos else label_start in
      do r <- fetch_u8 c;
      let '(b, c1) := r in
      let tr := EvOctet pos :: tr in
      if Z.land b 192 =? 192 then
        (* pointer *)
        let offset := Z.shiftl (Z.land b 63) 8 in
        do r2 <- fetch_u8 c1;
        let '(b2, c2) := r2 in
        let offset := Z.lor offset b2 in
        if offset >=? label_start then Err ARES_EBADNAME else
        do pos2 <- get_position c2;
        let save_offset := if save_offset =? 0 then pos2 else save_offset in
        do r3 <- set_position c2 offset;
        if negb (fst r3 =? ARES_SUCCESS) then Err ARES_EBADNAME else
        jump (snd r3) label_start save_offset nb (EvJump offset :: tr)
      else if negb (Z.land b 192 =? 0) then Err ARES_EBADNAME
      else if b =? 0 then Ok (mkNst c1 save_offset nb tr)
      else
        (* new label: labels are separated by periods *)
        let nb1 := if negb (Z.of_nat (length nb) =? 0) && want then nb ++ [46%N] else nb in
        do r4 <- fetch_dnsname_into_buf c1 want nb1 b is_hostname;
        name_fwd jump bf' (snd r4) label_start save_offset (fst r4) tr
    end.

  Fixpoint name_seg (jf : nat) (c : cursor) (label_start save_offset : Z) (nb : list N)
           (tr : list name_ev) {struct jf} : outcome name_st :=
    match jf with
    | O => Err OutOfFuel
    | S jf' => name_fwd (name_seg jf') bf0 c label_start save_offset nb tr
    end.
End NameParse.

(* `fail:` of ares_dns_name_parse: "We want badname response if we couldn't parse" *)
Definition badresp_to_badname {A} (m : outcome A) : outcome A :=
  match m with
  | Err s => if s =? ARES_EBADRESP then Err ARES_EBADNAME else Err s
  | x => x
  end.

(* ares_dns_name_parse(buf, name, is_hostname) with the ghost trace;
   [fuel] is used for both recursions (callers pass S (data_len)) *)
Definition dns_name_parse_tr (fuel : nat) (c : cursor) (want is_hostname : bool)
  : outcome (list N * cursor * list name_ev) :=
  do label_start <- get_position c;
  do st <- badresp_to_badname (name_seg is_hostname want fuel fuel c label_start 0 [] []);
  (* restore the offset saved at the first pointer; the status is ignored by the C code *)
  do c' <- (if negb (ns_save st =? 0) then
              do r <- set_position (ns_cur st) (ns_save st); Ok (snd r)
            else Ok (ns_cur st));
  Ok (ns_buf st, c', ns_trace st).

Definition dns_name_parse (fuel : nat) (c : cursor) (want is_hostname : bool)
  : outcome (list N * cursor) :=
  do r <- dns_name_parse_tr fuel c want is_hostname;
  Ok (fst (fst r), snd (fst r)).

(* the fuel every caller uses *)
Definition name_fuel (c : cursor) : nat := S (Z.to_nat (c_len c)).

(* ------------------------------------------------------------------------------------------
   Legacy API.  `encoded` is modelled as its offset from `abuf` (the C code compares the two
   pointers); [alen] is the caller's int.  The block handed in is [abuf_bytes]; the caller's
   contract is alen <= length abuf_bytes.
   ------------------------------------------------------------------------------------------ *)

(* ares_expand_name_validated *)
Definition expand_name_validated (abuf : list N) (enc alen : Z) (want is_hostname : bool)
  : outcome (list N * Z) :=
  if alen =? 0 then Err ARES_EBADNAME else
  if (enc <? 0) || (enc >=? alen) then Err ARES_EBADNAME else
  let buf := mkCur abuf alen 0 abuf in                     (* ares_buf_create_const(abuf, alen) *)
  do c <- checked (set_position buf enc);
  do start_len <- buf_len c;
  do r <- dns_name_parse (name_fuel c) c want is_hostname;
  do end_len <- buf_len (snd r);
  Ok (fst r, (start_len - end_len) mod 2 ^ 64).

(* ares_expand_name(encoded, abuf, alen, s, enclen); alen is a C int *)
Definition expand_name (abuf : list N) (enc alen : Z) (want : bool) : outcome (list N * Z) :=
  if alen <=? 0 then Err ARES_EBADNAME else
  expand_name_validated abuf enc alen want false.

(* `done:` of ares_expand_string_ex: EBADNAME / EBADRESP become EBADSTR *)
Definition to_badstr {A} (m : outcome A) : outcome A :=
  match m with
  | Err s => if (s =? ARES_EBADNAME) || (s =? ARES_EBADRESP) then Err ARES_EBADSTR else Err s
  | x => x
  end.

(* ares_expand_string_ex *)
Definition expand_string_ex (abuf : list N) (enc alen : Z) (want : bool) : outcome (list N * Z) :=
  if alen =? 0 then Err ARES_EBADSTR else
  if (enc <? 0) || (enc >=? alen) then Err ARES_EBADSTR else
  let buf := mkCur abuf alen 0 abuf in
  to_badstr (
    do c <- checked (set_position buf enc);
    do start_len <- buf_len c;
    do r <- parse_dns_binstr c start_len want false;
    do end_len <- buf_len (snd r);
    Ok (fst r, (start_len - end_len) mod 2 ^ 64)).

(* ares_expand_string *)
Definition expand_string (abuf : list N) (enc alen : Z) (want : bool) : outcome (list N * Z) :=
  if alen <=? 0 then Err ARES_EBADRESP else
  expand_string_ex abuf enc alen want.
