(* C04: agreement between the model of ares_dns_parse (Parse.v) and the RFC reference decoder
   (RefDecode.v) - header and question, for all inputs. *)
From CAres.Wire Require Import Cursor Cursor_proofs Name Name_proofs Record Parse Parse_proofs Escape RefDecode Bits Name_ref.
From CAres.Gen Require Import Consts LeafFns Tables.
Local Open Scope Z_scope.

(* ---- big-endian fetches vs u16_at / u32_at ---- *)
Lemma fetch_be16_ref c :
  cur_ok c -> exact c -> bytes_ok (c_data c) ->
  match u16_at (c_data c) (Z.to_nat (c_off c)) with
  | Some v => fetch_be16 c = Ok (v, set_off c (c_off c + 2)) /\ 0 <= v < 65536
  | None => fetch_be16 c = Err ARES_EBADRESP
  end.
Proof.
  intros Hc Hx Hb. unfold u16_at.
  pose proof (octet_rest c 0 Hc) as O0. pose proof (octet_rest c 1 Hc) as O1. rewrite Nat.add_0_r in O0.
  rewrite O0, O1.
  pose proof Hc as (Hoff & Hl & _ & Hr).
  unfold fetch_be16, fetch_remaining. rewrite (buf_len_ok c Hc). cbn [bind].
  assert (Hrl : length (c_rest c) = Z.to_nat (c_len c - c_off c)).
  { rewrite Hr, skipn_length. unfold exact in Hx. lia. }
  destruct (nth_error (c_rest c) 0) as [x0|] eqn:E0.
  - destruct (nth_error (c_rest c) 1) as [x1|] eqn:E1.
    + assert (Hlen2 : (1 < length (c_rest c))%nat) by (apply nth_error_Some; congruence).
      destruct (c_len c - c_off c <? 2) eqn:E; [apply Z.ltb_lt in E; lia|].
      unfold byte_rel. rewrite E0, E1. cbn [bind].
      rewrite (checked_consume_spec c 2 Hc) by lia. rewrite E.
      assert (B0 : 0 <= Z.of_N x0 < 256).
      { rewrite Hr, nth_error_skipn in E0. apply (bytes_ok_nth _ _ _ Hb E0). }
      assert (B1 : 0 <= Z.of_N x1 < 256).
      { rewrite Hr, nth_error_skipn in E1. apply (bytes_ok_nth _ _ _ Hb E1). }
      rewrite (be16_value _ _ B0 B1). split; [reflexivity | lia].
    + assert (Hlen2 : (length (c_rest c) <= 1)%nat) by (apply nth_error_None; exact E1).
      destruct (c_len c - c_off c <? 2) eqn:E; [reflexivity | apply Z.ltb_ge in E; lia].
  - assert (Hlen0 : (length (c_rest c) <= 0)%nat) by (apply nth_error_None; exact E0).
    destruct (c_len c - c_off c <? 2) eqn:E; [reflexivity | apply Z.ltb_ge in E; lia].
Qed.

(* ---- header fields: bit tests vs arithmetic ---- *)
Lemma land_pow2 u n : 0 <= n -> Z.land u (2 ^ n) = if Z.testbit u n then 2 ^ n else 0.
Proof.
  intros Hn. apply Z.bits_inj'. intros i Hi. rewrite Z.land_spec, Z.pow2_bits_eqb by assumption.
  destruct (Z.testbit u n) eqn:Et.
  - rewrite Z.pow2_bits_eqb by assumption. destruct (Z.eqb_spec n i) as [->|Hne]; [rewrite Et; reflexivity | apply andb_false_r].
  - rewrite Z.bits_0. destruct (Z.eqb_spec n i) as [->|Hne]; [rewrite Et; reflexivity | apply andb_false_r].
Qed.

Lemma bit_test u n : 0 <= n -> negb (Z.land u (2 ^ n) =? 0) = ((u / 2 ^ n) mod 2 =? 1).
Proof.
  intros Hn. rewrite land_pow2 by assumption.
  pose proof (Z.testbit_spec' u n Hn) as T.
  destruct (Z.testbit u n); cbn [Z.b2z] in T.
  - rewrite <- T. assert (0 < 2 ^ n) by (apply Z.pow_pos_nonneg; lia).
    destruct (2 ^ n =? 0) eqn:E; [apply Z.eqb_eq in E; lia | reflexivity].
  - rewrite <- T. reflexivity.
Qed.

Definition hdr_flags_c (u16 : Z) : Z :=
  let bit (mask flag : Z) := if negb (Z.land u16 mask =? 0) then flag else 0 in
  Z.lor (Z.lor (Z.lor (Z.lor (Z.lor (Z.lor (bit 32768 ARES_FLAG_QR) (bit 1024 ARES_FLAG_AA))
                                            (bit 512 ARES_FLAG_TC)) (bit 256 ARES_FLAG_RD))
                       (bit 128 ARES_FLAG_RA)) (bit 32 ARES_FLAG_AD)) (bit 16 ARES_FLAG_CD).

Definition hdr_flags_ref (fl : Z) : Z :=
  let bit (v flag : Z) := if (fl / v) mod 2 =? 1 then flag else 0 in
  bit 32768 ARES_FLAG_QR + bit 1024 ARES_FLAG_AA + bit 512 ARES_FLAG_TC + bit 256 ARES_FLAG_RD
  + bit 128 ARES_FLAG_RA + bit 32 ARES_FLAG_AD + bit 16 ARES_FLAG_CD.

Lemma hdr_flags_agree u : hdr_flags_c u = hdr_flags_ref u.
Proof.
  unfold hdr_flags_c, hdr_flags_ref. cbv zeta.
  change 32768 with (2 ^ 15). change 1024 with (2 ^ 10). change 512 with (2 ^ 9). change 256 with (2 ^ 8).
  change 128 with (2 ^ 7). change 32 with (2 ^ 5). change 16 with (2 ^ 4).
  rewrite !bit_test by lia.
  destruct ((u / 2 ^ 15) mod 2 =? 1), ((u / 2 ^ 10) mod 2 =? 1), ((u / 2 ^ 9) mod 2 =? 1), ((u / 2 ^ 8) mod 2 =? 1),
    ((u / 2 ^ 7) mod 2 =? 1), ((u / 2 ^ 5) mod 2 =? 1), ((u / 2 ^ 4) mod 2 =? 1); reflexivity.
Qed.

Lemma opcode_agree u : 0 <= u -> Z.land (Z.shiftr u 11) 15 = (u / 2048) mod 16.
Proof.
  intros H. rewrite Z.shiftr_div_pow2 by lia. change 15 with (Z.ones 4). rewrite Z.land_ones by lia. reflexivity.
Qed.

Lemma rcode4_agree u : Z.land u 15 = u mod 16.
Proof. change 15 with (Z.ones 4). rewrite Z.land_ones by lia. reflexivity. Qed.

(* ---- what the later stages of the parser leave untouched ---- *)
Definition hq (d : dnsrec) : Z * Z * Z * list question := (d_id d, d_flags d, d_opcode d, d_qd d).

Lemma hq_section_append d sect r : hq (section_append d sect r) = hq d.
Proof. unfold section_append. destruct (sect =? ARES_SECTION_ANSWER); [reflexivity|]. destruct (sect =? ARES_SECTION_AUTHORITY); reflexivity. Qed.

Lemma hq_set_raw_rcode d rc : hq (set_raw_rcode d rc) = hq d.
Proof. reflexivity. Qed.

Lemma hq_set_rcode d rc : hq (set_rcode d rc) = hq d.
Proof. reflexivity. Qed.

Ltac inv_step H :=
  match type of H with
  | bind ?m _ = Ok _ =>
    let x := fresh "x" in let E := fresh "E" in
    destruct m as [x| |] eqn:E; cbn [bind] in H; [|discriminate H|discriminate H]
  | match ?p with (_, _) => _ end = Ok _ => destruct p
  | (if ?c then _ else _) = Ok _ => destruct c; [try discriminate H|try discriminate H]
  end.

Lemma parse_rr_hq vr fuel c fl sect d c' d' : parse_rr vr fuel c fl sect d = Ok (c', d') -> hq d' = hq d.
Proof.
  intros H. unfold parse_rr in H.
  repeat inv_step H.
  all: try (injection H as <- <-; rewrite hq_section_append; reflexivity).
Qed.

Lemma parse_rrs_hq vr fuel fl sect : forall n c d c' d', parse_rrs vr fuel n c fl sect d = Ok (c', d') -> hq d' = hq d.
Proof.
  induction n as [|n IH]; intros c d c' d' H; cbn [parse_rrs] in H.
  - injection H as <- <-. reflexivity.
  - destruct (parse_rr vr fuel c fl sect d) as [[c1 d1]| |] eqn:E; cbn [bind] in H; try discriminate.
    cbn [fst snd] in H. rewrite (IH _ _ _ _ H). apply (parse_rr_hq _ _ _ _ _ _ _ _ E).
Qed.

(* ---- header ---- *)
Lemma set_off_set_off c a b : set_off (set_off c a) b = set_off c b.
Proof. reflexivity. Qed.

Lemma good_cursor bs o :
  bytes_ok bs -> Z.of_nat (length bs) < 2 ^ 64 -> 0 <= o <= Z.of_nat (length bs) ->
  let c := set_off (cur_of_bytes bs) o in cur_ok c /\ exact c /\ bytes_ok (c_data c).
Proof.
  intros Hb Hl Ho c. split; [|split; [reflexivity | exact Hb]].
  apply cur_ok_set_off; [apply cur_of_bytes_ok; exact Hl | exact Ho].
Qed.

(* fetching a big-endian 16-bit value at offset o of the message *)
Lemma fetch_be16_at bs o v c' :
  bytes_ok bs -> Z.of_nat (length bs) < 2 ^ 64 -> 0 <= o <= Z.of_nat (length bs) ->
  fetch_be16 (set_off (cur_of_bytes bs) o) = Ok (v, c') ->
  u16_at bs (Z.to_nat o) = Some v /\ c' = set_off (cur_of_bytes bs) (o + 2) /\ o + 2 <= Z.of_nat (length bs).
Proof.
  intros Hb Hl Ho H. destruct (good_cursor bs o Hb Hl Ho) as (Hc & Hx & Hbo).
  pose proof (fetch_be16_ref _ Hc Hx Hbo) as R. cbn [c_data c_off set_off cur_of_bytes] in R.
  destruct (u16_at bs (Z.to_nat o)) as [v0|].
  - destruct R as [R _]. rewrite R in H. injection H as <- <-. split; [reflexivity | split; [reflexivity|]].
    pose proof (fetch_be16_safe _ Hc) as S. rewrite R in S. cbn [safe fst snd] in S.
    destruct S as (_ & Hco & _). destruct Hco as ((_ & Hle) & _). cbn [c_off c_len set_off cur_of_bytes] in Hle. lia.
  - rewrite R in H. discriminate.
Qed.

Lemma parse_header_ref bs c' d cnts :
  bytes_ok bs -> Z.of_nat (length bs) < 2 ^ 64 ->
  parse_header (cur_of_bytes bs) = Ok (c', d, cnts) ->
  exists id fl qd an ns ar,
    u16_at bs 0 = Some id /\ u16_at bs 2 = Some fl /\ u16_at bs 4 = Some qd /\ u16_at bs 6 = Some an /\
    u16_at bs 8 = Some ns /\ u16_at bs 10 = Some ar /\
    c' = set_off (cur_of_bytes bs) 12 /\ 12 <= Z.of_nat (length bs) /\ cnts = (qd, an, ns, ar) /\
    hq d = (id, hdr_flags_c fl, Z.land (Z.shiftr fl 11) 15, []) /\ 0 <= fl.
Proof.
  intros Hb Hl H. unfold parse_header in H.
  assert (H0 : cur_of_bytes bs = set_off (cur_of_bytes bs) 0) by reflexivity.
  rewrite H0 in H.
  destruct (fetch_be16 (set_off (cur_of_bytes bs) 0)) as [[id c1]| |] eqn:E1; cbn [bind] in H; try discriminate.
  destruct (fetch_be16_at bs 0 id c1 Hb Hl ltac:(lia) E1) as (U1 & -> & L1).
  destruct (fetch_be16 (set_off (cur_of_bytes bs) (0 + 2))) as [[fl c2]| |] eqn:E2; cbn [bind] in H; try discriminate.
  destruct (fetch_be16_at bs (0 + 2) fl c2 Hb Hl ltac:(lia) E2) as (U2 & -> & L2).
  destruct (fetch_be16 (set_off (cur_of_bytes bs) (0 + 2 + 2))) as [[qd c3]| |] eqn:E3; cbn [bind] in H; try discriminate.
  destruct (fetch_be16_at bs (0 + 2 + 2) qd c3 Hb Hl ltac:(lia) E3) as (U3 & -> & L3).
  destruct (fetch_be16 (set_off (cur_of_bytes bs) (0 + 2 + 2 + 2))) as [[an c4]| |] eqn:E4; cbn [bind] in H; try discriminate.
  destruct (fetch_be16_at bs (0 + 2 + 2 + 2) an c4 Hb Hl ltac:(lia) E4) as (U4 & -> & L4).
  destruct (fetch_be16 (set_off (cur_of_bytes bs) (0 + 2 + 2 + 2 + 2))) as [[ns c5]| |] eqn:E5; cbn [bind] in H; try discriminate.
  destruct (fetch_be16_at bs (0 + 2 + 2 + 2 + 2) ns c5 Hb Hl ltac:(lia) E5) as (U5 & -> & L5).
  destruct (fetch_be16 (set_off (cur_of_bytes bs) (0 + 2 + 2 + 2 + 2 + 2))) as [[ar c6]| |] eqn:E6; cbn [bind] in H; try discriminate.
  destruct (fetch_be16_at bs (0 + 2 + 2 + 2 + 2 + 2) ar c6 Hb Hl ltac:(lia) E6) as (U6 & -> & L6).
  match type of H with bind ?m _ = _ => destruct m as [d0| |] eqn:Ec end; cbn [bind] in H; try discriminate.
  injection H as <- <- <-.
  exists id, fl, qd, an, ns, ar.
  change (Z.to_nat 0) with 0%nat in U1. change (Z.to_nat (0 + 2)) with 2%nat in U2.
  change (Z.to_nat (0 + 2 + 2)) with 4%nat in U3. change (Z.to_nat (0 + 2 + 2 + 2)) with 6%nat in U4.
  change (Z.to_nat (0 + 2 + 2 + 2 + 2)) with 8%nat in U5. change (Z.to_nat (0 + 2 + 2 + 2 + 2 + 2)) with 10%nat in U6.
  repeat (split; [first [assumption | reflexivity | lia]|]).
  split.
  - unfold record_create in Ec. destruct (c_ares_dns_flags_arevalid _) as [fv| |]; cbn [bind] in Ec; try discriminate.
    match type of Ec with (if ?c then _ else _) = _ => destruct c end; [discriminate|]. injection Ec as <-. reflexivity.
  - pose proof (fetch_be16_ref (set_off (cur_of_bytes bs) (0 + 2))) as R.
    destruct (good_cursor bs (0 + 2) Hb Hl ltac:(lia)) as (Hc & Hx & Hbo). specialize (R Hc Hx Hbo).
    cbn [c_data c_off set_off cur_of_bytes] in R. change (Z.to_nat (0 + 2)) with 2%nat in R. rewrite U2 in R. lia.
Qed.

(* ---- question ---- *)
Lemma parse_qd_ref bs fuel d c' d' :
  bytes_ok bs -> Z.of_nat (length bs) < 2 ^ 64 -> 12 <= Z.of_nat (length bs) ->
  (name_fuel (cur_of_bytes bs) <= fuel)%nat ->
  parse_qd fuel (set_off (cur_of_bytes bs) 12) d = Ok (c', d') ->
  exists qn p qt qc,
    ref_name bs 12 = Some (qn, p) /\ u16_at bs p = Some qt /\ u16_at bs (p + 2) = Some qc /\
    d_qd d' = d_qd d ++ [mkQ (escape_name qn) qt qc] /\
    (d_id d', d_flags d', d_opcode d') = (d_id d, d_flags d, d_opcode d).
Proof.
  intros Hb Hl H12 Hf H. unfold parse_qd in H.
  destruct (good_cursor bs 12 Hb Hl ltac:(lia)) as (Hc & Hx & Hbo).
  pose proof (name_parse_ref fuel _ Hc Hx Hbo Hf) as R. cbn [c_data c_off set_off cur_of_bytes] in R.
  change (Z.to_nat 12) with 12%nat in R.
  destruct (ref_name bs 12) as [[qn p]|].
  2:{ destruct R as (s & R). rewrite R in H. discriminate. }
  destruct R as [R _]. rewrite R in H. cbn [bind] in H. rewrite set_off_set_off in H.
  assert (Hp : 0 <= Z.of_nat p <= Z.of_nat (length bs)).
  { pose proof (dns_name_parse_safe fuel _ true false Hc Hf) as S. rewrite R in S. cbn [safe snd] in S.
    destruct S as ((Hle & _) & _). cbn [c_off c_len set_off cur_of_bytes] in Hle. lia. }
  destruct (fetch_be16 (set_off (cur_of_bytes bs) (Z.of_nat p))) as [[qt c1]| |] eqn:E1; cbn [bind] in H; try discriminate.
  destruct (fetch_be16_at bs (Z.of_nat p) qt c1 Hb Hl Hp E1) as (U1 & -> & L1).
  destruct (fetch_be16 (set_off (cur_of_bytes bs) (Z.of_nat p + 2))) as [[qc c2]| |] eqn:E2; cbn [bind] in H; try discriminate.
  destruct (fetch_be16_at bs (Z.of_nat p + 2) qc c2 Hb Hl ltac:(lia) E2) as (U2 & -> & L2).
  destruct (query_add d (escape_name qn) qt qc) as [d1| |] eqn:Eq; cbn [bind] in H; try discriminate.
  injection H as <- <-.
  exists qn, p, qt, qc. rewrite Nat2Z.id in U1.
  replace (Z.to_nat (Z.of_nat p + 2)) with (p + 2)%nat in U2 by lia.
  split; [reflexivity | split; [exact U1 | split; [exact U2|]]].
  unfold query_add in Eq. match type of Eq with (if ?c then _ else _) = _ => destruct c end; [discriminate|].
  injection Eq as <-. split; reflexivity.
Qed.

(* C04_sound, header and question: whatever the parser accepts, the header fields it reports
   and the question (name, type, class) are what the RFC reference decoder extracts *)
Theorem sound_header_question vr bs r rf :
  bytes_ok bs -> Z.of_nat (length bs) < 2 ^ 64 ->
  dns_parse_v vr bs 0 = Ok r -> ref_decode bs = Some rf ->
  d_id r = d_id (rf_rec rf) /\ d_flags r = d_flags (rf_rec rf) /\ d_opcode r = d_opcode (rf_rec rf) /\
  d_qd r = d_qd (rf_rec rf).
Proof.
  intros Hb Hl H F. unfold dns_parse_v in H.
  destruct (Z.of_nat (length bs) =? 0); [discriminate|].
  unfold parse_buf in H.
  destruct (buf_len (cur_of_bytes bs)) as [bl| |]; cbn [bind] in H; try discriminate.
  destruct (bl >? 65535); [discriminate|].
  destruct (parse_header (cur_of_bytes bs)) as [[[c1 d0] [[[qd an] ns] ar]]| |] eqn:Eh; cbn [bind] in H; try discriminate.
  destruct (parse_header_ref bs c1 d0 _ Hb Hl Eh) as (id & fl & qd' & an' & ns' & ar' & U0 & U2 & U4 & U6 & U8 & U10 & -> & H12 & Hcnt & Hhq & Hfl0).
  injection Hcnt as -> -> -> ->.
  destruct (qd' =? 0); [discriminate|]. destruct (qd' >? 1) eqn:Eq1; [discriminate|].
  destruct (parse_qds (name_fuel (cur_of_bytes bs)) (Z.to_nat qd') (set_off (cur_of_bytes bs) 12) d0) as [[c2 d1]| |] eqn:Eqs;
    cbn [bind fst snd] in H; try discriminate.
  destruct (parse_rrs vr _ (Z.to_nat an') c2 0 ARES_SECTION_ANSWER d1) as [[c3 d2]| |] eqn:E1; cbn [bind fst snd] in H; try discriminate.
  destruct (parse_rrs vr _ (Z.to_nat ns') c3 0 ARES_SECTION_AUTHORITY d2) as [[c4 d3]| |] eqn:E2; cbn [bind fst snd] in H; try discriminate.
  destruct (parse_rrs vr _ (Z.to_nat ar') c4 0 ARES_SECTION_ADDITIONAL d3) as [[c5 d4]| |] eqn:E3; cbn [bind fst snd] in H; try discriminate.
  assert (Hr : hq r = hq d4).
  { injection H as <-. destruct (negb (rcode_isvalid (d_raw_rcode d4))); apply hq_set_rcode. }
  rewrite (parse_rrs_hq _ _ _ _ _ _ _ _ _ E3), (parse_rrs_hq _ _ _ _ _ _ _ _ _ E2), (parse_rrs_hq _ _ _ _ _ _ _ _ _ E1) in Hr.
  (* the reference decoder on the same octets *)
  unfold ref_decode in F. destruct (Z.of_nat (length bs) >? 65535); [discriminate|].
  rewrite U0, U2, U4, U6, U8, U10 in F.
  destruct (negb (qd' =? 1)) eqn:Eq; [discriminate|]. apply negb_false_iff in Eq. apply Z.eqb_eq in Eq. subst qd'.
  change (Z.to_nat 1) with 1%nat in Eqs. cbn [parse_qds] in Eqs.
  destruct (parse_qd (name_fuel (cur_of_bytes bs)) (set_off (cur_of_bytes bs) 12) d0) as [[cq dq]| |] eqn:Eqd; cbn [bind fst snd] in Eqs; try discriminate.
  injection Eqs as <- <-.
  destruct (parse_qd_ref bs _ d0 cq dq Hb Hl H12 (le_n _) Eqd) as (qn & p & qt & qc & Rn & Ut & Uc & Hqd & Hids).
  rewrite Rn, Ut, Uc in F.
  destruct (ref_rrs (Z.to_nat an') bs (p + 4)) as [[[[ans p1] e1] x1]|]; [|discriminate].
  destruct (ref_rrs (Z.to_nat ns') bs p1) as [[[[nss p2] e2] x2]|]; [|discriminate].
  destruct (ref_rrs (Z.to_nat ar') bs p2) as [[[[ars p3] e3] x3]|]; [|discriminate].
  assert (Hrec : d_id (rf_rec rf) = id /\ d_flags (rf_rec rf) = hdr_flags_ref fl /\ d_opcode (rf_rec rf) = (fl / 2048) mod 16
                 /\ d_qd (rf_rec rf) = [mkQ (escape_name qn) qt qc]).
  { destruct (e1 ++ e2 ++ e3) as [|x [|y l]]; try discriminate; injection F as <-; repeat split; reflexivity. }
  destruct Hrec as (R1 & R2 & R3 & R4).
  unfold hq in Hr, Hhq. injection Hhq as I1 I2 I3 I4. injection Hids as J1 J2 J3.
  injection Hr as K1 K2 K3 K4.
  rewrite R1, R2, R3, R4, K1, K2, K3, K4, J1, J2, J3, Hqd, I1, I2, I3, I4.
  rewrite hdr_flags_agree, (opcode_agree fl Hfl0). repeat split; reflexivity.
Qed.
