(* ares_dns_parse: for ALL byte strings and parse flags the model never reaches undefined
   behaviour and never runs out of fuel; the cursor invariant holds after every decoder. *)
From CAres.Wire Require Import Cursor Cursor_proofs Name Name_proofs Record Parse.
From CAres.Gen Require Import Consts LeafFns Tables.
Local Open Scope Z_scope.

Lemma rr_set_safe r k v : safe (fun _ => True) (rr_set r k v).
Proof.
  unfold rr_set.
  destruct (negb (setter_accepts v (key_datatype k))); [simpl; status_ne|].
  destruct (negb (rr_type r =? key_to_rec_type k)); [simpl; status_ne|].
  destruct (assoc_get k (rr_fields r)); simpl; [exact I | status_ne].
Qed.

Lemma rr_set_opt_safe r k o v : safe (fun _ => True) (rr_set_opt r k o v).
Proof.
  unfold rr_set_opt.
  destruct (negb (key_datatype k =? ARES_DATATYPE_OPT)); [simpl; status_ne|].
  destruct (negb (rr_type r =? key_to_rec_type k)); [simpl; status_ne|].
  destruct (assoc_get k (rr_fields r)) as [[]|]; simpl; try exact I; status_ne.
Qed.

Lemma rr_add_opt_safe r k o v : safe (fun _ => True) (rr_add_opt r k o v).
Proof.
  unfold rr_add_opt.
  destruct (negb (key_datatype k =? ARES_DATATYPE_OPT)); [simpl; status_ne|].
  destruct (negb (rr_type r =? key_to_rec_type k)); [simpl; status_ne|].
  destruct (assoc_get k (rr_fields r)) as [[]|]; simpl; try exact I; status_ne.
Qed.

Lemma rr_remaining_len_ok c orig_len rdlength :
  cur_ok c -> exists m, rr_remaining_len c orig_len rdlength = Ok m /\ 0 <= m /\
                        m = (if (orig_len - (c_len c - c_off c)) mod 2 ^ 64 >=? rdlength then 0
                             else (rdlength - (orig_len - (c_len c - c_off c)) mod 2 ^ 64) mod 2 ^ 64).
Proof.
  intros Hc. unfold rr_remaining_len. rewrite (buf_len_ok c Hc). cbn [bind].
  unfold c_ares_dns_rr_remaining_len.
  destruct ((orig_len - (c_len c - c_off c)) mod 2 ^ 64 >=? rdlength).
  - eexists; split; [reflexivity | split; [lia | reflexivity]].
  - eexists; split; [reflexivity | split; [apply Z.mod_pos_bound; reflexivity | reflexivity]].
Qed.

Section Decoders.
  Variable vr : variant.
  Variable fuel : nat.
  Variable c0 : cursor.
  Hypothesis Hfuel : (name_fuel c0 <= fuel)%nat.

  Definition st_ok (s : st) : Prop := cur_ok (fst s) /\ same_block c0 (fst s).

  (* what every decoder leaves: invariant, same block, offset not before where it started *)
  Definition st_next (s s' : st) : Prop := st_ok s' /\ c_off (fst s) <= c_off (fst s').

  Lemma st_next_adv s n c' r : st_ok s -> 0 <= n -> advanced (fst s) n c' -> st_next s (c', r).
  Proof.
    intros [H1 H2] Hn (H3 & H4 & H5). split; [split; [assumption | eapply same_block_trans; eassumption] | simpl; lia].
  Qed.

  Lemma st_next_refl s : st_ok s -> st_next s s.
  Proof. intros H. split; [assumption | lia]. Qed.

  Lemma st_next_trans s1 s2 s3 : st_next s1 s2 -> st_next s2 s3 -> st_next s1 s3.
  Proof. intros [_ H1] [H2 H3]. split; [assumption | lia]. Qed.

  (* sequencing of decoders *)
  Lemma seq_safe (s : st) (m : outcome st) (f : st -> outcome st) :
    safe (st_next s) m -> (forall s', st_ok s' -> safe (st_next s') (f s')) -> safe (st_next s) (bind m f).
  Proof.
    intros Hm Hf. eapply safe_bind; [exact Hm|]. intros s' Hs'.
    eapply safe_mono; [apply Hf; apply Hs'|]. intros s'' Hs''. eapply st_next_trans; eassumption.
  Qed.

  Lemma name_fuel_same c : same_block c0 c -> (name_fuel c <= fuel)%nat.
  Proof. intros [_ Hl]. unfold name_fuel in *. rewrite Hl. assumption. Qed.

  Lemma parse_and_set_dns_name_safe s key :
    st_ok s -> safe (st_next s) (parse_and_set_dns_name fuel s key).
  Proof.
    intros [Hc Hsb]. unfold parse_and_set_dns_name.
    eapply safe_bind; [apply (dns_name_parse_safe fuel (fst s) true false Hc (name_fuel_same _ Hsb))|].
    intros [nm c'] (Hc' & Hsb' & Ho'). cbn [fst snd] in *.
    eapply safe_bind; [apply rr_set_safe|]. intros r' _.
    simpl. split; [split; [assumption | eapply same_block_trans; eassumption] | simpl; lia].
  Qed.

  Lemma parse_and_set_dns_str_safe s max_len key blank :
    st_ok s -> safe (st_next s) (parse_and_set_dns_str s max_len key blank).
  Proof.
    intros [Hc Hsb]. unfold parse_and_set_dns_str.
    eapply safe_bind; [apply (parse_dns_binstr_safe (fst s) max_len true true Hc)|].
    intros [str c'] (Hc' & Hsb' & Ho'). cbn [fst snd] in *.
    destruct (negb blank && (Z.of_nat (length str) =? 0)); [simpl; status_ne|].
    eapply safe_bind; [apply rr_set_safe|]. intros r' _.
    simpl. split; [split; [assumption | eapply same_block_trans; eassumption] | simpl; lia].
  Qed.

  Lemma parse_and_set_be32_safe s key : st_ok s -> safe (st_next s) (parse_and_set_be32 s key).
  Proof.
    intros Hs. unfold parse_and_set_be32.
    eapply safe_bind; [apply (fetch_be32_safe (fst s)); apply Hs|].
    intros [v c'] [_ Hadv]. cbn [fst snd] in *.
    eapply safe_bind; [apply rr_set_safe|]. intros r' _. simpl. eapply st_next_adv; try eassumption. lia.
  Qed.

  Lemma parse_and_set_be16_safe s key : st_ok s -> safe (st_next s) (parse_and_set_be16 s key).
  Proof.
    intros Hs. unfold parse_and_set_be16.
    eapply safe_bind; [apply (fetch_be16_safe (fst s)); apply Hs|].
    intros [v c'] [_ Hadv]. cbn [fst snd] in *.
    eapply safe_bind; [apply rr_set_safe|]. intros r' _. simpl. eapply st_next_adv; try eassumption. lia.
  Qed.

  Lemma parse_and_set_u8_safe s key : st_ok s -> safe (st_next s) (parse_and_set_u8 s key).
  Proof.
    intros Hs. unfold parse_and_set_u8.
    eapply safe_bind; [apply (fetch_u8_safe (fst s)); apply Hs|].
    intros [v c'] [_ Hadv]. cbn [fst snd] in *.
    eapply safe_bind; [apply rr_set_safe|]. intros r' _. simpl. eapply st_next_adv; try eassumption. lia.
  Qed.

  Lemma parse_and_set_rest_bin_safe s orig_len rdlength key :
    st_ok s -> safe (st_next s) (parse_and_set_rest_bin s orig_len rdlength key).
  Proof.
    intros Hs. unfold parse_and_set_rest_bin.
    destruct (rr_remaining_len_ok (fst s) orig_len rdlength (proj1 Hs)) as (m & Hm & Hm0 & _).
    rewrite Hm. cbn [bind].
    destruct (m =? 0); [simpl; status_ne|].
    eapply safe_bind; [apply (fetch_bytes_safe (fst s) m (proj1 Hs) Hm0)|].
    intros [bs c'] (_ & _ & Hadv). cbn [fst snd] in *.
    eapply safe_bind; [apply rr_set_safe|]. intros r' _. simpl. eapply st_next_adv; eassumption.
  Qed.

  Lemma fetch_fixed_safe s n key mk :
    st_ok s -> 0 <= n ->
    safe (st_next s) (do r <- fetch_bytes (fst s) n; do r' <- rr_set (snd s) key (mk (fst r)); Ok (snd r, r')).
  Proof.
    intros Hs Hn.
    eapply safe_bind; [apply (fetch_bytes_safe (fst s) n (proj1 Hs) Hn)|].
    intros [bs c'] (_ & _ & Hadv). cbn [fst snd] in *.
    eapply safe_bind; [apply rr_set_safe|]. intros r' _. simpl. eapply st_next_adv; eassumption.
  Qed.

  (* ---- the multistring loop: fuel = remaining_len suffices ---- *)
  Lemma multistring_loop_safe off0 remaining_len vp :
    forall lfuel c acc,
      cur_ok c -> same_block c0 c -> 0 <= off0 <= c_off c ->
      remaining_len - (c_off c - off0) <= Z.of_nat lfuel ->
      safe (fun r => cur_ok (snd r) /\ same_block c0 (snd r) /\ c_off c <= c_off (snd r))
           (multistring_loop lfuel c (c_len c - off0) remaining_len vp acc).
  Proof.
    induction lfuel as [|lf IH]; intros c acc Hc Hsb Hoff Hfu.
    - cbn [multistring_loop]. rewrite (buf_len_ok c Hc). cbn [bind].
      replace (c_len c - off0 - (c_len c - c_off c)) with (c_off c - off0) by lia.
      rewrite Z.mod_small by (destruct Hc as (? & ? & ?); rewrite pow64 in *; lia).
      destruct (c_off c - off0 <? remaining_len) eqn:E; [apply Z.ltb_lt in E; lia|].
      simpl. repeat split; try apply Hc; try apply Hsb. lia.
    - cbn [multistring_loop]. rewrite (buf_len_ok c Hc). cbn [bind].
      replace (c_len c - off0 - (c_len c - c_off c)) with (c_off c - off0) by lia.
      rewrite Z.mod_small by (destruct Hc as (? & ? & ?); rewrite pow64 in *; lia).
      destruct (c_off c - off0 <? remaining_len) eqn:E; cbn [negb];
        [|simpl; repeat split; try apply Hc; try apply Hsb; lia].
      apply Z.ltb_lt in E.
      eapply safe_bind; [apply (fetch_u8_safe c Hc)|].
      intros [len c1] (Hlen & Hc1 & Hsb1 & Ho1). cbn [fst snd] in *.
      rewrite (buf_len_ok c1 Hc1). cbn [bind].
      eapply safe_bind with (Q := fun _ => True).
      { destruct (negb (len =? 0) && vp && (c_len c1 - c_off c1 >=? len)) eqn:Ev; [|simpl; exact I].
        apply andb_prop in Ev. destruct Ev as [_ Ev]. apply Z.geb_le in Ev.
        destruct (peek_bytes_ok c1 len Hc1) as (l & Hp & _); [lia | lia |].
        rewrite Hp. cbn [bind]. destruct (all_printable l); simpl; [exact I | status_ne]. }
      intros _ _.
      eapply safe_bind with (Q := fun r2 => cur_ok (snd r2) /\ same_block c1 (snd r2) /\ c_off c1 <= c_off (snd r2)).
      { destruct (negb (len =? 0)).
        - eapply safe_mono; [apply (fetch_bytes_safe c1 len Hc1 Hlen)|].
          intros [bs c2] (_ & Hpos & Hc2 & Hsb2 & Ho2). cbn [fst snd] in *. repeat split; try apply Hc2; try apply Hsb2. lia.
        - simpl. repeat split; try apply Hc1. lia. }
      intros [s2 c2] (Hc2 & Hsb2 & Ho2). cbn [fst snd] in *.
      assert (Hl2 : c_len c2 = c_len c) by (destruct Hsb1, Hsb2; congruence).
      rewrite <- Hl2.
      eapply safe_mono; [apply IH|].
      + assumption.
      + eapply same_block_trans; [eassumption|]. eapply same_block_trans; eassumption.
      + lia.
      + lia.
      + intros r (H1 & H2 & H3). repeat split; try apply H1; try apply H2. lia.
  Qed.

  Lemma multistring_parse_buf_safe c remaining_len vp :
    cur_ok c -> same_block c0 c ->
    safe (fun r => cur_ok (snd r) /\ same_block c0 (snd r) /\ c_off c <= c_off (snd r))
         (multistring_parse_buf c remaining_len vp).
  Proof.
    intros Hc Hsb. unfold multistring_parse_buf. rewrite (buf_len_ok c Hc). cbn [bind].
    destruct (remaining_len =? 0); [simpl; status_ne|].
    apply multistring_loop_safe; try assumption; destruct Hc as (? & ? & ?); lia.
  Qed.

  Lemma parse_and_set_dns_abin_safe s max_len key vp :
    st_ok s -> safe (st_next s) (parse_and_set_dns_abin s max_len key vp).
  Proof.
    intros [Hc Hsb]. unfold parse_and_set_dns_abin.
    eapply safe_bind; [apply (multistring_parse_buf_safe (fst s) max_len vp Hc Hsb)|].
    intros [l c'] (Hc' & Hsb' & Ho'). cbn [fst snd] in *.
    eapply safe_bind; [apply rr_set_safe|]. intros r' _. simpl. split; [split; assumption | simpl; lia].
  Qed.

  (* ---- the option loop of OPT / SVCB / HTTPS: fuel = rdlength suffices.
     [off0] is the offset at which the decoder started (orig_len = data_len - off0) ---- *)
  Lemma opt_loop_safe off0 rdlength key :
    forall lfuel s,
      st_ok s -> 0 <= off0 <= c_off (fst s) ->
      rdlength - (c_off (fst s) - off0) <= Z.of_nat lfuel ->
      safe (st_next s) (opt_loop vr lfuel s (c_len (fst s) - off0) rdlength key).
  Proof.
    induction lfuel as [|lf IH]; intros s Hs Hoff Hfu.
    - cbn [opt_loop].
      destruct (rr_remaining_len_ok (fst s) (c_len (fst s) - off0) rdlength (proj1 Hs)) as (m & Hm & Hm0 & Hmeq).
      rewrite Hm. cbn [bind].
      replace (c_len (fst s) - off0 - (c_len (fst s) - c_off (fst s))) with (c_off (fst s) - off0) in Hmeq by lia.
      rewrite Z.mod_small in Hmeq by (destruct Hs as ((? & ? & ?) & _); rewrite pow64 in *; lia).
      destruct (c_off (fst s) - off0 >=? rdlength) eqn:E.
      + subst m. simpl. apply st_next_refl. assumption.
      + rewrite Z.geb_leb in E. apply Z.leb_gt in E. lia.
    - cbn [opt_loop].
      destruct (rr_remaining_len_ok (fst s) (c_len (fst s) - off0) rdlength (proj1 Hs)) as (m & Hm & Hm0 & Hmeq).
      rewrite Hm. cbn [bind].
      replace (c_len (fst s) - off0 - (c_len (fst s) - c_off (fst s))) with (c_off (fst s) - off0) in Hmeq by lia.
      rewrite Z.mod_small in Hmeq by (destruct Hs as ((? & ? & ?) & _); rewrite pow64 in *; lia).
      destruct (m =? 0) eqn:E; [simpl; apply st_next_refl; assumption|]. apply Z.eqb_neq in E.
      destruct (c_off (fst s) - off0 >=? rdlength) eqn:E1; [lia|].
      rewrite Z.geb_leb in E1. apply Z.leb_gt in E1.
      eapply safe_bind; [apply (fetch_be16_safe (fst s)); apply Hs|].
      intros [opt c1] (_ & Hc1 & Hsb1 & Ho1). cbn [fst snd] in *.
      eapply safe_bind; [apply (fetch_be16_safe c1 Hc1)|].
      intros [len c2] (Hlen & Hc2 & Hsb2 & Ho2). cbn [fst snd] in *.
      eapply safe_bind with (Q := fun r2 => cur_ok (snd r2) /\ same_block c2 (snd r2) /\ c_off c2 <= c_off (snd r2)).
      { destruct (negb (len =? 0)).
        - eapply safe_mono; [apply (fetch_bytes_safe c2 len Hc2); lia|].
          intros [bs c3] (_ & Hpos & Hc3 & Hsb3 & Ho3). cbn [fst snd] in *. repeat split; try apply Hc3; try apply Hsb3. lia.
        - simpl. repeat split; try apply Hc2. lia. }
      intros [v c3] (Hc3 & Hsb3 & Ho3). cbn [fst snd] in *.
      eapply safe_bind; [destruct (v_opt_append vr); [apply rr_add_opt_safe | apply rr_set_opt_safe]|]. intros r' _.
      assert (Hsb03 : same_block (fst s) c3).
      { eapply same_block_trans; [eassumption|]. eapply same_block_trans; eassumption. }
      assert (Hl3 : c_len c3 = c_len (fst s)) by apply Hsb03.
      rewrite <- Hl3.
      eapply safe_mono; [apply (IH (c3, r'))|].
      + split; [assumption | eapply same_block_trans; [apply Hs | assumption]].
      + simpl. lia.
      + simpl. lia.
      + intros s' [H1 H2]. split; [assumption | simpl in *; lia].
  Qed.

  (* ---- per-type RDATA decoders ---- *)
  Ltac seq := first
    [ eapply seq_safe; [ (apply parse_and_set_dns_name_safe || apply parse_and_set_be32_safe
                          || apply parse_and_set_be16_safe || apply parse_and_set_u8_safe
                          || apply parse_and_set_dns_str_safe); assumption | intros ? ? ]
    | (apply parse_and_set_dns_name_safe || apply parse_and_set_be32_safe
       || apply parse_and_set_be16_safe || apply parse_and_set_u8_safe
       || apply parse_and_set_dns_str_safe || apply parse_and_set_rest_bin_safe
       || apply parse_and_set_dns_abin_safe); assumption ].

  Lemma parse_rr_a_safe s : st_ok s -> safe (st_next s) (parse_rr_a s).
  Proof. intros Hs. apply (fetch_fixed_safe s sizeof_in_addr _ FAddr Hs). unfold sizeof_in_addr. lia. Qed.

  Lemma parse_rr_aaaa_safe s : st_ok s -> safe (st_next s) (parse_rr_aaaa s).
  Proof. intros Hs. apply (fetch_fixed_safe s sizeof_in6_addr _ FAddr6 Hs). unfold sizeof_in6_addr. lia. Qed.

  Lemma parse_rr_soa_safe s : st_ok s -> safe (st_next s) (parse_rr_soa fuel s).
  Proof. intros Hs. unfold parse_rr_soa. repeat seq. Qed.

  Lemma parse_rr_mx_safe s : st_ok s -> safe (st_next s) (parse_rr_mx fuel s).
  Proof. intros Hs. unfold parse_rr_mx. repeat seq. Qed.

  Lemma parse_rr_srv_safe s : st_ok s -> safe (st_next s) (parse_rr_srv fuel s).
  Proof. intros Hs. unfold parse_rr_srv. repeat seq. Qed.

  (* reading buf_len / rr_remaining_len in the middle of a decoder *)
  Ltac with_len s Hs :=
    rewrite (buf_len_ok (fst s) (proj1 Hs)); cbn [bind].
  Ltac with_rem s Hs :=
    let m := fresh "m" in let Hm := fresh "Hm" in
    match goal with |- context [rr_remaining_len (fst s) ?o ?r] =>
      destruct (rr_remaining_len_ok (fst s) o r (proj1 Hs)) as (m & Hm & _ & _); rewrite Hm; cbn [bind] end.

  Lemma parse_rr_hinfo_safe s rdlength : st_ok s -> safe (st_next s) (parse_rr_hinfo s rdlength).
  Proof.
    intros Hs. unfold parse_rr_hinfo. with_len s Hs. with_rem s Hs.
    eapply seq_safe; [apply parse_and_set_dns_str_safe; assumption|]. intros s1 Hs1.
    with_rem s1 Hs1. apply parse_and_set_dns_str_safe; assumption.
  Qed.

  Lemma parse_rr_sig_safe s rdlength : st_ok s -> safe (st_next s) (parse_rr_sig fuel s rdlength).
  Proof. intros Hs. unfold parse_rr_sig. with_len s Hs. repeat seq. Qed.

  Lemma parse_rr_naptr_safe s rdlength : st_ok s -> safe (st_next s) (parse_rr_naptr fuel s rdlength).
  Proof.
    intros Hs. unfold parse_rr_naptr. with_len s Hs.
    eapply seq_safe; [apply parse_and_set_be16_safe; assumption|]. intros s1 Hs1.
    eapply seq_safe; [apply parse_and_set_be16_safe; assumption|]. intros s2 Hs2.
    with_rem s2 Hs2.
    eapply seq_safe; [apply parse_and_set_dns_str_safe; assumption|]. intros s3 Hs3.
    with_rem s3 Hs3.
    eapply seq_safe; [apply parse_and_set_dns_str_safe; assumption|]. intros s4 Hs4.
    with_rem s4 Hs4.
    eapply seq_safe; [apply parse_and_set_dns_str_safe; assumption|]. intros s5 Hs5.
    apply parse_and_set_dns_name_safe; assumption.
  Qed.

  Lemma parse_rr_tlsa_safe s rdlength : st_ok s -> safe (st_next s) (parse_rr_tlsa s rdlength).
  Proof. intros Hs. unfold parse_rr_tlsa. with_len s Hs. repeat seq. Qed.

  Lemma parse_rr_caa_safe s rdlength : st_ok s -> safe (st_next s) (parse_rr_caa s rdlength).
  Proof.
    intros Hs. unfold parse_rr_caa. with_len s Hs.
    eapply seq_safe; [apply parse_and_set_u8_safe; assumption|]. intros s1 Hs1.
    with_rem s1 Hs1.
    eapply seq_safe; [apply parse_and_set_dns_str_safe; assumption|]. intros s2 Hs2.
    apply parse_and_set_rest_bin_safe; assumption.
  Qed.

  Lemma parse_rr_uri_safe s rdlength : st_ok s -> safe (st_next s) (parse_rr_uri s rdlength).
  Proof.
    intros Hs. unfold parse_rr_uri. with_len s Hs.
    eapply seq_safe; [apply parse_and_set_be16_safe; assumption|]. intros s1 Hs1.
    eapply seq_safe; [apply parse_and_set_be16_safe; assumption|]. intros s2 Hs2.
    destruct (rr_remaining_len_ok (fst s2) (c_len (fst s) - c_off (fst s)) rdlength (proj1 Hs2)) as (m & Hm & Hm0 & _).
    rewrite Hm. cbn [bind].
    destruct (m =? 0); [simpl; status_ne|].
    eapply safe_bind; [apply (fetch_str_safe (fst s2) m (proj1 Hs2) Hm0)|].
    intros [bs c'] (_ & _ & Hadv). cbn [fst snd] in *.
    destruct (negb (all_printable bs)); [simpl; status_ne|].
    eapply safe_bind; [apply rr_set_safe|]. intros r' _. simpl. eapply st_next_adv; eassumption.
  Qed.

  Lemma parse_rr_raw_rr_safe s rdlength raw_type :
    st_ok s -> 0 <= rdlength -> safe (st_next s) (parse_rr_raw_rr vr s rdlength raw_type).
  Proof.
    intros Hs Hr. unfold parse_rr_raw_rr. destruct (v_raw_type_first vr).
    - eapply safe_bind; [apply rr_set_safe|]. intros r0 _.
      destruct (rdlength =? 0); [simpl; apply (st_next_refl (fst s, r0)); exact Hs|].
      eapply safe_bind; [apply (fetch_bytes_safe (fst s) rdlength (proj1 Hs) Hr)|].
      intros [bs c'] (_ & _ & Hadv). cbn [fst snd] in *.
      eapply safe_bind; [apply rr_set_safe|]. intros r2 _.
      simpl. eapply st_next_adv; eassumption.
    - destruct (rdlength =? 0); [simpl; apply st_next_refl; assumption|].
      eapply safe_bind; [apply (fetch_bytes_safe (fst s) rdlength (proj1 Hs) Hr)|].
      intros [bs c'] (_ & _ & Hadv). cbn [fst snd] in *.
      eapply safe_bind; [apply rr_set_safe|]. intros r1 _.
      eapply safe_bind; [apply rr_set_safe|]. intros r2 _.
      simpl. eapply st_next_adv; eassumption.
  Qed.

  Lemma opt_loop_start_safe s s1 rdlength key :
    st_ok s -> st_next s s1 ->
    safe (st_next s1) (opt_loop vr (Z.to_nat rdlength) s1 (c_len (fst s) - c_off (fst s)) rdlength key).
  Proof.
    intros Hs [Hs1 Ho].
    assert (Hl : c_len (fst s1) = c_len (fst s)).
    { destruct Hs as [_ [_ H1]], Hs1 as [_ [_ H2]]. congruence. }
    rewrite <- Hl. apply opt_loop_safe; try assumption.
    - destruct Hs as [(? & ? & ?) _]. lia.
    - lia.
  Qed.

  Lemma parse_rr_svcb_safe s rdlength : st_ok s -> safe (st_next s) (parse_rr_svcb vr fuel s rdlength).
  Proof.
    intros Hs. unfold parse_rr_svcb. with_len s Hs.
    eapply safe_bind; [apply parse_and_set_be16_safe; assumption|]. intros s1 Hs1.
    eapply safe_bind; [apply parse_and_set_dns_name_safe; apply Hs1|]. intros s2 Hs2.
    assert (H02 : st_next s s2) by (eapply st_next_trans; eassumption).
    eapply safe_mono; [apply (opt_loop_start_safe s s2 rdlength _ Hs H02)|].
    intros s3 Hs3. eapply st_next_trans; eassumption.
  Qed.

  Lemma parse_rr_https_safe s rdlength : st_ok s -> safe (st_next s) (parse_rr_https vr fuel s rdlength).
  Proof.
    intros Hs. unfold parse_rr_https. with_len s Hs.
    eapply safe_bind; [apply parse_and_set_be16_safe; assumption|]. intros s1 Hs1.
    eapply safe_bind; [apply parse_and_set_dns_name_safe; apply Hs1|]. intros s2 Hs2.
    assert (H02 : st_next s s2) by (eapply st_next_trans; eassumption).
    eapply safe_mono; [apply (opt_loop_start_safe s s2 rdlength _ Hs H02)|].
    intros s3 Hs3. eapply st_next_trans; eassumption.
  Qed.

  Lemma parse_rr_opt_safe s rdlength raw_class raw_ttl raw_rcode :
    st_ok s -> safe (fun r => st_next s (fst r)) (parse_rr_opt vr s rdlength raw_class raw_ttl raw_rcode).
  Proof.
    intros Hs. unfold parse_rr_opt. with_len s Hs.
    eapply safe_bind; [apply rr_set_safe|]. intros r1 _.
    eapply safe_bind; [apply rr_set_safe|]. intros r2 _.
    eapply safe_bind; [apply rr_set_safe|]. intros r3 _.
    assert (Hs3 : st_ok (fst s, r3)) by exact Hs.
    eapply safe_bind.
    - apply (opt_loop_start_safe (fst s, r3) (fst s, r3) rdlength _ Hs3 (st_next_refl _ Hs3)).
    - intros s4 Hs4. simpl. exact Hs4.
  Qed.

  Lemma parse_rr_data_safe s rdlength type raw_type raw_class raw_ttl raw_rcode :
    st_ok s -> 0 <= rdlength ->
    safe (fun r => st_next s (fst r)) (parse_rr_data vr fuel s rdlength type raw_type raw_class raw_ttl raw_rcode).
  Proof.
    intros Hs Hr. unfold parse_rr_data.
    assert (Hplain : forall m, safe (st_next s) m ->
              safe (fun r : st * Z => st_next s (fst r)) (do s' <- m; Ok (s', raw_rcode))).
    { intros m Hm. eapply safe_bind; [exact Hm|]. intros s' Hs'. exact Hs'. }
    repeat match goal with
           | |- safe _ (if ?b then _ else _) => destruct b
           end;
      try (apply Hplain);
      try (simpl; status_ne).
    - apply parse_rr_a_safe; assumption.
    - apply parse_and_set_dns_name_safe; assumption.
    - apply parse_and_set_dns_name_safe; assumption.
    - apply parse_rr_soa_safe; assumption.
    - apply parse_and_set_dns_name_safe; assumption.
    - apply parse_rr_hinfo_safe; assumption.
    - apply parse_rr_mx_safe; assumption.
    - apply parse_and_set_dns_abin_safe; assumption.
    - apply parse_rr_sig_safe; assumption.
    - apply parse_rr_aaaa_safe; assumption.
    - apply parse_rr_srv_safe; assumption.
    - apply parse_rr_naptr_safe; assumption.
    - apply parse_rr_opt_safe; assumption.
    - apply parse_rr_tlsa_safe; assumption.
    - apply parse_rr_svcb_safe; assumption.
    - apply parse_rr_https_safe; assumption.
    - apply parse_rr_uri_safe; assumption.
    - apply parse_rr_caa_safe; assumption.
    - apply parse_rr_raw_rr_safe; assumption.
  Qed.
End Decoders.

Lemma record_create_safe id fl op rc : safe (fun _ => True) (record_create id fl op rc).
Proof.
  unfold record_create, c_ares_dns_flags_arevalid.
  match goal with |- context [if ?b then Ok ARES_FALSE else Ok ARES_TRUE] => destruct b end; cbn [bind];
    match goal with |- safe _ (if ?b then _ else _) => destruct b end; simpl; try exact I; status_ne.
Qed.

Lemma query_add_safe d nm t c : safe (fun _ => True) (query_add d nm t c).
Proof. unfold query_add. match goal with |- safe _ (if ?b then _ else _) => destruct b end; simpl; [status_ne | exact I]. Qed.

Lemma rr_add_safe nm sect t c ttl : safe (fun _ => True) (rr_add nm sect t c ttl).
Proof. unfold rr_add. match goal with |- safe _ (if ?b then _ else _) => destruct b end; simpl; [status_ne | exact I]. Qed.

Section Message.
  Variable vr : variant.
  Variable fuel : nat.
  Variable c0 : cursor.
  Hypothesis Hfuel : (name_fuel c0 <= fuel)%nat.

  Definition cok (c : cursor) : Prop := cur_ok c /\ same_block c0 c.

  Lemma cok_adv c n c' : cok c -> advanced c n c' -> cok c'.
  Proof. intros [H1 H2] (H3 & H4 & _). split; [assumption | eapply same_block_trans; eassumption]. Qed.

  Lemma parse_header_safe c : cok c -> safe (fun r => cok (fst (fst r)) /\ 0 <= fst (fst (fst (snd r))) < 65536
                                                     /\ 0 <= snd (fst (fst (snd r))) < 65536
                                                     /\ 0 <= snd (fst (snd r)) < 65536 /\ 0 <= snd (snd r) < 65536)
                                        (parse_header c).
  Proof.
    intros Hc. unfold parse_header.
    eapply safe_bind; [apply (fetch_be16_safe c); apply Hc|]. intros [id c1] [_ H1]. cbn [fst snd] in *.
    pose proof (cok_adv _ _ _ Hc H1) as Hc1.
    eapply safe_bind; [apply (fetch_be16_safe c1); apply Hc1|]. intros [u16 c2] [_ H2]. cbn [fst snd] in *.
    pose proof (cok_adv _ _ _ Hc1 H2) as Hc2.
    eapply safe_bind; [apply (fetch_be16_safe c2); apply Hc2|]. intros [qd c3] [Hqd H3]. cbn [fst snd] in *.
    pose proof (cok_adv _ _ _ Hc2 H3) as Hc3.
    eapply safe_bind; [apply (fetch_be16_safe c3); apply Hc3|]. intros [an c4] [Han H4]. cbn [fst snd] in *.
    pose proof (cok_adv _ _ _ Hc3 H4) as Hc4.
    eapply safe_bind; [apply (fetch_be16_safe c4); apply Hc4|]. intros [ns c5] [Hns H5]. cbn [fst snd] in *.
    pose proof (cok_adv _ _ _ Hc4 H5) as Hc5.
    eapply safe_bind; [apply (fetch_be16_safe c5); apply Hc5|]. intros [ar c6] [Har H6]. cbn [fst snd] in *.
    pose proof (cok_adv _ _ _ Hc5 H6) as Hc6.
    eapply safe_bind; [apply record_create_safe|]. intros d _.
    simpl. auto.
  Qed.

  Lemma parse_qd_safe c d : cok c -> safe (fun r => cok (fst r)) (parse_qd fuel c d).
  Proof.
    intros [Hc Hsb]. unfold parse_qd.
    eapply safe_bind; [apply (dns_name_parse_safe fuel c true false Hc (name_fuel_same fuel c0 Hfuel _ Hsb))|].
    intros [nm c1] (Hc1 & Hsb1 & _). cbn [fst snd] in *.
    assert (Hk1 : cok c1) by (split; [assumption | eapply same_block_trans; eassumption]).
    eapply safe_bind; [apply (fetch_be16_safe c1 Hc1)|]. intros [qt c2] [_ H2]. cbn [fst snd] in *.
    pose proof (cok_adv _ _ _ Hk1 H2) as Hk2.
    eapply safe_bind; [apply (fetch_be16_safe c2); apply Hk2|]. intros [qc c3] [_ H3]. cbn [fst snd] in *.
    pose proof (cok_adv _ _ _ Hk2 H3) as Hk3.
    eapply safe_bind; [apply query_add_safe|]. intros d' _. simpl. assumption.
  Qed.

  Lemma parse_rr_safe c flags sect d : cok c -> safe (fun r => cok (fst r)) (parse_rr vr fuel c flags sect d).
  Proof.
    intros [Hc Hsb]. unfold parse_rr.
    eapply safe_bind; [apply (dns_name_parse_safe fuel c true false Hc (name_fuel_same fuel c0 Hfuel _ Hsb))|].
    intros [nm c1] (Hc1 & Hsb1 & _). cbn [fst snd] in *.
    assert (Hk1 : cok c1) by (split; [assumption | eapply same_block_trans; eassumption]).
    eapply safe_bind; [apply (fetch_be16_safe c1 Hc1)|]. intros [rt c2] [_ H2]. cbn [fst snd] in *.
    pose proof (cok_adv _ _ _ Hk1 H2) as Hk2.
    eapply safe_bind; [apply (fetch_be16_safe c2); apply Hk2|]. intros [qc c3] [_ H3]. cbn [fst snd] in *.
    pose proof (cok_adv _ _ _ Hk2 H3) as Hk3.
    eapply safe_bind; [apply (fetch_be32_safe c3); apply Hk3|]. intros [ttl c4] [_ H4]. cbn [fst snd] in *.
    pose proof (cok_adv _ _ _ Hk3 H4) as Hk4.
    eapply safe_bind; [apply (fetch_be16_safe c4); apply Hk4|]. intros [rdl c5] [Hrdl H5]. cbn [fst snd] in *.
    pose proof (cok_adv _ _ _ Hk4 H5) as Hk5.
    match goal with |- context [rr_add nm sect ?t] => generalize t; intros type end.
    rewrite (buf_len_ok c5 (proj1 Hk5)). cbn [bind].
    destruct (rdl >? c_len c5 - c_off c5); [simpl; status_ne|].
    eapply safe_bind; [apply rr_add_safe|]. intros r0 _.
    eapply safe_bind; [apply (parse_rr_data_safe vr fuel c0 Hfuel (c5, r0) rdl type rt qc ttl (d_raw_rcode d) Hk5); lia|].
    intros [[c6 r1] rc] [Hk6 Ho6]. cbn [fst snd] in *.
    assert (Hk6' : cok c6) by exact Hk6. clear Hk6. rename Hk6' into Hk6.
    rewrite (buf_len_ok c6 (proj1 Hk6)). cbn [bind].
    match goal with |- safe _ (if ?b then _ else _) => destruct b end; [simpl; status_ne|].
    eapply safe_bind with (Q := cok).
    - match goal with |- safe _ (if ?b then _ else _) => destruct b end; [|simpl; exact Hk6].
      rewrite consume_spec; [|apply Hk6 | apply Z.mod_pos_bound; reflexivity]. cbn [bind].
      match goal with |- context [if ?b then (ARES_EBADRESP, c6) else _] => destruct b eqn:E end; cbn [snd safe]; [exact Hk6|].
      apply Z.ltb_ge in E.
      match type of E with ?n <= _ => assert (Hm : 0 <= n) by (apply Z.mod_pos_bound; reflexivity) end.
      split; [apply cur_ok_set_off; [apply Hk6 | destruct Hk6 as [(? & ? & ?) _]; lia]
             | eapply same_block_trans; [apply Hk6 | apply set_off_same]].
    - intros c7 Hk7. simpl. exact Hk7.
  Qed.

  Lemma parse_rrs_safe flags sect : forall n c d, cok c -> safe (fun r => cok (fst r)) (parse_rrs vr fuel n c flags sect d).
  Proof.
    induction n as [|n IH]; intros c d Hc; cbn [parse_rrs]; [simpl; exact Hc|].
    eapply safe_bind; [apply parse_rr_safe; assumption|]. intros [c' d'] Hc'. apply IH. exact Hc'.
  Qed.

  Lemma parse_qds_safe : forall n c d, cok c -> safe (fun r => cok (fst r)) (parse_qds fuel n c d).
  Proof.
    induction n as [|n IH]; intros c d Hc; cbn [parse_qds]; [simpl; exact Hc|].
    eapply safe_bind; [apply parse_qd_safe; assumption|]. intros [c' d'] Hc'. apply IH. exact Hc'.
  Qed.

  Lemma parse_buf_safe c flags : cok c -> safe (fun _ => True) (parse_buf vr fuel c flags).
  Proof.
    intros Hc. unfold parse_buf. rewrite (buf_len_ok c (proj1 Hc)). cbn [bind].
    destruct (c_len c - c_off c >? 65535); [simpl; status_ne|].
    eapply safe_bind; [apply parse_header_safe; assumption|].
    intros [[c1 d] [[[qd an] ns] ar]] (Hc1 & _). cbn [fst snd] in *.
    destruct (qd =? 0); [simpl; status_ne|].
    destruct (qd >? 1); [simpl; status_ne|].
    eapply safe_bind; [apply parse_qds_safe; assumption|]. intros [c2 d2] Hc2.
    eapply safe_bind; [apply parse_rrs_safe; exact Hc2|]. intros [c3 d3] Hc3.
    eapply safe_bind; [apply parse_rrs_safe; exact Hc3|]. intros [c4 d4] Hc4.
    eapply safe_bind; [apply parse_rrs_safe; exact Hc4|]. intros [c5 d5] Hc5.
    simpl. exact I.
  Qed.
End Message.

(* ---- the C02 statement for the whole parser ---- *)
Theorem dns_parse_v_safe vr bs flags :
  Z.of_nat (length bs) < 2 ^ 64 -> safe (fun _ => True) (dns_parse_v vr bs flags).
Proof.
  intros Hlt. unfold dns_parse_v.
  destruct (Z.of_nat (length bs) =? 0); [simpl; status_ne|].
  apply (parse_buf_safe vr _ (cur_of_bytes bs)).
  - apply le_n.
  - split; [apply cur_of_bytes_ok; assumption | apply same_block_refl].
Qed.

Theorem dns_parse_safe bs flags :
  Z.of_nat (length bs) < 2 ^ 64 -> safe (fun _ => True) (dns_parse bs flags).
Proof. apply dns_parse_v_safe. Qed.
