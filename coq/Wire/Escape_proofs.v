(* Presentation-format names round-trip through escaping without changing the label octets. *)
From Coq Require Import List ZArith Lia Bool.
Import ListNotations.
From CAres.Gen Require Import Tables.
From CAres.Wire Require Import Escape.
Local Open Scope Z_scope.

(* facts about the library's choice of characters to escape, checked on the generated table:
   no digit is escaped with a single backslash (\5 would read as the start of \DDD), and the two
   characters with a meaning in the text form, "." and "\", are always escaped *)
Lemma reserved_not_digit : forallb (fun c => negb ((48 <=? c) && (c <=? 57))) tbl_is_reservedch = true.
Proof. vm_compute. reflexivity. Qed.

Lemma dot_backslash_reserved : c_is_reservedch 46 = true /\ c_is_reservedch 92 = true.
Proof. split; vm_compute; reflexivity. Qed.

Lemma zmem_in x l : zmem x l = true -> In x l.
Proof.
  unfold zmem. intros H. apply existsb_exists in H. destruct H as (y & Hy & E).
  apply Z.eqb_eq in E. subst. assumption.
Qed.

Lemma reserved_is_not_digit b : c_is_reservedch (Z.of_N b) = true -> is_digit b = false.
Proof.
  intros H. apply zmem_in in H.
  pose proof reserved_not_digit as F. rewrite forallb_forall in F. specialize (F _ H).
  unfold is_digit. apply negb_true_iff in F. exact F.
Qed.

Lemma of_digit d : 0 <= d -> Z.of_N (digit d) = 48 + d.
Proof. intros H. unfold digit. rewrite Z2N.id by lia. reflexivity. Qed.

Lemma digit_is_digit d : 0 <= d <= 9 -> is_digit (digit d) = true /\ digit_val (digit d) = d.
Proof.
  intros H. unfold is_digit, digit_val. rewrite of_digit by lia.
  split; [apply andb_true_intro; split; apply Z.leb_le; lia | lia].
Qed.

Lemma tokens_escape_octet b rest :
  (b < 256)%N ->
  tokens (escape_octet b ++ rest) = option_map (cons (TOct b)) (tokens rest).
Proof.
  intros Hb. unfold escape_octet.
  assert (Hc : 0 <= Z.of_N b < 256) by lia.
  destruct (negb (printable b)) eqn:Ep.
  - (* \DDD *)
    set (c := Z.of_N b) in *.
    assert (H1 : 0 <= c / 100 <= 9) by (split; [apply Z.div_pos; lia | apply Z.div_le_upper_bound; lia]).
    assert (H2 : 0 <= (c / 10) mod 10 <= 9) by (pose proof (Z.mod_pos_bound (c / 10) 10 ltac:(lia)); lia).
    assert (H3 : 0 <= c mod 10 <= 9) by (pose proof (Z.mod_pos_bound c 10 ltac:(lia)); lia).
    destruct (digit_is_digit _ H1) as [D1 V1].
    destruct (digit_is_digit _ H2) as [D2 V2].
    destruct (digit_is_digit _ H3) as [D3 V3].
    cbn [app tokens]. change (Z.of_N 92) with 92. cbn [Z.eqb Pos.eqb].
    rewrite D1, D2, D3. cbn [andb]. rewrite V1, V2, V3.
    assert (Hv : c / 100 * 100 + (c / 10) mod 10 * 10 + c mod 10 = c).
    { Zify.zify. Z.div_mod_to_equations. lia. }
    rewrite Hv.
    destruct (c >? 255) eqn:E; [rewrite Z.gtb_ltb in E; apply Z.ltb_lt in E; lia|].
    unfold c. rewrite N2Z.id. reflexivity.
  - apply negb_false_iff in Ep. unfold printable in Ep. apply andb_prop in Ep. destruct Ep as [P1 P2].
    apply Z.leb_le in P1. apply Z.leb_le in P2.
    destruct (c_is_reservedch (Z.of_N b)) eqn:Er.
    + (* \X *)
      cbn [app tokens]. change (Z.of_N 92) with 92. cbn [Z.eqb Pos.eqb].
      rewrite (reserved_is_not_digit b Er). reflexivity.
    + cbn [app tokens].
      destruct dot_backslash_reserved as [Rd Rb].
      destruct (Z.of_N b =? 46) eqn:E1; [apply Z.eqb_eq in E1; rewrite E1 in Er; congruence|].
      destruct (Z.of_N b =? 92) eqn:E2; [apply Z.eqb_eq in E2; rewrite E2 in Er; congruence|].
      reflexivity.
Qed.

Definition octets_ok (l : label) : Prop := Forall (fun b => (b < 256)%N) l.

Lemma tokens_escape_label l rest :
  octets_ok l ->
  tokens (escape_label l ++ rest) = option_map (app (map TOct l)) (tokens rest).
Proof.
  induction 1 as [|b l Hb Hl IH]; simpl.
  - destruct (tokens rest); reflexivity.
  - unfold escape_label in *. rewrite <- app_assoc. rewrite tokens_escape_octet by assumption.
    rewrite IH. destruct (tokens rest); reflexivity.
Qed.

Lemma split_dots_octs l : forall cur rest, split_dots (map TOct l ++ rest) cur = split_dots rest (cur ++ l).
Proof.
  induction l as [|b l IH]; intros cur rest; simpl.
  - rewrite app_nil_r. reflexivity.
  - rewrite IH. rewrite <- app_assoc. reflexivity.
Qed.

(* tokens of a whole name: the labels separated by dots *)
Fixpoint name_tokens (ls : list label) : list tok :=
  match ls with
  | [] => []
  | [l] => map TOct l
  | l :: rest => map TOct l ++ TDot :: name_tokens rest
  end.

Lemma tokens_escape_name ls :
  Forall octets_ok ls -> tokens (escape_name ls) = Some (name_tokens ls).
Proof.
  induction 1 as [|l ls Hl Hls IH]; [reflexivity|].
  unfold escape_name in *. cbn [map join_dots name_tokens].
  destruct ls as [|l2 ls'].
  - cbn [map join_dots]. rewrite <- (app_nil_r (escape_label l)).
    rewrite tokens_escape_label by assumption. simpl. rewrite app_nil_r. reflexivity.
  - cbn [map] in *. rewrite tokens_escape_label by assumption.
    cbn [tokens]. change (Z.of_N 46 =? 46) with true. cbn iota.
    rewrite IH. reflexivity.
Qed.

Lemma split_name_tokens ls : ls <> [] -> split_dots (name_tokens ls) [] = ls.
Proof.
  induction ls as [|l ls IH]; intros Hne; [congruence|].
  destruct ls as [|l2 ls'].
  - cbn [name_tokens]. rewrite <- (app_nil_r (map TOct l)). rewrite split_dots_octs. reflexivity.
  - cbn [name_tokens] in *. rewrite split_dots_octs. cbn [split_dots app].
    rewrite IH by congruence. reflexivity.
Qed.

Lemma escape_octet_nonempty b : escape_octet b <> [].
Proof.
  unfold escape_octet. destruct (negb (printable b)); [discriminate|].
  destruct (c_is_reservedch (Z.of_N b)); discriminate.
Qed.

Lemma escape_name_nonempty ls :
  ls <> [] -> Forall (fun l => l <> []) ls -> escape_name ls <> [].
Proof.
  intros Hne Hl. destruct ls as [|l ls]; [congruence|].
  inversion Hl as [|? ? Hl1 Hl2]; subst.
  destruct l as [|b l]; [congruence|].
  unfold escape_name. cbn [map escape_label flat_map].
  pose proof (escape_octet_nonempty b) as Hb.
  destruct (escape_octet b) as [|x xs] eqn:E; [congruence|].
  destruct ls; simpl; discriminate.
Qed.

(* C04_escape_roundtrip *)
Theorem escape_roundtrip ls :
  Forall octets_ok ls -> Forall (fun l => l <> []) ls -> unescape (escape_name ls) = Some ls.
Proof.
  intros Hok Hne. destruct ls as [|l0 ls0]; [reflexivity|].
  remember (l0 :: ls0) as ls eqn:Els.
  assert (Hnn : ls <> []) by (subst; discriminate).
  clear Els l0 ls0.
  pose proof (escape_name_nonempty ls Hnn Hne) as Ht.
  assert (Hnd : is_dot (escape_name ls) = false).
  { destruct (is_dot (escape_name ls)) eqn:Hd; [|reflexivity]. exfalso.
    unfold is_dot in Hd. destruct (escape_name ls) as [|b [|b2 r]] eqn:Et; try discriminate.
    apply Z.eqb_eq in Hd.
    pose proof (tokens_escape_name ls Hok) as Htk. rewrite Et in Htk. cbn [tokens] in Htk.
    rewrite Hd in Htk. cbn in Htk. injection Htk as Htk.
    pose proof (split_name_tokens ls Hnn) as Hsp. rewrite <- Htk in Hsp. cbn in Hsp.
    subst ls. inversion Hne as [|? ? Hl1 _]. congruence. }
  unfold unescape.
  remember (escape_name ls) as txt eqn:Etxt in *.
  destruct txt as [|t0 t]; [congruence|].
  rewrite Hnd. rewrite Etxt.
  rewrite (tokens_escape_name ls Hok). rewrite (split_name_tokens ls Hnn).
  assert (Hlast : match rev ls with [] :: r => rev r | _ => ls end = ls).
  { destruct (rev ls) as [|x r] eqn:Er; [reflexivity|].
    destruct x; [|reflexivity].
    exfalso. assert (Hin : In [] ls) by (apply (proj2 (in_rev ls [])); rewrite Er; left; reflexivity).
    rewrite Forall_forall in Hne. apply (Hne [] Hin). reflexivity. }
  rewrite Hlast.
  assert (Hall : forallb (fun l => negb (Nat.eqb (length l) 0)) ls = true).
  { apply forallb_forall. intros l Hin. rewrite Forall_forall in Hne. specialize (Hne l Hin).
    destruct l; [congruence | reflexivity]. }
  rewrite Hall. reflexivity.
Qed.

(* non-vacuity: labels with a dot, a backslash, a digit after an escape, a non-printable octet *)
Example escape_roundtrip_example :
  let ls := [[97; 46; 98]; [92; 49]; [0; 255; 32]; [34; 59; 40; 41; 64; 36]]%N in
  escape_name ls = [97; 92; 46; 98; 46; 92; 92; 49; 46; 92; 48; 48; 48; 92; 50; 53; 53; 32; 46;
                    92; 34; 92; 59; 92; 40; 92; 41; 92; 64; 92; 36]%N
  /\ unescape (escape_name ls) = Some ls.
Proof. vm_compute. split; reflexivity. Qed.
