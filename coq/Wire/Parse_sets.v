(* C04_sound, RR sections: what a sequence of setters leaves in the field list of an RR. *)
From CAres.Wire Require Import Cursor Cursor_proofs Name Name_proofs Record Parse Parse_proofs Escape Escape_proofs RefDecode Bits Name_ref Parse_ref Parse_ref2.
From CAres.Gen Require Import Consts LeafFns Tables.
Local Open Scope Z_scope.

(* ---- setters on the field list ---- *)
Fixpoint sets (r : rr) (fs : list (Z * fval)) : outcome rr :=
  match fs with
  | [] => Ok r
  | (k, v) :: t => do r' <- rr_set r k v; sets r' t
  end.

(* appending options one by one *)
Fixpoint adds (r : rr) (key : Z) (l : list (Z * list N)) : outcome rr :=
  match l with
  | [] => Ok r
  | (o, v) :: t => do r' <- rr_add_opt r key o v; adds r' key t
  end.


Lemma rr_set_inv r k v r' :
  rr_set r k v = Ok r' ->
  r' = mkRR (rr_name r) (rr_type r) (rr_class r) (rr_ttl r) (assoc_set k v (rr_fields r)) /\
  exists v0, assoc_get k (rr_fields r) = Some v0.
Proof.
  unfold rr_set. destruct (negb (setter_accepts v (key_datatype k))); [discriminate|].
  destruct (negb (rr_type r =? key_to_rec_type k)); [discriminate|].
  destruct (assoc_get k (rr_fields r)) as [v0|]; [|discriminate].
  intros H. injection H as <-. split; [reflexivity | exists v0; reflexivity].
Qed.

Lemma assoc_set_app_notin {A} k (v v0 : A) pre rest :
  ~ In k (map fst pre) -> assoc_set k v (pre ++ (k, v0) :: rest) = pre ++ (k, v) :: rest.
Proof.
  induction pre as [|[k' v'] pre IH]; intros Hn; cbn [app assoc_set].
  - rewrite Z.eqb_refl. reflexivity.
  - destruct (k =? k') eqn:E.
    + apply Z.eqb_eq in E. subst k'. exfalso. apply Hn. left. reflexivity.
    + rewrite IH; [reflexivity|]. intros Hin. apply Hn. right. exact Hin.
Qed.

Lemma assoc_get_app_notin {A} k (v0 : A) pre rest :
  ~ In k (map fst pre) -> assoc_get k (pre ++ (k, v0) :: rest) = Some v0.
Proof.
  induction pre as [|[k' v'] pre IH]; intros Hn; cbn [app assoc_get].
  - rewrite Z.eqb_refl. reflexivity.
  - destruct (k =? k') eqn:E.
    + apply Z.eqb_eq in E. subst k'. exfalso. apply Hn. left. reflexivity.
    + apply IH. intros Hin. apply Hn. right. exact Hin.
Qed.

(* setting, in order, the keys of a contiguous stretch of the field list *)
Lemma sets_fields : forall fs r r' pre mid post,
  sets r fs = Ok r' -> rr_fields r = pre ++ mid ++ post -> map fst mid = map fst fs ->
  NoDup (map fst (rr_fields r)) ->
  r' = mkRR (rr_name r) (rr_type r) (rr_class r) (rr_ttl r) (pre ++ fs ++ post).
Proof.
  induction fs as [|[k v] fs IH]; intros r r' pre mid post H Hf Hk Hnd.
  - cbn in H. injection H as <-. destruct mid; [|discriminate]. destruct r; cbn in *. subst. reflexivity.
  - destruct mid as [|[k0 v0] mid]; [discriminate|]. cbn [map fst] in Hk. injection Hk as -> Hk.
    cbn [sets] in H. destruct (rr_set r k v) as [r1| |] eqn:E; cbn [bind] in H; try discriminate.
    destruct (rr_set_inv _ _ _ _ E) as (-> & _).
    assert (Hnin : ~ In k (map fst pre)).
    { rewrite Hf in Hnd. rewrite map_app in Hnd. cbn [app map fst] in Hnd.
      apply NoDup_remove_2 in Hnd. intros Hin. apply Hnd. apply in_or_app. left. exact Hin. }
    assert (Hset : assoc_set k v (rr_fields r) = (pre ++ [(k, v)]) ++ mid ++ post).
    { rewrite Hf. cbn [app]. rewrite (assoc_set_app_notin k v v0 pre (mid ++ post) Hnin).
      rewrite <- app_assoc. reflexivity. }
    rewrite (IH _ r' (pre ++ [(k, v)]) mid post H); cbn [rr_name rr_type rr_class rr_ttl rr_fields].
    + rewrite <- app_assoc. reflexivity.
    + exact Hset.
    + exact Hk.
    + rewrite Hset. rewrite Hf in Hnd. rewrite !map_app in *. cbn [map fst app] in *. rewrite <- app_assoc. exact Hnd.
Qed.

Lemma rr_add_opt_inv r key o v r' :
  rr_add_opt r key o v = Ok r' ->
  exists l0, assoc_get key (rr_fields r) = Some (FOpt l0) /\
    r' = mkRR (rr_name r) (rr_type r) (rr_class r) (rr_ttl r) (assoc_set key (FOpt (l0 ++ [(o, v)])) (rr_fields r)).
Proof.
  unfold rr_add_opt. destruct (negb (key_datatype key =? ARES_DATATYPE_OPT)); [discriminate|].
  destruct (negb (rr_type r =? key_to_rec_type key)); [discriminate|].
  destruct (assoc_get key (rr_fields r)) as [[| | | | | | | | |l0]|]; try discriminate.
  intros H. injection H as <-. exists l0. split; reflexivity.
Qed.

Lemma adds_fields : forall l r r' key pre l0 post,
  adds r key l = Ok r' -> rr_fields r = pre ++ (key, FOpt l0) :: post -> ~ In key (map fst pre) ->
  r' = mkRR (rr_name r) (rr_type r) (rr_class r) (rr_ttl r) (pre ++ (key, FOpt (l0 ++ l)) :: post).
Proof.
  induction l as [|[o v] l IH]; intros r r' key pre l0 post H Hf Hn.
  - cbn in H. injection H as <-. rewrite app_nil_r. destruct r; cbn in *. subst. reflexivity.
  - cbn [adds] in H. destruct (rr_add_opt r key o v) as [r1| |] eqn:E; cbn [bind] in H; try discriminate.
    destruct (rr_add_opt_inv _ _ _ _ _ E) as (l0' & G & ->).
    rewrite Hf, (assoc_get_app_notin key (FOpt l0) pre post Hn) in G. injection G as <-.
    rewrite (IH _ r' key pre (l0 ++ [(o, v)]) post H); cbn [rr_name rr_type rr_class rr_ttl rr_fields].
    + rewrite <- app_assoc. reflexivity.
    + rewrite Hf. apply assoc_set_app_notin. exact Hn.
    + exact Hn.
Qed.
