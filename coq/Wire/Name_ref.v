(* ares_dns_name_parse (Name.v, the model of the C code) computes exactly what the RFC reference
   walk RefDecode.ref_name computes: same acceptance, same labels (as escaped text), same end
   position.  This is the name part of C04_sound AND C04_complete. *)
From CAres.Wire Require Import Cursor Cursor_proofs Name Name_proofs Record Escape Escape_proofs RefDecode Bits.
From CAres.Gen Require Import Consts LeafFns Tables.
Local Open Scope Z_scope.

Definition bytes_ok (bs : list N) : Prop := Forall (fun x => (x < 256)%N) bs.
Definition exact (c : cursor) : Prop := c_len c = Z.of_nat (length (c_data c)).

Lemma bytes_ok_nth bs i b : bytes_ok bs -> nth_error bs i = Some b -> 0 <= Z.of_N b < 256.
Proof.
  intros H E. unfold bytes_ok in H. rewrite Forall_forall in H.
  specialize (H b (nth_error_In _ _ E)). lia.
Qed.

(* ---- the escaping of Name.v is the escaping of Escape.v ---- *)
Fixpoint nlist_eqb (a b : list N) : bool :=
  match a, b with
  | [], [] => true
  | x :: a', y :: b' => N.eqb x y && nlist_eqb a' b'
  | _, _ => false
  end.

Lemma nlist_eqb_eq a : forall b, nlist_eqb a b = true -> a = b.
Proof.
  induction a as [|x a IH]; intros [|y b] H; simpl in H; try discriminate; [reflexivity|].
  apply andb_prop in H. destruct H as [H1 H2]. apply N.eqb_eq in H1. subst. f_equal. auto.
Qed.

Definition escape_one_agrees (c : Z) : bool :=
  match Name.escape_label false true [Z.to_N c] with
  | Ok l => nlist_eqb l (Escape.escape_octet (Z.to_N c))
  | _ => false
  end.

Lemma escape_one_all : forallb escape_one_agrees octets = true.
Proof. vm_compute. reflexivity. Qed.

Lemma escape_one b : (b < 256)%N -> Name.escape_label false true [b] = Ok (Escape.escape_octet b).
Proof.
  intros H. pose proof escape_one_all as A. rewrite forallb_forall in A.
  assert (Hz : 0 <= Z.of_N b < 256) by lia.
  specialize (A (Z.of_N b) (in_octets _ Hz)). unfold escape_one_agrees in A.
  rewrite N2Z.id in A. destruct (Name.escape_label false true [b]) as [l| |]; try discriminate.
  apply nlist_eqb_eq in A. subst. reflexivity.
Qed.

Lemma escape_label_cons b t :
  Name.escape_label false true (b :: t) =
  do hd <- Name.escape_label false true [b]; do rest <- Name.escape_label false true t; Ok (hd ++ rest).
Proof.
  cbn [Name.escape_label andb bind negb].
  destruct (Name.escape_label false true t) as [rest| |]; cbn [bind]; try reflexivity.
  - destruct (negb (c_isprint (Z.of_N b))); [reflexivity|].
    destruct (c_is_reservedch (Z.of_N b)); reflexivity.
  - destruct (negb (c_isprint (Z.of_N b))); [reflexivity|].
    destruct (c_is_reservedch (Z.of_N b)); reflexivity.
  - destruct (negb (c_isprint (Z.of_N b))); [reflexivity|].
    destruct (c_is_reservedch (Z.of_N b)); reflexivity.
Qed.

Lemma escape_label_agree l : bytes_ok l -> Name.escape_label false true l = Ok (Escape.escape_label l).
Proof.
  induction 1 as [|b t Hb Ht IH]; [reflexivity|].
  rewrite escape_label_cons, (escape_one b Hb), IH. reflexivity.
Qed.

(* ---- octets ---- *)
Lemma octet_rest c k : cur_ok c -> octet (c_data c) (Z.to_nat (c_off c) + k) = match nth_error (c_rest c) k with Some b => Some (Z.of_N b) | None => None end.
Proof.
  intros (_ & _ & _ & Hr). unfold octet. rewrite Hr, nth_error_skipn. reflexivity.
Qed.

Lemma fetch_u8_ref c :
  cur_ok c -> exact c -> bytes_ok (c_data c) ->
  match octet (c_data c) (Z.to_nat (c_off c)) with
  | Some b => fetch_u8 c = Ok (b, set_off c (c_off c + 1)) /\ 0 <= b < 256 /\ c_off c < c_len c
  | None => fetch_u8 c = Err ARES_EBADRESP /\ c_off c = c_len c
  end.
Proof.
  intros Hc Hx Hb. pose proof (octet_rest c 0 Hc) as Ho. rewrite Nat.add_0_r in Ho. rewrite Ho.
  unfold fetch_u8, fetch_remaining. rewrite (buf_len_ok c Hc). cbn [bind].
  pose proof Hc as (Hoff & Hl & _ & Hr).
  destruct (nth_error (c_rest c) 0) as [b|] eqn:En.
  - assert (Hlt : c_off c < c_len c).
    { rewrite Hr, nth_error_skipn in En. assert (Z.to_nat (c_off c) + 0 < length (c_data c))%nat by (apply nth_error_Some; congruence).
      unfold exact in Hx. lia. }
    destruct (c_len c - c_off c <? 1) eqn:E; [apply Z.ltb_lt in E; lia|].
    unfold byte_rel. rewrite En. cbn [bind].
    rewrite (checked_consume_spec c 1 Hc) by lia. rewrite E.
    split; [reflexivity | split; [|assumption]].
    rewrite Hr, nth_error_skipn in En. apply (bytes_ok_nth _ _ _ Hb En).
  - assert (Heq : c_off c = c_len c).
    { rewrite Hr, nth_error_skipn in En. apply nth_error_None in En. unfold exact in Hx. lia. }
    destruct (c_len c - c_off c <? 1) eqn:E; [|apply Z.ltb_ge in E; lia].
    split; [reflexivity | assumption].
Qed.

Lemma slice_rest c n :
  cur_ok c -> slice (c_data c) (Z.to_nat (c_off c)) n = if Nat.leb n (length (c_rest c)) then Some (firstn n (c_rest c)) else None.
Proof.
  intros (Hoff & Hl & _ & Hr). unfold slice. rewrite Hr, skipn_length.
  destruct (Nat.leb (Z.to_nat (c_off c) + n) (length (c_data c))) eqn:E1;
    destruct (Nat.leb n (length (c_data c) - Z.to_nat (c_off c))) eqn:E2; try reflexivity.
  - apply Nat.leb_le in E1. apply Nat.leb_gt in E2. lia.
  - apply Nat.leb_gt in E1. apply Nat.leb_le in E2. lia.
Qed.

Lemma take_exact_spec n : forall l, take_exact n l = if Nat.leb n (length l) then Some (firstn n l) else None.
Proof.
  induction n as [|n IH]; intros l; [reflexivity|].
  destruct l as [|x t]; [reflexivity|]. cbn [take_exact length firstn]. rewrite IH.
  change (Nat.leb (S n) (S (length t))) with (Nat.leb n (length t)).
  destruct (Nat.leb n (length t)); reflexivity.
Qed.

Lemma bytes_ok_firstn n : forall l, bytes_ok l -> bytes_ok (firstn n l).
Proof.
  induction n as [|n IH]; intros l H; [constructor|].
  destruct l as [|x t]; [constructor|]. inversion H; subst. constructor; [assumption | apply IH; assumption].
Qed.

Lemma bytes_ok_skipn n : forall l, bytes_ok l -> bytes_ok (skipn n l).
Proof.
  induction n as [|n IH]; intros l H; [assumption|].
  destruct l as [|x t]; [constructor|]. inversion H; subst. apply IH. assumption.
Qed.

Lemma fetch_dnsname_ref c nb len :
  cur_ok c -> exact c -> bytes_ok (c_data c) -> 0 < len ->
  match slice (c_data c) (Z.to_nat (c_off c)) (Z.to_nat len) with
  | Some l => fetch_dnsname_into_buf c true nb len false = Ok (nb ++ Escape.escape_label l, set_off c (c_off c + len))
              /\ length l = Z.to_nat len /\ c_off c + len <= c_len c
  | None => fetch_dnsname_into_buf c true nb len false = Err ARES_EBADRESP
  end.
Proof.
  intros Hc Hx Hb Hlen. rewrite (slice_rest c _ Hc).
  pose proof Hc as (Hoff & Hl & _ & Hr).
  assert (Hrl : length (c_rest c) = Z.to_nat (c_len c - c_off c)).
  { rewrite Hr, skipn_length. unfold exact in Hx. lia. }
  unfold fetch_dnsname_into_buf, fetch_remaining. rewrite (buf_len_ok c Hc). cbn [bind].
  destruct (len =? 0) eqn:E0; [apply Z.eqb_eq in E0; lia|]. cbn [orb].
  destruct (Nat.leb (Z.to_nat len) (length (c_rest c))) eqn:El.
  - apply Nat.leb_le in El.
    destruct (c_len c - c_off c <? len) eqn:E; [apply Z.ltb_lt in E; lia|].
    unfold peek_bytes, read_bytes. rewrite take_exact_spec.
    replace (Nat.leb (Z.to_nat len) (length (c_rest c))) with true by (symmetry; apply Nat.leb_le; assumption).
    cbn [bind].
    assert (Hbo : bytes_ok (firstn (Z.to_nat len) (c_rest c))).
    { apply bytes_ok_firstn. rewrite Hr. apply bytes_ok_skipn. assumption. }
    rewrite (escape_label_agree _ Hbo). cbn [bind].
    rewrite (checked_consume_spec c len Hc) by lia. rewrite E.
    split; [reflexivity | split; [rewrite firstn_length; lia | lia]].
  - apply Nat.leb_gt in El.
    destruct (c_len c - c_off c <? len) eqn:E; [reflexivity | apply Z.ltb_ge in E; lia].
Qed.

(* ---- text accumulation ---- *)
Definition nonempty (l : list N) : Prop := l <> [].

Lemma join_dots_snoc xs y : xs <> [] -> join_dots (xs ++ [y]) = join_dots xs ++ 46%N :: y.
Proof.
  induction xs as [|x xs IH]; intros H; [congruence|].
  destruct xs as [|x2 xs'].
  - reflexivity.
  - change (join_dots ((x :: x2 :: xs') ++ [y])) with (x ++ 46%N :: join_dots ((x2 :: xs') ++ [y])).
    rewrite IH by discriminate. cbn [join_dots]. rewrite <- app_assoc. reflexivity.
Qed.

Lemma escape_label_nonempty l : nonempty l -> Escape.escape_label l <> [].
Proof.
  intros H. destruct l as [|b l]; [congruence|]. unfold Escape.escape_label. cbn [flat_map].
  pose proof (escape_octet_nonempty b) as Hb.
  destruct (escape_octet b); [congruence | discriminate].
Qed.

Lemma escape_name_nil_iff acc : Forall nonempty acc -> (escape_name acc = [] <-> acc = []).
Proof.
  intros H. split; [|intros ->; reflexivity].
  intros E. destruct acc as [|l acc]; [reflexivity|]. exfalso.
  apply (escape_name_nonempty (l :: acc)); [discriminate | exact H | exact E].
Qed.

(* what the loop does with the name buffer for one label *)
Lemma add_label_escape_name acc l :
  Forall nonempty acc -> nonempty l ->
  (if negb (Z.of_nat (length (escape_name acc)) =? 0) && true then escape_name acc ++ [46%N] else escape_name acc)
    ++ Escape.escape_label l = escape_name (acc ++ [l]).
Proof.
  intros Hacc Hl. destruct acc as [|a acc'].
  - reflexivity.
  - assert (Hne : escape_name (a :: acc') <> []).
    { intros E. apply (escape_name_nil_iff _ Hacc) in E. discriminate. }
    destruct (Z.of_nat (length (escape_name (a :: acc'))) =? 0) eqn:E0.
    + apply Z.eqb_eq in E0. destruct (escape_name (a :: acc')); [congruence | simpl in E0; lia].
    + cbn [negb andb]. unfold escape_name. rewrite map_app. cbn [map].
      rewrite join_dots_snoc by discriminate. rewrite <- app_assoc. reflexivity.
Qed.

Definition fin (st : name_st) : Z := if ns_save st =? 0 then c_off (ns_cur st) else ns_save st.

Section Sim.
  Variable bs : list N.
  Hypothesis Hbs : bytes_ok bs.

  Definition good (c : cursor) : Prop := cur_ok c /\ c_data c = bs /\ exact c.

  Lemma good_set_off c o : good c -> 0 <= o <= c_len c -> good (set_off c o).
  Proof. intros (H1 & H2 & H3) Ho. split; [apply cur_ok_set_off; assumption | split; [exact H2 | exact H3]]. Qed.

  (* the continuation after a followed pointer, related to the reference's [follow] *)
  Definition jump_rel (start : nat) (jump : cursor -> Z -> Z -> list N -> list name_ev -> outcome name_st)
             (follow : nat -> option (list label)) : Prop :=
    forall c ls so nb tr acc,
      good c -> (Z.to_nat (c_off c) < start)%nat -> so <> 0 -> 0 <= ls -> c_off c <= ls ->
      nb = escape_name acc -> Forall nonempty acc ->
      match follow (Z.to_nat (c_off c)) with
      | Some rest => exists st, jump c ls so nb tr = Ok st /\ ns_save st = so /\
                                ns_buf st = escape_name (acc ++ rest) /\ Forall nonempty rest
      | None => exists s, jump c ls so nb tr = Err s
      end.

  Lemma fwd_sim start jump follow :
    jump_rel start jump follow ->
    forall bf_c bf_r c ls so nb tr acc,
      good c -> 0 <= ls -> Z.min ls (c_off c) = Z.of_nat start ->
      nb = escape_name acc -> Forall nonempty acc ->
      (Z.to_nat (c_len c - c_off c) < bf_c)%nat -> (Z.to_nat (c_len c - c_off c) < bf_r)%nat ->
      match ref_scan follow bf_r bs start (Z.to_nat (c_off c)) with
      | Some (rest, e) =>
        exists st, name_fwd false true jump bf_c c ls so nb tr = Ok st /\
                   ns_buf st = escape_name (acc ++ rest) /\ Forall nonempty rest /\
                   (if so =? 0 then fin st = Z.of_nat e else ns_save st = so)
      | None => exists s, name_fwd false true jump bf_c c ls so nb tr = Err s
      end.
  Proof.
    intros Hjump. induction bf_c as [|bf_c IH]; intros bf_r c ls so nb tr acc Hg Hls Hmin Hnb Hacc Hbc Hbr; [lia|].
    destruct bf_r as [|bf_r]; [lia|].
    destruct Hg as (Hc & Hd & Hx).
    cbn [name_fwd ref_scan]. rewrite get_position_ok. cbn [bind].
    set (ls' := if ls >? c_off c then c_off c else ls).
    assert (Hls' : ls' = Z.of_nat start).
    { unfold ls'. destruct (ls >? c_off c) eqn:E; [apply Z.gtb_lt in E | rewrite Z.gtb_ltb in E; apply Z.ltb_ge in E]; lia. }
    pose proof (fetch_u8_ref c Hc Hx ltac:(rewrite Hd; exact Hbs)) as Hf. rewrite Hd in Hf.
    destruct (octet bs (Z.to_nat (c_off c))) as [b|] eqn:Eo.
    2:{ destruct Hf as [Hf _]. rewrite Hf. cbn [bind]. eexists. reflexivity. }
    destruct Hf as (Hf & Hb & Hlt). rewrite Hf. cbn [bind].
    set (c1 := set_off c (c_off c + 1)).
    assert (Hg1 : good c1).
    { apply good_set_off; [exact (conj Hc (conj Hd Hx)) | destruct Hc as (? & ? & ?); lia]. }
    assert (Ho1 : c_off c1 = c_off c + 1) by reflexivity.
    assert (Hl1 : c_len c1 = c_len c) by reflexivity.
    rewrite (is_pointer_octet b Hb), (is_label_octet b Hb).
    destruct (b =? 0) eqn:Eb0.
    - (* terminating zero octet *)
      apply Z.eqb_eq in Eb0. subst b.
      change (192 <=? 0) with false. change (0 <? 64) with true. cbn [negb].
      eexists. split; [reflexivity|]. cbn [ns_buf ns_save ns_cur].
      rewrite app_nil_r. split; [exact Hnb | split; [constructor|]].
      destruct (so =? 0) eqn:Es; [|reflexivity].
      unfold fin. cbn [ns_save ns_cur]. rewrite Es. rewrite Ho1. lia.
    - apply Z.eqb_neq in Eb0.
      destruct (192 <=? b) eqn:Eptr.
      + (* pointer *)
        apply Z.leb_le in Eptr.
        replace (b <? 64) with false by (symmetry; apply Z.ltb_ge; lia).
        replace (b >=? 192) with true by (symmetry; apply Z.geb_le; lia).
        pose proof (fetch_u8_ref c1 (proj1 Hg1) (proj2 (proj2 Hg1)) ltac:(rewrite (proj1 (proj2 Hg1)); exact Hbs)) as Hf2.
        rewrite (proj1 (proj2 Hg1)) in Hf2. rewrite Ho1 in Hf2.
        replace (Z.to_nat (c_off c + 1)) with (Z.to_nat (c_off c) + 1)%nat in Hf2 by (destruct Hc as (? & _); lia).
        destruct (octet bs (Z.to_nat (c_off c) + 1)) as [b2|] eqn:Eo2.
        2:{ destruct Hf2 as [Hf2 _]. rewrite Hf2. cbn [bind]. eexists. reflexivity. }
        destruct Hf2 as (Hf2 & Hb2 & Hlt2). rewrite Hf2. cbn [bind].
        rewrite (pointer_offset b b2) by lia.
        set (tgt := (b - 192) * 256 + b2).
        set (c2 := set_off c1 (c_off c + 1 + 1)).
        assert (Hg2 : good c2).
        { apply good_set_off; [exact Hg1 | rewrite Hl1; destruct Hc as (? & ? & ?); lia]. }
        rewrite Hls'.
        destruct (Nat.ltb (Z.to_nat tgt) start) eqn:Elt.
        * apply Nat.ltb_lt in Elt.
          destruct (tgt >=? Z.of_nat start) eqn:Ege; [rewrite Z.geb_leb in Ege; apply Z.leb_le in Ege; lia|].
          rewrite get_position_ok. cbn [bind].
          rewrite (set_position_spec c2 tgt (proj1 Hg2)). cbn [bind fst snd].
          assert (Htl : tgt <= c_len c2).
          { change (c_len c2) with (c_len c). assert (Z.of_nat start <= c_off c) by lia. destruct Hc as (? & ? & ?). lia. }
          destruct (tgt >? c_len c2) eqn:Eg; [rewrite Z.gtb_ltb in Eg; apply Z.ltb_lt in Eg; lia|].
          cbn [fst snd]. rewrite Z.eqb_refl. cbn [negb].
          set (so' := if so =? 0 then c_off c2 else so).
          assert (Hso' : so' <> 0).
          { unfold so'. destruct (so =? 0) eqn:Es; [change (c_off c2) with (c_off c + 1 + 1); destruct Hc as (? & _); lia | apply Z.eqb_neq in Es; exact Es]. }
          assert (Htgt0 : 0 <= tgt) by (unfold tgt; lia).
          pose proof (Hjump (set_off c2 tgt) (Z.of_nat start) so' nb (EvJump tgt :: EvOctet (c_off c) :: tr) acc) as HJ.
          cbn [c_off set_off] in HJ.
          specialize (HJ (good_set_off c2 tgt Hg2 ltac:(lia)) Elt Hso' ltac:(lia) ltac:(lia) Hnb Hacc).
          destruct (follow (Z.to_nat tgt)) as [rest|].
          -- destruct HJ as (st & Hst & Hsv & Hbuf & Hne).
             exists st. split; [exact Hst | split; [exact Hbuf | split; [exact Hne|]]].
             destruct (so =? 0) eqn:Es.
             ++ unfold fin. rewrite Hsv. unfold so'. try rewrite Es.
                change (c_off c2) with (c_off c + 1 + 1).
                destruct (c_off c + 1 + 1 =? 0) eqn:Ez; [apply Z.eqb_eq in Ez; destruct Hc as (? & _); lia|].
                destruct Hc as (? & _). lia.
             ++ rewrite Hsv. unfold so'. try rewrite Es. reflexivity.
          -- destruct HJ as (s & Hs). exists s. exact Hs.
        * apply Nat.ltb_ge in Elt.
          destruct (tgt >=? Z.of_nat start) eqn:Ege; [eexists; reflexivity|].
          rewrite Z.geb_leb in Ege. apply Z.leb_gt in Ege. assert (0 <= tgt) by (unfold tgt; lia). lia.
      + apply Z.leb_gt in Eptr.
        destruct (b <? 64) eqn:E64.
        2:{ cbn [negb]. replace (b >=? 192) with false by (symmetry; rewrite Z.geb_leb; apply Z.leb_gt; lia).
            eexists. reflexivity. }
        cbn [negb]. apply Z.ltb_lt in E64.
        (* a label of b octets *)
        pose proof (fetch_dnsname_ref c1
                      (if negb (Z.of_nat (length nb) =? 0) && true then nb ++ [46%N] else nb) b
                      (proj1 Hg1) (proj2 (proj2 Hg1)) ltac:(rewrite (proj1 (proj2 Hg1)); exact Hbs) ltac:(lia)) as Hl.
        rewrite (proj1 (proj2 Hg1)) in Hl. rewrite Ho1 in Hl.
        replace (Z.to_nat (c_off c + 1)) with (Z.to_nat (c_off c) + 1)%nat in Hl by (destruct Hc as (? & _); lia).
        destruct (slice bs (Z.to_nat (c_off c) + 1) (Z.to_nat b)) as [l|] eqn:Esl.
        2:{ rewrite Hl. cbn [bind]. eexists. reflexivity. }
        destruct Hl as (Hl & Hll & Hle). rewrite Hl. cbn [bind fst snd].
        assert (Hlne : nonempty l) by (intros ->; simpl in Hll; lia).
        set (c4 := set_off c1 (c_off c + 1 + b)).
        assert (Hg4 : good c4).
        { apply good_set_off; [exact Hg1 | rewrite Hl1; destruct Hc as (? & ? & ?); lia]. }
        specialize (IH bf_r c4 (Z.of_nat start) so
                       ((if negb (Z.of_nat (length nb) =? 0) && true then nb ++ [46%N] else nb) ++ Escape.escape_label l)
                       (EvOctet (c_off c) :: tr) (acc ++ [l]) Hg4 ltac:(lia)).
        cbn [c_off c4 set_off c_len] in IH.
        assert (Hoff_nat : Z.to_nat (c_off c + 1 + b) = (Z.to_nat (c_off c) + 1 + Z.to_nat b)%nat) by (destruct Hc as (? & _); lia).
        rewrite Hoff_nat in IH.
        specialize (IH ltac:(assert (Z.of_nat start <= c_off c) by lia; lia)
                       ltac:(subst nb; apply add_label_escape_name; assumption)
                       ltac:(apply Forall_app; split; [assumption | constructor; [assumption | constructor]])
                       ltac:(lia) ltac:(lia)).
        rewrite Hls'.
        destruct (ref_scan follow bf_r bs start (Z.to_nat (c_off c) + 1 + Z.to_nat b)) as [[rest e]|].
        * destruct IH as (st & Hst & Hbuf & Hne & Hfin).
          exists st. split; [exact Hst|]. rewrite <- app_assoc in Hbuf. split; [exact Hbuf|].
          split; [constructor; assumption | exact Hfin].
        * exact IH.
  Qed.

  Definition follow_of (jf : nat) : nat -> option (list label) :=
    fun tgt => match ref_name_fuel jf bs tgt with Some (ls, _) => Some ls | None => None end.

  Lemma seg_rel bf0 :
    (length bs < bf0)%nat ->
    forall jf_c jf_r start, (start <= jf_c)%nat -> (start <= jf_r)%nat ->
      jump_rel start (name_seg false true bf0 jf_c) (follow_of jf_r).
  Proof.
    intros Hbf0. induction jf_c as [|jf_c IH]; intros jf_r start Hsc Hsr c ls so nb tr acc Hg Hlt Hso Hls Hle Hnb Hacc; [lia|].
    destruct jf_r as [|jf_r]; [lia|].
    unfold follow_of. cbn [ref_name_fuel name_seg].
    pose proof Hg as (Hc & Hd & Hx).
    pose proof (fwd_sim (Z.to_nat (c_off c)) (name_seg false true bf0 jf_c) (follow_of jf_r)
                        (IH jf_r (Z.to_nat (c_off c)) ltac:(lia) ltac:(lia))
                        bf0 (S (length bs)) c ls so nb tr acc Hg Hls) as F.
    assert (Hoff : 0 <= c_off c <= c_len c) by (destruct Hc as (? & _); assumption).
    specialize (F ltac:(lia) Hnb Hacc).
    unfold exact in Hx. rewrite Hd in Hx.
    specialize (F ltac:(lia) ltac:(lia)).
    unfold follow_of in F.
    destruct (ref_scan (fun tgt => match ref_name_fuel jf_r bs tgt with Some (ls0, _) => Some ls0 | None => None end)
                       (S (length bs)) bs (Z.to_nat (c_off c)) (Z.to_nat (c_off c))) as [[rest e]|].
    - destruct F as (st & Hst & Hbuf & Hne & Hfin).
      exists st. split; [exact Hst|].
      destruct (so =? 0) eqn:Es; [apply Z.eqb_eq in Es; congruence|].
      split; [exact Hfin | split; assumption].
    - exact F.
  Qed.
End Sim.

Lemma cursor_ext c0 c1 : cur_ok c1 -> same_block c0 c1 -> c1 = set_off c0 (c_off c1).
Proof.
  intros (_ & _ & _ & Hr) [Hd Hl]. destruct c1 as [d l o r]. unfold set_off. simpl in *. subst. reflexivity.
Qed.

(* ares_dns_name_parse = RFC reference walk + escaping *)
Theorem name_parse_ref fuel c :
  cur_ok c -> exact c -> bytes_ok (c_data c) -> (name_fuel c <= fuel)%nat ->
  match ref_name (c_data c) (Z.to_nat (c_off c)) with
  | Some (ls, e) => dns_name_parse fuel c true false = Ok (escape_name ls, set_off c (Z.of_nat e))
                    /\ Forall nonempty ls
  | None => exists s, dns_name_parse fuel c true false = Err s
  end.
Proof.
  intros Hc Hx Hb Hf.
  assert (Hoff : 0 <= c_off c <= c_len c) by (destruct Hc as (? & _); assumption).
  unfold name_fuel in Hf. pose proof Hx as Hx'. unfold exact in Hx'.
  destruct fuel as [|f]; [lia|].
  unfold ref_name. cbn [ref_name_fuel].
  pose proof (fwd_sim (c_data c) Hb (Z.to_nat (c_off c)) (name_seg false true (S f) f) (follow_of (c_data c) (Z.to_nat (c_off c)))
                      (seg_rel (c_data c) Hb (S f) ltac:(lia) f (Z.to_nat (c_off c)) (Z.to_nat (c_off c)) ltac:(lia) ltac:(lia))
                      (S f) (S (length (c_data c))) c (c_off c) 0 [] [] []
                      (conj Hc (conj eq_refl Hx)) ltac:(lia) ltac:(lia) eq_refl (Forall_nil _) ltac:(lia) ltac:(lia)) as F.
  unfold follow_of in F.
  pose proof (name_seg_safe false true c (c_off c) (S f) ltac:(lia) (S f) c (c_off c) 0 [] []
                            Hc (same_block_refl c) ltac:(lia) ltac:(lia) I ltac:(intros e []) ltac:(lia)
                            ltac:(split; intros; lia)) as S0.
  cbn [name_seg] in S0.
  unfold dns_name_parse, dns_name_parse_tr. rewrite get_position_ok. cbn [bind name_seg].
  destruct (ref_scan (fun tgt => match ref_name_fuel (Z.to_nat (c_off c)) (c_data c) tgt with Some (ls0, _) => Some ls0 | None => None end)
                     (S (length (c_data c))) (c_data c) (Z.to_nat (c_off c)) (Z.to_nat (c_off c))) as [[ls e]|].
  - destruct F as (st & Hst & Hbuf & Hne & Hfin). rewrite Hst in *. cbn [badresp_to_badname bind].
    simpl in S0. destruct S0 as (Hcs & Hsb & Hsave & _ & _ & _).
    change (0 =? 0) with true in Hfin. cbn iota in Hfin. unfold fin in Hfin.
    split; [|exact Hne].
    destruct (ns_save st =? 0) eqn:Es; cbn [negb bind].
    + cbn [fst snd]. rewrite Hbuf. cbn [app]. f_equal. f_equal.
      rewrite <- Hfin. apply cursor_ext; assumption.
    + rewrite (set_position_spec _ _ Hcs). cbn [bind snd].
      assert (Hl : c_len (ns_cur st) = c_len c) by apply Hsb.
      destruct (ns_save st >? c_len (ns_cur st)) eqn:Eg; [rewrite Z.gtb_ltb in Eg; apply Z.ltb_lt in Eg; lia|].
      cbn [snd fst]. rewrite Hbuf. cbn [app]. f_equal. f_equal.
      rewrite Hfin. unfold set_off. destruct Hsb as [Hd Hl2]. rewrite Hd, Hl2. reflexivity.
  - destruct F as (s & Hs). rewrite Hs. cbn [badresp_to_badname].
    destruct (s =? ARES_EBADRESP); cbn [bind]; eexists; reflexivity.
Qed.
