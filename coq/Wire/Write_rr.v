(* One RR through ares_dns_write_rr: owner name, fixed part, RDLENGTH slot, RDATA, back-patch -
   what is in the buffer afterwards, and that the reference decoder reads the RR back. *)
From Coq Require Import List ZArith Lia Bool.
Import ListNotations.
From CAres.Wire Require Import Cursor Cursor_proofs Name Record Parse Escape Escape_proofs RefDecode Name_ref Write Write_name Write_host
     Write_name2 Write_pos Write_patch Write_enc Write_fields Write_query2 Write_fields2 Parse_ref3.
From CAres.Gen Require Import Consts LeafFns Tables.
Local Open Scope Z_scope.

Lemma live_is_be16 b L v : live_is b L -> live_is (wb_append_be16 b v) (L ++ be16b v).
Proof. intros H. apply (live_is_append b L (be16b v) H). Qed.

Lemma live_is_be32 b L v : live_is b L -> live_is (wb_append_be32 b v) (L ++ be32b v).
Proof. intros H. apply (live_is_append b L (be32b v) H). Qed.

(* the RDLENGTH back-patch at the end of ares_dns_write_rr; [rdl_of n] is what lands in the slot when
   n octets follow the position of the slot (size_t arithmetic, then the low 16 bits) *)
Definition rdl_of (n : nat) : Z := Z.land ((Z.of_nat n - 2) mod 2 ^ 64) 65535.

Lemma rdl_of_small n : (2 <= n)%nat -> Z.of_nat n <= 65537 -> rdl_of n = Z.of_nat (n - 2).
Proof.
  intros H1 H2. unfold rdl_of. rewrite Z.mod_small by (rewrite pow64; lia). rewrite land_u16 by lia. lia.
Qed.

Lemma rdlength_patch b2 P X pos_len :
  live_is b2 (P ++ X) -> pos_len = Z.of_nat (length P) -> (2 <= length X)%nat ->
  exists b4,
    (do b3 <- wchecked (wb_set_length b2 pos_len);
     let b3 := wb_append_be16 b3 (Z.land ((wb_len b2 - pos_len - 2) mod 2 ^ 64) 65535) in
     wchecked (wb_set_length b3 (wb_len b2))) = Ok b4 /\
    live_is b4 (P ++ be16b (rdl_of (length X)) ++ skipn 2 X).
Proof.
  intros Hb -> HX. pose proof (live_is_len _ _ Hb) as Hlen. rewrite app_length in Hlen.
  apply live_is_holds in Hb.
  destruct (holds_patch b2 P X (w_shadow b2) (be16b (rdl_of (length X))) Hb ltac:(discriminate) ltac:(cbn [length be16b]; lia))
    as (b3 & b4 & E3 & E4 & _ & H4).
  exists b4. rewrite E3. cbn [wchecked bind fst snd]. change (ARES_SUCCESS =? ARES_SUCCESS) with true. cbv iota. cbn [bind]. cbv zeta.
  replace (wb_len b2 - Z.of_nat (length P) - 2) with (Z.of_nat (length X) - 2) by lia.
  change (wb_append_be16 b3 (Z.land ((Z.of_nat (length X) - 2) mod 2 ^ 64) 65535)) with (wb_append b3 (be16b (rdl_of (length X)))).
  rewrite E4. cbn [wchecked bind fst snd]. change (ARES_SUCCESS =? ARES_SUCCESS) with true. cbv iota.
  split; [reflexivity|]. destruct H4 as (W & F & Lv & _). cbn [length be16b] in Lv. split; [exact W | split; [exact F | exact Lv]].
Qed.

(* ---- RRs whose RDATA follows a layout ---- *)
Definition owner_wf (n : list N) : Prop :=
  exists ls, n = escape_name ls /\ Forall label_ok ls /\ wire_len ls <= 256 /\ slen n < 512 /\ Forall host_label ls.

Definition head_wf (r : rr) : Prop :=
  owner_wf (rr_name r) /\ 0 <= rr_class r < 65536 /\ 0 <= rr_ttl r < 2 ^ 32.

Lemma layout_last_ok t lay : layout t = Some lay -> last_ok lay = true /\ 0 <= t < 65536 /\ t <> 41.
Proof.
  unfold layout.
  repeat match goal with
         | |- (if ?t =? ?k then _ else _) = _ -> _ =>
           let E := fresh "E" in
           destruct (t =? k) eqn:E; [apply Z.eqb_eq in E; subst t; intros H; injection H as <-; repeat split; try reflexivity; try discriminate; lia | clear E]
         end.
  discriminate.
Qed.

Definition rr_fixed (t cls ttl : Z) : list N := be16b t ++ be16b cls ++ be32b ttl.

Lemma write_rr_layout b nl r rcode b' nl1 M lay :
  live_is b M -> ol_ok M nl -> layout (rr_type r) = Some lay -> head_wf r -> fields_wf lay r ->
  write_one_rr wfixed 0 b nl r rcode 0 = Ok (b', nl1) ->
  exists RR, live_is b' (M ++ RR) /\ bytes_ok RR /\ ol_ok (M ++ RR) nl1 /\
    (Z.of_nat (length RR) <= 65535 ->
     forall post, ref_rr (M ++ RR ++ post) (length M)
                  = Some (mkRR (rr_name r) (rr_type r) (rr_class r) (rr_ttl r) (lay_vals lay r), (length M + length RR)%nat, None, true)).
Proof.
  intros Hb Hol Hlay (Hown & Hcls & Httl) Hfw H.
  destruct (layout_last_ok _ _ Hlay) as (Hlast & Htr & Hn41).
  destruct Hown as (ls & Hnm & Hls & Hwl & Hsl & Hhost).
  unfold write_one_rr in H. cbv zeta in H.
  (* owner name *)
  pose proof (name_write_enc wfixed 0 b (Some nl) true (rr_name r)) as W. cbn [wfixed wv_msg_relative] in W.
  rewrite (live_is_len b M Hb), Z.sub_0_r in W.
  destruct (name_enc wfixed (Z.of_nat (length M)) (Some nl) true (rr_name r)) as [[N nl0o]| |] eqn:En;
    [|rewrite W in H; discriminate H|rewrite W in H; discriminate H].
  destruct W as (b0 & Ew & Hl0 & Hw0 & Hf0). rewrite Ew in H. cbn [bind fst snd] in H.
  rewrite Hnm in En.
  destruct (name_enc_ok true M nl ls N nl0o Hol Hls Hwl ltac:(rewrite <- Hnm; exact Hsl) (fun _ => Hhost) En) as (ol0 & -> & Hol0 & HNb & HrefN).
  assert (Hb0 : live_is b0 (M ++ N)).
  { destruct Hb as (A1 & A2 & A3). split; [auto | split; [auto | rewrite Hl0, A3; reflexivity]]. }
  replace (if 0 >? rr_ttl r then 0 else rr_ttl r - 0) with (rr_ttl r) in H
    by (replace (0 >? rr_ttl r) with false by (symmetry; rewrite Z.gtb_ltb; apply Z.ltb_ge; lia); lia).
  rewrite (land_u16 (rr_type r) Htr), (land_u16 (rr_class r) Hcls) in H.
  set (bF := wb_append_be32 (wb_append_be16 (wb_append_be16 b0 (rr_type r)) (rr_class r)) (rr_ttl r)) in *.
  set (F := rr_fixed (rr_type r) (rr_class r) (rr_ttl r)).
  assert (HbF : live_is bF ((M ++ N) ++ F)).
  { unfold bF, F, rr_fixed. rewrite !app_assoc. apply live_is_be32. apply live_is_be16. apply live_is_be16. exact Hb0. }
  set (P := (M ++ N) ++ F) in *.
  pose proof (live_is_be16 bF P 0 HbF) as Hb1. set (b1 := wb_append_be16 bF 0) in *.
  (* RDATA *)
  set (nlp := if allow_name_comp (rr_type r) then Some ol0 else None) in *.
  destruct (write_rr_data wfixed 0 b1 r nlp rcode) as [[b2 nlp2]| |] eqn:Ed; cbn [bind fst snd] in H; [|discriminate H|discriminate H].
  rewrite (write_rr_data_layout wfixed 0 (rr_type r) lay r b1 nlp rcode eq_refl Hlay) in Ed.
  assert (HolP : forall Q, olp_ok (((M ++ N) ++ F) ++ Q) nlp).
  { intros Q. unfold nlp. destruct (allow_name_comp (rr_type r)); [|exact I]. cbn [olp_ok]. rewrite <- !app_assoc. rewrite (app_assoc M N). apply ol_ok_app. exact Hol0. }
  destruct (wfields_spec lay r b1 nlp b2 nlp2 (P ++ be16b 0) (P ++ be16b 0) Ed Hb1 eq_refl (HolP _) Hfw Hlast)
    as (D & Hb2 & HDb & _ & _ & _).
  (* the same run seen from the final octets: the slot holds the length *)
  set (C := P ++ be16b (rdl_of (length (be16b 0 ++ D)))).
  destruct (wfields_spec lay r b1 nlp b2 nlp2 (P ++ be16b 0) C Ed Hb1 ltac:(unfold C; rewrite !app_length; reflexivity) (HolP _) Hfw Hlast)
    as (D2 & Hb2' & _ & HolD & Hnone & Hdec).
  assert (D2 = D).
  { destruct Hb2 as (_ & _ & G1). destruct Hb2' as (_ & _ & G2). rewrite G1 in G2. apply app_inv_head in G2. symmetry. exact G2. }
  subst D2.
  (* RDLENGTH *)
  rewrite <- app_assoc in Hb2.
  destruct (rdlength_patch b2 P (be16b 0 ++ D) (wb_len bF) Hb2 (live_is_len _ _ HbF) ltac:(rewrite app_length; cbn [length be16b]; lia))
    as (b4 & E4 & Hb4).
  cbv zeta in E4.
  destruct (wchecked (wb_set_length b2 (wb_len bF))) as [b3| |] eqn:E3; cbn [bind] in E4, H; [|discriminate E4|discriminate E4].
  rewrite E4 in H. cbn [bind] in H. injection H as <- <-.
  replace (skipn 2 (be16b 0 ++ D)) with D in Hb4 by reflexivity.
  set (RR := N ++ F ++ be16b (rdl_of (length (be16b 0 ++ D))) ++ D).
  assert (HRR : M ++ RR = C ++ D) by (unfold RR, C, P; rewrite <- !app_assoc; reflexivity).
  exists RR. rewrite HRR. split; [unfold C; rewrite <- app_assoc; exact Hb4|].
  split; [unfold RR, F, rr_fixed; repeat apply bytes_ok_app; try apply bytes_ok_be16b; try apply bytes_ok_be32b; assumption|].
  split.
  { destruct nlp2 as [l2|] eqn:E2; [exact HolD|].
    assert (nlp = None -> False \/ True) by auto.
    unfold C, P. rewrite <- !app_assoc. rewrite (app_assoc M N). apply ol_ok_app. exact Hol0. }
  intros Hlen post.
  assert (Hrdl : rdl_of (length (be16b 0 ++ D)) = Z.of_nat (length D)).
  { rewrite rdl_of_small; rewrite app_length; cbn [length be16b]; [lia | lia|].
    unfold RR in Hlen. rewrite !app_length in Hlen. cbn [length be16b] in Hlen. lia. }
  assert (HlenD : 0 <= Z.of_nat (length D) < 65536).
  { unfold RR in Hlen. rewrite !app_length in Hlen. lia. }
  rewrite ref_rr_body.
  assert (Hbs : M ++ RR ++ post = M ++ N ++ (F ++ be16b (Z.of_nat (length D)) ++ D ++ post)).
  { unfold RR. rewrite Hrdl. rewrite <- !app_assoc. reflexivity. }
  rewrite Hbs, (HrefN _).
  set (p := (length M + length N)%nat).
  set (MN := M ++ N).
  assert (Hbs2 : M ++ N ++ F ++ be16b (Z.of_nat (length D)) ++ D ++ post
                 = MN ++ be16b (rr_type r) ++ be16b (rr_class r) ++ be32b (rr_ttl r) ++ be16b (Z.of_nat (length D)) ++ D ++ post).
  { unfold MN, F, rr_fixed. rewrite <- !app_assoc. reflexivity. }
  assert (Hp : p = length MN) by (unfold p, MN; rewrite app_length; reflexivity).
  rewrite Hbs2, Hp.
  rewrite (u16_at_ctx MN (rr_type r) _ Htr).
  replace (length MN + 2)%nat with (length (MN ++ be16b (rr_type r))) by (rewrite app_length; reflexivity).
  rewrite (app_assoc MN (be16b (rr_type r))). rewrite (u16_at_ctx _ (rr_class r) _ Hcls).
  set (MN2 := (MN ++ be16b (rr_type r)) ++ be16b (rr_class r)).
  replace (length MN + 4)%nat with (length MN2) by (unfold MN2; rewrite !app_length; cbn [length be16b]; lia).
  rewrite (app_assoc (MN ++ be16b (rr_type r))). fold MN2. rewrite (u32_at_ctx MN2 (rr_ttl r) _ Httl).
  set (MN3 := MN2 ++ be32b (rr_ttl r)).
  replace (length MN + 8)%nat with (length MN3) by (unfold MN3, MN2; rewrite !app_length; cbn [length be16b be32b]; lia).
  rewrite (app_assoc MN2). fold MN3. rewrite (u16_at_ctx MN3 (Z.of_nat (length D)) _ HlenD).
  rewrite Nat2Z.id.
  assert (HC : MN3 ++ be16b (Z.of_nat (length D)) = C).
  { unfold C, P, MN3, MN2, MN, F, rr_fixed. rewrite Hrdl. rewrite <- !app_assoc. reflexivity. }
  assert (HlC : (length MN + 10 = length C)%nat).
  { rewrite <- HC. unfold MN3, MN2. rewrite !app_length. cbn [length be16b be32b]. lia. }
  rewrite HlC. rewrite (app_assoc MN3), HC.
  replace (Nat.ltb (length (C ++ D ++ post)) (length C + length D)) with false
    by (symmetry; apply Nat.ltb_ge; rewrite !app_length; lia).
  unfold ref_body. cbv zeta. rewrite !Nat2Z.id.
  replace (rr_type r =? 41) with false by (symmetry; apply Z.eqb_neq; exact Hn41).
  rewrite Hlay. destruct (Hdec post) as (used & Rf & Hu & Hx). rewrite Rf.
  replace (Nat.ltb (length C + length D) used) with false by (symmetry; apply Nat.ltb_ge; exact Hu).
  rewrite Hx. rewrite <- Hnm. f_equal. f_equal. f_equal. f_equal.
  rewrite <- (app_length C D), <- HRR, app_length. reflexivity.
Qed.

(* ---- the common front of ares_dns_write_rr: owner name, TYPE CLASS TTL, the RDLENGTH slot ---- *)
Lemma write_rr_front b nl r rcode b' nl1 M :
  live_is b M -> ol_ok M nl -> head_wf r -> 0 <= rr_type r ->
  write_one_rr wfixed 0 b nl r rcode 0 = Ok (b', nl1) ->
  exists ls N ol0 bF,
    rr_name r = escape_name ls /\ ol_ok (M ++ N) ol0 /\ bytes_ok N /\
    (forall post, ref_name (M ++ N ++ post) (length M) = Some (ls, (length M + length N)%nat)) /\
    let P := (M ++ N) ++ rr_fixed (Z.land (rr_type r) 65535) (rr_class r) (rr_ttl r) in
    live_is bF P /\
    exists b2 nlp2,
      write_rr_data wfixed 0 (wb_append_be16 bF 0) r (if allow_name_comp (rr_type r) then Some ol0 else None) rcode = Ok (b2, nlp2) /\
      nl1 = (match nlp2 with Some l => l | None => ol0 end) /\
      forall P' X, live_is b2 (P' ++ X) -> length P' = length P -> (2 <= length X)%nat ->
                   live_is b' (P' ++ be16b (rdl_of (length X)) ++ skipn 2 X).
Proof.
  intros Hb Hol (Hown & Hcls & Httl) Htr H.
  destruct Hown as (ls & Hnm & Hls & Hwl & Hsl & Hhost).
  unfold write_one_rr in H. cbv zeta in H.
  pose proof (name_write_enc wfixed 0 b (Some nl) true (rr_name r)) as W. cbn [wfixed wv_msg_relative] in W.
  rewrite (live_is_len b M Hb), Z.sub_0_r in W.
  destruct (name_enc wfixed (Z.of_nat (length M)) (Some nl) true (rr_name r)) as [[N nl0o]| |] eqn:En;
    [|rewrite W in H; discriminate H|rewrite W in H; discriminate H].
  destruct W as (b0 & Ew & Hl0 & Hw0 & Hf0). rewrite Ew in H. cbn [bind fst snd] in H.
  rewrite Hnm in En.
  destruct (name_enc_ok true M nl ls N nl0o Hol Hls Hwl ltac:(rewrite <- Hnm; exact Hsl) (fun _ => Hhost) En) as (ol0 & -> & Hol0 & HNb & HrefN).
  assert (Hb0 : live_is b0 (M ++ N)).
  { destruct Hb as (A1 & A2 & A3). split; [auto | split; [auto | rewrite Hl0, A3; reflexivity]]. }
  replace (if 0 >? rr_ttl r then 0 else rr_ttl r - 0) with (rr_ttl r) in H
    by (replace (0 >? rr_ttl r) with false by (symmetry; rewrite Z.gtb_ltb; apply Z.ltb_ge; lia); lia).
  rewrite (land_u16 (rr_class r) Hcls) in H.
  set (bF := wb_append_be32 (wb_append_be16 (wb_append_be16 b0 (Z.land (rr_type r) 65535)) (rr_class r)) (rr_ttl r)) in *.
  assert (HbF : live_is bF ((M ++ N) ++ rr_fixed (Z.land (rr_type r) 65535) (rr_class r) (rr_ttl r))).
  { unfold bF, rr_fixed. rewrite !app_assoc. apply live_is_be32. apply live_is_be16. apply live_is_be16. exact Hb0. }
  exists ls, N, ol0, bF. split; [exact Hnm|]. split; [exact Hol0|]. split; [exact HNb|]. split; [exact HrefN|].
  cbv zeta. split; [exact HbF|].
  destruct (write_rr_data wfixed 0 (wb_append_be16 bF 0) r (if allow_name_comp (rr_type r) then Some ol0 else None) rcode)
    as [[b2 nlp2]| |] eqn:Ed; cbn [bind fst snd] in H; [|discriminate H|discriminate H].
  exists b2, nlp2. split; [reflexivity|].
  assert (Hnl1 : forall b4, Ok (b4, match nlp2 with Some l => l | None => ol0 end) = Ok (b', nl1) ->
                            b4 = b' /\ nl1 = match nlp2 with Some l => l | None => ol0 end) by (intros b4 G; injection G as <- <-; auto).
  split.
  - destruct (wchecked (wb_set_length b2 (wb_len bF))) as [b3| |]; cbn [bind] in H; [|discriminate H|discriminate H].
    match type of H with bind ?m _ = _ => destruct m as [b4| |] end; cbn [bind] in H; [|discriminate H|discriminate H].
    apply (Hnl1 b4 H).
  - intros P' X Hb2 HP' HX.
    destruct (rdlength_patch b2 P' X (wb_len bF) Hb2 ltac:(rewrite (live_is_len _ _ HbF); f_equal; exact (eq_sym HP')) HX) as (b4 & E4 & Hb4).
    cbv zeta in E4.
    destruct (wchecked (wb_set_length b2 (wb_len bF))) as [b3| |] eqn:E3; cbn [bind] in E4, H; [|discriminate E4|discriminate E4].
    rewrite E4 in H. cbn [bind] in H. destruct (Hnl1 b4 H) as (<- & _). exact Hb4.
Qed.

(* ---- OPT ---- *)
Definition opt_ttl (rcode ver fl : Z) : Z :=
  Z.lor (Z.lor (Z.shiftl (Z.land (Z.shiftr rcode 4) 255) 24) (Z.shiftl ver 16)) fl.

Definition opt_wf (r : rr) (u ver fl : Z) (l : list (Z * list N)) : Prop :=
  rr_type r = ARES_REC_TYPE_OPT /\
  get_field r ARES_RR_OPT_UDP_SIZE = Some (FU16 u) /\ 0 <= u < 65536 /\
  get_field r ARES_RR_OPT_VERSION = Some (FU8 ver) /\ 0 <= ver < 256 /\
  get_field r ARES_RR_OPT_FLAGS = Some (FU16 fl) /\ 0 <= fl < 65536 /\
  get_field r ARES_RR_OPT_OPTIONS = Some (FOpt l) /\ Forall (fun ov => tlv_wf ov /\ bytes_ok (snd ov)) l.

Lemma opt_ttl_parts rcode ver fl :
  0 <= rcode -> 0 <= ver < 256 -> 0 <= fl < 65536 ->
  let t := opt_ttl rcode ver fl in
  0 <= t < 2 ^ 32 /\ t / 16777216 = (rcode / 16) mod 256 /\ (t / 65536) mod 256 = ver /\ t mod 65536 = fl.
Proof.
  intros Hr Hv Hf. cbv zeta. unfold opt_ttl.
  set (hi := Z.land (Z.shiftr rcode 4) 255).
  assert (Hhi : hi = (rcode / 16) mod 256) by (unfold hi; rewrite land255, Z.shiftr_div_pow2 by lia; reflexivity).
  assert (Hhb : 0 <= hi < 256) by (rewrite Hhi; apply Z.mod_pos_bound; lia).
  assert (E1 : Z.lor (Z.shiftl hi 24) (Z.shiftl ver 16) = Z.shiftl (hi * 256 + ver) 16).
  { replace (Z.shiftl hi 24) with (Z.shiftl (Z.shiftl hi 8) 16) by (rewrite Z.shiftl_shiftl by lia; reflexivity).
    rewrite <- Z.shiftl_lor. rewrite (Bits.lor_shiftl_add hi ver 8) by (change (2 ^ 8) with 256; lia). reflexivity. }
  rewrite E1. rewrite (Bits.lor_shiftl_add (hi * 256 + ver) fl 16) by (change (2 ^ 16) with 65536; lia).
  change (2 ^ 16) with 65536. change (2 ^ 32) with 4294967296.
  assert (T : (hi * 256 + ver) * 65536 + fl = hi * 16777216 + (ver * 65536 + fl)) by lia.
  split; [lia|]. split; [|split].
  - rewrite Hhi in *. symmetry. apply Z.div_unique with (ver * 65536 + fl); lia.
  - replace (((hi * 256 + ver) * 65536 + fl) / 65536) with (hi * 256 + ver) by (apply Z.div_unique with fl; lia).
    rewrite Z.add_comm, Z.mod_add by lia. apply Z.mod_small. lia.
  - symmetry. apply Z.mod_unique with (hi * 256 + ver); lia.
Qed.

Lemma write_rr_opt b nl r rcode b' nl1 M u ver fl l :
  live_is b M -> ol_ok M nl -> head_wf r -> opt_wf r u ver fl l -> 0 <= rcode ->
  write_one_rr wfixed 0 b nl r rcode 0 = Ok (b', nl1) ->
  exists RR, live_is b' (M ++ RR) /\ bytes_ok RR /\ ol_ok (M ++ RR) nl1 /\
    (Z.of_nat (length RR) <= 65535 ->
     forall post, ref_rr (M ++ RR ++ post) (length M)
                  = Some (mkRR (rr_name r) 41 1 0
                               [(ARES_RR_OPT_UDP_SIZE, FU16 u); (ARES_RR_OPT_VERSION, FU8 ver);
                                (ARES_RR_OPT_FLAGS, FU16 fl); (ARES_RR_OPT_OPTIONS, FOpt l)],
                          (length M + length RR)%nat, Some ((rcode / 16) mod 256), true)).
Proof.
  intros Hb Hol Hhead (Ht & Gu & Hu & Gv & Hv & Gf & Hf & Go & Hl) Hrc H.
  destruct (write_rr_front b nl r rcode b' nl1 M Hb Hol Hhead ltac:(rewrite Ht; discriminate) H)
    as (ls & N & ol0 & bF & Hnm & Hol0 & HNb & HrefN & HbF & b2 & nlp2 & Ed & -> & Hfin).
  cbv zeta in HbF. rewrite Ht in HbF, Ed. change (Z.land ARES_REC_TYPE_OPT 65535) with 41 in HbF.
  change (allow_name_comp ARES_REC_TYPE_OPT) with false in Ed. cbv iota in Ed.
  destruct Hhead as (_ & Hcls & Httl).
  set (P0 := (M ++ N) ++ be16b 41) in *.
  set (T := opt_ttl rcode ver fl).
  destruct (opt_ttl_parts rcode ver fl Hrc Hv Hf) as (HT & HT1 & HT2 & HT3). fold T in HT, HT1, HT2, HT3.
  (* the RDATA writer goes back over CLASS, TTL and the slot *)
  assert (Hb1 : live_is (wb_append_be16 bF 0) (P0 ++ (be16b (rr_class r) ++ be32b (rr_ttl r) ++ be16b 0))).
  { unfold P0. pose proof (live_is_be16 bF _ 0 HbF) as G. unfold rr_fixed in G. rewrite <- !app_assoc in G. rewrite <- !app_assoc. exact G. }
  set (b1 := wb_append_be16 bF 0) in *.
  pose proof (live_is_len _ _ Hb1) as Hlen1. rewrite !app_length in Hlen1. cbn [length be16b be32b] in Hlen1.
  apply live_is_holds in Hb1.
  destruct (holds_shrink b1 P0 _ (w_shadow b1) Hb1) as (c1 & E1 & G1). cbn [app be16b be32b] in G1.
  pose proof (holds_be16_over c1 P0 _ _ _ u G1) as G2.
  pose proof (holds_be32_over (wb_append_be16 c1 u) _ _ _ _ _ _ T G2) as G3.
  destruct (holds_grow _ _ [_; _] (w_shadow b1) G3) as (c4 & E4 & G4).
  unfold write_rr_data in Ed. rewrite Ht in Ed. cbv zeta in Ed.
  repeat match type of Ed with
         | context [Z.eqb ?a ?b] =>
           let v := eval vm_compute in (Z.eqb a b) in
           match v with true => idtac | false => idtac end; change (Z.eqb a b) with v in Ed; cbv iota in Ed
         end.
  replace (wb_len b1 =? 0) with false in Ed by (symmetry; apply Z.eqb_neq; unfold P0 in Hlen1; rewrite !app_length in Hlen1; lia).
  replace (wb_len b1 - 2 - 4 - 2) with (Z.of_nat (length P0)) in Ed by lia.
  rewrite E1 in Ed. cbn [wchecked bind fst snd] in Ed. change (ARES_SUCCESS =? ARES_SUCCESS) with true in Ed. cbv iota in Ed. cbn [bind] in Ed.
  unfold write_rr_be16 in Ed. rewrite Gu, Gv, Gf in Ed. cbn [bind] in Ed. fold (opt_ttl rcode ver fl) in Ed. fold T in Ed.
  replace (wb_len b1) with (Z.of_nat (length ((P0 ++ be16b u) ++ be32b T) + length [0%N; 0%N])) in Ed
    by (rewrite !app_length; cbn [length be16b be32b]; lia).
  change (Z.to_N (Z.land (Z.land (Z.shiftr 0 8) 255) 255)) with 0%N in E4. change (Z.to_N (Z.land (Z.land 0 255) 255)) with 0%N in E4.
  rewrite E4 in Ed. cbn [wchecked bind fst snd] in Ed. change (ARES_SUCCESS =? ARES_SUCCESS) with true in Ed. cbv iota in Ed. cbn [bind] in Ed.
  unfold write_opts in Ed. rewrite Go in Ed. injection Ed as <- <-.
  destruct (opts_fold_live l c4) as (El & Wl & Fl). cbv zeta in El, Wl, Fl.
  destruct G4 as (W4 & F4 & L4 & _).
  set (bo := fold_left (fun b ov => wb_append (wb_append_be16 (wb_append_be16 b (fst ov)) (Z.land (slen (snd ov)) 65535)) (snd ov)) l c4) in *.
  set (P' := (P0 ++ be16b u) ++ be32b T).
  assert (Hbo : live_is bo (P' ++ (be16b 0 ++ enc_tlvs l))).
  { split; [auto | split; [auto|]]. rewrite El, L4. unfold P'. rewrite <- !app_assoc. reflexivity. }
  specialize (Hfin P' (be16b 0 ++ enc_tlvs l) Hbo ltac:(unfold P', P0, rr_fixed; rewrite !app_length; cbn [length be16b be32b]; lia)
                   ltac:(rewrite app_length; cbn [length be16b]; lia)).
  replace (skipn 2 (be16b 0 ++ enc_tlvs l)) with (enc_tlvs l) in Hfin by reflexivity.
  set (D := enc_tlvs l) in *.
  set (RR := N ++ be16b 41 ++ be16b u ++ be32b T ++ be16b (rdl_of (length (be16b 0 ++ D))) ++ D).
  assert (HRR : M ++ RR = P' ++ be16b (rdl_of (length (be16b 0 ++ D))) ++ D) by (unfold RR, P', P0; rewrite <- !app_assoc; reflexivity).
  assert (Hl1 : Forall tlv_wf l) by (eapply Forall_impl; [|exact Hl]; intros ? (? & _); assumption).
  assert (HDb : bytes_ok D).
  { unfold D. apply bytes_ok_flat. eapply Forall_impl; [|exact Hl]. intros ov (_ & Hs2). unfold enc_tlv.
    repeat apply bytes_ok_app; try apply bytes_ok_be16b; exact Hs2. }
  exists RR. rewrite HRR. split; [exact Hfin|].
  split; [unfold RR; repeat apply bytes_ok_app; try apply bytes_ok_be16b; try apply bytes_ok_be32b; assumption|].
  split; [rewrite <- HRR; unfold RR; rewrite app_assoc; apply ol_ok_app; exact Hol0|].
  intros Hlen post.
  assert (Hrdl : rdl_of (length (be16b 0 ++ D)) = Z.of_nat (length D)).
  { rewrite rdl_of_small; rewrite app_length; cbn [length be16b]; [lia | lia|].
    unfold RR in Hlen. rewrite !app_length in Hlen. cbn [length be16b] in Hlen. lia. }
  assert (HlenD : 0 <= Z.of_nat (length D) < 65536).
  { unfold RR in Hlen. rewrite !app_length in Hlen. lia. }
  rewrite ref_rr_body.
  set (MN := M ++ N).
  assert (Hbs : M ++ RR ++ post = MN ++ be16b 41 ++ be16b u ++ be32b T ++ be16b (Z.of_nat (length D)) ++ D ++ post).
  { unfold RR, MN. rewrite Hrdl. rewrite <- !app_assoc. reflexivity. }
  assert (Hbs0 : M ++ RR ++ post = M ++ N ++ (be16b 41 ++ be16b u ++ be32b T ++ be16b (Z.of_nat (length D)) ++ D ++ post)).
  { unfold RR. rewrite Hrdl. rewrite <- !app_assoc. reflexivity. }
  rewrite Hbs0, (HrefN _). rewrite <- Hbs0, Hbs.
  replace (length M + length N)%nat with (length MN) by (unfold MN; rewrite app_length; reflexivity).
  rewrite (u16_at_ctx MN 41 _ ltac:(lia)).
  replace (length MN + 2)%nat with (length (MN ++ be16b 41)) by (rewrite app_length; reflexivity).
  rewrite (app_assoc MN (be16b 41)). rewrite (u16_at_ctx _ u _ Hu).
  set (MN2 := (MN ++ be16b 41) ++ be16b u).
  replace (length MN + 4)%nat with (length MN2) by (unfold MN2; rewrite !app_length; cbn [length be16b]; lia).
  rewrite (app_assoc (MN ++ be16b 41)). fold MN2. rewrite (u32_at_ctx MN2 T _ HT).
  set (MN3 := MN2 ++ be32b T).
  replace (length MN + 8)%nat with (length MN3) by (unfold MN3, MN2; rewrite !app_length; cbn [length be16b be32b]; lia).
  rewrite (app_assoc MN2). fold MN3. rewrite (u16_at_ctx MN3 (Z.of_nat (length D)) _ HlenD).
  rewrite Nat2Z.id.
  set (C := MN3 ++ be16b (Z.of_nat (length D))).
  assert (HlC : (length MN + 10 = length C)%nat) by (unfold C, MN3, MN2; rewrite !app_length; cbn [length be16b be32b]; lia).
  rewrite HlC. rewrite (app_assoc MN3). fold C.
  replace (Nat.ltb (length (C ++ D ++ post)) (length C + length D)) with false
    by (symmetry; apply Nat.ltb_ge; rewrite !app_length; lia).
  unfold ref_body. cbv zeta. rewrite !Nat2Z.id. change (41 =? 41) with true. cbv iota.
  unfold D. rewrite (tlvs_decodes l C post _ Hl1) by (pose proof (enc_tlvs_len l); lia).
  rewrite HT1, HT2, HT3. rewrite <- Hnm. f_equal. f_equal. f_equal. f_equal.
  fold D. assert (HCe : M ++ RR = C ++ D) by (unfold RR, C, MN3, MN2, MN; rewrite Hrdl; rewrite <- !app_assoc; reflexivity).
  rewrite <- (app_length C D), <- HCe, app_length. reflexivity.
Qed.

(* ---- RAW_RR: an RR of a type the library has no decoder for ---- *)
Definition raw_wf (r : rr) (rt : Z) (dopt : option (list N)) : Prop :=
  rr_type r = ARES_REC_TYPE_RAW_RR /\
  get_field r ARES_RR_RAW_RR_TYPE = Some (FU16 rt) /\ 0 <= rt < 65536 /\ layout rt = None /\ rt <> 41 /\
  get_field r ARES_RR_RAW_RR_DATA = Some (FBin dopt) /\ bytes_ok (match dopt with Some d => d | None => [] end).

Lemma write_rr_raw b nl r rcode b' nl1 M rt dopt :
  live_is b M -> ol_ok M nl -> head_wf r -> raw_wf r rt dopt ->
  write_one_rr wfixed 0 b nl r rcode 0 = Ok (b', nl1) ->
  let d := match dopt with Some d => d | None => [] end in
  exists RR, live_is b' (M ++ RR) /\ bytes_ok RR /\ ol_ok (M ++ RR) nl1 /\
    (Z.of_nat (length RR) <= 65535 ->
     forall post, ref_rr (M ++ RR ++ post) (length M)
                  = Some (mkRR (rr_name r) ARES_REC_TYPE_RAW_RR (rr_class r) (rr_ttl r)
                               [(ARES_RR_RAW_RR_TYPE, FU16 rt); (ARES_RR_RAW_RR_DATA, FBin (Some d))],
                          (length M + length RR)%nat, None, true)).
Proof.
  intros Hb Hol Hhead (Ht & Gt & Hrt & Hlay & Hn41 & Gd & Hdb) H d.
  destruct (write_rr_front b nl r rcode b' nl1 M Hb Hol Hhead ltac:(rewrite Ht; discriminate) H)
    as (ls & N & ol0 & bF & Hnm & Hol0 & HNb & HrefN & HbF & b2 & nlp2 & Ed & -> & Hfin).
  cbv zeta in HbF. rewrite Ht in HbF, Ed. change (Z.land ARES_REC_TYPE_RAW_RR 65535) with 0 in HbF.
  change (allow_name_comp ARES_REC_TYPE_RAW_RR) with false in Ed. cbv iota in Ed.
  destruct Hhead as (_ & Hcls & Httl).
  set (P0 := M ++ N) in *.
  set (tail := be16b (rr_class r) ++ be32b (rr_ttl r) ++ be16b 0).
  assert (Hb1 : live_is (wb_append_be16 bF 0) (P0 ++ (be16b 0 ++ tail))).
  { unfold tail. pose proof (live_is_be16 bF _ 0 HbF) as G. unfold rr_fixed in G. rewrite <- !app_assoc in G. exact G. }
  set (b1 := wb_append_be16 bF 0) in *.
  pose proof (live_is_len _ _ Hb1) as Hlen1. unfold tail in Hlen1. rewrite !app_length in Hlen1. cbn [length be16b be32b] in Hlen1.
  apply live_is_holds in Hb1.
  destruct (holds_patch b1 P0 (be16b 0 ++ tail) (w_shadow b1) (be16b rt) Hb1 ltac:(discriminate) ltac:(cbn; lia))
    as (c1 & c2 & E1 & E2 & _ & G2).
  replace (skipn (length (be16b rt)) (be16b 0 ++ tail)) with tail in G2 by reflexivity.
  unfold write_rr_data in Ed. rewrite Ht in Ed. cbv zeta in Ed.
  repeat match type of Ed with
         | context [Z.eqb ?a ?b] =>
           let v := eval vm_compute in (Z.eqb a b) in
           match v with true => idtac | false => idtac end; change (Z.eqb a b) with v in Ed; cbv iota in Ed
         end.
  replace (wb_len b1 =? 0) with false in Ed by (symmetry; apply Z.eqb_neq; lia).
  replace (wb_len b1 - 2 - 4 - 2 - 2) with (Z.of_nat (length P0)) in Ed by lia.
  rewrite E1 in Ed. cbn [wchecked bind fst snd] in Ed. change (ARES_SUCCESS =? ARES_SUCCESS) with true in Ed. cbv iota in Ed. cbn [bind] in Ed.
  unfold write_rr_be16 in Ed. rewrite Gt in Ed. cbn [bind] in Ed.
  change (wb_append_be16 c1 rt) with (wb_append c1 (be16b rt)) in Ed. rewrite E2 in Ed.
  cbn [wchecked bind fst snd] in Ed. change (ARES_SUCCESS =? ARES_SUCCESS) with true in Ed. cbv iota in Ed. cbn [bind] in Ed.
  rewrite Gd in Ed. cbn [wfixed wv_raw_empty] in Ed.
  destruct G2 as (W2 & F2 & L2 & _).
  set (P' := P0 ++ be16b rt ++ be16b (rr_class r) ++ be32b (rr_ttl r)).
  assert (Hb2 : live_is b2 (P' ++ (be16b 0 ++ d)) /\ nlp2 = None).
  { unfold d. destruct dopt as [d0|]; injection Ed as <- <-; (split; [|reflexivity]).
    - pose proof (live_is_append c2 _ d0 (conj W2 (conj F2 L2))) as G. unfold P', tail in *. rewrite <- !app_assoc in *. exact G.
    - unfold P', tail in *. rewrite app_nil_r. rewrite <- !app_assoc in *. exact (conj W2 (conj F2 L2)). }
  destruct Hb2 as (Hb2 & ->).
  specialize (Hfin P' (be16b 0 ++ d) Hb2 ltac:(unfold P', P0, rr_fixed; rewrite !app_length; cbn [length be16b be32b]; lia)
                   ltac:(rewrite app_length; cbn [length be16b]; lia)).
  replace (skipn 2 (be16b 0 ++ d)) with d in Hfin by reflexivity.
  set (RR := N ++ be16b rt ++ be16b (rr_class r) ++ be32b (rr_ttl r) ++ be16b (rdl_of (length (be16b 0 ++ d))) ++ d).
  assert (HRR : M ++ RR = P' ++ be16b (rdl_of (length (be16b 0 ++ d))) ++ d) by (unfold RR, P', P0; rewrite <- !app_assoc; reflexivity).
  exists RR. rewrite HRR. split; [exact Hfin|].
  split; [unfold RR; repeat apply bytes_ok_app; try apply bytes_ok_be16b; try apply bytes_ok_be32b; assumption|].
  split; [rewrite <- HRR; unfold RR; rewrite app_assoc; apply ol_ok_app; exact Hol0|].
  intros Hlen post.
  assert (Hrdl : rdl_of (length (be16b 0 ++ d)) = Z.of_nat (length d)).
  { rewrite rdl_of_small; rewrite app_length; cbn [length be16b]; [lia | lia|].
    unfold RR in Hlen. rewrite !app_length in Hlen. cbn [length be16b] in Hlen. lia. }
  assert (HlenD : 0 <= Z.of_nat (length d) < 65536).
  { unfold RR in Hlen. rewrite !app_length in Hlen. lia. }
  rewrite ref_rr_body.
  set (MN := M ++ N).
  assert (Hbs : M ++ RR ++ post = MN ++ be16b rt ++ be16b (rr_class r) ++ be32b (rr_ttl r) ++ be16b (Z.of_nat (length d)) ++ d ++ post).
  { unfold RR, MN. rewrite Hrdl. rewrite <- !app_assoc. reflexivity. }
  assert (Hbs0 : M ++ RR ++ post = M ++ N ++ (be16b rt ++ be16b (rr_class r) ++ be32b (rr_ttl r) ++ be16b (Z.of_nat (length d)) ++ d ++ post)).
  { unfold RR. rewrite Hrdl. rewrite <- !app_assoc. reflexivity. }
  rewrite Hbs0, (HrefN _). rewrite <- Hbs0, Hbs.
  replace (length M + length N)%nat with (length MN) by (unfold MN; rewrite app_length; reflexivity).
  rewrite (u16_at_ctx MN rt _ Hrt).
  replace (length MN + 2)%nat with (length (MN ++ be16b rt)) by (rewrite app_length; reflexivity).
  rewrite (app_assoc MN (be16b rt)). rewrite (u16_at_ctx _ (rr_class r) _ Hcls).
  set (MN2 := (MN ++ be16b rt) ++ be16b (rr_class r)).
  replace (length MN + 4)%nat with (length MN2) by (unfold MN2; rewrite !app_length; cbn [length be16b]; lia).
  rewrite (app_assoc (MN ++ be16b rt)). fold MN2. rewrite (u32_at_ctx MN2 (rr_ttl r) _ Httl).
  set (MN3 := MN2 ++ be32b (rr_ttl r)).
  replace (length MN + 8)%nat with (length MN3) by (unfold MN3, MN2; rewrite !app_length; cbn [length be16b be32b]; lia).
  rewrite (app_assoc MN2). fold MN3. rewrite (u16_at_ctx MN3 (Z.of_nat (length d)) _ HlenD).
  rewrite Nat2Z.id.
  set (C := MN3 ++ be16b (Z.of_nat (length d))).
  assert (HlC : (length MN + 10 = length C)%nat) by (unfold C, MN3, MN2; rewrite !app_length; cbn [length be16b be32b]; lia).
  rewrite HlC. rewrite (app_assoc MN3). fold C.
  replace (Nat.ltb (length (C ++ d ++ post)) (length C + length d)) with false
    by (symmetry; apply Nat.ltb_ge; rewrite !app_length; lia).
  unfold ref_body. cbv zeta. rewrite !Nat2Z.id.
  replace (rt =? 41) with false by (symmetry; apply Z.eqb_neq; exact Hn41).
  rewrite Hlay, slice_app_mid. rewrite <- Hnm. f_equal. f_equal. f_equal. f_equal.
  assert (HCe : M ++ RR = C ++ d) by (unfold RR, C, MN3, MN2, MN; rewrite Hrdl; rewrite <- !app_assoc; reflexivity).
  rewrite <- (app_length C d), <- HCe, app_length. reflexivity.
Qed.
