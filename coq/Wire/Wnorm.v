(* A finer normal form than RefDecode.norm_fval: exactly what the writer cannot tell apart - a text
   field held as STR or as NAME, and an absent (NULL, length 0) versus an empty binary value. *)
From Coq Require Import List ZArith.
Import ListNotations.
From CAres.Wire Require Import Record RefDecode.
Local Open Scope Z_scope.

Definition wnorm_fval (v : fval) : fval :=
  match v with
  | FBin None => FBin (Some [])
  | FStr (Some s) => FName (Some s)
  | x => x
  end.

Definition wnorm_rr (r : rr) : rr :=
  mkRR (rr_name r) (rr_type r) (rr_class r) (rr_ttl r) (map (fun kv => (fst kv, wnorm_fval (snd kv))) (rr_fields r)).

Lemma norm_wnorm_fval v : norm_fval (wnorm_fval v) = norm_fval v.
Proof. destruct v as [| | | | |[s|]|[s|]|[b|]| |]; reflexivity. Qed.

Lemma norm_wnorm_rr r : norm_rr (wnorm_rr r) = norm_rr r.
Proof.
  unfold norm_rr, wnorm_rr. cbn [rr_name rr_type rr_class rr_ttl rr_fields]. f_equal. rewrite map_map.
  apply map_ext. intros [k v]. cbn [fst snd]. rewrite norm_wnorm_fval. reflexivity.
Qed.

Lemma wnorm_rr_norm a b : wnorm_rr a = wnorm_rr b -> norm_rr a = norm_rr b.
Proof. intros H. rewrite <- (norm_wnorm_rr a), <- (norm_wnorm_rr b), H. reflexivity. Qed.

Lemma wnorm_rrs_norm l1 l2 : map wnorm_rr l1 = map wnorm_rr l2 -> map norm_rr l1 = map norm_rr l2.
Proof.
  revert l2. induction l1 as [|a l1 IH]; intros [|b l2] H; try discriminate; [reflexivity|].
  cbn [map] in *. remember (wnorm_rr a) as wa eqn:Ea. remember (wnorm_rr b) as wb eqn:Eb. injection H as H1 H2. subst wa wb.
  rewrite (wnorm_rr_norm a b H1), (IH l2 H2). reflexivity.
Qed.

(* parsed record / reference record, at this finer level *)
Definition wnorm_parsed (r : dnsrec) : dnsrec :=
  mkRec (d_id r) (d_flags r) (d_opcode r) (d_rcode r) 0 (d_qd r)
        (map wnorm_rr (d_an r)) (map wnorm_rr (d_ns r)) (map wnorm_rr (d_ar r)).

Definition wnorm_ref (r : dnsrec) : dnsrec :=
  mkRec (d_id r) (d_flags r) (d_opcode r) (reported_rcode (d_rcode r)) 0 (d_qd r)
        (map wnorm_rr (d_an r)) (map wnorm_rr (d_ns r)) (map wnorm_rr (d_ar r)).

Lemma wnorm_agree_norm p r : wnorm_parsed p = wnorm_ref r -> norm_parsed p = norm_ref r.
Proof.
  unfold wnorm_parsed, wnorm_ref, norm_parsed, norm_ref. intros H. injection H as H1 H2 H3 H4 H5 H6 H7 H8.
  rewrite H1, H2, H3, H4, H5, (wnorm_rrs_norm _ _ H6), (wnorm_rrs_norm _ _ H7), (wnorm_rrs_norm _ _ H8). reflexivity.
Qed.

Lemma wnorm_parsed_norm p q : wnorm_parsed p = wnorm_parsed q -> norm_parsed p = norm_parsed q.
Proof.
  unfold wnorm_parsed, norm_parsed. intros H. injection H as H1 H2 H3 H4 H5 H6 H7 H8.
  rewrite H1, H2, H3, H4, H5, (wnorm_rrs_norm _ _ H6), (wnorm_rrs_norm _ _ H7), (wnorm_rrs_norm _ _ H8). reflexivity.
Qed.
