(* ares_split_dns_name's scanner (Write.split_go, the model of the C loop) tokenises a presentation
   name exactly like the RFC-level Escape.tokens / split_dots. *)
From CAres.Wire Require Import Cursor Cursor_proofs Record Escape Escape_proofs Bits Write.
From CAres.Gen Require Import Consts LeafFns Tables.
Local Open Scope Z_scope.

Lemma isdigit_octets : forallb (fun c => Bool.eqb (c_isdigit c) ((48 <=? c) && (c <=? 57))) octets = true.
Proof. vm_compute. reflexivity. Qed.

Lemma isdigit_table_range : forallb (fun x => (0 <=? x) && (x <? 256)) tbl_isdigit = true.
Proof. vm_compute. reflexivity. Qed.

Lemma c_isdigit_all (d : N) : c_isdigit (Z.of_N d) = is_digit d.
Proof.
  destruct (Z_lt_dec (Z.of_N d) 256) as [Hlt|Hge].
  - pose proof isdigit_octets as A. rewrite forallb_forall in A.
    assert (Hz : 0 <= Z.of_N d < 256) by lia.
    specialize (A _ (in_octets _ Hz)). apply eqb_prop in A. exact A.
  - unfold is_digit. replace (Z.of_N d <=? 57) with false by (symmetry; apply Z.leb_gt; lia).
    rewrite Bool.andb_false_r. apply Bool.not_true_is_false. intros H.
    apply zmem_in in H. pose proof isdigit_table_range as R. rewrite forallb_forall in R.
    specialize (R _ H). apply andb_prop in R. destruct R as [_ R]. apply Z.ltb_lt in R. lia.
Qed.

Lemma split_go_tokens_len : forall n t done cur, (length t <= n)%nat ->
  split_go false t done cur =
  match tokens t with Some ts => Ok (done ++ split_dots ts cur) | None => Err ARES_EBADNAME end.
Proof.
  induction n as [|n IH]; intros t done cur Hn.
  - destruct t; [reflexivity | simpl in Hn; lia].
  - destruct t as [|c rest]; [reflexivity|]. cbn [length] in Hn.
    cbn [split_go tokens].
    destruct (Z.of_N c =? 46).
    + rewrite (IH rest _ _ ltac:(lia)). destruct (tokens rest) as [ts|]; [|reflexivity].
      cbn [option_map split_dots]. rewrite <- app_assoc. reflexivity.
    + destruct (Z.of_N c =? 92).
      * destruct rest as [|d1 rest1]; [reflexivity|]. cbn [length] in Hn.
        rewrite (c_isdigit_all d1).
        destruct (is_digit d1).
        -- destruct rest1 as [|d2 [|d3 rest3]].
           ++ reflexivity.
           ++ rewrite (c_isdigit_all d2). destruct (is_digit d2); reflexivity.
           ++ cbn [length] in Hn. rewrite (c_isdigit_all d2), (c_isdigit_all d3).
              destruct (is_digit d2); cbn [negb andb]; [|reflexivity].
              destruct (is_digit d3); cbn [negb]; [|reflexivity].
              unfold digit_val.
              replace ((Z.of_N d1 - 48) * 10 + (Z.of_N d2 - 48)) with ((Z.of_N d1 - 48) * 10 + (Z.of_N d2 - 48)) by reflexivity.
              replace (((Z.of_N d1 - 48) * 10 + (Z.of_N d2 - 48)) * 10 + (Z.of_N d3 - 48))
                with ((Z.of_N d1 - 48) * 100 + (Z.of_N d2 - 48) * 10 + (Z.of_N d3 - 48)) by lia.
              destruct ((Z.of_N d1 - 48) * 100 + (Z.of_N d2 - 48) * 10 + (Z.of_N d3 - 48) >? 255); [reflexivity|].
              cbn [andb]. rewrite (IH rest3 _ _ ltac:(lia)).
              destruct (tokens rest3); reflexivity.
        -- cbn [andb]. rewrite (IH rest1 _ _ ltac:(lia)). destruct (tokens rest1); reflexivity.
      * cbn [andb]. rewrite (IH rest _ _ ltac:(lia)). destruct (tokens rest); reflexivity.
Qed.

Lemma split_go_tokens t done cur :
  split_go false t done cur =
  match tokens t with Some ts => Ok (done ++ split_dots ts cur) | None => Err ARES_EBADNAME end.
Proof. apply (split_go_tokens_len (length t)). lia. Qed.

(* tokenising a concatenation: a text that tokenises completely ends at a token boundary *)
Lemma tokens_app_len : forall n a b ta, (length a <= n)%nat -> tokens a = Some ta ->
  tokens (a ++ b) = option_map (app ta) (tokens b).
Proof.
  induction n as [|n IH]; intros a b ta Hn Ha.
  - destruct a; [|simpl in Hn; lia]. injection Ha as <-. cbn [app]. destruct (tokens b); reflexivity.
  - destruct a as [|c rest]; [injection Ha as <-; cbn [app]; destruct (tokens b); reflexivity|].
    cbn [length] in Hn. cbn [app tokens] in *.
    destruct (Z.of_N c =? 46).
    + destruct (tokens rest) as [tr|] eqn:Er; [|discriminate]. injection Ha as <-.
      rewrite (IH rest b tr ltac:(lia) Er). destruct (tokens b); reflexivity.
    + destruct (Z.of_N c =? 92).
      * destruct rest as [|d1 rest1]; [discriminate|]. cbn [length app] in *.
        destruct (is_digit d1).
        -- destruct rest1 as [|d2 [|d3 rest3]]; try discriminate. cbn [length app] in *.
           destruct (is_digit d2 && is_digit d3); [|discriminate].
           destruct (digit_val d1 * 100 + digit_val d2 * 10 + digit_val d3 >? 255); [discriminate|].
           destruct (tokens rest3) as [tr|] eqn:Er; [|discriminate]. injection Ha as <-.
           rewrite (IH rest3 b tr ltac:(lia) Er). destruct (tokens b); reflexivity.
        -- destruct (tokens rest1) as [tr|] eqn:Er; [|discriminate]. injection Ha as <-.
           rewrite (IH rest1 b tr ltac:(lia) Er). destruct (tokens b); reflexivity.
      * destruct (tokens rest) as [tr|] eqn:Er; [|discriminate]. injection Ha as <-.
        rewrite (IH rest b tr ltac:(lia) Er). destruct (tokens b); reflexivity.
Qed.

Lemma tokens_app a b ta : tokens a = Some ta -> tokens (a ++ b) = option_map (app ta) (tokens b).
Proof. apply (tokens_app_len (length a)). lia. Qed.

Lemma split_dots_nonempty ts : forall cur, split_dots ts cur <> [].
Proof. induction ts as [|[|b] ts IH]; intros cur; cbn [split_dots]; [discriminate | discriminate | apply IH]. Qed.

Lemma split_dots_app ta : forall tb cur,
  split_dots (ta ++ TDot :: tb) cur = removelast (split_dots ta cur) ++ last (split_dots ta cur) [] :: split_dots tb [].
Proof.
  induction ta as [|t ta IH]; intros tb cur.
  - reflexivity.
  - destruct t.
    + cbn [app split_dots]. rewrite IH.
      pose proof (split_dots_nonempty ta []) as Hne.
      destruct (split_dots ta []) as [|x xs] eqn:E; [congruence|]. reflexivity.
    + cbn [app split_dots]. apply IH.
Qed.
