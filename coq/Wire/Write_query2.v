(* C03_query_builders: what ares_create_query() returns parses back (ares_dns_parse, flags 0) to
   the record ares_dns_record_create_query() built.  The octets are computed through the writer
   model (Write_patch.v for the RDLENGTH / OPT back-patches, Write_name2.v for the name), decoded
   with the RFC reference decoder, and C04_complete + C04_sound transfer that to the parser. *)
From Coq Require Import List ZArith Lia Bool.
Import ListNotations.
From CAres.Wire Require Import Cursor Name Record Parse Escape Escape_proofs RefDecode Name_ref Write Roundtrip Write_name Write_host
     Write_name2 Write_pos Write_patch Parse_ref5 Parse_cmp3.
From CAres.Gen Require Import Consts LeafFns Tables.
Local Open Scope Z_scope.

Definition be16b (v : Z) : list N :=
  [Z.to_N (Z.land (Z.land (Z.shiftr v 8) 255) 255); Z.to_N (Z.land (Z.land v 255) 255)].
Definition be32b (v : Z) : list N :=
  [Z.to_N (Z.land (Z.land (Z.shiftr v 24) 255) 255); Z.to_N (Z.land (Z.land (Z.shiftr v 16) 255) 255);
   Z.to_N (Z.land (Z.land (Z.shiftr v 8) 255) 255); Z.to_N (Z.land (Z.land v 255) 255)].

Lemma holds_be16_any b live v : wb_wf b -> w_live b = live -> exists sh, holds (wb_append_be16 b v) (live ++ be16b v) sh.
Proof. intros Hwf Hl. eexists. apply (holds_append_any b live (w_shadow b) (be16b v) Hwf Hl eq_refl). discriminate. Qed.

Lemma holds_be16_over b live a1 a2 sh v : holds b live (a1 :: a2 :: sh) -> holds (wb_append_be16 b v) (live ++ be16b v) sh.
Proof. intros H. apply (holds_append b live (a1 :: a2 :: sh) (be16b v) H). discriminate. Qed.

Lemma holds_be32_over b live a1 a2 a3 a4 sh v :
  holds b live (a1 :: a2 :: a3 :: a4 :: sh) -> holds (wb_append_be32 b v) (live ++ be32b v) sh.
Proof. intros H. apply (holds_append b live (a1 :: a2 :: a3 :: a4 :: sh) (be32b v) H). discriminate. Qed.

Lemma holds_append_some b live sh y : holds b live sh -> y <> [] -> exists sh', holds (wb_append b y) (live ++ y) sh'.
Proof. intros H Hy. eexists. apply (holds_append b live sh y H Hy). Qed.

(* the root name: one zero octet, nothing registered *)
Lemma name_write_root base b nl : name_write wfixed base b (Some nl) true [] = Ok (wb_append_byte b 0, Some nl).
Proof. reflexivity. Qed.

(* the OPT RR of the query builders *)
Definition opt_rr (udp : Z) : rr :=
  mkRR [] ARES_REC_TYPE_OPT ARES_CLASS_IN 0
       [(ARES_RR_OPT_UDP_SIZE, FU16 udp); (ARES_RR_OPT_VERSION, FU8 0); (ARES_RR_OPT_FLAGS, FU16 0); (ARES_RR_OPT_OPTIONS, FOpt [])].

Definition opt_bytes (udp : Z) : list N := [0%N] ++ be16b 41 ++ be16b udp ++ be32b 0 ++ be16b 0.

Ltac eqbs :=
  repeat match goal with
         | |- context [Z.eqb ?a ?b] =>
           let v := eval vm_compute in (Z.eqb a b) in
           match v with true => idtac | false => idtac end; change (Z.eqb a b) with v; cbv iota
         end.

Lemma write_opt_rr base b live sh nl udp :
  holds b live sh ->
  exists b' sh', write_one_rr wfixed base b nl (opt_rr udp) 0 0 = Ok (b', nl) /\ holds b' (live ++ opt_bytes udp) sh'.
Proof.
  intros H. unfold write_one_rr. cbn [rr_type rr_name rr_class rr_ttl opt_rr]. rewrite name_write_root. cbn [bind fst snd].
  cbv zeta. change (allow_name_comp ARES_REC_TYPE_OPT) with false. cbv iota.
  change (Z.land ARES_REC_TYPE_OPT 65535) with 41. change (Z.land ARES_CLASS_IN 65535) with 1.
  change (if 0 >? 0 then 0 else 0 - 0) with 0.
  (* the fixed part *)
  destruct (holds_append_some b live sh [Z.to_N (Z.land 0 255)] H ltac:(discriminate)) as (s1 & H1).
  change (wb_append b [Z.to_N (Z.land 0 255)]) with (wb_append_byte b 0) in H1.
  set (b1 := wb_append_byte b 0) in *.
  destruct (holds_append_some b1 _ s1 (be16b 41) H1 ltac:(discriminate)) as (s2 & H2).
  change (wb_append b1 (be16b 41)) with (wb_append_be16 b1 41) in H2. set (b2 := wb_append_be16 b1 41) in *.
  destruct (holds_append_some b2 _ s2 (be16b 1) H2 ltac:(discriminate)) as (s3 & H3).
  change (wb_append b2 (be16b 1)) with (wb_append_be16 b2 1) in H3. set (b3 := wb_append_be16 b2 1) in *.
  destruct (holds_append_some b3 _ s3 (be32b 0) H3 ltac:(discriminate)) as (s4 & H4).
  change (wb_append b3 (be32b 0)) with (wb_append_be32 b3 0) in H4. set (b4 := wb_append_be32 b3 0) in *.
  destruct (holds_append_some b4 _ s4 (be16b 0) H4 ltac:(discriminate)) as (s5 & H5).
  change (wb_append b4 (be16b 0)) with (wb_append_be16 b4 0) in H5. set (b5 := wb_append_be16 b4 0) in *.
  (* RDATA of OPT: back over CLASS, TTL and the RDLENGTH placeholder *)
  set (pre := (live ++ [Z.to_N (Z.land 0 255)]) ++ be16b 41) in *.
  assert (H5' : holds b5 (pre ++ (be16b 1 ++ be32b 0 ++ be16b 0)) s5).
  { clear -H5. unfold pre in *. rewrite <- !app_assoc in *. exact H5. }
  pose proof (holds_len _ _ _ H5') as Hlen5. pose proof (holds_len _ _ _ H4) as Hlen4.
  destruct (holds_shrink b5 pre _ s5 H5') as (c1 & E1 & G1).
  cbn [app be16b be32b] in G1.
  pose proof (holds_be16_over c1 pre _ _ _ udp G1) as G2.
  pose proof (holds_be32_over (wb_append_be16 c1 udp) _ _ _ _ _ _ 0 G2) as G3.
  destruct (holds_grow _ _ [_; _] s5 G3) as (c4 & E4 & G4).
  unfold write_rr_data. cbn [rr_type opt_rr]. cbv zeta. eqbs.
  rewrite !app_length in Hlen5. cbn [length be16b be32b] in Hlen5.
  replace (wb_len b5 =? 0) with false by (symmetry; apply Z.eqb_neq; lia).
  replace (wb_len b5 - 2 - 4 - 2) with (Z.of_nat (length pre)) by lia.
  rewrite E1. cbn [wchecked bind fst snd]. change (ARES_SUCCESS =? ARES_SUCCESS) with true. cbv iota.
  unfold write_rr_be16, write_opts, get_field, opt_rr. cbn [rr_fields assoc_get]. eqbs. cbn [bind].
  change (Z.lor (Z.lor (Z.shiftl (Z.land (Z.shiftr 0 4) 255) 24) (Z.shiftl 0 16)) 0) with 0.
  replace (wb_len b5) with (Z.of_nat (length ((pre ++ be16b udp) ++ be32b 0) + length [0%N; 0%N]))
    by (rewrite Hlen5, !app_length; cbn [length be16b be32b]; lia).
  cbn [be16b] in E4.
  match type of E4 with wb_set_length _ ?l = _ => match goal with |- context [wb_set_length _ ?l'] => change l' with l end end.
  rewrite E4. cbn [wchecked bind fst snd]. change (ARES_SUCCESS =? ARES_SUCCESS) with true. cbv iota.
  cbn [fold_left bind fst snd].
  (* RDLENGTH *)
  pose proof (holds_len _ _ _ G4) as Hlen6.
  set (pre2 := (pre ++ be16b udp) ++ be32b 0) in *.
  destruct (holds_patch c4 pre2 [_; _] s5 (be16b 0) G4 ltac:(discriminate) ltac:(cbn; lia)) as (c5 & c6 & E5 & E6 & _ & G6).
  replace (wb_len b4) with (Z.of_nat (length pre2))
    by (rewrite Hlen4; unfold pre2; rewrite !app_length; cbn [length be16b be32b]; lia).
  rewrite E5. cbn [wchecked bind fst snd]. change (ARES_SUCCESS =? ARES_SUCCESS) with true. cbv iota. cbn [bind].
  replace ((wb_len c4 - Z.of_nat (length pre2) - 2) mod 2 ^ 64) with 0
    by (rewrite Hlen6, app_length; cbn [length]; replace (Z.of_nat (length pre2 + 2) - Z.of_nat (length pre2) - 2) with 0 by lia; reflexivity).
  change (Z.land 0 65535) with 0.
  change (wb_append_be16 c5 0) with (wb_append c5 (be16b 0)). rewrite E6. cbn [wchecked bind fst snd].
  change (ARES_SUCCESS =? ARES_SUCCESS) with true. cbv iota.
  exists c6, s5. split; [reflexivity|].
  cbn [skipn length be16b app] in G6. unfold pre2, pre in G6. unfold opt_bytes.
  rewrite <- !app_assoc in G6. cbn [app be16b be32b] in *. exact G6.
Qed.

(* ---- the record ares_dns_record_create_query() builds ---- *)
Definition query_record (name : list N) (cls type id flags udp : Z) : dnsrec :=
  mkRec id flags ARES_OPCODE_QUERY ARES_RCODE_NOERROR 0 [mkQ name type cls] [] []
        (if udp >? 0 then [opt_rr (Z.land udp 65535)] else []).

Lemma query_record_shape name cls type id flags udp d :
  record_create_query name cls type id flags udp = Ok d ->
  d = query_record name cls type id (Z.land flags 65535) udp /\ class_isvalid cls type true = true /\
  rec_type_isvalid type true = true /\ (udp >? 0 = true -> udp <= 65535).
Proof.
  intros H. unfold record_create_query in H.
  destruct (record_create id (Z.land flags 65535) ARES_OPCODE_QUERY ARES_RCODE_NOERROR) as [d0| |] eqn:E0; cbn [bind] in H;
    [|discriminate H|discriminate H].
  assert (Hd0 : d0 = mkRec id (Z.land flags 65535) ARES_OPCODE_QUERY ARES_RCODE_NOERROR 0 [] [] [] []).
  { unfold record_create in E0. destruct (c_ares_dns_flags_arevalid _) as [fv| |]; cbn [bind] in E0;
      [|discriminate E0|discriminate E0].
    match type of E0 with (if ?c then _ else _) = _ => destruct c end; [discriminate E0|]. injection E0 as <-. reflexivity. }
  subst d0.
  unfold query_add in H. destruct (rec_type_isvalid type true) eqn:Ev; cbn [negb orb] in H; [|discriminate H].
  destruct (class_isvalid cls type true) eqn:Ec; cbn [negb bind] in H; [|discriminate H].
  cbn [d_id d_flags d_opcode d_rcode d_raw_rcode d_qd d_an d_ns d_ar app] in H.
  unfold query_record. destruct (udp >? 0) eqn:Eu.
  - destruct (udp >? 65535) eqn:E6; [discriminate H|]. rewrite Z.gtb_ltb in E6. apply Z.ltb_ge in E6.
    change (rr_add [] ARES_SECTION_ADDITIONAL ARES_REC_TYPE_OPT ARES_CLASS_IN 0)
      with (Ok (mkRR [] ARES_REC_TYPE_OPT ARES_CLASS_IN 0
                     [(ARES_RR_OPT_UDP_SIZE, FU16 0); (ARES_RR_OPT_VERSION, FU8 0); (ARES_RR_OPT_FLAGS, FU16 0); (ARES_RR_OPT_OPTIONS, FOpt [])])) in H.
    cbn [bind] in H. unfold rr_set in H. cbn [setter_accepts rr_type rr_fields rr_name rr_class rr_ttl] in H.
    repeat (match type of H with
            | context [Z.eqb ?a ?b] =>
              let v := eval vm_compute in (Z.eqb a b) in
              match v with true => idtac | false => idtac end; change (Z.eqb a b) with v in H; cbv iota in H
            end; cbn [negb orb assoc_get assoc_set bind rr_type rr_fields rr_name rr_class rr_ttl] in H).
    injection H as <-. repeat split; try reflexivity. intros _. exact E6.
  - injection H as <-. repeat split; try reflexivity. intros G. discriminate G.
Qed.

(* ---- failures of the name writer carry a failure status ---- *)
Lemma split_go_err v : forall n t done cur s, (length t <= n)%nat -> split_go v t done cur = Err s -> s = ARES_EBADNAME.
Proof.
  induction n as [|n IH]; intros t done cur s Hn H.
  - destruct t; [discriminate H | cbn in Hn; lia].
  - destruct t as [|c rest]; [discriminate H|]. cbn [length] in Hn. cbn [split_go] in H.
    destruct (Z.of_N c =? 46); [apply (IH rest _ _ s ltac:(lia) H)|].
    destruct (Z.of_N c =? 92).
    + destruct rest as [|d1 rest1]; [injection H as <-; reflexivity|]. cbn [length] in Hn.
      destruct (c_isdigit (Z.of_N d1)).
      * destruct rest1 as [|d2 [|d3 rest3]]; [injection H as <-; reflexivity | |].
        -- destruct (negb (c_isdigit (Z.of_N d2))); injection H as <-; reflexivity.
        -- cbn [length] in Hn.
           destruct (negb (c_isdigit (Z.of_N d2))); [injection H as <-; reflexivity|].
           destruct (negb (c_isdigit (Z.of_N d3))); [injection H as <-; reflexivity|].
           cbv zeta in H.
           match type of H with (if ?c then _ else _) = _ => destruct c end; [injection H as <-; reflexivity|].
           match type of H with (if ?c then _ else _) = _ => destruct c end; [injection H as <-; reflexivity|].
           apply (IH rest3 _ _ s ltac:(lia) H).
      * match type of H with (if ?c then _ else _) = _ => destruct c end; [injection H as <-; reflexivity|].
        apply (IH rest1 _ _ s ltac:(lia) H).
    + match type of H with (if ?c then _ else _) = _ => destruct c end; [injection H as <-; reflexivity|].
      apply (IH rest _ _ s ltac:(lia) H).
Qed.

Lemma split_dns_name_err v name s : split_dns_name v name = Err s -> s = ARES_EBADNAME.
Proof.
  unfold split_dns_name. destruct (split_go v name [] []) as [ls| |] eqn:E; cbn [bind]; intros H; [ | |discriminate H].
  - cbv zeta in H. repeat match type of H with (if ?c then _ else _) = _ => destruct c end;
      first [injection H as <-; reflexivity | discriminate H].
  - injection H as <-. apply (split_go_err v _ name [] [] _ (le_n _) E).
Qed.

Lemma name_write_err wv base b nl v name s : name_write wv base b nl v name = Err s -> s <> ARES_SUCCESS.
Proof.
  unfold name_write. cbv zeta.
  destruct (wv_name_no_trunc wv && (slen name >=? 512)); [intros H; injection H as <-; discriminate|].
  match goal with |- bind ?m _ = _ -> _ => destruct m as [b1| |] eqn:E1 end; cbn [bind]; intros H; [ | |discriminate H].
  - destruct nl as [l|]; [|discriminate H].
    match type of H with (if ?c then _ else _) = _ => destruct c end; [|discriminate H].
    unfold nameoffset_create in H. destruct ((slen name =? 0) || (slen name >? 255)); [|discriminate H].
    cbn [bind] in H. injection H as <-. discriminate.
  - injection H as <-.
    match type of E1 with (if ?c then _ else _) = _ => destruct c end; [|discriminate E1].
    match type of E1 with bind ?m _ = _ => destruct m as [ls| |] eqn:E2 end; cbn [bind] in E1; [discriminate E1 | |discriminate E1].
    injection E1 as <-. rewrite (split_dns_name_err _ _ _ E2). discriminate.
Qed.

(* ---- the octets of a query ---- *)
Definition query_hdr (d : dnsrec) : list N := w_live (write_header wb_empty d).

Lemma holds_header d : holds (write_header wb_empty d) (query_hdr d) [] /\ length (query_hdr d) = 12%nat.
Proof.
  split; [|reflexivity]. split; [|split; [reflexivity | split; reflexivity]].
  unfold write_header. cbv zeta. repeat apply wb_wf_be16. reflexivity.
Qed.

Lemma query_write labels cls type id flags udp bs :
  Forall label_ok labels -> Forall host_label labels -> wire_len labels <= 256 -> slen (escape_name labels) < 512 ->
  let d := query_record (escape_name labels) cls type id flags udp in
  dns_write d = Ok bs ->
  exists more,
    bs = query_hdr d ++ more ++ be16b (Z.land type 65535) ++ be16b (Z.land cls 65535)
         ++ (if udp >? 0 then opt_bytes (Z.land udp 65535) else []) /\
    bytes_ok more /\
    (forall post, ref_name (query_hdr d ++ more ++ post) 12 = Some (labels, (12 + length more)%nat)) /\
    Z.of_nat (length bs) <= 65535.
Proof.
  intros Hls Hhost Hw Ht d H.
  destruct (holds_header d) as (Hh & Hh12). destruct Hh as (Hwf0 & Hf0 & Hl0 & Hs0).
  unfold dns_write, dns_write_v, write_buf in H. cbv zeta in H.
  change (d_qd d) with [mkQ (escape_name labels) type cls] in H. change (d_an d) with (@nil rr) in H. change (d_ns d) with (@nil rr) in H.
  cbn [write_questions write_rrs q_name q_type q_class] in H.
  change (wb_len wb_empty) with (Z.of_nat (length (@nil N))) in H.
  destruct (name_write wfixed (Z.of_nat (length (@nil N))) (write_header wb_empty d) (Some []) true (escape_name labels))
    as [[b' nl']| |] eqn:En; cbn [bind fst snd] in H.
  2:{ pose proof (name_write_err _ _ _ _ _ _ _ En) as Hne.
      replace (s =? ARES_SUCCESS) with false in H by (symmetry; apply Z.eqb_neq; exact Hne). cbn [negb] in H. discriminate H. }
  2:{ discriminate H. }
  destruct (name_write_compressed true (write_header wb_empty d) [] (query_hdr d) [] labels Hwf0 Hl0 (Forall_nil _) Hls Hw Ht
              (fun _ => Hhost) b' nl' En) as (more & ol' & -> & Hwf' & Hlive' & _ & Hmb & Href).
  cbn [app] in Hlive'. rewrite Hh12 in Href.
  destruct (holds_be16_any b' _ (Z.land type 65535) Hwf' Hlive') as (s1 & H1).
  destruct (holds_append_some _ _ s1 (be16b (Z.land cls 65535)) H1 ltac:(discriminate)) as (s2 & H2).
  change (wb_append (wb_append_be16 b' (Z.land type 65535)) (be16b (Z.land cls 65535)))
    with (wb_append_be16 (wb_append_be16 b' (Z.land type 65535)) (Z.land cls 65535)) in H2.
  set (b2 := wb_append_be16 (wb_append_be16 b' (Z.land type 65535)) (Z.land cls 65535)) in *.
  exists more. unfold d, query_record in *. clear d. cbn [d_ar d_rcode] in H.
  destruct (udp >? 0) eqn:Eu.
  - cbn [write_rrs] in H.
    destruct (write_opt_rr (Z.of_nat (length (@nil N))) b2 _ s2 ol' (Z.land udp 65535) H2) as (b3 & s3 & Ew & H3).
    change ARES_RCODE_NOERROR with 0 in H. rewrite Ew in H. cbn [bind fst snd] in H.
    change (ARES_SUCCESS =? ARES_SUCCESS) with true in H. cbn [negb wfixed wv_len_check andb] in H.
    pose proof (holds_len _ _ _ H3) as Hlen3. destruct H3 as (_ & _ & Hl3 & _).
    destruct (wb_len b3 >? 65535) eqn:E6; [discriminate H|]. injection H as <-.
    rewrite Z.gtb_ltb in E6. apply Z.ltb_ge in E6. rewrite Hl3.
    split; [rewrite <- !app_assoc; reflexivity|]. split; [exact Hmb|]. split; [exact Href|].
    rewrite <- Hlen3. exact E6.
  - cbn [write_rrs bind fst snd] in H.
    change (ARES_SUCCESS =? ARES_SUCCESS) with true in H. cbn [negb wfixed wv_len_check andb] in H.
    pose proof (holds_len _ _ _ H2) as Hlen2. destruct H2 as (_ & _ & Hl2 & _).
    destruct (wb_len b2 >? 65535) eqn:E6; [discriminate H|]. injection H as <-.
    rewrite Z.gtb_ltb in E6. apply Z.ltb_ge in E6. rewrite Hl2.
    split; [rewrite <- !app_assoc, app_nil_r; reflexivity|]. split; [exact Hmb|]. split; [exact Href|].
    rewrite <- Hlen2. exact E6.
Qed.

(* ---- reading the reference decoder's primitives inside an appended block ---- *)
Lemma octet_app_r a b i : octet (a ++ b) (length a + i) = octet b i.
Proof. unfold octet. rewrite nth_error_app2 by lia. replace (length a + i - length a)%nat with i by lia. reflexivity. Qed.

Lemma u16_at_app_r a b i : u16_at (a ++ b) (length a + i) = u16_at b i.
Proof. unfold u16_at. rewrite <- Nat.add_assoc, !octet_app_r. reflexivity. Qed.

Lemma u32_at_app_r a b i : u32_at (a ++ b) (length a + i) = u32_at b i.
Proof. unfold u32_at. rewrite <- Nat.add_assoc, !u16_at_app_r. reflexivity. Qed.

Lemma be16b_value v : 0 <= v < 65536 ->
  Z.of_N (Z.to_N (Z.land (Z.land (Z.shiftr v 8) 255) 255)) * 256 + Z.of_N (Z.to_N (Z.land (Z.land v 255) 255)) = v.
Proof.
  intros Hv. change 255 with (Z.ones 8). rewrite !Z.land_ones by lia. rewrite Z.shiftr_div_pow2 by lia.
  change (2 ^ 8) with 256. rewrite !Z.mod_mod by lia.
  rewrite !Z2N.id by (apply Z.mod_pos_bound; lia).
  rewrite (Z.mod_small (v / 256)) by (split; [apply Z.div_pos; lia | apply Z.div_lt_upper_bound; lia]).
  rewrite Z.mul_comm. symmetry. apply Z.div_mod. lia.
Qed.

Lemma u16_at_be16b v rest : 0 <= v < 65536 -> u16_at (be16b v ++ rest) 0 = Some v.
Proof. intros Hv. unfold u16_at, octet. cbn [be16b app nth_error Nat.add]. rewrite (be16b_value v Hv). reflexivity. Qed.

Lemma bytes_ok_be16b v : bytes_ok (be16b v).
Proof.
  unfold be16b. change 255 with (Z.ones 8). rewrite !Z.land_ones by lia. change (2 ^ 8) with 256.
  repeat constructor; apply N2Z.inj_lt; rewrite Z2N.id by (apply Z.mod_pos_bound; lia); apply Z.mod_pos_bound; lia.
Qed.

(* the root name *)
Lemma ref_name_root a rest : ref_name (a ++ 0%N :: rest) (length a) = Some ([], (length a + 1)%nat).
Proof.
  unfold ref_name. cbn [ref_name_fuel ref_scan].
  replace (octet (a ++ 0%N :: rest) (length a)) with (Some 0).
  - reflexivity.
  - pose proof (octet_app_r a (0%N :: rest) 0) as E. rewrite Nat.add_0_r in E. rewrite E. reflexivity.
Qed.

Lemma octet_app_l a b i : (i < length a)%nat -> octet (a ++ b) i = octet a i.
Proof. intros H. unfold octet. rewrite nth_error_app1 by exact H. reflexivity. Qed.

Lemma u16_at_app_l a b i : (i + 2 <= length a)%nat -> u16_at (a ++ b) i = u16_at a i.
Proof. intros H. unfold u16_at. rewrite !octet_app_l by lia. reflexivity. Qed.

(* the reference decoder on: 12 octets of header, one question, optionally the OPT RR of the builders *)
Definition ref_hdr_rec (idv flw : Z) (qn : list N) (qt qc : Z) (ars : list rr) : dnsrec :=
  let bit (v flag : Z) := if (flw / v) mod 2 =? 1 then flag else 0 in
  mkRec idv (bit 32768 ARES_FLAG_QR + bit 1024 ARES_FLAG_AA + bit 512 ARES_FLAG_TC + bit 256 ARES_FLAG_RD
             + bit 128 ARES_FLAG_RA + bit 32 ARES_FLAG_AD + bit 16 ARES_FLAG_CD)
        ((flw / 2048) mod 16) (flw mod 16) (flw mod 16) [mkQ qn qt qc] [] [] ars.

Section RefQuery.
  Variables (A more : list N) (labels : list (list N)) (idv flw t c : Z).
  Hypothesis HA : length A = 12%nat.
  Hypothesis U0 : u16_at A 0 = Some idv.
  Hypothesis U2 : u16_at A 2 = Some flw.
  Hypothesis U4 : u16_at A 4 = Some 1.
  Hypothesis U6 : u16_at A 6 = Some 0.
  Hypothesis U8 : u16_at A 8 = Some 0.
  Hypothesis Hname : forall post, ref_name (A ++ more ++ post) 12 = Some (labels, (12 + length more)%nat).
  Hypothesis Ht : 0 <= t < 65536.
  Hypothesis Hc : 0 <= c < 65536.

  Lemma ref_decode_plain :
    u16_at A 10 = Some 0 ->
    let bs := A ++ more ++ be16b t ++ be16b c in
    Z.of_nat (length bs) <= 65535 ->
    ref_decode bs = Some (mkRef (ref_hdr_rec idv flw (escape_name labels) t c []) (12 + length more + 4) true).
  Proof.
    intros U10 bs Hlen. unfold ref_decode.
    replace (Z.of_nat (length bs) >? 65535) with false by (symmetry; rewrite Z.gtb_ltb; apply Z.ltb_ge; exact Hlen).
    unfold bs. rewrite !(u16_at_app_l A) by (rewrite HA; lia). rewrite U0, U2, U4, U6, U8, U10.
    change (negb (1 =? 1)) with false. cbv iota. rewrite Hname.
    assert (Ut : u16_at (A ++ more ++ be16b t ++ be16b c) (12 + length more) = Some t).
    { rewrite app_assoc. replace (12 + length more)%nat with (length (A ++ more) + 0)%nat by (rewrite app_length, HA; lia).
      rewrite u16_at_app_r. apply u16_at_be16b. exact Ht. }
    assert (Uc : u16_at (A ++ more ++ be16b t ++ be16b c) (12 + length more + 2) = Some c).
    { rewrite !app_assoc. rewrite <- (app_nil_r (be16b c)).
      replace (12 + length more + 2)%nat with (length ((A ++ more) ++ be16b t) + 0)%nat by (rewrite !app_length, HA; cbn [length be16b]; lia).
      rewrite u16_at_app_r. apply u16_at_be16b. exact Hc. }
    rewrite Ut, Uc. change (Z.to_nat 0) with 0%nat. cbn [ref_rrs app]. reflexivity.
  Qed.

  Lemma ref_decode_opt u :
    u16_at A 10 = Some 1 -> 0 <= u < 65536 ->
    let bs := A ++ more ++ be16b t ++ be16b c ++ opt_bytes u in
    Z.of_nat (length bs) <= 65535 ->
    ref_decode bs = Some (mkRef (ref_hdr_rec idv flw (escape_name labels) t c
                                   [mkRR [] 41 1 0 [(ARES_RR_OPT_UDP_SIZE, FU16 u); (ARES_RR_OPT_VERSION, FU8 0);
                                                    (ARES_RR_OPT_FLAGS, FU16 0); (ARES_RR_OPT_OPTIONS, FOpt [])]])
                                (12 + length more + 4 + 11) true).
  Proof.
    intros U10 Hu bs Hlen. unfold ref_decode.
    replace (Z.of_nat (length bs) >? 65535) with false by (symmetry; rewrite Z.gtb_ltb; apply Z.ltb_ge; exact Hlen).
    unfold bs. rewrite !(u16_at_app_l A) by (rewrite HA; lia). rewrite U0, U2, U4, U6, U8, U10.
    change (negb (1 =? 1)) with false. cbv iota. rewrite Hname.
    set (q := (12 + length more + 4)%nat).
    set (pre := A ++ more ++ be16b t ++ be16b c).
    assert (Hpre : length pre = q) by (unfold pre, q; rewrite !app_length, HA; cbn [length be16b]; lia).
    assert (Hbs : A ++ more ++ be16b t ++ be16b c ++ opt_bytes u = pre ++ opt_bytes u) by (unfold pre; rewrite <- !app_assoc; reflexivity).
    assert (Ut : u16_at (pre ++ opt_bytes u) (12 + length more) = Some t).
    { unfold pre. rewrite <- !app_assoc. rewrite app_assoc.
      replace (12 + length more)%nat with (length (A ++ more) + 0)%nat by (rewrite app_length, HA; lia).
      rewrite u16_at_app_r. apply u16_at_be16b. exact Ht. }
    assert (Uc : u16_at (pre ++ opt_bytes u) (12 + length more + 2) = Some c).
    { unfold pre. rewrite <- !app_assoc. rewrite !app_assoc. rewrite <- !app_assoc. rewrite (app_assoc A), (app_assoc (A ++ more)).
      replace (12 + length more + 2)%nat with (length ((A ++ more) ++ be16b t) + 0)%nat by (rewrite !app_length, HA; cbn [length be16b]; lia).
      rewrite u16_at_app_r. apply u16_at_be16b. exact Hc. }
    rewrite Hbs, Ut, Uc. change (Z.to_nat 0) with 0%nat. change (Z.to_nat 1) with 1%nat. cbn [ref_rrs]. fold q.
    (* the OPT RR *)
    assert (Rr : ref_rr (pre ++ opt_bytes u) q =
                 Some (mkRR [] 41 1 0 [(ARES_RR_OPT_UDP_SIZE, FU16 u); (ARES_RR_OPT_VERSION, FU8 0);
                                        (ARES_RR_OPT_FLAGS, FU16 0); (ARES_RR_OPT_OPTIONS, FOpt [])], (q + 11)%nat, Some 0, true)).
    { rewrite Parse_ref3.ref_rr_body. rewrite <- Hpre at 1. unfold opt_bytes at 1. cbn [app]. rewrite ref_name_root. rewrite Hpre.
      assert (V1 : u16_at (pre ++ opt_bytes u) (q + 1) = Some 41) by (rewrite <- Hpre, u16_at_app_r; reflexivity).
      assert (V2 : u16_at (pre ++ opt_bytes u) (q + 1 + 2) = Some u).
      { replace (q + 1 + 2)%nat with (length pre + 3)%nat by lia. rewrite u16_at_app_r.
        change (opt_bytes u) with (([0%N] ++ be16b 41) ++ be16b u ++ be32b 0 ++ be16b 0).
        change 3%nat with (length ([0%N] ++ be16b 41) + 0)%nat. rewrite u16_at_app_r. apply u16_at_be16b. exact Hu. }
      assert (V3 : u32_at (pre ++ opt_bytes u) (q + 1 + 4) = Some 0).
      { replace (q + 1 + 4)%nat with (length pre + 5)%nat by lia.
        unfold u32_at. rewrite <- Nat.add_assoc, !u16_at_app_r. reflexivity. }
      assert (V4 : u16_at (pre ++ opt_bytes u) (q + 1 + 8) = Some 0).
      { replace (q + 1 + 8)%nat with (length pre + 9)%nat by lia. rewrite u16_at_app_r. reflexivity. }
      change (pre ++ 0%N :: be16b 41 ++ be16b u ++ be32b 0 ++ be16b 0) with (pre ++ opt_bytes u).
      rewrite V1, V2, V3, V4.
      replace (Nat.ltb (length (pre ++ opt_bytes u)) (q + 1 + 10 + Z.to_nat 0)) with false
        by (symmetry; apply Nat.ltb_ge; rewrite app_length, Hpre; cbn; lia).
      unfold Parse_ref3.ref_body. cbv zeta. change (41 =? 41) with true. cbv iota.
      change (Z.to_nat 0) with 0%nat. cbn [ref_tlvs]. rewrite Nat.add_0_r, Nat.leb_refl, Nat.eqb_refl.
      replace (q + 1 + 10)%nat with (q + 11)%nat by lia. reflexivity. }
    rewrite Rr. cbn [ref_rrs app andb]. reflexivity.
  Qed.
End RefQuery.

(* ---- C03_query_builders ---- *)
Lemma land_u16 v : 0 <= v < 65536 -> Z.land v 65535 = v.
Proof. intros H. change 65535 with (Z.ones 16). rewrite Z.land_ones by lia. apply Z.mod_small. exact H. Qed.

Lemma land_u16_range v : 0 <= Z.land v 65535 < 65536.
Proof. change 65535 with (Z.ones 16). rewrite Z.land_ones by lia. apply Z.mod_pos_bound. lia. Qed.

Lemma query_class_range cls type : 0 <= type < 65536 -> class_isvalid cls type true = true -> 0 <= cls < 65536.
Proof.
  intros Ht H. unfold class_isvalid in H. cbn [negb] in H.
  replace (type =? 65536) with false in H by (symmetry; apply Z.eqb_neq; lia).
  apply zmem_in in H. cbn [In] in H. repeat (destruct H as [<-|H]; [lia|]). destruct H.
Qed.

Theorem query_builders labels cls type id rd udp bs :
  Forall label_ok labels -> Forall host_label labels -> wire_len labels <= 256 -> slen (escape_name labels) < 512 ->
  0 <= type < 65536 ->
  create_query wfixed (escape_name labels) cls type id rd udp = Ok bs ->
  exists d d',
    record_create_query (escape_name labels) cls type (Z.land id 65535) (if rd =? 0 then 0 else ARES_FLAG_RD) (udp mod 2 ^ 64) = Ok d /\
    dns_parse bs 0 = Ok d' /\ norm_parsed d' = norm_parsed d.
Proof.
  intros Hls Hhost Hw Hsl Hty H. unfold create_query in H.
  destruct (record_create_query (escape_name labels) cls type (Z.land id 65535) (if rd =? 0 then 0 else ARES_FLAG_RD) (udp mod 2 ^ 64))
    as [d| |] eqn:Er; cbn [bind] in H; [|discriminate H|discriminate H].
  destruct (query_record_shape _ _ _ _ _ _ _ Er) as (-> & Hcv & _ & Hu).
  set (idv := Z.land id 65535) in *. set (uv := udp mod 2 ^ 64) in *.
  set (flv := Z.land (if rd =? 0 then 0 else ARES_FLAG_RD) 65535) in *.
  pose proof (land_u16_range id) as Hidv. fold idv in Hidv.
  pose proof (query_class_range cls type Hty Hcv) as Hcls.
  destruct (query_write labels cls type idv flv uv bs Hls Hhost Hw Hsl H) as (more & Hbs & Hmb & Href & Hlen).
  rewrite (land_u16 type Hty), (land_u16 cls Hcls) in Hbs.
  exists (query_record (escape_name labels) cls type idv flv uv).
  (* the header octets *)
  set (d := query_record (escape_name labels) cls type idv flv uv) in *.
  set (flw := if rd =? 0 then 0 else 256).
  set (arn := if uv >? 0 then 1 else 0).
  assert (HA : query_hdr d = be16b idv ++ be16b flw ++ be16b 1 ++ be16b 0 ++ be16b 0 ++ be16b arn).
  { unfold d, query_record, flv, flw, arn. destruct (rd =? 0); destruct (uv >? 0); reflexivity. }
  assert (HA12 : length (query_hdr d) = 12%nat) by (rewrite HA; reflexivity).
  assert (Hflw : 0 <= flw < 65536) by (unfold flw; destruct (rd =? 0); lia).
  assert (Harn : 0 <= arn < 65536) by (unfold arn; destruct (uv >? 0); lia).
  assert (U0 : u16_at (query_hdr d) 0 = Some idv) by (rewrite HA; apply u16_at_be16b; exact Hidv).
  assert (U2 : u16_at (query_hdr d) 2 = Some flw).
  { rewrite HA. change 2%nat with (length (be16b idv) + 0)%nat. rewrite u16_at_app_r. apply u16_at_be16b. exact Hflw. }
  assert (U4 : u16_at (query_hdr d) 4 = Some 1).
  { rewrite HA, !app_assoc, <- app_assoc. change 4%nat with (length (be16b idv ++ be16b flw) + 0)%nat. rewrite <- !app_assoc, (app_assoc (be16b idv)).
    rewrite u16_at_app_r. apply u16_at_be16b. lia. }
  assert (U6 : u16_at (query_hdr d) 6 = Some 0).
  { rewrite HA. rewrite (app_assoc (be16b idv)), (app_assoc (be16b idv ++ be16b flw)).
    change 6%nat with (length ((be16b idv ++ be16b flw) ++ be16b 1) + 0)%nat. rewrite u16_at_app_r. apply u16_at_be16b. lia. }
  assert (U8 : u16_at (query_hdr d) 8 = Some 0).
  { rewrite HA. rewrite (app_assoc (be16b idv)), (app_assoc (be16b idv ++ be16b flw)), (app_assoc ((be16b idv ++ be16b flw) ++ be16b 1)).
    change 8%nat with (length (((be16b idv ++ be16b flw) ++ be16b 1) ++ be16b 0) + 0)%nat. rewrite u16_at_app_r. apply u16_at_be16b. lia. }
  assert (U10 : u16_at (query_hdr d) 10 = Some arn).
  { rewrite HA. rewrite (app_assoc (be16b idv)), (app_assoc (be16b idv ++ be16b flw)), (app_assoc ((be16b idv ++ be16b flw) ++ be16b 1)),
      (app_assoc (((be16b idv ++ be16b flw) ++ be16b 1) ++ be16b 0)). rewrite <- (app_nil_r (be16b arn)).
    change 10%nat with (length ((((be16b idv ++ be16b flw) ++ be16b 1) ++ be16b 0) ++ be16b 0) + 0)%nat.
    rewrite u16_at_app_r. apply u16_at_be16b. exact Harn. }
  assert (HbA : bytes_ok (query_hdr d)) by (rewrite HA; repeat apply bytes_ok_app; apply bytes_ok_be16b).
  (* the reference decoder on these octets, strictness, and the two C04 theorems *)
  assert (Hfin : exists rf, ref_decode bs = Some rf /\ ref_strict bs = true /\ bytes_ok bs /\ norm_ref (rf_rec rf) = norm_parsed d).
  { destruct (uv >? 0) eqn:Eu.
    - specialize (Hu eq_refl).
      assert (Huv : 0 <= Z.land uv 65535 < 65536) by apply land_u16_range.
      assert (U10' : u16_at (query_hdr d) 10 = Some 1) by (rewrite U10; unfold arn; reflexivity).
      pose proof (ref_decode_opt (query_hdr d) more labels idv flw type cls HA12 U0 U2 U4 U6 U8 Href Hty Hcls (Z.land uv 65535) U10' Huv) as Rd.
      cbv zeta in Rd. rewrite <- Hbs in Rd. specialize (Rd Hlen).
      eexists. split; [exact Rd|]. split; [|split].
      + unfold ref_strict. rewrite Rd. cbn [rf_rec rf_exact ref_hdr_rec d_opcode d_qd d_an d_ns d_ar forallb app q_class q_type andb].
        rewrite Hcv. unfold flw. destruct (rd =? 0); reflexivity.
      + rewrite Hbs. repeat apply bytes_ok_app; try apply bytes_ok_be16b; try assumption.
        all: unfold opt_bytes; repeat apply bytes_ok_app; try apply bytes_ok_be16b; unfold bytes_ok; repeat (constructor; [reflexivity|]); constructor.
      + cbn [rf_rec]. unfold d, query_record, ref_hdr_rec, flv, flw. rewrite Eu. destruct (rd =? 0); reflexivity.
    - assert (U10' : u16_at (query_hdr d) 10 = Some 0) by (rewrite U10; unfold arn; reflexivity).
      pose proof (ref_decode_plain (query_hdr d) more labels idv flw type cls HA12 U0 U2 U4 U6 U8 Href Hty Hcls U10') as Rd.
      cbv zeta in Rd. cbn [app] in Hbs. rewrite app_nil_r in Hbs. rewrite <- Hbs in Rd. specialize (Rd Hlen).
      eexists. split; [exact Rd|]. split; [|split].
      + unfold ref_strict. rewrite Rd. cbn [rf_rec rf_exact ref_hdr_rec d_opcode d_qd d_an d_ns d_ar forallb app q_class q_type andb].
        rewrite Hcv. unfold flw. destruct (rd =? 0); reflexivity.
      + rewrite Hbs. repeat apply bytes_ok_app; try apply bytes_ok_be16b; assumption.
      + cbn [rf_rec]. unfold d, query_record, ref_hdr_rec, flv, flw. rewrite Eu. destruct (rd =? 0); reflexivity. }
  destruct Hfin as (rf & Rd & Hstrict & Hbok & Hnorm).
  destruct (complete_fixed bs Hbok Hstrict) as (d' & Hparse).
  exists d'. split; [reflexivity|]. split; [exact Hparse|].
  pose proof (sound_fixed bs d' rf Hbok Hparse Rd) as Hs. unfold fields_agree in Hs. rewrite Hs. exact Hnorm.
Qed.

(* not vacuous: "a.ex" AAAA, id 0x1234, RD, EDNS 1232 *)
Example query_builders_applies :
  exists bs, create_query wfixed (escape_name [[97]; [101; 120]]%N) 1 28 4660 1 1232 = Ok bs.
Proof. eexists. vm_compute. reflexivity. Qed.
