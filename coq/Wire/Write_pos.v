(* C03, frames: with offsets relative to the message start (fixed variant) the writer is position
   independent - what it appends to a buffer does not depend on what the buffer already holds. *)
From CAres.Wire Require Import Cursor Record Escape Write Write_name Write_name2.
From CAres.Gen Require Import Consts LeafFns Tables.
Local Open Scope Z_scope.

Section Pos.
  Variable pre : list N.
  Let k : Z := Z.of_nat (length pre).

  (* b1 holds [pre] in front of what b2 holds; same shadow; both have been appended to *)
  Definition R (b1 b2 : wbuf) : Prop :=
    w_rev b1 = w_rev b2 ++ rev pre /\ w_n b1 = w_n b2 + k /\ w_shadow b1 = w_shadow b2 /\
    w_fresh b1 = false /\ w_fresh b2 = false /\ w_n b2 = Z.of_nat (length (w_rev b2)).

  Definition Rb (o1 o2 : outcome wbuf) : Prop :=
    match o1, o2 with
    | Ok b1, Ok b2 => R b1 b2
    | Err s1, Err s2 => s1 = s2
    | UB k1, UB k2 => k1 = k2
    | _, _ => False
    end.

  Definition Rp {X} (o1 o2 : outcome (wbuf * X)) : Prop :=
    match o1, o2 with
    | Ok (b1, x1), Ok (b2, x2) => R b1 b2 /\ x1 = x2
    | Err s1, Err s2 => s1 = s2
    | UB k1, UB k2 => k1 = k2
    | _, _ => False
    end.

  (* status first, as wb_set_length returns it *)
  Definition Rs (o1 o2 : outcome (Z * wbuf)) : Prop :=
    match o1, o2 with
    | Ok (s1, b1), Ok (s2, b2) => s1 = s2 /\ R b1 b2
    | Err s1, Err s2 => s1 = s2
    | UB k1, UB k2 => k1 = k2
    | _, _ => False
    end.

  Lemma R_len b1 b2 : R b1 b2 -> wb_len b1 = wb_len b2 + k.
  Proof. intros (_ & H & _). exact H. Qed.

  Lemma R_nonneg b1 b2 : R b1 b2 -> 0 <= wb_len b2.
  Proof. intros (_ & _ & _ & _ & _ & H). unfold wb_len. lia. Qed.

  Lemma R_append b1 b2 bs : R b1 b2 -> R (wb_append b1 bs) (wb_append b2 bs).
  Proof.
    intros (H1 & H2 & H3 & H4 & H5 & H6). unfold wb_append. destruct bs as [|x t]; [repeat split; assumption|].
    repeat split; cbn [w_rev w_n w_shadow w_fresh].
    - rewrite !rev_append_rev, H1, app_assoc. reflexivity.
    - lia.
    - rewrite H3. reflexivity.
    - rewrite rev_append_rev, app_length, rev_length. lia.
  Qed.

  Lemma R_append_byte b1 b2 x : R b1 b2 -> R (wb_append_byte b1 x) (wb_append_byte b2 x).
  Proof. apply R_append. Qed.

  Lemma R_append_be16 b1 b2 v : R b1 b2 -> R (wb_append_be16 b1 v) (wb_append_be16 b2 v).
  Proof. intros H. unfold wb_append_be16. apply R_append, H. Qed.

  Lemma R_append_be32 b1 b2 v : R b1 b2 -> R (wb_append_be32 b1 v) (wb_append_be32 b2 v).
  Proof. intros H. unfold wb_append_be32. apply R_append, H. Qed.

  Lemma skipn_app_le {A} n (a b : list A) : (n <= length a)%nat -> skipn n (a ++ b) = skipn n a ++ b.
  Proof. intros H. rewrite skipn_app. replace (n - length a)%nat with 0%nat by lia. reflexivity. Qed.

  Lemma firstn_app_le {A} n (a b : list A) : (n <= length a)%nat -> firstn n (a ++ b) = firstn n a.
  Proof. intros H. rewrite firstn_app. replace (n - length a)%nat with 0%nat by lia. cbn [firstn]. apply app_nil_r. Qed.

  Lemma R_set_length b1 b2 len : R b1 b2 -> 0 <= len -> Rs (wb_set_length b1 (len + k)) (wb_set_length b2 len).
  Proof.
    intros (H1 & H2 & H3 & H4 & H5 & H6) Hlen. unfold wb_set_length. rewrite H4, H5.
    destruct (len + k <? 0) eqn:E1; [apply Z.ltb_lt in E1; unfold k in E1; lia|].
    destruct (len <? 0) eqn:E2; [apply Z.ltb_lt in E2; lia|].
    rewrite H2.
    replace (len + k <=? w_n b2 + k) with (len <=? w_n b2)
      by (destruct (len <=? w_n b2) eqn:E; [apply Z.leb_le in E; symmetry; apply Z.leb_le; lia | apply Z.leb_gt in E; symmetry; apply Z.leb_gt; lia]).
    destruct (len <=? w_n b2) eqn:E3.
    - apply Z.leb_le in E3. replace (w_n b2 + k - (len + k)) with (w_n b2 - len) by lia.
      cbn [Rs]. split; [reflexivity|].
      assert (Hk : (Z.to_nat (w_n b2 - len) <= length (w_rev b2))%nat) by lia.
      repeat split; cbn [w_rev w_n w_shadow w_fresh].
      + rewrite H1. apply skipn_app_le. exact Hk.
      + rewrite H1, H3. rewrite firstn_app_le by exact Hk. reflexivity.
      + rewrite skipn_length. lia.
    - apply Z.leb_gt in E3. replace (len + k - (w_n b2 + k)) with (len - w_n b2) by lia. rewrite H3.
      destruct (Nat.leb (Z.to_nat (len - w_n b2)) (length (w_shadow b2))) eqn:E4; [|reflexivity].
      apply Nat.leb_le in E4. cbn [Rs]. split; [reflexivity|].
      repeat split; cbn [w_rev w_n w_shadow w_fresh].
      + rewrite !rev_append_rev, H1, app_assoc. reflexivity.
      + rewrite rev_append_rev, app_length, rev_length, firstn_length. lia.
  Qed.

  Lemma R_wchecked_set_length b1 b2 len :
    R b1 b2 -> 0 <= len -> Rb (wchecked (wb_set_length b1 (len + k))) (wchecked (wb_set_length b2 len)).
  Proof.
    intros H Hl. pose proof (R_set_length b1 b2 len H Hl) as S. unfold wchecked.
    destruct (wb_set_length b1 (len + k)) as [[s1 c1]| |]; destruct (wb_set_length b2 len) as [[s2 c2]| |]; cbn in *; try contradiction; try assumption.
    destruct S as [-> S]. destruct (s2 =? ARES_SUCCESS); cbn; [exact S | reflexivity].
  Qed.

  Lemma Rb_bind (m1 m2 : outcome wbuf) (f1 f2 : wbuf -> outcome wbuf) :
    Rb m1 m2 -> (forall b1 b2, R b1 b2 -> Rb (f1 b1) (f2 b2)) -> Rb (bind m1 f1) (bind m2 f2).
  Proof. destruct m1, m2; cbn; intros H F; try contradiction; auto. Qed.

  Lemma Rb_bind_p {X} (m1 m2 : outcome wbuf) (f1 f2 : wbuf -> outcome (wbuf * X)) :
    Rb m1 m2 -> (forall b1 b2, R b1 b2 -> Rp (f1 b1) (f2 b2)) -> Rp (bind m1 f1) (bind m2 f2).
  Proof. destruct m1, m2; cbn; intros H F; try contradiction; auto. Qed.

  Lemma Rp_bind {X Y} (m1 m2 : outcome (wbuf * X)) (f1 f2 : wbuf * X -> outcome (wbuf * Y)) :
    Rp m1 m2 -> (forall b1 b2 x, R b1 b2 -> Rp (f1 (b1, x)) (f2 (b2, x))) -> Rp (bind m1 f1) (bind m2 f2).
  Proof.
    destruct m1 as [[b1 x1]| |], m2 as [[b2 x2]| |]; cbn; intros H F; try contradiction; auto.
    destruct H as [H ->]. apply F. exact H.
  Qed.

  Lemma Rp_bind_b {X} (m1 m2 : outcome (wbuf * X)) (f1 f2 : wbuf * X -> outcome wbuf) :
    Rp m1 m2 -> (forall b1 b2 x, R b1 b2 -> Rb (f1 (b1, x)) (f2 (b2, x))) -> Rb (bind m1 f1) (bind m2 f2).
  Proof.
    destruct m1 as [[b1 x1]| |], m2 as [[b2 x2]| |]; cbn; intros H F; try contradiction; auto.
    destruct H as [H ->]. apply F. exact H.
  Qed.

  Lemma R_emit ls : forall b1 b2, R b1 b2 ->
    R (fold_left (fun b l => wb_append (wb_append_byte b (Z.land (slen l) 255)) l) ls b1)
      (fold_left (fun b l => wb_append (wb_append_byte b (Z.land (slen l) 255)) l) ls b2).
  Proof.
    induction ls as [|l ls IH]; intros b1 b2 H; [exact H|]. cbn [fold_left]. apply IH.
    apply R_append, R_append_byte, H.
  Qed.

  Lemma R_name_write b1 b2 base nl v name :
    R b1 b2 -> Rp (name_write wfixed (base + k) b1 nl v name) (name_write wfixed base b2 nl v name).
  Proof.
    intros H. unfold name_write. cbn [wv_msg_relative wv_name_no_trunc wv_ptr_limit wv_strip_dangling_escape wfixed].
    rewrite (R_len b1 b2 H). replace (wb_len b2 + k - (base + k)) with (wb_len b2 - base) by lia.
    destruct (true && (slen name >=? 512)); [reflexivity|].
    set (off := match nl with Some l => nameoffset_find l (firstn 511 name) | None => None end).
    match goal with |- context [split_dns_name v ?t] => set (nc := t) end.
    set (exact := match off with Some (on, _) => slen on =? slen (firstn 511 name) | None => false end).
    eapply Rb_bind_p.
    - destruct (negb exact); [|exact H].
      destruct (split_dns_name v nc) as [labels| |]; cbn [bind]; try reflexivity.
      destruct off; [apply R_emit; exact H | apply R_append_byte, R_emit; exact H].
    - intros c1 c2 Hc.
      assert (Hb2 : R (match off with Some (_, idx) => wb_append_be16 c1 (Z.lor 49152 (Z.land idx 16383)) | None => c1 end)
                      (match off with Some (_, idx) => wb_append_be16 c2 (Z.lor 49152 (Z.land idx 16383)) | None => c2 end)).
      { destruct off as [[on idx]|]; [apply R_append_be16; exact Hc | exact Hc]. }
      destruct nl as [l|]; [|cbn; split; [exact Hb2 | reflexivity]].
      destruct (negb exact && (slen nc >? 0) && negb (true && (wb_len b2 - base >=? 16384))).
      + destruct (nameoffset_create l name (wb_len b2 - base)); cbn; [split; [exact Hb2 | reflexivity] | reflexivity | reflexivity].
      + cbn. split; [exact Hb2 | reflexivity].
  Qed.

  Lemma R_write_rr_name b1 b2 base r nl key :
    R b1 b2 -> Rp (write_rr_name wfixed (base + k) b1 r nl key) (write_rr_name wfixed base b2 r nl key).
  Proof.
    intros H. unfold write_rr_name. destruct (get_field r key) as [[]|]; try reflexivity;
      match goal with |- context [match ?s with Some _ => _ | None => _ end] => destruct s end; try reflexivity;
      apply R_name_write; exact H.
  Qed.

  Lemma R_write_rr_str b1 b2 r key : R b1 b2 -> Rb (write_rr_str b1 r key) (write_rr_str b2 r key).
  Proof.
    intros H. unfold write_rr_str. destruct (get_field r key) as [[]|]; try reflexivity;
      match goal with |- context [match ?s with Some _ => _ | None => _ end] => destruct s as [t|] end; try reflexivity;
      (destruct (slen t >? 255); [reflexivity | apply R_append, R_append_byte, H]).
  Qed.

  Lemma R_write_binstr : forall fuel b1 b2 bin, R b1 b2 -> R (write_binstr fuel b1 bin) (write_binstr fuel b2 bin).
  Proof.
    induction fuel as [|f IH]; intros b1 b2 bin H; [exact H|]. cbn [write_binstr].
    assert (H1 : R (wb_append (wb_append_byte b1 (Z.of_nat (Nat.min (length bin) 255))) (firstn (Nat.min (length bin) 255) bin))
                   (wb_append (wb_append_byte b2 (Z.of_nat (Nat.min (length bin) 255))) (firstn (Nat.min (length bin) 255) bin)))
      by (apply R_append, R_append_byte, H).
    destruct (skipn (Nat.min (length bin) 255) bin); [exact H1 | apply IH; exact H1].
  Qed.

  Lemma R_write_rr_abin b1 b2 r key : R b1 b2 -> Rb (write_rr_abin b1 r key) (write_rr_abin b2 r key).
  Proof.
    intros H. unfold write_rr_abin. destruct (get_field r key) as [[]|]; try reflexivity.
    destruct l as [|s0 l]; [reflexivity|]. cbn [Rb].
    generalize (s0 :: l). intros ss. revert b1 b2 H.
    induction ss as [|s ss IH]; intros b1 b2 H; [exact H|]. cbn [fold_left]. apply IH. apply R_write_binstr. exact H.
  Qed.

  Lemma R_write_rr_be32 b1 b2 r key : R b1 b2 -> Rb (write_rr_be32 b1 r key) (write_rr_be32 b2 r key).
  Proof. intros H. unfold write_rr_be32. destruct (get_field r key) as [[]|]; try reflexivity. apply R_append_be32, H. Qed.
  Lemma R_write_rr_be16 b1 b2 r key : R b1 b2 -> Rb (write_rr_be16 b1 r key) (write_rr_be16 b2 r key).
  Proof. intros H. unfold write_rr_be16. destruct (get_field r key) as [[]|]; try reflexivity. apply R_append_be16, H. Qed.
  Lemma R_write_rr_u8 b1 b2 r key : R b1 b2 -> Rb (write_rr_u8 b1 r key) (write_rr_u8 b2 r key).
  Proof. intros H. unfold write_rr_u8. destruct (get_field r key) as [[]|]; try reflexivity. apply R_append_byte, H. Qed.

  Lemma R_write_rr_rest_bin b1 b2 r key : R b1 b2 -> Rb (write_rr_rest_bin b1 r key) (write_rr_rest_bin b2 r key).
  Proof.
    intros H. unfold write_rr_rest_bin. destruct (get_field r key) as [[]|]; try reflexivity.
    destruct b as [d|]; [|reflexivity]. destruct (slen d =? 0); [reflexivity | apply R_append, H].
  Qed.

  Lemma R_write_opts b1 b2 r key : R b1 b2 -> R (write_opts b1 r key) (write_opts b2 r key).
  Proof.
    intros H. unfold write_opts. destruct (get_field r key) as [[]|]; try exact H.
    revert b1 b2 H. induction l as [|ov l IH]; intros b1 b2 H; [exact H|]. cbn [fold_left]. apply IH.
    apply R_append, R_append_be16, R_append_be16, H.
  Qed.

  Ltac wprim := first
    [ apply R_write_rr_name | apply R_write_rr_str | apply R_write_rr_abin | apply R_write_rr_be32
    | apply R_write_rr_be16 | apply R_write_rr_u8 | apply R_write_rr_rest_bin ]; assumption.

  Ltac wstep := cbn [fst snd];
    first [ wprim
          | eapply Rp_bind; [wprim | intros ? ? ? ?]
          | eapply Rb_bind_p; [wprim | intros ? ? ?]
          | eapply Rb_bind; [wprim | intros ? ? ?]
          | match goal with |- Rp (Ok (_, _)) (Ok (_, _)) => split; [try assumption | reflexivity] end ].

  Lemma R_write_rr_data b1 b2 base r nlp rcode :
    R b1 b2 -> 10 <= wb_len b2 ->
    Rp (write_rr_data wfixed (base + k) b1 r nlp rcode) (write_rr_data wfixed base b2 r nlp rcode).
  Proof.
    intros H Hlen. unfold write_rr_data. cbv zeta.
    pose proof (R_len b1 b2 H) as Hl.
    repeat match goal with
           | |- Rp (if ?c then _ else _) (if ?c then _ else _) => destruct c
           end.
    - (* A *) destruct (get_field r ARES_RR_A_ADDR) as [[]|]; try reflexivity. split; [apply R_append, H | reflexivity].
    - wstep.
    - wstep.
    - (* SOA *) repeat wstep.
    - wstep.
    - (* HINFO *) eapply Rb_bind_p; [eapply Rb_bind; [wprim | intros ? ? ?; wprim] | intros ? ? ?; wstep].
    - (* MX *) repeat wstep.
    - (* TXT *) eapply Rb_bind_p; [wprim | intros ? ? ?; wstep].
    - (* SIG *) repeat wstep.
    - (* AAAA *) destruct (get_field r ARES_RR_AAAA_ADDR) as [[]|]; try reflexivity. split; [apply R_append, H | reflexivity].
    - (* SRV *) repeat wstep.
    - (* NAPTR *) repeat wstep.
    - (* ANY *) reflexivity.
    - (* OPT *)
      rewrite Hl. destruct (wb_len b2 + k =? 0) eqn:E1; [apply Z.eqb_eq in E1; unfold k in E1; lia|].
      destruct (wb_len b2 =? 0) eqn:E2; [apply Z.eqb_eq in E2; lia|].
      replace (wb_len b2 + k - 2 - 4 - 2) with ((wb_len b2 - 2 - 4 - 2) + k) by lia.
      eapply Rb_bind_p; [apply R_wchecked_set_length; [exact H | lia] | intros c1 c2 Hc].
      eapply Rb_bind_p; [apply R_write_rr_be16; exact Hc | intros d1 d2 Hd].
      eapply Rb_bind_p; [apply R_wchecked_set_length; [apply R_append_be32; exact Hd | lia] | intros e1 e2 He].
      split; [apply R_write_opts; exact He | reflexivity].
    - (* TLSA *)
      eapply Rb_bind_p; [|intros ? ? ?; wstep].
      eapply Rb_bind; [wprim | intros ? ? ?]. eapply Rb_bind; [wprim | intros ? ? ?]. eapply Rb_bind; [wprim | intros ? ? ?]. wprim.
    - (* SVCB *)
      eapply Rb_bind_p; [wprim | intros ? ? ?]. eapply Rp_bind; [wprim | intros ? ? ? ?]. cbn [fst snd].
      split; [apply R_write_opts; assumption | reflexivity].
    - (* HTTPS *)
      eapply Rb_bind_p; [wprim | intros ? ? ?]. eapply Rp_bind; [wprim | intros ? ? ? ?]. cbn [fst snd].
      split; [apply R_write_opts; assumption | reflexivity].
    - (* URI *)
      eapply Rb_bind_p; [wprim | intros ? ? ?]. eapply Rb_bind_p; [wprim | intros c1 c2 Hc].
      destruct (get_field r ARES_RR_URI_TARGET) as [[]|]; try reflexivity;
        match goal with |- context [match ?s with Some _ => _ | None => _ end] => destruct s as [t|] end; try reflexivity;
        (destruct (slen t =? 0); [reflexivity | split; [apply R_append; exact Hc | reflexivity]]).
    - (* CAA *)
      eapply Rb_bind_p; [|intros ? ? ?; wstep].
      eapply Rb_bind; [wprim | intros ? ? ?]. eapply Rb_bind; [wprim | intros ? ? ?]. wprim.
    - (* RAW_RR *)
      rewrite Hl. destruct (wb_len b2 + k =? 0) eqn:E1; [apply Z.eqb_eq in E1; unfold k in E1; lia|].
      destruct (wb_len b2 =? 0) eqn:E2; [apply Z.eqb_eq in E2; lia|].
      replace (wb_len b2 + k - 2 - 4 - 2 - 2) with ((wb_len b2 - 2 - 4 - 2 - 2) + k) by lia.
      eapply Rb_bind_p; [apply R_wchecked_set_length; [exact H | lia] | intros c1 c2 Hc].
      eapply Rb_bind_p; [apply R_write_rr_be16; exact Hc | intros d1 d2 Hd].
      eapply Rb_bind_p; [apply R_wchecked_set_length; [exact Hd | lia] | intros e1 e2 He].
      destruct (get_field r ARES_RR_RAW_RR_DATA) as [[]|]; try reflexivity.
      destruct b as [d|]; [split; [apply R_append; exact He | reflexivity]|].
      cbn [wv_raw_empty wfixed]. split; [exact He | reflexivity].
    - split; [exact H | reflexivity].
  Qed.

  Lemma wb_len_append b bs : wb_len (wb_append b bs) = wb_len b + Z.of_nat (length bs).
  Proof. unfold wb_len, wb_append. destruct bs; cbn [w_n length]; lia. Qed.

  Lemma wb_len_be16 b v : wb_len (wb_append_be16 b v) = wb_len b + 2.
  Proof. unfold wb_append_be16. rewrite wb_len_append. cbn [length]. lia. Qed.

  Lemma wb_len_be32 b v : wb_len (wb_append_be32 b v) = wb_len b + 4.
  Proof. unfold wb_append_be32. rewrite wb_len_append. cbn [length]. lia. Qed.

  Lemma R_write_one_rr b1 b2 base nl r rcode ttl_dec :
    R b1 b2 -> Rp (write_one_rr wfixed (base + k) b1 nl r rcode ttl_dec) (write_one_rr wfixed base b2 nl r rcode ttl_dec).
  Proof.
    intros H. unfold write_one_rr. cbv zeta.
    eapply Rp_bind; [apply R_name_write; exact H | intros c1 c2 x Hc]. cbn [fst snd].
    set (t := rr_type r).
    set (mk := fun c : wbuf => wb_append_be16 (wb_append_be32 (wb_append_be16 (wb_append_be16 c (Z.land t 65535)) (Z.land (rr_class r) 65535))
                                                           (if ttl_dec >? rr_ttl r then 0 else rr_ttl r - ttl_dec)) 0).
    set (plen := fun c : wbuf => wb_len (wb_append_be32 (wb_append_be16 (wb_append_be16 c (Z.land t 65535)) (Z.land (rr_class r) 65535))
                                                        (if ttl_dec >? rr_ttl r then 0 else rr_ttl r - ttl_dec))).
    change (Rp (do s1 <- write_rr_data wfixed (base + k) (mk c1) r (if allow_name_comp t then Some (match x with Some l => l | None => nl end) else None) rcode;
                do b3 <- wchecked (wb_set_length (fst s1) (plen c1));
                do b4 <- wchecked (wb_set_length (wb_append_be16 b3 (Z.land ((wb_len (fst s1) - plen c1 - 2) mod 2 ^ 64) 65535)) (wb_len (fst s1)));
                Ok (b4, match snd s1 with Some l => l | None => match x with Some l => l | None => nl end end))
               (do s1 <- write_rr_data wfixed base (mk c2) r (if allow_name_comp t then Some (match x with Some l => l | None => nl end) else None) rcode;
                do b3 <- wchecked (wb_set_length (fst s1) (plen c2));
                do b4 <- wchecked (wb_set_length (wb_append_be16 b3 (Z.land ((wb_len (fst s1) - plen c2 - 2) mod 2 ^ 64) 65535)) (wb_len (fst s1)));
                Ok (b4, match snd s1 with Some l => l | None => match x with Some l => l | None => nl end end))).
    assert (Hmk : R (mk c1) (mk c2)) by (unfold mk; apply R_append_be16, R_append_be32, R_append_be16, R_append_be16, Hc).
    assert (Hpl : plen c1 = plen c2 + k).
    { unfold plen. rewrite !wb_len_be32, !wb_len_be16, (R_len c1 c2 Hc). lia. }
    assert (Hpl0 : 0 <= plen c2).
    { unfold plen. rewrite wb_len_be32, !wb_len_be16. pose proof (R_nonneg c1 c2 Hc). lia. }
    assert (Hmk10 : 10 <= wb_len (mk c2)).
    { unfold mk. rewrite wb_len_be16, wb_len_be32, !wb_len_be16. pose proof (R_nonneg c1 c2 Hc). lia. }
    eapply Rp_bind; [apply R_write_rr_data; assumption | intros d1 d2 y Hd]. cbn [fst snd].
    rewrite Hpl.
    eapply Rb_bind_p; [apply R_wchecked_set_length; assumption | intros e1 e2 He].
    rewrite (R_len d1 d2 Hd).
    replace (wb_len d2 + k - (plen c2 + k) - 2) with (wb_len d2 - plen c2 - 2) by lia.
    eapply Rb_bind_p; [apply R_wchecked_set_length; [apply R_append_be16; exact He | apply (R_nonneg d1 d2 Hd)] | intros f1 f2 Hf].
    split; [exact Hf | reflexivity].
  Qed.

  Lemma R_write_rrs base rcode ttl_dec : forall rs b1 b2 nl,
    R b1 b2 -> Rp (write_rrs wfixed (base + k) b1 nl rs rcode ttl_dec) (write_rrs wfixed base b2 nl rs rcode ttl_dec).
  Proof.
    induction rs as [|r rs IH]; intros b1 b2 nl H; cbn [write_rrs]; [split; [exact H | reflexivity]|].
    eapply Rp_bind; [apply R_write_one_rr; exact H | intros c1 c2 x Hc]. cbn [fst snd]. apply IH. exact Hc.
  Qed.

  Lemma R_write_questions base : forall qs b1 b2 nl,
    R b1 b2 -> Rp (write_questions wfixed (base + k) b1 nl qs) (write_questions wfixed base b2 nl qs).
  Proof.
    induction qs as [|q qs IH]; intros b1 b2 nl H; cbn [write_questions]; [split; [exact H | reflexivity]|].
    eapply Rp_bind; [apply R_name_write; exact H | intros c1 c2 x Hc]. cbn [fst snd]. apply IH.
    apply R_append_be16, R_append_be16, Hc.
  Qed.

  Lemma R_write_header b1 b2 d : R b1 b2 -> R (write_header b1 d) (write_header b2 d).
  Proof. intros H. unfold write_header. repeat apply R_append_be16. exact H. Qed.

  (* ares_dns_write_buf at two positions *)
  Lemma R_write_buf b1 b2 d ttl_dec :
    R b1 b2 -> Rs (write_buf wfixed d ttl_dec b1) (write_buf wfixed d ttl_dec b2).
  Proof.
    intros H. unfold write_buf. cbv zeta. rewrite (R_len b1 b2 H).
    match goal with |- Rs (match ?m1 with _ => _ end) (match ?m2 with _ => _ end) => assert (Hb : Rb m1 m2) end.
    { eapply Rp_bind_b; [apply R_write_questions; apply R_write_header; exact H | intros c1 c2 x Hc]. cbn [fst snd].
      eapply Rp_bind_b; [apply R_write_rrs; exact Hc | intros c3 c4 x2 Hc2]. cbn [fst snd].
      eapply Rp_bind_b; [apply R_write_rrs; exact Hc2 | intros c5 c6 x3 Hc3]. cbn [fst snd].
      eapply Rp_bind_b; [apply R_write_rrs; exact Hc3 | intros c7 c8 x4 Hc4]. cbn [fst snd Rb]. exact Hc4. }
    match goal with |- Rs (match ?m1 with _ => _ end) (match ?m2 with _ => _ end) => destruct m1, m2 end;
      cbn in Hb |- *; try contradiction; auto.
  Qed.

  Lemma Rs_snd_bind (m1 m2 : outcome (Z * wbuf)) (f1 f2 : wbuf -> outcome (Z * wbuf)) :
    Rs m1 m2 -> (forall b1 b2, R b1 b2 -> Rs (f1 b1) (f2 b2)) ->
    Rs (do r <- m1; f1 (snd r)) (do r <- m2; f2 (snd r)).
  Proof.
    destruct m1 as [[s1 c1]| |], m2 as [[s2 c2]| |]; cbn; intros H F; try contradiction; auto.
    destruct H as [_ H]. apply F. exact H.
  Qed.

  (* the same without the "has been appended to" part: holds before the first append *)
  Definition R0 (b1 b2 : wbuf) : Prop :=
    w_rev b1 = w_rev b2 ++ rev pre /\ w_n b1 = w_n b2 + k /\ w_shadow b1 = w_shadow b2 /\
    w_n b2 = Z.of_nat (length (w_rev b2)).

  Definition Rs0 (o1 o2 : outcome (Z * wbuf)) : Prop :=
    match o1, o2 with
    | Ok (s1, b1), Ok (s2, b2) => s1 = s2 /\ R0 b1 b2
    | Err s1, Err s2 => s1 = s2
    | UB k1, UB k2 => k1 = k2
    | _, _ => False
    end.

  Lemma R_R0 b1 b2 : R b1 b2 -> R0 b1 b2.
  Proof. intros (H1 & H2 & H3 & _ & _ & H6). repeat split; assumption. Qed.

  Lemma R0_append_be16 b1 b2 v : R0 b1 b2 -> R (wb_append_be16 b1 v) (wb_append_be16 b2 v).
  Proof.
    intros (H1 & H2 & H3 & H6). unfold wb_append_be16, wb_append. cbn [w_rev w_n w_shadow w_fresh rev_append length].
    repeat split; cbn [w_rev w_n w_shadow w_fresh].
    - rewrite H1. reflexivity.
    - lia.
    - rewrite H3. reflexivity.
    - cbn [length]. lia.
  Qed.

  Lemma Rs_Rs0 o1 o2 : Rs o1 o2 -> Rs0 o1 o2.
  Proof. destruct o1 as [[s1 c1]| |], o2 as [[s2 c2]| |]; cbn; auto. intros [E H]. split; [exact E | apply R_R0, H]. Qed.

  (* ares_dns_write_buf_tcp at two positions *)
  Lemma R_write_buf_tcp b1 b2 d :
    R0 b1 b2 -> Rs0 (write_buf_tcp wfixed d b1) (write_buf_tcp wfixed d b2).
  Proof.
    intros H. unfold write_buf_tcp. cbv zeta.
    pose proof (R_write_buf (wb_append_be16 b1 0) (wb_append_be16 b2 0) d 0 (R0_append_be16 _ _ 0 H)) as W.
    assert (Hlen : wb_len b1 = wb_len b2 + k) by (destruct H as (_ & H2 & _); exact H2).
    assert (Hnn : 0 <= wb_len b2) by (destruct H as (_ & _ & _ & H6); unfold wb_len; lia).
    destruct (write_buf wfixed d 0 (wb_append_be16 b1 0)) as [[s1 c1]| |];
      destruct (write_buf wfixed d 0 (wb_append_be16 b2 0)) as [[s2 c2]| |]; unfold Rs in W; try contradiction;
      cbn [bind fst snd]; try exact W.
    destruct W as [-> Hc].
    destruct (negb (s2 =? ARES_SUCCESS)); [split; [reflexivity | exact H]|].
    rewrite (R_len c1 c2 Hc), Hlen.
    replace (wb_len c2 + k - (wb_len b2 + k) - 2) with (wb_len c2 - wb_len b2 - 2) by lia.
    destruct ((wb_len c2 - wb_len b2 - 2) mod 2 ^ 64 >? 65535); [split; [reflexivity | exact H]|].
    apply Rs_Rs0.
    set (ml := Z.land ((wb_len c2 - wb_len b2 - 2) mod 2 ^ 64) 65535).
    apply (Rs_snd_bind (wb_set_length c1 (wb_len b2 + k)) (wb_set_length c2 (wb_len b2))
             (fun e => do r2 <- wb_set_length (wb_append_be16 e ml) (wb_len c2 + k); Ok (ARES_SUCCESS, snd r2))
             (fun e => do r2 <- wb_set_length (wb_append_be16 e ml) (wb_len c2); Ok (ARES_SUCCESS, snd r2)));
      [apply R_set_length; [exact Hc | exact Hnn] | intros e1 e2 He].
    apply (Rs_snd_bind (wb_set_length (wb_append_be16 e1 ml) (wb_len c2 + k)) (wb_set_length (wb_append_be16 e2 ml) (wb_len c2))
             (fun f => Ok (ARES_SUCCESS, f)) (fun f => Ok (ARES_SUCCESS, f)));
      [apply R_set_length; [apply R_append_be16; exact He | apply (R_nonneg c1 c2 Hc)] | intros f1 f2 Hf].
    split; [reflexivity | exact Hf].
  Qed.
End Pos.

Lemma rev_w_live b : rev (w_live b) = w_rev b.
Proof. unfold w_live. rewrite rev_append_rev, app_nil_r. apply rev_involutive. Qed.

(* C03_frame_any_position (fixed variant): writing a frame into a buffer that already holds
   arbitrary octets has exactly the outcome of writing it into an empty buffer - same status, and
   the same octets appended behind what was there *)
Theorem frame_position_independent d b :
  wb_wf b -> w_shadow b = [] ->
  match write_buf_tcp wfixed d wb_empty, write_buf_tcp wfixed d b with
  | Ok (s0, b0), Ok (s, b') => s = s0 /\ w_live b' = w_live b ++ w_live b0
  | Err s0, Err s => s = s0
  | UB k0, UB k => k = k0
  | _, _ => False
  end.
Proof.
  intros Hwf Hsh.
  assert (H0 : R0 (w_live b) b wb_empty).
  { unfold R0. cbn [wb_empty w_rev w_n w_shadow app length]. rewrite rev_w_live.
    split; [reflexivity|]. split; [unfold wb_wf in Hwf; rewrite w_live_length; lia|]. split; [exact Hsh | reflexivity]. }
  pose proof (R_write_buf_tcp (w_live b) b wb_empty d H0) as S.
  destruct (write_buf_tcp wfixed d b) as [[s b']| |]; destruct (write_buf_tcp wfixed d wb_empty) as [[s0 b0]| |];
    cbn in S; try contradiction; auto.
  destruct S as [-> (H1 & _)]. split; [reflexivity|].
  unfold w_live at 1 3. rewrite !rev_append_rev, !app_nil_r, H1, rev_app_distr, rev_involutive. reflexivity.
Qed.
