(* C04_complete: every message the RFC reference decoder finds well formed within the supported
   subset (RefDecode.ref_strict) is accepted by ares_dns_parse() (model of the fixed tree). *)
From CAres.Wire Require Import Cursor Cursor_proofs Name Name_proofs Record Parse Parse_proofs Escape Escape_proofs RefDecode Bits Name_ref Parse_ref Parse_ref2 Parse_sets Parse_ref3 Parse_ref4 Parse_ref5 Parse_cmp1 Parse_cmp2.
From CAres.Gen Require Import Consts LeafFns Tables.
Local Open Scope Z_scope.

Lemma flags_valid7 (b1 b2 b3 b4 b5 b6 b7 : bool) :
  c_ares_dns_flags_arevalid
    (Z.lor (Z.lor (Z.lor (Z.lor (Z.lor (Z.lor (if b1 then ARES_FLAG_QR else 0) (if b2 then ARES_FLAG_AA else 0))
                                            (if b3 then ARES_FLAG_TC else 0)) (if b4 then ARES_FLAG_RD else 0))
                       (if b5 then ARES_FLAG_RA else 0)) (if b6 then ARES_FLAG_AD else 0)) (if b7 then ARES_FLAG_CD else 0))
  = Ok ARES_TRUE.
Proof. destruct b1, b2, b3, b4, b5, b6, b7; reflexivity. Qed.

(* what ref_body reports about the RR head, given that the RR is in the supported subset *)
Lemma ref_body_head bs name raw cls ttl rdn rdlen r_ref en ext x :
  0 <= raw < 65536 ->
  ref_body bs name raw cls ttl rdn rdlen = Some (r_ref, en, ext, x) -> rr_supported r_ref = true ->
  let type := if negb (rec_type_isvalid raw false) then ARES_REC_TYPE_RAW_RR else raw in
  en = (rdn + Z.to_nat rdlen)%nat /\
  class_isvalid (if type =? ARES_REC_TYPE_OPT then ARES_CLASS_IN else cls) type false = true /\
  rec_type_isvalid type false = true.
Proof.
  intros Hraw R Hsup. unfold ref_body in R. cbv zeta in R.
  destruct (raw =? 41) eqn:E41.
  - apply Z.eqb_eq in E41. subst raw. destruct (ref_tlvs _ bs rdn _); [|discriminate]. injection R as <- <- _ _.
    cbv zeta. repeat split; reflexivity.
  - apply Z.eqb_neq in E41. destruct (layout raw) as [lay|] eqn:Elay.
    + destruct (layout_valid raw lay Elay) as (Hv & _). cbv zeta. rewrite Hv. cbn [negb].
      replace (raw =? ARES_REC_TYPE_OPT) with false by (symmetry; apply Z.eqb_neq; exact E41).
      destruct (ref_fields bs lay rdn _) as [[fs used]|]; [|discriminate].
      destruct (Nat.ltb _ used); [discriminate|]. injection R as <- <- _ _.
      unfold rr_supported in Hsup. cbn [rr_type rr_class] in Hsup.
      apply andb_true_iff in Hsup. destruct Hsup as (Hsup & _). apply andb_true_iff in Hsup. destruct Hsup as (_ & Hsup).
      replace (raw =? 41) with false in Hsup by (symmetry; apply Z.eqb_neq; exact E41). cbn [orb] in Hsup.
      repeat split; [exact Hsup | exact Hv].
    + destruct (slice bs rdn (Z.to_nat rdlen)) as [d|]; [|discriminate]. injection R as <- <- _ _.
      assert (Hn255 : raw <> 255).
      { unfold rr_supported in Hsup. cbn [rr_type rr_fields assoc_get] in Hsup.
        rewrite Z.eqb_refl in Hsup. apply andb_true_iff in Hsup. destruct Hsup as (Hsup & _).
        apply andb_true_iff in Hsup. destruct Hsup as (Hsup & _). apply andb_true_iff in Hsup. destruct Hsup as (_ & Hsup).
        intros ->. discriminate Hsup. }
      assert (Hv : rec_type_isvalid raw false = false).
      { destruct (rec_type_isvalid raw false) eqn:Ev; [|reflexivity]. exfalso.
        unfold rec_type_isvalid in Ev. apply zmem_in in Ev. unfold tbl_rec_types_valid_rr in Ev. cbn [In] in Ev.
        repeat (destruct Ev as [Ev|Ev]; [subst raw; first [discriminate Elay | lia | congruence]|]). destruct Ev. }
      cbv zeta. rewrite Hv. cbn [negb]. repeat split; reflexivity.
Qed.

Section Complete.
  Variable bs : list N.
  Hypothesis Hb : bytes_ok bs.
  Hypothesis Hl : Z.of_nat (length bs) < 2 ^ 64.
  Variable fuel : nat.
  Hypothesis Hfuel : (name_fuel (cur_of_bytes bs) <= fuel)%nat.
  Notation n := (Z.of_nat (length bs)).
  Notation at_ := (at_ bs).
  Notation pos_ok := (pos_ok bs).

  Definition sect_ok (sect : Z) : Prop :=
    sect = ARES_SECTION_ANSWER \/ sect = ARES_SECTION_AUTHORITY \/ sect = ARES_SECTION_ADDITIONAL.

  Lemma parse_rr_fwd p sect d r_ref en ext x :
    pos_ok p -> sect_ok sect ->
    ref_rr bs (Z.to_nat p) = Some (r_ref, en, ext, x) -> rr_supported r_ref = true ->
    exists d', parse_rr fixed_tree fuel (at_ p) 0 sect d = Ok (at_ (Z.of_nat en), d') /\ pos_ok (Z.of_nat en).
  Proof.
    intros Hp Hsect R Hsup. rewrite ref_rr_body in R.
    destruct (ref_name bs (Z.to_nat p)) as [[owner p1]|] eqn:Rn; [|discriminate].
    destruct (u16_at bs p1) as [raw|] eqn:U1; [|discriminate].
    destruct (u16_at bs (p1 + 2)) as [cls|] eqn:U2; [|discriminate].
    destruct (u32_at bs (p1 + 4)) as [ttl|] eqn:U3; [|discriminate].
    destruct (u16_at bs (p1 + 8)) as [rdl|] eqn:U4; [|discriminate].
    destruct (Nat.ltb (length bs) (p1 + 10 + Z.to_nat rdl)) eqn:Elen; [discriminate|]. apply Nat.ltb_ge in Elen.
    pose proof (u16_bound _ _ _ Hb U1) as Braw. pose proof (u16_bound _ _ _ Hb U4) as Brdl.
    destruct (name_fwd bs Hb Hl fuel p owner p1 Hp Hfuel Rn) as (Fn & Hp1).
    rewrite <- (Nat2Z.id p1) in U1.
    destruct (be16_fwd bs Hb Hl _ raw Hp1 U1) as (F1 & Hp2).
    replace (p1 + 2)%nat with (Z.to_nat (Z.of_nat p1 + 2)) in U2 by lia.
    destruct (be16_fwd bs Hb Hl _ cls Hp2 U2) as (F2 & Hp3).
    replace (p1 + 4)%nat with (Z.to_nat (Z.of_nat p1 + 2 + 2)) in U3 by lia.
    destruct (be32_fwd bs Hb Hl _ ttl Hp3 U3) as (F3 & Hp4).
    replace (p1 + 8)%nat with (Z.to_nat (Z.of_nat p1 + 2 + 2 + 4)) in U4 by lia.
    destruct (be16_fwd bs Hb Hl _ rdl Hp4 U4) as (F4 & Hrd).
    set (rd := Z.of_nat p1 + 2 + 2 + 4 + 2) in *.
    replace (p1 + 10)%nat with (Z.to_nat rd) in R by (unfold rd; lia).
    destruct (ref_body_head bs _ raw cls ttl _ rdl r_ref en ext x Braw R Hsup) as (Hen & Hcls & Hty).
    assert (He : rd + rdl <= n) by (unfold rd; lia).
    assert (Hene : en = Z.to_nat (rd + rdl)) by (unfold rd in *; lia).
    rewrite Hene in R.
    destruct (rr_data_fwd bs Hb Hl fuel Hfuel rd rdl Hrd Brdl He (escape_name owner) raw cls ttl (d_raw_rcode d) r_ref ext x Braw R Hsup)
      as (o' & r1 & rc' & Fd & Ho' & Hle).
    assert (Hpe : pos_ok (rd + rdl)) by (unfold Parse_ref2.pos_ok in *; lia).
    unfold parse_rr. rewrite Fn. cbn [bind]. rewrite F1. cbn [bind]. rewrite F2. cbn [bind]. rewrite F3. cbn [bind].
    rewrite F4. cbn [bind]. fold rd.
    cbv zeta. rewrite !Z.land_0_l. change (0 =? 0) with true. cbn [negb]. rewrite !andb_false_r. cbv iota.
    rewrite (buf_len_at bs Hb Hl rd Hrd). cbn [bind].
    replace (rdl >? n - rd) with false by (symmetry; rewrite Z.gtb_ltb; apply Z.ltb_ge; lia).
    unfold rr_add.
    replace ((sect =? ARES_SECTION_ANSWER) || (sect =? ARES_SECTION_AUTHORITY) || (sect =? ARES_SECTION_ADDITIONAL)) with true
      by (destruct Hsect as [ -> | [ -> | -> ] ]; reflexivity).
    cbv zeta in Hcls, Hty. rewrite Hty, Hcls. cbn [negb orb bind].
    cbv zeta in Fd. rewrite Fd. cbn [bind].
    rewrite (buf_len_at bs Hb Hl o' Ho'). cbn [bind].
    replace (n - rd - (n - o')) with (o' - rd) by lia.
    rewrite Z.mod_small by (unfold Parse_ref2.pos_ok in *; rewrite pow64 in *; lia).
    replace (o' - rd >? rdl) with false by (symmetry; rewrite Z.gtb_ltb; apply Z.ltb_ge; lia).
    assert (Hcur : (if o' - rd <? rdl then do r <- consume (at_ o') ((rdl - (o' - rd)) mod 2 ^ 64); Ok (snd r) else Ok (at_ o'))
                   = Ok (at_ (rd + rdl))).
    { destruct (o' - rd <? rdl) eqn:Elt.
      - apply Z.ltb_lt in Elt. rewrite Z.mod_small by (rewrite pow64; lia).
        rewrite (consume_at bs Hb Hl o' (rdl - (o' - rd)) Ho') by lia. cbn [bind snd]. f_equal. f_equal. lia.
      - apply Z.ltb_ge in Elt. f_equal. f_equal. lia. }
    rewrite Hcur. cbn [bind]. eexists. rewrite Hene. rewrite Z2Nat.id by (unfold Parse_ref2.pos_ok in *; lia).
    split; [reflexivity | exact Hpe].
  Qed.

  Lemma parse_rrs_fwd sect : sect_ok sect -> forall k p d rs en exts x,
    pos_ok p ->
    ref_rrs k bs (Z.to_nat p) = Some (rs, en, exts, x) -> forallb rr_supported rs = true ->
    exists d', parse_rrs fixed_tree fuel k (at_ p) 0 sect d = Ok (at_ (Z.of_nat en), d') /\ pos_ok (Z.of_nat en).
  Proof.
    intros Hsect. induction k as [|k IH]; intros p d rs en exts x Hp R Hsup.
    - cbn in R. injection R as <- <- _ _. exists d. cbn [parse_rrs].
      rewrite Z2Nat.id by (unfold Parse_ref2.pos_ok in *; lia). split; [reflexivity | exact Hp].
    - cbn [ref_rrs] in R. destruct (ref_rr bs (Z.to_nat p)) as [[[[r p1] ext] ex]|] eqn:R1; [|discriminate].
      destruct (ref_rrs k bs p1) as [[[[rs' p'] exts'] ex']|] eqn:Rr; [|discriminate]. injection R as <- <- _ _.
      cbn [forallb] in Hsup. apply andb_true_iff in Hsup. destruct Hsup as (Hs1 & Hs2).
      destruct (parse_rr_fwd p sect d r p1 ext ex Hp Hsect R1 Hs1) as (d1 & F1 & Hp1).
      rewrite <- (Nat2Z.id p1) in Rr.
      destruct (IH (Z.of_nat p1) d1 rs' p' exts' ex' Hp1 Rr Hs2) as (d' & F' & Hp').
      exists d'. cbn [parse_rrs]. rewrite F1. cbn [bind fst snd]. split; [exact F' | exact Hp'].
  Qed.

  Lemma parse_header_fwd id fl qd an ns ar :
    u16_at bs 0 = Some id -> u16_at bs 2 = Some fl -> u16_at bs 4 = Some qd -> u16_at bs 6 = Some an ->
    u16_at bs 8 = Some ns -> u16_at bs 10 = Some ar ->
    opcode_isvalid ((fl / 2048) mod 16) = true ->
    exists d0, parse_header (cur_of_bytes bs) = Ok (at_ 12, d0, (qd, an, ns, ar)) /\ pos_ok 12.
  Proof.
    intros U0 U2 U4 U6 U8 U10 Hop.
    assert (Hp0 : pos_ok 0) by (unfold Parse_ref2.pos_ok; lia).
    destruct (be16_fwd bs Hb Hl 0 id Hp0 U0) as (F0 & Hp2).
    destruct (be16_fwd bs Hb Hl (0 + 2) fl Hp2 U2) as (F2 & Hp4).
    destruct (be16_fwd bs Hb Hl (0 + 2 + 2) qd Hp4 U4) as (F4 & Hp6).
    destruct (be16_fwd bs Hb Hl (0 + 2 + 2 + 2) an Hp6 U6) as (F6 & Hp8).
    destruct (be16_fwd bs Hb Hl (0 + 2 + 2 + 2 + 2) ns Hp8 U8) as (F8 & Hp10).
    destruct (be16_fwd bs Hb Hl (0 + 2 + 2 + 2 + 2 + 2) ar Hp10 U10) as (F10 & Hp12).
    pose proof (u16_bound _ _ _ Hb U2) as Bfl.
    unfold parse_header. change (cur_of_bytes bs) with (at_ 0).
    rewrite F0. cbn [bind]. rewrite F2. cbn [bind]. cbv zeta.
    rewrite F4. cbn [bind]. rewrite F6. cbn [bind]. rewrite F8. cbn [bind]. rewrite F10. cbn [bind].
    unfold record_create. rewrite flags_valid7. cbn [bind].
    rewrite (opcode_agree fl) by lia. rewrite Hop.
    change (negb true || negb (rcode_isvalid ARES_RCODE_NOERROR) || (ARES_TRUE =? ARES_FALSE)) with false. cbv iota. cbn [bind].
    eexists. split; [reflexivity | exact Hp12].
  Qed.

  Lemma parse_qd_fwd d qn p qt qc :
    pos_ok 12 ->
    ref_name bs 12 = Some (qn, p) -> u16_at bs p = Some qt -> u16_at bs (p + 2) = Some qc ->
    class_isvalid qc qt true = true ->
    exists d1, parse_qd fuel (at_ 12) d = Ok (at_ (Z.of_nat p + 2 + 2), d1) /\ pos_ok (Z.of_nat p + 2 + 2).
  Proof.
    intros H12 Rn Ut Uc Hcls.
    destruct (name_fwd bs Hb Hl fuel 12 qn p H12 Hfuel Rn) as (Fn & Hp).
    rewrite <- (Nat2Z.id p) in Ut. destruct (be16_fwd bs Hb Hl _ qt Hp Ut) as (F1 & Hp1).
    replace (p + 2)%nat with (Z.to_nat (Z.of_nat p + 2)) in Uc by lia.
    destruct (be16_fwd bs Hb Hl _ qc Hp1 Uc) as (F2 & Hp2).
    pose proof (u16_bound _ _ _ Hb Ut) as Bqt.
    unfold parse_qd. rewrite Fn. cbn [bind]. rewrite F1. cbn [bind]. rewrite F2. cbn [bind].
    unfold query_add. rewrite Hcls.
    assert (Hty : rec_type_isvalid qt true = true).
    { unfold rec_type_isvalid.
      replace ((0 <=? qt) && (qt <=? 65536)) with true
        by (symmetry; apply andb_true_iff; split; apply Z.leb_le; lia).
      unfold tbl_rec_types_invalid_query, zmem. cbn [existsb].
      replace (qt =? 65536) with false by (symmetry; apply Z.eqb_neq; lia). reflexivity. }
    rewrite Hty. cbn [negb orb bind]. eexists. split; [reflexivity | exact Hp2].
  Qed.
End Complete.

Lemma u16_at_len bs i v : u16_at bs i = Some v -> (i + 2 <= length bs)%nat.
Proof.
  unfold u16_at, octet. destruct (nth_error bs i) eqn:E0; [|discriminate].
  destruct (nth_error bs (i + 1)) eqn:E1; [|discriminate]. intros _.
  assert (i + 1 < length bs)%nat by (apply nth_error_Some; congruence). lia.
Qed.

Theorem complete_fixed bs :
  bytes_ok bs -> ref_strict bs = true -> exists r, dns_parse bs 0 = Ok r.
Proof.
  intros Hb H. unfold ref_strict in H. destruct (ref_decode bs) as [rf|] eqn:F; [|discriminate].
  apply andb_true_iff in H. destruct H as (H & Hrr). apply andb_true_iff in H. destruct H as (H & Hq).
  apply andb_true_iff in H. destruct H as (_ & Hop).
  unfold ref_decode in F. destruct (Z.of_nat (length bs) >? 65535) eqn:E64; [discriminate|].
  rewrite Z.gtb_ltb in E64. apply Z.ltb_ge in E64.
  assert (Hl : Z.of_nat (length bs) < 2 ^ 64) by (rewrite pow64; lia).
  destruct (u16_at bs 0) as [id|] eqn:U0; [|discriminate]. destruct (u16_at bs 2) as [fl|] eqn:U2; [|discriminate].
  destruct (u16_at bs 4) as [qd|] eqn:U4; [|discriminate]. destruct (u16_at bs 6) as [an|] eqn:U6; [|discriminate].
  destruct (u16_at bs 8) as [ns|] eqn:U8; [|discriminate]. destruct (u16_at bs 10) as [ar|] eqn:U10; [|discriminate].
  destruct (negb (qd =? 1)) eqn:Eq; [discriminate|]. apply negb_false_iff in Eq. apply Z.eqb_eq in Eq. subst qd.
  destruct (ref_name bs 12) as [[qn p]|] eqn:Rn; [|discriminate].
  destruct (u16_at bs p) as [qt|] eqn:Ut; [|discriminate]. destruct (u16_at bs (p + 2)) as [qc|] eqn:Uc; [|discriminate].
  destruct (ref_rrs (Z.to_nat an) bs (p + 4)) as [[[[ans p1] e1] x1]|] eqn:R1; [|discriminate].
  destruct (ref_rrs (Z.to_nat ns) bs p1) as [[[[nss p2] e2] x2]|] eqn:R2; [|discriminate].
  destruct (ref_rrs (Z.to_nat ar) bs p2) as [[[[ars p3] e3] x3]|] eqn:R3; [|discriminate].
  assert (Hrec : d_opcode (rf_rec rf) = (fl / 2048) mod 16 /\ d_qd (rf_rec rf) = [mkQ (escape_name qn) qt qc]
                 /\ d_an (rf_rec rf) = ans /\ d_ns (rf_rec rf) = nss /\ d_ar (rf_rec rf) = ars).
  { destruct (e1 ++ e2 ++ e3) as [|y [|z l]]; try discriminate; injection F as <-; repeat split; reflexivity. }
  destruct Hrec as (A1 & A2 & A3 & A4 & A5). rewrite A1 in Hop. rewrite A2 in Hq. rewrite A3, A4, A5 in Hrr.
  cbn [forallb q_class q_type] in Hq. rewrite andb_true_r in Hq.
  rewrite !forallb_app in Hrr. apply andb_true_iff in Hrr. destruct Hrr as (Hs1 & Hrr).
  apply andb_true_iff in Hrr. destruct Hrr as (Hs2 & Hs3).
  pose proof (u16_at_len _ _ _ U10) as Hlen.
  set (fuel := name_fuel (cur_of_bytes bs)).
  destruct (parse_header_fwd bs Hb Hl fuel (le_n _) id fl 1 an ns ar U0 U2 U4 U6 U8 U10 Hop) as (d0 & Fh & H12).
  destruct (parse_qd_fwd bs Hb Hl fuel (le_n _) d0 qn p qt qc H12 Rn Ut Uc Hq) as (d1 & Fq & Hpq).
  replace (p + 4)%nat with (Z.to_nat (Z.of_nat p + 2 + 2)) in R1 by lia.
  destruct (parse_rrs_fwd bs Hb Hl fuel (le_n _) ARES_SECTION_ANSWER (or_introl eq_refl) _ _ d1 _ _ _ _ Hpq R1 Hs1) as (d2 & F1 & Hp1).
  rewrite <- (Nat2Z.id p1) in R2.
  destruct (parse_rrs_fwd bs Hb Hl fuel (le_n _) ARES_SECTION_AUTHORITY (or_intror (or_introl eq_refl)) _ _ d2 _ _ _ _ Hp1 R2 Hs2) as (d3 & F2 & Hp2).
  rewrite <- (Nat2Z.id p2) in R3.
  destruct (parse_rrs_fwd bs Hb Hl fuel (le_n _) ARES_SECTION_ADDITIONAL (or_intror (or_intror eq_refl)) _ _ d3 _ _ _ _ Hp2 R3 Hs3) as (d4 & F3 & Hp3).
  unfold dns_parse, dns_parse_v.
  replace (Z.of_nat (length bs) =? 0) with false by (symmetry; apply Z.eqb_neq; lia).
  unfold parse_buf. fold fuel.
  change (buf_len (cur_of_bytes bs)) with (buf_len (at_ bs 0)).
  rewrite (buf_len_at bs Hb Hl 0) by (unfold pos_ok; lia). cbn [bind].
  replace (Z.of_nat (length bs) - 0 >? 65535) with false by (symmetry; rewrite Z.gtb_ltb; apply Z.ltb_ge; lia).
  rewrite Fh. cbn [bind]. change (1 =? 0) with false. change (1 >? 1) with false. cbv iota.
  change (Z.to_nat 1) with 1%nat. cbn [parse_qds]. rewrite Fq. cbn [bind fst snd].
  rewrite F1. cbn [bind fst snd]. rewrite F2. cbn [bind fst snd]. rewrite F3. cbn [bind fst snd].
  eexists. reflexivity.
Qed.

(* not vacuous: the example message of Parse_ref5 is in the supported subset *)
Example complete_fixed_applies : ref_strict Parse_ref5.ex_msg = true.
Proof. vm_compute. reflexivity. Qed.
