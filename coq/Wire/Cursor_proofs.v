(* Facts about the read cursor: under the invariant [cur_ok] no fetch function reaches UB, every
   one preserves the invariant and the block, and the offset moves exactly as far as the C
   function consumes. *)
From CAres.Wire Require Import Cursor.
From CAres.Gen Require Import Consts LeafFns Tables.
Local Open Scope Z_scope.

(* keep [simpl] away from the bit arithmetic *)
Arguments Z.shiftl : simpl never.
Arguments Z.shiftr : simpl never.
Arguments Z.lor : simpl never.
Arguments Z.land : simpl never.
Arguments Z.modulo : simpl never.
Arguments Z.div : simpl never.
Arguments Z.pow : simpl never.
Arguments Z.mul : simpl never.
Arguments Z.add : simpl never.
Arguments Z.sub : simpl never.
Arguments Z.of_nat : simpl never.
Arguments Z.to_nat : simpl never.

(* [safe P m]: m is not undefined behaviour, not a fuel exhaustion, and a normal result
   satisfies P *)
Definition safe {A} (P : A -> Prop) (m : outcome A) : Prop :=
  match m with
  | Ok a => P a
  | Err s => s <> OutOfFuel
  | UB _ => False
  end.

Lemma safe_bind {A B} (Q : A -> Prop) (P : B -> Prop) (m : outcome A) (f : A -> outcome B) :
  safe Q m -> (forall a, Q a -> safe P (f a)) -> safe P (bind m f).
Proof. destruct m as [a|s|k]; simpl; auto. Qed.

Lemma safe_mono {A} (P Q : A -> Prop) (m : outcome A) :
  safe P m -> (forall a, P a -> Q a) -> safe Q m.
Proof. destruct m; simpl; auto. Qed.

Lemma safe_ok {A} (P : A -> Prop) (a : A) : P a -> safe P (Ok a).
Proof. auto. Qed.

Lemma safe_not_ub {A} (P : A -> Prop) (m : outcome A) : safe P m -> is_ub m = false.
Proof. destruct m; simpl; auto. intros []. Qed.

Lemma safe_not_fuel {A} (P : A -> Prop) (m : outcome A) : safe P m -> m <> Err OutOfFuel.
Proof. destruct m; simpl; intros H E; try discriminate. injection E as E. auto. Qed.

Lemma safe_inv_ok {A} (P : A -> Prop) (m : outcome A) a : safe P m -> m = Ok a -> P a.
Proof. intros H E. subst. exact H. Qed.

(* error statuses are library statuses, never the model's OutOfFuel marker *)
Ltac status_ne :=
  unfold OutOfFuel, ARES_EBADRESP, ARES_EBADNAME, ARES_EFORMERR, ARES_EBADSTR, ARES_ENOMEM, ARES_SUCCESS;
  lia.

Lemma safe_err {A} (P : A -> Prop) s : s <> OutOfFuel -> safe P (@Err A s).
Proof. auto. Qed.

#[export] Hint Extern 1 (_ <> OutOfFuel) => status_ne : safe_db.

Lemma pow64 : 2 ^ 64 = 18446744073709551616. Proof. reflexivity. Qed.

(* ---- position arithmetic ---- *)

Lemma buf_len_ok c : cur_ok c -> buf_len c = Ok (c_len c - c_off c).
Proof.
  intros (Ho & Hl & Hb & _). unfold buf_len, c_ares_buf_len.
  rewrite Z.mod_small; [reflexivity | rewrite pow64 in *; lia].
Qed.

Lemma get_position_ok c : get_position c = Ok (c_off c).
Proof. reflexivity. Qed.

Lemma set_off_same c o : same_block c (set_off c o).
Proof. split; reflexivity. Qed.

Lemma same_block_refl c : same_block c c.
Proof. split; reflexivity. Qed.

Lemma same_block_trans a b c : same_block a b -> same_block b c -> same_block a c.
Proof. intros [H1 H2] [H3 H4]. split; congruence. Qed.

Lemma cur_ok_set_off c o : cur_ok c -> 0 <= o <= c_len c -> cur_ok (set_off c o).
Proof. intros (Ho & Hl & Hb & _) H. repeat split; simpl; lia. Qed.

Lemma set_off_id c : cur_ok c -> set_off c (c_off c) = c.
Proof. intros (_ & _ & _ & Hr). destruct c; unfold set_off; simpl in *. rewrite Hr. reflexivity. Qed.

Lemma skipn_skipn' {A} (l : list A) : forall a b, skipn b (skipn a l) = skipn (a + b) l.
Proof.
  induction l as [|x l IH]; intros a b.
  - rewrite !skipn_nil. reflexivity.
  - destruct a; [reflexivity | simpl; apply IH].
Qed.

(* the incremental move agrees with recomputing the suffix *)
Lemma move_off_set_off c n : cur_ok c -> 0 <= n -> move_off c n (c_off c + n) = set_off c (c_off c + n).
Proof.
  intros Hc Hn. unfold move_off.
  destruct (c_off c + n =? c_off c) eqn:E.
  - apply Z.eqb_eq in E. rewrite E. symmetry. apply set_off_id. assumption.
  - destruct Hc as (Ho & _ & _ & Hr). unfold set_off. rewrite Hr. f_equal.
    rewrite skipn_skipn'. f_equal. lia.
Qed.

(* ares_buf_consume: fails (buffer unchanged) iff fewer than n octets remain *)
Lemma consume_spec c n :
  cur_ok c -> 0 <= n ->
  consume c n = Ok (if c_len c - c_off c <? n then (ARES_EBADRESP, c) else (ARES_SUCCESS, set_off c (c_off c + n))).
Proof.
  intros Hc Hn. unfold consume. rewrite (buf_len_ok c Hc). simpl.
  unfold c_ares_buf_consume.
  destruct (c_len c - c_off c <? n) eqn:E; simpl.
  - unfold move_off. rewrite Z.eqb_refl. reflexivity.
  - apply Z.ltb_ge in E. pose proof Hc as (Ho & Hl & Hb & _).
    rewrite Z.mod_small by (rewrite pow64 in *; lia).
    rewrite move_off_set_off by assumption. reflexivity.
Qed.

Lemma checked_consume_spec c n :
  cur_ok c -> 0 <= n ->
  checked (consume c n) = if c_len c - c_off c <? n then Err ARES_EBADRESP else Ok (set_off c (c_off c + n)).
Proof.
  intros Hc Hn. unfold checked. rewrite (consume_spec c n Hc Hn).
  destruct (c_len c - c_off c <? n); simpl; reflexivity.
Qed.

Lemma set_position_spec c idx :
  cur_ok c ->
  set_position c idx = Ok (if idx >? c_len c then (ARES_EFORMERR, c) else (ARES_SUCCESS, set_off c idx)).
Proof.
  intros Hc. unfold set_position, c_ares_buf_set_position.
  destruct (idx >? c_len c); simpl.
  - rewrite Z.eqb_refl. reflexivity.
  - destruct (idx =? c_off c) eqn:E; [|reflexivity].
    apply Z.eqb_eq in E. subst idx. rewrite set_off_id by assumption. reflexivity.
Qed.

(* ---- raw memory ---- *)

Lemma nth_error_skipn {A} (l : list A) : forall n k, nth_error (skipn n l) k = nth_error l (n + k).
Proof.
  induction l as [|x l IH]; intros n k.
  - rewrite skipn_nil. destruct k, n; reflexivity.
  - destruct n; [reflexivity | simpl; apply IH].
Qed.

Lemma byte_rel_ok c k :
  cur_ok c -> c_off c + Z.of_nat k < c_len c -> exists b, byte_rel c k = Ok b /\ 0 <= b.
Proof.
  intros (Ho & Hl & Hb & Hr) Hi. unfold byte_rel. rewrite Hr, nth_error_skipn.
  destruct (nth_error (c_data c) (Z.to_nat (c_off c) + k)) eqn:En.
  - eexists; split; [reflexivity | lia].
  - apply nth_error_None in En. lia.
Qed.

Lemma take_exact_ok n : forall l, (n <= length l)%nat -> exists r, take_exact n l = Some r /\ length r = n.
Proof.
  induction n as [|n IH]; intros l Hl; simpl.
  - eexists; split; reflexivity.
  - destruct l as [|x t]; simpl in Hl; [lia|].
    destruct (IH t ltac:(lia)) as (r & Hr & Hlen). rewrite Hr.
    eexists; split; [reflexivity | simpl; lia].
Qed.

Lemma take_exact_firstn n : forall l r, take_exact n l = Some r -> r = firstn n l /\ (n <= length l)%nat.
Proof.
  induction n as [|n IH]; intros l r H; simpl in *.
  - injection H as <-. split; [reflexivity | lia].
  - destruct l as [|x t]; [discriminate|].
    destruct (take_exact n t) eqn:E; [|discriminate]. injection H as <-.
    destruct (IH t l E) as [-> Hl]. split; [reflexivity | simpl; lia].
Qed.

Lemma read_bytes_ok c n :
  cur_ok c -> c_off c + Z.of_nat n <= c_len c ->
  exists l, read_bytes c n = Ok l /\ length l = n.
Proof.
  intros (Ho & Hl & Hb & Hr) He. unfold read_bytes.
  destruct (take_exact_ok n (c_rest c)) as (r & Hrr & Hlen).
  { rewrite Hr, skipn_length. lia. }
  rewrite Hrr. eauto.
Qed.

(* ---- fetch functions ---- *)

(* what a fetch of n octets leaves behind *)
Definition advanced (c : cursor) (n : Z) (c' : cursor) : Prop :=
  cur_ok c' /\ same_block c c' /\ c_off c' = c_off c + n.

Lemma advanced_set_off c n :
  cur_ok c -> 0 <= n -> c_off c + n <= c_len c -> advanced c n (set_off c (c_off c + n)).
Proof.
  intros Hc Hn Hle. split; [|split].
  - apply cur_ok_set_off; [assumption | destruct Hc; lia].
  - apply set_off_same.
  - reflexivity.
Qed.

Lemma fetch_u8_safe c :
  cur_ok c -> safe (fun r => 0 <= fst r /\ advanced c 1 (snd r)) (fetch_u8 c).
Proof.
  intros Hc. unfold fetch_u8, fetch_remaining. rewrite (buf_len_ok c Hc). simpl.
  destruct (c_len c - c_off c <? 1) eqn:E; [simpl; status_ne|].
  apply Z.ltb_ge in E.
  destruct (byte_rel_ok c 0 Hc) as (b & Hb & Hb0); [destruct Hc; lia|].
  rewrite Hb. simpl.
  rewrite (checked_consume_spec c 1 Hc) by lia.
  destruct (c_len c - c_off c <? 1) eqn:E2; [apply Z.ltb_lt in E2; lia|].
  simpl. split; [assumption | apply advanced_set_off; [assumption | lia | lia]].
Qed.

Lemma fetch_be16_safe c :
  cur_ok c -> safe (fun r => 0 <= fst r < 65536 /\ advanced c 2 (snd r)) (fetch_be16 c).
Proof.
  intros Hc. unfold fetch_be16, fetch_remaining. rewrite (buf_len_ok c Hc). simpl.
  destruct (c_len c - c_off c <? 2) eqn:E; [simpl; status_ne|].
  apply Z.ltb_ge in E.
  destruct (byte_rel_ok c 0 Hc) as (b0 & Hb0 & ?); [destruct Hc; lia|].
  destruct (byte_rel_ok c 1 Hc) as (b1 & Hb1 & ?); [destruct Hc; lia|].
  rewrite Hb0, Hb1. simpl.
  rewrite (checked_consume_spec c 2 Hc) by lia.
  destruct (c_len c - c_off c <? 2) eqn:E2; [apply Z.ltb_lt in E2; lia|].
  simpl. split.
  - change 65535 with (Z.ones 16). rewrite Z.land_ones by lia.
    change 65536 with (2 ^ 16). apply Z.mod_pos_bound. lia.
  - apply advanced_set_off; [assumption | lia | lia].
Qed.

Lemma fetch_be32_safe c :
  cur_ok c -> safe (fun r => 0 <= fst r /\ advanced c 4 (snd r)) (fetch_be32 c).
Proof.
  intros Hc. unfold fetch_be32, fetch_remaining. rewrite (buf_len_ok c Hc). simpl.
  destruct (c_len c - c_off c <? 4) eqn:E; [simpl; status_ne|].
  apply Z.ltb_ge in E.
  destruct (byte_rel_ok c 0 Hc) as (b0 & Hb0 & ?); [destruct Hc; lia|].
  destruct (byte_rel_ok c 1 Hc) as (b1 & Hb1 & ?); [destruct Hc; lia|].
  destruct (byte_rel_ok c 2 Hc) as (b2 & Hb2 & ?); [destruct Hc; lia|].
  destruct (byte_rel_ok c 3 Hc) as (b3 & Hb3 & ?); [destruct Hc; lia|].
  rewrite Hb0, Hb1, Hb2, Hb3. simpl.
  rewrite (checked_consume_spec c 4 Hc) by lia.
  destruct (c_len c - c_off c <? 4) eqn:E2; [apply Z.ltb_lt in E2; lia|].
  simpl. split.
  - rewrite !Z.lor_nonneg, !Z.shiftl_nonneg. tauto.
  - apply advanced_set_off; [assumption | lia | lia].
Qed.

Lemma fetch_bytes_safe c len :
  cur_ok c -> 0 <= len ->
  safe (fun r => Z.of_nat (length (fst r)) = len /\ 0 < len /\ advanced c len (snd r)) (fetch_bytes c len).
Proof.
  intros Hc Hlen. unfold fetch_bytes, fetch_remaining. rewrite (buf_len_ok c Hc). simpl.
  destruct (len =? 0) eqn:E0; [simpl; status_ne|]. apply Z.eqb_neq in E0.
  destruct (c_len c - c_off c <? len) eqn:E; [simpl; status_ne|].
  apply Z.ltb_ge in E. simpl.
  destruct (read_bytes_ok c (Z.to_nat len) Hc) as (l & Hl & Hll); [lia|].
  rewrite Hl. simpl.
  rewrite (checked_consume_spec c len Hc) by lia.
  destruct (c_len c - c_off c <? len) eqn:E2; [apply Z.ltb_lt in E2; lia|].
  simpl. split; [lia | split; [lia | apply advanced_set_off; [assumption | lia | lia]]].
Qed.

Lemma peek_bytes_ok c len :
  cur_ok c -> 0 <= len -> c_off c + len <= c_len c ->
  exists l, peek_bytes c len = Ok l /\ Z.of_nat (length l) = len.
Proof.
  intros Hc Hl Hle. unfold peek_bytes.
  destruct (read_bytes_ok c (Z.to_nat len) Hc) as (l & Hr & Hll); [lia|].
  exists l. split; [assumption | lia].
Qed.

Lemma fetch_str_safe c len :
  cur_ok c -> 0 <= len ->
  safe (fun r => Z.of_nat (length (fst r)) = len /\ 0 < len /\ advanced c len (snd r)) (fetch_str c len).
Proof.
  intros Hc Hlen. unfold fetch_str, fetch_remaining. rewrite (buf_len_ok c Hc). simpl.
  destruct (len =? 0) eqn:E0; [simpl; status_ne|]. apply Z.eqb_neq in E0.
  destruct (c_len c - c_off c <? len) eqn:E; [simpl; status_ne|].
  apply Z.ltb_ge in E. simpl.
  destruct (read_bytes_ok c (Z.to_nat len) Hc) as (l & Hl & Hll); [lia|].
  rewrite Hl. simpl.
  destruct (all_printable l); simpl; [|status_ne].
  rewrite (checked_consume_spec c len Hc) by lia.
  destruct (c_len c - c_off c <? len) eqn:E2; [apply Z.ltb_lt in E2; lia|].
  simpl. split; [lia | split; [lia | apply advanced_set_off; [assumption | lia | lia]]].
Qed.

(* position after the call: somewhere at or after the old offset, same block *)
Definition moved_on (c c' : cursor) : Prop :=
  cur_ok c' /\ same_block c c' /\ c_off c < c_off c'.

Lemma advanced_moved_on c n c' : 0 < n -> advanced c n c' -> moved_on c c'.
Proof. intros Hn (H1 & H2 & H3). repeat split; try apply H1; try apply H2. lia. Qed.

Lemma parse_dns_binstr_safe c rl want vp :
  cur_ok c ->
  safe (fun r => moved_on c (snd r)) (parse_dns_binstr c rl want vp).
Proof.
  intros Hc. unfold parse_dns_binstr.
  destruct (rl =? 0); [simpl; status_ne|].
  eapply safe_bind; [apply (fetch_u8_safe c Hc)|].
  intros [len c1] (Hlen & Hadv); simpl in Hlen, Hadv.
  destruct (len >? (rl - 1) mod 2 ^ 64); [simpl; status_ne|].
  assert (Hm1 : moved_on c c1) by (eapply advanced_moved_on; [|eassumption]; lia).
  destruct (len =? 0) eqn:El0; [simpl; exact Hm1|]. apply Z.eqb_neq in El0.
  destruct Hadv as (Hc1 & Hsb1 & Ho1).
  rewrite (buf_len_ok c1 Hc1). simpl.
  eapply safe_bind with (Q := fun _ => True).
  - destruct (vp && (c_len c1 - c_off c1 >=? len)) eqn:Ev; [|simpl; exact I].
    apply andb_prop in Ev. destruct Ev as [_ Ev]. apply Z.geb_le in Ev.
    destruct (peek_bytes_ok c1 len Hc1) as (l & Hp & _); [lia | lia |].
    rewrite Hp. simpl. destruct (all_printable l); simpl; [exact I | status_ne].
  - intros _ _. destruct want.
    + eapply safe_mono; [apply (fetch_bytes_safe c1 len Hc1); lia|].
      intros [bs c2] (_ & Hpos & (Hc2 & Hsb2 & Ho2)). simpl in *.
      repeat split; try apply Hc2.
      * destruct Hsb1, Hsb2; congruence.
      * destruct Hsb1, Hsb2; congruence.
      * lia.
    + rewrite (checked_consume_spec c1 len Hc1) by lia.
      destruct (c_len c1 - c_off c1 <? len) eqn:E; simpl; [status_ne|].
      apply Z.ltb_ge in E.
      destruct (advanced_set_off c1 len Hc1) as (Hc2 & Hsb2 & Ho2); [lia | lia |].
      repeat split; try apply Hc2.
      * destruct Hsb1, Hsb2; congruence.
      * destruct Hsb1, Hsb2; congruence.
      * simpl. lia.
Qed.

Lemma cur_of_bytes_ok bs : Z.of_nat (length bs) < 2 ^ 64 -> cur_ok (cur_of_bytes bs).
Proof. intros H. repeat split; simpl; lia. Qed.
