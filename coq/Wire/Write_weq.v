(* The writer cannot tell a record from its Wnorm normal form: a text field held as STR or as NAME,
   an absent or an empty binary value are written alike.  Hence records equal up to Wnorm are
   serialised to the same octets. *)
From Coq Require Import List ZArith Lia Bool.
Import ListNotations.
From CAres.Wire Require Import Cursor Name Record Parse Escape RefDecode Write Wnorm.
From CAres.Gen Require Import Consts LeafFns Tables.
Local Open Scope Z_scope.

Lemma assoc_get_map k (f : fval -> fval) : forall l,
  assoc_get k (map (fun kv => (fst kv, f (snd kv))) l) = option_map f (assoc_get k l).
Proof. induction l as [|[k' v] l IH]; [reflexivity|]. cbn [map fst snd assoc_get]. destruct (k =? k'); [reflexivity | exact IH]. Qed.

Lemma get_field_wnorm r k : get_field (wnorm_rr r) k = option_map wnorm_fval (get_field r k).
Proof. unfold get_field, wnorm_rr. cbn [rr_fields]. apply assoc_get_map. Qed.

Lemma bind_ext {A B} (m m' : outcome A) (f f' : A -> outcome B) : m = m' -> (forall x, f x = f' x) -> bind m f = bind m' f'.
Proof. intros -> H. destruct m' as [a| |]; cbn [bind]; [apply H | reflexivity | reflexivity]. Qed.

Lemma wb_append_nil b : wb_append b [] = b.
Proof. reflexivity. Qed.

Section W.
  Variable wv : wvariant.
  Variable base : Z.
  Hypothesis Hraw : wv_raw_empty wv = true.

  Ltac prim := rewrite get_field_wnorm; match goal with |- context [get_field ?r ?k] => destruct (get_field r k) as [[| | | | |[?|]|[?|]|[?|]| |]|] end; reflexivity.

  Lemma weq_be16 b r k : write_rr_be16 b r k = write_rr_be16 b (wnorm_rr r) k. Proof. unfold write_rr_be16. prim. Qed.
  Lemma weq_be32 b r k : write_rr_be32 b r k = write_rr_be32 b (wnorm_rr r) k. Proof. unfold write_rr_be32. prim. Qed.
  Lemma weq_u8 b r k : write_rr_u8 b r k = write_rr_u8 b (wnorm_rr r) k. Proof. unfold write_rr_u8. prim. Qed.
  Lemma weq_str b r k : write_rr_str b r k = write_rr_str b (wnorm_rr r) k. Proof. unfold write_rr_str. prim. Qed.
  Lemma weq_rest_bin b r k : write_rr_rest_bin b r k = write_rr_rest_bin b (wnorm_rr r) k. Proof. unfold write_rr_rest_bin. prim. Qed.
  Lemma weq_abin b r k : write_rr_abin b r k = write_rr_abin b (wnorm_rr r) k. Proof. unfold write_rr_abin. prim. Qed.
  Lemma weq_opts b r k : write_opts b r k = write_opts b (wnorm_rr r) k. Proof. unfold write_opts. prim. Qed.
  Lemma weq_name b r nl k : write_rr_name wv base b r nl k = write_rr_name wv base b (wnorm_rr r) nl k. Proof. unfold write_rr_name. prim. Qed.

  Ltac compose :=
    repeat first [ reflexivity
                 | apply weq_be16 | apply weq_be32 | apply weq_u8 | apply weq_str | apply weq_rest_bin | apply weq_abin | apply weq_name
                 | rewrite <- weq_opts
                 | apply bind_ext; [|intros ?] ].

  Lemma weq_rr_data b r nlp rcode : write_rr_data wv base b r nlp rcode = write_rr_data wv base b (wnorm_rr r) nlp rcode.
  Proof.
    unfold write_rr_data. cbv zeta. change (rr_type (wnorm_rr r)) with (rr_type r).
    repeat match goal with |- (if ?c then _ else _) = (if ?c then _ else _) => destruct c end; compose;
      try (rewrite !get_field_wnorm;
           repeat match goal with |- context [get_field ?r ?k] => destruct (get_field r k) as [[| | | | |[?|]|[?|]|[?|]| |]|] end;
           cbn [option_map wnorm_fval]; rewrite ?Hraw, ?wb_append_nil; compose).
  Qed.

  Lemma weq_one_rr b nl r rcode ttl_dec : write_one_rr wv base b nl r rcode ttl_dec = write_one_rr wv base b nl (wnorm_rr r) rcode ttl_dec.
  Proof.
    unfold write_one_rr. cbv zeta. change (rr_type (wnorm_rr r)) with (rr_type r). change (rr_name (wnorm_rr r)) with (rr_name r).
    change (rr_class (wnorm_rr r)) with (rr_class r). change (rr_ttl (wnorm_rr r)) with (rr_ttl r).
    apply bind_ext; [reflexivity|]. intros s0. apply bind_ext; [apply weq_rr_data | reflexivity].
  Qed.

  Lemma weq_rrs rcode ttl_dec : forall rs rs' b nl, map wnorm_rr rs = map wnorm_rr rs' ->
    write_rrs wv base b nl rs rcode ttl_dec = write_rrs wv base b nl rs' rcode ttl_dec.
  Proof.
    induction rs as [|r rs IH]; intros [|r' rs'] b nl H; try discriminate H; [reflexivity|].
    cbn [map] in H. remember (wnorm_rr r) as wr eqn:Er. remember (wnorm_rr r') as wr' eqn:Er'. injection H as H1 H2. subst wr wr'.
    cbn [write_rrs]. rewrite (weq_one_rr b nl r), (weq_one_rr b nl r'), H1. apply bind_ext; [reflexivity|]. intros s. apply IH. exact H2.
  Qed.
End W.

(* records equal up to Wnorm are written to the same octets *)
Theorem dns_write_wnorm d d' :
  wnorm_parsed d = wnorm_parsed d' -> dns_write d = dns_write d'.
Proof.
  unfold wnorm_parsed. intros H. injection H as H1 H2 H3 H4 H5 H6 H7 H8.
  unfold dns_write, dns_write_v, write_buf. cbv zeta.
  assert (Hh : write_header wb_empty d = write_header wb_empty d').
  { unfold write_header, has_opt. cbv zeta. rewrite H1, H2, H3, H4, H5.
    assert (Hl : forall l l' : list rr, map wnorm_rr l = map wnorm_rr l' -> length l = length l')
      by (intros l l' G; rewrite <- (map_length wnorm_rr l), G, map_length; reflexivity).
    rewrite (Hl _ _ H6), (Hl _ _ H7), (Hl _ _ H8).
    assert (He : existsb (fun r => rr_type r =? ARES_REC_TYPE_OPT) (d_ar d) = existsb (fun r => rr_type r =? ARES_REC_TYPE_OPT) (d_ar d')).
    { clear -H8. revert H8. generalize (d_ar d'). induction (d_ar d) as [|r l IH]; intros [|r' l'] G; try discriminate G; [reflexivity|].
      cbn [map] in G. remember (wnorm_rr r) as wr eqn:Er. remember (wnorm_rr r') as wr' eqn:Er'. injection G as G1 G2. subst wr wr'.
      cbn [existsb]. rewrite (IH l' G2).
      assert (rr_type r = rr_type r') by (apply (f_equal rr_type) in G1; exact G1). rewrite H. reflexivity. }
    rewrite He. reflexivity. }
  rewrite Hh, H5, H4.
  match goal with |- bind (match ?x with _ => _ end) _ = bind (match ?y with _ => _ end) _ => assert (Hb : x = y) end.
  { apply bind_ext; [reflexivity|]. intros s1.
    apply bind_ext; [apply (weq_rrs wfixed 0 eq_refl); exact H6|]. intros s2.
    apply bind_ext; [apply (weq_rrs wfixed 0 eq_refl); exact H7|]. intros s3.
    apply bind_ext; [apply (weq_rrs wfixed 0 eq_refl); exact H8|]. reflexivity. }
  rewrite Hb. reflexivity.
Qed.
