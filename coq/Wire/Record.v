(* The DNS record data type of src/lib/record/ares_dns_record.c as seen through the public
   getters/setters: header fields, questions, three RR sections; every RR carries its name,
   type, class, TTL and a field list keyed by ares_dns_rr_key_t.  Which keys an RR type has, and
   the datatype of each key, come from the library itself (CAres.Gen.Tables, produced by
   gen/tables.c on every run).

   A freshly added RR is the zero-initialised C struct: every key of its type is present with
   the zero value of its datatype (NULL pointers are [None]). *)
From CAres.Base Require Export Outcome CInt.
From CAres.Gen Require Import Consts LeafFns Tables.
Local Open Scope Z_scope.

Inductive fval :=
| FAddr (b : list N)                 (* struct in_addr, 4 octets *)
| FAddr6 (b : list N)                (* struct ares_in6_addr, 16 octets *)
| FU8 (z : Z)
| FU16 (z : Z)
| FU32 (z : Z)
| FName (s : option (list N))        (* char *: NULL or text *)
| FStr (s : option (list N))
| FBin (b : option (list N))         (* BIN / BINP: pointer + length; NULL has length 0 *)
| FAbin (l : list (list N))          (* multistring; NULL and empty both have count 0 *)
| FOpt (l : list (Z * list N)).      (* option array in stored order; NULL and empty: count 0 *)

Record rr := mkRR {
  rr_name : list N;
  rr_type : Z;            (* ares_dns_rec_type_t; ARES_REC_TYPE_RAW_RR = 65536 *)
  rr_class : Z;
  rr_ttl : Z;
  rr_fields : list (Z * fval) }.

Record question := mkQ { q_name : list N; q_type : Z; q_class : Z }.

Record dnsrec := mkRec {
  d_id : Z;
  d_flags : Z;            (* ARES_FLAG_* bits *)
  d_opcode : Z;
  d_rcode : Z;            (* ares_dns_record_get_rcode *)
  d_raw_rcode : Z;        (* internal: 12-bit rcode being assembled by the parser *)
  d_qd : list question;
  d_an : list rr;
  d_ns : list rr;
  d_ar : list rr }.

(* the zero value of a datatype (memset 0 of the union) *)
Definition zero_of_datatype (dt : Z) : option fval :=
  if dt =? ARES_DATATYPE_INADDR then Some (FAddr [0; 0; 0; 0]%N)
  else if dt =? ARES_DATATYPE_INADDR6 then Some (FAddr6 (repeat 0%N 16))
  else if dt =? ARES_DATATYPE_U8 then Some (FU8 0)
  else if dt =? ARES_DATATYPE_U16 then Some (FU16 0)
  else if dt =? ARES_DATATYPE_U32 then Some (FU32 0)
  else if dt =? ARES_DATATYPE_NAME then Some (FName None)
  else if dt =? ARES_DATATYPE_STR then Some (FStr None)
  else if (dt =? ARES_DATATYPE_BIN) || (dt =? ARES_DATATYPE_BINP) then Some (FBin None)
  else if dt =? ARES_DATATYPE_ABINP then Some (FAbin [])
  else if dt =? ARES_DATATYPE_OPT then Some (FOpt [])
  else None.

Fixpoint zero_fields (keys : list Z) : list (Z * fval) :=
  match keys with
  | [] => []
  | k :: t => match zero_of_datatype (key_datatype k) with
              | Some v => (k, v) :: zero_fields t
              | None => zero_fields t
              end
  end.

(* the validity checks of ares_dns_record_rr_add, then the zeroed array member *)
Definition rr_add (name : list N) (sect type rclass ttl : Z) : outcome rr :=
  if negb ((sect =? ARES_SECTION_ANSWER) || (sect =? ARES_SECTION_AUTHORITY) || (sect =? ARES_SECTION_ADDITIONAL))
     || negb (rec_type_isvalid type false) || negb (class_isvalid rclass type false)
  then Err ARES_EFORMERR
  else Ok (mkRR name type rclass ttl (zero_fields (rr_keys type))).

Fixpoint assoc_get {A} (k : Z) (l : list (Z * A)) : option A :=
  match l with
  | [] => None
  | (k', v) :: t => if k =? k' then Some v else assoc_get k t
  end.

Fixpoint assoc_set {A} (k : Z) (v : A) (l : list (Z * A)) : list (Z * A) :=
  match l with
  | [] => []
  | (k', v') :: t => if k =? k' then (k, v) :: t else (k', v') :: assoc_set k v t
  end.

(* which setter a value goes through: the datatype test at the top of ares_dns_rr_set_* *)
Definition setter_accepts (v : fval) (dt : Z) : bool :=
  match v with
  | FAddr _ => dt =? ARES_DATATYPE_INADDR
  | FAddr6 _ => dt =? ARES_DATATYPE_INADDR6
  | FU8 _ => dt =? ARES_DATATYPE_U8
  | FU16 _ => dt =? ARES_DATATYPE_U16
  | FU32 _ => dt =? ARES_DATATYPE_U32
  | FName _ | FStr _ => (dt =? ARES_DATATYPE_STR) || (dt =? ARES_DATATYPE_NAME)       (* set_str_own *)
  | FBin _ => (dt =? ARES_DATATYPE_BIN) || (dt =? ARES_DATATYPE_BINP)                 (* set_bin_own, non-ABINP branch *)
  | FAbin _ => dt =? ARES_DATATYPE_ABINP                                              (* set_abin_own *)
  | FOpt _ => dt =? ARES_DATATYPE_OPT
  end.

(* ares_dns_rr_set_{addr,addr6,u8,u16,u32,str_own,bin_own,abin_own}: datatype test, then
   ares_dns_rr_data_ptr (rr->type must be the key's record type, the key must be a member) *)
Definition rr_set (r : rr) (key : Z) (v : fval) : outcome rr :=
  if negb (setter_accepts v (key_datatype key)) then Err ARES_EFORMERR else
  if negb (rr_type r =? key_to_rec_type key) then Err ARES_EFORMERR else
  match assoc_get key (rr_fields r) with
  | None => Err ARES_EFORMERR
  | Some _ => Ok (mkRR (rr_name r) (rr_type r) (rr_class r) (rr_ttl r) (assoc_set key v (rr_fields r)))
  end.

(* the replace-or-append of ares_dns_rr_set_opt_own on the option array *)
Fixpoint opt_replace (opt : Z) (val : list N) (l : list (Z * list N)) : list (Z * list N) :=
  match l with
  | [] => [(opt, val)]
  | (o, v) :: t => if o =? opt then (opt, val) :: t else (o, v) :: opt_replace opt val t
  end.

(* ares_dns_rr_set_opt_own *)
Definition rr_set_opt (r : rr) (key opt : Z) (val : list N) : outcome rr :=
  if negb (key_datatype key =? ARES_DATATYPE_OPT) then Err ARES_EFORMERR else
  if negb (rr_type r =? key_to_rec_type key) then Err ARES_EFORMERR else
  match assoc_get key (rr_fields r) with
  | Some (FOpt l) =>
    Ok (mkRR (rr_name r) (rr_type r) (rr_class r) (rr_ttl r) (assoc_set key (FOpt (opt_replace opt val l)) (rr_fields r)))
  | _ => Err ARES_EFORMERR
  end.

(* ares_dns_rr_add_opt_own (fixes/C04-opt-duplicate-options.patch): always appends *)
Definition rr_add_opt (r : rr) (key opt : Z) (val : list N) : outcome rr :=
  if negb (key_datatype key =? ARES_DATATYPE_OPT) then Err ARES_EFORMERR else
  if negb (rr_type r =? key_to_rec_type key) then Err ARES_EFORMERR else
  match assoc_get key (rr_fields r) with
  | Some (FOpt l) =>
    Ok (mkRR (rr_name r) (rr_type r) (rr_class r) (rr_ttl r) (assoc_set key (FOpt (l ++ [(opt, val)])) (rr_fields r)))
  | _ => Err ARES_EFORMERR
  end.

(* ares_dns_rr_add_abin: one more string at the end of the multistring *)
Definition rr_add_abin (r : rr) (key : Z) (val : list N) : outcome rr :=
  if negb (key_datatype key =? ARES_DATATYPE_ABINP) then Err ARES_EFORMERR else
  if negb (rr_type r =? key_to_rec_type key) then Err ARES_EFORMERR else
  match assoc_get key (rr_fields r) with
  | Some (FAbin l) =>
    Ok (mkRR (rr_name r) (rr_type r) (rr_class r) (rr_ttl r) (assoc_set key (FAbin (l ++ [val])) (rr_fields r)))
  | _ => Err ARES_EFORMERR
  end.

(* ares_dns_record_create: validity of opcode / rcode / flags *)
Definition record_create (id flags opcode rcode : Z) : outcome dnsrec :=
  do fl <- c_ares_dns_flags_arevalid flags;
  if negb (opcode_isvalid opcode) || negb (rcode_isvalid rcode) || (fl =? ARES_FALSE) then Err ARES_EFORMERR
  else Ok (mkRec id flags opcode rcode 0 [] [] [] []).

(* ares_dns_record_query_add *)
Definition query_add (d : dnsrec) (name : list N) (qtype qclass : Z) : outcome dnsrec :=
  if negb (rec_type_isvalid qtype true) || negb (class_isvalid qclass qtype true) then Err ARES_EFORMERR
  else Ok (mkRec (d_id d) (d_flags d) (d_opcode d) (d_rcode d) (d_raw_rcode d)
                 (d_qd d ++ [mkQ name qtype qclass]) (d_an d) (d_ns d) (d_ar d)).

Definition set_raw_rcode (d : dnsrec) (rc : Z) : dnsrec :=
  mkRec (d_id d) (d_flags d) (d_opcode d) (d_rcode d) rc (d_qd d) (d_an d) (d_ns d) (d_ar d).

Definition set_rcode (d : dnsrec) (rc : Z) : dnsrec :=
  mkRec (d_id d) (d_flags d) (d_opcode d) rc (d_raw_rcode d) (d_qd d) (d_an d) (d_ns d) (d_ar d).

(* the array member written by ares_dns_record_rr_add becomes visible in its section *)
Definition section_append (d : dnsrec) (sect : Z) (r : rr) : dnsrec :=
  if sect =? ARES_SECTION_ANSWER then
    mkRec (d_id d) (d_flags d) (d_opcode d) (d_rcode d) (d_raw_rcode d) (d_qd d) (d_an d ++ [r]) (d_ns d) (d_ar d)
  else if sect =? ARES_SECTION_AUTHORITY then
    mkRec (d_id d) (d_flags d) (d_opcode d) (d_rcode d) (d_raw_rcode d) (d_qd d) (d_an d) (d_ns d ++ [r]) (d_ar d)
  else
    mkRec (d_id d) (d_flags d) (d_opcode d) (d_rcode d) (d_raw_rcode d) (d_qd d) (d_an d) (d_ns d) (d_ar d ++ [r]).
