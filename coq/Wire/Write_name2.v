(* C03, names, compressed path: ares_dns_name_write under the offset-list invariant of DESIGN.md A.4
   (fixed variant: offsets relative to the message, no targets beyond 16383). *)
From CAres.Wire Require Import Cursor Cursor_proofs Name Name_proofs Record Escape Escape_proofs RefDecode Bits
     Name_ref Ref_mono Write Write_name Split_tokens Write_host.
From CAres.Gen Require Import Consts LeafFns Tables.
Local Open Scope Z_scope.

(* ---- pointer octets ---- *)
Lemma pointer_bytes idx :
  0 <= idx < 16384 ->
  let v := Z.lor 49152 (Z.land idx 16383) in
  Z.land (Z.land (Z.shiftr v 8) 255) 255 = 192 + idx / 256 /\ Z.land (Z.land v 255) 255 = idx mod 256.
Proof.
  intros H. cbv zeta.
  assert (E1 : Z.land idx 16383 = idx).
  { change 16383 with (Z.ones 14). rewrite Z.land_ones by lia. apply Z.mod_small. change (2 ^ 14) with 16384. lia. }
  rewrite E1.
  assert (E2 : Z.lor 49152 idx = 49152 + idx).
  { replace (Z.lor 49152 idx) with (Z.lor (Z.shiftl 3 14) idx) by reflexivity.
    rewrite (lor_shiftl_add 3 idx 14) by (change (2 ^ 14) with 16384; lia).
    change (2 ^ 14) with 16384. lia. }
  rewrite E2. rewrite Z.shiftr_div_pow2 by lia. change (2 ^ 8) with 256.
  change 255 with (Z.ones 8). rewrite !Z.land_ones by lia. change (2 ^ 8) with 256.
  rewrite !Z.mod_mod by lia.
  split.
  - assert (E3 : (49152 + idx) / 256 = 192 + idx / 256).
    { Zify.zify. Z.div_mod_to_equations. lia. }
    rewrite E3. apply Z.mod_small. assert (0 <= idx / 256 < 64) by (split; [apply Z.div_pos; lia | apply Z.div_lt_upper_bound; lia]). lia.
  - Zify.zify. Z.div_mod_to_equations. lia.
Qed.

(* ---- decoding labels followed by a pointer ---- *)
Lemma ref_scan_enc_ptr follow start tgt ms : forall ps bf pre post,
  Forall label_ok ps -> (length ps < bf)%nat ->
  0 <= tgt < 16384 -> (Z.to_nat tgt < start)%nat -> follow (Z.to_nat tgt) = Some ms ->
  ref_scan follow bf (pre ++ enc_labels ps ++ Z.to_N (192 + tgt / 256) :: Z.to_N (tgt mod 256) :: post) start (length pre)
  = Some (ps ++ ms, (length pre + length (enc_labels ps) + 2)%nat).
Proof.
  induction ps as [|l ps IH]; intros bf pre post Hls Hbf Ht Hlt Hf.
  - destruct bf as [|bf]; [simpl in Hbf; lia|]. cbn [enc_labels flat_map app ref_scan].
    rewrite octet_app_mid.
    assert (Hq : 0 <= tgt / 256 < 64) by (split; [apply Z.div_pos; lia | apply Z.div_lt_upper_bound; lia]).
    assert (Hr : 0 <= tgt mod 256 < 256) by (apply Z.mod_pos_bound; lia).
    rewrite Z2N.id by lia.
    destruct (192 + tgt / 256 =? 0) eqn:E0; [apply Z.eqb_eq in E0; lia|].
    destruct (192 + tgt / 256 <? 64) eqn:E1; [apply Z.ltb_lt in E1; lia|].
    destruct (192 + tgt / 256 >=? 192) eqn:E2; [|rewrite Z.geb_leb in E2; apply Z.leb_gt in E2; lia].
    replace (pre ++ Z.to_N (192 + tgt / 256) :: Z.to_N (tgt mod 256) :: post)
      with ((pre ++ [Z.to_N (192 + tgt / 256)]) ++ Z.to_N (tgt mod 256) :: post) by (rewrite <- app_assoc; reflexivity).
    replace (length pre + 1)%nat with (length (pre ++ [Z.to_N (192 + tgt / 256)])) by (rewrite app_length; simpl; lia).
    rewrite octet_app_mid. rewrite Z2N.id by lia.
    replace ((192 + tgt / 256 - 192) * 256 + tgt mod 256) with tgt by (Zify.zify; Z.div_mod_to_equations; lia).
    replace (Nat.ltb (Z.to_nat tgt) start) with true by (symmetry; apply Nat.ltb_lt; assumption).
    rewrite Hf. cbn [app length]. f_equal. f_equal. lia.
  - destruct bf as [|bf]; [simpl in Hbf; lia|].
    inversion Hls as [|? ? Hl Hls']; subst. destruct Hl as [Hlo [Hl1 Hl63]].
    cbn [enc_labels flat_map]. fold (enc_labels ps).
    cbn [ref_scan]. rewrite <- !app_assoc. cbn [app]. rewrite octet_app_mid.
    rewrite nat_N_Z.
    destruct (Z.of_nat (length l) =? 0) eqn:E0; [apply Z.eqb_eq in E0; lia|].
    destruct (Z.of_nat (length l) <? 64) eqn:E64; [|apply Z.ltb_ge in E64; lia].
    rewrite Nat2Z.id.
    replace (pre ++ N.of_nat (length l) :: l ++ enc_labels ps ++ Z.to_N (192 + tgt / 256) :: Z.to_N (tgt mod 256) :: post)
      with ((pre ++ [N.of_nat (length l)]) ++ l ++ (enc_labels ps ++ Z.to_N (192 + tgt / 256) :: Z.to_N (tgt mod 256) :: post))
      by (rewrite <- app_assoc; reflexivity).
    replace (length pre + 1)%nat with (length (pre ++ [N.of_nat (length l)])) by (rewrite app_length; simpl; lia).
    rewrite slice_app_mid.
    replace (length (pre ++ [N.of_nat (length l)]) + length l)%nat
      with (length ((pre ++ [N.of_nat (length l)]) ++ l)) by (rewrite !app_length; reflexivity).
    replace ((pre ++ [N.of_nat (length l)]) ++ l ++ enc_labels ps ++ Z.to_N (192 + tgt / 256) :: Z.to_N (tgt mod 256) :: post)
      with (((pre ++ [N.of_nat (length l)]) ++ l) ++ enc_labels ps ++ Z.to_N (192 + tgt / 256) :: Z.to_N (tgt mod 256) :: post)
      by (rewrite <- !app_assoc; reflexivity).
    rewrite (IH bf _ post Hls') by (simpl in Hbf; lia || assumption).
    cbn [app]. f_equal. f_equal. rewrite !app_length. cbn [length]. rewrite app_length. lia.
Qed.

(* ---- ares_nameoffset_find ---- *)
Lemma list_eqb_eq a : forall b, list_eqb a b = true -> a = b.
Proof.
  induction a as [|x a IH]; intros [|y b] H; simpl in H; try discriminate; [reflexivity|].
  apply andb_prop in H. destruct H as [H1 H2]. apply N.eqb_eq in H1. subst. f_equal. auto.
Qed.

(* a stored name matches: it is the text behind a separating dot (or the whole text) *)
Definition suffix_match (e : nameoffset) (name : list N) : Prop :=
  slen (fst e) <= slen name /\
  fst e = skipn (Z.to_nat (slen name - slen (fst e))) name /\
  (slen name - slen (fst e) = 0 \/ nth_error name (Z.to_nat (slen name - slen (fst e) - 1)) = Some 46%N).

Lemma find_go_spec : forall l name best r,
  nameoffset_find_go l name best = Some r -> best = Some r \/ (In r l /\ suffix_match r name).
Proof.
  induction l as [|[vn vi] l IH]; intros name best r H; cbn [nameoffset_find_go] in H.
  - left. exact H.
  - assert (Hcont : nameoffset_find_go l name best = Some r -> best = Some r \/ In r ((vn, vi) :: l) /\ suffix_match r name).
    { intros Hc. destruct (IH _ _ _ Hc) as [Hb | [Hin Hm]]; [left; exact Hb | right; split; [right; exact Hin | exact Hm]]. }
    destruct (slen vn >? slen name) eqn:E1; [auto|].
    destruct (match best with Some (bn, _) => slen bn >? slen vn | None => false end); [auto|].
    destruct (negb (list_eqb vn (skipn (Z.to_nat (slen name - slen vn)) name))) eqn:E2; [auto|].
    destruct (negb (slen name - slen vn =? 0) &&
              negb match nth_error name (Z.to_nat (slen name - slen vn - 1)) with Some c => N.eqb c 46 | None => false end) eqn:E3; [auto|].
    destruct (IH _ _ _ H) as [Hb | [Hin Hm]].
    + injection Hb as <-. right. split; [left; reflexivity|].
      rewrite Z.gtb_ltb in E1. apply Z.ltb_ge in E1.
      apply negb_false_iff in E2. apply list_eqb_eq in E2.
      split; [exact E1 | split; [exact E2|]]. cbn [fst].
      apply andb_false_iff in E3. destruct E3 as [E3|E3].
      * left. apply negb_false_iff in E3. apply Z.eqb_eq in E3. exact E3.
      * right. apply negb_false_iff in E3.
        destruct (nth_error name (Z.to_nat (slen name - slen vn - 1))) as [c|]; [|discriminate].
        apply N.eqb_eq in E3. subst. reflexivity.
    + right. split; [right; exact Hin | exact Hm].
Qed.

Lemma find_spec l name r : nameoffset_find l name = Some r -> In r l /\ suffix_match r name.
Proof.
  unfold nameoffset_find. destruct (slen name =? 0); [discriminate|].
  intros H. destruct (find_go_spec _ _ _ _ H) as [Hb|Hr]; [discriminate | exact Hr].
Qed.

(* ---- text of a name = text of a prefix, a dot, text of a registered suffix ---- *)
Lemma label_ok_nonempty ls : Forall label_ok ls -> Forall (fun l => l <> []) ls.
Proof. intros H. eapply Forall_impl; [|exact H]. intros l [_ [H1 _]] ->. simpl in H1. lia. Qed.

Lemma label_ok_octets ls : Forall label_ok ls -> Forall octets_ok ls.
Proof. intros H. eapply Forall_impl; [|exact H]. intros l [H1 _]. exact H1. Qed.

Lemma escape_name_inj ls ms :
  Forall label_ok ls -> Forall label_ok ms -> escape_name ls = escape_name ms -> ls = ms.
Proof.
  intros Hl Hm E.
  pose proof (escape_roundtrip ls (label_ok_octets _ Hl) (label_ok_nonempty _ Hl)) as R1.
  pose proof (escape_roundtrip ms (label_ok_octets _ Hm) (label_ok_nonempty _ Hm)) as R2.
  rewrite E in R1. congruence.
Qed.

Lemma removelast_last_app {A} (l : list A) d : l <> [] -> removelast l ++ [last l d] = l.
Proof. intros H. symmetry. apply app_removelast_last. exact H. Qed.

Lemma last_is_empty_false (L : list (list N)) : Forall (fun l => l <> []) L -> last_is_empty L = false.
Proof.
  intros HLne. unfold last_is_empty. destruct (rev L) as [|x r] eqn:Er; [reflexivity|].
  destruct x; [|reflexivity]. exfalso.
  assert (Hin : In [] L) by (apply (proj2 (in_rev L [])); rewrite Er; left; reflexivity).
  rewrite Forall_forall in HLne. apply (HLne [] Hin). reflexivity.
Qed.

Lemma suffix_labels ls ms prefix ps :
  Forall label_ok ls -> Forall label_ok ms -> ms <> [] ->
  escape_name ls = prefix ++ 46%N :: escape_name ms ->
  split_dns_name false prefix = Ok ps ->
  ls = ps ++ ms.
Proof.
  intros Hls Hms Hmne Htext Hsplit.
  assert (Hlne : ls <> []).
  { intros ->. cbn in Htext. destruct prefix; discriminate. }
  unfold split_dns_name in Hsplit. rewrite split_go_tokens in Hsplit.
  destruct (tokens prefix) as [tp|] eqn:Etp; [|discriminate]. cbn [bind app] in Hsplit.
  pose proof (tokens_escape_name ls (label_ok_octets _ Hls)) as T1.
  pose proof (tokens_escape_name ms (label_ok_octets _ Hms)) as T2.
  rewrite Htext in T1. rewrite (tokens_app _ _ _ Etp) in T1.
  cbn [tokens] in T1. change (Z.of_N 46 =? 46) with true in T1. cbn iota in T1.
  rewrite T2 in T1. cbn [option_map] in T1. injection T1 as T1.
  pose proof (split_name_tokens ls Hlne) as S1. rewrite <- T1 in S1.
  rewrite split_dots_app in S1. rewrite (split_name_tokens ms Hmne) in S1.
  set (L := split_dots tp []) in *.
  assert (HL : L <> []) by apply split_dots_nonempty.
  assert (S2 : ls = L ++ ms).
  { rewrite <- S1. rewrite <- (removelast_last_app L [] HL) at 3. rewrite <- app_assoc. reflexivity. }
  (* no label of L is empty, so the clean-up steps of ares_split_dns_name do nothing *)
  assert (HLne : Forall (fun l => l <> []) L).
  { pose proof (label_ok_nonempty _ Hls) as H. rewrite S2 in H. apply Forall_app in H. exact (proj1 H). }
  pose proof (last_is_empty_false L HLne) as Hlast.
  cbv zeta in Hsplit. repeat rewrite Hlast in Hsplit. rewrite !Bool.andb_false_r in Hsplit.
  destruct (existsb (fun l => (slen l =? 0) || (slen l >? 63)) L); [discriminate|].
  match type of Hsplit with (if ?c then _ else _) = _ => destruct c end; [discriminate|].
  injection Hsplit as <-. exact S2.
Qed.

Lemma split_at_dot (name : list N) (p : nat) :
  (0 < p)%nat -> nth_error name (p - 1) = Some 46%N ->
  name = firstn (p - 1) name ++ 46%N :: skipn p name.
Proof.
  intros Hp Hn. rewrite <- (firstn_skipn (p - 1) name) at 1. f_equal.
  assert (Hlt : (p - 1 < length name)%nat) by (apply nth_error_Some; congruence).
  clear Hlt. revert p Hp Hn. induction name as [|x name IH]; intros p Hp Hn.
  - destruct (p - 1)%nat; discriminate.
  - destruct p as [|[|p]]; [lia | simpl in Hn; injection Hn as ->; reflexivity|].
    replace (S (S p) - 1)%nat with (S p) in * by lia. cbn [skipn nth_error] in *.
    replace (S p) with (S p - 1 + 1)%nat at 2 by lia.
    specialize (IH (S p) ltac:(lia)). replace (S p - 1)%nat with p in IH by lia.
    rewrite IH by assumption. reflexivity.
Qed.

(* ---- buffer bookkeeping ---- *)
Definition wb_wf (b : wbuf) : Prop := w_n b = Z.of_nat (length (w_rev b)).

Lemma w_live_length b : length (w_live b) = length (w_rev b).
Proof. unfold w_live. rewrite rev_append_rev, app_nil_r, rev_length. reflexivity. Qed.

Lemma wb_len_live b : wb_wf b -> wb_len b = Z.of_nat (length (w_live b)).
Proof. intros H. unfold wb_len. rewrite w_live_length. exact H. Qed.

Lemma wb_wf_append b bs : wb_wf b -> wb_wf (wb_append b bs).
Proof.
  unfold wb_wf, wb_append. intros H. destruct bs as [|x t]; [exact H|].
  cbn [w_n w_rev]. rewrite rev_append_rev, app_length, rev_length. lia.
Qed.

Lemma wb_wf_be16 b v : wb_wf b -> wb_wf (wb_append_be16 b v).
Proof. intros H. unfold wb_append_be16. apply wb_wf_append. exact H. Qed.

Lemma wb_wf_emit ls : forall b, wb_wf b ->
  wb_wf (fold_left (fun b l => wb_append (wb_append_byte b (Z.land (slen l) 255)) l) ls b).
Proof.
  induction ls as [|l ls IH]; intros b H; [exact H|]. cbn [fold_left]. apply IH.
  apply wb_wf_append. apply wb_wf_append. exact H.
Qed.

Lemma w_live_be16_ptr b idx :
  0 <= idx < 16384 ->
  w_live (wb_append_be16 b (Z.lor 49152 (Z.land idx 16383))) = w_live b ++ [Z.to_N (192 + idx / 256); Z.to_N (idx mod 256)].
Proof.
  intros H. unfold wb_append_be16. rewrite w_live_append.
  destruct (pointer_bytes idx H) as [E1 E2]. cbv zeta in E1, E2.
  rewrite E1, E2. reflexivity.
Qed.

(* ---- the offset-list invariant (DESIGN.md A.4) ---- *)
Definition entry_ok (out : list N) (e : nameoffset) : Prop :=
  exists ms en, fst e = escape_name ms /\ Forall label_ok ms /\ ms <> [] /\
                0 <= snd e < 16384 /\ (Z.to_nat (snd e) < length out)%nat /\
                ref_name out (Z.to_nat (snd e)) = Some (ms, en).

Definition ol_ok (out : list N) (ol : list nameoffset) : Prop := Forall (entry_ok out) ol.

Lemma entry_ok_app out more e : entry_ok out e -> entry_ok (out ++ more) e.
Proof.
  intros (ms & en & H1 & H2 & H3 & H4 & H5 & H6).
  exists ms, en. repeat split; try assumption; try lia.
  - rewrite app_length. lia.
  - apply ref_name_app. exact H6.
Qed.

Lemma ol_ok_app out more ol : ol_ok out ol -> ol_ok (out ++ more) ol.
Proof. intros H. eapply Forall_impl; [|exact H]. intros e. apply entry_ok_app. Qed.

Lemma slen_nonneg s : 0 <= slen s.
Proof. unfold slen. lia. Qed.

Lemma ptr_bytes_ok idx : 0 <= idx < 16384 -> bytes_ok [Z.to_N (192 + idx / 256); Z.to_N (idx mod 256)].
Proof.
  intros H.
  assert (Hq : 0 <= idx / 256 < 64) by (split; [apply Z.div_pos; lia | apply Z.div_lt_upper_bound; lia]).
  assert (Hr : 0 <= idx mod 256 < 256) by (apply Z.mod_pos_bound; lia).
  constructor; [lia|]. constructor; [lia | constructor].
Qed.

(* ares_dns_name_write with an offset list satisfying the invariant: the octets appended decode
   (at the position of the name, in the message [out ++ more], whatever follows) to the labels of
   the name, and the invariant holds for the new list *)
Theorem name_write_compressed (v : bool) b pre out ol ls :
  wb_wf b -> w_live b = pre ++ out -> ol_ok out ol ->
  Forall label_ok ls -> wire_len ls <= 256 -> slen (escape_name ls) < 512 ->
  (v = true -> Forall host_label ls) ->
  forall b' nl', name_write wfixed (Z.of_nat (length pre)) b (Some ol) v (escape_name ls) = Ok (b', nl') ->
  exists more ol', nl' = Some ol' /\ wb_wf b' /\ w_live b' = pre ++ out ++ more /\ ol_ok (out ++ more) ol' /\
    bytes_ok more /\
    forall post, ref_name (out ++ more ++ post) (length out) = Some (ls, (length out + length more)%nat).
Proof.
  intros Hwf Hlive Hol Hls Hw Ht Hv b' nl' H.
  set (name := escape_name ls) in *.
  assert (Hpos : wb_len b - Z.of_nat (length pre) = Z.of_nat (length out)).
  { rewrite (wb_len_live b Hwf), Hlive, app_length. lia. }
  unfold name_write in H. cbn [wv_msg_relative wv_name_no_trunc wv_ptr_limit wv_strip_dangling_escape wfixed] in H.
  rewrite Hpos in H.
  replace (slen name >=? 512) with false in H by (symmetry; rewrite Z.geb_leb; apply Z.leb_gt; exact Ht).
  cbn [andb] in H.
  assert (Hcopy : firstn 511 name = name) by (apply firstn_all2; unfold slen in Ht; lia).
  rewrite Hcopy in H.
  destruct (nameoffset_find ol name) as [[on idx]|] eqn:Efind.
  - (* a registered suffix *)
    destruct (find_spec _ _ _ Efind) as [Hin Hmatch].
    unfold ol_ok in Hol. rewrite Forall_forall in Hol.
    destruct (Hol _ Hin) as (ms & en & Hon & Hms & Hmne & Hidx & Hidxlt & Href). cbn [fst snd] in *.
    destruct Hmatch as (Hle & Hskip & Hdot). cbn [fst] in *.
    destruct (slen on =? slen name) eqn:Eex.
    + (* exact match: only a pointer *)
      apply Z.eqb_eq in Eex. cbn [negb andb] in H.
      replace (slen name - slen on) with 0 in Hskip by lia. cbn [Z.to_nat skipn] in Hskip.
      assert (Hlm : ls = ms).
      { apply escape_name_inj; try assumption. fold name. rewrite <- Hon. symmetry. exact Hskip. }
      injection H as <- <-.
      exists [Z.to_N (192 + idx / 256); Z.to_N (idx mod 256)], ol.
      split; [reflexivity|]. split; [apply wb_wf_be16; exact Hwf|].
      split; [rewrite (w_live_be16_ptr b idx Hidx), Hlive, <- app_assoc; reflexivity|].
      split; [apply ol_ok_app; unfold ol_ok; rewrite Forall_forall; exact Hol|].
      split; [apply ptr_bytes_ok; exact Hidx|].
      intros post. unfold ref_name. cbn [ref_name_fuel].
      pose proof (ref_scan_enc_ptr
                    (fun tgt => match ref_name_fuel (length out) (out ++ [Z.to_N (192 + idx / 256); Z.to_N (idx mod 256)] ++ post) tgt
                                with Some (ls0, _) => Some ls0 | None => None end)
                    (length out) idx ms [] (S (length (out ++ [Z.to_N (192 + idx / 256); Z.to_N (idx mod 256)] ++ post)))
                    out post (Forall_nil _) ltac:(simpl; lia) Hidx Hidxlt
                    (follow_knows out _ (length out) (Z.to_nat idx) ms en Hidxlt Href)) as D.
      cbn [enc_labels flat_map app length] in D. cbn [app]. rewrite D. subst ms. f_equal. f_equal. cbn [length]. lia.
    + (* a proper suffix: labels of the prefix, then a pointer *)
      apply Z.eqb_neq in Eex. cbn [negb] in H.
      assert (Hp : 0 < slen name - slen on) by lia.
      destruct Hdot as [Hd|Hd]; [lia|].
      set (p := Z.to_nat (slen name - slen on)) in *.
      assert (Hp1 : Z.to_nat (slen name - slen on - 1) = (p - 1)%nat) by (unfold p; lia).
      rewrite Hp1 in Hd.
      pose proof (split_at_dot name p ltac:(unfold p; lia) Hd) as Hsplitname.
      rewrite <- Hskip in Hsplitname.
      replace (Z.to_nat (slen name - (slen on + 1))) with (p - 1)%nat in H by (unfold p; lia).
      set (prefix := firstn (p - 1) name) in *.
      destruct (split_dns_name v prefix) as [ps| |] eqn:Esp0; cbn [bind] in H; try discriminate.
      assert (Esp : split_dns_name false prefix = Ok ps) by (destruct v; [apply split_dns_name_true_false; exact Esp0 | exact Esp0]).
      assert (Hlabels : ls = ps ++ ms).
      { apply (suffix_labels ls ms prefix ps Hls Hms Hmne); [|exact Esp]. fold name. rewrite <- Hon. exact Hsplitname. }
      assert (Hps : Forall label_ok ps) by (rewrite Hlabels in Hls; apply Forall_app in Hls; exact (proj1 Hls)).
      set (b1 := fold_left (fun b l => wb_append (wb_append_byte b (Z.land (slen l) 255)) l) ps b) in *.
      assert (Hb1 : w_live b1 = w_live b ++ enc_labels ps) by (apply emit_labels_live; exact Hps).
      assert (Hwf1 : wb_wf b1) by (apply wb_wf_emit; exact Hwf).
      set (more := enc_labels ps ++ [Z.to_N (192 + idx / 256); Z.to_N (idx mod 256)]).
      assert (Hlive2 : w_live (wb_append_be16 b1 (Z.lor 49152 (Z.land idx 16383))) = pre ++ out ++ more).
      { rewrite (w_live_be16_ptr b1 idx Hidx), Hb1, Hlive. unfold more. rewrite <- !app_assoc. reflexivity. }
      assert (Hdec : forall post, ref_name (out ++ more ++ post) (length out) = Some (ls, (length out + length more)%nat)).
      { intros post. unfold ref_name. cbn [ref_name_fuel]. unfold more. rewrite <- !app_assoc. cbn [app].
        pose proof (ref_scan_enc_ptr
                      (fun tgt => match ref_name_fuel (length out) (out ++ enc_labels ps ++ Z.to_N (192 + idx / 256) :: Z.to_N (idx mod 256) :: post) tgt
                                  with Some (ls0, _) => Some ls0 | None => None end)
                      (length out) idx ms ps (S (length (out ++ enc_labels ps ++ Z.to_N (192 + idx / 256) :: Z.to_N (idx mod 256) :: post)))
                      out post Hps) as D.
        specialize (D ltac:(rewrite !app_length; cbn [length];
                            assert (length ps <= length (enc_labels ps))%nat
                              by (clear; induction ps as [|l ps IH]; [simpl; lia|]; cbn [enc_labels flat_map length]; fold (enc_labels ps); rewrite app_length; simpl; lia);
                            lia) Hidx Hidxlt).
        specialize (D (follow_knows out _ (length out) (Z.to_nat idx) ms en Hidxlt Href)).
        rewrite D. rewrite Hlabels. f_equal. f_equal. rewrite !app_length. cbn [length]. lia. }
      cbn [negb andb] in H.
      destruct ((slen prefix >? 0) && negb (Z.of_nat (length out) >=? 16384)) eqn:Ereg.
      * (* registered *)
        try rewrite Ereg in H.
        destruct (nameoffset_create ol name (Z.of_nat (length out))) as [ol'| |] eqn:Ec; cbn [bind] in H; try discriminate.
        injection H as <- <-.
        exists more, ol'. split; [reflexivity|].
        split; [apply wb_wf_be16; exact Hwf1|].
        split; [exact Hlive2|].
        assert (Hmb : bytes_ok more) by (unfold more; apply bytes_ok_app; [apply bytes_ok_enc; exact Hps | apply ptr_bytes_ok; exact Hidx]).
        split; [|split; [exact Hmb | exact Hdec]].
        unfold nameoffset_create in Ec.
        destruct ((slen name =? 0) || (slen name >? 255)); [discriminate|]. injection Ec as <-.
        apply Forall_app. split; [apply ol_ok_app; unfold ol_ok; rewrite Forall_forall; exact Hol|].
        constructor; [|constructor].
        apply andb_prop in Ereg. destruct Ereg as [_ Elim]. apply negb_true_iff in Elim.
        rewrite Z.geb_leb in Elim. apply Z.leb_gt in Elim.
        exists ls, (length out + length more)%nat. cbn [fst snd].
        split; [reflexivity|]. split; [exact Hls|].
        split; [intros Hnil; rewrite Hnil in Hlabels; destruct ps; [cbn in Hlabels; congruence | discriminate]|].
        split; [lia|]. rewrite Nat2Z.id. split.
        -- rewrite app_length. unfold more. rewrite app_length. cbn [length]. lia.
        -- specialize (Hdec []). rewrite !app_nil_r in Hdec. exact Hdec.
      * try rewrite Ereg in H. injection H as <- <-.
        exists more, ol. split; [reflexivity|].
        split; [apply wb_wf_be16; exact Hwf1|].
        split; [exact Hlive2|]. split; [apply ol_ok_app; unfold ol_ok; rewrite Forall_forall; exact Hol|].
        split; [unfold more; apply bytes_ok_app; [apply bytes_ok_enc; exact Hps | apply ptr_bytes_ok; exact Hidx] | exact Hdec].
  - (* no suffix registered: all labels and the terminating zero octet *)
    cbn [negb andb] in H.
    pose proof (split_dns_name_canonical_v v ls Hls Hw Hv) as Hsp. fold name in Hsp. rewrite Hsp in H. cbn [bind] in H.
    set (b1 := fold_left (fun b l => wb_append (wb_append_byte b (Z.land (slen l) 255)) l) ls b) in *.
    assert (Hb1 : w_live b1 = w_live b ++ enc_labels ls) by (apply emit_labels_live; exact Hls).
    assert (Hwf1 : wb_wf b1) by (apply wb_wf_emit; exact Hwf).
    set (more := enc_labels ls ++ [0%N]).
    assert (Hlive2 : w_live (wb_append_byte b1 0) = pre ++ out ++ more).
    { rewrite w_live_append_byte, Hb1, Hlive. unfold more. rewrite <- !app_assoc. reflexivity. }
    assert (Hdec : forall post, ref_name (out ++ more ++ post) (length out) = Some (ls, (length out + length more)%nat)).
    { intros post. unfold more. rewrite <- !app_assoc. cbn [app].
      rewrite (name_uncompressed_decodes out ls post Hls). f_equal. f_equal. rewrite app_length. cbn [length]. lia. }
    destruct ((slen name >? 0) && negb (Z.of_nat (length out) >=? 16384)) eqn:Ereg; try rewrite Ereg in H.
    + destruct (nameoffset_create ol name (Z.of_nat (length out))) as [ol'| |] eqn:Ec; cbn [bind] in H; try discriminate.
      injection H as <- <-.
      exists more, ol'. split; [reflexivity|].
      split; [apply wb_wf_append; exact Hwf1|].
      split; [exact Hlive2|].
      assert (Hmb : bytes_ok more) by (unfold more; apply bytes_ok_app; [apply bytes_ok_enc; exact Hls | constructor; [lia | constructor]]).
      split; [|split; [exact Hmb | exact Hdec]].
      unfold nameoffset_create in Ec.
      destruct ((slen name =? 0) || (slen name >? 255)); [discriminate|]. injection Ec as <-.
      apply Forall_app. split; [apply ol_ok_app; exact Hol|].
      constructor; [|constructor].
      apply andb_prop in Ereg. destruct Ereg as [Egt Elim]. apply negb_true_iff in Elim.
      rewrite Z.geb_leb in Elim. apply Z.leb_gt in Elim.
      rewrite Z.gtb_ltb in Egt. apply Z.ltb_lt in Egt.
      exists ls, (length out + length more)%nat. cbn [fst snd].
      split; [reflexivity|]. split; [exact Hls|].
      split; [intros Hnil; assert (slen name = 0) by (unfold name; rewrite Hnil; reflexivity); lia|].
      split; [lia|]. rewrite Nat2Z.id. split.
      * rewrite app_length. unfold more. rewrite app_length. cbn [length]. lia.
      * specialize (Hdec []). rewrite !app_nil_r in Hdec. exact Hdec.
    + injection H as <- <-.
      exists more, ol. split; [reflexivity|].
      split; [apply wb_wf_append; exact Hwf1|].
      split; [exact Hlive2|]. split; [apply ol_ok_app; exact Hol|].
      split; [unfold more; apply bytes_ok_app; [apply bytes_ok_enc; exact Hls | constructor; [lia | constructor]] | exact Hdec].
Qed.

(* C03_name_roundtrip: write under the offset-list invariant, then parse (model of
   ares_dns_name_parse) at the position of the name inside the message, whatever follows *)
Theorem name_roundtrip (v : bool) b pre out ol ls :
  wb_wf b -> w_live b = pre ++ out -> ol_ok out ol -> bytes_ok out ->
  Forall label_ok ls -> wire_len ls <= 256 -> slen (escape_name ls) < 512 ->
  (v = true -> Forall host_label ls) ->
  forall b' nl', name_write wfixed (Z.of_nat (length pre)) b (Some ol) v (escape_name ls) = Ok (b', nl') ->
  exists more ol', nl' = Some ol' /\ wb_wf b' /\ w_live b' = pre ++ out ++ more /\ ol_ok (out ++ more) ol' /\
    bytes_ok (out ++ more) /\
    forall post fuel,
      bytes_ok post ->
      let msg := out ++ more ++ post in
      let c := set_off (cur_of_bytes msg) (Z.of_nat (length out)) in
      Z.of_nat (length msg) < 2 ^ 64 -> (name_fuel c <= fuel)%nat ->
      dns_name_parse fuel c true false = Ok (escape_name ls, set_off c (Z.of_nat (length out + length more))).
Proof.
  intros Hwf Hlive Hol Hbo Hls Hw Ht Hv b' nl' H.
  destruct (name_write_compressed v b pre out ol ls Hwf Hlive Hol Hls Hw Ht Hv b' nl' H)
    as (more & ol' & Hnl & Hwf' & Hlive' & Hol' & Hmb & Hdec).
  exists more, ol'. split; [exact Hnl|]. split; [exact Hwf'|]. split; [exact Hlive'|]. split; [exact Hol'|].
  split; [apply bytes_ok_app; assumption|].
  intros post fuel Hpost. cbv zeta.
  remember (out ++ more ++ post) as msg eqn:Hmsg. intros Hlen Hfuel.
  set (c := set_off (cur_of_bytes msg) (Z.of_nat (length out))) in *.
  assert (Hc0 : cur_ok (cur_of_bytes msg)) by (apply cur_of_bytes_ok; assumption).
  assert (Hoffle : Z.of_nat (length out) <= Z.of_nat (length msg)) by (rewrite Hmsg, app_length; lia).
  assert (Hc : cur_ok c) by (apply cur_ok_set_off; [assumption | simpl; lia]).
  assert (Hx : exact c) by reflexivity.
  assert (Hbm : bytes_ok (c_data c)).
  { change (c_data c) with msg. rewrite Hmsg. apply bytes_ok_app; [assumption | apply bytes_ok_app; assumption]. }
  pose proof (name_parse_ref fuel c Hc Hx Hbm Hfuel) as R.
  change (c_data c) with msg in R. change (c_off c) with (Z.of_nat (length out)) in R.
  rewrite Nat2Z.id in R.
  specialize (Hdec post). rewrite <- Hmsg in Hdec.
  rewrite Hdec in R. destruct R as [R _]. exact R.
Qed.

(* non-vacuity: "www.example.com" after "example.com" is written as one label and a pointer, and the
   invariant holds before and after *)
Definition ex_out0 : list N := repeat 0%N 12.
Definition ex_labels1 : list (list N) := [[101; 120; 97; 109; 112; 108; 101]; [99; 111; 109]]%N.
Definition ex_labels2 : list (list N) := ([119; 119; 119] :: ex_labels1)%N.

Example ex_compressed_write :
  exists b1 ol1 b2 ol2,
    name_write wfixed 0 (wb_of_live ex_out0 [] false) (Some []) false (escape_name ex_labels1) = Ok (b1, Some ol1) /\
    name_write wfixed 0 b1 (Some ol1) false (escape_name ex_labels2) = Ok (b2, Some ol2) /\
    w_live b2 = ex_out0 ++ enc_labels ex_labels1 ++ [0%N] ++ [3; 119; 119; 119; 192; 12]%N /\
    ref_name (w_live b2) 25 = Some (ex_labels2, 31%nat).
Proof.
  eexists _, _, _, _. split; [vm_compute; reflexivity|]. split; [vm_compute; reflexivity|].
  split; vm_compute; reflexivity.
Qed.
