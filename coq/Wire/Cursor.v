(* Read side of src/lib/str/ares_buf.c as used by the DNS wire codec (C02/C03/C04).

   A cursor is the (const) ares_buf_t of a parser: the memory block [c_data], the length the
   library believes the block has ([c_len] = buf->data_len) and the read offset
   ([c_off] = buf->offset).  [c_len] is kept separately from [length c_data] because the
   legacy int-length entry points take the length from the caller.

   Raw memory access is [byte_rel]/[read_bytes]: an index outside [c_data] is
   [UB OutOfBounds].  The position arithmetic is the GENERATED text of ares_buf_len,
   ares_buf_consume, ares_buf_set_position, ares_buf_get_position (CAres.Gen.LeafFns);
   the explicit `remaining_len < n` checks of the C fetch functions, modelled here one by
   one, are what keeps a parser away from UB.  (Tags are not used by the wire codec.) *)
From CAres.Base Require Export Outcome CInt.
From CAres.Gen Require Import Consts LeafFns Tables.
Local Open Scope Z_scope.

Record cursor := mkCur {
  c_data : list N;     (* the bytes of the block, each < 256 *)
  c_len  : Z;          (* buf->data_len *)
  c_off  : Z;          (* buf->offset *)
  c_rest : list N }.   (* the block from data + offset on: always skipn offset data (cur_ok); kept
                          so that the extracted model reads sequentially in constant time *)

(* ares_buf_create_const(data, len) for a block holding exactly [bs] *)
Definition cur_of_bytes (bs : list N) : cursor := mkCur bs (Z.of_nat (length bs)) 0 bs.

(* the buffer with buf->offset = o *)
Definition set_off (c : cursor) (o : Z) : cursor := mkCur (c_data c) (c_len c) o (skipn (Z.to_nat o) (c_data c)).

(* the buffer after buf->offset += n (o' is the new offset) *)
Definition move_off (c : cursor) (n o' : Z) : cursor :=
  if o' =? c_off c then c else mkCur (c_data c) (c_len c) o' (skipn (Z.to_nat n) (c_rest c)).

(* ---- raw memory ---- *)

(* data[offset + k] *)
Definition byte_rel (c : cursor) (k : nat) : outcome Z :=
  match nth_error (c_rest c) k with
  | Some b => Ok (Z.of_N b)
  | None => UB OutOfBounds
  end.

Fixpoint take_exact (n : nat) (l : list N) : option (list N) :=
  match n with
  | O => Some []
  | S n' => match l with
            | [] => None
            | x :: t => match take_exact n' t with Some r => Some (x :: r) | None => None end
            end
  end.

(* memcpy(dst, data + offset, n): all of [offset, offset+n) must be inside the block *)
Definition read_bytes (c : cursor) (n : nat) : outcome (list N) :=
  match take_exact n (c_rest c) with
  | Some l => Ok l
  | None => UB OutOfBounds
  end.

(* ---- position arithmetic: generated functions ---- *)

(* ares_buf_len *)
Definition buf_len (c : cursor) : outcome Z := c_ares_buf_len (c_len c) (c_off c).

(* ares_buf_get_position *)
Definition get_position (c : cursor) : outcome Z := c_ares_buf_get_position (c_off c).

(* ares_buf_consume: (status, buffer after the call) *)
Definition consume (c : cursor) (n : Z) : outcome (Z * cursor) :=
  do l <- buf_len c;
  do r <- c_ares_buf_consume n l (c_off c);
  Ok (fst r, move_off c n (snd r)).

(* ares_buf_set_position: (status, buffer after the call) *)
Definition set_position (c : cursor) (idx : Z) : outcome (Z * cursor) :=
  do r <- c_ares_buf_set_position idx (c_len c) (c_off c);
  Ok (fst r, if snd r =? c_off c then c else set_off c (snd r)).

(* a call whose status is checked with `if (status != ARES_SUCCESS) return status;` *)
Definition checked {A} (r : outcome (Z * A)) : outcome A :=
  do x <- r;
  if fst x =? ARES_SUCCESS then Ok (snd x) else Err (fst x).

(* ---- the fetch functions, check by check ---- *)

(* static ares_buf_fetch(): *len = data_len - offset (NULL pointer when 0) *)
Definition fetch_remaining (c : cursor) : outcome Z := buf_len c.

(* ares_buf_fetch_bytes(buf, &b, 1) *)
Definition fetch_u8 (c : cursor) : outcome (Z * cursor) :=
  do rem <- fetch_remaining c;
  if rem <? 1 then Err ARES_EBADRESP else
  do b <- byte_rel c 0;
  do c' <- checked (consume c 1);
  Ok (b, c').

(* ares_buf_fetch_be16 *)
Definition fetch_be16 (c : cursor) : outcome (Z * cursor) :=
  do rem <- fetch_remaining c;
  if rem <? 2 then Err ARES_EBADRESP else
  do b0 <- byte_rel c 0;
  do b1 <- byte_rel c 1;
  let u32 := Z.lor (Z.shiftl b0 8) b1 in
  do c' <- checked (consume c 2);
  Ok (Z.land u32 65535, c').

(* ares_buf_fetch_be32 *)
Definition fetch_be32 (c : cursor) : outcome (Z * cursor) :=
  do rem <- fetch_remaining c;
  if rem <? 4 then Err ARES_EBADRESP else
  do b0 <- byte_rel c 0;
  do b1 <- byte_rel c 1;
  do b2 <- byte_rel c 2;
  do b3 <- byte_rel c 3;
  let u32 := Z.lor (Z.lor (Z.lor (Z.shiftl b0 24) (Z.shiftl b1 16)) (Z.shiftl b2 8)) b3 in
  do c' <- checked (consume c 4);
  Ok (u32, c').

(* ares_buf_fetch_bytes(buf, bytes, len) / ares_buf_fetch_bytes_dup(buf, len, nt, &bytes):
   len == 0 is an error; allocation failure (ENOMEM) is not modelled *)
Definition fetch_bytes (c : cursor) (len : Z) : outcome (list N * cursor) :=
  do rem <- fetch_remaining c;
  if (len =? 0) || (rem <? len) then Err ARES_EBADRESP else
  do bs <- read_bytes c (Z.to_nat len);
  do c' <- checked (consume c len);
  Ok (bs, c').

(* ares_buf_peek: the next [len] bytes without consuming (callers check len first) *)
Definition peek_bytes (c : cursor) (len : Z) : outcome (list N) :=
  read_bytes c (Z.to_nat len).

(* ares_str_isprint over a byte block *)
Definition all_printable (l : list N) : bool := forallb (fun b => c_isprint (Z.of_N b)) l.

(* ares_buf_fetch_str_dup *)
Definition fetch_str (c : cursor) (len : Z) : outcome (list N * cursor) :=
  do rem <- fetch_remaining c;
  if (len =? 0) || (rem <? len) then Err ARES_EBADRESP else
  do bs <- read_bytes c (Z.to_nat len);
  if negb (all_printable bs) then Err ARES_EBADSTR else
  do c' <- checked (consume c len);
  Ok (bs, c').

(* ares_buf_parse_dns_binstr_int(buf, remaining_len, bin, bin_len, validate_printable);
   [want] = (bin != NULL).  Result: the string (when wanted) and the buffer. *)
Definition parse_dns_binstr (c : cursor) (remaining_len : Z) (want validate_printable : bool)
  : outcome (list N * cursor) :=
  if remaining_len =? 0 then Err ARES_EBADRESP else
  do r <- fetch_u8 c;
  let '(len, c1) := r in
  let remaining_len := (remaining_len - 1) mod 2 ^ 64 in
  if len >? remaining_len then Err ARES_EBADRESP else
  if len =? 0 then Ok ([], c1) else
  do bl <- buf_len c1;
  do _ <- (if validate_printable && (bl >=? len) then
             do data <- peek_bytes c1 len;
             if negb (all_printable data) then Err ARES_EBADSTR else Ok tt
           else Ok tt);
  if want then
    fetch_bytes c1 len                       (* ares_buf_fetch_bytes_into_buf *)
  else
    do c2 <- checked (consume c1 len);
    Ok ([], c2).

(* ---- invariant ---- *)

Definition cur_ok (c : cursor) : Prop :=
  0 <= c_off c <= c_len c /\ c_len c <= Z.of_nat (length (c_data c)) /\ c_len c < 2 ^ 64
  /\ c_rest c = skipn (Z.to_nat (c_off c)) (c_data c).

(* same block, same declared length: what every read operation preserves *)
Definition same_block (c c' : cursor) : Prop := c_data c' = c_data c /\ c_len c' = c_len c.
