(* ares_dns_write_buf / ares_dns_write / ares_dns_write_buf_tcp of
   src/lib/record/ares_dns_write.c, ares_dns_name_write / ares_split_dns_name /
   ares_nameoffset_find of src/lib/record/ares_dns_name.c, ares_dns_record_create_query
   (ares_dns_record.c) and ares_create_query / ares_mkquery (legacy/ares_create_query.c).

   The output buffer is modelled by what the writer can observe of an ares_buf_t:
     [w_live]   the unconsumed content (ares_buf_len octets, starting at buf->offset)
     [w_shadow] octets that were written earlier and lie beyond data_len after a shrinking
                ares_buf_set_length(); a later growing set_length() makes them live again
     [w_fresh]  nothing was ever appended (alloc_buf_len == 0: every set_length fails)
   All positions the writer uses (ares_buf_len, set_length) are relative to buf->offset, so an
   output buffer that already holds earlier frames is simply a non-empty [w_live].
   Growing beyond what was ever written would expose uninitialised memory: [UB OutOfBounds].
   Allocation failure is not modelled.

   The model is parametrised by [wvariant]: the pinned tree and the tree with fixes/C03-*.patch
   (TXT strings longer than 255 octets are split in both: findings/C03.json). *)
From CAres.Wire Require Export Record.
From CAres.Gen Require Import Consts LeafFns Tables.
Local Open Scope Z_scope.

Record wvariant := mkWV {
  wv_msg_relative : bool;   (* name offsets are relative to the start of the message, not of the buffer *)
  wv_ptr_limit : bool;      (* names at offsets >= 0x4000 are not registered for compression *)
  wv_len_check : bool;      (* ares_dns_write refuses messages longer than 65535 octets *)
  wv_name_no_trunc : bool;  (* names longer than the 511-octet scratch copy are refused, not truncated *)
  wv_raw_empty : bool;      (* RAW_RR without data is written with empty RDATA *)
  wv_strip_dangling_escape : bool }.
    (* NOT in any tree: a hypothetical "repair" that drops an odd trailing backslash of the prefix left
       in front of a compression target, so that "john\.smith.example.com" after "smith.example.com"
       is written as "john" + pointer; only used for C03_suffix_match_refuted_if_escape_stripped *)
Definition wfixed : wvariant := mkWV true true true true true false.
Definition wpinned : wvariant := mkWV false false false false false false.
Definition wstrip : wvariant := mkWV true true true true true true.

(* [w_rev] holds the live octets LAST OCTET FIRST (appending one octet is a cons), [w_n] is their
   number; [w_live] is the abstraction *)
Record wbuf := mkW { w_rev : list N; w_n : Z; w_shadow : list N; w_fresh : bool }.

Definition w_live (b : wbuf) : list N := rev_append (w_rev b) [].   (* = rev (w_rev b), linear time *)
Definition wb_of_live (l : list N) (shadow : list N) (fresh : bool) : wbuf :=
  mkW (rev_append l []) (Z.of_nat (length l)) shadow fresh.

Definition wb_empty : wbuf := mkW [] 0 [] true.
Definition wb_len (b : wbuf) : Z := w_n b.

(* ares_buf_append(buf, data, len): len == 0 does nothing; otherwise ensure_space + memcpy.
   Octets of the shadow are overwritten; when the appended data does not fit into the slack the
   shadow proves to exist, the buffer may be moved or reallocated and the shadow is gone. *)
Definition wb_append (b : wbuf) (bs : list N) : wbuf :=
  match bs with
  | [] => b
  | _ => mkW (rev_append bs (w_rev b)) (w_n b + Z.of_nat (length bs))
             (if Nat.leb (length bs) (length (w_shadow b)) then skipn (length bs) (w_shadow b) else [])
             false
  end.

Definition wb_append_byte (b : wbuf) (x : Z) : wbuf := wb_append b [Z.to_N (Z.land x 255)].

(* ares_buf_append_be16 / be32: the octets are assembled in a local array and appended with ONE
   ares_buf_append() call *)
Definition wb_append_be16 (b : wbuf) (v : Z) : wbuf :=
  wb_append b [Z.to_N (Z.land (Z.land (Z.shiftr v 8) 255) 255); Z.to_N (Z.land (Z.land v 255) 255)].

Definition wb_append_be32 (b : wbuf) (v : Z) : wbuf :=
  wb_append b [Z.to_N (Z.land (Z.land (Z.shiftr v 24) 255) 255); Z.to_N (Z.land (Z.land (Z.shiftr v 16) 255) 255);
               Z.to_N (Z.land (Z.land (Z.shiftr v 8) 255) 255); Z.to_N (Z.land (Z.land v 255) 255)].

(* ares_buf_set_length(buf, len): (status, buffer) *)
Definition wb_set_length (b : wbuf) (len : Z) : outcome (Z * wbuf) :=
  if w_fresh b then Ok (ARES_EFORMERR, b) else
  if len <? 0 then Ok (ARES_EFORMERR, b) else                 (* size_t: a wrapped huge value *)
  if len <=? w_n b then
    (* shrink: the cut-off tail stays in memory *)
    let k := Z.to_nat (w_n b - len) in
    Ok (ARES_SUCCESS, mkW (skipn k (w_rev b)) len (rev_append (firstn k (w_rev b)) (w_shadow b)) false)
  else
    let k := Z.to_nat (len - w_n b) in
    if Nat.leb k (length (w_shadow b)) then
      Ok (ARES_SUCCESS, mkW (rev_append (firstn k (w_shadow b)) (w_rev b)) len (skipn k (w_shadow b)) false)
    else UB OutOfBounds.

Definition wchecked (r : outcome (Z * wbuf)) : outcome wbuf :=
  do x <- r; if fst x =? ARES_SUCCESS then Ok (snd x) else Err (fst x).

(* ------------------------------------------------------------------------------------------
   names
   ------------------------------------------------------------------------------------------ *)

(* C strings: ares_strlen *)
Definition slen (s : list N) : Z := Z.of_nat (length s).

Fixpoint list_eqb (a b : list N) : bool :=
  match a, b with
  | [], [] => true
  | x :: a', y :: b' => N.eqb x y && list_eqb a' b'
  | _, _ => false
  end.

Definition nameoffset := (list N * Z)%type.      (* name, idx *)

(* ares_nameoffset_find: the longest stored name that is a label-aligned suffix of [name];
   among equally long matches the last one wins *)
Fixpoint nameoffset_find_go (l : list nameoffset) (name : list N) (best : option nameoffset) : option nameoffset :=
  match l with
  | [] => best
  | (vn, vi) :: rest =>
    (* every `continue` of the C loop is written out: the extracted code must evaluate exactly one
       recursive call per element (a shared [let] would be evaluated eagerly, and a second time in
       the matching case - exponential for names that all extend each other) *)
    let name_len := slen name in
    if slen vn >? name_len then nameoffset_find_go rest name best else
    if match best with Some (bn, _) => slen bn >? slen vn | None => false end then nameoffset_find_go rest name best else
    let prefix_len := name_len - slen vn in
    if negb (list_eqb vn (skipn (Z.to_nat prefix_len) name)) then nameoffset_find_go rest name best else
    if negb (prefix_len =? 0) &&
       negb (match nth_error name (Z.to_nat (prefix_len - 1)) with Some c => N.eqb c 46 | None => false end)
    then nameoffset_find_go rest name best else
    nameoffset_find_go rest name (Some (vn, vi))
  end.

Definition nameoffset_find (l : list nameoffset) (name : list N) : option nameoffset :=
  if slen name =? 0 then None else nameoffset_find_go l name None.

(* ares_nameoffset_create *)
Definition nameoffset_create (l : list nameoffset) (name : list N) (idx : Z) : outcome (list nameoffset) :=
  if (slen name =? 0) || (slen name >? 255) then Err ARES_EFORMERR else Ok (l ++ [(name, idx)]).

(* ares_parse_dns_name_escape + the loop of ares_split_dns_name: labels of a presentation name.
   [cur] is the label being built, [done] the finished ones. *)
Fixpoint split_go (validate : bool) (t : list N) (done : list (list N)) (cur : list N) {struct t}
  : outcome (list (list N)) :=
  match t with
  | [] => Ok (done ++ [cur])
  | c :: rest =>
    if Z.of_N c =? 46 then split_go validate rest (done ++ [cur]) []
    else if Z.of_N c =? 92 then
      match rest with
      | [] => Err ARES_EBADNAME
      | d1 :: rest1 =>
        if c_isdigit (Z.of_N d1) then
          match rest1 with
          | d2 :: d3 :: rest3 =>
            if negb (c_isdigit (Z.of_N d2)) then Err ARES_EBADNAME else
            if negb (c_isdigit (Z.of_N d3)) then Err ARES_EBADNAME else
            let v := ((Z.of_N d1 - 48) * 10 + (Z.of_N d2 - 48)) * 10 + (Z.of_N d3 - 48) in
            if v >? 255 then Err ARES_EBADNAME else
            if validate && negb (c_is_hostnamech v) then Err ARES_EBADNAME else
            split_go validate rest3 done (cur ++ [Z.to_N v])
          | [d2] => if negb (c_isdigit (Z.of_N d2)) then Err ARES_EBADNAME else Err ARES_EBADNAME
          | _ => Err ARES_EBADNAME
          end
        else
          if validate && negb (c_is_hostnamech (Z.of_N d1)) then Err ARES_EBADNAME
          else split_go validate rest1 done (cur ++ [d1])
      end
    else
      if validate && negb (c_is_hostnamech (Z.of_N c)) then Err ARES_EBADNAME
      else split_go validate rest done (cur ++ [c])
  end.

Definition last_is_empty (ls : list (list N)) : bool :=
  match rev ls with [] :: _ => true | _ => false end.

(* ares_split_dns_name *)
Definition split_dns_name (validate : bool) (name : list N) : outcome (list (list N)) :=
  do ls <- split_go validate name [] [];
  let ls := if last_is_empty ls then removelast ls else ls in             (* trailing blank label *)
  let ls := if Nat.eqb (length ls) 1 && last_is_empty ls then removelast ls else ls in   (* "." *)
  if existsb (fun l => (slen l =? 0) || (slen l >? 63)) ls then Err ARES_EBADNAME else
  let total_len := fold_right (fun l a => slen l + a) 0 ls in
  if negb (Nat.eqb (length ls) 0) && (total_len + Z.of_nat (length ls) - 1 >? 255) then Err ARES_EBADNAME
  else Ok ls.

(* number of trailing backslashes / the hypothetical repair *)
Fixpoint leading_backslashes (r : list N) : nat :=
  match r with c :: t => if N.eqb c 92 then S (leading_backslashes t) else O | [] => O end.
Definition strip_odd_backslash (t : list N) : list N :=
  if Nat.odd (leading_backslashes (rev t)) then removelast t else t.

Section Writer.
  Variable wv : wvariant.
  Variable base : Z.     (* ares_buf_len(buf) when ares_dns_write_buf() started: start of the message *)

  (* ares_dns_name_write(buf, list, validate_hostname, name); [nl] = None when list == NULL *)
  Definition name_write (b : wbuf) (nl : option (list nameoffset)) (validate : bool) (name : list N)
    : outcome (wbuf * option (list nameoffset)) :=
    let pos := if wv_msg_relative wv then wb_len b - base else wb_len b in
    (* name_copy[512]: ares_strcpy truncates silently *)
    if wv_name_no_trunc wv && (slen name >=? 512) then Err ARES_EBADNAME else
    let name_copy := firstn 511 name in
    let orig_name_len := slen name_copy in
    let off := match nl with Some l => nameoffset_find l name_copy | None => None end in
    let name_copy := match off with
                     | Some (on, _) => if negb (slen on =? orig_name_len)
                                       then (if wv_strip_dangling_escape wv then strip_odd_backslash else fun t => t)
                                              (firstn (Z.to_nat (orig_name_len - (slen on + 1))) name_copy)
                                       else name_copy
                     | None => name_copy
                     end in
    let name_len := slen name_copy in
    let exact := match off with Some (on, _) => slen on =? orig_name_len | None => false end in
    do b1 <- (if negb exact then
                do labels <- split_dns_name validate name_copy;
                let b' := fold_left (fun b l => wb_append (wb_append_byte b (Z.land (slen l) 255)) l) labels b in
                Ok (match off with None => wb_append_byte b' 0 | Some _ => b' end)
              else Ok b);
    let b2 := match off with
              | Some (_, idx) => wb_append_be16 b1 (Z.lor 49152 (Z.land idx 16383))
              | None => b1
              end in
    match nl with
    | Some l =>
      if negb exact && (name_len >? 0) && negb (wv_ptr_limit wv && (pos >=? 16384)) then
        do l' <- nameoffset_create l name pos;          (* the not truncated name! *)
        Ok (b2, Some l')
      else Ok (b2, nl)
    | None => Ok (b2, nl)
    end.

  Definition get_field (r : rr) (key : Z) : option fval := assoc_get key (rr_fields r).

  (* ares_dns_write_rr_name *)
  Definition write_rr_name (b : wbuf) (r : rr) (nl : option (list nameoffset)) (key : Z)
    : outcome (wbuf * option (list nameoffset)) :=
    match get_field r key with
    | Some (FName (Some n)) | Some (FStr (Some n)) => name_write b nl false n
    | _ => Err ARES_EFORMERR
    end.

  (* ares_dns_write_rr_str *)
  Definition write_rr_str (b : wbuf) (r : rr) (key : Z) : outcome wbuf :=
    match get_field r key with
    | Some (FStr (Some s)) | Some (FName (Some s)) =>
      if slen s >? 255 then Err ARES_EFORMERR else
      Ok (wb_append (wb_append_byte b (Z.land (slen s) 255)) s)
    | _ => Err ARES_EFORMERR
    end.

  (* ares_dns_write_binstr: the do-while that splits into chunks of at most 255 octets *)
  Fixpoint write_binstr (fuel : nat) (b : wbuf) (bin : list N) : wbuf :=
    match fuel with
    | O => b
    | S f =>
      let len := Nat.min (length bin) 255 in
      let b1 := wb_append (wb_append_byte b (Z.of_nat len)) (firstn len bin) in
      let rest := skipn len bin in
      match rest with [] => b1 | _ => write_binstr f b1 rest end
    end.

  (* ares_dns_write_rr_abin *)
  Definition write_rr_abin (b : wbuf) (r : rr) (key : Z) : outcome wbuf :=
    match get_field r key with
    | Some (FAbin l) =>
      match l with
      | [] => Err ARES_EFORMERR
      | _ =>
        Ok (fold_left (fun b s => write_binstr (S (length s)) b s) l b)
      end
    | _ => Err ARES_EFORMERR
    end.

  Definition write_rr_be32 (b : wbuf) (r : rr) (key : Z) : outcome wbuf :=
    match get_field r key with Some (FU32 v) => Ok (wb_append_be32 b v) | _ => Err ARES_EFORMERR end.
  Definition write_rr_be16 (b : wbuf) (r : rr) (key : Z) : outcome wbuf :=
    match get_field r key with Some (FU16 v) => Ok (wb_append_be16 b v) | _ => Err ARES_EFORMERR end.
  Definition write_rr_u8 (b : wbuf) (r : rr) (key : Z) : outcome wbuf :=
    match get_field r key with Some (FU8 v) => Ok (wb_append_byte b v) | _ => Err ARES_EFORMERR end.

  (* "binary, rest of buffer, required to be non-zero length" *)
  Definition write_rr_rest_bin (b : wbuf) (r : rr) (key : Z) : outcome wbuf :=
    match get_field r key with
    | Some (FBin (Some d)) => if slen d =? 0 then Err ARES_EFORMERR else Ok (wb_append b d)
    | _ => Err ARES_EFORMERR
    end.

  (* option TLVs of OPT / SVCB / HTTPS *)
  Definition write_opts (b : wbuf) (r : rr) (key : Z) : wbuf :=
    match get_field r key with
    | Some (FOpt l) =>
      fold_left (fun b ov => wb_append (wb_append_be16 (wb_append_be16 b (fst ov)) (Z.land (slen (snd ov)) 65535)) (snd ov)) l b
    | _ => b
    end.

  Definition wst := (wbuf * option (list nameoffset))%type.

  (* RDATA writers.  [nlp] is namelistptr (None for types that must not compress);
     [rcode] is rr->parent->rcode *)
  Definition write_rr_data (b : wbuf) (r : rr) (nlp : option (list nameoffset)) (rcode : Z)
    : outcome (wbuf * option (list nameoffset)) :=
    let t := rr_type r in
    let name1 key := write_rr_name b r nlp key in
    let seq (m : outcome wbuf) := do b' <- m; Ok (b', nlp) in
    if t =? ARES_REC_TYPE_A then
      match get_field r ARES_RR_A_ADDR with Some (FAddr a) => Ok (wb_append b a, nlp) | _ => Err ARES_EFORMERR end
    else if t =? ARES_REC_TYPE_NS then name1 ARES_RR_NS_NSDNAME
    else if t =? ARES_REC_TYPE_CNAME then name1 ARES_RR_CNAME_CNAME
    else if t =? ARES_REC_TYPE_SOA then
      do s1 <- write_rr_name b r nlp ARES_RR_SOA_MNAME;
      do s2 <- write_rr_name (fst s1) r (snd s1) ARES_RR_SOA_RNAME;
      do b3 <- write_rr_be32 (fst s2) r ARES_RR_SOA_SERIAL;
      do b3 <- write_rr_be32 b3 r ARES_RR_SOA_REFRESH;
      do b3 <- write_rr_be32 b3 r ARES_RR_SOA_RETRY;
      do b3 <- write_rr_be32 b3 r ARES_RR_SOA_EXPIRE;
      do b3 <- write_rr_be32 b3 r ARES_RR_SOA_MINIMUM;
      Ok (b3, snd s2)
    else if t =? ARES_REC_TYPE_PTR then name1 ARES_RR_PTR_DNAME
    else if t =? ARES_REC_TYPE_HINFO then
      seq (do b1 <- write_rr_str b r ARES_RR_HINFO_CPU; write_rr_str b1 r ARES_RR_HINFO_OS)
    else if t =? ARES_REC_TYPE_MX then
      do b1 <- write_rr_be16 b r ARES_RR_MX_PREFERENCE;
      write_rr_name b1 r nlp ARES_RR_MX_EXCHANGE
    else if t =? ARES_REC_TYPE_TXT then seq (write_rr_abin b r ARES_RR_TXT_DATA)
    else if t =? ARES_REC_TYPE_SIG then
      do b1 <- write_rr_be16 b r ARES_RR_SIG_TYPE_COVERED;
      do b1 <- write_rr_u8 b1 r ARES_RR_SIG_ALGORITHM;
      do b1 <- write_rr_u8 b1 r ARES_RR_SIG_LABELS;
      do b1 <- write_rr_be32 b1 r ARES_RR_SIG_ORIGINAL_TTL;
      do b1 <- write_rr_be32 b1 r ARES_RR_SIG_EXPIRATION;
      do b1 <- write_rr_be32 b1 r ARES_RR_SIG_INCEPTION;
      do b1 <- write_rr_be16 b1 r ARES_RR_SIG_KEY_TAG;
      do s1 <- write_rr_name b1 r nlp ARES_RR_SIG_SIGNERS_NAME;
      do b2 <- write_rr_rest_bin (fst s1) r ARES_RR_SIG_SIGNATURE;
      Ok (b2, snd s1)
    else if t =? ARES_REC_TYPE_AAAA then
      match get_field r ARES_RR_AAAA_ADDR with Some (FAddr6 a) => Ok (wb_append b a, nlp) | _ => Err ARES_EFORMERR end
    else if t =? ARES_REC_TYPE_SRV then
      do b1 <- write_rr_be16 b r ARES_RR_SRV_PRIORITY;
      do b1 <- write_rr_be16 b1 r ARES_RR_SRV_WEIGHT;
      do b1 <- write_rr_be16 b1 r ARES_RR_SRV_PORT;
      write_rr_name b1 r nlp ARES_RR_SRV_TARGET
    else if t =? ARES_REC_TYPE_NAPTR then
      do b1 <- write_rr_be16 b r ARES_RR_NAPTR_ORDER;
      do b1 <- write_rr_be16 b1 r ARES_RR_NAPTR_PREFERENCE;
      do b1 <- write_rr_str b1 r ARES_RR_NAPTR_FLAGS;
      do b1 <- write_rr_str b1 r ARES_RR_NAPTR_SERVICES;
      do b1 <- write_rr_str b1 r ARES_RR_NAPTR_REGEXP;
      write_rr_name b1 r nlp ARES_RR_NAPTR_REPLACEMENT
    else if t =? ARES_REC_TYPE_ANY then Err ARES_EFORMERR
    else if t =? ARES_REC_TYPE_OPT then
      (* go back and overwrite CLASS and TTL, which OPT overloads *)
      let len := wb_len b in
      if len =? 0 then Err ARES_EFORMERR else
      do b1 <- wchecked (wb_set_length b (len - 2 - 4 - 2));
      do b1 <- write_rr_be16 b1 r ARES_RR_OPT_UDP_SIZE;
      let version := match get_field r ARES_RR_OPT_VERSION with Some (FU8 v) => v | _ => 0 end in
      let flags := match get_field r ARES_RR_OPT_FLAGS with Some (FU16 v) => v | _ => 0 end in
      let ttl := Z.lor (Z.lor (Z.shiftl (Z.land (Z.shiftr rcode 4) 255) 24) (Z.shiftl version 16)) flags in
      let b1 := wb_append_be32 b1 ttl in
      do b1 <- wchecked (wb_set_length b1 len);
      Ok (write_opts b1 r ARES_RR_OPT_OPTIONS, nlp)
    else if t =? ARES_REC_TYPE_TLSA then
      seq (do b1 <- write_rr_u8 b r ARES_RR_TLSA_CERT_USAGE;
           do b1 <- write_rr_u8 b1 r ARES_RR_TLSA_SELECTOR;
           do b1 <- write_rr_u8 b1 r ARES_RR_TLSA_MATCH;
           write_rr_rest_bin b1 r ARES_RR_TLSA_DATA)
    else if t =? ARES_REC_TYPE_SVCB then
      do b1 <- write_rr_be16 b r ARES_RR_SVCB_PRIORITY;
      do s1 <- write_rr_name b1 r nlp ARES_RR_SVCB_TARGET;
      Ok (write_opts (fst s1) r ARES_RR_SVCB_PARAMS, snd s1)
    else if t =? ARES_REC_TYPE_HTTPS then
      do b1 <- write_rr_be16 b r ARES_RR_HTTPS_PRIORITY;
      do s1 <- write_rr_name b1 r nlp ARES_RR_HTTPS_TARGET;
      Ok (write_opts (fst s1) r ARES_RR_HTTPS_PARAMS, snd s1)
    else if t =? ARES_REC_TYPE_URI then
      do b1 <- write_rr_be16 b r ARES_RR_URI_PRIORITY;
      do b1 <- write_rr_be16 b1 r ARES_RR_URI_WEIGHT;
      match get_field r ARES_RR_URI_TARGET with
      | Some (FName (Some s)) | Some (FStr (Some s)) =>
        if slen s =? 0 then Err ARES_EFORMERR else Ok (wb_append b1 s, nlp)
      | _ => Err ARES_EFORMERR
      end
    else if t =? ARES_REC_TYPE_CAA then
      seq (do b1 <- write_rr_u8 b r ARES_RR_CAA_CRITICAL;
           do b1 <- write_rr_str b1 r ARES_RR_CAA_TAG;
           write_rr_rest_bin b1 r ARES_RR_CAA_VALUE)
    else if t =? ARES_REC_TYPE_RAW_RR then
      (* go back and overwrite the TYPE emitted by the caller *)
      let len := wb_len b in
      if len =? 0 then Err ARES_EFORMERR else
      do b1 <- wchecked (wb_set_length b (len - 2 - 4 - 2 - 2));
      do b1 <- write_rr_be16 b1 r ARES_RR_RAW_RR_TYPE;
      do b1 <- wchecked (wb_set_length b1 len);
      match get_field r ARES_RR_RAW_RR_DATA with
      | Some (FBin (Some d)) => Ok (wb_append b1 d, nlp)
      | Some (FBin None) => if wv_raw_empty wv then Ok (b1, nlp) else Err ARES_EFORMERR
      | _ => Err ARES_EFORMERR
      end
    else Ok (b, nlp).          (* the switch has no default: status keeps ARES_SUCCESS *)

  (* one iteration of the loop of ares_dns_write_rr; [ttl_dec] is parent->ttl_decrement *)
  Definition write_one_rr (b : wbuf) (nl : list nameoffset) (r : rr) (rcode ttl_dec : Z)
    : outcome (wbuf * list nameoffset) :=
    let t := rr_type r in
    let allow := allow_name_comp t in
    do s0 <- name_write b (Some nl) true (rr_name r);
    let nl0 := match snd s0 with Some l => l | None => nl end in
    let b1 := wb_append_be16 (fst s0) (Z.land t 65535) in
    let b1 := wb_append_be16 b1 (Z.land (rr_class r) 65535) in
    let ttl := if ttl_dec >? rr_ttl r then 0 else rr_ttl r - ttl_dec in
    let b1 := wb_append_be32 b1 ttl in
    let pos_len := wb_len b1 in
    let b1 := wb_append_be16 b1 0 in
    do s1 <- write_rr_data b1 r (if allow then Some nl0 else None) rcode;
    let nl1 := match snd s1 with Some l => l | None => nl0 end in
    let b2 := fst s1 in
    let end_length := wb_len b2 in
    let rdlength := (end_length - pos_len - 2) mod 2 ^ 64 in
    do b3 <- wchecked (wb_set_length b2 pos_len);
    let b3 := wb_append_be16 b3 (Z.land rdlength 65535) in
    do b4 <- wchecked (wb_set_length b3 end_length);
    Ok (b4, nl1).

  Fixpoint write_rrs (b : wbuf) (nl : list nameoffset) (rs : list rr) (rcode ttl_dec : Z)
    : outcome (wbuf * list nameoffset) :=
    match rs with
    | [] => Ok (b, nl)
    | r :: rest => do s <- write_one_rr b nl r rcode ttl_dec; write_rrs (fst s) (snd s) rest rcode ttl_dec
    end.

  (* ares_dns_write_questions *)
  Fixpoint write_questions (b : wbuf) (nl : list nameoffset) (qs : list question)
    : outcome (wbuf * list nameoffset) :=
    match qs with
    | [] => Ok (b, nl)
    | q :: rest =>
      do s0 <- name_write b (Some nl) true (q_name q);
      let nl0 := match snd s0 with Some l => l | None => nl end in
      let b1 := wb_append_be16 (wb_append_be16 (fst s0) (Z.land (q_type q) 65535)) (Z.land (q_class q) 65535) in
      write_questions b1 nl0 rest
    end.

  (* ares_dns_get_opt_rr_const *)
  Definition has_opt (d : dnsrec) : bool := existsb (fun r => rr_type r =? ARES_REC_TYPE_OPT) (d_ar d).

  (* ares_dns_write_header *)
  Definition write_header (b : wbuf) (d : dnsrec) : wbuf :=
    let fl := d_flags d in
    let bit (flag mask : Z) := if negb (Z.land fl flag =? 0) then mask else 0 in
    let rcode := if (d_rcode d >? 15) && negb (has_opt d) then ARES_RCODE_SERVFAIL else Z.land (d_rcode d) 15 in
    let u16 := Z.lor (Z.lor (Z.lor (Z.lor (Z.lor (Z.lor (Z.lor (Z.lor
                 (bit ARES_FLAG_QR 32768) (Z.land (Z.shiftl (Z.land (d_opcode d) 15) 11) 65535))
                 (bit ARES_FLAG_AA 1024)) (bit ARES_FLAG_TC 512)) (bit ARES_FLAG_RD 256))
                 (bit ARES_FLAG_RA 128)) (bit ARES_FLAG_AD 32)) (bit ARES_FLAG_CD 16)) rcode in
    let b := wb_append_be16 b (d_id d) in
    let b := wb_append_be16 b u16 in
    let b := wb_append_be16 b (Z.land (Z.of_nat (length (d_qd d))) 65535) in
    let b := wb_append_be16 b (Z.land (Z.of_nat (length (d_an d))) 65535) in
    let b := wb_append_be16 b (Z.land (Z.of_nat (length (d_ns d))) 65535) in
    wb_append_be16 b (Z.land (Z.of_nat (length (d_ar d))) 65535).
End Writer.

(* ares_dns_write_buf(dnsrec, buf): on failure the buffer is cut back to its original length *)
Definition write_buf (wv : wvariant) (d : dnsrec) (ttl_dec : Z) (b : wbuf) : outcome (Z * wbuf) :=
  let orig_len := wb_len b in
  let body :=
      let b1 := write_header b d in
      do s <- write_questions wv orig_len b1 [] (d_qd d);
      do s <- write_rrs wv orig_len (fst s) (snd s) (d_an d) (d_rcode d) ttl_dec;
      do s <- write_rrs wv orig_len (fst s) (snd s) (d_ns d) (d_rcode d) ttl_dec;
      do s <- write_rrs wv orig_len (fst s) (snd s) (d_ar d) (d_rcode d) ttl_dec;
      Ok (fst s) in
  match body with
  | Ok b' => Ok (ARES_SUCCESS, b')
  | Err s => Ok (s, b)          (* contents up to orig_len are unchanged; see Write_proofs *)
  | UB k => UB k
  end.

(* ares_dns_write(dnsrec, &buf, &len) *)
Definition dns_write_v (wv : wvariant) (d : dnsrec) : outcome (list N) :=
  do r <- write_buf wv d 0 wb_empty;
  if negb (fst r =? ARES_SUCCESS) then Err (fst r) else
  if wv_len_check wv && (wb_len (snd r) >? 65535) then Err ARES_EBADQUERY else
  Ok (w_live (snd r)).

Definition dns_write := dns_write_v wfixed.
Definition dns_write_pinned := dns_write_v wpinned.

(* ares_dns_write_buf_tcp(dnsrec, buf): 2-octet length placeholder, message, back-patch *)
Definition write_buf_tcp (wv : wvariant) (d : dnsrec) (b : wbuf) : outcome (Z * wbuf) :=
  let orig_len := wb_len b in
  let b1 := wb_append_be16 b 0 in
  do r <- write_buf wv d 0 b1;
  if negb (fst r =? ARES_SUCCESS) then Ok (fst r, b) else
  let b2 := snd r in
  let len := wb_len b2 in
  let msg_len := (len - orig_len - 2) mod 2 ^ 64 in
  if msg_len >? 65535 then Ok (ARES_EBADQUERY, b) else
  do r1 <- wb_set_length b2 orig_len;          (* status ignored *)
  let b3 := wb_append_be16 (snd r1) (Z.land msg_len 65535) in
  do r2 <- wb_set_length b3 len;               (* status ignored *)
  Ok (ARES_SUCCESS, snd r2).

(* ares_dns_record_create_query, without the .onion test (names are handed in as text) *)
Definition record_create_query (name : list N) (dnsclass type id flags max_udp_size : Z) : outcome dnsrec :=
  do d <- record_create id (Z.land flags 65535) ARES_OPCODE_QUERY ARES_RCODE_NOERROR;
  do d <- query_add d name type dnsclass;
  if max_udp_size >? 0 then
    if max_udp_size >? 65535 then Err ARES_EFORMERR else
    do r <- rr_add [] ARES_SECTION_ADDITIONAL ARES_REC_TYPE_OPT ARES_CLASS_IN 0;
    do r <- rr_set r ARES_RR_OPT_UDP_SIZE (FU16 (Z.land max_udp_size 65535));
    do r <- rr_set r ARES_RR_OPT_VERSION (FU8 0);
    do r <- rr_set r ARES_RR_OPT_FLAGS (FU16 0);
    Ok (section_append d ARES_SECTION_ADDITIONAL r)
  else Ok d.

(* ares_create_query(name, dnsclass, type, id, rd, &buf, &buflen, max_udp_size) *)
Definition create_query (wv : wvariant) (name : list N) (dnsclass type id rd max_udp_size : Z) : outcome (list N) :=
  (* (size_t)max_udp_size of an int *)
  do d <- record_create_query name dnsclass type (Z.land id 65535) (if rd =? 0 then 0 else ARES_FLAG_RD)
                              (max_udp_size mod 2 ^ 64);
  dns_write_v wv d.
