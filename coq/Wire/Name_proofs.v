(* ares_dns_name_parse: no undefined behaviour, the two fuels are never exhausted (termination:
   "compression pointers cannot make name decoding loop"), and every followed pointer goes
   strictly backward.  Same for the legacy wrappers ares_expand_name / ares_expand_string with
   any int length. *)
From CAres.Wire Require Import Cursor Cursor_proofs Name.
From CAres.Gen Require Import Consts LeafFns Tables.
Local Open Scope Z_scope.

Definition ev_pos (e : name_ev) : Z := match e with EvOctet p => p | EvJump t => t end.

(* trace is newest first: every followed pointer targets an offset strictly below every
   label/pointer octet read before it and below every earlier pointer target *)
Fixpoint tr_backward (tr : list name_ev) : Prop :=
  match tr with
  | [] => True
  | EvJump t :: older => (forall e, In e older -> t < ev_pos e) /\ tr_backward older
  | EvOctet _ :: older => tr_backward older
  end.

(* loop invariant tying label_start to the trace: everything seen so far lies at or above the
   current lower bound min(label_start, offset) *)
Definition tr_above (lb : Z) (tr : list name_ev) : Prop := forall e, In e tr -> lb <= ev_pos e.

(* [off0]: the offset at which the name starts; the position the caller continues at lies
   strictly after it (no jump: after the zero octet; otherwise after the first pointer) *)
Definition save_inv (off0 so cur_off : Z) : Prop :=
  (so = 0 -> off0 <= cur_off) /\ (so <> 0 -> off0 < so).

Definition name_post (c0 : cursor) (off0 : Z) (st : name_st) : Prop :=
  cur_ok (ns_cur st) /\ same_block c0 (ns_cur st) /\ 0 <= ns_save st <= c_len c0 /\ tr_backward (ns_trace st)
  /\ (ns_save st = 0 -> off0 < c_off (ns_cur st)) /\ (ns_save st <> 0 -> off0 < ns_save st).

Lemma escape_label_safe ih want l : safe (fun _ => True) (escape_label ih want l).
Proof.
  induction l as [|b t IH]; simpl; [exact I|].
  destruct (ih && negb (c_is_hostnamech (Z.of_N b))); [simpl; status_ne|].
  eapply safe_bind; [exact IH|]. intros rest _.
  destruct (negb want); [exact I|].
  destruct (negb (c_isprint (Z.of_N b))); [exact I|].
  destruct (c_is_reservedch (Z.of_N b)); exact I.
Qed.

Lemma fetch_dnsname_into_buf_safe c want dest len ih :
  cur_ok c -> 0 < len ->
  safe (fun r => advanced c len (snd r)) (fetch_dnsname_into_buf c want dest len ih).
Proof.
  intros Hc Hlen. unfold fetch_dnsname_into_buf, fetch_remaining. rewrite (buf_len_ok c Hc). simpl.
  destruct (len =? 0) eqn:E0; [simpl; status_ne|].
  destruct (c_len c - c_off c <? len) eqn:E; [simpl; status_ne|].
  apply Z.ltb_ge in E. simpl.
  destruct (peek_bytes_ok c len Hc) as (raw & Hp & _); [lia | lia |].
  rewrite Hp. simpl.
  eapply safe_bind; [apply escape_label_safe|]. intros esc _.
  rewrite (checked_consume_spec c len Hc) by lia.
  destruct (c_len c - c_off c <? len) eqn:E2; [apply Z.ltb_lt in E2; lia|].
  simpl. apply advanced_set_off; [assumption | lia | lia].
Qed.

Lemma ptr_offset_nonneg b b2 : 0 <= b -> 0 <= b2 -> 0 <= Z.lor (Z.shiftl (Z.land b 63) 8) b2.
Proof.
  intros Hb Hb2. rewrite Z.lor_nonneg, Z.shiftl_nonneg, Z.land_nonneg. auto.
Qed.

Section Fwd.
  Variables (ih want : bool) (c0 : cursor) (off0 : Z).
  Variable jump : cursor -> Z -> Z -> list N -> list name_ev -> outcome name_st.
  Variable J : nat.
  Hypothesis Hjump : forall c ls so nb tr,
      cur_ok c -> same_block c0 c -> 0 <= so <= c_len c0 -> 0 <= ls ->
      tr_backward tr -> tr_above (Z.min ls (c_off c)) tr ->
      (Z.to_nat (Z.min ls (c_off c)) < J)%nat -> save_inv off0 so (c_off c) ->
      safe (name_post c0 off0) (jump c ls so nb tr).

  Lemma name_fwd_safe : forall bf c ls so nb tr,
      cur_ok c -> same_block c0 c -> 0 <= so <= c_len c0 -> 0 <= ls ->
      tr_backward tr -> tr_above (Z.min ls (c_off c)) tr ->
      (Z.to_nat (c_len c - c_off c) < bf)%nat ->
      (Z.to_nat (Z.min ls (c_off c)) < S J)%nat -> save_inv off0 so (c_off c) ->
      safe (name_post c0 off0) (name_fwd ih want jump bf c ls so nb tr).
  Proof.
    induction bf as [|bf IH]; intros c ls so nb tr Hc Hsb Hso Hls Hbw Hab Hbf HJ Hsv; [lia|].
    cbn [name_fwd]. rewrite get_position_ok. cbn [bind].
    set (ls' := if ls >? c_off c then c_off c else ls).
    assert (Hls' : ls' = Z.min ls (c_off c)).
    { unfold ls'. destruct (ls >? c_off c) eqn:E; [apply Z.gtb_lt in E | rewrite Z.gtb_ltb in E; apply Z.ltb_ge in E]; lia. }
    assert (Hc_off : 0 <= c_off c) by (destruct Hc; lia).
    eapply safe_bind; [apply (fetch_u8_safe c Hc)|].
    intros [b c1] (Hb & (Hc1 & Hsb1 & Ho1)). cbn [fst snd] in *.
    assert (Hsb01 : same_block c0 c1) by (eapply same_block_trans; eassumption).
    assert (Hab1 : tr_above ls' (EvOctet (c_off c) :: tr)).
    { intros e [<- | He]; [simpl; lia | rewrite Hls'; auto]. }
    destruct (Z.land b 192 =? 192).
    - (* pointer *)
      eapply safe_bind; [apply (fetch_u8_safe c1 Hc1)|].
      intros [b2 c2] (Hb2 & (Hc2 & Hsb2 & Ho2)). cbn [fst snd] in *.
      set (offset := Z.lor (Z.shiftl (Z.land b 63) 8) b2).
      assert (Hoff0 : 0 <= offset) by (apply ptr_offset_nonneg; assumption).
      destruct (offset >=? ls') eqn:Eo; [simpl; status_ne|].
      rewrite Z.geb_leb in Eo. apply Z.leb_gt in Eo.
      rewrite get_position_ok. cbn [bind].
      rewrite (set_position_spec c2 offset Hc2). cbn [bind].
      assert (Hl2 : c_len c2 = c_len c0) by (destruct Hsb01, Hsb2; congruence).
      destruct (offset >? c_len c2) eqn:Eg; cbn [fst snd negb]; [simpl; status_ne|].
      rewrite Z.gtb_ltb in Eg. apply Z.ltb_ge in Eg.
      replace (ARES_SUCCESS =? ARES_SUCCESS) with true by (symmetry; apply Z.eqb_refl). cbn [negb].
      apply Hjump.
      + apply cur_ok_set_off; [assumption | lia].
      + eapply same_block_trans; [|apply set_off_same]. eapply same_block_trans; eassumption.
      + destruct (so =? 0); [destruct Hc2 as (? & ? & ?); lia | assumption].
      + lia.
      + cbn [tr_backward]. split; [|assumption].
        intros e He. specialize (Hab1 e He). lia.
      + simpl c_off. intros e [<- | He]; [simpl; lia|]. specialize (Hab1 e He). lia.
      + simpl c_off. lia.
      + destruct Hsv as [Hsv1 Hsv2]. unfold save_inv. simpl c_off.
        destruct (so =? 0) eqn:Eso.
        * apply Z.eqb_eq in Eso. specialize (Hsv1 Eso). split; intros; lia.
        * apply Z.eqb_neq in Eso. specialize (Hsv2 Eso). split; intros; lia.
    - destruct (negb (Z.land b 192 =? 0)); [simpl; status_ne|].
      destruct (b =? 0) eqn:Eb0.
      + (* terminating zero octet *)
        destruct Hsv as [Hsv1 Hsv2].
        unfold name_post; cbn [safe ns_cur ns_save ns_trace tr_backward]. repeat split; try apply Hc1; try apply Hsb01; try lia; try assumption.
      + apply Z.eqb_neq in Eb0.
        eapply safe_bind; [apply (fetch_dnsname_into_buf_safe c1 want _ b ih Hc1); lia|].
        intros [nb' c4] (Hc4 & Hsb4 & Ho4). cbn [fst snd] in *.
        apply IH; try assumption.
        * eapply same_block_trans; eassumption.
        * lia.
        * intros e He. specialize (Hab1 e He). lia.
        * assert (c_len c4 = c_len c) by (destruct Hsb1, Hsb4; congruence). destruct Hc4 as (? & ? & ?). lia.
        * lia.
        * destruct Hsv as [Hsv1 Hsv2]. split; [intros Eso; specialize (Hsv1 Eso); lia | assumption].
  Qed.
End Fwd.

Lemma name_seg_safe ih want c0 off0 bf0 :
  (Z.to_nat (c_len c0) < bf0)%nat ->
  forall jf c ls so nb tr,
    cur_ok c -> same_block c0 c -> 0 <= so <= c_len c0 -> 0 <= ls ->
    tr_backward tr -> tr_above (Z.min ls (c_off c)) tr ->
    (Z.to_nat (Z.min ls (c_off c)) < jf)%nat -> save_inv off0 so (c_off c) ->
    safe (name_post c0 off0) (name_seg ih want bf0 jf c ls so nb tr).
Proof.
  intros Hbf0. induction jf as [|jf IH]; intros c ls so nb tr Hc Hsb Hso Hls Hbw Hab HJ Hsv; [lia|].
  cbn [name_seg].
  apply (name_fwd_safe ih want c0 off0 (name_seg ih want bf0 jf) jf); try assumption.
  destruct Hsb as [_ Hl]. destruct Hc as (? & ? & ?). lia.
Qed.

Lemma badresp_to_badname_safe {A} (P : A -> Prop) m : safe P m -> safe P (badresp_to_badname m).
Proof.
  destruct m as [a|s|k]; simpl; auto.
  intros Hs. destruct (s =? ARES_EBADRESP); simpl; [status_ne | assumption].
Qed.

(* the whole of ares_dns_name_parse, for any fuel at least name_fuel *)
Lemma dns_name_parse_tr_safe fuel c want ih :
  cur_ok c -> (name_fuel c <= fuel)%nat ->
  safe (fun r => cur_ok (snd (fst r)) /\ same_block c (snd (fst r)) /\ tr_backward (snd r)
                  /\ c_off c < c_off (snd (fst r)))
       (dns_name_parse_tr fuel c want ih).
Proof.
  intros Hc Hf. unfold dns_name_parse_tr, name_fuel in *. rewrite get_position_ok. cbn [bind].
  eapply safe_bind.
  - apply badresp_to_badname_safe.
    assert (H0 : 0 <= c_off c <= c_len c) by (destruct Hc; lia).
    apply (name_seg_safe ih want c (c_off c) fuel).
    + lia.
    + assumption.
    + apply same_block_refl.
    + lia.
    + lia.
    + exact I.
    + intros e [].
    + lia.
    + split; intros; lia.
  - intros st (Hcs & Hsb & Hsave & Hbw & Hs0 & Hs1).
    destruct (ns_save st =? 0) eqn:Es; cbn [negb].
    + apply Z.eqb_eq in Es. simpl. auto.
    + apply Z.eqb_neq in Es.
      rewrite (set_position_spec _ _ Hcs). cbn [bind safe fst snd].
      assert (Hl : c_len (ns_cur st) = c_len c) by apply Hsb.
      destruct (ns_save st >? c_len (ns_cur st)) eqn:E; cbn [snd].
      * rewrite Z.gtb_ltb in E. apply Z.ltb_lt in E. lia.
      * split; [apply cur_ok_set_off; [assumption | lia]|].
        split; [eapply same_block_trans; [eassumption | apply set_off_same]|].
        split; [assumption | simpl; auto].
Qed.

Lemma dns_name_parse_safe fuel c want ih :
  cur_ok c -> (name_fuel c <= fuel)%nat ->
  safe (fun r => moved_on c (snd r)) (dns_name_parse fuel c want ih).
Proof.
  intros Hc Hf. unfold dns_name_parse.
  eapply safe_bind; [apply (dns_name_parse_tr_safe fuel c want ih Hc Hf)|].
  intros [[nm c'] tr] (H1 & H2 & _ & H3). simpl. repeat split; try apply H1; try apply H2. assumption.
Qed.

(* ---- the three C02 name statements ---- *)

Theorem name_parse_no_ub fuel c want ih :
  cur_ok c -> (name_fuel c <= fuel)%nat -> is_ub (dns_name_parse_tr fuel c want ih) = false.
Proof. intros. eapply safe_not_ub. apply dns_name_parse_tr_safe; assumption. Qed.

Theorem name_parse_fuel_sufficient fuel c want ih :
  cur_ok c -> (name_fuel c <= fuel)%nat -> dns_name_parse_tr fuel c want ih <> Err OutOfFuel.
Proof. intros. eapply safe_not_fuel. apply dns_name_parse_tr_safe; assumption. Qed.

Theorem name_parse_pointers_backward fuel c want ih nm c' tr :
  cur_ok c -> (name_fuel c <= fuel)%nat ->
  dns_name_parse_tr fuel c want ih = Ok (nm, c', tr) ->
  tr_backward tr /\ cur_ok c' /\ same_block c c' /\ c_off c < c_off c'.
Proof.
  intros Hc Hf E. pose proof (dns_name_parse_tr_safe fuel c want ih Hc Hf) as H.
  rewrite E in H. simpl in H. tauto.
Qed.

(* ---- legacy wrappers: any int alen, any `encoded` pointer offset ---- *)

Lemma expand_name_validated_safe abuf enc alen want ih :
  alen <= Z.of_nat (length abuf) -> alen < 2 ^ 64 ->
  safe (fun _ => True) (expand_name_validated abuf enc alen want ih).
Proof.
  intros Hal Hb. unfold expand_name_validated.
  destruct (alen =? 0); [simpl; status_ne|].
  destruct ((enc <? 0) || (enc >=? alen)) eqn:E; [simpl; status_ne|].
  apply orb_false_elim in E. destruct E as [E1 E2].
  apply Z.ltb_ge in E1. rewrite Z.geb_leb in E2. apply Z.leb_gt in E2.
  set (buf := mkCur abuf alen 0 abuf).
  assert (Hbuf : cur_ok buf) by (repeat split; simpl; lia).
  unfold checked. rewrite (set_position_spec _ _ Hbuf). cbn [bind fst snd].
  destruct (enc >? c_len buf) eqn:Eg; [simpl in Eg; rewrite Z.gtb_ltb in Eg; apply Z.ltb_lt in Eg; lia|].
  cbn [fst snd]. replace (ARES_SUCCESS =? ARES_SUCCESS) with true by (symmetry; apply Z.eqb_refl).
  assert (Hc : cur_ok (set_off buf enc)) by (apply cur_ok_set_off; [assumption | simpl; lia]).
  cbn [bind]. rewrite (buf_len_ok _ Hc). cbn [bind].
  eapply safe_bind; [apply (dns_name_parse_safe _ _ want ih Hc); apply le_n|].
  intros [nm c'] (Hc' & _). cbn [snd fst] in *.
  rewrite (buf_len_ok _ Hc'). simpl. exact I.
Qed.

Theorem expand_name_safe abuf enc alen want :
  alen <= Z.of_nat (length abuf) -> alen < 2 ^ 31 ->
  safe (fun _ => True) (expand_name abuf enc alen want).
Proof.
  intros Hal Hb. unfold expand_name.
  destruct (alen <=? 0); [simpl; status_ne|].
  apply expand_name_validated_safe; [assumption|]. change (2 ^ 64) with 18446744073709551616. change (2 ^ 31) with 2147483648 in Hb. lia.
Qed.

Lemma to_badstr_safe {A} (P : A -> Prop) m : safe P m -> safe P (to_badstr m).
Proof.
  destruct m as [a|s|k]; simpl; auto.
  intros Hs. destruct ((s =? ARES_EBADNAME) || (s =? ARES_EBADRESP)); simpl; [status_ne | assumption].
Qed.

Theorem expand_string_safe abuf enc alen want :
  alen <= Z.of_nat (length abuf) -> alen < 2 ^ 31 ->
  safe (fun _ => True) (expand_string abuf enc alen want).
Proof.
  intros Hal Hb. unfold expand_string.
  destruct (alen <=? 0); [simpl; status_ne|].
  unfold expand_string_ex.
  destruct (alen =? 0); [simpl; status_ne|].
  destruct ((enc <? 0) || (enc >=? alen)) eqn:E; [simpl; status_ne|].
  apply orb_false_elim in E. destruct E as [E1 E2].
  apply Z.ltb_ge in E1. rewrite Z.geb_leb in E2. apply Z.leb_gt in E2.
  set (buf := mkCur abuf alen 0 abuf).
  assert (Hbuf : cur_ok buf).
  { repeat split; simpl; try lia. }
  apply to_badstr_safe.
  unfold checked. rewrite (set_position_spec _ _ Hbuf). cbn [bind fst snd].
  destruct (enc >? c_len buf) eqn:Eg; [simpl in Eg; rewrite Z.gtb_ltb in Eg; apply Z.ltb_lt in Eg; lia|].
  cbn [fst snd]. replace (ARES_SUCCESS =? ARES_SUCCESS) with true by (symmetry; apply Z.eqb_refl).
  assert (Hc : cur_ok (set_off buf enc)) by (apply cur_ok_set_off; [assumption | simpl; lia]).
  cbn [bind]. rewrite (buf_len_ok _ Hc). cbn [bind].
  eapply safe_bind; [apply (parse_dns_binstr_safe _ _ want false Hc)|].
  intros [s c'] (Hc' & _). cbn [snd fst] in *.
  rewrite (buf_len_ok _ Hc'). simpl. exact I.
Qed.

(* ---- non-vacuity: a name with two chained pointers is decoded, both pointers appear in the
   trace, and the statement about them is not trivially true ---- *)
Definition ex_chain_msg : list N :=
  (repeat 0 12 ++ [3; 99; 111; 109; 0] ++ [1; 97; 192; 12] ++ [1; 98; 192; 17])%N.

Example ex_chain_parses :
  dns_name_parse_tr (name_fuel (cur_of_bytes ex_chain_msg)) (set_off (cur_of_bytes ex_chain_msg) 21) true false
  = Ok ([98; 46; 97; 46; 99; 111; 109]%N, set_off (cur_of_bytes ex_chain_msg) 25,
        [EvOctet 16; EvOctet 12; EvJump 12; EvOctet 19; EvOctet 17; EvJump 17; EvOctet 23; EvOctet 21]).
Proof. vm_compute. reflexivity. Qed.

(* a pointer loop is rejected, not followed: offset 12 points to itself *)
Example ex_self_pointer_rejected :
  dns_name_parse_tr 14 (set_off (cur_of_bytes (repeat 0 12 ++ [192; 12])%N) 12) true false = Err ARES_EBADNAME.
Proof. vm_compute. reflexivity. Qed.

(* a forward pointer is rejected *)
Example ex_forward_pointer_rejected :
  dns_name_parse_tr 20 (set_off (cur_of_bytes (repeat 0 12 ++ [192; 14; 1; 97; 0])%N) 12) true false = Err ARES_EBADNAME.
Proof. vm_compute. reflexivity. Qed.

(* chained pointers: the name at 8 points to the pointer at 6, which points to the pointer at 2,
   which points FORWARD to 6 again (all targets below the offset where the name starts): rejected at
   the second hop, because the lowest offset read so far is lowered at EVERY octet read, pointers
   included *)
Example ex_pointer_cycle_before_name_rejected :
  dns_name_parse_tr 11 (set_off (cur_of_bytes [0; 0; 192; 6; 0; 0; 192; 2; 192; 6]%N) 8) true false = Err ARES_EBADNAME.
Proof. vm_compute. reflexivity. Qed.

(* ... and a forward hop to a label behind a backward pointer is rejected as well: 8 -> 4 -> 6 ("x") *)
Example ex_forward_hop_to_label_rejected :
  dns_name_parse_tr 11 (set_off (cur_of_bytes [0; 0; 0; 0; 192; 6; 1; 120; 192; 4; 0]%N) 8) true false = Err ARES_EBADNAME.
Proof. vm_compute. reflexivity. Qed.
