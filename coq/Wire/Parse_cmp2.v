(* C04_complete, part 2: every field the reference decoder extracts the per-type decoders of the
   parser model decode (forward direction of Parse_ref3.v). *)
From CAres.Wire Require Import Cursor Cursor_proofs Name Name_proofs Record Parse Parse_proofs Escape Escape_proofs RefDecode Bits Name_ref Parse_ref Parse_ref2 Parse_sets Parse_ref3 Parse_ref4 Parse_cmp1.
From CAres.Gen Require Import Consts LeafFns Tables.
Local Open Scope Z_scope.

(* text handed out as a C string must be printable (supported-subset restriction) *)
Definition text_fine (k : fkind) (v : fval) : bool :=
  match k, v with
  | KCharStr _, FStr (Some s) => forallb printable s
  | KRestText, FName (Some s) => forallb printable s
  | _, _ => true
  end.

Fixpoint texts_fine (lay : list (Z * fkind)) (fs : list (Z * fval)) : bool :=
  match lay, fs with
  | (_, k) :: lay', (_, v) :: fs' => text_fine k v && texts_fine lay' fs'
  | _, _ => true
  end.


(* ---- when the setters succeed ---- *)
Lemma assoc_set_keys {A} k (v : A) l : map fst (assoc_set k v l) = map fst l.
Proof.
  induction l as [|[k' v'] l IH]; [reflexivity|]. cbn [assoc_set]. destruct (k =? k') eqn:E.
  - apply Z.eqb_eq in E. subst. reflexivity.
  - cbn [map fst]. rewrite IH. reflexivity.
Qed.

Lemma assoc_get_in {A} k (l : list (Z * A)) : In k (map fst l) -> exists v, assoc_get k l = Some v.
Proof.
  induction l as [|[k' v'] l IH]; [intros []|]. cbn [map fst In assoc_get]. intros [H|H].
  - subst. rewrite Z.eqb_refl. eexists; reflexivity.
  - destruct (k =? k'); [eexists; reflexivity | apply IH; exact H].
Qed.

Lemma assoc_get_set_same {A} k (v : A) l : In k (map fst l) -> assoc_get k (assoc_set k v l) = Some v.
Proof.
  induction l as [|[k' v'] l IH]; [intros []|]. cbn [map fst In assoc_set]. intros H.
  destruct (k =? k') eqn:E.
  - cbn [assoc_get]. rewrite Z.eqb_refl. reflexivity.
  - cbn [assoc_get]. rewrite E. apply IH. destruct H as [H|H]; [subst; rewrite Z.eqb_refl in E; discriminate | exact H].
Qed.

Lemma rr_set_ok r key v :
  setter_accepts v (key_datatype key) = true -> rr_type r = key_to_rec_type key -> In key (map fst (rr_fields r)) ->
  exists r', rr_set r key v = Ok r' /\ rr_type r' = rr_type r /\ map fst (rr_fields r') = map fst (rr_fields r).
Proof.
  intros Ha Ht Hin. unfold rr_set. rewrite Ha. cbn [negb]. rewrite Ht, Z.eqb_refl. cbn [negb].
  destruct (assoc_get_in key _ Hin) as (v0 & ->). eexists. split; [reflexivity|]. cbn [rr_type rr_fields].
  split; [reflexivity | apply assoc_set_keys].
Qed.

Lemma adds_ok : forall l r key l0,
  key_datatype key = ARES_DATATYPE_OPT -> rr_type r = key_to_rec_type key ->
  assoc_get key (rr_fields r) = Some (FOpt l0) -> exists r', adds r key l = Ok r'.
Proof.
  induction l as [|[o v] l IH]; intros r key l0 Hd Ht Hg; [eexists; reflexivity|].
  cbn [adds]. unfold rr_add_opt at 1. rewrite Hd, Z.eqb_refl. cbn [negb]. rewrite Ht, Z.eqb_refl. cbn [negb]. rewrite Hg. cbn [bind].
  apply (IH _ key (l0 ++ [(o, v)]) Hd); cbn [rr_type rr_fields]; [reflexivity|].
  apply assoc_get_set_same. clear -Hg. induction (rr_fields r) as [|[k' v'] t IHt]; [discriminate|].
  cbn [assoc_get] in Hg. cbn [map fst In]. destruct (key =? k') eqn:E; [left; symmetry; apply Z.eqb_eq; exact E | right; apply IHt; exact Hg].
Qed.

(* which datatype a field kind is stored in *)
Definition kind_dt_ok (k : fkind) (dt : Z) : bool :=
  match k with
  | KAddr4 => dt =? ARES_DATATYPE_INADDR
  | KAddr6 => dt =? ARES_DATATYPE_INADDR6
  | KU8 => dt =? ARES_DATATYPE_U8
  | KU16 => dt =? ARES_DATATYPE_U16
  | KU32 => dt =? ARES_DATATYPE_U32
  | KName | KCharStr _ | KRestText => (dt =? ARES_DATATYPE_STR) || (dt =? ARES_DATATYPE_NAME)
  | KRestBin => (dt =? ARES_DATATYPE_BIN) || (dt =? ARES_DATATYPE_BINP)
  | KCharStrs => dt =? ARES_DATATYPE_ABINP
  | KTlvs => dt =? ARES_DATATYPE_OPT
  end.

Lemma ref_field_accepts bs k o e v o' dt :
  ref_field bs k o e = Some (v, o') -> kind_dt_ok k dt = true -> setter_accepts v dt = true.
Proof.
  intros R H. destruct k; cbn [ref_field] in R; cbn [kind_dt_ok] in H;
    repeat match type of R with
           | match ?m with _ => _ end = _ => destruct m; try discriminate
           | (if ?c then _ else _) = _ => destruct c; try discriminate
           end; injection R as <- <-; exact H.
Qed.

(* the layout entry fits the key tables of the library *)
Definition entry_fits (t : Z) (kv : Z * fkind) : bool :=
  kind_dt_ok (snd kv) (key_datatype (fst kv)) && (key_to_rec_type (fst kv) =? t)
  && match snd kv with KRestText => fst kv =? ARES_RR_URI_TARGET | _ => true end.

Lemma layout_fits t lay :
  layout t = Some lay -> forallb (entry_fits t) lay = true /\ map fst (zero_fields (rr_keys t)) = map fst lay.
Proof.
  unfold layout.
  repeat match goal with
         | |- (if ?t =? ?k then _ else _) = _ -> _ =>
           let E := fresh "E" in
           destruct (t =? k) eqn:E;
           [apply Z.eqb_eq in E; subst t; intros H; injection H as <-; split; vm_compute; reflexivity | clear E]
         end.
  discriminate.
Qed.

Lemma sets_ref_ok bs e t : forall lay o fs o' r,
  ref_fields bs lay o e = Some (fs, o') -> forallb (entry_fits t) lay = true ->
  rr_type r = t -> (forall key, In key (map fst lay) -> In key (map fst (rr_fields r))) ->
  exists r', sets r fs = Ok r'.
Proof.
  induction lay as [|[key k] lay IH]; intros o fs o' r R Hf Ht Hin.
  - cbn in R. injection R as <- <-. eexists; reflexivity.
  - cbn [ref_fields] in R. destruct (ref_field bs k o e) as [[v nxt]|] eqn:Rf; [|discriminate].
    destruct (ref_fields bs lay nxt e) as [[fs' p]|] eqn:Rr; [|discriminate]. injection R as <- <-.
    cbn [forallb] in Hf. apply andb_true_iff in Hf. destruct Hf as (Hf1 & Hf2).
    unfold entry_fits in Hf1. cbn [fst snd] in Hf1. apply andb_true_iff in Hf1. destruct Hf1 as (Hf1 & _).
    apply andb_true_iff in Hf1. destruct Hf1 as (Hk & Hty). apply Z.eqb_eq in Hty.
    destruct (rr_set_ok r key v (ref_field_accepts _ _ _ _ _ _ _ Rf Hk) ltac:(congruence) (Hin key (or_introl eq_refl)))
      as (r1 & Hs & Ht1 & Hk1).
    destruct (IH nxt fs' p r1 Rr Hf2 ltac:(congruence)) as (r' & Hs').
    { intros key' Hin'. rewrite Hk1. apply Hin. right. exact Hin'. }
    exists r'. cbn [sets]. rewrite Hs. cbn [bind]. exact Hs'.
Qed.

(* the supported-subset predicate on the reference RR gives printable text where the parser insists *)
Definition field_supported (kv : Z * fval) : bool :=
  text_ok (snd kv) (key_datatype (fst kv))
  && (negb (fst kv =? ARES_RR_URI_TARGET) || match snd kv with FName (Some s) => forallb printable s | _ => true end).

Lemma texts_from_supported t : forall lay fs,
  forallb (entry_fits t) lay = true -> map fst fs = map fst lay -> forallb field_supported fs = true ->
  texts_fine lay fs = true.
Proof.
  induction lay as [|[key k] lay IH]; intros fs Hf Hk Hs; [reflexivity|].
  destruct fs as [|[key' v] fs]; [discriminate|]. cbn [map fst] in Hk. injection Hk as -> Hk.
  cbn [forallb] in Hf, Hs. apply andb_true_iff in Hf. destruct Hf as (Hf1 & Hf2).
  apply andb_true_iff in Hs. destruct Hs as (Hs1 & Hs2).
  cbn [texts_fine]. rewrite (IH fs Hf2 Hk Hs2), andb_true_r.
  unfold field_supported in Hs1. cbn [fst snd] in Hs1. apply andb_true_iff in Hs1. destruct Hs1 as (Hs1 & Hs1').
  unfold entry_fits in Hf1. cbn [fst snd] in Hf1. apply andb_true_iff in Hf1. destruct Hf1 as (_ & Huri).
  destruct k; try reflexivity; destruct v as [| | | | |[s|]|[s|]| | |]; try reflexivity; cbn [text_fine].
  - exact Hs1.
  - apply Z.eqb_eq in Huri. subst key. rewrite Z.eqb_refl in Hs1'. cbn [negb orb] in Hs1'. exact Hs1'.
Qed.

Lemma ref_fields_keys bs e : forall lay o fs o', ref_fields bs lay o e = Some (fs, o') -> map fst fs = map fst lay.
Proof.
  induction lay as [|[key k] lay IH]; intros o fs o' R.
  - cbn in R. injection R as <- <-. reflexivity.
  - cbn [ref_fields] in R. destruct (ref_field bs k o e) as [[v nxt]|]; [|discriminate].
    destruct (ref_fields bs lay nxt e) as [[fs' p]|] eqn:Rr; [|discriminate]. injection R as <- <-.
    cbn [map fst]. rewrite (IH _ _ _ Rr). reflexivity.
Qed.

Lemma rr_supported_fields r : rr_supported r = true -> forallb field_supported (rr_fields r) = true.
Proof. unfold rr_supported. intros H. apply andb_true_iff in H. destruct H as (_ & H). exact H. Qed.

Section FieldsFwd.
  Variable bs : list N.
  Hypothesis Hb : bytes_ok bs.
  Hypothesis Hl : Z.of_nat (length bs) < 2 ^ 64.
  Variable fuel : nat.
  Hypothesis Hfuel : (name_fuel (cur_of_bytes bs) <= fuel)%nat.
  Notation n := (Z.of_nat (length bs)).
  Notation at_ := (at_ bs).
  Notation pos_ok := (pos_ok bs).
  Variables rd rdl : Z.
  Hypothesis Hrd : pos_ok rd.
  Hypothesis Hrdl : 0 <= rdl < 65536.
  Let e : Z := rd + rdl.
  Hypothesis He : e <= n.

  Ltac posu := unfold e, pos_ok, Parse_ref2.pos_ok in *.
  Local Notation rem_at := (rem_at bs Hb Hl fuel Hfuel rd rdl Hrd Hrdl).
  Local Notation dec_field := (dec_field bs fuel rd rdl).
  Local Notation dec_fields := (dec_fields bs fuel rd rdl).

  Lemma rem_lt o : pos_ok o -> rd <= o -> o < e ->
    rr_remaining_len (at_ o) (n - rd) rdl = Ok (rdl - (o - rd)) /\ (rdl - (o - rd) =? 0) = false.
  Proof.
    intros Ho Hro Hoe. rewrite (rem_at o Ho Hro).
    replace (o - rd >=? rdl) with false by (symmetry; rewrite Z.geb_leb; apply Z.leb_gt; unfold e in *; lia).
    split; [reflexivity | apply Z.eqb_neq; unfold e in *; lia].
  Qed.

  Lemma dec_field_fwd k key o r v o' r' :
    pos_ok o -> rd <= o ->
    ref_field bs k (Z.to_nat o) (Z.to_nat e) = Some (v, o') -> simple_kind k = true -> text_fine k v = true ->
    rr_set r key v = Ok r' ->
    dec_field k key (at_ o, r) = Ok (at_ (Z.of_nat o'), r') /\ pos_ok (Z.of_nat o') /\ o <= Z.of_nat o'.
  Proof.
    intros Ho Hro R Hs Ht Hset. assert (Ho0 : 0 <= o) by (posu; lia).
    destruct k; cbn [simple_kind] in Hs; try discriminate; cbn [ref_field] in R; cbn [Parse_ref3.dec_field].
    - (* addr4 *)
      destruct (slice bs (Z.to_nat o) 4) as [b|] eqn:S; [|discriminate]. injection R as <- <-.
      destruct (bytes_fwd bs Hb Hl o 4 b Ho ltac:(lia) S) as (F & Hp).
      unfold set_addr4. cbn [fst snd]. change sizeof_in_addr with 4. rewrite F. cbn [bind fst snd]. rewrite Hset. cbn [bind].
      replace (Z.of_nat (Z.to_nat o + 4)) with (o + 4) by lia. split; [reflexivity | split; [exact Hp | lia]].
    - (* addr6 *)
      destruct (slice bs (Z.to_nat o) 16) as [b|] eqn:S; [|discriminate]. injection R as <- <-.
      destruct (bytes_fwd bs Hb Hl o 16 b Ho ltac:(lia) S) as (F & Hp).
      unfold set_addr6. cbn [fst snd]. change sizeof_in6_addr with 16. rewrite F. cbn [bind fst snd]. rewrite Hset. cbn [bind].
      replace (Z.of_nat (Z.to_nat o + 16)) with (o + 16) by lia. split; [reflexivity | split; [exact Hp | lia]].
    - (* u8 *)
      destruct (octet bs (Z.to_nat o)) as [x|] eqn:S; [|discriminate]. injection R as <- <-.
      destruct (u8_fwd bs Hb Hl o x Ho S) as (F & Hp).
      unfold parse_and_set_u8. cbn [fst snd]. rewrite F. cbn [bind fst snd]. rewrite Hset. cbn [bind].
      replace (Z.of_nat (Z.to_nat o + 1)) with (o + 1) by lia. split; [reflexivity | split; [exact Hp | lia]].
    - (* u16 *)
      destruct (u16_at bs (Z.to_nat o)) as [x|] eqn:S; [|discriminate]. injection R as <- <-.
      destruct (be16_fwd bs Hb Hl o x Ho S) as (F & Hp).
      unfold parse_and_set_be16. cbn [fst snd]. rewrite F. cbn [bind fst snd]. rewrite Hset. cbn [bind].
      replace (Z.of_nat (Z.to_nat o + 2)) with (o + 2) by lia. split; [reflexivity | split; [exact Hp | lia]].
    - (* u32 *)
      destruct (u32_at bs (Z.to_nat o)) as [x|] eqn:S; [|discriminate]. injection R as <- <-.
      destruct (be32_fwd bs Hb Hl o x Ho S) as (F & Hp).
      unfold parse_and_set_be32. cbn [fst snd]. rewrite F. cbn [bind fst snd]. rewrite Hset. cbn [bind].
      replace (Z.of_nat (Z.to_nat o + 4)) with (o + 4) by lia. split; [reflexivity | split; [exact Hp | lia]].
    - (* name *)
      destruct (ref_name bs (Z.to_nat o)) as [[ls nxt]|] eqn:S; [|discriminate]. injection R as <- <-.
      destruct (name_fwd bs Hb Hl fuel o ls nxt Ho Hfuel S) as (F & Hp).
      unfold parse_and_set_dns_name. cbn [fst snd]. rewrite F. cbn [bind fst snd]. rewrite Hset. cbn [bind].
      split; [reflexivity | split; [exact Hp|]].
      destruct (at_good bs Hb Hl o Ho) as (Hc & _ & _).
      pose proof (dns_name_parse_safe fuel _ true false Hc Hfuel) as Sf. rewrite F in Sf. cbn [safe snd] in Sf.
      destruct Sf as (_ & _ & Hlt). change (c_off (at_ o)) with o in Hlt. cbn in Hlt. lia.
    - (* <character-string> *)
      destruct (Nat.leb (Z.to_nat e) (Z.to_nat o)) eqn:Ele; [discriminate|]. apply Nat.leb_gt in Ele.
      destruct (octet bs (Z.to_nat o)) as [len|] eqn:S8; [|discriminate].
      destruct (nonempty && (len =? 0)) eqn:Ene; [discriminate|].
      destruct (Nat.ltb (Z.to_nat e) (Z.to_nat o + 1 + Z.to_nat len)) eqn:Elt; [discriminate|]. apply Nat.ltb_ge in Elt.
      destruct (slice bs (Z.to_nat o + 1) (Z.to_nat len)) as [s|] eqn:S; [|discriminate]. injection R as <- <-.
      cbn [text_fine] in Ht.
      assert (Hoe : o < e) by lia.
      destruct (rem_lt o Ho Hro Hoe) as (Rm & Rm0). cbn [fst snd]. rewrite Rm. cbn [bind].
      destruct (u8_fwd bs Hb Hl o len Ho S8) as (F8 & Hp1).
      assert (Hlen : 0 <= len < 256).
      { unfold octet in S8. destruct (nth_error bs (Z.to_nat o)) as [b|] eqn:En; [|discriminate]. injection S8 as <-.
        apply (bytes_ok_nth bs _ b Hb En). }
      unfold parse_and_set_dns_str. cbn [fst snd]. unfold parse_dns_binstr. rewrite Rm0, F8. cbn [bind].
      rewrite Z.mod_small by (rewrite pow64; posu; lia).
      replace (len >? rdl - (o - rd) - 1) with false by (symmetry; rewrite Z.gtb_ltb; apply Z.ltb_ge; posu; lia).
      replace (Z.to_nat o + 1)%nat with (Z.to_nat (o + 1)) in S by lia.
      destruct (len =? 0) eqn:El0.
      + apply Z.eqb_eq in El0. subst len. change (Z.to_nat 0) with 0%nat in *.
        assert (s = []) as -> by (apply length_zero_iff_nil; apply (slice_length _ _ _ _ S)).
        cbn [bind fst snd length]. change (Z.of_nat 0 =? 0) with true.
        destruct nonempty; [discriminate Ene|]. cbn [negb andb]. rewrite Hset. cbn [bind].
        replace (Z.of_nat (Z.to_nat o + 1 + 0)) with (o + 1) by lia. split; [reflexivity | split; [exact Hp1 | lia]].
      + apply Z.eqb_neq in El0.
        rewrite (buf_len_at bs Hb Hl _ Hp1). cbn [bind].
        destruct (bytes_fwd bs Hb Hl (o + 1) len s Hp1 ltac:(lia) S) as (Fb & Hp2).
        assert (Hpr : all_printable s = true).
        { rewrite (all_printable_forallb s (slice_bytes_ok bs Hb _ _ _ S)). exact Ht. }
        assert (Hpeek : (if true && (n - (o + 1) >=? len)
                         then do data <- peek_bytes (at_ (o + 1)) len; if negb (all_printable data) then Err ARES_EBADSTR else Ok tt
                         else Ok tt) = Ok tt).
        { destruct (n - (o + 1) >=? len); cbn [andb]; [|reflexivity].
          rewrite (peek_fwd bs Hb Hl (o + 1) len s Hp1 S). cbn [bind]. rewrite Hpr. reflexivity. }
        rewrite Hpeek. cbn [bind]. rewrite Fb. cbn [bind fst snd].
        replace (Z.of_nat (length s) =? 0) with false
          by (symmetry; apply Z.eqb_neq; rewrite (slice_length _ _ _ _ S); lia).
        rewrite andb_false_r. rewrite Hset. cbn [bind].
        replace (Z.of_nat (Z.to_nat o + 1 + Z.to_nat len)) with (o + 1 + len) by lia.
        split; [reflexivity | split; [exact Hp2 | lia]].
    - (* rest, binary *)
      destruct (Nat.leb (Z.to_nat e) (Z.to_nat o)) eqn:Ele; [discriminate|]. apply Nat.leb_gt in Ele.
      destruct (slice bs (Z.to_nat o) (Z.to_nat e - Z.to_nat o)) as [b|] eqn:S; [|discriminate]. injection R as <- <-.
      assert (Hoe : o < e) by lia.
      destruct (rem_lt o Ho Hro Hoe) as (Rm & Rm0).
      unfold parse_and_set_rest_bin. cbn [fst snd]. rewrite Rm. cbn [bind]. rewrite Rm0.
      replace (Z.to_nat e - Z.to_nat o)%nat with (Z.to_nat (rdl - (o - rd))) in S by (posu; lia).
      destruct (bytes_fwd bs Hb Hl o (rdl - (o - rd)) b Ho ltac:(posu; lia) S) as (F & Hp).
      rewrite F. cbn [bind fst snd]. rewrite Hset. cbn [bind].
      replace (o + (rdl - (o - rd))) with e in * by (unfold e; lia).
      replace (Z.of_nat (Z.to_nat e)) with e by lia. split; [reflexivity | split; [exact Hp | lia]].
    - (* rest, text *)
      destruct (Nat.leb (Z.to_nat e) (Z.to_nat o)) eqn:Ele; [discriminate|]. apply Nat.leb_gt in Ele.
      destruct (slice bs (Z.to_nat o) (Z.to_nat e - Z.to_nat o)) as [b|] eqn:S; [|discriminate]. injection R as <- <-.
      cbn [text_fine] in Ht.
      assert (Hoe : o < e) by lia.
      destruct (rem_lt o Ho Hro Hoe) as (Rm & Rm0).
      unfold set_rest_text. cbn [fst snd]. rewrite Rm. cbn [bind]. rewrite Rm0.
      replace (Z.to_nat e - Z.to_nat o)%nat with (Z.to_nat (rdl - (o - rd))) in S by (posu; lia).
      destruct (str_fwd bs Hb Hl o (rdl - (o - rd)) b Ho ltac:(posu; lia) S Ht) as (F & Hp).
      rewrite F. cbn [bind fst snd].
      rewrite (all_printable_forallb b (slice_bytes_ok bs Hb _ _ _ S)), Ht. cbn [negb]. rewrite Hset. cbn [bind].
      replace (o + (rdl - (o - rd))) with e in * by (unfold e; lia).
      replace (Z.of_nat (Z.to_nat e)) with e by lia. split; [reflexivity | split; [exact Hp | lia]].
  Qed.

  Lemma dec_fields_fwd : forall lay o r fs o' r',
    pos_ok o -> rd <= o -> simple_layout lay = true ->
    ref_fields bs lay (Z.to_nat o) (Z.to_nat e) = Some (fs, o') -> texts_fine lay fs = true -> sets r fs = Ok r' ->
    dec_fields lay (at_ o, r) = Ok (at_ (Z.of_nat o'), r') /\ pos_ok (Z.of_nat o') /\ o <= Z.of_nat o'.
  Proof.
    induction lay as [|[key k] rest IH]; intros o r fs o' r' Ho Hro Hs R Ht Hsets.
    - cbn in R. injection R as <- <-. cbn in Hsets. injection Hsets as <-. cbn [Parse_ref3.dec_fields].
      replace (Z.of_nat (Z.to_nat o)) with o by (posu; lia). split; [reflexivity | split; [exact Ho | lia]].
    - cbn [ref_fields] in R. destruct (ref_field bs k (Z.to_nat o) (Z.to_nat e)) as [[v nxt]|] eqn:Rf; [|discriminate].
      destruct (ref_fields bs rest nxt (Z.to_nat e)) as [[fs' p]|] eqn:Rr; [|discriminate]. injection R as <- <-.
      unfold simple_layout in Hs. cbn [forallb snd] in Hs. apply andb_true_iff in Hs. destruct Hs as (Hs1 & Hs2).
      cbn [texts_fine] in Ht. apply andb_true_iff in Ht. destruct Ht as (Ht1 & Ht2).
      cbn [sets] in Hsets. destruct (rr_set r key v) as [r1| |] eqn:Es; cbn [bind] in Hsets; try discriminate.
      destruct (dec_field_fwd k key o r v nxt r1 Ho Hro Rf Hs1 Ht1 Es) as (F & Hp & Hle).
      rewrite dec_fields_unfold. destruct rest as [|b rest'].
      + cbn in Rr. injection Rr as <- <-. cbn in Hsets. injection Hsets as <-.
        split; [exact F | split; [exact Hp | exact Hle]].
      + rewrite F. cbn [bind].
        rewrite <- (Nat2Z.id nxt) in Rr.
        destruct (IH (Z.of_nat nxt) r1 fs' p r' Hp ltac:(lia) Hs2 Rr Ht2 Hsets) as (F' & Hp' & Hle').
        split; [exact F' | split; [exact Hp' | lia]].
  Qed.

  (* ---- loops ---- *)
  Lemma charstrs_le f : forall p l, ref_charstrs f bs p (Z.to_nat e) = Some l -> (p <= Z.to_nat e)%nat.
  Proof.
    destruct f; intros p l H; [discriminate|]. cbn [ref_charstrs] in H.
    destruct (Nat.leb (Z.to_nat e) p) eqn:E; [|apply Nat.leb_gt in E; lia].
    destruct (Nat.eqb p (Z.to_nat e)) eqn:E2; [|discriminate]. apply Nat.eqb_eq in E2. lia.
  Qed.

  Lemma tlvs_le f : forall p l, ref_tlvs f bs p (Z.to_nat e) = Some l -> (p <= Z.to_nat e)%nat.
  Proof.
    destruct f; intros p l H; [discriminate|]. cbn [ref_tlvs] in H.
    destruct (Nat.leb (Z.to_nat e) p) eqn:E; [|apply Nat.leb_gt in E; lia].
    destruct (Nat.eqb p (Z.to_nat e)) eqn:E2; [|discriminate]. apply Nat.eqb_eq in E2. lia.
  Qed.

  Lemma mloop_fwd : forall f lf o acc l,
    pos_ok o -> rd <= o ->
    ref_charstrs f bs (Z.to_nat o) (Z.to_nat e) = Some l -> (Z.to_nat e - Z.to_nat o <= lf)%nat ->
    multistring_loop lf (at_ o) (n - rd) rdl false acc = Ok (acc ++ l, at_ e).
  Proof.
    induction f as [|f IH]; intros lf o acc l Ho Hro R Hlf; [discriminate|].
    pose proof (charstrs_le _ _ _ R) as Hoe.
    cbn [ref_charstrs] in R.
    assert (Hcommon : forall lf', multistring_loop lf' (at_ o) (n - rd) rdl false acc =
              (if negb (o - rd <? rdl) then Ok (acc, at_ o) else
               match lf' with
               | O => Err OutOfFuel
               | S lf0 =>
                 do r <- fetch_u8 (at_ o); let '(len, c1) := r in
                 do bl1 <- buf_len c1;
                 do _ <- (if negb (len =? 0) && false && (bl1 >=? len) then
                            do data <- peek_bytes c1 len; if negb (all_printable data) then Err ARES_EBADSTR else Ok tt
                          else Ok tt);
                 do r2 <- (if negb (len =? 0) then fetch_bytes c1 len else Ok ([], c1));
                 multistring_loop lf0 (snd r2) (n - rd) rdl false (acc ++ [fst r2])
               end)).
    { intros lf'. destruct lf'; cbn [multistring_loop]; rewrite (buf_len_at bs Hb Hl o Ho); cbn [bind];
        replace (n - rd - (n - o)) with (o - rd) by lia;
        rewrite Z.mod_small by (posu; rewrite pow64 in *; lia); reflexivity. }
    rewrite Hcommon.
    destruct (Nat.leb (Z.to_nat e) (Z.to_nat o)) eqn:Ele.
    - apply Nat.leb_le in Ele. destruct (Nat.eqb (Z.to_nat o) (Z.to_nat e)) eqn:Eeq; [|discriminate]. injection R as <-.
      assert (o = e) by (posu; lia). subst o.
      replace (e - rd <? rdl) with false by (symmetry; apply Z.ltb_ge; unfold e; lia). cbn [negb]. rewrite app_nil_r. reflexivity.
    - apply Nat.leb_gt in Ele. assert (Hlt : o < e) by (posu; lia).
      replace (o - rd <? rdl) with true by (symmetry; apply Z.ltb_lt; unfold e in *; lia). cbn [negb].
      destruct lf as [|lf]; [posu; lia|].
      destruct (octet bs (Z.to_nat o)) as [len|] eqn:S8; [|discriminate].
      destruct (slice bs (Z.to_nat o + 1) (Z.to_nat len)) as [str|] eqn:S; [|discriminate].
      destruct (ref_charstrs f bs (Z.to_nat o + 1 + Z.to_nat len) (Z.to_nat e)) as [rest|] eqn:Rr; [|discriminate].
      injection R as <-.
      destruct (u8_fwd bs Hb Hl o len Ho S8) as (F8 & Hp1). rewrite F8. cbn [bind].
      assert (Hlen : 0 <= len < 256).
      { unfold octet in S8. destruct (nth_error bs (Z.to_nat o)) as [b|] eqn:En; [|discriminate]. injection S8 as <-.
        apply (bytes_ok_nth bs _ b Hb En). }
      rewrite (buf_len_at bs Hb Hl _ Hp1). cbn [bind]. rewrite andb_false_r. cbn [andb bind].
      replace (Z.to_nat o + 1)%nat with (Z.to_nat (o + 1)) in S by (posu; lia).
      replace (Z.to_nat o + 1 + Z.to_nat len)%nat with (Z.to_nat (o + 1 + len)) in Rr by (posu; lia).
      pose proof (charstrs_le _ _ _ Rr) as Hle2.
      destruct (len =? 0) eqn:El0; cbn [negb].
      + apply Z.eqb_eq in El0. subst len. change (Z.to_nat 0) with 0%nat in S.
        assert (str = []) as -> by (apply length_zero_iff_nil; apply (slice_length _ _ _ _ S)).
        cbn [bind fst snd]. replace (o + 1 + 0) with (o + 1) in * by lia.
        rewrite (IH lf (o + 1) (acc ++ [[]]) rest Hp1 ltac:(lia) Rr ltac:(posu; lia)).
        rewrite <- app_assoc. reflexivity.
      + apply Z.eqb_neq in El0.
        destruct (bytes_fwd bs Hb Hl (o + 1) len str Hp1 ltac:(lia) S) as (Fb & Hp2). rewrite Fb. cbn [bind fst snd].
        rewrite (IH lf (o + 1 + len) (acc ++ [str]) rest Hp2 ltac:(lia) Rr ltac:(posu; lia)).
        rewrite <- app_assoc. reflexivity.
  Qed.

  Lemma oloop_fwd key : forall f lf o r l r',
    pos_ok o -> rd <= o ->
    ref_tlvs f bs (Z.to_nat o) (Z.to_nat e) = Some l -> adds r key l = Ok r' -> (Z.to_nat e - Z.to_nat o <= lf)%nat ->
    opt_loop fixed_tree lf (at_ o, r) (n - rd) rdl key = Ok (at_ e, r').
  Proof.
    induction f as [|f IH]; intros lf o r l r' Ho Hro R Hadds Hlf; [discriminate|].
    pose proof (tlvs_le _ _ _ R) as Hoe.
    cbn [ref_tlvs] in R.
    destruct (Nat.leb (Z.to_nat e) (Z.to_nat o)) eqn:Ele.
    - apply Nat.leb_le in Ele. destruct (Nat.eqb (Z.to_nat o) (Z.to_nat e)) eqn:Eeq; [|discriminate]. injection R as <-.
      cbn in Hadds. injection Hadds as <-.
      assert (o = e) by (posu; lia). subst o.
      destruct lf; cbn [opt_loop fst snd]; rewrite (rem_at e Ho Hro); cbn [bind];
        replace (e - rd >=? rdl) with true by (symmetry; rewrite Z.geb_leb; apply Z.leb_le; unfold e; lia);
        reflexivity.
    - apply Nat.leb_gt in Ele. assert (Hlt : o < e) by (posu; lia).
      destruct lf as [|lf]; [posu; lia|].
      destruct (rem_lt o Ho Hro Hlt) as (Rm & Rm0).
      cbn [opt_loop fst snd]. rewrite Rm. cbn [bind]. rewrite Rm0.
      destruct (u16_at bs (Z.to_nat o)) as [code|] eqn:U1; [|discriminate].
      destruct (u16_at bs (Z.to_nat o + 2)) as [len|] eqn:U2; [|discriminate].
      destruct (slice bs (Z.to_nat o + 4) (Z.to_nat len)) as [v|] eqn:S; [|discriminate].
      destruct (ref_tlvs f bs (Z.to_nat o + 4 + Z.to_nat len) (Z.to_nat e)) as [rest|] eqn:Rr; [|discriminate].
      injection R as <-.
      destruct (be16_fwd bs Hb Hl o code Ho U1) as (F1 & Hp1). rewrite F1. cbn [bind].
      replace (Z.to_nat o + 2)%nat with (Z.to_nat (o + 2)) in U2 by (posu; lia).
      destruct (be16_fwd bs Hb Hl (o + 2) len Hp1 U2) as (F2 & Hp2). rewrite F2. cbn [bind].
      assert (Hlen : 0 <= len < 65536) by (apply (Parse_ref4.u16_bound bs _ len Hb U2)).
      replace (Z.to_nat o + 4)%nat with (Z.to_nat (o + 2 + 2)) in S by (posu; lia).
      replace (Z.to_nat o + 4 + Z.to_nat len)%nat with (Z.to_nat (o + 2 + 2 + len)) in Rr by (posu; lia).
      cbn [adds] in Hadds. destruct (rr_add_opt r key code v) as [r1| |] eqn:Ea; cbn [bind] in Hadds; try discriminate.
      cbn [fixed_tree v_opt_append].
      destruct (len =? 0) eqn:El0; cbn [negb].
      + apply Z.eqb_eq in El0. subst len. change (Z.to_nat 0) with 0%nat in S.
        assert (v = []) as -> by (apply length_zero_iff_nil; apply (slice_length _ _ _ _ S)).
        cbn [bind fst snd]. rewrite Ea. cbn [bind]. replace (o + 2 + 2 + 0) with (o + 2 + 2) in * by lia.
        apply (IH lf (o + 2 + 2) r1 rest r' Hp2 ltac:(lia) Rr Hadds). posu. lia.
      + apply Z.eqb_neq in El0.
        destruct (bytes_fwd bs Hb Hl (o + 2 + 2) len v Hp2 ltac:(lia) S) as (Fb & Hp3). rewrite Fb. cbn [bind fst snd].
        rewrite Ea. cbn [bind].
        apply (IH lf (o + 2 + 2 + len) r1 rest r' Hp3 ltac:(lia) Rr Hadds). posu. lia.
  Qed.

  (* ---- per type ---- *)
  Lemma e_nat' : (Z.to_nat rd + Z.to_nat rdl)%nat = Z.to_nat e.
  Proof. posu. lia. Qed.

  Definition data_accepted (type raw cls ttl rc : Z) (r0 : rr) : Prop :=
    exists o' r1 rc', parse_rr_data fixed_tree fuel (at_ rd, r0) rdl type raw cls ttl rc = Ok ((at_ o', r1), rc') /\
                      pos_ok o' /\ rd <= o' <= e.

  Lemma simple_fwd t lay name cls ttl raw rc fs used :
    layout t = Some lay -> simple_layout lay = true ->
    ref_fields bs lay (Z.to_nat rd) (Z.to_nat e) = Some (fs, used) -> (used <= Z.to_nat e)%nat ->
    forallb field_supported fs = true ->
    data_accepted t raw cls ttl rc (mkRR name t cls ttl (zero_fields (rr_keys t))).
  Proof.
    intros Hlay Hs R Hused Hsup.
    destruct (layout_simple bs Hb Hl fuel rd rdl Hrd Hrdl t lay (mkRR name t cls ttl (zero_fields (rr_keys t))) raw cls ttl rc Hlay Hs)
      as (Heq & Hk & Hnd & _ & Hn41).
    destruct (layout_fits t lay Hlay) as (Hfit & _).
    destruct (sets_ref_ok bs (Z.to_nat e) t lay _ fs used (mkRR name t cls ttl (zero_fields (rr_keys t))) R Hfit eq_refl) as (r' & Hsets).
    { intros key Hin. cbn [rr_fields]. rewrite Hk. exact Hin. }
    pose proof (texts_from_supported t lay fs Hfit (ref_fields_keys _ _ _ _ _ _ R) Hsup) as Ht.
    destruct (dec_fields_fwd lay rd _ fs used r' Hrd ltac:(lia) Hs R Ht Hsets) as (F & Hp & Hle).
    exists (Z.of_nat used), r', rc. rewrite Heq, F. cbn [bind].
    split; [reflexivity | split; [exact Hp | posu; lia]].
  Qed.

  Lemma txt_fwd name cls ttl raw rc l :
    ref_field bs KCharStrs (Z.to_nat rd) (Z.to_nat e) = Some (FAbin l, Z.to_nat e) ->
    data_accepted 16 raw cls ttl rc (mkRR name 16 cls ttl (zero_fields (rr_keys 16))).
  Proof.
    intros R. cbn [ref_field] in R.
    destruct (Nat.leb (Z.to_nat e) (Z.to_nat rd)) eqn:Ele; [discriminate|]. apply Nat.leb_gt in Ele.
    destruct (ref_charstrs (S (Z.to_nat e - Z.to_nat rd)) bs (Z.to_nat rd) (Z.to_nat e)) as [l'|] eqn:Rc; [|discriminate].
    injection R as ->.
    destruct (rr_set_ok (mkRR name 16 cls ttl (zero_fields (rr_keys 16))) ARES_RR_TXT_DATA (FAbin l) eq_refl eq_refl) as (r' & Hs & _).
    { vm_compute. left. reflexivity. }
    exists e, r', rc. unfold parse_rr_data. cbv zeta.
    change (parse_rr_txt (at_ rd, mkRR name 16 cls ttl (zero_fields (rr_keys 16))) rdl)
      with (parse_and_set_dns_abin (at_ rd, mkRR name 16 cls ttl (zero_fields (rr_keys 16))) rdl ARES_RR_TXT_DATA false).
    change (16 =? ARES_REC_TYPE_A) with false. change (16 =? ARES_REC_TYPE_NS) with false.
    change (16 =? ARES_REC_TYPE_CNAME) with false. change (16 =? ARES_REC_TYPE_SOA) with false.
    change (16 =? ARES_REC_TYPE_PTR) with false. change (16 =? ARES_REC_TYPE_HINFO) with false.
    change (16 =? ARES_REC_TYPE_MX) with false. change (16 =? ARES_REC_TYPE_TXT) with true. cbv iota.
    unfold parse_and_set_dns_abin, multistring_parse_buf. cbn [fst snd].
    rewrite (buf_len_at bs Hb Hl rd Hrd). cbn [bind].
    replace (rdl =? 0) with false by (symmetry; apply Z.eqb_neq; posu; lia).
    rewrite (mloop_fwd _ (Z.to_nat rdl) rd [] l Hrd ltac:(lia) Rc) by (posu; lia).
    cbn [bind fst snd app]. rewrite Hs. cbn [bind].
    split; [reflexivity | split; [posu; lia | posu; lia]].
  Qed.

  Ltac eqb_literals :=
    repeat match goal with
           | |- context [Z.eqb ?a ?b] =>
             let v := eval vm_compute in (Z.eqb a b) in
             match v with true => idtac | false => idtac end;
             change (Z.eqb a b) with v; cbv iota
           end.

  Local Notation svcb_like := (svcb_like fuel rdl).

  Lemma tlv_fwd t kp kt kpar name cls ttl fs used :
    layout t = Some [(kp, KU16); (kt, KName); (kpar, KTlvs)] ->
    zero_fields (rr_keys t) = [(kp, FU16 0); (kt, FName None); (kpar, FOpt [])] ->
    NoDup [kp; kt; kpar] ->
    key_datatype kpar = ARES_DATATYPE_OPT -> key_to_rec_type kpar = t ->
    ref_fields bs [(kp, KU16); (kt, KName); (kpar, KTlvs)] (Z.to_nat rd) (Z.to_nat e) = Some (fs, used) ->
    exists o' r1, svcb_like kp kt kpar (at_ rd, mkRR name t cls ttl (zero_fields (rr_keys t))) = Ok (at_ o', r1) /\
                  pos_ok o' /\ rd <= o' <= e.
  Proof.
    intros Hlay Hz Hnd Hdt Hkt R.
    destruct (layout_fits t _ Hlay) as (Hfit & Hkeys).
    change [(kp, KU16); (kt, KName); (kpar, KTlvs)] with ([(kp, KU16); (kt, KName)] ++ [(kpar, KTlvs)]) in R.
    rewrite ref_fields_app in R.
    destruct (ref_fields bs [(kp, KU16); (kt, KName)] (Z.to_nat rd) (Z.to_nat e)) as [[fs2 o2]|] eqn:R2; [|discriminate].
    cbn [ref_fields ref_field] in R.
    destruct (ref_tlvs (S (Z.to_nat e - o2)) bs o2 (Z.to_nat e)) as [l|] eqn:Rt; [|discriminate]. injection R as <- <-.
    set (r0 := mkRR name t cls ttl (zero_fields (rr_keys t))).
    assert (Hfit2 : forallb (entry_fits t) [(kp, KU16); (kt, KName)] = true).
    { cbn [forallb] in Hfit |- *. apply andb_true_iff in Hfit. destruct Hfit as (H1 & H2).
      apply andb_true_iff in H2. destruct H2 as (H2 & _). rewrite H1, H2. reflexivity. }
    destruct (sets_ref_ok bs (Z.to_nat e) t _ _ fs2 o2 r0 R2 Hfit2 eq_refl) as (r2 & Hsets).
    { intros key Hin. unfold r0. cbn [rr_fields]. rewrite Hz. cbn [map fst In] in *. tauto. }
    assert (Ht2 : texts_fine [(kp, KU16); (kt, KName)] fs2 = true).
    { destruct fs2 as [|[? ?] [|[? ?] ?]]; reflexivity. }
    destruct (dec_fields_fwd [(kp, KU16); (kt, KName)] rd r0 fs2 o2 r2 Hrd ltac:(lia) eq_refl R2 Ht2 Hsets) as (F & Hp2 & Hle2).
    pose proof (tlvs_le _ _ _ Rt) as Ho2e.
    (* the field list after the two setters *)
    pose proof (ref_fields_keys _ _ _ _ _ _ R2) as Hk2.
    destruct fs2 as [|[k1 v1] [|[k2 v2] [|]]]; try discriminate. cbn [map fst] in Hk2. injection Hk2 as -> ->.
    assert (Hnd0 : NoDup (map fst (rr_fields r0))) by (unfold r0; cbn [rr_fields]; rewrite Hz; exact Hnd).
    pose proof (sets_fields _ _ _ [] [(kp, FU16 0); (kt, FName None)] [(kpar, FOpt [])] Hsets Hz eq_refl Hnd0) as Fr2.
    cbn [rr_fields rr_name rr_type rr_class rr_ttl app r0] in Fr2.
    assert (Hnin : ~ In kpar (map fst [(kp, v1); (kt, v2)])).
    { cbn [map fst]. inversion Hnd as [|? ? H1 H2]. inversion H2 as [|? ? H3 H4]. subst.
      cbn [In] in *. intros [G|[G|[]]]; subst.
      - apply H1. right. left. reflexivity.
      - apply H3. left. reflexivity. }
    destruct (adds_ok l r2 kpar [] Hdt) as (r' & Hadds).
    { rewrite Fr2. cbn [rr_type]. symmetry. exact Hkt. }
    { rewrite Fr2. cbn [rr_fields]. apply (assoc_get_app_notin kpar (FOpt []) [(kp, v1); (kt, v2)] [] Hnin). }
    exists e, r'.
    assert (Hsv : svcb_like kp kt kpar (at_ rd, r0) =
                  (do s2 <- dec_fields [(kp, KU16); (kt, KName)] (at_ rd, r0);
                   opt_loop fixed_tree (Z.to_nat rdl) s2 (n - rd) rdl kpar)).
    { unfold Parse_ref3.svcb_like. cbn [fst]. rewrite (buf_len_at bs Hb Hl rd Hrd). cbn [bind Parse_ref3.dec_fields Parse_ref3.dec_field].
      destruct (parse_and_set_be16 (at_ rd, r0) kp); reflexivity. }
    rewrite Hsv, F. cbn [bind].
    assert (Rt' : ref_tlvs (S (Z.to_nat e - o2)) bs (Z.to_nat (Z.of_nat o2)) (Z.to_nat e) = Some l) by (rewrite Nat2Z.id; exact Rt).
    rewrite (oloop_fwd kpar _ (Z.to_nat rdl) (Z.of_nat o2) r2 l r' Hp2 ltac:(lia) Rt' Hadds ltac:(posu; lia)).
    split; [reflexivity | split; [posu; lia | posu; lia]].
  Qed.

  Lemma svcb_fwd name cls ttl raw rc fs used :
    ref_fields bs [(ARES_RR_SVCB_PRIORITY, KU16); (ARES_RR_SVCB_TARGET, KName); (ARES_RR_SVCB_PARAMS, KTlvs)]
               (Z.to_nat rd) (Z.to_nat e) = Some (fs, used) ->
    data_accepted 64 raw cls ttl rc (mkRR name 64 cls ttl (zero_fields (rr_keys 64))).
  Proof.
    intros R.
    destruct (tlv_fwd 64 _ _ _ name cls ttl fs used eq_refl eq_refl ltac:(vm_compute; repeat (apply NoDup_cons; [cbn; intuition discriminate|]); apply NoDup_nil) eq_refl eq_refl R)
      as (o' & r1 & F & Hp & Hle).
    exists o', r1, rc. unfold parse_rr_data. cbv zeta. eqb_literals.
    change (parse_rr_svcb fixed_tree fuel (at_ rd, mkRR name 64 cls ttl (zero_fields (rr_keys 64))) rdl)
      with (svcb_like ARES_RR_SVCB_PRIORITY ARES_RR_SVCB_TARGET ARES_RR_SVCB_PARAMS (at_ rd, mkRR name 64 cls ttl (zero_fields (rr_keys 64)))).
    rewrite F. cbn [bind]. split; [reflexivity | split; assumption].
  Qed.

  Lemma https_fwd name cls ttl raw rc fs used :
    ref_fields bs [(ARES_RR_HTTPS_PRIORITY, KU16); (ARES_RR_HTTPS_TARGET, KName); (ARES_RR_HTTPS_PARAMS, KTlvs)]
               (Z.to_nat rd) (Z.to_nat e) = Some (fs, used) ->
    data_accepted 65 raw cls ttl rc (mkRR name 65 cls ttl (zero_fields (rr_keys 65))).
  Proof.
    intros R.
    destruct (tlv_fwd 65 _ _ _ name cls ttl fs used eq_refl eq_refl ltac:(vm_compute; repeat (apply NoDup_cons; [cbn; intuition discriminate|]); apply NoDup_nil) eq_refl eq_refl R)
      as (o' & r1 & F & Hp & Hle).
    exists o', r1, rc. unfold parse_rr_data. cbv zeta. eqb_literals.
    change (parse_rr_https fixed_tree fuel (at_ rd, mkRR name 65 cls ttl (zero_fields (rr_keys 65))) rdl)
      with (svcb_like ARES_RR_HTTPS_PRIORITY ARES_RR_HTTPS_TARGET ARES_RR_HTTPS_PARAMS (at_ rd, mkRR name 65 cls ttl (zero_fields (rr_keys 65)))).
    rewrite F. cbn [bind]. split; [reflexivity | split; assumption].
  Qed.

  Lemma opt_fwd name raw cls ttl rc opts :
    ref_tlvs (S (Z.to_nat rdl)) bs (Z.to_nat rd) (Z.to_nat e) = Some opts ->
    data_accepted 41 raw cls ttl rc (mkRR name 41 1 0 (zero_fields (rr_keys 41))).
  Proof.
    intros Rt. set (r0 := mkRR name 41 1 0 (zero_fields (rr_keys 41))).
    set (fs3 := [(ARES_RR_OPT_UDP_SIZE, FU16 cls);
                 (ARES_RR_OPT_VERSION, FU8 (Z.land (Z.land (Z.shiftr ttl 16) 255) 255));
                 (ARES_RR_OPT_FLAGS, FU16 (Z.land ttl 65535))]).
    destruct (rr_set_ok r0 ARES_RR_OPT_UDP_SIZE (FU16 cls) eq_refl eq_refl ltac:(vm_compute; tauto)) as (ra & E1 & T1 & K1).
    destruct (rr_set_ok ra ARES_RR_OPT_VERSION (FU8 (Z.land (Z.land (Z.shiftr ttl 16) 255) 255)) eq_refl T1
                ltac:(rewrite K1; vm_compute; tauto)) as (rb & E2 & T2 & K2).
    destruct (rr_set_ok rb ARES_RR_OPT_FLAGS (FU16 (Z.land ttl 65535)) eq_refl ltac:(rewrite T2; exact T1)
                ltac:(rewrite K2, K1; vm_compute; tauto)) as (rc0 & E3 & T3 & K3).
    assert (Hsets : sets r0 fs3 = Ok rc0).
    { unfold fs3. cbn [sets]. rewrite E1. cbn [bind]. rewrite E2. cbn [bind]. rewrite E3. reflexivity. }
    assert (Hz : zero_fields (rr_keys 41) = [] ++ [(ARES_RR_OPT_UDP_SIZE, FU16 0); (ARES_RR_OPT_VERSION, FU8 0); (ARES_RR_OPT_FLAGS, FU16 0)]
                                               ++ [(ARES_RR_OPT_OPTIONS, FOpt [])]) by reflexivity.
    assert (Hnd0 : NoDup (map fst (zero_fields (rr_keys 41))))
      by (vm_compute; repeat (apply NoDup_cons; [cbn; intuition discriminate|]); apply NoDup_nil).
    pose proof (sets_fields _ _ _ _ _ _ Hsets Hz eq_refl Hnd0) as F.
    cbn [rr_fields rr_name rr_type rr_class rr_ttl app r0] in F.
    destruct (adds_ok opts rc0 ARES_RR_OPT_OPTIONS [] eq_refl) as (r' & Hadds).
    { rewrite F. reflexivity. }
    { rewrite F. cbn [rr_fields]. apply (assoc_get_app_notin ARES_RR_OPT_OPTIONS (FOpt []) fs3 []).
      unfold fs3. cbn. intuition discriminate. }
    exists e, r', (Z.lor rc (Z.land (Z.shiftr ttl 20) 4080)).
    unfold parse_rr_data. cbv zeta. eqb_literals.
    unfold parse_rr_opt. cbv zeta. cbn [fst snd]. rewrite (buf_len_at bs Hb Hl rd Hrd). cbn [bind].
    fold r0. rewrite E1. cbn [bind]. rewrite E2. cbn [bind]. rewrite E3. cbn [bind].
    rewrite (oloop_fwd ARES_RR_OPT_OPTIONS _ (Z.to_nat rdl) rd rc0 opts r' Hrd ltac:(lia) Rt Hadds ltac:(posu; lia)).
    cbn [bind]. split; [reflexivity | split; [posu; lia | posu; lia]].
  Qed.

  Lemma raw_fwd name raw cls ttl rc d :
    slice bs (Z.to_nat rd) (Z.to_nat rdl) = Some d ->
    data_accepted 65536 raw cls ttl rc (mkRR name 65536 cls ttl (zero_fields (rr_keys 65536))).
  Proof.
    intros S. set (r0 := mkRR name 65536 cls ttl (zero_fields (rr_keys 65536))).
    destruct (rr_set_ok r0 ARES_RR_RAW_RR_TYPE (FU16 raw) eq_refl eq_refl ltac:(vm_compute; tauto)) as (ra & E1 & T1 & K1).
    unfold data_accepted, parse_rr_data. cbv zeta. eqb_literals.
    unfold parse_rr_raw_rr. cbn [fixed_tree v_raw_type_first fst snd]. fold r0. rewrite E1. cbn [bind].
    destruct (rdl =? 0) eqn:E0.
    - apply Z.eqb_eq in E0. exists rd, ra, rc. cbn [bind]. split; [reflexivity | split; [exact Hrd | posu; lia]].
    - apply Z.eqb_neq in E0.
      destruct (bytes_fwd bs Hb Hl rd rdl d Hrd ltac:(lia) S) as (Fb & Hp). rewrite Fb. cbn [bind fst snd].
      destruct (rr_set_ok ra ARES_RR_RAW_RR_DATA (FBin (Some d)) eq_refl T1 ltac:(rewrite K1; vm_compute; tauto)) as (rb & E2 & _).
      rewrite E2. cbn [bind]. exists e, rb, rc. split; [reflexivity | split; [exact Hp | posu; lia]].
  Qed.

  (* every RDATA the reference decoder follows and the supported subset admits is decoded *)
  Lemma rr_data_fwd name raw cls ttl rc r_ref ext x :
    0 <= raw < 65536 ->
    ref_body bs name raw cls ttl (Z.to_nat rd) rdl = Some (r_ref, Z.to_nat e, ext, x) ->
    rr_supported r_ref = true ->
    let type := if negb (rec_type_isvalid raw false) then ARES_REC_TYPE_RAW_RR else raw in
    data_accepted type raw cls ttl rc
      (mkRR name type (if type =? ARES_REC_TYPE_OPT then ARES_CLASS_IN else cls)
            (if type =? ARES_REC_TYPE_OPT then 0 else ttl) (zero_fields (rr_keys type))).
  Proof.
    intros Hraw R Hsup. unfold ref_body in R. cbv zeta in R. rewrite e_nat' in R.
    destruct (raw =? 41) eqn:E41.
    - apply Z.eqb_eq in E41. subst raw. cbv zeta.
      destruct (ref_tlvs (S (Z.to_nat rdl)) bs (Z.to_nat rd) (Z.to_nat e)) as [opts|] eqn:Rt; [|discriminate].
      apply (opt_fwd name 41 cls ttl rc opts Rt).
    - apply Z.eqb_neq in E41. destruct (layout raw) as [lay|] eqn:Elay.
      + destruct (layout_valid raw lay Elay) as (Hv & _). cbv zeta. rewrite Hv. cbn [negb].
        replace (raw =? ARES_REC_TYPE_OPT) with false by (symmetry; apply Z.eqb_neq; exact E41).
        destruct (ref_fields bs lay (Z.to_nat rd) (Z.to_nat e)) as [[fs used]|] eqn:Rf; [|discriminate].
        destruct (Nat.ltb (Z.to_nat e) used) eqn:Eu; [discriminate|]. apply Nat.ltb_ge in Eu.
        injection R as <- _ _. apply rr_supported_fields in Hsup. cbn [rr_fields] in Hsup.
        destruct (simple_layout lay) eqn:Es.
        * apply (simple_fwd raw lay name cls ttl raw rc fs used Elay Es Rf Eu Hsup).
        * revert Elay Rf. unfold layout.
          repeat match goal with
                 | |- (if ?t =? ?k then _ else _) = _ -> _ =>
                   let E := fresh "E" in
                   destruct (t =? k) eqn:E;
                   [apply Z.eqb_eq in E; subst raw; intros G; injection G as <-; intros Rf;
                    first [discriminate Es
                          | apply (svcb_fwd name cls ttl _ rc fs used Rf)
                          | apply (https_fwd name cls ttl _ rc fs used Rf)
                          | idtac] | clear E]
                 end; try (intros; discriminate).
          (* TXT *)
          cbn [ref_fields] in Rf.
          destruct (ref_field bs KCharStrs (Z.to_nat rd) (Z.to_nat e)) as [[v nxt]|] eqn:Rf1; [|discriminate].
          pose proof Rf1 as Rf1'. cbn [ref_field] in Rf1'.
          destruct (Nat.leb (Z.to_nat e) (Z.to_nat rd)); [discriminate|].
          destruct (ref_charstrs _ bs (Z.to_nat rd) (Z.to_nat e)) as [l|]; [|discriminate]. injection Rf1' as <- <-.
          apply (txt_fwd name cls ttl 16 rc l Rf1).
      + destruct (slice bs (Z.to_nat rd) (Z.to_nat rdl)) as [d|] eqn:S; [|discriminate]. injection R as <- _ _.
        assert (Hn255 : raw <> 255).
        { unfold rr_supported in Hsup. cbn [rr_type rr_fields assoc_get] in Hsup.
          rewrite Z.eqb_refl in Hsup. apply andb_true_iff in Hsup. destruct Hsup as (Hsup & _).
          apply andb_true_iff in Hsup. destruct Hsup as (Hsup & _). apply andb_true_iff in Hsup. destruct Hsup as (_ & Hsup).
          intros ->. discriminate Hsup. }
        assert (Hv : rec_type_isvalid raw false = false).
        { destruct (rec_type_isvalid raw false) eqn:Ev; [|reflexivity]. exfalso.
          unfold rec_type_isvalid in Ev. apply zmem_in in Ev. unfold tbl_rec_types_valid_rr in Ev. cbn [In] in Ev.
          repeat (destruct Ev as [Ev|Ev]; [subst raw; first [discriminate Elay | lia | congruence]|]). destruct Ev. }
        cbv zeta. rewrite Hv. cbn [negb]. change (ARES_REC_TYPE_RAW_RR =? ARES_REC_TYPE_OPT) with false. cbv iota.
        apply (raw_fwd name raw cls ttl rc d S).
  Qed.
End FieldsFwd.
