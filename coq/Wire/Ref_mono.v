(* The RFC reference walk only depends on the octets it reads: more fuel or more octets appended
   behind the block do not change a successful result. *)
From Coq Require Import List ZArith Lia Bool.
Import ListNotations.
From CAres.Wire Require Import Record Escape RefDecode.
Local Open Scope Z_scope.

Lemma octet_app bs more i b : octet bs i = Some b -> octet (bs ++ more) i = Some b.
Proof.
  unfold octet. destruct (nth_error bs i) as [x|] eqn:E; [|discriminate].
  intros H. rewrite nth_error_app1 by (apply nth_error_Some; congruence). rewrite E. exact H.
Qed.

Lemma slice_app bs more i n l : slice bs i n = Some l -> slice (bs ++ more) i n = Some l.
Proof.
  unfold slice. destruct (Nat.leb (i + n) (length bs)) eqn:E; [|discriminate].
  apply Nat.leb_le in E. intros H. injection H as <-.
  rewrite app_length. replace (Nat.leb (i + n) (length bs + length more)) with true by (symmetry; apply Nat.leb_le; lia).
  f_equal. rewrite skipn_app. rewrite firstn_app. rewrite skipn_length.
  replace (n - (length bs - i))%nat with 0%nat by lia. cbn [firstn]. rewrite app_nil_r. reflexivity.
Qed.

(* follow functions ordered by definedness *)
Definition follow_le (f g : nat -> option (list label)) : Prop := forall t r, f t = Some r -> g t = Some r.

Lemma ref_scan_mono f g bs more start : follow_le f g ->
  forall bf bf' pos r, (bf <= bf')%nat ->
    ref_scan f bf bs start pos = Some r -> ref_scan g bf' (bs ++ more) start pos = Some r.
Proof.
  intros Hfg. induction bf as [|bf IH]; intros bf' pos r Hle H; [discriminate|].
  destruct bf' as [|bf']; [lia|]. cbn [ref_scan] in *.
  destruct (octet bs pos) as [b|] eqn:Eo; [|discriminate]. rewrite (octet_app _ more _ _ Eo).
  destruct (b =? 0); [exact H|].
  destruct (b <? 64).
  - destruct (slice bs (pos + 1) (Z.to_nat b)) as [l|] eqn:Es; [|discriminate]. rewrite (slice_app _ more _ _ _ Es).
    destruct (ref_scan f bf bs start (pos + 1 + Z.to_nat b)) as [[rest e]|] eqn:Er; [|discriminate].
    rewrite (IH bf' _ _ ltac:(lia) Er). exact H.
  - destruct (b >=? 192); [|discriminate].
    destruct (octet bs (pos + 1)) as [b2|] eqn:Eo2; [|discriminate]. rewrite (octet_app _ more _ _ Eo2).
    destruct (Nat.ltb (Z.to_nat ((b - 192) * 256 + b2)) start); [|discriminate].
    destruct (f (Z.to_nat ((b - 192) * 256 + b2))) as [rest|] eqn:Ef; [|discriminate].
    rewrite (Hfg _ _ Ef). exact H.
Qed.

Lemma ref_name_fuel_mono bs more : forall jf jf' t r, (jf <= jf')%nat ->
  ref_name_fuel jf bs t = Some r -> ref_name_fuel jf' (bs ++ more) t = Some r.
Proof.
  induction jf as [|jf IH]; intros jf' t r Hle H; [discriminate|].
  destruct jf' as [|jf']; [lia|]. cbn [ref_name_fuel] in *.
  eapply ref_scan_mono; [| |exact H].
  - intros t' r' Hf. destruct (ref_name_fuel jf bs t') as [[ls e]|] eqn:E; [|discriminate].
    rewrite (IH jf' t' (ls, e) ltac:(lia) E). exact Hf.
  - rewrite app_length. lia.
Qed.

Lemma ref_name_app bs more t r : ref_name bs t = Some r -> ref_name (bs ++ more) t = Some r.
Proof. unfold ref_name. apply ref_name_fuel_mono. lia. Qed.

(* the follow function used at depth jf, on the extended block, knows every name that decodes on
   the original block at a position below jf *)
Lemma follow_knows bs more jf t ls e :
  (t < jf)%nat -> ref_name bs t = Some (ls, e) ->
  match ref_name_fuel jf (bs ++ more) t with Some (ls', _) => Some ls' | None => None end = Some ls.
Proof.
  intros Hlt H. unfold ref_name in H.
  rewrite (ref_name_fuel_mono bs more (S t) jf t (ls, e) ltac:(lia) H). reflexivity.
Qed.
