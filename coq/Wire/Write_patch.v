(* The back-patching idiom of the writer (ares_buf_set_length back, overwrite, ares_buf_set_length
   forward again) in terms of what the buffer holds: [holds b live shadow] - [live] are the octets
   of the buffer, [shadow] the octets that are still in memory behind them. *)
From Coq Require Import List ZArith Lia Bool.
Import ListNotations.
From CAres.Wire Require Import Cursor Name Record Write Write_name2 Write_pos.
From CAres.Gen Require Import Consts.
Local Open Scope Z_scope.

Definition holds (b : wbuf) (live shadow : list N) : Prop :=
  wb_wf b /\ w_fresh b = false /\ w_live b = live /\ w_shadow b = shadow.

Lemma w_rev_of_live b l : w_live b = l -> w_rev b = rev l.
Proof. intros <-. symmetry. apply rev_w_live. Qed.

Lemma w_live_of_rev r n s f : w_live (mkW r n s f) = rev r.
Proof. unfold w_live. cbn [w_rev]. rewrite rev_append_rev, app_nil_r. reflexivity. Qed.

(* appending: the shadow is overwritten (or lost when the data does not fit into it) *)
Lemma holds_append_any b live sh y :
  wb_wf b -> w_live b = live -> w_shadow b = sh -> y <> [] ->
  holds (wb_append b y) (live ++ y) (if Nat.leb (length y) (length sh) then skipn (length y) sh else []).
Proof.
  intros Hwf Hl Hs Hy. split; [apply wb_wf_append; exact Hwf|].
  destruct y as [|y0 y]; [congruence|]. unfold wb_append. cbn [w_fresh w_shadow]. rewrite Hs.
  split; [reflexivity|]. split; [|reflexivity].
  rewrite w_live_of_rev, rev_append_rev, rev_app_distr, rev_involutive, (w_rev_of_live b live Hl), rev_involutive. reflexivity.
Qed.

Lemma holds_append b live sh y :
  holds b live sh -> y <> [] ->
  holds (wb_append b y) (live ++ y) (if Nat.leb (length y) (length sh) then skipn (length y) sh else []).
Proof. intros (Hwf & _ & Hl & Hs). apply holds_append_any; assumption. Qed.

Lemma holds_len b live sh : holds b live sh -> wb_len b = Z.of_nat (length live).
Proof. intros (Hwf & _ & Hl & _). rewrite (wb_len_live b Hwf), Hl. reflexivity. Qed.

(* cutting the buffer back: the tail stays in memory *)
Lemma holds_shrink b pre x sh :
  holds b (pre ++ x) sh ->
  exists b', wb_set_length b (Z.of_nat (length pre)) = Ok (ARES_SUCCESS, b') /\ holds b' pre (x ++ sh).
Proof.
  intros H. pose proof (holds_len _ _ _ H) as Hn. destruct H as (Hwf & Hf & Hl & Hs).
  unfold wb_len in Hn. rewrite app_length in Hn.
  unfold wb_set_length. rewrite Hf.
  replace (Z.of_nat (length pre) <? 0) with false by (symmetry; apply Z.ltb_ge; lia).
  replace (Z.of_nat (length pre) <=? w_n b) with true by (symmetry; apply Z.leb_le; lia).
  eexists. split; [reflexivity|].
  replace (Z.to_nat (w_n b - Z.of_nat (length pre))) with (length x) by lia.
  rewrite (w_rev_of_live b _ Hl), rev_app_distr.
  assert (Hsk : skipn (length x) (rev x ++ rev pre) = rev pre).
  { rewrite <- (rev_length x). rewrite skipn_app, skipn_all, Nat.sub_diag. reflexivity. }
  assert (Hfi : firstn (length x) (rev x ++ rev pre) = rev x).
  { rewrite <- (rev_length x). rewrite firstn_app, firstn_all, Nat.sub_diag. cbn [firstn]. apply app_nil_r. }
  rewrite Hsk, Hfi. split; [|split; [reflexivity | split]].
  - unfold wb_wf. cbn [w_n w_rev]. rewrite rev_length. reflexivity.
  - rewrite w_live_of_rev. apply rev_involutive.
  - cbn [w_shadow]. rewrite rev_append_rev, rev_involutive, Hs. reflexivity.
Qed.

(* extending it again over what is in memory *)
Lemma holds_grow b live x sh :
  holds b live (x ++ sh) ->
  exists b', wb_set_length b (Z.of_nat (length live + length x)) = Ok (ARES_SUCCESS, b') /\ holds b' (live ++ x) sh.
Proof.
  intros H. pose proof (holds_len _ _ _ H) as Hn. destruct H as (Hwf & Hf & Hl & Hs). unfold wb_len in Hn.
  unfold wb_set_length. rewrite Hf.
  replace (Z.of_nat (length live + length x) <? 0) with false by (symmetry; apply Z.ltb_ge; lia).
  destruct x as [|x0 x].
  - cbn [length]. rewrite Nat.add_0_r.
    replace (Z.of_nat (length live) <=? w_n b) with true by (symmetry; apply Z.leb_le; lia).
    replace (Z.to_nat (w_n b - Z.of_nat (length live))) with 0%nat by lia. cbn [skipn firstn rev_append].
    eexists. split; [reflexivity|]. rewrite app_nil_r. split; [|split; [reflexivity | split]].
    + unfold wb_wf in *. cbn [w_n w_rev]. lia.
    + rewrite w_live_of_rev, (w_rev_of_live b _ Hl). apply rev_involutive.
    + exact Hs.
  - replace (Z.of_nat (length live + length (x0 :: x)) <=? w_n b) with false by (symmetry; apply Z.leb_gt; cbn [length]; lia).
    replace (Z.to_nat (Z.of_nat (length live + length (x0 :: x)) - w_n b)) with (length (x0 :: x)) by lia.
    rewrite Hs.
    replace (Nat.leb (length (x0 :: x)) (length ((x0 :: x) ++ sh))) with true
      by (symmetry; apply Nat.leb_le; rewrite app_length; lia).
    eexists. split; [reflexivity|].
    assert (Hfi : firstn (length (x0 :: x)) ((x0 :: x) ++ sh) = x0 :: x).
    { rewrite firstn_app, firstn_all, Nat.sub_diag. cbn [firstn]. apply app_nil_r. }
    assert (Hsk : skipn (length (x0 :: x)) ((x0 :: x) ++ sh) = sh).
    { rewrite skipn_app, skipn_all, Nat.sub_diag. reflexivity. }
    rewrite Hfi, Hsk. split; [|split; [reflexivity | split; [|reflexivity]]].
    + unfold wb_wf in *. cbn [w_n w_rev]. rewrite rev_append_rev, app_length, rev_length. lia.
    + rewrite w_live_of_rev, rev_append_rev, rev_app_distr, rev_involutive, (w_rev_of_live b _ Hl), rev_involutive. reflexivity.
Qed.

(* the idiom: go back over [x], write [y] (not longer than [x]), go forward to the old end *)
Lemma holds_patch b pre x sh y :
  holds b (pre ++ x) sh -> y <> [] -> (length y <= length x)%nat ->
  exists b1 b2,
    wb_set_length b (Z.of_nat (length pre)) = Ok (ARES_SUCCESS, b1) /\
    wb_set_length (wb_append b1 y) (wb_len b) = Ok (ARES_SUCCESS, b2) /\
    holds (wb_append b1 y) (pre ++ y) (skipn (length y) x ++ sh) /\
    holds b2 (pre ++ y ++ skipn (length y) x) sh.
Proof.
  intros H Hy Hle. pose proof (holds_len _ _ _ H) as Hn.
  destruct (holds_shrink b pre x sh H) as (b1 & E1 & H1).
  pose proof (holds_append b1 pre (x ++ sh) y H1 Hy) as H2.
  replace (Nat.leb (length y) (length (x ++ sh))) with true in H2 by (symmetry; apply Nat.leb_le; rewrite app_length; lia).
  rewrite skipn_app in H2. replace (length y - length x)%nat with 0%nat in H2 by lia. cbn [skipn] in H2.
  destruct (holds_grow (wb_append b1 y) (pre ++ y) (skipn (length y) x) sh H2) as (b2 & E2 & H3).
  exists b1, b2. split; [exact E1|]. split; [|split; [exact H2|]].
  - rewrite Hn. rewrite <- E2. f_equal. rewrite !app_length, skipn_length. lia.
  - rewrite <- app_assoc in H3. exact H3.
Qed.
