(* The RDATA writers follow the layout table of the reference decoder: for every type with a
   layout, ares_dns_write_rr_data is the left-to-right composition of one writer per field kind. *)
From Coq Require Import List ZArith Lia Bool.
Import ListNotations.
From CAres.Wire Require Import Cursor Name Record Parse Escape RefDecode Write.
From CAres.Gen Require Import Consts LeafFns Tables.
Local Open Scope Z_scope.

Section W.
  Variable wv : wvariant.
  Variable base : Z.

  Definition wstate := (wbuf * option (list nameoffset))%type.

  Definition wfield (k : fkind) (key : Z) (r : rr) (s : wstate) : outcome wstate :=
    match k with
    | KAddr4 => match get_field r key with Some (FAddr a) => Ok (wb_append (fst s) a, snd s) | _ => Err ARES_EFORMERR end
    | KAddr6 => match get_field r key with Some (FAddr6 a) => Ok (wb_append (fst s) a, snd s) | _ => Err ARES_EFORMERR end
    | KU8 => do b' <- write_rr_u8 (fst s) r key; Ok (b', snd s)
    | KU16 => do b' <- write_rr_be16 (fst s) r key; Ok (b', snd s)
    | KU32 => do b' <- write_rr_be32 (fst s) r key; Ok (b', snd s)
    | KName => write_rr_name wv base (fst s) r (snd s) key
    | KCharStr _ => do b' <- write_rr_str (fst s) r key; Ok (b', snd s)
    | KRestBin => do b' <- write_rr_rest_bin (fst s) r key; Ok (b', snd s)
    | KRestText =>
      match get_field r key with
      | Some (FName (Some t)) | Some (FStr (Some t)) =>
        if slen t =? 0 then Err ARES_EFORMERR else Ok (wb_append (fst s) t, snd s)
      | _ => Err ARES_EFORMERR
      end
    | KCharStrs => do b' <- write_rr_abin (fst s) r key; Ok (b', snd s)
    | KTlvs => Ok (write_opts (fst s) r key, snd s)
    end.

  Fixpoint wfields (lay : list (Z * fkind)) (r : rr) (s : wstate) : outcome wstate :=
    match lay with
    | [] => Ok s
    | (key, k) :: rest => do s' <- wfield k key r s; wfields rest r s'
    end.

  Ltac eqbs :=
    repeat match goal with
           | |- context [Z.eqb ?a ?b] =>
             let v := eval vm_compute in (Z.eqb a b) in
             match v with true => idtac | false => idtac end; change (Z.eqb a b) with v; cbv iota
           end.

  Ltac crush :=
    unfold write_rr_be16, write_rr_be32, write_rr_u8, write_rr_str, write_rr_rest_bin, write_rr_abin;
    repeat (cbn [bind fst snd];
            match goal with
            | |- context [match get_field ?r ?k with _ => _ end] => destruct (get_field r k) as [[| | | | | [?|] | [?|] | [?|] | [|? ?] | ]|]
            | |- context [if ?c then _ else _] => destruct c
            | |- context [bind (name_write ?a ?b ?c ?d ?e ?f) _] => destruct (name_write a b c d e f) as [[? ?]| |]
            end); cbn [bind fst snd]; try reflexivity.

  Lemma write_rr_data_layout t lay r b nlp rcode :
    rr_type r = t -> layout t = Some lay ->
    write_rr_data wv base b r nlp rcode = wfields lay r (b, nlp).
  Proof.
    intros <-. unfold layout.
    repeat match goal with
           | |- (if ?t =? ?k then _ else _) = _ -> _ =>
             let E := fresh "E" in
             destruct (t =? k) eqn:E;
             [apply Z.eqb_eq in E; intros H; injection H as <-;
              unfold write_rr_data; rewrite E; cbv zeta; eqbs; cbn [wfields wfield fst snd]; unfold write_rr_name; crush | clear E]
           end.
    discriminate.
  Qed.
End W.
