(* C03, names: what ares_dns_name_write emits for a name in canonical presentation form decodes
   (RFC walk, hence - Name_ref.name_parse_ref - the model of ares_dns_name_parse) to the same
   labels, at any position of any buffer.  Covered here: the uncompressed path (no entry of the
   offset list matches). *)
From CAres.Wire Require Import Cursor Cursor_proofs Name Name_proofs Record Escape Escape_proofs RefDecode Bits Name_ref Write.
From CAres.Gen Require Import Consts LeafFns Tables.
Local Open Scope Z_scope.

(* ---- ares_split_dns_name on canonical text ---- *)

(* the library's digit class is '0'..'9' (generated table) *)
Lemma isdigit_octets : forallb (fun c => Bool.eqb (c_isdigit c) ((48 <=? c) && (c <=? 57))) octets = true.
Proof. vm_compute. reflexivity. Qed.

Lemma c_isdigit_spec b : (b < 256)%N -> c_isdigit (Z.of_N b) = is_digit b.
Proof.
  intros H. pose proof isdigit_octets as A. rewrite forallb_forall in A.
  assert (Hz : 0 <= Z.of_N b < 256) by lia.
  specialize (A _ (in_octets _ Hz)). apply eqb_prop in A. exact A.
Qed.

Lemma split_go_escape_octet b rest done cur :
  (b < 256)%N ->
  split_go false (escape_octet b ++ rest) done cur = split_go false rest done (cur ++ [b]).
Proof.
  intros Hb. unfold escape_octet.
  assert (Hc : 0 <= Z.of_N b < 256) by lia.
  destruct (negb (printable b)) eqn:Ep.
  - set (c := Z.of_N b) in *.
    assert (H1 : 0 <= c / 100 <= 9) by (split; [apply Z.div_pos; lia | apply Z.div_le_upper_bound; lia]).
    assert (H2 : 0 <= (c / 10) mod 10 <= 9) by (pose proof (Z.mod_pos_bound (c / 10) 10 ltac:(lia)); lia).
    assert (H3 : 0 <= c mod 10 <= 9) by (pose proof (Z.mod_pos_bound c 10 ltac:(lia)); lia).
    destruct (digit_is_digit _ H1) as [D1 V1].
    destruct (digit_is_digit _ H2) as [D2 V2].
    destruct (digit_is_digit _ H3) as [D3 V3].
    assert (B1 : (digit (c / 100) < 256)%N) by (unfold digit; lia).
    assert (B2 : (digit ((c / 10) mod 10) < 256)%N) by (unfold digit; lia).
    assert (B3 : (digit (c mod 10) < 256)%N) by (unfold digit; lia).
    cbn [app split_go]. change (Z.of_N 92) with 92. cbn [Z.eqb Pos.eqb].
    rewrite (c_isdigit_spec _ B1), (c_isdigit_spec _ B2), (c_isdigit_spec _ B3), D1, D2, D3. cbn [negb andb].
    unfold digit_val in V1, V2, V3.
    assert (Hv : ((Z.of_N (digit (c / 100)) - 48) * 10 + (Z.of_N (digit ((c / 10) mod 10)) - 48)) * 10
                 + (Z.of_N (digit (c mod 10)) - 48) = c).
    { rewrite V1, V2, V3. Zify.zify. Z.div_mod_to_equations. lia. }
    rewrite Hv. destruct (c >? 255) eqn:E; [rewrite Z.gtb_ltb in E; apply Z.ltb_lt in E; lia|].
    unfold c. rewrite N2Z.id. reflexivity.
  - apply negb_false_iff in Ep. unfold printable in Ep. apply andb_prop in Ep. destruct Ep as [P1 P2].
    apply Z.leb_le in P1. apply Z.leb_le in P2.
    destruct (c_is_reservedch (Z.of_N b)) eqn:Er.
    + cbn [app split_go]. change (Z.of_N 92) with 92. cbn [Z.eqb Pos.eqb].
      rewrite (c_isdigit_spec b Hb), (reserved_is_not_digit b Er). cbn [andb]. reflexivity.
    + cbn [app split_go]. destruct dot_backslash_reserved as [Rd Rb].
      destruct (Z.of_N b =? 46) eqn:E1; [apply Z.eqb_eq in E1; rewrite E1 in Er; congruence|].
      destruct (Z.of_N b =? 92) eqn:E2; [apply Z.eqb_eq in E2; rewrite E2 in Er; congruence|].
      cbn [andb]. reflexivity.
Qed.

Lemma split_go_escape_label l : forall rest done cur,
  octets_ok l -> split_go false (Escape.escape_label l ++ rest) done cur = split_go false rest done (cur ++ l).
Proof.
  induction l as [|b l IH]; intros rest done cur H.
  - rewrite app_nil_r. reflexivity.
  - inversion H as [|? ? Hb Hl]; subst. unfold Escape.escape_label in *. cbn [flat_map].
    rewrite <- app_assoc. rewrite split_go_escape_octet by assumption.
    rewrite IH by assumption. rewrite <- app_assoc. reflexivity.
Qed.

Lemma split_go_escape_name ls : forall done,
  Forall octets_ok ls -> ls <> [] ->
  split_go false (escape_name ls) done [] = Ok (done ++ ls).
Proof.
  induction ls as [|l ls IH]; intros done Hok Hne; [congruence|].
  inversion Hok as [|? ? Hl Hls]; subst.
  unfold escape_name in *. cbn [map join_dots].
  destruct ls as [|l2 ls'].
  - cbn [map join_dots]. rewrite <- (app_nil_r (Escape.escape_label l)).
    rewrite split_go_escape_label by assumption. reflexivity.
  - cbn [map] in *. rewrite split_go_escape_label by assumption.
    cbn [split_go]. change (Z.of_N 46 =? 46) with true. cbn iota.
    rewrite IH by (assumption || discriminate). rewrite <- app_assoc. reflexivity.
Qed.

Definition label_ok (l : list N) : Prop := octets_ok l /\ (1 <= length l <= 63)%nat.
Definition wire_len (ls : list (list N)) : Z := fold_right (fun l a => slen l + a) 0 ls + Z.of_nat (length ls).

(* ares_split_dns_name (no hostname validation) on the canonical text of valid labels *)
Lemma split_dns_name_canonical ls :
  Forall label_ok ls -> wire_len ls <= 256 ->
  split_dns_name false (escape_name ls) = Ok ls.
Proof.
  intros Hls Hlen. unfold split_dns_name.
  destruct ls as [|l0 ls0] eqn:Els.
  - (* root: the empty text *)
    cbn. reflexivity.
  - rewrite <- Els in *.
    assert (Hne : ls <> []) by (subst; discriminate).
    assert (Hok : Forall octets_ok ls) by (eapply Forall_impl; [|exact Hls]; intros a [H _]; exact H).
    rewrite (split_go_escape_name ls [] Hok Hne). cbn [bind app].
    assert (Hlast : last_is_empty ls = false).
    { unfold last_is_empty. destruct (rev ls) as [|x r] eqn:Er; [reflexivity|].
      destruct x; [|reflexivity]. exfalso.
      assert (Hin : In [] ls) by (apply (proj2 (in_rev ls [])); rewrite Er; left; reflexivity).
      rewrite Forall_forall in Hls. destruct (Hls [] Hin) as [_ [H _]]. simpl in H. lia. }
    cbv zeta. repeat rewrite Hlast. rewrite !Bool.andb_false_r.
    assert (Hex : existsb (fun l => (slen l =? 0) || (slen l >? 63)) ls = false).
    { apply Bool.not_true_is_false. intros E. apply existsb_exists in E. destruct E as (l & Hin & E).
      rewrite Forall_forall in Hls. destruct (Hls l Hin) as [_ [H1 H2]]. unfold slen in E.
      apply orb_prop in E. destruct E as [E|E]; [apply Z.eqb_eq in E; lia | rewrite Z.gtb_ltb in E; apply Z.ltb_lt in E; lia]. }
    rewrite Hex.
    assert (Htot : fold_right (fun l a => slen l + a) 0 ls + Z.of_nat (length ls) - 1 >? 255 = false).
    { rewrite Z.gtb_ltb. apply Z.ltb_ge. unfold wire_len in Hlen. lia. }
    rewrite Htot. rewrite Bool.andb_false_r. reflexivity.
Qed.

(* ---- the wire form of a label sequence decodes to it (RFC walk), wherever it stands ---- *)
Definition enc_labels (ls : list (list N)) : list N := flat_map (fun l => N.of_nat (length l) :: l) ls.

Lemma octet_app_mid pre x post : octet (pre ++ x :: post) (length pre) = Some (Z.of_N x).
Proof. unfold octet. rewrite nth_error_app2 by lia. rewrite Nat.sub_diag. reflexivity. Qed.

Lemma slice_app_mid pre l post : slice (pre ++ l ++ post) (length pre) (length l) = Some l.
Proof.
  unfold slice. rewrite !app_length.
  replace (Nat.leb (length pre + length l) (length pre + (length l + length post))) with true
    by (symmetry; apply Nat.leb_le; lia).
  rewrite skipn_app, skipn_all, Nat.sub_diag. cbn [skipn app].
  rewrite firstn_app, firstn_all, Nat.sub_diag. cbn [firstn]. rewrite app_nil_r. reflexivity.
Qed.

Lemma ref_scan_enc follow start : forall ls bf pre post,
  Forall label_ok ls -> (length ls < bf)%nat ->
  ref_scan follow bf (pre ++ enc_labels ls ++ 0%N :: post) start (length pre)
  = Some (ls, (length pre + length (enc_labels ls) + 1)%nat).
Proof.
  induction ls as [|l ls IH]; intros bf pre post Hls Hbf.
  - destruct bf as [|bf]; [simpl in Hbf; lia|]. cbn [enc_labels flat_map app ref_scan].
    rewrite octet_app_mid. change (Z.of_N 0 =? 0) with true. cbn iota.
    rewrite Nat.add_0_r. reflexivity.
  - destruct bf as [|bf]; [simpl in Hbf; lia|].
    inversion Hls as [|? ? Hl Hls']; subst. destruct Hl as [Hlo [Hl1 Hl63]].
    cbn [enc_labels flat_map]. fold (enc_labels ls).
    cbn [ref_scan]. rewrite <- !app_assoc. cbn [app]. rewrite octet_app_mid.
    rewrite nat_N_Z.
    destruct (Z.of_nat (length l) =? 0) eqn:E0; [apply Z.eqb_eq in E0; lia|].
    destruct (Z.of_nat (length l) <? 64) eqn:E64; [|apply Z.ltb_ge in E64; lia].
    rewrite Nat2Z.id.
    replace (pre ++ N.of_nat (length l) :: l ++ enc_labels ls ++ 0%N :: post)
      with ((pre ++ [N.of_nat (length l)]) ++ l ++ (enc_labels ls ++ 0%N :: post))
      by (rewrite <- app_assoc; reflexivity).
    replace (length pre + 1)%nat with (length (pre ++ [N.of_nat (length l)])) by (rewrite app_length; simpl; lia).
    rewrite slice_app_mid.
    replace (length (pre ++ [N.of_nat (length l)]) + length l)%nat
      with (length ((pre ++ [N.of_nat (length l)]) ++ l)) by (rewrite !app_length; reflexivity).
    replace ((pre ++ [N.of_nat (length l)]) ++ l ++ enc_labels ls ++ 0%N :: post)
      with (((pre ++ [N.of_nat (length l)]) ++ l) ++ enc_labels ls ++ 0%N :: post)
      by (rewrite <- !app_assoc; reflexivity).
    rewrite (IH bf _ post Hls') by (simpl in Hbf; lia).
    f_equal. f_equal. rewrite !app_length. cbn [length]. rewrite app_length. lia.
Qed.

(* ---- the output buffer ---- *)
Lemma w_live_append b bs : w_live (wb_append b bs) = w_live b ++ bs.
Proof.
  unfold w_live, wb_append. destruct bs as [|x t]; [rewrite app_nil_r; reflexivity|].
  cbn [w_rev]. rewrite !rev_append_rev, !app_nil_r. rewrite rev_app_distr, rev_involutive. reflexivity.
Qed.

Lemma w_live_append_byte b x : w_live (wb_append_byte b x) = w_live b ++ [Z.to_N (Z.land x 255)].
Proof. unfold wb_append_byte. apply w_live_append. Qed.

Lemma emit_labels_live ls : forall b,
  Forall label_ok ls ->
  w_live (fold_left (fun b l => wb_append (wb_append_byte b (Z.land (slen l) 255)) l) ls b) = w_live b ++ enc_labels ls.
Proof.
  induction ls as [|l ls IH]; intros b Hls; [rewrite app_nil_r; reflexivity|].
  inversion Hls as [|? ? Hl Hls']; subst. destruct Hl as [_ [Hl1 Hl63]].
  cbn [fold_left enc_labels flat_map]. fold (enc_labels ls). rewrite IH by assumption.
  rewrite w_live_append, w_live_append_byte. rewrite <- !app_assoc. cbn [app].
  f_equal. f_equal.
  assert (E : Z.land (Z.land (slen l) 255) 255 = Z.of_nat (length l)).
  { unfold slen. change 255 with (Z.ones 8). rewrite !Z.land_ones by lia.
    rewrite Z.mod_mod by (change (2 ^ 8) with 256; lia). apply Z.mod_small. change (2 ^ 8) with 256. lia. }
  rewrite E. rewrite <- nat_N_Z, N2Z.id. reflexivity.
Qed.

(* ares_dns_name_write without a usable compression target (list == NULL): canonical text of valid
   labels is written as its wire form *)
Theorem name_write_uncompressed wv base b ls :
  Forall label_ok ls -> wire_len ls <= 256 -> slen (escape_name ls) < 512 ->
  exists b', name_write wv base b None false (escape_name ls) = Ok (b', None) /\
             w_live b' = w_live b ++ enc_labels ls ++ [0%N].
Proof.
  intros Hls Hw Ht. unfold name_write.
  destruct (wv_name_no_trunc wv && (slen (escape_name ls) >=? 512)) eqn:E.
  { apply andb_prop in E. destruct E as [_ E]. rewrite Z.geb_leb in E. apply Z.leb_le in E. lia. }
  assert (Hcopy : firstn 511 (escape_name ls) = escape_name ls).
  { apply firstn_all2. unfold slen in Ht. lia. }
  rewrite Hcopy. cbn [negb andb].
  rewrite (split_dns_name_canonical ls Hls Hw). cbn [bind].
  eexists. split; [reflexivity|].
  rewrite w_live_append_byte, (emit_labels_live ls b Hls). rewrite <- app_assoc. reflexivity.
Qed.

(* ... and the RFC walk reads the labels back, whatever precedes and follows in the buffer *)
Theorem name_uncompressed_decodes pre ls post :
  Forall label_ok ls ->
  ref_name (pre ++ enc_labels ls ++ 0%N :: post) (length pre)
  = Some (ls, (length pre + length (enc_labels ls) + 1)%nat).
Proof.
  intros Hls. unfold ref_name. cbn [ref_name_fuel].
  apply ref_scan_enc; [assumption|].
  rewrite !app_length. cbn [length].
  assert (length ls <= length (enc_labels ls))%nat.
  { clear. induction ls as [|l ls IH]; [simpl; lia|]. cbn [enc_labels flat_map length]. fold (enc_labels ls). rewrite app_length. simpl. lia. }
  lia.
Qed.

Lemma bytes_ok_app a b : bytes_ok a -> bytes_ok b -> bytes_ok (a ++ b).
Proof. unfold bytes_ok. intros. apply Forall_app. split; assumption. Qed.

Lemma bytes_ok_enc ls : Forall label_ok ls -> bytes_ok (enc_labels ls).
Proof.
  induction 1 as [|l ls [Hlo [Hl1 Hl63]] Hls IH]; [constructor|].
  cbn [enc_labels flat_map]. fold (enc_labels ls). constructor; [lia|]. apply bytes_ok_app; assumption.
Qed.

(* C03 (names, uncompressed path): write, then parse at the position it was written to, in a buffer
   with arbitrary content before and after: the same name, and the cursor right behind it *)
Theorem name_roundtrip_uncompressed wv base b ls post fuel :
  Forall label_ok ls -> wire_len ls <= 256 -> slen (escape_name ls) < 512 ->
  bytes_ok (w_live b) -> bytes_ok post ->
  exists b', name_write wv base b None false (escape_name ls) = Ok (b', None) /\
    let bytes := w_live b' ++ post in
    let c := set_off (cur_of_bytes bytes) (Z.of_nat (length (w_live b))) in
    Z.of_nat (length bytes) < 2 ^ 64 -> (name_fuel c <= fuel)%nat ->
    dns_name_parse fuel c true false = Ok (escape_name ls, set_off c (Z.of_nat (length (w_live b')))).
Proof.
  intros Hls Hw Ht Hb Hp.
  destruct (name_write_uncompressed wv base b ls Hls Hw Ht) as (b' & Hwr & Hlive).
  exists b'. split; [exact Hwr|]. cbv zeta.
  assert (Hbytes : w_live b' ++ post = w_live b ++ enc_labels ls ++ 0%N :: post).
  { rewrite Hlive. rewrite <- !app_assoc. reflexivity. }
  rewrite Hbytes. clear Hbytes.
  remember (w_live b ++ enc_labels ls ++ 0%N :: post) as bytes eqn:Hbytes.
  intros Hlen Hfuel.
  set (c := set_off (cur_of_bytes bytes) (Z.of_nat (length (w_live b)))) in *.
  assert (Hc0 : cur_ok (cur_of_bytes bytes)) by (apply cur_of_bytes_ok; assumption).
  assert (Hoffle : Z.of_nat (length (w_live b)) <= Z.of_nat (length bytes)).
  { rewrite Hbytes, app_length. lia. }
  assert (Hc : cur_ok c) by (apply cur_ok_set_off; [assumption | simpl; lia]).
  assert (Hx : exact c) by reflexivity.
  assert (Hbo : bytes_ok (c_data c)).
  { change (c_data c) with bytes. rewrite Hbytes. apply bytes_ok_app; [assumption|].
    apply bytes_ok_app; [apply bytes_ok_enc; assumption | constructor; [lia | assumption]]. }
  pose proof (name_parse_ref fuel c Hc Hx Hbo Hfuel) as R.
  change (c_data c) with bytes in R. change (c_off c) with (Z.of_nat (length (w_live b))) in R.
  rewrite Nat2Z.id in R.
  assert (Hdec : ref_name bytes (length (w_live b)) = Some (ls, (length (w_live b) + length (enc_labels ls) + 1)%nat)).
  { rewrite Hbytes. apply name_uncompressed_decodes. assumption. }
  rewrite Hdec in R.
  destruct R as [R _]. rewrite R. f_equal. f_equal. f_equal.
  rewrite Hlive, !app_length. cbn [length]. lia.
Qed.
