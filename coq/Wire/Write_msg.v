(* C03_roundtrip: ares_dns_write() of a well-formed record, then ares_dns_parse(), gives the record
   back.  Assembly of the RR-level lemmas (Write_rr.v) over the sections, the header and the question;
   the octets are decoded with the RFC reference decoder and C04_complete + C04_sound transfer the
   result to the parser. *)
From Coq Require Import List ZArith Lia Bool.
Import ListNotations.
From CAres.Wire Require Import Cursor Cursor_proofs Name Record Parse Escape Escape_proofs RefDecode Name_ref Write Write_name Write_host
     Write_name2 Write_pos Write_patch Write_enc Write_fields Write_query2 Write_fields2 Write_rr Write_errs Parse_sets Parse_ref3 Parse_ref5 Parse_cmp2 Parse_cmp3.
From CAres.Gen Require Import Consts LeafFns Tables.
Local Open Scope Z_scope.

(* ---- the values the reference reports are the values of the record ---- *)
Definition norm_kv (kv : Z * fval) : Z * fval := (fst kv, norm_fval (snd kv)).

Lemma lay_vals_fields r : forall lay pre fs,
  rr_fields r = pre ++ fs -> map fst fs = map fst lay -> NoDup (map fst pre ++ map fst lay) -> fields_wf lay r ->
  map norm_kv (lay_vals lay r) = map norm_kv fs.
Proof.
  induction lay as [|[key k] lay IH]; intros pre fs Hf Hk Hnd Hwf.
  - destruct fs; [reflexivity | discriminate].
  - destruct fs as [|[key' v] fs]; [discriminate|]. cbn [map fst] in Hk. injection Hk as -> Hk.
    inversion Hwf as [|? ? (v0 & Hg & Hv) Hwf']; subst. cbn [fst snd] in Hg, Hv.
    assert (Hnin : ~ In key (map fst pre)).
    { intros Hin. apply NoDup_remove_2 in Hnd. apply Hnd. apply in_or_app. left. exact Hin. }
    assert (Hv0 : v0 = v).
    { unfold get_field in Hg. rewrite Hf, (assoc_get_app_notin key v pre fs Hnin) in Hg. injection Hg as <-. reflexivity. }
    subst v0. cbn [lay_vals map fst snd]. unfold norm_kv at 1 3. cbn [fst snd].
    unfold field_of. rewrite Hg. rewrite (dec_val_norm k v Hv). f_equal.
    apply (IH (pre ++ [(key, v)]) fs); [rewrite Hf, <- app_assoc; reflexivity | exact Hk | | exact Hwf'].
    rewrite map_app. cbn [map fst]. rewrite <- app_assoc. exact Hnd.
Qed.

Lemma layout_keys t lay : layout t = Some lay -> map fst lay = rr_keys t /\ NoDup (map fst lay).
Proof.
  unfold layout.
  repeat match goal with
         | |- (if ?t =? ?k then _ else _) = _ -> _ =>
           let E := fresh "E" in
           destruct (t =? k) eqn:E;
           [apply Z.eqb_eq in E; subst t; intros H; injection H as <-; split; [reflexivity|];
            vm_compute; repeat (apply NoDup_cons; [cbn; intuition discriminate|]); apply NoDup_nil | clear E]
         end.
  discriminate.
Qed.

(* ---- one RR, whatever its type ---- *)
Inductive rr_ok (r : rr) : Prop :=
| rr_ok_layout lay :
    layout (rr_type r) = Some lay -> head_wf r -> fields_wf lay r -> map fst (rr_fields r) = rr_keys (rr_type r) ->
    class_isvalid (rr_class r) (rr_type r) false = true -> forallb field_supported (lay_vals lay r) = true -> rr_ok r
| rr_ok_opt u ver fl l :
    head_wf r -> opt_wf r u ver fl l -> rr_class r = 1 -> rr_ttl r = 0 ->
    rr_fields r = [(ARES_RR_OPT_UDP_SIZE, FU16 u); (ARES_RR_OPT_VERSION, FU8 ver); (ARES_RR_OPT_FLAGS, FU16 fl); (ARES_RR_OPT_OPTIONS, FOpt l)] ->
    rr_ok r
| rr_ok_raw rt dopt :
    head_wf r -> raw_wf r rt dopt -> rt <> 255 -> class_isvalid (rr_class r) ARES_REC_TYPE_RAW_RR false = true ->
    rr_fields r = [(ARES_RR_RAW_RR_TYPE, FU16 rt); (ARES_RR_RAW_RR_DATA, FBin dopt)] -> rr_ok r.

Definition is_opt (r : rr) : bool := rr_type r =? ARES_REC_TYPE_OPT.

Lemma norm_rr_fields a b :
  rr_name a = rr_name b -> rr_type a = rr_type b -> rr_class a = rr_class b -> rr_ttl a = rr_ttl b ->
  map norm_kv (rr_fields a) = map norm_kv (rr_fields b) -> norm_rr a = norm_rr b.
Proof. intros H1 H2 H3 H4 H5. unfold norm_rr. rewrite H1, H2, H3, H4. f_equal. exact H5. Qed.

Lemma write_rr_any b nl r rcode b' nl1 M :
  live_is b M -> ol_ok M nl -> rr_ok r -> 0 <= rcode ->
  write_one_rr wfixed 0 b nl r rcode 0 = Ok (b', nl1) ->
  exists RR rref, live_is b' (M ++ RR) /\ bytes_ok RR /\ ol_ok (M ++ RR) nl1 /\
    norm_rr rref = norm_rr r /\ rr_supported rref = true /\
    (Z.of_nat (length RR) <= 65535 ->
     forall post, ref_rr (M ++ RR ++ post) (length M)
                  = Some (rref, (length M + length RR)%nat, (if is_opt r then Some ((rcode / 16) mod 256) else None), true)).
Proof.
  intros Hb Hol Hok Hrc H. destruct Hok as [lay Hlay Hhead Hfw Hkeys Hcv Htxt | u ver fl l Hhead Hopt Hc Ht Hfs | rt dopt Hhead Hraw Hn255 Hcv Hfs].
  - destruct (write_rr_layout b nl r rcode b' nl1 M lay Hb Hol Hlay Hhead Hfw H) as (RR & Hb' & HRb & Hol' & Hdec).
    destruct (layout_keys _ _ Hlay) as (Hk & Hnd). destruct (layout_last_ok _ _ Hlay) as (_ & Htr & Hn41).
    exists RR, (mkRR (rr_name r) (rr_type r) (rr_class r) (rr_ttl r) (lay_vals lay r)).
    split; [exact Hb'|]. split; [exact HRb|]. split; [exact Hol'|]. split; [|split].
    + apply norm_rr_fields; try reflexivity. cbn [rr_fields].
      apply (lay_vals_fields r lay [] (rr_fields r) eq_refl ltac:(rewrite Hkeys, Hk; reflexivity) Hnd Hfw).
    + unfold rr_supported. cbn [rr_type rr_class rr_fields]. rewrite Hcv, orb_true_r.
      assert (E255 : rr_type r =? 255 = false).
      { destruct (rr_type r =? 255) eqn:E; [|reflexivity]. apply Z.eqb_eq in E. rewrite E in Hlay. discriminate Hlay. }
      rewrite E255. cbn [negb andb].
      assert (Eraw : assoc_get ARES_RR_RAW_RR_TYPE (lay_vals lay r) = None).
      { assert (Hnin : ~ In ARES_RR_RAW_RR_TYPE (map fst lay)).
        { rewrite Hk. clear -Hlay. revert Hlay. unfold layout.
          repeat match goal with
                 | |- (if ?t =? ?k then _ else _) = _ -> _ =>
                   let E := fresh "E" in destruct (t =? k) eqn:E; [apply Z.eqb_eq in E; rewrite E; intros _; vm_compute; intuition discriminate | clear E]
                 end. discriminate. }
        clear -Hnin. unfold lay_vals. induction lay as [|[k0 kd] lay IH]; [reflexivity|]. cbn [map fst snd assoc_get].
        destruct (ARES_RR_RAW_RR_TYPE =? k0) eqn:E; [apply Z.eqb_eq in E; exfalso; apply Hnin; left; symmetry; exact E|].
        apply IH. intros G. apply Hnin. right. exact G. }
      rewrite Eraw. exact Htxt.
    + replace (is_opt r) with false by (symmetry; apply Z.eqb_neq; exact Hn41). exact Hdec.
  - destruct (write_rr_opt b nl r rcode b' nl1 M u ver fl l Hb Hol Hhead Hopt Hrc H) as (RR & Hb' & HRb & Hol' & Hdec).
    destruct Hopt as (Hty & _).
    eexists RR, _. split; [exact Hb'|]. split; [exact HRb|]. split; [exact Hol'|]. split; [|split; [|
      replace (is_opt r) with true by (symmetry; unfold is_opt; rewrite Hty; reflexivity); exact Hdec]].
    + apply norm_rr_fields; cbn [rr_name rr_type rr_class rr_ttl rr_fields];
        [reflexivity | rewrite Hty; reflexivity | rewrite Hc; reflexivity | rewrite Ht; reflexivity | rewrite Hfs; reflexivity].
    + reflexivity.
  - destruct (write_rr_raw b nl r rcode b' nl1 M rt dopt Hb Hol Hhead Hraw H) as (RR & Hb' & HRb & Hol' & Hdec). cbv zeta in Hdec.
    destruct Hraw as (Hty & _).
    eexists RR, _. split; [exact Hb'|]. split; [exact HRb|]. split; [exact Hol'|]. split; [|split; [|
      replace (is_opt r) with false by (symmetry; unfold is_opt; rewrite Hty; reflexivity); exact Hdec]].
    + apply norm_rr_fields; cbn [rr_name rr_type rr_class rr_ttl rr_fields];
        [reflexivity | rewrite Hty; reflexivity | reflexivity | reflexivity | rewrite Hfs; destruct dopt; reflexivity].
    + unfold rr_supported. cbn [rr_type rr_class rr_fields assoc_get]. rewrite Z.eqb_refl. rewrite Hcv.
      replace (rt =? 255) with false by (symmetry; apply Z.eqb_neq; exact Hn255). reflexivity.
Qed.

(* ---- a section ---- *)
Definition exts_of (rcode : Z) (rs : list rr) : list Z :=
  flat_map (fun r => if is_opt r then [(rcode / 16) mod 256] else []) rs.

Lemma write_rrs_any rcode : forall rs b nl b' nl' M,
  live_is b M -> ol_ok M nl -> Forall rr_ok rs -> 0 <= rcode ->
  write_rrs wfixed 0 b nl rs rcode 0 = Ok (b', nl') ->
  exists S rrefs, live_is b' (M ++ S) /\ bytes_ok S /\ ol_ok (M ++ S) nl' /\
    map norm_rr rrefs = map norm_rr rs /\ forallb rr_supported rrefs = true /\
    (Z.of_nat (length S) <= 65535 ->
     forall post, ref_rrs (length rs) (M ++ S ++ post) (length M) = Some (rrefs, (length M + length S)%nat, exts_of rcode rs, true)).
Proof.
  induction rs as [|r rs IH]; intros b nl b' nl' M Hb Hol Hok Hrc H.
  - cbn in H. injection H as <- <-. exists [], []. rewrite !app_nil_r. split; [exact Hb|]. split; [constructor|]. split; [exact Hol|].
    split; [reflexivity|]. split; [reflexivity|]. intros _ post. cbn [length ref_rrs exts_of flat_map]. rewrite Nat.add_0_r. reflexivity.
  - cbn [write_rrs] in H. destruct (write_one_rr wfixed 0 b nl r rcode 0) as [[b1 nl1]| |] eqn:E1; cbn [bind fst snd] in H; try discriminate.
    inversion Hok as [|? ? Hr Hok']; subst.
    destruct (write_rr_any b nl r rcode b1 nl1 M Hb Hol Hr Hrc E1) as (RR & rref & Hb1 & HRb & Hol1 & Hn1 & Hs1 & Hdec1).
    destruct (IH b1 nl1 b' nl' (M ++ RR) Hb1 Hol1 Hok' Hrc H) as (S & rrefs & Hb' & HSb & Hol' & Hn & Hs & Hdec).
    exists (RR ++ S), (rref :: rrefs). rewrite app_assoc. split; [exact Hb'|]. split; [apply bytes_ok_app; assumption|].
    split; [exact Hol'|]. split; [cbn [map]; rewrite Hn1, Hn; reflexivity|]. split; [cbn [forallb]; rewrite Hs1, Hs; reflexivity|].
    intros Hlen post. rewrite app_length in Hlen. cbn [length ref_rrs].
    rewrite <- !app_assoc. rewrite (Hdec1 ltac:(lia) (S ++ post)).
    replace (length M + length RR)%nat with (length (M ++ RR)) by (rewrite app_length; reflexivity).
    rewrite (app_assoc M RR). rewrite (Hdec ltac:(lia) post).
    cbn [exts_of flat_map andb]. rewrite !app_length. f_equal. f_equal. f_equal.
    + f_equal. lia.
    + destruct (is_opt r); reflexivity.
Qed.

(* ---- the header ---- *)
Definition hdr_word (fl op rc4 : Z) : Z :=
  let bit (flag mask : Z) := if negb (Z.land fl flag =? 0) then mask else 0 in
  Z.lor (Z.lor (Z.lor (Z.lor (Z.lor (Z.lor (Z.lor (Z.lor
    (bit ARES_FLAG_QR 32768) (Z.land (Z.shiftl (Z.land op 15) 11) 65535))
    (bit ARES_FLAG_AA 1024)) (bit ARES_FLAG_TC 512)) (bit ARES_FLAG_RD 256))
    (bit ARES_FLAG_RA 128)) (bit ARES_FLAG_AD 32)) (bit ARES_FLAG_CD 16)) rc4.

Definition ref_flags (flw : Z) : Z :=
  let bit (v flag : Z) := if (flw / v) mod 2 =? 1 then flag else 0 in
  bit 32768 ARES_FLAG_QR + bit 1024 ARES_FLAG_AA + bit 512 ARES_FLAG_TC + bit 256 ARES_FLAG_RD
  + bit 128 ARES_FLAG_RA + bit 32 ARES_FLAG_AD + bit 16 ARES_FLAG_CD.

Definition zrange (n : nat) : list Z := map Z.of_nat (seq 0 n).

Lemma in_zrange n x : 0 <= x < Z.of_nat n -> In x (zrange n).
Proof. intros H. unfold zrange. rewrite <- (Z2Nat.id x) by lia. apply in_map. apply in_seq. lia. Qed.

Definition hw_ok (fl op rc : Z) : bool :=
  let hw := hdr_word fl op rc in
  (0 <=? hw) && (hw <? 65536) && (ref_flags hw =? fl) && ((hw / 2048) mod 16 =? op) && (hw mod 16 =? rc).

Lemma hw_all : forallb (fun fl => forallb (fun op => forallb (fun rc => hw_ok fl op rc) (zrange 16)) (zrange 16)) (zrange 128) = true.
Proof. vm_compute. reflexivity. Qed.

Lemma hdr_word_decodes fl op rc :
  0 <= fl < 128 -> 0 <= op < 16 -> 0 <= rc < 16 ->
  let hw := hdr_word fl op rc in
  0 <= hw < 65536 /\ ref_flags hw = fl /\ (hw / 2048) mod 16 = op /\ hw mod 16 = rc.
Proof.
  intros Hf Ho Hr. pose proof hw_all as A. rewrite forallb_forall in A. specialize (A fl (in_zrange 128 fl Hf)).
  rewrite forallb_forall in A. specialize (A op (in_zrange 16 op Ho)).
  rewrite forallb_forall in A. specialize (A rc (in_zrange 16 rc Hr)).
  unfold hw_ok in A. cbv zeta in A. repeat (apply andb_true_iff in A; destruct A as (A & ?)).
  cbv zeta. repeat split; try (apply Z.leb_le; assumption); try (apply Z.ltb_lt; assumption); apply Z.eqb_eq; assumption.
Qed.

(* ---- the message ---- *)
Definition hdr_rc4 (d : dnsrec) : Z :=
  if (d_rcode d >? 15) && negb (has_opt d) then ARES_RCODE_SERVFAIL else Z.land (d_rcode d) 15.

Definition cnt {A} (l : list A) : Z := Z.land (Z.of_nat (length l)) 65535.

Definition hdr_bytes (d : dnsrec) : list N :=
  be16b (d_id d) ++ be16b (hdr_word (d_flags d) (d_opcode d) (hdr_rc4 d)) ++ be16b (cnt (d_qd d)) ++ be16b (cnt (d_an d))
  ++ be16b (cnt (d_ns d)) ++ be16b (cnt (d_ar d)).

Lemma live_header d : live_is (write_header wb_empty d) (hdr_bytes d).
Proof.
  split; [unfold write_header; cbv zeta; repeat apply wb_wf_be16; reflexivity|]. split; [reflexivity|].
  unfold write_header. cbv zeta. unfold wb_append_be16. rewrite !w_live_append. unfold hdr_bytes. rewrite <- !app_assoc. reflexivity.
Qed.

Lemma hdr6 a0 a1 a2 a3 a4 a5 rest :
  0 <= a0 < 65536 -> 0 <= a1 < 65536 -> 0 <= a2 < 65536 -> 0 <= a3 < 65536 -> 0 <= a4 < 65536 -> 0 <= a5 < 65536 ->
  let bs := (be16b a0 ++ be16b a1 ++ be16b a2 ++ be16b a3 ++ be16b a4 ++ be16b a5) ++ rest in
  u16_at bs 0 = Some a0 /\ u16_at bs 2 = Some a1 /\ u16_at bs 4 = Some a2 /\ u16_at bs 6 = Some a3 /\
  u16_at bs 8 = Some a4 /\ u16_at bs 10 = Some a5.
Proof.
  intros H0 H1 H2 H3 H4 H5 bs. unfold bs. rewrite <- !app_assoc.
  split; [apply (u16_at_ctx [] a0 _ H0)|].
  split; [apply (u16_at_ctx (be16b a0) a1 _ H1)|].
  split; [rewrite (app_assoc (be16b a0)); apply (u16_at_ctx (be16b a0 ++ be16b a1) a2 _ H2)|].
  split; [rewrite (app_assoc (be16b a0)), (app_assoc (be16b a0 ++ be16b a1)); apply (u16_at_ctx ((be16b a0 ++ be16b a1) ++ be16b a2) a3 _ H3)|].
  split; [rewrite (app_assoc (be16b a0)), (app_assoc (be16b a0 ++ be16b a1)), (app_assoc ((be16b a0 ++ be16b a1) ++ be16b a2));
          apply (u16_at_ctx (((be16b a0 ++ be16b a1) ++ be16b a2) ++ be16b a3) a4 _ H4)|].
  rewrite (app_assoc (be16b a0)), (app_assoc (be16b a0 ++ be16b a1)), (app_assoc ((be16b a0 ++ be16b a1) ++ be16b a2)),
    (app_assoc (((be16b a0 ++ be16b a1) ++ be16b a2) ++ be16b a3)).
  apply (u16_at_ctx ((((be16b a0 ++ be16b a1) ++ be16b a2) ++ be16b a3) ++ be16b a4) a5 _ H5).
Qed.

Definition question_wf (q : question) : Prop :=
  owner_wf (q_name q) /\ 0 <= q_type q < 65536 /\ class_isvalid (q_class q) (q_type q) true = true.

Definition msg_wf (d : dnsrec) : Prop :=
  0 <= d_id d < 65536 /\ 0 <= d_flags d < 128 /\ 0 <= d_opcode d < 16 /\ opcode_isvalid (d_opcode d) = true /\
  rcode_isvalid (d_rcode d) = true /\ (d_rcode d > 15 -> has_opt d = true) /\
  (exists q, d_qd d = [q] /\ question_wf q) /\
  Forall rr_ok (d_an d) /\ Forall rr_ok (d_ns d) /\ Forall rr_ok (d_ar d) /\
  (length (filter is_opt (d_an d ++ d_ns d ++ d_ar d)) <= 1)%nat /\
  Z.of_nat (length (d_an d)) < 65536 /\ Z.of_nat (length (d_ns d)) < 65536 /\ Z.of_nat (length (d_ar d)) < 65536.

Lemma exts_of_filter rc rs : exts_of rc rs = map (fun _ => (rc / 16) mod 256) (filter is_opt rs).
Proof.
  induction rs as [|r rs IH]; [reflexivity|]. cbn [exts_of flat_map filter]. fold (exts_of rc rs). rewrite IH.
  destruct (is_opt r); reflexivity.
Qed.

Lemma rcode_range rc : rcode_isvalid rc = true -> 0 <= rc < 4096.
Proof. unfold rcode_isvalid. intros H. apply zmem_in in H. unfold tbl_rcodes_valid in H. cbn [In] in H. repeat (destruct H as [<-|H]; [lia|]). destruct H. Qed.

Theorem roundtrip_fixed d bs :
  msg_wf d -> dns_write d = Ok bs ->
  Z.of_nat (length bs) <= 65535 /\ exists d', dns_parse bs 0 = Ok d' /\ norm_parsed d' = norm_parsed d.
Proof.
  intros (Hid & Hfl & Hop & Hopv & Hrcv & Hrco & (q & Hqd & (Hqn & Hqt & Hqc)) & Han & Hns & Har & Hopt1 & Lan & Lns & Lar) H.
  pose proof (rcode_range _ Hrcv) as Hrc.
  unfold dns_write, dns_write_v, write_buf in H. cbv zeta in H.
  change (wb_len wb_empty) with 0 in H.
  set (b0 := write_header wb_empty d) in *. pose proof (live_header d) as Hb0. fold b0 in Hb0.
  set (A := hdr_bytes d) in *.
  assert (HA12 : length A = 12%nat) by reflexivity.
  (* failures carry failure statuses *)
  match type of H with bind (match ?bd with _ => _ end) _ = _ => set (body := bd) in * end.
  assert (Herr : errs_ok body).
  { unfold body. apply errs_bind; [apply errs_questions|]. intros s1. apply errs_bind; [apply errs_rrs|]. intros s2.
    apply errs_bind; [apply errs_rrs|]. intros s3. apply errs_bind; [apply errs_rrs|]. intros s4. apply errs_ok_ok. }
  destruct body as [bF|s|] eqn:Ebody; cbn [bind fst snd] in H;
    [|replace (s =? ARES_SUCCESS) with false in H by (symmetry; apply Z.eqb_neq; apply Herr; reflexivity); discriminate H|discriminate H].
  change (ARES_SUCCESS =? ARES_SUCCESS) with true in H. cbn [negb wfixed wv_len_check andb] in H.
  destruct (wb_len bF >? 65535) eqn:E6; [discriminate H|]. injection H as <-.
  rewrite Z.gtb_ltb in E6. apply Z.ltb_ge in E6.
  (* the question *)
  unfold body in Ebody. rewrite Hqd in Ebody. cbn [write_questions] in Ebody.
  destruct Hqn as (ls & Hnm & Hls & Hwl & Hsl & Hhost).
  pose proof (name_write_enc wfixed 0 b0 (Some []) true (q_name q)) as W. cbn [wfixed wv_msg_relative] in W.
  rewrite (live_is_len b0 A Hb0), Z.sub_0_r in W.
  destruct (name_enc wfixed (Z.of_nat (length A)) (Some []) true (q_name q)) as [[N nl0o]| |] eqn:En;
    [|rewrite W in Ebody; discriminate Ebody|rewrite W in Ebody; discriminate Ebody].
  destruct W as (bn & Ew & Hln & Hwn & Hfn). rewrite Ew in Ebody. cbn [bind fst snd] in Ebody.
  rewrite Hnm in En.
  destruct (name_enc_ok true A [] ls N nl0o (Forall_nil _) Hls Hwl ltac:(rewrite <- Hnm; exact Hsl) (fun _ => Hhost) En)
    as (ol0 & -> & Hol0 & HNb & HrefN).
  rewrite (land_u16 _ Hqt) in Ebody.
  assert (Hqcr : 0 <= q_class q < 65536) by (apply (query_class_range _ _ Hqt Hqc)).
  rewrite (land_u16 _ Hqcr) in Ebody.
  set (bq := wb_append_be16 (wb_append_be16 bn (q_type q)) (q_class q)) in *.
  set (Mq := A ++ N ++ be16b (q_type q) ++ be16b (q_class q)).
  assert (Hbq : live_is bq Mq).
  { unfold bq, Mq. rewrite !app_assoc. apply live_is_be16. apply live_is_be16.
    destruct Hb0 as (A1 & A2 & A3). split; [auto | split; [auto | rewrite Hln, A3; reflexivity]]. }
  assert (Holq : ol_ok Mq ol0) by (unfold Mq; rewrite app_assoc; apply ol_ok_app; exact Hol0).
  (* the three sections *)
  destruct (write_rrs wfixed 0 bq ol0 (d_an d) (d_rcode d) 0) as [[b1 nl1]| |] eqn:E1; cbn [bind fst snd] in Ebody; try discriminate Ebody.
  destruct (write_rrs_any (d_rcode d) (d_an d) bq ol0 b1 nl1 Mq Hbq Holq Han ltac:(lia) E1)
    as (S1 & rr1 & Hb1 & HS1b & Hol1 & Hn1 & Hs1 & Hd1).
  destruct (write_rrs wfixed 0 b1 nl1 (d_ns d) (d_rcode d) 0) as [[b2 nl2]| |] eqn:E2; cbn [bind fst snd] in Ebody; try discriminate Ebody.
  destruct (write_rrs_any (d_rcode d) (d_ns d) b1 nl1 b2 nl2 (Mq ++ S1) Hb1 Hol1 Hns ltac:(lia) E2)
    as (S2 & rr2 & Hb2 & HS2b & Hol2 & Hn2 & Hs2 & Hd2).
  destruct (write_rrs wfixed 0 b2 nl2 (d_ar d) (d_rcode d) 0) as [[b3 nl3]| |] eqn:E3; cbn [bind fst snd] in Ebody; try discriminate Ebody.
  destruct (write_rrs_any (d_rcode d) (d_ar d) b2 nl2 b3 nl3 ((Mq ++ S1) ++ S2) Hb2 Hol2 Har ltac:(lia) E3)
    as (S3 & rr3 & Hb3 & HS3b & Hol3 & Hn3 & Hs3 & Hd3).
  injection Ebody as <-.
  pose proof (live_is_len _ _ Hb3) as Hlen3. destruct Hb3 as (_ & _ & Hbs). rewrite Hbs in *.
  set (bs := ((Mq ++ S1) ++ S2) ++ S3) in *.
  assert (HlenB : Z.of_nat (length bs) <= 65535) by lia.
  assert (Hlens : Z.of_nat (length S1) <= 65535 /\ Z.of_nat (length S2) <= 65535 /\ Z.of_nat (length S3) <= 65535).
  { unfold bs in HlenB. rewrite !app_length in HlenB. lia. }
  destruct Hlens as (LS1 & LS2 & LS3).
  (* header values *)
  set (hw := hdr_word (d_flags d) (d_opcode d) (hdr_rc4 d)).
  assert (Hrc4 : hdr_rc4 d = d_rcode d mod 16 /\ 0 <= hdr_rc4 d < 16).
  { unfold hdr_rc4. destruct ((d_rcode d >? 15) && negb (has_opt d)) eqn:Ec.
    - apply andb_true_iff in Ec. destruct Ec as (Ec1 & Ec2). rewrite Z.gtb_ltb in Ec1. apply Z.ltb_lt in Ec1.
      rewrite (Hrco ltac:(lia)) in Ec2. discriminate Ec2.
    - change 15 with (Z.ones 4). rewrite Z.land_ones by lia. change (2 ^ 4) with 16. split; [reflexivity | apply Z.mod_pos_bound; lia]. }
  destruct Hrc4 as (Hrc4 & Hrc4r).
  destruct (hdr_word_decodes (d_flags d) (d_opcode d) (hdr_rc4 d) Hfl Hop Hrc4r) as (Hhw & Hhwf & Hhwo & Hhwr). fold hw in Hhw, Hhwf, Hhwo, Hhwr.
  assert (Hcq : cnt (d_qd d) = 1) by (rewrite Hqd; reflexivity).
  assert (Hca : cnt (d_an d) = Z.of_nat (length (d_an d))) by (unfold cnt; apply land_u16; lia).
  assert (Hcn : cnt (d_ns d) = Z.of_nat (length (d_ns d))) by (unfold cnt; apply land_u16; lia).
  assert (Hcr : cnt (d_ar d) = Z.of_nat (length (d_ar d))) by (unfold cnt; apply land_u16; lia).
  assert (HbsA : bs = A ++ (N ++ be16b (q_type q) ++ be16b (q_class q) ++ S1 ++ S2 ++ S3))
    by (unfold bs, Mq; rewrite <- !app_assoc; reflexivity).
  destruct (hdr6 (d_id d) hw (cnt (d_qd d)) (cnt (d_an d)) (cnt (d_ns d)) (cnt (d_ar d))
                 (N ++ be16b (q_type q) ++ be16b (q_class q) ++ S1 ++ S2 ++ S3) Hid Hhw ltac:(rewrite Hcq; lia) ltac:(rewrite Hca; lia)
                 ltac:(rewrite Hcn; lia) ltac:(rewrite Hcr; lia)) as (U0 & U2 & U4 & U6 & U8 & U10).
  cbv zeta in U0, U2, U4, U6, U8, U10. fold hw in U0, U2, U4, U6, U8, U10. unfold hdr_bytes in A. fold hw in A. fold A in U0, U2, U4, U6, U8, U10.
  rewrite <- HbsA in U0, U2, U4, U6, U8, U10.
  (* the reference decoder *)
  set (p := (12 + length N)%nat).
  assert (Rn : ref_name bs 12 = Some (ls, p)).
  { rewrite HbsA. rewrite <- HA12. unfold p. rewrite <- HA12. apply HrefN. }
  assert (HAN : length (A ++ N) = p) by (rewrite app_length, HA12; reflexivity).
  assert (Ut : u16_at bs p = Some (q_type q)).
  { rewrite HbsA, app_assoc, <- HAN. apply u16_at_ctx. exact Hqt. }
  assert (Uc : u16_at bs (p + 2) = Some (q_class q)).
  { rewrite HbsA, app_assoc, (app_assoc (A ++ N)).
    replace (p + 2)%nat with (length ((A ++ N) ++ be16b (q_type q))) by (rewrite app_length, HAN; reflexivity).
    apply u16_at_ctx. exact Hqcr. }
  assert (HMq : length Mq = (p + 4)%nat) by (unfold Mq; rewrite !app_length, HA12; cbn [length be16b]; unfold p; lia).
  assert (R1 : ref_rrs (length (d_an d)) bs (p + 4) = Some (rr1, (length Mq + length S1)%nat, exts_of (d_rcode d) (d_an d), true)).
  { rewrite <- HMq. unfold bs. rewrite <- !app_assoc. apply (Hd1 LS1 (S2 ++ S3)). }
  assert (R2 : ref_rrs (length (d_ns d)) bs (length Mq + length S1) = Some (rr2, (length (Mq ++ S1) + length S2)%nat, exts_of (d_rcode d) (d_ns d), true)).
  { rewrite <- app_length. unfold bs. rewrite <- (app_assoc (Mq ++ S1)). apply (Hd2 LS2 S3). }
  assert (R3 : ref_rrs (length (d_ar d)) bs (length (Mq ++ S1) + length S2) = Some (rr3, (length ((Mq ++ S1) ++ S2) + length S3)%nat, exts_of (d_rcode d) (d_ar d), true)).
  { rewrite <- app_length. unfold bs. rewrite <- (app_nil_r S3) at 1. apply (Hd3 LS3 []). }
  set (exts := exts_of (d_rcode d) (d_an d) ++ exts_of (d_rcode d) (d_ns d) ++ exts_of (d_rcode d) (d_ar d)).
  assert (Hexts : exts = map (fun _ => (d_rcode d / 16) mod 256) (filter is_opt (d_an d ++ d_ns d ++ d_ar d))).
  { unfold exts. rewrite !exts_of_filter, !filter_app, !map_app. reflexivity. }
  set (rcode_ref := match exts with [x] => x * 16 + hw mod 16 | _ => hw mod 16 end).
  assert (Hrcode : rcode_ref = d_rcode d /\ (match exts with _ :: _ :: _ => False | _ => True end)).
  { unfold rcode_ref. rewrite Hexts. destruct (filter is_opt (d_an d ++ d_ns d ++ d_ar d)) as [|o1 [|o2 rest]] eqn:Ef; cbn [map].
    - split; [|exact I]. rewrite Hhwr, Hrc4.
      assert (Hno : has_opt d = false).
      { unfold has_opt. destruct (existsb (fun r => rr_type r =? ARES_REC_TYPE_OPT) (d_ar d)) eqn:Ex; [|reflexivity].
        apply existsb_exists in Ex. destruct Ex as (r0 & Hin & Hr0).
        assert (In r0 (filter is_opt (d_an d ++ d_ns d ++ d_ar d))).
        { apply filter_In. split; [apply in_or_app; right; apply in_or_app; right; exact Hin | exact Hr0]. }
        rewrite Ef in H. destruct H. }
      assert (d_rcode d <= 15).
      { destruct (Z_le_gt_dec (d_rcode d) 15) as [G|G]; [exact G|]. rewrite (Hrco G) in Hno. discriminate Hno. }
      apply Z.mod_small. lia.
    - split; [|exact I]. rewrite Hhwr, Hrc4. rewrite (Z.mod_small (d_rcode d / 16) 256) by (split; [apply Z.div_pos; lia | apply Z.div_lt_upper_bound; lia]).
      rewrite Z.mul_comm. symmetry. apply Z.div_mod. lia.
    - cbn [length] in Hopt1. lia. }
  destruct Hrcode as (Hrcode & Hexts2).
  set (rf := mkRef (mkRec (d_id d) (ref_flags hw) ((hw / 2048) mod 16) rcode_ref rcode_ref [mkQ (escape_name ls) (q_type q) (q_class q)] rr1 rr2 rr3)
                   (length ((Mq ++ S1) ++ S2) + length S3) (true && true && true)).
  assert (Rd : ref_decode bs = Some rf).
  { unfold ref_decode.
    replace (Z.of_nat (length bs) >? 65535) with false by (symmetry; rewrite Z.gtb_ltb; apply Z.ltb_ge; exact HlenB).
    rewrite U0, U2, U4, U6, U8, U10, Hcq. change (negb (1 =? 1)) with false. cbv iota.
    rewrite Rn, Ut, Uc, Hca, Hcn, Hcr, !Nat2Z.id, R1, R2, R3. fold exts.
    unfold rf, rcode_ref, ref_flags. destruct exts as [|x [|y rest]]; [reflexivity | reflexivity | destruct Hexts2]. }
  assert (Hbok : bytes_ok bs).
  { unfold bs, Mq, A. repeat apply bytes_ok_app; try apply bytes_ok_be16b; assumption. }
  assert (Hstrict : ref_strict bs = true).
  { unfold ref_strict. rewrite Rd. unfold rf. cbn [rf_rec rf_exact d_opcode d_qd d_an d_ns d_ar forallb q_class q_type andb].
    rewrite Hhwo, Hopv, Hqc. cbn [andb]. rewrite !forallb_app, Hs1, Hs2, Hs3. reflexivity. }
  destruct (complete_fixed bs Hbok Hstrict) as (d' & Hparse).
  split; [exact HlenB|]. exists d'. split; [exact Hparse|].
  pose proof (sound_fixed bs d' rf Hbok Hparse Rd) as Hs. unfold fields_agree in Hs. rewrite Hs.
  unfold rf, norm_ref, norm_parsed. cbn [rf_rec d_id d_flags d_opcode d_rcode d_qd d_an d_ns d_ar].
  rewrite Hhwf, Hhwo, Hrcode, Hn1, Hn2, Hn3, Hqd.
  unfold reported_rcode. rewrite Hrcv. rewrite <- Hnm. destruct q; reflexivity.
Qed.

(* ---- not vacuous: a response with A, MX (compressed exchange), TXT and an OPT RR with options ---- *)
Definition ex_name : list N := [97; 46; 98; 99]%N.                 (* "a.bc" *)
Definition ex_mx : list N := [109; 46; 97; 46; 98; 99]%N.          (* "m.a.bc" *)
Definition ex_record : dnsrec :=
  mkRec 4660 (ARES_FLAG_QR + ARES_FLAG_RD + ARES_FLAG_RA) ARES_OPCODE_QUERY 16 0
        [mkQ ex_name 15 1]
        [mkRR ex_name 15 1 300 [(ARES_RR_MX_PREFERENCE, FU16 10); (ARES_RR_MX_EXCHANGE, FName (Some ex_mx))];
         mkRR ex_mx 1 1 60 [(ARES_RR_A_ADDR, FAddr [192; 0; 2; 1]%N)];
         mkRR ex_name 16 1 0 [(ARES_RR_TXT_DATA, FAbin [[104; 105]; []]%N)]]
        []
        [mkRR [] 41 1 0 [(ARES_RR_OPT_UDP_SIZE, FU16 1232); (ARES_RR_OPT_VERSION, FU8 0); (ARES_RR_OPT_FLAGS, FU16 32768);
                         (ARES_RR_OPT_OPTIONS, FOpt [(10, [1; 2; 3; 4; 5; 6; 7; 8]%N); (10, [])])]].

Ltac zcmp := vm_compute; first [reflexivity | discriminate | (intro; discriminate)].
Ltac labels_ok := repeat constructor; try zcmp.
Ltac zr := repeat split; zcmp.

Lemma ex_owner_name : owner_wf ex_name.
Proof. exists [[97]; [98; 99]]%N. split; [reflexivity|]. split; [labels_ok|]. split; [zcmp|]. split; [zcmp|]. labels_ok. Qed.

Lemma ex_owner_mx : owner_wf ex_mx.
Proof. exists [[109]; [97]; [98; 99]]%N. split; [reflexivity|]. split; [labels_ok|]. split; [zcmp|]. split; [zcmp|]. labels_ok. Qed.

Lemma ex_owner_root : owner_wf [].
Proof. exists []. split; [reflexivity|]. split; [constructor|]. split; [zcmp|]. split; [zcmp|]. constructor. Qed.

Example roundtrip_applies : msg_wf ex_record /\ exists bs, dns_write ex_record = Ok bs.
Proof.
  split; [|eexists; vm_compute; reflexivity].
  unfold msg_wf. cbn [ex_record d_id d_flags d_opcode d_rcode d_qd d_an d_ns d_ar].
  split; [zr|]. split; [zr|]. split; [zr|]. split; [reflexivity|]. split; [reflexivity|]. split; [intros _; reflexivity|].
  split.
  { eexists. split; [reflexivity|]. split; [exact ex_owner_name|]. split; [zr | reflexivity]. }
  split.
  { repeat constructor.
    - eapply rr_ok_layout; [reflexivity | split; [exact ex_owner_name | zr] | | reflexivity | reflexivity | reflexivity].
      repeat constructor; cbn [fst snd].
      + eexists. split; [reflexivity|]. cbn. eexists. split; [reflexivity | zr].
      + eexists. split; [reflexivity|]. cbn. eexists. split; [left; reflexivity|].
        exists [[109]; [97]; [98; 99]]%N. split; [reflexivity|]. split; [labels_ok|]. zr.
    - eapply rr_ok_layout; [reflexivity | split; [exact ex_owner_mx | zr] | | reflexivity | reflexivity | reflexivity].
      repeat constructor; cbn [fst snd]. eexists. split; [reflexivity|]. cbn. eexists. split; [reflexivity|]. split; [reflexivity | labels_ok].
    - eapply rr_ok_layout; [reflexivity | split; [exact ex_owner_name | zr] | | reflexivity | reflexivity | reflexivity].
      repeat constructor; cbn [fst snd]. eexists. split; [reflexivity|]. cbn. eexists. split; [reflexivity|]. split; [discriminate|]. labels_ok. }
  split; [constructor|]. split.
  { repeat constructor. eapply rr_ok_opt; [split; [exact ex_owner_root | zr] | | reflexivity | reflexivity | reflexivity].
    unfold opt_wf. cbn. repeat split; try reflexivity; try zcmp. labels_ok; unfold tlv_wf; cbn; zr. }
  cbn. zr.
Qed.
