(* C03_frame_any_position: a TCP frame written by ares_dns_write_buf_tcp into a buffer that already
   holds anything is the two octets of the length followed by exactly the message ares_dns_write
   produces for the record. *)
From Coq Require Import List ZArith Lia Bool.
Import ListNotations.
From CAres.Wire Require Import Cursor Cursor_proofs Record Escape Write Write_name Write_name2 Write_pos Write_patch Write_enc Write_query2 Write_errs.
From CAres.Gen Require Import Consts LeafFns Tables.
Local Open Scope Z_scope.

Definition wbody (d : dnsrec) (base : Z) (b : wbuf) : outcome wbuf :=
  do s <- write_questions wfixed base (write_header b d) [] (d_qd d);
  do s <- write_rrs wfixed base (fst s) (snd s) (d_an d) (d_rcode d) 0;
  do s <- write_rrs wfixed base (fst s) (snd s) (d_ns d) (d_rcode d) 0;
  do s <- write_rrs wfixed base (fst s) (snd s) (d_ar d) (d_rcode d) 0;
  Ok (fst s).

Lemma write_buf_body d b :
  write_buf wfixed d 0 b = match wbody d (wb_len b) b with Ok b' => Ok (ARES_SUCCESS, b') | Err s => Ok (s, b) | UB k => UB k end.
Proof. reflexivity. Qed.

Lemma wbody_errs d base b : errs_ok (wbody d base b).
Proof.
  unfold wbody. apply errs_bind; [apply errs_questions|]. intros s1. apply errs_bind; [apply errs_rrs|]. intros s2.
  apply errs_bind; [apply errs_rrs|]. intros s3. apply errs_bind; [apply errs_rrs|]. intros s4. apply errs_ok_ok.
Qed.

(* the message body written behind a two-octet placeholder is the body written into an empty buffer *)
Lemma wbody_after_prefix d :
  Rb (be16b 0) (wbody d 2 (wb_append_be16 wb_empty 0)) (wbody d 0 wb_empty).
Proof.
  set (b1 := wb_append_be16 wb_empty 0).
  assert (H0 : R0 (be16b 0) b1 wb_empty) by (unfold R0; repeat split).
  assert (Hh : R (be16b 0) (write_header b1 d) (write_header wb_empty d)).
  { unfold write_header. cbv zeta. do 5 apply R_append_be16. apply R0_append_be16. exact H0. }
  unfold wbody. change 2 with (0 + Z.of_nat (length (be16b 0))).
  eapply Rp_bind_b; [apply (R_write_questions (be16b 0) 0); exact Hh | intros c1 c2 x Hc]. cbn [fst snd].
  eapply Rp_bind_b; [apply (R_write_rrs (be16b 0) 0); exact Hc | intros c3 c4 x2 Hc2]. cbn [fst snd].
  eapply Rp_bind_b; [apply (R_write_rrs (be16b 0) 0); exact Hc2 | intros c5 c6 x3 Hc3]. cbn [fst snd].
  eapply Rp_bind_b; [apply (R_write_rrs (be16b 0) 0); exact Hc3 | intros c7 c8 x4 Hc4]. cbn [fst snd Rb]. exact Hc4.
Qed.

Lemma R_live pre b1 b2 : R pre b1 b2 -> w_live b1 = pre ++ w_live b2.
Proof.
  intros (H1 & _). unfold w_live. rewrite !rev_append_rev, !app_nil_r, H1, rev_app_distr, rev_involutive. reflexivity.
Qed.

Theorem frame_any_position d b b' :
  wb_wf b -> w_shadow b = [] -> Z.of_nat (length (w_live b')) < 2 ^ 64 ->
  write_buf_tcp wfixed d b = Ok (ARES_SUCCESS, b') ->
  exists m, dns_write d = Ok m /\ w_live b' = w_live b ++ be16b (Z.of_nat (length m)) ++ m.
Proof.
  intros Hwf Hsh Hphys H.
  pose proof (frame_position_independent d b Hwf Hsh) as PI. rewrite H in PI.
  destruct (write_buf_tcp wfixed d wb_empty) as [[s0 b0]| |] eqn:E0; try contradiction.
  destruct PI as (<- & Hlive).
  (* the frame at position 0 *)
  unfold write_buf_tcp in E0. cbv zeta in E0. change (wb_len wb_empty) with 0 in E0.
  set (b1 := wb_append_be16 wb_empty 0) in *.
  rewrite write_buf_body in E0. change (wb_len b1) with 2 in E0.
  pose proof (wbody_after_prefix d) as Rbd. fold b1 in Rbd.
  destruct (wbody d 2 b1) as [c1|s1|k1] eqn:Eb1; cbn [bind fst snd] in E0; [| |discriminate E0].
  2:{ replace (s1 =? ARES_SUCCESS) with false in E0 by (symmetry; apply Z.eqb_neq; apply (wbody_errs d 2 b1); exact Eb1).
      cbn [negb] in E0. injection E0 as E0 _. exfalso. apply (wbody_errs d 2 b1 s1 Eb1). exact E0. }
  destruct (wbody d 0 wb_empty) as [c2|s2|k2] eqn:Eb2; cbn [Rb] in Rbd; try contradiction.
  change (ARES_SUCCESS =? ARES_SUCCESS) with true in E0. cbn [negb] in E0.
  pose proof (R_live _ _ _ Rbd) as Hl1. pose proof (R_len _ _ _ Rbd) as Hn1. cbn [length be16b] in Hn1.
  destruct Rbd as (_ & _ & _ & Hf1 & _ & Hw2).
  replace (wb_len c1 - 0 - 2) with (wb_len c2) in E0 by lia.
  set (ml := (wb_len c2) mod 2 ^ 64) in *.
  destruct (ml >? 65535) eqn:E6; [discriminate E0|]. rewrite Z.gtb_ltb in E6. apply Z.ltb_ge in E6.
  (* the length prefix is patched in *)
  assert (Hc1 : holds c1 ([] ++ be16b 0 ++ w_live c2) (w_shadow c1)).
  { split; [|split; [exact Hf1 | split; [exact Hl1 | reflexivity]]].
    unfold wb_wf. rewrite <- w_live_length, Hl1, app_length. cbn [length be16b]. fold (wb_len c1). rewrite Hn1, w_live_length. unfold wb_len. lia. }
  destruct (holds_patch c1 [] (be16b 0 ++ w_live c2) (w_shadow c1) (be16b (Z.land ml 65535)) Hc1 ltac:(discriminate)
              ltac:(rewrite app_length; cbn [length be16b]; lia)) as (e1 & e2 & P1 & P2 & _ & He2).
  cbn [length] in P1. change (Z.of_nat 0) with 0 in P1. rewrite P1 in E0. cbn [bind fst snd] in E0.
  change (wb_append_be16 e1 (Z.land ml 65535)) with (wb_append e1 (be16b (Z.land ml 65535))) in E0.
  rewrite P2 in E0. cbn [bind fst snd] in E0. injection E0 as <-.
  destruct He2 as (We2 & _ & Hle2 & _). cbn [app length be16b skipn] in Hle2.
  (* the physical bound makes the size_t arithmetic exact *)
  assert (Hx : wb_len c2 = Z.of_nat (length (w_live c2))) by (unfold wb_len; rewrite Hw2, w_live_length; reflexivity).
  assert (Hsmall : ml = wb_len c2).
  { unfold ml. apply Z.mod_small. rewrite Hx. split; [lia|].
    rewrite Hlive, Hle2, !app_length in Hphys. cbn [length] in Hphys. rewrite pow64 in *. lia. }
  rewrite Hsmall in *.
  (* the message itself *)
  exists (w_live c2). split.
  - unfold dns_write, dns_write_v. rewrite write_buf_body. change (wb_len wb_empty) with 0. rewrite Eb2. cbn [bind fst snd].
    change (ARES_SUCCESS =? ARES_SUCCESS) with true. cbn [negb wfixed wv_len_check andb].
    replace (wb_len c2 >? 65535) with false by (symmetry; rewrite Z.gtb_ltb; apply Z.ltb_ge; exact E6). reflexivity.
  - rewrite Hlive, Hle2. rewrite land_u16 by lia. rewrite Hx. reflexivity.
Qed.
