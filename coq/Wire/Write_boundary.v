(* C03: the suffix search of ares_dns_name_write only ever compresses at a REAL label boundary.
   Whatever the presentation text (escapes \., \\, \DDD anywhere), if the write succeeds with a
   registered name as a proper suffix, the text in front of the dot that precedes the suffix is a
   complete sequence of tokens - so that dot is an unescaped separator, never the second character of
   an escape.  ("john\.smith.example.com" after "smith.example.com": the candidate is found, the
   prefix "john\" ends in a dangling backslash, ares_split_dns_name refuses it, the write fails.) *)
From CAres.Wire Require Import Cursor Record Escape Escape_proofs Write Write_name Split_tokens Write_host Write_name2 Roundtrip Parse Write_proofs.
From CAres.Gen Require Import Consts LeafFns Tables.
Local Open Scope Z_scope.

Theorem suffix_match_at_label_boundary wv base b ol v name b' nl' on idx :
  wv_strip_dangling_escape wv = false ->
  name_write wv base b (Some ol) v name = Ok (b', nl') ->
  nameoffset_find ol (firstn 511 name) = Some (on, idx) ->
  slen on <> slen (firstn 511 name) ->
  exists prefix tp,
    firstn 511 name = prefix ++ 46%N :: on /\      (* text = prefix . suffix *)
    tokens prefix = Some tp /\                       (* the prefix ends at a token boundary *)
    forall ton, tokens on = Some ton -> tokens (firstn 511 name) = Some (tp ++ TDot :: ton).
Proof.
  intros Hstrip H Hfind Hne. unfold name_write in H. rewrite Hstrip in H.
  destruct (wv_name_no_trunc wv && (slen name >=? 512)); [discriminate|].
  rewrite Hfind in H.
  set (nc := firstn 511 name) in *.
  destruct (slen on =? slen nc) eqn:Eex; [apply Z.eqb_eq in Eex; congruence|]. cbn [negb] in H.
  destruct (find_spec _ _ _ Hfind) as [_ (Hle & Hskip & Hdot)]. cbn [fst] in *.
  assert (Hp : 0 < slen nc - slen on) by (pose proof (slen_nonneg on); lia).
  destruct Hdot as [Hd|Hd]; [lia|].
  set (p := Z.to_nat (slen nc - slen on)) in *.
  replace (Z.to_nat (slen nc - slen on - 1)) with (p - 1)%nat in Hd by (unfold p; lia).
  pose proof (split_at_dot nc p ltac:(unfold p; lia) Hd) as Hsplit. rewrite <- Hskip in Hsplit.
  replace (Z.to_nat (slen nc - (slen on + 1))) with (p - 1)%nat in H by (unfold p; lia).
  set (prefix := firstn (p - 1) nc) in *.
  destruct (split_dns_name v prefix) as [ps| |] eqn:Esp; cbn [bind] in H; try discriminate.
  assert (Esp' : split_dns_name false prefix = Ok ps) by (destruct v; [apply split_dns_name_true_false; exact Esp | exact Esp]).
  unfold split_dns_name in Esp'. rewrite split_go_tokens in Esp'.
  destruct (tokens prefix) as [tp|] eqn:Etp; [|discriminate].
  exists prefix, tp. split; [exact Hsplit | split; [exact Etp|]].
  intros ton Hton. rewrite Hsplit. rewrite (tokens_app _ _ _ Etp).
  cbn [tokens]. change (Z.of_N 46 =? 46) with true. cbn iota. rewrite Hton. reflexivity.
Qed.

(* the dangling-backslash case is refused: no write of "john\.smith.example.com" that compresses
   against "smith.example.com" can succeed *)
Definition n_smith : list N := [115; 109; 105; 116; 104; 46; 101; 120; 46; 99; 111; 109]%N.     (* smith.ex.com *)
Definition n_john_escdot : list N := ([106; 111; 104; 110; 92; 46] ++ n_smith)%N.                (* john\.smith.ex.com *)

Definition rec_escdot : dnsrec :=
  mkRec 1 0 0 0 0 [mkQ n_smith 6 1]
        [mkRR n_smith 6 1 0
              [(ARES_RR_SOA_MNAME, FName (Some n_smith)); (ARES_RR_SOA_RNAME, FName (Some n_john_escdot));
               (ARES_RR_SOA_SERIAL, FU32 1); (ARES_RR_SOA_REFRESH, FU32 2); (ARES_RR_SOA_RETRY, FU32 3);
               (ARES_RR_SOA_EXPIRE, FU32 4); (ARES_RR_SOA_MINIMUM, FU32 5)]] [] [].

Example escdot_refused_fixed : dns_write rec_escdot = Err ARES_EBADNAME.
Proof. vm_compute. reflexivity. Qed.

Example escdot_refused_pinned : dns_write_pinned rec_escdot = Err ARES_EBADNAME.
Proof. vm_compute. reflexivity. Qed.

(* a writer that "repairs" the prefix by dropping the odd trailing backslash (wstrip) writes the
   record - and the mailbox label "john.smith" comes back as two labels *)
Theorem suffix_match_refuted_if_escape_stripped : roundtrip_broken wstrip fixed_tree rec_escdot = true.
Proof. vm_compute. reflexivity. Qed.
