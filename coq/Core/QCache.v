(* C08 - model of src/lib/ares_qcache.c (query cache).

   Same state as the C code: a case-insensitive string-keyed table key -> entry and a list of
   entries ordered by expiry time (the skip list), plus max_ttl.  Entries are identified by a
   unique number (the pointer); the table stores that number, the list owns the entry, so the
   C code's "table still points at a freed entry" would show up as [UB UseAfterFree].

   What is abstracted (explicit):
   - a DNS message is reduced to what ares_qcache.c reads: a request is opcode, flags and the
     list of questions; a response is id, rcode, TC and, per section, the RRs' type, TTL and (for
     SOA) the MINIMUM field.
   - the key string "OPCODE|flags|TYPE|CLASS|name..." is modelled as the tuple of its
     components ([key]); two strings built this way are equal (case-insensitively, as the
     ares_htable_strvp table compares) iff the tuples are, PROVIDED names contain no '|' -
     ares_send only accepts host-name characters in question names.  The type is written as a
     number (fixes/C08-key-numeric-qtype.patch; the original wrote ares_dns_rec_type_tostr(),
     "UNKNOWN" for every type the library has no name for).
   - the skip list is a sorted list; the order among entries with equal expiry is not
     observable (they leave in the same pass).  The comparison is the GENERATED
     ares_qcache_entry_sort_cb.
   - allocation never fails.
   The TTL a caller sees is ares_dns_rr_get_ttl (generated; see QCache_proofs.v
   [get_ttl_generated]) applied to the record's ttl_decrement, which ares_qcache_fetch sets. *)
From CAres.Base Require Import CInt.
From CAres.Gen Require Import Consts LeafFns.
Local Open Scope Z_scope.

Record question := mkQn { qn_type : Z; qn_class : Z; qn_name : list Z }.
Record request := mkReq { rq_opcode : Z; rq_flags : Z; rq_qs : list question }.
Record rrec := mkRR { rr_type : Z; rr_ttl : Z; rr_soa_min : Z }.
Record response := mkResp { rs_id : Z; rs_rcode : Z; rs_tc : bool;
                            rs_an : list rrec; rs_ns : list rrec; rs_ar : list rrec }.

(* ---- ares_qcache_calc_key ---- *)
Record key := mkKey { k_opcode : Z; k_rd : bool; k_cd : bool; k_qs : list (Z * Z * list Z) }.

(* "name_len && name[name_len - 1] == '.'": strip one trailing dot *)
Fixpoint strip_dot (n : list Z) : list Z :=
  match n with
  | [] => []
  | [c] => if c =? 46 then [] else [c]
  | c :: r => c :: strip_dot r
  end.

Definition calc_key (r : request) : key :=
  mkKey (rq_opcode r) (negb (Z.land (rq_flags r) ARES_FLAG_RD =? 0)) (negb (Z.land (rq_flags r) ARES_FLAG_CD =? 0))
        (map (fun q => (qn_type q, qn_class q, strip_dot (qn_name q))) (rq_qs r)).

(* the table compares keys with ares_strcaseeq: ASCII case-insensitive *)
Definition lower (c : Z) : Z := if (65 <=? c) && (c <=? 90) then c + 32 else c.
Fixpoint name_eqb (a b : list Z) : bool :=
  match a, b with
  | [], [] => true
  | x :: a', y :: b' => (lower x =? lower y) && name_eqb a' b'
  | _, _ => false
  end.
Fixpoint qs_eqb (a b : list (Z * Z * list Z)) : bool :=
  match a, b with
  | [], [] => true
  | (t1, c1, n1) :: a', (t2, c2, n2) :: b' => (t1 =? t2) && (c1 =? c2) && name_eqb n1 n2 && qs_eqb a' b'
  | _, _ => false
  end.
Definition key_eqb (a b : key) : bool :=
  (k_opcode a =? k_opcode b) && Bool.eqb (k_rd a) (k_rd b) && Bool.eqb (k_cd a) (k_cd b) && qs_eqb (k_qs a) (k_qs b).

(* ---- TTL of a response ---- *)
(* ares_dns_rr_get_ttl with the parent's ttl_decrement (repaired getter) *)
Definition get_ttl (ttl dec : Z) : Z := if dec >? ttl then 0 else (ttl - dec) mod 2 ^ 32.

(* ares_qcache_calc_minttl: all sections, OPT and SIG skipped (a freshly parsed record has
   ttl_decrement 0) *)
Definition minttl_step (acc : Z) (r : rrec) : Z :=
  if (rr_type r =? ARES_REC_TYPE_OPT) || (rr_type r =? ARES_REC_TYPE_SIG) then acc
  else if get_ttl (rr_ttl r) 0 <? acc then get_ttl (rr_ttl r) 0 else acc.
Definition calc_minttl (rs : response) : Z :=
  fold_left minttl_step (rs_ar rs) (fold_left minttl_step (rs_ns rs) (fold_left minttl_step (rs_an rs) 4294967295)).

(* ares_qcache_soa_minimum: first SOA of the authority section *)
Fixpoint soa_minimum_l (l : list rrec) : Z :=
  match l with
  | [] => 0
  | r :: rest =>
    if rr_type r =? ARES_REC_TYPE_SOA
    then (if get_ttl (rr_ttl r) 0 >? rr_soa_min r then rr_soa_min r else get_ttl (rr_ttl r) 0)
    else soa_minimum_l rest
  end.
Definition soa_minimum (rs : response) : Z := soa_minimum_l (rs_ns rs).

(* ---- the cache ---- *)
Record entry := mkE { e_key : key; e_resp : response; e_expire : Z; e_insert : Z; e_uid : nat }.
Record qcache := mkQC { c_tab : list (key * nat); c_exp : list entry; c_max : Z; c_next : nat }.

Definition qc_create (max_ttl : Z) : qcache := mkQC [] [] max_ttl 0.

(* ares_htable_strvp: insert replaces an existing equal key *)
Definition tab_remove (t : list (key * nat)) (k : key) : list (key * nat) :=
  filter (fun p => negb (key_eqb (fst p) k)) t.
Definition tab_insert (t : list (key * nat)) (k : key) (v : nat) : list (key * nat) :=
  (k, v) :: tab_remove t k.
Fixpoint tab_get (t : list (key * nat)) (k : key) : option nat :=
  match t with
  | [] => None
  | (k', v) :: rest => if key_eqb k' k then Some v else tab_get rest k
  end.

(* ares_slist_insert: keep the list sorted by the generated comparison callback *)
Fixpoint slist_insert (e : entry) (l : list entry) : outcome (list entry) :=
  match l with
  | [] => Ok [e]
  | x :: rest =>
    do c <- c_ares_qcache_entry_sort_cb (e_expire e) (e_expire x);
    if c <? 0 then Ok (e :: l)
    else do rest' <- slist_insert e rest; Ok (x :: rest')
  end.

(* ares_qcache_expire: now = None flushes everything *)
Fixpoint expire (t : list (key * nat)) (l : list entry) (now : option Z) : list (key * nat) * list entry :=
  match l with
  | [] => (t, [])
  | e :: rest =>
    if (match now with Some n => e_expire e >? n | None => false end) then (t, l)
    else expire (tab_remove t (e_key e)) rest now
  end.

Definition qc_flush (c : qcache) : qcache :=
  let '(t, l) := expire (c_tab c) (c_exp c) None in mkQC t l (c_max c) (c_next c).

(* ares_qcache_insert_int *)
Definition qc_insert (c : qcache) (now : Z) (rq : request) (rs : response) : outcome (qcache * Z) :=
  if negb ((rs_rcode rs =? ARES_RCODE_NOERROR) || (rs_rcode rs =? ARES_RCODE_NXDOMAIN)) then Ok (c, ARES_ENOTIMP) else
  if rs_tc rs then Ok (c, ARES_ENOTIMP) else
  let ttl0 := if rs_rcode rs =? ARES_RCODE_NXDOMAIN then soa_minimum rs else calc_minttl rs in
  let ttl := if ttl0 >? c_max c then c_max c else ttl0 in
  if ttl =? 0 then Ok (c, ARES_EREFUSED) else
  (* entry->expire_ts = (time_t)now->sec + (time_t)ttl *)
  guard ((- 2 ^ 63 <=? now + ttl) && (now + ttl <? 2 ^ 63)) SignedOverflow (
  let e := mkE (calc_key rq) rs (now + ttl) now (c_next c) in
  do l' <- slist_insert e (c_exp c);
  Ok (mkQC (tab_insert (c_tab c) (e_key e) (e_uid e)) l' (c_max c) (S (c_next c)), ARES_SUCCESS)).

Fixpoint find_entry (l : list entry) (uid : nat) : option entry :=
  match l with
  | [] => None
  | e :: rest => if Nat.eqb (e_uid e) uid then Some e else find_entry rest uid
  end.

(* ares_qcache_fetch: expire, look up, set ttl_decrement.  Result: the cached response and the
   decrement now in force for every TTL read from it *)
Definition qc_fetch (c : qcache) (now : Z) (rq : request) : outcome (qcache * option (response * Z)) :=
  let '(t, l) := expire (c_tab c) (c_exp c) (Some now) in
  let c' := mkQC t l (c_max c) (c_next c) in
  match tab_get t (calc_key rq) with
  | None => Ok (c', None)
  | Some uid =>
    match find_entry l uid with
    | None => UB UseAfterFree
    | Some e =>
      (* (unsigned int)(now->sec - entry->insert_ts) *)
      guard ((- 2 ^ 63 <=? now - e_insert e) && (now - e_insert e <? 2 ^ 63)) SignedOverflow (
      Ok (c', Some (e_resp e, (now - e_insert e) mod 2 ^ 32)))
    end
  end.

(* the TTLs a caller reads from a cached response, in section order (OPT RRs carry no TTL: the
   parser stores 0) *)
Definition visible_ttls (rs : response) (dec : Z) : list (Z * Z) :=
  map (fun r => (rr_type r, get_ttl (rr_ttl r) dec)) (rs_an rs ++ rs_ns rs ++ rs_ar rs).

(* ---- histories ---- *)
Inductive op :=
| OIns (t : Z) (rq : request) (rs : response)
| OFetch (t : Z) (rq : request)
| OFlush.

Inductive res :=
| RIns (st : Z)
| RFetch (hit : option (response * Z))
| RFlush.

Definition qc_step (c : qcache) (o : op) : outcome (qcache * res) :=
  match o with
  | OIns t rq rs => do r <- qc_insert c t rq rs; Ok (fst r, RIns (snd r))
  | OFetch t rq => do r <- qc_fetch c t rq; Ok (fst r, RFetch (snd r))
  | OFlush => Ok (qc_flush c, RFlush)
  end.

Fixpoint qc_run (c : qcache) (ops : list op) : outcome (list res) :=
  match ops with
  | [] => Ok []
  | o :: rest =>
    do r <- qc_step c o;
    do rs <- qc_run (fst r) rest;
    Ok (snd r :: rs)
  end.
