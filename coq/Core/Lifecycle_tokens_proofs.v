(* C01: token conservation for every function a callback can reach (second induction on fuel,
   on top of the structural specifications of Lifecycle_proofs.v). *)
From Coq Require Import List ZArith Lia Bool Arith Permutation.
Import ListNotations.
From CAres.Base Require Import Outcome.
From CAres.Gen Require Import Consts.
From CAres.Core Require Import LifecycleMonitor Lifecycle Lifecycle_inv Lifecycle_proofs Lifecycle_tokens.

(* cells of linked queries and shared host_query states unchanged => held unchanged *)
Lemma held_same_cells x s s' :
  InvX x s -> linked s' = linked s -> st_next s <= st_next s' ->
  (forall qo, In qo (linked s) -> cell_of s' qo = cell_of s qo) ->
  (forall o, shared_at s' o = shared_at s o) -> held s' = held s.
Proof.
  intros I El Hn H Hs. unfold held. f_equal.
  - unfold qheld. rewrite El. apply flat_map_ext_in'. intros qo Hq. unfold qtoks. rewrite H; auto.
  - apply hheld_same; auto. exact (inv_heap _ _ I).
Qed.

(* a cell that is not a shared host_query state *)
Definition nonshared (c : cell) : Prop := match c with CHost h => h_remaining h = 0 | _ => True end.

Lemma shared_upd s s' o :
  (forall o', o' <> o -> cell_of s' o' = cell_of s o') -> shared_at s o = None -> shared_at s' o = None ->
  forall o', shared_at s' o' = shared_at s o'.
Proof.
  intros H H1 H2 o'. destruct (Nat.eq_dec o' o) as [->|Hne]; [congruence|]. unfold shared_at. rewrite H; auto.
Qed.

Lemma nonshared_at s o c : cell_of s o = Some c -> nonshared c -> shared_at s o = None.
Proof. intros Hc Hn. unfold shared_at. rewrite Hc. destruct c; auto. simpl in Hn. rewrite Hn. reflexivity. Qed.

Lemma tok_alloc x s c RC RF : InvX x s -> nonshared c -> TokInv s RC RF -> TokInv (alloc_st c s) RC RF.
Proof.
  intros I Hc T. apply (tokinv_same s); auto.
  assert (Hfresh : cell_of s (st_next s) = None) by (eapply fresh_dead; eauto).
  apply (held_same_cells x); auto.
  - simpl. lia.
  - intros qo Hq. destruct (inv_query _ _ I _ Hq) as [q Hq']. rewrite cell_alloc.
    destruct (Nat.eqb qo (st_next s)) eqn:E; auto. apply Nat.eqb_eq in E. subst. congruence.
  - apply (shared_upd s _ (st_next s)).
    + intros o' Hne. rewrite cell_alloc. apply Nat.eqb_neq in Hne. rewrite Hne. reflexivity.
    + unfold shared_at. rewrite Hfresh. reflexivity.
    + apply (nonshared_at _ _ c); auto. rewrite cell_alloc, Nat.eqb_refl. reflexivity.
Qed.

Lemma tok_free x s o c RC RF :
  InvX x s -> cell_of s o = Some c -> nonshared c -> ~ In o (linked s) -> TokInv s RC RF -> TokInv (free_st o s) RC RF.
Proof.
  intros I Hc Hns Hn T. apply (tokinv_same s); auto. apply (held_same_cells x); auto.
  - intros qo Hq. rewrite cell_free. destruct (Nat.eqb qo o) eqn:E; auto. apply Nat.eqb_eq in E. subst. contradiction.
  - apply (shared_upd s _ o).
    + intros o' Hne. rewrite cell_free. apply Nat.eqb_neq in Hne. rewrite Hne. reflexivity.
    + eapply nonshared_at; eauto.
    + unfold shared_at. rewrite cell_free, Nat.eqb_refl. reflexivity.
Qed.

Lemma tok_store_unlinked x s o c0 c RC RF :
  InvX x s -> cell_of s o = Some c0 -> nonshared c0 -> nonshared c -> ~ In o (linked s) ->
  TokInv s RC RF -> TokInv (store_st o c s) RC RF.
Proof.
  intros I Hc Hn0 Hn1 Hn T. apply (tokinv_same s); auto. apply (held_same_cells x); auto.
  - intros qo Hq. rewrite cell_store. destruct (Nat.eqb qo o) eqn:E; auto. apply Nat.eqb_eq in E. subst. contradiction.
  - apply (shared_upd s _ o).
    + intros o' Hne. rewrite cell_store. apply Nat.eqb_neq in Hne. rewrite Hne. reflexivity.
    + eapply nonshared_at; eauto.
    + apply (nonshared_at _ _ c); auto. rewrite cell_store, Nat.eqb_refl. reflexivity.
Qed.

Lemma tok_store_query x s o q q' RC RF :
  InvX x s -> cell_of s o = Some (CQuery q) -> q_cb q' = q_cb q -> TokInv s RC RF -> TokInv (store_st o (CQuery q') s) RC RF.
Proof.
  intros I Hq E T. apply (tokinv_same s); auto.
  apply (held_cb_pres x s _ I); auto. apply cb_pres_sim; [simpl; lia|].
  intros o'. rewrite cell_store. destruct (Nat.eqb o' o) eqn:E'.
  - apply Nat.eqb_eq in E'. subst. rewrite Hq. exact E.
  - apply cell_sim_refl.
Qed.

(* a connection is never a linked query *)
Lemma conn_not_linked x s co c : InvX x s -> cell_of s co = Some (CConn c) -> ~ In co (linked s).
Proof. intros I Hc Hl. destruct (inv_query _ _ I _ Hl) as [q Hq]. rewrite Hc in Hq. discriminate. Qed.
Lemma opaque_not_linked x s o : InvX x s -> cell_of s o = Some COpaque -> ~ In o (linked s).
Proof. intros I Hc Hl. destruct (inv_query _ _ I _ Hl) as [q Hq]. rewrite Hc in Hq. discriminate. Qed.
Lemma host_not_linked x s o h : InvX x s -> cell_of s o = Some (CHost h) -> ~ In o (linked s).
Proof. intros I Hc Hl. destruct (inv_query _ _ I _ Hl) as [q Hq]. rewrite Hc in Hq. discriminate. Qed.

Section FixedT.
Variable cf : config.
Hypothesis Hfix : cf_fix cf = all_fixed.

Definition tpost {A} (RC RF : list tok) : A -> state -> Prop := fun _ s' => TokInv s' RC RF.

Record Specs2 (f : nat) : Prop := {
  tp_invoke : forall k r s RC RF, Inv s -> Own s (cobjs k) -> GivenOk s (kbot k) -> TokInv s (ctoks k ++ RC) RF ->
      safe (invoke cf f k r) s (tpost RC RF);
  tp_run_script : forall sc s RC RF, Inv s -> TokInv s RC (calls_toks sc ++ RF) ->
      safe (run_script cf f sc) s (tpost RC RF);
  tp_api : forall c s RC RF, Inv s -> TokInv s RC (call_toks c ++ RF) -> safe (api cf f c) s (tpost RC RF);
  tp_query_nolock : forall k qd s RC RF, Inv s -> Own s (cobjs k) -> GivenOk s (kbot k) -> QdOk qd k -> TokInv s (ctoks k ++ RC) RF ->
      safe (query_nolock cf f k qd) s (tpost RC RF);
  tp_send_nolock : forall k pr qd s RC RF, Inv s -> Own s (cobjs k) -> GivenOk s (kbot k) -> QdOk qd k -> TokInv s (ctoks k ++ RC) RF ->
      safe (send_nolock cf f k pr qd) s (tpost RC RF);
  tp_send_query : forall qo s RC RF, Inv s -> In qo (linked s) -> TokInv s RC RF -> safe (send_query cf f qo) s (tpost RC RF);
  tp_send_query_write : forall qo op s RC RF, Inv s -> In qo (linked s) -> TokInv s RC RF ->
      safe (send_query_write cf f qo op) s (tpost RC RF);
  tp_requeue_query : forall qo st inc df r s RC RF, InvX (Some qo) s -> In qo (linked s) -> TokInv s RC RF ->
      safe (requeue_query cf f qo st inc df r) s (tpost RC RF);
  tp_end_query : forall qo st r s RC RF, InvX (Some qo) s -> In qo (linked s) -> TokInv s RC RF ->
      safe (end_query cf f qo st r) s (tpost RC RF);
  tp_complete_query : forall qo r s RC RF, InvX (Some qo) s -> In qo (linked s) -> TokInv s RC RF ->
      safe (complete_query cf f qo r) s (tpost RC RF);
  tp_handle_conn_error : forall co cr st s c RC RF, Inv s -> cell_of s co = Some (CConn c) -> TokInv s RC RF ->
      safe (handle_conn_error cf f co cr st) s (tpost RC RF);
  tp_close_connection : forall co st s c RC RF, Inv s -> cell_of s co = Some (CConn c) -> TokInv s RC RF ->
      safe (close_connection cf f co st) s (tpost RC RF);
  tp_requeue_conn_queries : forall n co st s c RC RF, Inv s -> cell_of s co = Some (CConn c) -> ~ rooted s co -> TokInv s RC RF ->
      safe (requeue_conn_queries cf f n co st) s (tpost RC RF);
  tp_check_cleanup : forall s RC RF, Inv s -> TokInv s RC RF -> safe (check_cleanup cf f) s (tpost RC RF);
  tp_cleanup_loop : forall n s RC RF, Inv s -> TokInv s RC RF -> safe (cleanup_loop cf f n) s (tpost RC RF);
  tp_set_servers : forall s RC RF, Inv s -> TokInv s RC RF -> safe (set_servers cf f) s (tpost RC RF);
  tp_set_servers_loop : forall n s RC RF, Inv s -> TokInv s RC RF -> safe (set_servers_loop cf f n) s (tpost RC RF);
  tp_cancel : forall s RC RF, Inv s -> TokInv s RC RF -> safe (cancel cf f) s (tpost RC RF);
  tp_cancel_loop : forall n s RC RF, Inv s -> TokInv s RC RF -> safe (cancel_loop_fixed cf f n) s (tpost RC RF);
  tp_search_int : forall k names s RC RF, Inv s -> Own s (cobjs k) -> GivenOk s (kbot k) -> TokInv s (ctoks k ++ RC) RF ->
      safe (search_int cf f k names) s (tpost RC RF);
  tp_search_next : forall o k l nd s RC RF, Inv s -> Own s (o :: cobjs k) -> GivenOk s (kbot k) -> TokInv s (ctoks k ++ RC) RF ->
      safe (search_next cf f o k l nd) s
           (fun r s' => if snd r then TokInv s' RC RF
                        else TokInv s' (ctoks k ++ RC) RF /\ zeqb (fst r) ARES_SUCCESS = false);
  tp_search_callback : forall o k cs l nd r s RC RF, Inv s -> Own s (o :: cobjs k) -> GivenOk s (kbot k) -> TokInv s (ctoks k ++ RC) RF ->
      safe (search_callback cf f o k cs l nd r) s (tpost RC RF);
  tp_end_squery : forall o k r s RC RF, Inv s -> Own s (o :: cobjs k) -> GivenOk s (kbot k) -> TokInv s (ctoks k ++ RC) RF ->
      safe (end_squery cf f o k r) s (tpost RC RF);
  tp_addr_next_lookup : forall o k l s RC RF, Inv s -> Own s (o :: cobjs k) -> GivenOk s (kbot k) -> TokInv s (ctoks k ++ RC) RF ->
      safe (addr_next_lookup cf f o k l) s (tpost RC RF);
  tp_addr_callback : forall o k l r s RC RF, Inv s -> Own s (o :: cobjs k) -> GivenOk s (kbot k) -> TokInv s (ctoks k ++ RC) RF ->
      safe (addr_callback cf f o k l r) s (tpost RC RF);
  tp_end_aquery : forall o k r s RC RF, Inv s -> Own s (o :: cobjs k) -> GivenOk s (kbot k) -> TokInv s (ctoks k ++ RC) RF ->
      safe (end_aquery cf f o k r) s (tpost RC RF);
  tp_host_next_lookup : forall o st s h RC RF, Inv s -> HOwn s o h -> TokInv s (ctoks (h_cb h) ++ RC) RF ->
      safe (host_next_lookup cf f o st) s (tpost RC RF);
  tp_host_next_dns_lookup : forall o s h RC RF, Inv s -> HOwn s o h -> TokInv s (ctoks (h_cb h) ++ RC) RF ->
      safe (host_next_dns_lookup cf f o) s (tpost RC RF);
  tp_host_callback : forall o r s RC RF, Inv s -> GivenOk s (Some o) -> TokInv s RC RF ->
      safe (host_callback cf f o r) s (tpost RC RF);
  tp_end_hquery : forall o st s h RC RF, Inv s -> HOwn s o h -> TokInv s (ctoks (h_cb h) ++ RC) RF ->
      safe (end_hquery cf f o st) s (tpost RC RF)
}.

Lemma specs2_O : Specs2 0.
Proof. constructor; intros; apply safe_fail. Qed.

Let S1 := all_specs cf Hfix.

(* both specifications of a callee at once *)
Ltac both H1 H2 := eapply safe_mono; [apply safe_both; [apply H1|apply H2]|].

(* ---- invoke ---- *)
Lemma invoke_tstep f : Specs2 f -> forall k r s RC RF, Inv s -> Own s (cobjs k) -> GivenOk s (kbot k) -> TokInv s (ctoks k ++ RC) RF ->
  safe (invoke cf (S f) k r) s (tpost RC RF).
Proof.
  intros IH k r s RC RF I O Hn T. destruct k as [t| |w o k'|o k' cs l nd|o k' l|o]; simpl.
  - (* KUser *)
    apply safe_bind. apply safe_emit.
    set (s1 := set_trace (EvCb t (r_status r) :: st_trace s) s).
    assert (E1 : core_eq s s1) by apply core_eq_set_trace.
    assert (I1 : Inv s1) by (apply (inv_core _ _ _ E1); auto).
    assert (T1 : TokInv s1 RC RF) by (apply tokinv_emit_cb; exact T).
    destruct (tokinv_take_script t s1 RC RF T1) as [sc [s2 [E2 [T2 _]]]].
    destruct (take_script_ok _ t s1 I1) as [sc' [s2' [E2' [C2 I2]]]].
    rewrite E2 in E2'. inversion E2'; subst sc' s2'.
    apply safe_bind. eapply safe_of_run; [exact E2|].
    apply (tp_run_script _ IH); auto.
  - apply safe_ret. exact T.
  - (* KWrap *)
    simpl in O, Hn, T. destruct (own_cons _ _ _ O) as [Hc [Hr [Hni O']]].
    apply safe_bind. eapply safe_touch; [exact (inv_heap _ _ I)|exact Hc|].
    apply safe_bind.
    eapply safe_mono; [apply safe_both; [apply (sp_invoke _ _ (S1 f) k' _ s I O' Hn)|apply (tp_invoke _ IH k' _ s RC RF I O' Hn T)]|].
    intros [] s1 [[I1 F1] T1].
    pose proof (fr_cell _ _ _ _ F1 _ _ Hc Hr Hni) as [Hc1 Hr1].
    eapply safe_free; [exact (inv_heap _ _ I1)|exact Hc1|].
    eapply (tok_free None); eauto; [exact Logic.I|]. eapply opaque_not_linked; eauto.
  - simpl in O, Hn, T. apply (tp_search_callback _ IH); auto.
  - simpl in O, Hn, T. apply (tp_addr_callback _ IH); auto.
  - simpl in Hn, T. apply (tp_host_callback _ IH); auto.
Qed.

Lemma run_script_tstep f : Specs2 f -> forall sc s RC RF, Inv s ->
  TokInv s RC (calls_toks sc ++ RF) -> safe (run_script cf (S f) sc) s (tpost RC RF).
Proof.
  intros IH sc s RC RF I T. destruct sc as [|c rest]; simpl.
  - apply safe_ret. exact T.
  - simpl in T. rewrite <- app_assoc in T.
    apply safe_bind.
    eapply safe_mono; [apply safe_both; [apply (sp_api _ _ (S1 f) c s I)
                                        |apply (tp_api _ IH c s RC (calls_toks rest ++ RF) I); exact T]|].
    intros [] s1 [[I1 _] T1].
    apply (tp_run_script _ IH); auto.
Qed.

Lemma end_squery_tstep f : Specs2 f -> forall o k r s RC RF, Inv s -> Own s (o :: cobjs k) -> GivenOk s (kbot k) ->
  TokInv s (ctoks k ++ RC) RF -> safe (end_squery cf (S f) o k r) s (tpost RC RF).
Proof.
  intros IH o k r s RC RF I O Hn T. simpl.
  destruct (own_cons _ _ _ O) as [Hc [Hr [Hni O']]].
  apply safe_bind. eapply safe_touch; [exact (inv_heap _ _ I)|exact Hc|].
  apply safe_bind.
  eapply safe_mono; [apply safe_both; [apply (sp_invoke _ _ (S1 f) k r s I O' Hn)|apply (tp_invoke _ IH k r s RC RF I O' Hn T)]|].
  intros [] s1 [[I1 F1] T1].
  pose proof (fr_cell _ _ _ _ F1 _ _ Hc Hr Hni) as [Hc1 Hr1].
  apply safe_bind. eapply safe_touch; [exact (inv_heap _ _ I1)|exact Hc1|].
  eapply safe_free; [exact (inv_heap _ _ I1)|exact Hc1|].
  eapply (tok_free None); eauto; [exact Logic.I|]. eapply opaque_not_linked; eauto.
Qed.

Lemma end_aquery_tstep f : Specs2 f -> forall o k r s RC RF, Inv s -> Own s (o :: cobjs k) -> GivenOk s (kbot k) ->
  TokInv s (ctoks k ++ RC) RF -> safe (end_aquery cf (S f) o k r) s (tpost RC RF).
Proof.
  intros IH o k r s RC RF I O Hn T. simpl.
  destruct (own_cons _ _ _ O) as [Hc [Hr [Hni O']]].
  apply safe_bind. eapply safe_touch; [exact (inv_heap _ _ I)|exact Hc|].
  apply safe_bind.
  eapply safe_mono; [apply safe_both; [apply (sp_invoke _ _ (S1 f) k r s I O' Hn)|apply (tp_invoke _ IH k r s RC RF I O' Hn T)]|].
  intros [] s1 [[I1 F1] T1].
  pose proof (fr_cell _ _ _ _ F1 _ _ Hc Hr Hni) as [Hc1 Hr1].
  eapply safe_free; [exact (inv_heap _ _ I1)|exact Hc1|].
  eapply (tok_free None); eauto; [exact Logic.I|]. eapply opaque_not_linked; eauto.
Qed.

Lemma complete_query_tstep f : Specs2 f -> forall qo r s RC RF, InvX (Some qo) s -> In qo (linked s) -> TokInv s RC RF ->
  safe (complete_query cf (S f) qo r) s (tpost RC RF).
Proof.
  intros IH qo r s RC RF I Hl T. simpl. rewrite (fx_unlink_true cf Hfix).
  destruct (inv_query _ _ I _ Hl) as [q Hq].
  destruct (detach_query_ok _ _ _ _ I (or_intror eq_refl) Hl Hq)
    as [s1 [E1 [I1 [F1 [_ [_ [_ [_ [_ [_ [Hq1 [Hr1 [O1 _]]]]]]]]]]]]].
  pose proof (tokinv_detach _ _ _ _ RC RF I (or_intror eq_refl) Hl Hq s1 E1 T) as T1.
  pose proof (fd_given _ _ _ F1) as Hg1.
  apply safe_bind. eapply safe_of_run; [exact E1|].
  apply safe_bind. eapply safe_get_query; [exact (inv_heap _ _ I1)|exact Hq1|].
  apply safe_bind. simpl.
  eapply safe_mono; [apply safe_both; [apply (sp_invoke _ _ (S1 f) (q_cb q) _ s1 I1 O1 Hg1)
                                      |apply (tp_invoke _ IH (q_cb q) _ s1 RC RF I1 O1 Hg1 T1)]|].
  intros [] s2 [[I2 F2] T2].
  pose proof (fr_cell _ _ _ _ F2 _ _ Hq1 Hr1 (opaque_not_query _ _ _ _ O1 Hq1)) as [Hq2 Hr2].
  unfold release_query. eapply safe_free; [exact (inv_heap _ _ I2)|exact Hq2|].
  eapply (tok_free None); eauto; [exact Logic.I|]. intros H. apply Hr2. left. exact H.
Qed.

Lemma end_query_tstep f : Specs2 f -> forall qo st r s RC RF, InvX (Some qo) s -> In qo (linked s) -> TokInv s RC RF ->
  safe (end_query cf (S f) qo st r) s (tpost RC RF).
Proof.
  intros IH qo st r s RC RF I Hl T. simpl.
  destruct (inv_query _ _ I _ Hl) as [q Hq].
  apply safe_bind. eapply safe_get_query; [exact (inv_heap _ _ I)|exact Hq|].
  apply safe_bind. apply safe_pop. intros e rest Et.
  set (s1 := set_tape rest s).
  assert (E1 : core_eq s s1) by apply core_eq_set_tape.
  destruct e; try apply safe_fail.
  destruct (negb _); [apply safe_fail|].
  apply (tp_complete_query _ IH); [apply (inv_core _ _ _ E1); auto|rewrite (ce_linked _ _ E1); auto|apply tokinv_set_tape; exact T].
Qed.

Lemma requeue_query_tstep f : Specs2 f -> forall qo st inc df r s RC RF, InvX (Some qo) s -> In qo (linked s) -> TokInv s RC RF ->
  safe (requeue_query cf (S f) qo st inc df r) s (tpost RC RF).
Proof.
  intros IH qo st inc df r s RC RF I Hl T. simpl.
  destruct (inv_query _ _ I _ Hl) as [q Hq].
  destruct (remove_from_conn_ok _ _ _ _ I (or_intror eq_refl) Hl Hq)
    as [s1 [E1 [I1 [F1 [El [_ [_ [_ [_ [_ [_ [_ [_ [_ Hc1]]]]]]]]]]]]]].
  pose proof (tokinv_remove_from_conn _ _ _ _ RC RF I (or_intror eq_refl) Hl Hq s1 E1 T) as T1.
  apply safe_bind. eapply safe_of_run; [exact E1|].
  assert (Hq1 : cell_of s1 qo = Some (CQuery (set_q_conn None q))) by (rewrite Hc1, Nat.eqb_refl; reflexivity).
  assert (Hl1 : In qo (linked s1)) by (unfold linked; rewrite El; exact Hl).
  apply safe_bind. eapply safe_get_query; [exact (inv_heap _ _ I1)|exact Hq1|].
  set (qa := if zeqb st ARES_SUCCESS then set_q_conn None q else set_q_err st (set_q_conn None q)).
  set (qb := if inc then set_q_try (S (q_try qa)) qa else qa).
  assert (Eb : q_cb qb = q_cb q /\ q_qid qb = q_qid q /\ q_conn qb = None).
  { unfold qb, qa. destruct inc, (zeqb st ARES_SUCCESS); simpl; auto. }
  destruct Eb as [Eb1 [Eb2 Eb3]].
  apply safe_bind. eapply safe_store; [exact (inv_heap _ _ I1)|exact Hq1|].
  destruct (store_query_misc_ok None s1 qo _ qb I1 Hq1 Eb1 Eb2 Eb3) as [I2 [F2 [_ [Ell2 [_ Hq2]]]]].
  pose proof (tok_store_query None s1 qo _ qb RC RF I1 Hq1 Eb1 T1) as T2.
  set (s2 := store_st qo (CQuery qb) s1) in *.
  assert (Hl2 : In qo (linked s2)) by (rewrite Ell2; exact Hl1).
  apply safe_bind. apply safe_get.
  destruct (Nat.ltb (q_try qb) (st_nservers s2 * cf_tries cf) && negb (q_noretry qb)).
  - destruct df.
    + apply safe_ret. exact T2.
    + apply (tp_send_query _ IH); auto.
  - apply safe_bind.
    eapply safe_mono; [apply (tp_end_query _ IH qo _ _ s2 RC RF (inv_weaken _ _ I2) Hl2 T2)|].
    intros [] s3 T3. apply safe_ret. exact T3.
Qed.

Lemma requeue_conn_queries_tstep f : Specs2 f -> forall n co st s c RC RF, Inv s -> cell_of s co = Some (CConn c) -> ~ rooted s co ->
  TokInv s RC RF -> safe (requeue_conn_queries cf (S f) n co st) s (tpost RC RF).
Proof.
  intros IH n co st s c RC RF I Hc Hr T. destruct n as [|n']; simpl; [apply safe_fail|].
  apply safe_bind. eapply safe_get_conn; [exact (inv_heap _ _ I)|exact Hc|].
  destruct (c_queries c) as [|qo rest] eqn:Eq.
  - apply safe_ret. exact T.
  - assert (Hqo : In qo (c_queries c)) by (rewrite Eq; left; auto).
    destruct (inv_connq _ _ I _ _ _ Hc Hqo) as [Hl _].
    apply safe_bind.
    eapply safe_mono; [apply safe_both; [apply (sp_requeue_query _ _ (S1 f) qo st true false (res st) s (inv_weaken _ _ I) Hl)
                                        |apply (tp_requeue_query _ IH qo st true false (res st) s RC RF (inv_weaken _ _ I) Hl T)]|].
    intros z s1 [[I1 F1] T1].
    pose proof (fr_cell _ _ _ _ F1 _ _ Hc Hr (fun H => H)) as [c1 [Hc1 [Hr1 _]]].
    apply (tp_requeue_conn_queries _ IH n' co st s1 c1); auto.
Qed.

Lemma close_connection_tstep f : Specs2 f -> forall co st s c RC RF, Inv s -> cell_of s co = Some (CConn c) -> TokInv s RC RF ->
  safe (close_connection cf (S f) co st) s (tpost RC RF).
Proof.
  intros IH co st s c RC RF I Hc T. simpl.
  apply safe_bind. eapply safe_get_conn; [exact (inv_heap _ _ I)|exact Hc|].
  apply safe_bind. apply safe_modify.
  destruct (conns_remove_ok None s co I) as [I1 [F1 [Hn1 [Ech1 Ell1]]]].
  set (s1 := set_conns (remove_nat co (st_conns s)) s) in *.
  assert (T1 : TokInv s1 RC RF) by (apply (tokinv_same s); [reflexivity|reflexivity|reflexivity|exact T]).
  assert (Hc1 : cell_of s1 co = Some (CConn c)) by exact Hc.
  assert (Hr1 : ~ rooted s1 co).
  { intros [H|[H|[H|H]]].
    - destruct (inv_query _ _ I1 _ H) as [q Hq]. rewrite Hc1 in Hq. discriminate.
    - exact (Hn1 H).
    - destruct (inv_chain _ _ I1) as [_ Hop]. rewrite (Hop _ H) in Hc1. discriminate.
    - destruct (hi_objs _ (inv_hosts _ _ I1)) as [_ Hop]. destruct (Hop _ H) as [Hop' _]. rewrite Hop' in Hc1. discriminate. }
  apply safe_bind.
  eapply safe_mono; [apply safe_both; [apply (sp_requeue_conn_queries _ _ (S1 f) f co st s1 c I1 Hc1 Hr1)
                                      |apply (tp_requeue_conn_queries _ IH f co st s1 c RC RF I1 Hc1 Hr1 T1)]|].
  intros [] s2 [[I2 [F2 [c2 [Hc2 Eq2]]]] T2].
  apply safe_bind. eapply safe_get_conn; [exact (inv_heap _ _ I2)|exact Hc2|].
  apply safe_bind. apply safe_expect'; [right; right; eexists; reflexivity|].
  intros l3. set (s3 := set_tape l3 s2).
  assert (E3 : core_eq s2 s3) by apply core_eq_set_tape.
  assert (I3 : Inv s3) by (apply (inv_core _ _ _ E3); auto).
  assert (Hc3 : cell_of s3 co = Some (CConn c2)) by exact Hc2.
  assert (T3 : TokInv s3 RC RF) by (apply tokinv_set_tape; exact T2).
  rewrite (fx_connread_true cf Hfix). simpl. destruct (c_reading c2).
  - eapply safe_store; [exact (inv_heap _ _ I3)|exact Hc3|].
    eapply (tok_store_unlinked None); eauto; try exact Logic.I. eapply conn_not_linked; eauto.
  - eapply safe_free; [exact (inv_heap _ _ I3)|exact Hc3|].
    eapply (tok_free None); eauto; [exact Logic.I|]. eapply conn_not_linked; eauto.
Qed.

Lemma handle_conn_error_tstep f : Specs2 f -> forall co cr st s c RC RF, Inv s -> cell_of s co = Some (CConn c) -> TokInv s RC RF ->
  safe (handle_conn_error cf (S f) co cr st) s (tpost RC RF).
Proof.
  intros IH co cr st s c RC RF I Hc T. simpl.
  apply safe_bind. eapply safe_get_conn; [exact (inv_heap _ _ I)|exact Hc|].
  assert (G : forall l, safe (let! e := pop in
                  match e with
                  | TX sock st' => if Nat.eqb sock (c_sock c) && zeqb st st' then close_connection cf f co st else fail EDESYNC
                  | _ => fail EDESYNC end) (set_tape l s) (tpost RC RF)).
  { intros l. apply safe_bind. apply safe_pop. intros e rest Et.
    destruct e; try apply safe_fail. destruct (Nat.eqb sock (c_sock c) && zeqb st st0); [|apply safe_fail].
    assert (E2 : core_eq s (set_tape rest (set_tape l s))) by (unfold core_eq; repeat split).
    apply (tp_close_connection _ IH co st _ c RC RF); [apply (inv_core _ _ _ E2); auto|exact Hc|].
    apply tokinv_set_tape. apply tokinv_set_tape. exact T. }
  destruct cr.
  - apply safe_bind. apply safe_expect'; [left; reflexivity|]. intros l. apply G.
  - apply safe_bind. apply safe_ret.
    replace s with (set_tape (st_tape s) s) by (destruct s; reflexivity). apply G.
Qed.

Lemma cleanup_loop_tstep f : Specs2 f -> forall n s RC RF, Inv s -> TokInv s RC RF -> safe (cleanup_loop cf (S f) n) s (tpost RC RF).
Proof.
  intros IH n s RC RF I T. destruct n as [|n']; simpl; [apply safe_fail|].
  apply safe_bind. apply safe_peek.
  destruct (hd_error (st_tape s)) as [e|]; [|apply safe_fail].
  destruct e; try apply safe_fail.
  - destruct (find_conn_by_sock_ok _ s sock I) as [r [E1 Hr]].
    apply safe_bind. eapply safe_of_run; [exact E1|].
    destruct r as [co|]; [|apply safe_fail].
    destruct (Hr _ eq_refl) as [Hin [c [Hc Hncl]]].
    apply safe_bind. eapply safe_get_conn; [exact (inv_heap _ _ I)|exact Hc|].
    destruct (c_queries c); [|apply safe_fail].
    apply safe_bind.
    eapply safe_mono; [apply safe_both; [apply (sp_close_connection _ _ (S1 f) co ARES_SUCCESS s c I Hc)
                                        |apply (tp_close_connection _ IH co ARES_SUCCESS s c RC RF I Hc T)]|].
    intros [] s1 [[I1 _] T1]. apply (tp_cleanup_loop _ IH); auto.
  - apply safe_bind. apply safe_pop. intros e rest Et. apply safe_ret. apply tokinv_set_tape. exact T.
Qed.

Lemma check_cleanup_tstep f : Specs2 f -> forall s RC RF, Inv s -> TokInv s RC RF -> safe (check_cleanup cf (S f)) s (tpost RC RF).
Proof.
  intros IH s RC RF I T. simpl. apply safe_bind. apply safe_pop. intros e rest Et.
  destruct e; try apply safe_fail.
  assert (E1 : core_eq s (set_tape rest s)) by apply core_eq_set_tape.
  apply (tp_cleanup_loop _ IH); [apply (inv_core _ _ _ E1); auto|apply tokinv_set_tape; exact T].
Qed.

Lemma set_servers_loop_tstep f : Specs2 f -> forall n s RC RF, Inv s -> TokInv s RC RF ->
  safe (set_servers_loop cf (S f) n) s (tpost RC RF).
Proof.
  intros IH n s RC RF I T. destruct n as [|n']; simpl; [apply safe_fail|].
  apply safe_bind. apply safe_get.
  assert (G : forall co c, cell_of s co = Some (CConn c) ->
            safe (close_connection cf f co ARES_SUCCESS;; set_servers_loop cf f n') s (tpost RC RF)).
  { intros co c Hc. apply safe_bind.
    eapply safe_mono; [apply safe_both; [apply (sp_close_connection _ _ (S1 f) co ARES_SUCCESS s c I Hc)
                                        |apply (tp_close_connection _ IH co ARES_SUCCESS s c RC RF I Hc T)]|].
    intros [] s1 [[I1 _] T1]. apply (tp_set_servers_loop _ IH); auto. }
  destruct (close_victim (st_tape s)) as [[|sock|qid]|]; [| | |apply safe_fail].
  - apply safe_bind. apply safe_pop. intros e rest Et. apply safe_ret. apply tokinv_set_tape. exact T.
  - destruct (find_conn_by_sock_ok _ s sock I) as [r [E1 Hr]].
    apply safe_bind. eapply safe_of_run; [exact E1|].
    destruct r as [co|]; [|apply safe_fail].
    destruct (Hr _ eq_refl) as [Hin [c [Hc Hncl]]]. apply (G co c); auto.
  - destruct (lookup qid (st_byqid s)) as [qo|] eqn:Lk; [|apply safe_fail].
    destruct (inv_byqid _ _ I _ _ Lk) as [Hl _]. destruct (inv_query _ _ I _ Hl) as [q Hq].
    apply safe_bind. eapply safe_get_query; [exact (inv_heap _ _ I)|exact Hq|].
    destruct (q_conn q) as [co|]; [|apply safe_fail].
    destruct (memb co (st_conns s)) eqn:Mb; [|apply safe_fail].
    apply memb_In in Mb. destruct (inv_conns _ _ I) as [_ Hcc]. destruct (Hcc _ Mb) as [c [Hc _]].
    apply (G co c); auto.
Qed.

Lemma set_servers_tstep f : Specs2 f -> forall s RC RF, Inv s -> TokInv s RC RF -> safe (set_servers cf (S f)) s (tpost RC RF).
Proof.
  intros IH s RC RF I T. simpl. apply safe_bind. apply safe_pop. intros e rest Et.
  destruct e; try apply safe_fail.
  apply safe_bind. apply safe_modify.
  set (s1 := set_nservers n (set_tape rest s)).
  assert (E1 : core_eq s s1) by (eapply core_eq_trans; [apply core_eq_set_tape|apply core_eq_set_nservers]).
  apply (tp_set_servers_loop _ IH); [apply (inv_core _ _ _ E1); auto|].
  apply (tokinv_same s); auto.
Qed.

Lemma cancel_loop_tstep f : Specs2 f -> forall n s RC RF, Inv s -> TokInv s RC RF ->
  safe (cancel_loop_fixed cf (S f) n) s (tpost RC RF).
Proof.
  intros IH n s RC RF I T. destruct n as [|n']; simpl; [apply safe_fail|].
  apply safe_bind. apply safe_get.
  destruct (st_lists s) as [|a [|[|qo l] r]] eqn:El; try (apply safe_ret; exact T).
  assert (Hl : In qo (linked s)).
  { unfold linked. rewrite El. simpl. apply in_or_app. right. left. reflexivity. }
  apply safe_bind.
  eapply safe_mono; [apply safe_both; [apply (sp_complete_query _ _ (S1 f) qo _ s (inv_weaken _ _ I) Hl)
                                      |apply (tp_complete_query _ IH qo _ s RC RF (inv_weaken _ _ I) Hl T)]|].
  intros [] s1 [[I1 _] T1]. apply (tp_cancel_loop _ IH); auto.
Qed.

Lemma held_set_lists s ls : concat ls = linked s -> held (set_lists ls s) = held s.
Proof.
  intros E. unfold held. f_equal. unfold qheld. change (linked (set_lists ls s)) with (concat ls). rewrite E. reflexivity.
Qed.

Lemma mark_cancelled_tok l : forall s RC RF, Inv s -> incl l (linked s) -> TokInv s RC RF ->
  safe (mark_cancelled l) s (fun _ s' => TokInv s' RC RF).
Proof.
  induction l as [|qo r IHr]; intros s RC RF I Hl T; simpl.
  - apply safe_ret. exact T.
  - assert (Hq0 : In qo (linked s)) by (apply Hl; left; auto).
    destruct (inv_query _ _ I _ Hq0) as [q Hq].
    apply safe_bind. apply safe_bind. eapply safe_get_query; [exact (inv_heap _ _ I)|exact Hq|].
    eapply safe_store; [exact (inv_heap _ _ I)|exact Hq|].
    destruct (store_query_misc_ok None s qo q (set_q_cancelled true q) I Hq eq_refl eq_refl eq_refl) as [I1 [F1 [_ [Ell1 _]]]].
    apply (IHr _ RC RF I1).
    + intros y Hy. rewrite Ell1. apply Hl. right. exact Hy.
    + apply (tok_store_query None s qo q); auto.
Qed.

Lemma cancel_tstep f : Specs2 f -> forall s RC RF, Inv s -> TokInv s RC RF -> safe (cancel cf (S f)) s (tpost RC RF).
Proof.
  intros IH s RC RF I T. rewrite cancel_unfold. apply safe_bind. apply safe_get.
  assert (G : forall s1, Inv s1 -> TokInv s1 RC RF -> safe (check_cleanup cf f) s1 (tpost RC RF)).
  { intros s1 I1 T1. apply (tp_check_cleanup _ IH); auto. }
  destruct (st_lists s) as [|[|q0 l0] rest] eqn:El.
  - apply safe_bind. apply safe_ret. apply G; auto.
  - apply safe_bind. apply safe_ret. apply G; auto.
  - apply safe_bind. apply safe_bind. apply safe_modify.
    assert (Ec : concat ([] :: (q0 :: l0) :: rest) = linked s) by (unfold linked; rewrite El; reflexivity).
    destruct (lists_same_linked None s ([] :: (q0 :: l0) :: rest) Ec I) as [I1 [F1 _]].
    assert (T1 : TokInv (set_lists ([] :: (q0 :: l0) :: rest) s) RC RF).
    { apply (tokinv_same s); [reflexivity|reflexivity|apply held_set_lists; exact Ec|exact T]. }
    rewrite (fx_unlink_true cf Hfix), (fx_cancelmark_true cf Hfix).
    apply safe_bind.
    eapply safe_mono; [apply safe_both; [apply (mark_cancelled_ok (q0 :: l0) _ I1)|apply (mark_cancelled_tok (q0 :: l0) _ RC RF I1)]|]; auto.
    { intros y Hy. unfold linked. simpl. destruct Hy as [->|Hy]; [left; auto|right; apply in_or_app; left; exact Hy]. }
    { intros y Hy. unfold linked. simpl. destruct Hy as [->|Hy]; [left; auto|right; apply in_or_app; left; exact Hy]. }
    intros [] sm [[Im _] Tm].
    apply safe_bind.
    eapply safe_mono; [apply safe_both; [apply (sp_cancel_loop _ _ (S1 f) f _ Im)|apply (tp_cancel_loop _ IH f _ RC RF Im Tm)]|].
    intros [] s2 [[I2 [F2 Hsh]] T2].
    apply safe_modify.
    set (ls2 := match st_lists s2 with a :: _ :: r => a :: r | x => x end).
    assert (Ec2 : concat ls2 = linked s2).
    { unfold ls2, linked. destruct (st_lists s2) as [|a [|[|qo l] r]]; auto. exfalso. eapply Hsh. reflexivity. }
    destruct (lists_same_linked None s2 ls2 Ec2 I2) as [I3 _].
    apply G; auto.
    apply (tokinv_same s2); [reflexivity|reflexivity|apply held_set_lists; exact Ec2|exact T2].
Qed.

(* ---- ares_send_query ---- *)
Lemma send_query_write_tstep f : Specs2 f -> forall qo op s RC RF, Inv s -> In qo (linked s) -> TokInv s RC RF ->
  safe (send_query_write cf (S f) qo op) s (tpost RC RF).
Proof.
  intros IH qo op s RC RF I Hl T. simpl.
  destruct (inv_query _ _ I _ Hl) as [q Hq].
  apply safe_bind. eapply safe_get_query; [exact (inv_heap _ _ I)|exact Hq|].
  apply safe_bind. apply safe_pop. intros e rest Et.
  destruct e; try apply safe_fail.
  destruct (negb (Nat.eqb qid (q_qid q))); [apply safe_fail|].
  set (s1 := set_tape rest s).
  assert (E1 : core_eq s s1) by apply core_eq_set_tape.
  assert (I1 : Inv s1) by (apply (inv_core _ _ _ E1); auto).
  assert (Hl1 : In qo (linked s1)) by (rewrite (ce_linked _ _ E1); exact Hl).
  assert (T1 : TokInv s1 RC RF) by (apply tokinv_set_tape; exact T).
  assert (G : forall sA co cA, Inv sA -> In qo (linked sA) -> In co (st_conns sA) ->
            cell_of sA co = Some (CConn cA) -> c_closed cA = false -> TokInv sA RC RF ->
            safe (let! _ := get_conn co in
                  let! e2 := peek in
                  let! wrc := match e2 with
                              | Some (TF s2 rc) => if Nat.eqb s2 sock then (let! _ := pop in ret rc) else ret ARES_SUCCESS
                              | _ => ret ARES_SUCCESS end in
                  if zeqb wrc ARES_SUCCESS
                  then attach_frag qo co tcp;;
                       (let! s0 := get in
                        (if probe_ahead (st_tape s0) then let! _ := send_nolock cf f KProbe true None in ret tt else ret tt));;
                       ret ARES_SUCCESS
                  else if zeqb wrc ARES_ENOMEM
                  then end_query cf f qo wrc (res wrc);; ret wrc
                  else if is_retryable wrc
                  then handle_conn_error cf f co true wrc;;
                       (if fx_revalidate (cf_fix cf)
                        then let! s0 := get in
                             match lookup (q_qid q) (st_byqid s0) with
                             | Some qo' => requeue_query cf f qo' wrc true false (res wrc)
                             | None => ret ARES_ECANCELLED end
                        else requeue_query cf f qo wrc true false (res wrc))
                  else expect_TS;; requeue_query cf f qo wrc true false (res wrc)) sA (tpost RC RF)).
  { intros sA co cA IA HlA HinA HcA HnclA TA.
    apply safe_bind. eapply safe_get_conn; [exact (inv_heap _ _ IA)|exact HcA|].
    apply safe_bind. apply safe_peek.
    assert (W : forall wrc l,
              safe (if zeqb wrc ARES_SUCCESS
                    then attach_frag qo co tcp;;
                         (let! s0 := get in
                          (if probe_ahead (st_tape s0) then let! _ := send_nolock cf f KProbe true None in ret tt else ret tt));;
                         ret ARES_SUCCESS
                    else if zeqb wrc ARES_ENOMEM
                    then end_query cf f qo wrc (res wrc);; ret wrc
                    else if is_retryable wrc
                    then handle_conn_error cf f co true wrc;;
                         (if fx_revalidate (cf_fix cf)
                          then let! s0 := get in
                               match lookup (q_qid q) (st_byqid s0) with
                               | Some qo' => requeue_query cf f qo' wrc true false (res wrc)
                               | None => ret ARES_ECANCELLED end
                          else requeue_query cf f qo wrc true false (res wrc))
                    else expect_TS;; requeue_query cf f qo wrc true false (res wrc)) (set_tape l sA) (tpost RC RF)).
    { intros wrc l. set (sB := set_tape l sA).
      assert (EB : core_eq sA sB) by apply core_eq_set_tape.
      assert (IB : Inv sB) by (apply (inv_core _ _ _ EB); auto).
      assert (HlB : In qo (linked sB)) by exact HlA.
      assert (HinB : In co (st_conns sB)) by exact HinA.
      assert (HcB : cell_of sB co = Some (CConn cA)) by exact HcA.
      assert (TB : TokInv sB RC RF) by (apply tokinv_set_tape; exact TA).
      destruct (zeqb wrc ARES_SUCCESS).
      - destruct (inv_query _ _ IB _ HlB) as [qB HqB].
        destruct (attach_run sB qo qB co cA tcp IB HlB HqB HinB HcB HnclA)
          as [sC [EC [IC [FC [EllC [_ [_ [EscC [_ [EtrC [_ HsimC]]]]]]]]]]].
        assert (TC : TokInv sC RC RF).
        { apply (tokinv_same sB); auto. apply (held_cb_pres None sB sC IB EllC).
          apply cb_pres_sim; [exact (fr_next _ _ _ _ FC)|exact HsimC]. }
        apply safe_bind. eapply safe_of_run; [exact EC|].
        apply safe_bind. apply safe_bind. apply safe_get.
        destruct (probe_ahead (st_tape sC)).
        + apply safe_bind.
          eapply safe_mono; [apply (tp_send_nolock _ IH KProbe true None sC RC RF IC (own_nil _) Logic.I Logic.I TC)|].
          intros z sD TD. apply safe_ret. apply safe_ret. exact TD.
        + apply safe_ret. apply safe_ret. exact TC.
      - destruct (zeqb wrc ARES_ENOMEM).
        + apply safe_bind. eapply safe_mono; [apply (tp_end_query _ IH qo wrc _ sB RC RF (inv_weaken _ _ IB) HlB TB)|].
          intros [] sC TC. apply safe_ret. exact TC.
        + destruct (is_retryable wrc).
          * apply safe_bind.
            eapply safe_mono; [apply safe_both; [apply (sp_handle_conn_error _ _ (S1 f) co true wrc sB cA IB HcB)
                                                |apply (tp_handle_conn_error _ IH co true wrc sB cA RC RF IB HcB TB)]|].
            intros [] sC [[IC _] TC]. rewrite (fx_revalidate_true cf Hfix).
            apply safe_bind. apply safe_get.
            destruct (lookup (q_qid q) (st_byqid sC)) as [qo'|] eqn:Lk.
            -- destruct (inv_byqid _ _ IC _ _ Lk) as [Hl' _].
               apply (tp_requeue_query _ IH); auto. apply inv_weaken; exact IC.
            -- apply safe_ret. exact TC.
          * apply safe_bind. apply safe_expect'; [left; reflexivity|]. intros l2.
            assert (EC : core_eq sB (set_tape l2 sB)) by apply core_eq_set_tape.
            apply (tp_requeue_query _ IH); [apply inv_weaken; apply (inv_core _ _ _ EC); auto|exact HlB|apply tokinv_set_tape; exact TB]. }
    assert (Eid : set_tape (st_tape sA) sA = sA) by (destruct sA; reflexivity).
    destruct (hd_error (st_tape sA)) as [e2|];
      [|apply safe_bind; apply safe_ret; rewrite <- Eid; apply W].
    destruct e2; try (apply safe_bind; apply safe_ret; rewrite <- Eid; apply W).
    destruct (Nat.eqb sock0 sock).
    - apply safe_bind. apply safe_bind. apply safe_pop. intros e3 rest3 Et3. apply safe_ret. apply W.
    - apply safe_bind. apply safe_ret. rewrite <- Eid. apply W. }
  destruct (find_conn_by_sock_ok _ s1 sock I1) as [ex [Ef Hex]].
  apply safe_bind. eapply safe_of_run; [exact Ef|].
  destruct ex as [co|]; destruct op; try (apply safe_bind; apply safe_fail).
  - destruct (Hex _ eq_refl) as [Hin [c [Hc Hncl]]].
    apply safe_bind. apply safe_ret. apply (G s1 co c); auto.
  - apply safe_bind. apply safe_bind. apply safe_alloc. apply safe_bind. apply safe_modify. apply safe_ret.
    set (c0 := {| c_sock := sock; c_tcp := tcp; c_queries := []; c_reading := false; c_closed := false |}).
    destruct (new_conn_ok None s1 c0 I1 eq_refl eq_refl) as [I2 [F2 [Hc2 [Hin2 [_ [Ell2 _]]]]]].
    eapply (G _ (st_next s1) c0); auto.
    apply (tokinv_same (alloc_st (CConn c0) s1)); [reflexivity|reflexivity|reflexivity|].
    apply (tok_alloc None); auto. exact Logic.I.
Qed.

Lemma send_query_tstep f : Specs2 f -> forall qo s RC RF, Inv s -> In qo (linked s) -> TokInv s RC RF ->
  safe (send_query cf (S f) qo) s (tpost RC RF).
Proof.
  intros IH qo s RC RF I Hl T. simpl.
  destruct (inv_query _ _ I _ Hl) as [q Hq].
  apply safe_bind. eapply safe_get_query; [exact (inv_heap _ _ I)|exact Hq|].
  apply safe_bind. apply safe_get.
  destruct (Nat.eqb (st_nservers s) 0).
  { apply safe_bind. eapply safe_mono; [apply (tp_end_query _ IH qo _ _ s RC RF (inv_weaken _ _ I) Hl T)|].
    intros [] s2 T2. apply safe_ret. exact T2. }
  apply safe_bind. apply safe_peek.
  assert (Dflt : safe (send_query_write cf f qo false) s (tpost RC RF)) by (apply (tp_send_query_write _ IH); auto).
  destruct (hd_error (st_tape s)) as [e|]; [|exact Dflt].
  destruct e; try exact Dflt.
  apply safe_bind. apply safe_pop. intros e rest Et.
  set (s1 := set_tape rest s).
  assert (E1 : core_eq s s1) by apply core_eq_set_tape.
  assert (I1 : Inv s1) by (apply (inv_core _ _ _ E1); auto).
  assert (Hl1 : In qo (linked s1)) by exact Hl.
  assert (T1 : TokInv s1 RC RF) by (apply tokinv_set_tape; exact T).
  destruct (zeqb rc ARES_SUCCESS).
  - apply (tp_send_query_write _ IH); auto.
  - destruct (is_retryable rc).
    + apply safe_bind. apply safe_expect'; [left; reflexivity|]. intros l2.
      assert (E2 : core_eq s1 (set_tape l2 s1)) by apply core_eq_set_tape.
      apply (tp_requeue_query _ IH); [apply inv_weaken; apply (inv_core _ _ _ E2); auto|exact Hl1|apply tokinv_set_tape; exact T1].
    + apply safe_bind. eapply safe_mono; [apply (tp_end_query _ IH qo rc _ s1 RC RF (inv_weaken _ _ I1) Hl1 T1)|].
      intros [] s2 T2. apply safe_ret. exact T2.
Qed.

Lemma gen_qid_ok' n s (Q : nat -> state -> Prop) :
  (forall qid l, lookup qid (st_byqid s) = None -> Q qid (set_tape l s)) ->
  safe (gen_qid n) s Q.
Proof.
  revert s Q. induction n as [|n IHn]; intros s Q HQ; simpl; [apply safe_fail|].
  apply safe_bind. apply safe_pop. intros e rest Et. destruct e; try apply safe_fail.
  apply safe_bind. apply safe_get.
  destruct (lookup qid (st_byqid (set_tape rest s))) eqn:Lk.
  - apply IHn. intros qid' l L2. apply (HQ qid' l). exact L2.
  - apply safe_ret. apply HQ. exact Lk.
Qed.

Lemma write_qid_tok qd qid k s RC RF : Inv s -> QdOk qd k -> (forall o, kbot k = Some o -> exists h, shared_at s o = Some h) ->
  TokInv s RC RF -> safe (write_qid qd qid) s (tpost RC RF).
Proof.
  intros I Hqd Hk T. unfold write_qid. destruct qd as [[o aaaa]|]; [|apply safe_ret; exact T].
  simpl in Hqd. destruct (Hk _ Hqd) as [h Hs]. destruct (shared_host _ _ _ Hs) as [Hc Hp].
  unfold get_host. apply safe_bind. apply safe_bind. eapply safe_touch; [exact (inv_heap _ _ I)|exact Hc|].
  apply safe_ret. eapply safe_store; [exact (inv_heap _ _ I)|exact Hc|].
  apply (tokinv_host_shared None s o h); auto; destruct aaaa; auto.
Qed.

Lemma send_nolock_tstep f : Specs2 f -> forall k pr qd s RC RF, Inv s -> Own s (cobjs k) -> GivenOk s (kbot k) -> QdOk qd k ->
  TokInv s (ctoks k ++ RC) RF -> safe (send_nolock cf (S f) k pr qd) s (tpost RC RF).
Proof.
  intros IH k pr qd s RC RF I O Hn Hqd T. rewrite send_nolock_unfold. rewrite (fx_qidearly_true cf Hfix). simpl negb. cbn [andb].
  apply safe_bind. apply gen_qid_ok'. intros qid l1 Lk1.
  set (s1 := set_tape l1 s).
  assert (E1 : core_eq s s1) by apply core_eq_set_tape.
  assert (G : forall cached l2,
            safe (match cached with
                  | Some r => invoke cf f k r;; ret (r_status r)
                  | None =>
                      let! e := pop in
                      match e with
                      | TD rc =>
                          if negb (zeqb rc ARES_SUCCESS)
                          then let st := if zeqb rc ARES_EBADRESP then ARES_EBADQUERY else rc in
                               invoke cf f k (res st);; ret st
                          else (if cf_dns0x20 cf
                                then let! e0 := peek in
                                     match e0 with Some (TN _) => let! _ := pop in ret tt | _ => ret tt end
                                else ret tt);;
                               (let! qo := alloc (CQuery {| q_qid := qid; q_cb := k; q_conn := None; q_try := 0;
                                                           q_noretry := pr; q_tcp := false; q_err := ARES_SUCCESS; q_cancelled := false |}) in
                                link_all qo;;
                                modify (fun s0 => set_byqid ((qid, qo) :: st_byqid s0) s0);;
                                write_qid qd qid;;
                                (let! st := send_query cf f qo in ret tt;; ret st))
                      | _ => fail EDESYNC end
                  end) (set_tape l2 s) (tpost RC RF)).
  { intros cached l2. set (s2 := set_tape l2 s).
    assert (E2 : core_eq s s2) by apply core_eq_set_tape.
    assert (I2 : Inv s2) by (apply (inv_core _ _ _ E2); auto).
    assert (O2 : Own s2 (cobjs k)) by (apply (own_core _ _ _ E2); auto).
    assert (Hn2 : GivenOk s2 (kbot k)) by (apply (given_core _ _ _ E2); auto).
    assert (T2 : TokInv s2 (ctoks k ++ RC) RF) by (apply tokinv_set_tape; exact T).
    destruct cached as [r|].
    - apply safe_bind. eapply safe_mono; [apply (tp_invoke _ IH k r s2 RC RF I2 O2 Hn2 T2)|].
      intros [] s3 T3. apply safe_ret. exact T3.
    - apply safe_bind. apply safe_pop. intros e rest Et. destruct e; try apply safe_fail.
      set (s3 := set_tape rest s2).
      assert (E3 : core_eq s s3) by (unfold core_eq; repeat split).
      assert (I3 : Inv s3) by (apply (inv_core _ _ _ E3); auto).
      assert (O3 : Own s3 (cobjs k)) by (apply (own_core _ _ _ E3); auto).
      assert (Hn3 : GivenOk s3 (kbot k)) by (apply (given_core _ _ _ E3); auto).
      assert (T3 : TokInv s3 (ctoks k ++ RC) RF) by (apply tokinv_set_tape; exact T2).
      destruct (negb (zeqb rc ARES_SUCCESS)).
      + apply safe_bind. eapply safe_mono; [apply (tp_invoke _ IH k _ s3 RC RF I3 O3 Hn3 T3)|].
        intros [] s4 T4. apply safe_ret. exact T4.
      + assert (D : forall l4,
                  safe (let! qo := alloc (CQuery {| q_qid := qid; q_cb := k; q_conn := None; q_try := 0;
                                                    q_noretry := pr; q_tcp := false; q_err := ARES_SUCCESS; q_cancelled := false |}) in
                        link_all qo;;
                        modify (fun s0 => set_byqid ((qid, qo) :: st_byqid s0) s0);;
                        write_qid qd qid;;
                        (let! st := send_query cf f qo in ret tt;; ret st))
                       (set_tape l4 s) (tpost RC RF)).
        { intros l4. set (s4 := set_tape l4 s).
          assert (E4 : core_eq s s4) by apply core_eq_set_tape.
          assert (I4 : Inv s4) by (apply (inv_core _ _ _ E4); auto).
          assert (O4 : Own s4 (cobjs k)) by (apply (own_core _ _ _ E4); auto).
          assert (Hn4 : GivenOk s4 (kbot k)) by (apply (given_core _ _ _ E4); auto).
          assert (T4 : TokInv s4 (ctoks k ++ RC) RF) by (apply tokinv_set_tape; exact T).
          set (q0 := {| q_qid := qid; q_cb := k; q_conn := None; q_try := 0; q_noretry := pr; q_tcp := false; q_err := ARES_SUCCESS; q_cancelled := false |}).
          destruct (new_query_ok s4 k qid q0 I4 O4 Hn4 Lk1 eq_refl eq_refl eq_refl) as [I5 [F5 [Hl5 [Hq5 _]]]].
          pose proof (tokinv_new_query s4 k qid q0 RC RF I4 O4 Hn4 Lk1 eq_refl eq_refl eq_refl T4) as T5.
          apply safe_bind. apply safe_alloc.
          apply safe_bind. eapply safe_of_run; [apply link_all_run|].
          apply safe_bind. apply safe_modify.
          assert (Hk5 : forall o, kbot k = Some o -> exists h, shared_at
                     (set_byqid ((qid, st_next s4) :: st_byqid (set_lists (link_lists (st_next s4) (st_lists s4)) (alloc_st (CQuery q0) s4)))
                        (set_lists (link_lists (st_next s4) (st_lists s4)) (alloc_st (CQuery q0) s4))) o = Some h).
          { intros o Ek. destruct (hi_ref _ (inv_hosts _ _ I5) _ o Hl5) as [h Hs]; eauto.
            unfold href. rewrite Hq5. exact Ek. }
          apply safe_bind.
          eapply safe_mono; [apply safe_both; [apply (write_qid_ok qd qid k _ I5 Hqd Hk5)|apply (write_qid_tok qd qid k _ RC RF I5 Hqd Hk5 T5)]|].
          intros [] s6 [[I6 [F6 Ell6]] T6].
          apply safe_bind. eapply safe_mono; [apply (tp_send_query _ IH _ _ RC RF I6); [rewrite Ell6; exact Hl5|exact T6]|].
          intros z s7 T7. apply safe_bind. apply safe_ret. apply safe_ret. exact T7. }
        apply safe_bind.
        * destruct (cf_dns0x20 cf); [|apply safe_ret; apply (D rest)].
          apply safe_bind. apply safe_peek.
          destruct (hd_error (st_tape s3)) as [e0|]; [|apply safe_ret; apply (D rest)].
          destruct e0; try (apply safe_ret; apply (D rest)).
          apply safe_bind. apply safe_pop. intros e1 rest1 Et1. apply safe_ret. apply (D rest1). }
  apply safe_bind. apply safe_get.
  destruct (Nat.eqb (st_nservers s1) 0).
  { apply safe_bind.
    eapply safe_mono; [apply (tp_invoke _ IH k _ s1 RC RF); [apply (inv_core _ _ _ E1); auto|apply (own_core _ _ _ E1); auto
                                                            |apply (given_core _ _ _ E1); auto|apply tokinv_set_tape; exact T]|].
    intros [] s3 T3. apply safe_ret. exact T3. }
  destruct pr.
  - apply safe_bind. apply safe_ret. apply (G None l1).
  - apply safe_bind. apply safe_bind. apply safe_pop. intros e rest Et. destruct e; try apply safe_fail.
    destruct (zeqb rc ARES_ENOTFOUND); apply safe_ret.
    + apply (G None rest).
    + apply (G (Some {| r_status := rc; r_rec := if zeqb rc ARES_SUCCESS then Some (rcode, an, id) else None |}) rest).
Qed.

Lemma own_alloc_tok s k RC RF : Inv s -> TokInv s (ctoks k ++ RC) RF -> TokInv (alloc_st COpaque s) (ctoks k ++ RC) RF.
Proof. intros I T. apply (tok_alloc None); auto. exact Logic.I. Qed.

Lemma query_nolock_tstep f : Specs2 f -> forall k qd s RC RF, Inv s -> Own s (cobjs k) -> GivenOk s (kbot k) -> QdOk qd k ->
  TokInv s (ctoks k ++ RC) RF -> safe (query_nolock cf (S f) k qd) s (tpost RC RF).
Proof.
  intros IH k qd s RC RF I O Hn Hqd T. simpl.
  apply safe_bind. apply safe_alloc.
  destruct (alloc_opaque_ok None s I) as [I1 _].
  apply (tp_send_nolock _ IH (KWrap WQQuery (st_next s) k) false qd _ RC RF I1 (own_alloc s _ I O) (given_alloc s _ I Hn) Hqd).
  simpl. apply own_alloc_tok; auto.
Qed.

(* ---- search ---- *)
Lemma search_next_tstep f : Specs2 f -> forall o k l nd s RC RF, Inv s -> Own s (o :: cobjs k) -> GivenOk s (kbot k) ->
  TokInv s (ctoks k ++ RC) RF ->
  safe (search_next cf (S f) o k l nd) s
       (fun r s' => if snd r then TokInv s' RC RF else TokInv s' (ctoks k ++ RC) RF /\ zeqb (fst r) ARES_SUCCESS = false).
Proof.
  intros IH o k l nd s RC RF I O Hn T. simpl.
  destruct (own_cons _ _ _ O) as [Hc [Hr [Hni O']]].
  apply safe_bind. eapply safe_touch; [exact (inv_heap _ _ I)|exact Hc|].
  destruct l as [|cur l'].
  - apply safe_ret. simpl. split; [exact T|reflexivity].
  - apply safe_bind. apply safe_pop. intros e rest Et. destruct e; try apply safe_fail.
    set (s1 := set_tape rest s).
    assert (E1 : core_eq s s1) by apply core_eq_set_tape.
    assert (I1 : Inv s1) by (apply (inv_core _ _ _ E1); auto).
    assert (O1 : Own s1 (o :: cobjs k)) by (apply (own_core _ _ _ E1); auto).
    assert (Hn1 : GivenOk s1 (kbot k)) by (apply (given_core _ _ _ E1); auto).
    assert (T1 : TokInv s1 (ctoks k ++ RC) RF) by (apply tokinv_set_tape; exact T).
    destruct (negb (zeqb rc ARES_SUCCESS)) eqn:Erc.
    + apply safe_ret. simpl. split; [exact T1|]. apply negb_true_iff in Erc. exact Erc.
    + apply safe_bind.
      eapply safe_mono; [apply (tp_send_nolock _ IH (KSearch o k cur l' nd) false None s1 RC RF I1 O1 Hn1 Logic.I T1)|].
      intros st s2 T2. apply safe_ret. rewrite (fx_search_true cf Hfix). simpl. exact T2.
Qed.

Lemma search_callback_tstep f : Specs2 f -> forall o k cs l nd r s RC RF, Inv s -> Own s (o :: cobjs k) -> GivenOk s (kbot k) ->
  TokInv s (ctoks k ++ RC) RF -> safe (search_callback cf (S f) o k cs l nd r) s (tpost RC RF).
Proof.
  intros IH o k cs l nd r s RC RF I O Hn T. simpl.
  destruct (own_cons _ _ _ O) as [Hc [Hr [Hni O']]].
  apply safe_bind. eapply safe_touch; [exact (inv_heap _ _ I)|exact Hc|].
  match goal with |- context [if negb ?b then _ else _] => destruct (negb b) end.
  - apply (tp_end_squery _ IH); auto.
  - destruct l as [|c0 l'].
    + match goal with |- context [if ?b then _ else _] => destruct b end; apply (tp_end_squery _ IH); auto.
    + apply safe_bind.
      eapply safe_mono; [apply safe_both; [apply (sp_search_next _ _ (S1 f) o k (c0 :: l') _ s I O Hn)
                                          |apply (tp_search_next _ IH o k (c0 :: l') _ s RC RF I O Hn T)]|].
      intros [st skip] s1 [[I1 F1] T1]. simpl in F1, T1.
      destruct skip; simpl.
      * rewrite andb_false_r. apply safe_ret. exact T1.
      * destruct T1 as [T1 Est]. destruct F1 as [F1 [O1 [Hn1 _]]]. rewrite Est. simpl.
        apply (tp_end_squery _ IH); auto.
Qed.

Lemma search_int_tstep f : Specs2 f -> forall k names s RC RF, Inv s -> Own s (cobjs k) -> GivenOk s (kbot k) ->
  TokInv s (ctoks k ++ RC) RF -> safe (search_int cf (S f) k names) s (tpost RC RF).
Proof.
  intros IH k names s RC RF I O Hn T. simpl.
  apply safe_bind. apply safe_alloc.
  destruct (alloc_opaque_ok None s I) as [I1 [F1 _]].
  pose proof (own_alloc s _ I O) as O1. pose proof (given_alloc s _ I Hn) as Hn1.
  pose proof (own_alloc_tok s k RC RF I T) as T1.
  set (o := st_next s) in *. set (s1 := alloc_st COpaque s) in *.
  apply safe_bind.
  eapply safe_mono; [apply safe_both; [apply (sp_search_next _ _ (S1 f) o k names false s1 I1 O1 Hn1)
                                      |apply (tp_search_next _ IH o k names false s1 RC RF I1 O1 Hn1 T1)]|].
  intros [st skip] s2 [[I2 F2] T2]. simpl in F2, T2.
  destruct skip.
  - destruct (zeqb st ARES_SUCCESS).
    + apply safe_ret. exact T2.
    + apply safe_bind. apply safe_ret. apply safe_ret. exact T2.
  - destruct T2 as [T2 Est]. destruct F2 as [F2 [O2a [Hn2 _]]]. rewrite Est.
    destruct (own_cons _ _ _ O2a) as [Hc2 [Hr2 [Hni2 O2]]].
    apply safe_bind. apply safe_bind. eapply safe_touch; [exact (inv_heap _ _ I2)|exact Hc2|].
    apply safe_bind. eapply safe_free; [exact (inv_heap _ _ I2)|exact Hc2|].
    destruct (free_unrooted_ok None s2 o COpaque I2 Hc2 ltac:(discriminate) ltac:(discriminate) Hr2) as [I3 [F3 _]].
    assert (O3 : Own (free_st o s2) (cobjs k)).
    { apply (own_frame _ _ _ _ _ O2 F3). intros y Hy [<-|[]]. contradiction. }
    assert (Hn3 : GivenOk (free_st o s2) (kbot k)) by exact (given_frame _ _ _ _ Hn2 F3).
    assert (T3 : TokInv (free_st o s2) (ctoks k ++ RC) RF).
    { eapply (tok_free None); eauto; [exact Logic.I|]. eapply opaque_not_linked; eauto. }
    eapply safe_mono; [apply (tp_invoke _ IH k _ _ RC RF I3 O3 Hn3 T3)|].
    intros [] s4 T4. apply safe_ret. exact T4.
Qed.

Lemma addr_next_lookup_tstep f : Specs2 f -> forall o k l s RC RF, Inv s -> Own s (o :: cobjs k) -> GivenOk s (kbot k) ->
  TokInv s (ctoks k ++ RC) RF -> safe (addr_next_lookup cf (S f) o k l) s (tpost RC RF).
Proof.
  intros IH o k l s RC RF I O Hn T. simpl.
  destruct (own_cons _ _ _ O) as [Hc [Hr [Hni O']]].
  apply safe_bind. eapply safe_touch; [exact (inv_heap _ _ I)|exact Hc|].
  destruct l as [|[|] l'].
  - apply (tp_end_aquery _ IH); auto.
  - apply safe_bind.
    eapply safe_mono; [apply (tp_query_nolock _ IH (KAddr o k l') None s RC RF I O Hn Logic.I T)|].
    intros z s1 T1. apply safe_ret. exact T1.
  - apply (tp_addr_next_lookup _ IH); auto.
Qed.

Lemma addr_callback_tstep f : Specs2 f -> forall o k l r s RC RF, Inv s -> Own s (o :: cobjs k) -> GivenOk s (kbot k) ->
  TokInv s (ctoks k ++ RC) RF -> safe (addr_callback cf (S f) o k l r) s (tpost RC RF).
Proof.
  intros IH o k l r s RC RF I O Hn T. simpl.
  destruct (own_cons _ _ _ O) as [Hc [Hr [Hni O']]].
  apply safe_bind. eapply safe_touch; [exact (inv_heap _ _ I)|exact Hc|].
  destruct (zeqb (r_status r) ARES_SUCCESS).
  - apply safe_bind. apply safe_pop. intros e rest Et. destruct e; try apply safe_fail.
    set (s1 := set_tape rest s).
    assert (E1 : core_eq s s1) by apply core_eq_set_tape.
    apply (tp_end_aquery _ IH o k (res rc) s1 RC RF);
      [apply (inv_core _ _ _ E1); auto|apply (own_core _ _ _ E1); auto|apply (given_core _ _ _ E1); auto|apply tokinv_set_tape; exact T].
  - destruct (zeqb (r_status r) ARES_EDESTRUCTION || zeqb (r_status r) ARES_ECANCELLED).
    + apply (tp_end_aquery _ IH); auto.
    + apply (tp_addr_next_lookup _ IH); auto.
Qed.

(* ---- ares_getaddrinfo.c ---- *)
Lemma end_hquery_tstep f : Specs2 f -> forall o st s h RC RF, Inv s -> HOwn s o h -> TokInv s (ctoks (h_cb h) ++ RC) RF ->
  safe (end_hquery cf (S f) o st) s (tpost RC RF).
Proof.
  intros IH o st s h RC RF I HO T. pose proof (hown_opaque _ _ _ HO) as Hni. destruct HO as [Hc [Hz [Hnh O]]]. simpl.
  apply safe_bind. eapply safe_get_host; [exact (inv_heap _ _ I)|exact Hc|].
  pose proof (nohost_kbot _ Hnh) as Ek.
  assert (Hg : GivenOk s (kbot (h_cb h))) by (rewrite Ek; exact Logic.I).
  apply safe_bind.
  eapply safe_mono; [apply safe_both; [apply (sp_invoke _ _ (S1 f) (h_cb h) (res st) s I O Hg)
                                      |apply (tp_invoke _ IH (h_cb h) (res st) s RC RF I O Hg T)]|].
  intros [] s1 [[I1 F1] T1]. rewrite Ek in F1.
  destruct (fr_cell _ _ _ _ F1 _ _ Hc (host_unrooted _ _ _ _ I Hc) Hni Hz) as [Hc1 Hr1].
  eapply safe_free; [exact (inv_heap _ _ I1)|exact Hc1|].
  eapply (tok_free None); eauto. eapply host_not_linked; eauto.
Qed.

Lemma host_next_lookup_tstep f : Specs2 f -> forall o st s h RC RF, Inv s -> HOwn s o h -> TokInv s (ctoks (h_cb h) ++ RC) RF ->
  safe (host_next_lookup cf (S f) o st) s (tpost RC RF).
Proof.
  intros IH o st s h RC RF I HO T. pose proof HO as [Hc [Hz [Hnh O]]]. simpl.
  apply safe_bind. eapply safe_get_host; [exact (inv_heap _ _ I)|exact Hc|].
  assert (G : forall rest, safe (store o (CHost (h_set_lookups rest h));; host_next_lookup cf f o st) s (tpost RC RF)).
  { intros rest. apply safe_bind. eapply safe_store; [exact (inv_heap _ _ I)|exact Hc|].
    destruct (hown_store s o h (h_set_lookups rest h) I HO eq_refl Hz) as [I1 [F1 HO1]].
    apply (tp_host_next_lookup _ IH o st _ _ RC RF I1 HO1).
    apply (tokinv_host_excl None s o h); auto. }
  destruct (h_lookups h) as [|[|] rest].
  - apply (tp_end_hquery _ IH o st s h); auto.
  - destruct (negb (h_localhost h) && match h_names h with [] => false | _ :: _ => true end).
    + apply (tp_host_next_dns_lookup _ IH o s h); auto.
    + apply G.
  - destruct (h_localhost h).
    + apply (tp_end_hquery _ IH o ARES_SUCCESS s h); auto.
    + apply G.
Qed.

Lemma host_next_dns_lookup_tstep f : Specs2 f -> forall o s h RC RF, Inv s -> HOwn s o h -> TokInv s (ctoks (h_cb h) ++ RC) RF ->
  safe (host_next_dns_lookup cf (S f) o) s (tpost RC RF).
Proof.
  intros IH o s h RC RF I HO T. pose proof HO as [Hc [Hz [Hnh O]]]. simpl.
  apply safe_bind. eapply safe_get_host; [exact (inv_heap _ _ I)|exact Hc|].
  set (n := if Nat.eqb (h_family h) 0 then 2 else 1).
  set (h1 := h_set_remaining (h_remaining h + n) (h_set_names (tl (h_names h)) (hd false (h_names h)) h)).
  assert (Er1 : h_remaining h1 = n) by (unfold h1; simpl; rewrite Hz; reflexivity).
  assert (Hn : n = 1 \/ n = 2) by (unfold n; destruct (Nat.eqb (h_family h) 0); auto).
  apply safe_bind. eapply safe_store; [exact (inv_heap _ _ I)|exact Hc|].
  destruct (store_host_share_ok None s o h h1 I Hc Hz O Hnh eq_refl ltac:(lia)) as [I1 [F1 [Hs1 [Hz1 _]]]].
  assert (T1 : TokInv (store_st o (CHost h1) s) RC RF).
  { apply (tokinv_host_share None s o h h1); auto. lia. }
  set (s1 := store_st o (CHost h1) s) in *.
  assert (Hg1 : GivenOk s1 (Some o)) by (exists h1; split; auto; lia).
  apply safe_bind.
  eapply safe_mono; [apply safe_both; [apply (sp_query_nolock _ _ (S1 f) (KHost o) (Some (o, Nat.eqb (h_family h) 6)) s1 I1 (own_nil _) Hg1 eq_refl)
                                      |apply (tp_query_nolock _ IH (KHost o) (Some (o, Nat.eqb (h_family h) 6)) s1 RC RF I1 (own_nil _) Hg1 eq_refl T1)]|].
  intros z s2 [[I2 F2] T2]. simpl in F2.
  fold n. destruct (Nat.eqb n 2) eqn:En.
  - apply Nat.eqb_eq in En.
    pose proof (dns_second_given s1 s2 o h1 Hs1 Hz1 ltac:(lia) F2) as Hg2.
    apply safe_bind.
    eapply safe_mono; [apply (tp_query_nolock _ IH (KHost o) (Some (o, true)) s2 RC RF I2 (own_nil _) Hg2 eq_refl T2)|].
    intros z3 s3 T3. apply safe_ret. exact T3.
  - apply safe_ret. exact T2.
Qed.

Lemma host_callback_tstep f : Specs2 f -> forall o r s RC RF, Inv s -> GivenOk s (Some o) -> TokInv s RC RF ->
  safe (host_callback cf (S f) o r) s (tpost RC RF).
Proof.
  intros IH o r s RC RF I [h [Hs Hlt]] T. destruct (shared_host _ _ _ Hs) as [Hc Hp]. simpl.
  apply safe_bind. eapply safe_get_host; [exact (inv_heap _ _ I)|exact Hc|].
  apply safe_bind. eapply safe_store; [exact (inv_heap _ _ I)|exact Hc|].
  set (h1 := h_set_remaining (Init.Nat.pred (h_remaining h)) h).
  set (s1 := store_st o (CHost h1) s).
  assert (Ecb1 : h_cb h1 = h_cb h) by reflexivity.
  assert (Er1 : h_remaining h1 = Init.Nat.pred (h_remaining h)) by reflexivity.
  assert (TPB : forall (Q : Z * bool * bool -> state -> Prop), (forall v l, Q v (set_tape l s1)) ->
            safe (if zeqb (r_status r) ARES_SUCCESS
                  then let! e := pop in
                       match e with
                       | TP rc nodes v4 v6 =>
                           if zeqb rc ARES_SUCCESS && negb (h_family h =? 0)
                           then ret (if if h_family h =? 4 then v4 else v6 then ARES_SUCCESS else ARES_ENODATA,
                                     if h_family h =? 4 then v4 else v6, if h_family h =? 4 then v4 else false)
                           else ret (rc, nodes, v4)
                       | _ => fail EDESYNC end
                  else ret (ARES_SUCCESS, h_nodes h, h_v4 h)) s1 Q).
  { intros Q HQ. destruct (zeqb (r_status r) ARES_SUCCESS).
    - apply safe_bind. apply safe_pop. intros e rest Et. destruct e; try apply safe_fail.
      destruct (zeqb rc ARES_SUCCESS && negb (h_family h =? 0)); apply safe_ret; apply HQ.
    - apply safe_ret. replace s1 with (set_tape (st_tape s1) s1) by (destruct s1; reflexivity). apply HQ. }
  apply safe_bind. apply TPB. intros [[ais nodes] v4] l2. set (s2 := set_tape l2 s1).
  assert (E2 : core_eq s1 s2) by apply core_eq_set_tape.
  destruct (Init.Nat.pred (h_remaining h) =? 0) eqn:Erem.
  - apply Nat.eqb_eq in Erem.
    assert (Hr1 : h_remaining h = 1) by lia.
    assert (Hz0 : nrefs s o = 0) by lia.
    assert (Hz1 : h_remaining h1 = 0) by (rewrite Er1; exact Erem).
    destruct (store_host_unshare_ok None s o h h1 I Hs Hz0 Ecb1 Hz1) as [I1 [Hc1 [O1 [Hnh _]]]]. fold s1 in I1, Hc1, O1.
    assert (T1 : TokInv s1 (ctoks (h_cb h) ++ RC) RF) by (apply (tokinv_host_unshare None s o h h1); auto).
    assert (HO1 : HOwn s1 o h1) by (split; [exact Hc1|split; [exact Hz1|split; [rewrite Ecb1; exact Hnh|rewrite Ecb1; exact O1]]]).
    assert (I2 : Inv s2) by (apply (ce_inv _ _ _ E2); auto).
    assert (T2 : TokInv s2 (ctoks (h_cb h) ++ RC) RF) by (apply tokinv_set_tape; exact T1).
    pose proof (hown_core _ _ _ _ E2 HO1) as HO2. pose proof HO2 as [Hc2 _].
    remember (h_nomem h1 || zeqb (r_status r) ARES_ENOMEM || zeqb ais ARES_ENOMEM) as nm eqn:Enm.
    apply safe_bind. eapply safe_get_host; [exact (inv_heap _ _ I2)|exact Hc2|]. rewrite <- Enm.
    match goal with |- context [h_set_ai nodes v4 nm ?x h1] => remember x as nd eqn:End; clear End end.
    apply safe_bind. eapply safe_store; [exact (inv_heap _ _ I2)|exact Hc2|].
    destruct (hown_store s2 o h1 (h_set_ai nodes v4 nm nd h1) I2 HO2 eq_refl Hz1) as [I3 [F3 HO3]].
    assert (T3 : TokInv (store_st o (CHost (h_set_ai nodes v4 nm nd h1)) s2) (ctoks (h_cb h) ++ RC) RF).
    { apply (tokinv_host_excl None s2 o h1); auto. }
    set (h3 := h_set_ai nodes v4 nm nd h1) in *. set (s3 := store_st o (CHost h3) s2) in *.
    simpl negb. rewrite andb_false_r. apply safe_bind. apply safe_ret.
    assert (FinE : forall stx, safe (end_hquery cf f o stx) s3 (tpost RC RF)).
    { intros stx. apply (tp_end_hquery _ IH o stx s3 h3 RC RF I3 HO3). exact T3. }
    pose proof HO3 as [Hc3 [Hz3 _]].
    destruct (zeqb (r_status r) ARES_EDESTRUCTION || zeqb (r_status r) ARES_ECANCELLED); [apply FinE|].
    destruct nm; [apply FinE|].
    destruct (negb (zeqb ais ARES_SUCCESS) && negb (zeqb ais ARES_ENODATA)).
    { destruct (zeqb ais ARES_EBADRESP && nodes); apply FinE. }
    destruct nodes; [apply FinE|].
    destruct (zeqb (r_status r) ARES_ENOTFOUND || zeqb (r_status r) ARES_ENODATA || zeqb ais ARES_ENODATA).
    { apply safe_bind. eapply safe_get_host; [exact (inv_heap _ _ I3)|exact Hc3|].
      apply safe_bind. eapply safe_store; [exact (inv_heap _ _ I3)|exact Hc3|].
      match goal with |- context [store_st o (CHost ?hx) s3] =>
        destruct (hown_store s3 o h3 hx I3 HO3 eq_refl Hz3) as [I4 [F4 HO4]];
        assert (T4 : TokInv (store_st o (CHost hx) s3) (ctoks (h_cb h) ++ RC) RF) by (apply (tokinv_host_excl None s3 o h3); auto)
      end.
      eapply (tp_host_next_lookup _ IH); eauto. }
    match goal with |- safe (if ?b then _ else _) _ _ => destruct b end.
    { apply safe_bind. eapply safe_get_host; [exact (inv_heap _ _ I3)|exact Hc3|].
      eapply (tp_host_next_lookup _ IH); eauto. }
    apply FinE.
  - apply Nat.eqb_neq in Erem.
    assert (Hp1 : 0 < h_remaining h1) by (rewrite Er1; lia).
    destruct (store_host_shared_ok None s o h h1 (dg (Some o)) I Hs Ecb1 Hp1) as [I1 [F1 [Hs1 _]]].
    { rewrite Er1. simpl. rewrite Nat.eqb_refl. lia. }
    { intros o' Hne. simpl. apply Nat.eqb_neq in Hne. rewrite Hne. reflexivity. }
    { simpl. rewrite Nat.eqb_refl. lia. }
    fold s1 in I1, F1, Hs1.
    assert (T1 : TokInv s1 RC RF) by (apply (tokinv_host_shared None s o h h1); auto).
    assert (I2 : Inv s2) by (apply (ce_inv _ _ _ E2); auto).
    assert (T2 : TokInv s2 RC RF) by (apply tokinv_set_tape; exact T1).
    assert (Hs2 : shared_at s2 o = Some h1) by (rewrite (ce_shared _ _ _ E2); exact Hs1).
    destruct (shared_host _ _ _ Hs2) as [Hc2 _].
    remember (h_nomem h1 || zeqb (r_status r) ARES_ENOMEM || zeqb ais ARES_ENOMEM) as nm eqn:Enm.
    apply safe_bind. eapply safe_get_host; [exact (inv_heap _ _ I2)|exact Hc2|]. rewrite <- Enm.
    match goal with |- context [h_set_ai nodes v4 nm ?x h1] => remember x as nd eqn:End; clear End end.
    apply safe_bind. eapply safe_store; [exact (inv_heap _ _ I2)|exact Hc2|].
    destruct (store_host_shared_ok None s2 o h1 (h_set_ai nodes v4 nm nd h1) (dg None) I2 Hs2 eq_refl Hp1) as [I3 [F3 _]].
    { simpl. lia. } { intros; reflexivity. }
    { simpl. pose proof (hi_cnt _ (inv_hosts _ _ I2) _ _ Hs2). lia. }
    assert (T3 : TokInv (store_st o (CHost (h_set_ai nodes v4 nm nd h1)) s2) RC RF).
    { apply (tokinv_host_shared None s2 o h1); auto. }
    set (s3 := store_st o (CHost (h_set_ai nodes v4 nm nd h1)) s2) in *.
    simpl negb.
    apply safe_bind.
    + match goal with |- context [if ?b then _ else ret tt] => destruct b end.
      * apply safe_bind. apply safe_get.
        match goal with |- context [lookup ?t (st_byqid s3)] => destruct (lookup t (st_byqid s3)) as [qo|] eqn:Lk end.
        -- destruct (inv_byqid _ _ I3 _ _ Lk) as [Hl _]. destruct (inv_query _ _ I3 _ Hl) as [q Hq].
           apply safe_bind. eapply safe_get_query; [exact (inv_heap _ _ I3)|exact Hq|].
           eapply safe_store; [exact (inv_heap _ _ I3)|exact Hq|].
           apply safe_ret. apply (tok_store_query None s3 qo q); auto.
        -- apply safe_ret. apply safe_ret. exact T3.
      * apply safe_ret. apply safe_ret. exact T3.
Qed.

(* ---- entry points ---- *)
Lemma api_tstep f : Specs2 f -> forall c s RC RF, Inv s -> TokInv s RC (call_toks c ++ RF) ->
  safe (api cf (S f) c) s (tpost RC RF).
Proof.
  intros IH c s RC RF I T.
  assert (Em : forall t (m : M unit), call_toks c = [t] ->
            (forall s1, core_eq s s1 -> st_scripts s1 = st_scripts s -> TokInv s1 (t :: RC) RF -> safe m s1 (tpost RC RF)) ->
            safe (emit (EvReq t) ;; m) s (tpost RC RF)).
  { intros t m Ect Hm. apply safe_bind. apply safe_emit. rewrite Ect in T. simpl in T.
    apply Hm; [apply core_eq_set_trace|reflexivity|apply tokinv_emit_req; exact T]. }
  destruct c; simpl.
  - (* ASync *)
    apply (Em t); [reflexivity|]. intros s1 E1 Es1 T1.
    apply (tp_invoke _ IH (KUser t) (res st) s1 RC RF); [apply (inv_core _ _ _ E1); auto|apply own_nil|exact Logic.I|exact T1].
  - (* ASend *)
    apply (Em t); [reflexivity|]. intros s1 E1 Es1 T1. apply safe_bind.
    eapply safe_mono; [apply (tp_send_nolock _ IH (KUser t) false None s1 RC RF); [apply (inv_core _ _ _ E1); auto|apply own_nil|exact Logic.I|exact Logic.I|exact T1]|].
    intros z s2 T2. apply safe_ret. exact T2.
  - (* ASendRaw *)
    apply (Em t); [reflexivity|]. intros s1 E1 Es1 T1.
    assert (I1 : Inv s1) by (apply (inv_core _ _ _ E1); auto).
    apply safe_bind. apply safe_alloc.
    destruct (alloc_opaque_ok None s1 I1) as [I2 _].
    apply safe_bind.
    eapply safe_mono; [apply (tp_send_nolock _ IH (KWrap WConv (st_next s1) (KUser t)) false None _ RC RF I2 (own_alloc s1 [] I1 (own_nil _)) Logic.I Logic.I)|].
    + simpl. apply (tok_alloc None); auto. exact Logic.I.
    + intros z s3 T3. apply safe_ret. exact T3.
  - (* AQuery *)
    apply (Em t); [reflexivity|]. intros s1 E1 Es1 T1. apply safe_bind.
    eapply safe_mono; [apply (tp_query_nolock _ IH (KUser t) None s1 RC RF); [apply (inv_core _ _ _ E1); auto|apply own_nil|exact Logic.I|exact Logic.I|exact T1]|].
    intros z s2 T2. apply safe_ret. exact T2.
  - (* AOQuery *)
    apply (Em t); [reflexivity|]. intros s1 E1 Es1 T1.
    assert (I1 : Inv s1) by (apply (inv_core _ _ _ E1); auto).
    apply safe_bind. apply safe_alloc.
    destruct (alloc_opaque_ok None s1 I1) as [I2 _].
    pose proof (own_alloc s1 [] I1 (own_nil _)) as O2.
    assert (T2 : TokInv (alloc_st COpaque s1) (ctoks (KWrap WConv (st_next s1) (KUser t)) ++ RC) RF).
    { simpl. apply (tok_alloc None); auto. exact Logic.I. }
    destruct (zeqb create_rc ARES_SUCCESS).
    + apply safe_bind.
      eapply safe_mono; [apply (tp_query_nolock _ IH (KWrap WConv (st_next s1) (KUser t)) None _ RC RF I2 O2 Logic.I Logic.I T2)|].
      intros z s3 T3. apply safe_ret. exact T3.
    + apply (tp_invoke _ IH (KWrap WConv (st_next s1) (KUser t)) (res create_rc) _ RC RF I2 O2 Logic.I T2).
  - (* ASearch *)
    apply (Em t); [reflexivity|]. intros s1 E1 Es1 T1. apply safe_bind.
    eapply safe_mono; [apply (tp_search_int _ IH (KUser t) names s1 RC RF); [apply (inv_core _ _ _ E1); auto|apply own_nil|exact Logic.I|exact T1]|].
    intros z s2 T2. apply safe_ret. exact T2.
  - (* AOSearch *)
    apply (Em t); [reflexivity|]. intros s1 E1 Es1 T1.
    assert (I1 : Inv s1) by (apply (inv_core _ _ _ E1); auto).
    apply safe_bind. apply safe_alloc.
    destruct (alloc_opaque_ok None s1 I1) as [I2 _].
    apply safe_bind.
    eapply safe_mono; [apply (tp_search_int _ IH (KWrap WConv (st_next s1) (KUser t)) names _ RC RF I2 (own_alloc s1 [] I1 (own_nil _)) Logic.I)|].
    + simpl. apply (tok_alloc None); auto. exact Logic.I.
    + intros z s3 T3. apply safe_ret. exact T3.
  - (* AGhba *)
    apply (Em t); [reflexivity|]. intros s1 E1 Es1 T1.
    assert (I1 : Inv s1) by (apply (inv_core _ _ _ E1); auto).
    apply safe_bind. apply safe_alloc.
    destruct (alloc_opaque_ok None s1 I1) as [I2 _].
    apply (tp_addr_next_lookup _ IH (st_next s1) (KUser t) lookups _ RC RF I2 (own_alloc s1 [] I1 (own_nil _)) Logic.I).
    simpl. apply (tok_alloc None); auto. exact Logic.I.
  - (* AGni *)
    apply (Em t); [reflexivity|]. intros s1 E1 Es1 T1.
    assert (I1 : Inv s1) by (apply (inv_core _ _ _ E1); auto).
    apply safe_bind. apply safe_alloc.
    destruct (alloc_opaque_ok None s1 I1) as [I2 _].
    pose proof (own_alloc s1 [] I1 (own_nil _)) as O2.
    set (w := st_next s1) in *. set (s2 := alloc_st COpaque s1) in *.
    apply safe_bind. apply safe_alloc.
    destruct (alloc_opaque_ok None s2 I2) as [I3 _].
    pose proof (own_alloc s2 [w] I2 O2) as O3.
    apply (tp_addr_next_lookup _ IH (st_next s2) (KWrap (WNameinfo namereqd) w (KUser t)) lookups _ RC RF I3 O3 Logic.I).
    simpl. apply (tok_alloc None); auto; [exact Logic.I|]. apply (tok_alloc None); auto. exact Logic.I.
  - (* AGai *)
    apply (Em t); [reflexivity|]. intros s1 E1 Es1 T1.
    assert (I1 : Inv s1) by (apply (inv_core _ _ _ E1); auto).
    apply safe_bind. apply safe_alloc.
    set (h0 := mk_host (KUser t) names family lookups localhost).
    destruct (alloc_host_ok None s1 h0 I1 eq_refl) as [I2 [Hc2 _]].
    assert (HO2 : HOwn (alloc_st (CHost h0) s1) (st_next s1) h0).
    { split; [exact Hc2|]. split; [reflexivity|]. split; [exact Logic.I|apply own_nil]. }
    apply (tp_host_next_lookup _ IH (st_next s1) ARES_ECONNREFUSED _ h0 RC RF I2 HO2).
    simpl. apply (tok_alloc None); auto. reflexivity.
  - (* AGhbn *)
    apply (Em t); [reflexivity|]. intros s1 E1 Es1 T1.
    assert (I1 : Inv s1) by (apply (inv_core _ _ _ E1); auto).
    apply safe_bind. apply safe_alloc.
    destruct (alloc_opaque_ok None s1 I1) as [I2 _].
    pose proof (own_alloc s1 [] I1 (own_nil _)) as O2.
    set (w := st_next s1) in *. set (s2 := alloc_st COpaque s1) in *.
    apply safe_bind. apply safe_alloc.
    set (h0 := mk_host (KWrap WGhbn w (KUser t)) names family lookups localhost).
    destruct (alloc_host_ok None s2 h0 I2 eq_refl) as [I3 [Hc3 [Hsame3 [_ [Hrt3 _]]]]].
    assert (HO3 : HOwn (alloc_st (CHost h0) s2) (st_next s2) h0).
    { split; [exact Hc3|]. split; [reflexivity|]. split; [exact Logic.I|].
      apply (own_same s2); auto. intros y [<-|[]]. apply Hsame3.
      destruct (own_cons _ _ _ O2) as [Hcw _]. pose proof (live_lt _ _ _ (inv_heap _ _ I2) Hcw). lia. }
    apply (tp_host_next_lookup _ IH (st_next s2) ARES_ECONNREFUSED _ h0 RC RF I3 HO3).
    simpl. apply (tok_alloc None); auto; [reflexivity|]. apply (tok_alloc None); auto. exact Logic.I.
  - (* ACancel *)
    apply (tp_cancel _ IH); auto.
  - (* ASetServers *)
    apply safe_bind. apply safe_emit.
    assert (E1 : core_eq s (set_trace (EvSetServers :: st_trace s) s)) by apply core_eq_set_trace.
    apply (tp_set_servers _ IH); [apply (inv_core _ _ _ E1); auto|].
    apply tokinv_emit_other; try (intros; discriminate); try discriminate. exact T.
  - (* ANop *)
    apply safe_ret. exact T.
Qed.

Lemma specs2_S f : Specs2 f -> Specs2 (S f).
Proof.
  intros IH. constructor.
  - apply invoke_tstep; auto.
  - apply run_script_tstep; auto.
  - apply api_tstep; auto.
  - apply query_nolock_tstep; auto.
  - apply send_nolock_tstep; auto.
  - apply send_query_tstep; auto.
  - apply send_query_write_tstep; auto.
  - apply requeue_query_tstep; auto.
  - apply end_query_tstep; auto.
  - apply complete_query_tstep; auto.
  - apply handle_conn_error_tstep; auto.
  - apply close_connection_tstep; auto.
  - apply requeue_conn_queries_tstep; auto.
  - apply check_cleanup_tstep; auto.
  - apply cleanup_loop_tstep; auto.
  - apply set_servers_tstep; auto.
  - apply set_servers_loop_tstep; auto.
  - apply cancel_tstep; auto.
  - apply cancel_loop_tstep; auto.
  - apply search_int_tstep; auto.
  - apply search_next_tstep; auto.
  - apply search_callback_tstep; auto.
  - apply end_squery_tstep; auto.
  - apply addr_next_lookup_tstep; auto.
  - apply addr_callback_tstep; auto.
  - apply end_aquery_tstep; auto.
  - apply host_next_lookup_tstep; auto.
  - apply host_next_dns_lookup_tstep; auto.
  - apply host_callback_tstep; auto.
  - apply end_hquery_tstep; auto.
Qed.

Theorem all_specs2 : forall f, Specs2 f.
Proof. induction f; [apply specs2_O|apply specs2_S; auto]. Qed.

End FixedT.

(* ---------------------------------------------------------------------------------- *)
(* read path, ares_process_fds, ares_destroy with tokens                               *)
(* ---------------------------------------------------------------------------------- *)
Section FixedT2.
Variable cf : config.
Hypothesis Hfix : cf_fix cf = all_fixed.
Let S1 := all_specs cf Hfix.
Let S2 := all_specs2 cf Hfix.

Definition IT (RC RF : list tok) (s : state) : Prop := Inv s /\ TokInv s RC RF.

Lemma process_answer_tok f co qid a rq s RC RF : Inv s -> reading s co -> TokInv s RC RF ->
  safe (process_answer cf f co qid a rq) s (fun _ s' => TokInv s' RC RF).
Proof.
  intros I R T. pose proof (S1 f) as IH. pose proof (S2 f) as IH2. unfold process_answer.
  apply safe_bind. apply safe_get.
  destruct (lookup qid (st_byqid s)) as [qo|] eqn:Lk; [|apply safe_fail].
  destruct (inv_byqid _ _ I _ _ Lk) as [Hl _].
  destruct (inv_query _ _ I _ Hl) as [q Hq].
  apply safe_bind. eapply safe_get_query; [exact (inv_heap _ _ I)|exact Hq|].
  destruct R as [c [Hc Hrd]].
  apply safe_bind. eapply safe_get_conn; [exact (inv_heap _ _ I)|exact Hc|].
  destruct (negb _); [apply safe_fail|].
  destruct (find_tmr (st_tape s)) as [[vrc requeued]|]; [|apply safe_fail].
  destruct (requeued && zeqb vrc ARES_SUCCESS) eqn:Erq; [apply safe_fail|].
  assert (G : forall rq1 s1, Inv s1 -> reading s1 co -> (requeued = false -> In qo (linked s1)) -> TokInv s1 RC RF ->
            safe (let! e := pop in
                  match e with
                  | TMR _ _ =>
                      if negb (zeqb vrc ARES_SUCCESS) then ret rq1
                      else let! c0 := get_conn co in
                           store co (CConn (set_c_queries (remove_nat qo (c_queries c0)) c0));;
                           match classify cf a (c_tcp c0) with
                           | DEdns => remove_from_conn qo;; ret (rq1 ++ [qid])
                           | DTrunc => let! q0 := get_query qo in
                                       store qo (CQuery (set_q_tcp true q0));;
                                       remove_from_conn qo;; ret (rq1 ++ [qid])
                           | DServFail st =>
                               expect_TS;;
                               (let! rst := requeue_query cf f qo st true true
                                              {| r_status := st; r_rec := Some (a_rcode a, a_ancount a, qid) |} in
                                if zeqb rst ARES_SUCCESS then ret (rq1 ++ [qid]) else ret rq1)
                           | DFinal =>
                               expect_TG;;
                               end_query cf f qo ARES_SUCCESS
                                 {| r_status := ARES_SUCCESS; r_rec := Some (a_rcode a, a_ancount a, qid) |};;
                               ret rq1
                           end
                  | _ => fail EDESYNC end) s1 (fun _ s' => TokInv s' RC RF)).
  { intros rq1 s1 I1 R1 Hl1 T1.
    apply safe_bind. apply safe_pop. intros e rest Et. destruct e; try apply safe_fail.
    set (s2 := set_tape rest s1).
    assert (E2 : core_eq s1 s2) by apply core_eq_set_tape.
    assert (I2 : Inv s2) by (apply (inv_core _ _ _ E2); auto).
    assert (R2 : reading s2 co) by (apply (reading_core _ _ _ R1 E2)).
    assert (T2 : TokInv s2 RC RF) by (apply tokinv_set_tape; exact T1).
    destruct (negb (zeqb vrc ARES_SUCCESS)) eqn:Ev.
    - apply safe_ret. exact T2.
    - assert (Hrq : requeued = false).
      { destruct requeued; auto. apply negb_false_iff in Ev. rewrite Ev in Erq. discriminate. }
      assert (Hl2 : In qo (linked s2)) by (rewrite (ce_linked _ _ E2); auto).
      destruct R2 as [c2 [Hc2 Hrd2]].
      apply safe_bind. eapply safe_get_conn; [exact (inv_heap _ _ I2)|exact Hc2|].
      apply safe_bind. eapply safe_store; [exact (inv_heap _ _ I2)|exact Hc2|].
      destruct (conn_drop_query_ok s2 co c2 qo I2 Hc2) as [I3 [Ell3 [Hc3 Hsame3]]].
      set (c3 := set_c_queries (remove_nat qo (c_queries c2)) c2) in *.
      assert (T3 : TokInv (store_st co (CConn c3) s2) RC RF).
      { eapply (tok_store_unlinked None); eauto; try exact Logic.I. eapply conn_not_linked; eauto. }
      set (s3 := store_st co (CConn c3) s2) in *.
      assert (Hl3 : In qo (linked s3)) by (rewrite Ell3; exact Hl2).
      destruct (inv_query _ _ I3 _ Hl3) as [q3 Hq3].
      destruct (classify cf a (c_tcp c2)).
      + destruct (remove_from_conn_ok _ _ _ _ I3 (or_intror eq_refl) Hl3 Hq3) as [s4 [E4 _]].
        pose proof (tokinv_remove_from_conn _ _ _ _ RC RF I3 (or_intror eq_refl) Hl3 Hq3 s4 E4 T3) as T4.
        apply safe_bind. eapply safe_of_run; [exact E4|]. apply safe_ret. exact T4.
      + apply safe_bind. eapply safe_get_query; [exact (inv_heap _ _ I3)|exact Hq3|].
        apply safe_bind. eapply safe_store; [exact (inv_heap _ _ I3)|exact Hq3|].
        destruct (store_query_misc_ok (Some qo) s3 qo q3 (set_q_tcp true q3) I3 Hq3 eq_refl eq_refl eq_refl)
          as [I4 [F4 [_ [Ell4 [_ Hq4]]]]].
        pose proof (tok_store_query (Some qo) s3 qo q3 (set_q_tcp true q3) RC RF I3 Hq3 eq_refl T3) as T4.
        set (s4 := store_st qo (CQuery (set_q_tcp true q3)) s3) in *.
        assert (Hl4 : In qo (linked s4)) by (rewrite Ell4; exact Hl3).
        destruct (remove_from_conn_ok _ _ _ _ I4 (or_intror eq_refl) Hl4 Hq4) as [s5 [E5 _]].
        pose proof (tokinv_remove_from_conn _ _ _ _ RC RF I4 (or_intror eq_refl) Hl4 Hq4 s5 E5 T4) as T5.
        apply safe_bind. eapply safe_of_run; [exact E5|]. apply safe_ret. exact T5.
      + apply safe_bind. apply safe_expect'; [left; reflexivity|]. intros l4.
        assert (E4 : core_eq s3 (set_tape l4 s3)) by apply core_eq_set_tape.
        apply safe_bind.
        eapply safe_mono; [apply (tp_requeue_query _ _ IH2 qo st true true _ (set_tape l4 s3) RC RF);
                           [apply (inv_core _ _ _ E4); auto|exact Hl3|apply tokinv_set_tape; exact T3]|].
        intros rst s5 T5. destruct (zeqb rst ARES_SUCCESS); apply safe_ret; exact T5.
      + apply safe_bind. apply safe_expect'; [right; left; reflexivity|]. intros l4.
        assert (E4 : core_eq s3 (set_tape l4 s3)) by apply core_eq_set_tape.
        apply safe_bind.
        eapply safe_mono; [apply (tp_end_query _ _ IH2 qo ARES_SUCCESS _ (set_tape l4 s3) RC RF);
                           [apply (inv_core _ _ _ E4); auto|exact Hl3|apply tokinv_set_tape; exact T3]|].
        intros [] s5 T5. apply safe_ret. exact T5. }
  destruct requeued.
  - apply safe_bind. apply safe_bind.
    eapply safe_mono; [apply safe_both; [apply (sp_requeue_query _ _ IH qo ARES_SUCCESS false true _ s (inv_weaken _ _ I) Hl)
                                        |apply (tp_requeue_query _ _ IH2 qo ARES_SUCCESS false true _ s RC RF (inv_weaken _ _ I) Hl T)]|].
    intros st s1 [[I1 F1] T1].
    assert (R1 : reading s1 co) by (apply (reading_frame s s1 [] co); [exists c; auto|exact F1]).
    destruct (zeqb st ARES_SUCCESS); apply safe_ret; [apply (G (rq ++ [qid]))|apply (G rq)]; auto; discriminate.
  - apply safe_bind. apply safe_ret. apply (G rq); auto. exists c; auto.
Qed.

Lemma read_loop_tok f n co rq s RC RF : Inv2 s -> reading s co -> TokInv s RC RF ->
  safe (read_loop cf f n co rq) s (fun _ s' => TokInv s' RC RF).
Proof.
  pose proof (S1 f) as IH. pose proof (S2 f) as IH2.
  revert co rq s. induction n as [|n IHn]; intros co rq s [I St] R T; simpl; [apply safe_fail|].
  destruct R as [c [Hc Hrd]].
  apply safe_bind. eapply safe_get_conn; [exact (inv_heap _ _ I)|exact Hc|].
  apply safe_bind. apply safe_peek. apply safe_bind. apply safe_peek2.
  rewrite (fx_connread_true cf Hfix).
  assert (Leave : safe (store co (CConn (set_c_reading false c));; ret rq) s (fun _ s' => TokInv s' RC RF)).
  { apply safe_bind. eapply safe_store; [exact (inv_heap _ _ I)|exact Hc|].
    apply safe_ret. eapply (tok_store_unlinked None); eauto; try exact Logic.I. eapply conn_not_linked; eauto. }
  destruct (hd_error (st_tape s)) as [e|]; [|exact Leave].
  destruct e; try exact Leave.
  - destruct (negb (Nat.eqb sock (c_sock c))); [exact Leave|].
    apply safe_bind. apply safe_pop. intros e rest Et.
    set (s1 := set_tape rest s).
    assert (E1 : core_eq s s1) by apply core_eq_set_tape.
    assert (I1 : Inv s1) by (apply (inv_core _ _ _ E1); auto).
    assert (St1 : Stable s1) by (apply (stable_core _ _ E1); auto).
    assert (R1 : reading s1 co) by (apply (reading_core s s1 co); [exists c; auto|exact E1]).
    assert (T1 : TokInv s1 RC RF) by (apply tokinv_set_tape; exact T).
    apply safe_bind.
    eapply safe_mono; [apply safe_both; [apply (process_answer_ok cf Hfix f co qid a rq s1 (conj I1 St1) R1)
                                        |apply (process_answer_tok f co qid a rq s1 RC RF I1 R1 T1)]|].
    intros rq' s2 [[[I2 St2] [c2 [Hc2 Hrd2]]] T2].
    apply safe_bind. eapply safe_get_conn; [exact (inv_heap _ _ I2)|exact Hc2|].
    destruct (c_closed c2) eqn:Ecl.
    + apply safe_bind. eapply safe_free; [exact (inv_heap _ _ I2)|exact Hc2|].
      apply safe_ret. eapply (tok_free None); eauto; [exact Logic.I|]. eapply conn_not_linked; eauto.
    + apply IHn; auto. { split; auto. } exists c2; auto.
  - destruct (hd_error (tl (st_tape s))) as [e2|]; [|exact Leave].
    destruct e2; try exact Leave.
    destruct (negb (Nat.eqb sock (c_sock c))); [exact Leave|].
    apply safe_bind. eapply safe_store; [exact (inv_heap _ _ I)|exact Hc|].
    destruct (store_conn_flags_ok None s co c (set_c_reading false c) I Hc eq_refl eq_refl) as [I1 [_ [_ [_ Hc1]]]].
    { simpl. intros H. exact (inv_closed _ _ I _ _ Hc H). }
    { simpl. intros H. destruct (inv_conns _ _ I) as [_ Hcc]. destruct (Hcc _ H) as [c0 [Hc0 Hcl]].
      rewrite Hc in Hc0. inversion Hc0; subst. exact Hcl. }
    assert (T1 : TokInv (store_st co (CConn (set_c_reading false c)) s) RC RF).
    { eapply (tok_store_unlinked None); eauto; try exact Logic.I. eapply conn_not_linked; eauto. }
    apply safe_bind.
    eapply safe_mono; [apply (tp_handle_conn_error _ _ IH2 co true st _ _ RC RF I1 Hc1 T1)|].
    intros [] s2 T2. apply safe_ret. exact T2.
Qed.

Lemma flush_requeue_tok f rq s RC RF : Inv2 s -> TokInv s RC RF ->
  safe (flush_requeue cf f rq) s (fun _ s' => Inv2 s' /\ TokInv s' RC RF).
Proof.
  pose proof (S1 f) as IH. pose proof (S2 f) as IH2.
  revert s. induction rq as [|qid rest IHr]; intros s [I St] T; simpl; [apply safe_ret; split; [split|]; auto|].
  apply safe_bind. apply safe_get. apply safe_bind.
  destruct (lookup qid (st_byqid s)) as [qo|] eqn:Lk.
  - destruct (inv_byqid _ _ I _ _ Lk) as [Hl _].
    apply safe_bind.
    eapply safe_mono; [apply safe_both; [apply (sp_send_query _ _ IH qo s I Hl)|apply (tp_send_query _ _ IH2 qo s RC RF I Hl T)]|].
    intros z s1 [[I1 F1] T1]. apply safe_ret. apply IHr; auto. split; [exact I1|exact (stable_frame _ _ _ St F1)].
  - apply safe_ret. apply IHr; auto. split; auto.
Qed.

Lemma read_answers_tok f co s c RC RF : Inv2 s -> cell_of s co = Some (CConn c) -> In co (st_conns s) -> TokInv s RC RF ->
  safe (read_answers cf f co) s (fun _ s' => Inv2 s' /\ TokInv s' RC RF).
Proof.
  intros [I St] Hc Hin T. unfold read_answers.
  apply safe_bind. eapply safe_get_conn; [exact (inv_heap _ _ I)|exact Hc|].
  rewrite (fx_connread_true cf Hfix).
  apply safe_bind. eapply safe_store; [exact (inv_heap _ _ I)|exact Hc|].
  destruct (store_conn_flags_ok2 s co c (set_c_reading true c) (conj I St) Hc eq_refl eq_refl) as [I1 Hc1].
  { simpl. intros H. exact (inv_closed _ _ I _ _ Hc H). }
  { simpl. intros H. destruct (inv_conns _ _ I) as [_ Hcc]. destruct (Hcc _ H) as [c0 [Hc0 Hcl]].
    rewrite Hc in Hc0. inversion Hc0; subst. exact Hcl. }
  assert (T1 : TokInv (store_st co (CConn (set_c_reading true c)) s) RC RF).
  { eapply (tok_store_unlinked None); eauto; try exact Logic.I. eapply conn_not_linked; eauto. }
  assert (R1 : reading (store_st co (CConn (set_c_reading true c)) s) co).
  { exists (set_c_reading true c). split; auto. }
  apply safe_bind.
  eapply safe_mono; [apply safe_both; [apply (read_loop_ok cf Hfix f f co [] _ I1 R1)|apply (read_loop_tok f f co [] _ RC RF I1 R1 T1)]|].
  intros rq s2 [I2 T2]. apply flush_requeue_tok; auto.
Qed.

End FixedT2.

Section FixedT3.
Variable cf : config.
Hypothesis Hfix : cf_fix cf = all_fixed.
Let S1 := all_specs cf Hfix.
Let S2 := all_specs2 cf Hfix.

Definition ITpost (RC RF : list tok) : unit -> state -> Prop := fun _ s' => Inv2 s' /\ TokInv s' RC RF.

Lemma destroy_loop_tok f n s RC RF : Inv2 s -> TokInv s RC RF ->
  safe (destroy_loop_fixed cf f n) s (ITpost RC RF).
Proof.
  pose proof (S1 f) as IH. pose proof (S2 f) as IH2.
  revert s. induction n as [|n IHn]; intros s [I St] T; simpl; [apply safe_fail|].
  apply safe_bind. apply safe_get.
  destruct (st_lists s) as [|[|qo l] r] eqn:El; try (apply safe_ret; split; [split|]; auto).
  assert (Hl : In qo (linked s)) by (unfold linked; rewrite El; simpl; left; reflexivity).
  apply safe_bind.
  eapply safe_mono; [apply safe_both; [apply (sp_complete_query _ _ IH qo _ s (inv_weaken _ _ I) Hl)
                                      |apply (tp_complete_query _ _ IH2 qo _ s RC RF (inv_weaken _ _ I) Hl T)]|].
  intros [] s1 [[I1 F1] T1]. apply IHn; auto. split; [exact I1|exact (stable_frame _ _ _ St F1)].
Qed.

Lemma destroy_conns_tok f n s RC RF : Inv2 s -> TokInv s RC RF -> safe (destroy_conns cf f n) s (ITpost RC RF).
Proof.
  pose proof (S1 f) as IH. pose proof (S2 f) as IH2.
  revert s. induction n as [|n IHn]; intros s [I St] T; simpl; [apply safe_fail|].
  apply safe_bind. apply safe_get.
  destruct (st_conns s) as [|co0 r] eqn:Ec; [apply safe_ret; split; [split|]; auto|].
  apply safe_bind. apply safe_peek.
  destruct (hd_error (st_tape s)) as [e|]; [|apply safe_fail].
  destruct e; try apply safe_fail.
  destruct (find_conn_by_sock_ok _ s sock I) as [r0 [E1 Hr]].
  apply safe_bind. eapply safe_of_run; [exact E1|].
  destruct r0 as [co|]; [|apply safe_fail].
  destruct (Hr _ eq_refl) as [Hin [c [Hc Hncl]]].
  apply safe_bind.
  eapply safe_mono; [apply safe_both; [apply (sp_close_connection _ _ IH co ARES_SUCCESS s c I Hc)
                                      |apply (tp_close_connection _ _ IH2 co ARES_SUCCESS s c RC RF I Hc T)]|].
  intros [] s1 [[I1 F1] T1]. apply IHn; auto. split; [exact I1|exact (stable_frame _ _ _ St F1)].
Qed.

(* ares_destroy: afterwards no query is linked (the assert) *)
Lemma held_nil s : Inv2 s -> linked s = [] -> held s = [].
Proof.
  intros [I St] E. unfold held, qheld. rewrite E. simpl. unfold hheld. apply flat_map_nil. intros o _.
  unfold htoks. destruct (shared_at s o) as [h|] eqn:Hs; auto. exfalso.
  destruct (shared_host _ _ _ Hs) as [Hc Hp]. destruct (St _ _ Hc) as [_ Hr].
  unfold nrefs, refs_to in Hr. rewrite E in Hr. simpl in Hr. lia.
Qed.

(* closing a connection that has no queries runs no callback: the lists are untouched *)
Lemma close_idle_linked f co st s c : heap_ok s -> cell_of s co = Some (CConn c) -> c_queries c = [] ->
  safe (close_connection cf f co st) s (fun _ s' => linked s' = linked s).
Proof.
  intros Hh Hc Hq. destruct f as [|f]; simpl; [apply safe_fail|].
  apply safe_bind. eapply safe_get_conn; [exact Hh|exact Hc|].
  apply safe_bind. apply safe_modify.
  set (s1 := set_conns (remove_nat co (st_conns s)) s).
  assert (Hh1 : heap_ok s1) by exact Hh.
  assert (Hc1 : cell_of s1 co = Some (CConn c)) by exact Hc.
  apply safe_bind.
  assert (R : safe (requeue_conn_queries cf f f co st) s1 (fun _ s' => s' = s1)).
  { destruct f as [|f']; simpl; [apply safe_fail|].
    apply safe_bind. eapply safe_get_conn; [exact Hh1|exact Hc1|]. rewrite Hq. apply safe_ret. reflexivity. }
  eapply safe_mono; [exact R|]. intros [] s2 ->.
  apply safe_bind. eapply safe_get_conn; [exact Hh1|exact Hc1|].
  apply safe_bind. apply safe_expect'; [right; right; eexists; reflexivity|]. intros l.
  destruct (fx_connread (cf_fix cf) && c_reading c).
  - eapply safe_store; [exact Hh1|exact Hc1|]. reflexivity.
  - eapply safe_free; [exact Hh1|exact Hc1|]. reflexivity.
Qed.

Lemma destroy_conns_full f n s RC RF : linked s = [] -> Inv2 s -> TokInv s RC RF ->
  safe (destroy_conns cf f n) s (fun _ s' => linked s' = [] /\ Inv2 s' /\ TokInv s' RC RF).
Proof.
  pose proof (S1 f) as IH. pose proof (S2 f) as IH2.
  revert s. induction n as [|n IHn]; intros s El [I St] T; simpl; [apply safe_fail|].
  apply safe_bind. apply safe_get.
  destruct (st_conns s) as [|co0 r] eqn:Ec; [apply safe_ret; split; [|split; [split|]]; auto|].
  apply safe_bind. apply safe_peek.
  destruct (hd_error (st_tape s)) as [e|]; [|apply safe_fail].
  destruct e; try apply safe_fail.
  destruct (find_conn_by_sock_ok _ s sock I) as [r0 [E1 Hr]].
  apply safe_bind. eapply safe_of_run; [exact E1|].
  destruct r0 as [co|]; [|apply safe_fail].
  destruct (Hr _ eq_refl) as [Hin [c [Hc Hncl]]].
  assert (Hq : c_queries c = []).
  { destruct (c_queries c) as [|qo l] eqn:Eq; auto. exfalso.
    assert (Hqo : In qo (c_queries c)) by (rewrite Eq; left; reflexivity).
    destruct (inv_connq _ _ I _ _ _ Hc Hqo) as [Hl _]. rewrite El in Hl. destruct Hl. }
  apply safe_bind.
  eapply safe_mono; [apply safe_both; [apply safe_both;
       [apply (sp_close_connection _ _ IH co ARES_SUCCESS s c I Hc)
       |apply (tp_close_connection _ _ IH2 co ARES_SUCCESS s c RC RF I Hc T)]
       |apply (close_idle_linked f co ARES_SUCCESS s c (inv_heap _ _ I) Hc Hq)]|].
  intros [] s1 [[[I1 F1] T1] El1]. apply IHn; auto. { rewrite El1. exact El. } split; [exact I1|exact (stable_frame _ _ _ St F1)].
Qed.

Lemma destroy_tok f s RC RF : Inv2 s -> TokInv s RC RF ->
  safe (destroy cf f) s (fun _ s' => linked s' = [] /\ Inv2 s' /\ TokInv s' RC RF).
Proof.
  intros [I St] T. unfold destroy.
  apply safe_bind. apply safe_modify.
  set (s1 := set_destroying true s).
  assert (E1 : core_eq s s1) by apply core_eq_set_destroying.
  assert (I1 : Inv2 s1) by (split; [apply (inv_core _ _ _ E1); auto|apply (stable_core _ _ E1); auto]).
  assert (T1 : TokInv s1 RC RF) by (apply (tokinv_same s); [reflexivity|reflexivity|reflexivity|exact T]).
  apply safe_bind. apply safe_get. rewrite (fx_unlink_true cf Hfix).
  apply safe_bind. eapply safe_mono; [apply (destroy_loop_tok f f s1 RC RF I1 T1)|].
  intros [] s2 [I2 T2]. apply safe_bind. apply safe_get.
  destruct (concat (st_lists s2)) as [|x l] eqn:El; [|apply safe_fail].
  destruct (st_byqid s2); [|apply safe_fail]. destruct (st_bytmo s2); [|apply safe_fail]. simpl.
  apply destroy_conns_full; auto.
Qed.

Lemma process_writes_tok f socks s RC RF : Inv2 s -> TokInv s RC RF -> safe (process_writes cf f socks) s (ITpost RC RF).
Proof.
  pose proof (S1 f) as IH. pose proof (S2 f) as IH2.
  revert s. induction socks as [|sock rest IHr]; intros s [I St] T; simpl; [apply safe_ret; split; [split|]; auto|].
  destruct (find_conn_by_sock_ok _ s sock I) as [r0 [E1 Hr]].
  apply safe_bind. eapply safe_of_run; [exact E1|]. apply safe_bind.
  destruct r0 as [co|]; [|apply safe_ret; apply IHr; auto; split; auto].
  destruct (Hr _ eq_refl) as [Hin [c [Hc Hncl]]].
  apply safe_bind. eapply safe_get_conn; [exact (inv_heap _ _ I)|exact Hc|].
  apply safe_bind. apply safe_pop. intros e rest0 Et. destruct e; try apply safe_fail.
  set (s1 := set_tape rest0 s).
  assert (E2 : core_eq s s1) by apply core_eq_set_tape.
  assert (I1 : Inv s1) by (apply (inv_core _ _ _ E2); auto).
  assert (T1 : TokInv s1 RC RF) by (apply tokinv_set_tape; exact T).
  assert (St1 : Stable s1) by (apply (stable_core _ _ E2); auto).
  destruct (negb (Nat.eqb sock0 sock)); [apply safe_fail|].
  destruct (zeqb rc ARES_SUCCESS).
  - apply safe_ret. apply IHr; auto. split; auto.
  - eapply safe_mono; [apply safe_both; [apply (sp_handle_conn_error _ _ IH co true rc s1 c I1 Hc)
                                        |apply (tp_handle_conn_error _ _ IH2 co true rc s1 c RC RF I1 Hc T1)]|].
    intros [] s2 [[I2 F2] T2]. apply IHr; auto. split; [exact I2|exact (stable_frame _ _ _ St1 F2)].
Qed.

Lemma process_reads_tok f socks s RC RF : Inv2 s -> TokInv s RC RF -> safe (process_reads cf f socks) s (ITpost RC RF).
Proof.
  revert s. induction socks as [|sock rest IHr]; intros s [I St] T; simpl; [apply safe_ret; split; [split|]; auto|].
  destruct (find_conn_by_sock_ok _ s sock I) as [r0 [E1 Hr]].
  apply safe_bind. eapply safe_of_run; [exact E1|]. apply safe_bind.
  destruct r0 as [co|]; [|apply safe_ret; apply IHr; auto; split; auto].
  destruct (Hr _ eq_refl) as [Hin [c [Hc Hncl]]].
  eapply safe_mono; [apply (read_answers_tok cf Hfix f co s c RC RF (conj I St) Hc Hin T)|].
  intros [] s1 [I1 T1]. apply IHr; auto.
Qed.

Lemma process_timeouts_tok f n s RC RF : Inv2 s -> TokInv s RC RF -> safe (process_timeouts cf f n) s (ITpost RC RF).
Proof.
  pose proof (S1 f) as IH. pose proof (S2 f) as IH2.
  revert s. induction n as [|n IHn]; intros s [I St] T; simpl; [apply safe_fail|].
  apply safe_bind. apply safe_peek. apply safe_bind. apply safe_peek2.
  destruct (hd_error (st_tape s)) as [e|]; [|apply safe_ret; split; [split|]; auto].
  destruct e; try (apply safe_ret; split; [split|]; auto).
  assert (G : safe (let! s0 := get in
                    match timeout_victim (st_tape s0) with
                    | Some qid =>
                        match lookup qid (st_byqid s0) with
                        | Some qo =>
                            if negb (memb qo (st_bytmo s0)) then fail EDESYNC
                            else let! q := get_query qo in
                                 match q_conn q with
                                 | Some co => let! _ := get_conn co in ret tt
                                 | None => fail EINTERNAL end;;
                                 expect_TS;;
                                 (let! _ := requeue_query cf f qo ARES_ETIMEOUT true false (res ARES_ETIMEOUT) in
                                  process_timeouts cf f n)
                        | None => fail EDESYNC end
                    | None => fail EDESYNC end) s (ITpost RC RF)).
  { apply safe_bind. apply safe_get.
    destruct (timeout_victim (st_tape s)) as [qid|]; [|apply safe_fail].
    destruct (lookup qid (st_byqid s)) as [qo|] eqn:Lk; [|apply safe_fail].
    destruct (memb qo (st_bytmo s)) eqn:Mb; simpl; [|apply safe_fail].
    apply memb_In in Mb.
    destruct (inv_bytmo _ _ I _ Mb) as [Hl [q [co [c [Hq [Hqc [Hc _]]]]]]].
    apply safe_bind. eapply safe_get_query; [exact (inv_heap _ _ I)|exact Hq|].
    rewrite Hqc. apply safe_bind. apply safe_bind. eapply safe_get_conn; [exact (inv_heap _ _ I)|exact Hc|].
    apply safe_ret. apply safe_bind. apply safe_expect'; [left; reflexivity|]. intros l1.
    assert (E1 : core_eq s (set_tape l1 s)) by apply core_eq_set_tape.
    apply safe_bind.
    eapply safe_mono; [apply safe_both;
       [apply (sp_requeue_query _ _ IH qo ARES_ETIMEOUT true false _ (set_tape l1 s));
          [apply inv_weaken; apply (inv_core _ _ _ E1); auto|exact Hl]
       |apply (tp_requeue_query _ _ IH2 qo ARES_ETIMEOUT true false _ (set_tape l1 s) RC RF);
          [apply inv_weaken; apply (inv_core _ _ _ E1); auto|exact Hl|apply tokinv_set_tape; exact T]]|].
    intros z s2 [[I2 F2] T2]. apply IHn; auto. split; [exact I2|exact (stable_frame _ _ _ (stable_core _ _ E1 St) F2)]. }
  destruct (hd_error (tl (st_tape s))) as [e2|]; [|exact G].
  destruct e2; try exact G. apply safe_ret. split; [split|]; auto.
Qed.

Lemma process_fds_tok f w r s RC RF : Inv2 s -> TokInv s RC RF -> safe (process_fds cf f w r) s (ITpost RC RF).
Proof.
  intros I T. pose proof (S1 f) as IH. pose proof (S2 f) as IH2. unfold process_fds.
  apply safe_bind. eapply safe_mono; [apply (process_writes_tok f w s RC RF I T)|]. intros [] s1 [I1 T1].
  apply safe_bind. eapply safe_mono; [apply (process_reads_tok f r s1 RC RF I1 T1)|]. intros [] s2 [[I2 St2] T2].
  apply safe_bind.
  eapply safe_mono; [apply safe_both; [apply (sp_check_cleanup _ _ IH s2 I2)|apply (tp_check_cleanup _ _ IH2 s2 RC RF I2 T2)]|].
  intros [] s3 [[I3 F3] T3]. apply process_timeouts_tok; auto. split; [exact I3|exact (stable_frame _ _ _ St2 F3)].
Qed.

End FixedT3.

(* ---------------------------------------------------------------------------------- *)
(* Histories: at most once, exactly once when the channel has been destroyed            *)
(* ---------------------------------------------------------------------------------- *)
Definition input_toks (i : input) : list tok :=
  match i with IApi c => call_toks c | IOnCb _ c => call_toks c | _ => [] end.
Definition hist_toks (h : list (input * list tev)) : list tok := flat_map (fun it => input_toks (fst it)) h.

Lemma tokinv_drop_rf s RC RF X : TokInv s RC (X ++ RF) -> TokInv s RC RF.
Proof.
  intros [H1 H2 H3 H4 H5]. constructor; auto.
  rewrite !app_assoc in H1. apply NoDup_app_iff in H1. destruct H1 as [Ha [Hb Hc]].
  apply NoDup_app_iff in Ha. destruct Ha as [Ha1 [Ha2 Ha3]].
  rewrite app_assoc. apply NoDup_app_iff. repeat split; auto.
  intros x Hx Hx'. apply (Hc x); auto. apply in_or_app. left. exact Hx.
Qed.

Lemma perm_swap3 {A} (a b c : list A) : Permutation (a ++ b ++ c) (b ++ a ++ c).
Proof. rewrite !app_assoc. apply Permutation_app_tail. apply Permutation_app_comm. Qed.

Lemma tokinv_add_script s t c RC RF : TokInv s RC (call_toks c ++ RF) -> TokInv (add_script t c s) RC RF.
Proof.
  intros T. unfold add_script. destruct (delivered t s).
  - eapply tokinv_drop_rf; eauto.
  - destruct T as [H1 H2 H3 H4 H5]. constructor; auto.
    + change (reqd (set_scripts _ s)) with (reqd s).
      unfold futr. simpl.
      eapply Permutation_NoDup; [|exact H1]. apply Permutation_app_head.
      destruct (lookup t (st_scripts s)) as [l|] eqn:E.
      * unfold futr. rewrite (futr_remove_key t (st_scripts s) l H4 E).
        assert (Ec : calls_toks (l ++ [c]) = calls_toks l ++ call_toks c).
        { unfold calls_toks. rewrite flat_map_app. simpl. rewrite app_nil_r. reflexivity. }
        rewrite Ec. rewrite <- !app_assoc. apply Permutation_app_head.
        apply perm_swap3.
      * assert (Hrm : remove_key t (st_scripts s) = st_scripts s).
        { clear -E. induction (st_scripts s) as [|[a b] l IH]; simpl in *; auto.
          destruct (Nat.eqb t a); [discriminate|]. f_equal. apply IH. exact E. }
        rewrite Hrm. unfold calls_toks. simpl. rewrite app_nil_r. rewrite <- app_assoc.
        apply perm_swap3.
    + simpl. destruct (remove_key_keys t (st_scripts s) H4) as [Hk1 Hk2]. constructor; auto.
Qed.

Section Top.
Variable cf : config.
Hypothesis Hfix : cf_fix cf = all_fixed.

Lemma step_tok fuel i tape s RF : Inv2 s -> i <> IDestroy -> TokInv s [] (input_toks i ++ RF) ->
  safe (step cf fuel i tape) s (fun _ s' => Inv2 s' /\ TokInv s' [] RF).
Proof.
  intros [I St] Hnd T. pose proof (all_specs cf Hfix fuel) as IH. pose proof (all_specs2 cf Hfix fuel) as IH2.
  unfold step.
  apply safe_bind. apply safe_modify.
  set (s1 := set_tape tape s).
  assert (E1 : core_eq s s1) by apply core_eq_set_tape.
  assert (I1 : Inv s1) by (apply (inv_core _ _ _ E1); auto).
  assert (St1 : Stable s1) by (apply (stable_core _ _ E1); auto).
  assert (T1 : TokInv s1 [] (input_toks i ++ RF)) by (apply tokinv_set_tape; exact T).
  assert (Fin : forall s2, Inv2 s2 -> TokInv s2 [] RF ->
            safe (let! s0 := get in match st_tape s0 with [] => ret tt | _ :: _ => fail EDESYNC end) s2
                 (fun _ s' => Inv2 s' /\ TokInv s' [] RF)).
  { intros s2 I2 T2. apply safe_bind. apply safe_get. destruct (st_tape s2); [apply safe_ret; auto|apply safe_fail]. }
  apply safe_bind.
  destruct i as [c|t c|w r|]; [| | |contradiction].
  - assert (Dflt : safe (api cf fuel c) s1 (fun _ s0 => safe (let! s3 := get in match st_tape s3 with [] => ret tt | _ :: _ => fail EDESYNC end) s0
                         (fun _ s' => Inv2 s' /\ TokInv s' [] RF))).
    { eapply safe_mono; [apply safe_both; [apply (sp_api _ _ IH c s1 I1)|apply (tp_api _ _ IH2 c s1 [] RF I1 T1)]|].
      intros [] s2 [[I2 F2] T2]. apply Fin; auto. split; [exact I2|exact (stable_frame _ _ _ St1 F2)]. }
    destruct c; try exact Dflt.
    apply safe_bind. apply safe_emit.
    set (s2 := set_trace (EvCancelBegin :: st_trace s1) s1).
    assert (E2 : core_eq s1 s2) by apply core_eq_set_trace.
    assert (I2 : Inv s2) by (apply (inv_core _ _ _ E2); auto).
    assert (T2 : TokInv s2 [] RF).
    { apply tokinv_emit_other; try (intros; discriminate); try discriminate. exact T1. }
    apply safe_bind.
    eapply safe_mono; [apply safe_both; [apply (sp_cancel _ _ IH s2 I2)|apply (tp_cancel _ _ IH2 s2 [] RF I2 T2)]|].
    intros [] s3 [[I3 F3] T3]. apply safe_emit.
    apply Fin.
    + split; [apply (inv_core _ _ _ (core_eq_set_trace _ s3)); auto|].
      apply (stable_core _ _ (core_eq_set_trace _ s3)). exact (stable_frame _ _ _ (stable_core _ _ E2 St1) F3).
    + apply tokinv_emit_other; try (intros; discriminate); try discriminate. exact T3.
  - apply safe_modify. apply Fin; [apply add_script_inv; split; auto|apply tokinv_add_script; exact T1].
  - eapply safe_mono; [apply (process_fds_tok cf Hfix fuel w r s1 [] RF (conj I1 St1) T1)|].
    intros [] s2 [I2 T2]. apply Fin; auto.
Qed.

(* the state after ares_destroy returned *)
Definition counts_equal (tr : list event) : Prop := forall t, count_cb tr t = count_req tr t.

Record Done (s : state) : Prop := {
  dn_tr : exists tr0, st_trace s = EvDestroyEnd :: tr0
            /\ (forall e, In e tr0 -> e <> EvDestroyEnd /\ e <> EvEnd)
            /\ at_most_once (rev tr0) /\ counts_equal tr0
}.

Lemma count_perm_cb tr t : count_cb tr t = count_occ Nat.eq_dec (cb_toks tr) t.
Proof.
  unfold count_cb, cb_toks. induction tr as [|e tr IH]; simpl; auto.
  destruct e; simpl; auto. destruct (Nat.eq_dec t0 t) as [->|Hne].
  - rewrite Nat.eqb_refl. simpl. f_equal. exact IH.
  - assert (E : Nat.eqb t t0 = false) by (apply Nat.eqb_neq; auto). rewrite E. exact IH.
Qed.
Lemma count_perm_req tr t : count_req tr t = count_occ Nat.eq_dec (req_toks tr) t.
Proof.
  unfold count_req, req_toks. induction tr as [|e tr IH]; simpl; auto.
  destruct e; simpl; auto. destruct (Nat.eq_dec t0 t) as [->|Hne].
  - rewrite Nat.eqb_refl. simpl. f_equal. exact IH.
  - assert (E : Nat.eqb t t0 = false) by (apply Nat.eqb_neq; auto). rewrite E. exact IH.
Qed.

Lemma destroy_step_tok fuel tape s RF : Inv2 s -> TokInv s [] RF ->
  safe (step cf fuel IDestroy tape) s (fun _ s' => Done s').
Proof.
  intros [I St] T. unfold step.
  apply safe_bind. apply safe_modify.
  set (s1 := set_tape tape s).
  assert (E1 : core_eq s s1) by apply core_eq_set_tape.
  assert (I1 : Inv s1) by (apply (inv_core _ _ _ E1); auto).
  assert (T1 : TokInv s1 [] RF) by (apply tokinv_set_tape; exact T).
  apply safe_bind. apply safe_bind. apply safe_emit.
  set (s2 := set_trace (EvDestroyBegin :: st_trace s1) s1).
  assert (E2 : core_eq s1 s2) by apply core_eq_set_trace.
  assert (I2 : Inv s2) by (apply (inv_core _ _ _ E2); auto).
  assert (T2 : TokInv s2 [] RF).
  { apply tokinv_emit_other; try (intros; discriminate); try discriminate. exact T1. }
  assert (St2 : Stable s2) by (apply (stable_core _ _ E2); apply (stable_core _ _ E1); exact St).
  apply safe_bind. eapply safe_mono; [apply (destroy_tok cf Hfix fuel s2 [] RF (conj I2 St2) T2)|].
  intros [] s3 [El3 [I3 T3]]. apply safe_emit.
  apply safe_bind. apply safe_get. simpl.
  destruct (st_tape s3); [|apply safe_fail]. apply safe_ret.
  constructor. exists (st_trace s3). split; [reflexivity|].
  destruct T3 as [H1 H2 H3 H4 H5]. split; [exact H5|]. split; [exact H3|].
  intros t. rewrite count_perm_cb, count_perm_req.
  rewrite (held_nil s3 I3 El3) in H2. simpl in H2. rewrite app_nil_r in H2.
  symmetry. apply Permutation_count_occ. exact H2.
Qed.

Lemma run_from_tok fuel h s RF : Inv2 s ->
  TokInv s [] (hist_toks h ++ RF) ->
  safe (run_from cf fuel h) s (fun d s' => if d then Done s' else Inv2 s' /\ TokInv s' [] RF).
Proof.
  revert s. induction h as [|[i tape] rest IHh]; intros s I T; simpl.
  - apply safe_ret. simpl in T. auto.
  - simpl in T. unfold hist_toks in T. simpl in T. rewrite <- app_assoc in T.
    fold (hist_toks rest) in T.
    assert (G : i <> IDestroy -> safe (step cf fuel i tape;; run_from cf fuel rest) s
                 (fun d s' => if d then Done s' else Inv2 s' /\ TokInv s' [] RF)).
    { intros Hnd. apply safe_bind.
      eapply safe_mono; [apply (step_tok fuel i tape s (hist_toks rest ++ RF) I); auto|].
      intros [] s1 [I1 T1]. apply IHh; auto. }
    destruct i; try (apply G; discriminate).
    apply safe_bind. simpl in T.
    eapply safe_mono; [apply (destroy_step_tok fuel tape s (hist_toks rest ++ RF) I T)|].
    intros [] s1 D1. apply safe_ret. exact D1.
Qed.

End Top.

Lemma init_tokinv cf RF : NoDup RF -> TokInv (init_state cf) [] RF.
Proof.
  intros H. constructor.
  - simpl. exact H.
  - simpl. constructor.
  - unfold amo. simpl. intros pre t st post E. destruct pre; discriminate.
  - simpl. constructor.
  - simpl. intros e [].
Qed.

Lemma split_tail2 {A} (l : list A) a b pre e post :
  l ++ [a; b] = pre ++ e :: post ->
  (exists post', l = pre ++ e :: post') \/ (pre = l /\ e = a) \/ (pre = l ++ [a] /\ e = b).
Proof.
  revert pre. induction l as [|x l IH]; intros pre E; simpl in *.
  - destruct pre as [|p pre]; simpl in E.
    + inversion E; subst. right; left; auto.
    + inversion E; subst. destruct pre as [|p' pre]; simpl in *.
      * inversion H1; subst. right; right; auto.
      * inversion H1. destruct pre; discriminate.
  - destruct pre as [|p pre]; simpl in E.
    + inversion E; subst. left. exists l. reflexivity.
    + inversion E; subst. destruct (IH pre H1) as [[post' Hp]|[[Hp He]|[Hp He]]].
      * left. exists post'. rewrite Hp. reflexivity.
      * right; left. subst. auto.
      * right; right. subst. auto.
Qed.

(* the final trace *)
Lemma done_final s : Done s ->
  let tr := rev (EvEnd :: st_trace s) in
  at_most_once tr /\ none_after_destroy tr /\ complete_at_destroy tr.
Proof.
  intros [[tr0 [Et [Hlive [Hamo Hcnt]]]]] tr. unfold tr. rewrite Et. simpl.
  rewrite <- app_assoc. simpl.
  (* tr = rev tr0 ++ [EvDestroyEnd; EvEnd] *)
  assert (Hlive' : forall e, In e (rev tr0) -> e <> EvDestroyEnd /\ e <> EvEnd).
  { intros e He. apply Hlive. apply in_rev. exact He. }
  pose proof (fun pre e post => split_tail2 (rev tr0) EvDestroyEnd EvEnd pre e post) as Split.
  repeat split.
  - intros pre t st post E. destruct (Split _ _ _ E) as [[post' Hp]|[[_ He]|[_ He]]]; try discriminate.
    eapply Hamo. exact Hp.
  - intros pre t st post E Hin. destruct (Split _ _ _ E) as [[post' Hp]|[[_ He]|[_ He]]]; try discriminate.
    destruct (Hlive' EvDestroyEnd) as [Hx _]; [rewrite Hp; apply in_or_app; left; exact Hin|]. apply Hx. reflexivity.
  - intros pre e post E He t Ht. destruct (Split _ _ _ E) as [[post' Hp]|[[Hp _]|[Hp _]]].
    + exfalso. assert (Hin : In e (rev tr0)) by (rewrite Hp; apply in_or_app; right; left; reflexivity).
      destruct (Hlive' _ Hin). destruct He; contradiction.
    + subst pre. rewrite count_cb_rev, count_req_rev. apply Hcnt.
    + subst pre. unfold count_cb, count_req. rewrite !filter_app, !app_length. simpl. rewrite !Nat.add_0_r.
      fold (count_cb (rev tr0) t). fold (count_req (rev tr0) t). rewrite count_cb_rev, count_req_rev. apply Hcnt.
Qed.

Theorem run_trace_ok cf fuel h final tr :
  cf_fix cf = all_fixed -> NoDup (hist_toks h) ->
  run cf fuel h final = Ok tr ->
  at_most_once tr /\ none_after_destroy tr /\ complete_at_destroy tr.
Proof.
  intros Hfix Hn Hrun. unfold run in Hrun.
  assert (S : safe (let! destroyed := run_from cf fuel h in
                    (if destroyed then ret tt else step cf fuel IDestroy final);; emit EvEnd)
                   (init_state cf) (fun _ s => let tr := rev (st_trace s) in
                                          at_most_once tr /\ none_after_destroy tr /\ complete_at_destroy tr)).
  { apply safe_bind.
    eapply safe_mono; [apply (run_from_tok cf Hfix fuel h (init_state cf) [] (init_inv cf))|].
    - rewrite app_nil_r. apply init_tokinv. exact Hn.
    - intros d s1 H1. apply safe_bind. destruct d.
      + apply safe_ret. apply safe_emit. apply (done_final s1 H1).
      + destruct H1 as [I1 T1].
        eapply safe_mono; [apply (destroy_step_tok cf Hfix fuel final s1 [] I1 T1)|].
        intros [] s2 D2. apply safe_emit. apply (done_final s2 D2). }
  unfold safe in S.
  destruct ((let! destroyed := run_from cf fuel h in
             (if destroyed then ret tt else step cf fuel IDestroy final);; emit EvEnd) (init_state cf))
    as [[a s']|e|k']; try discriminate.
  inversion Hrun; subst. exact S.
Qed.

(* exactly once at any quiescent point of a history (no query is linked): every token
   requested so far has had exactly as many callbacks as requests, and never more on the way *)
Theorem run_from_quiescent cf fuel h s :
  cf_fix cf = all_fixed -> NoDup (hist_toks h) ->
  run_from cf fuel h (init_state cf) = Ok (false, s) -> linked s = [] ->
  (forall t, count_cb (st_trace s) t = count_req (st_trace s) t) /\ at_most_once (rev (st_trace s)).
Proof.
  intros Hfix Hn Hrun El.
  pose proof (run_from_tok cf Hfix fuel h (init_state cf) [] (init_inv cf)) as S.
  rewrite app_nil_r in S. specialize (S (init_tokinv cf _ Hn)).
  unfold safe in S. rewrite Hrun in S. simpl in S. destruct S as [I [H1 H2 H3 H4 H5]].
  split; [|exact H3].
  intros t. rewrite count_perm_cb, count_perm_req.
  rewrite (held_nil s I El) in H2. simpl in H2. rewrite app_nil_r in H2.
  symmetry. apply Permutation_count_occ. exact H2.
Qed.

(* the three parts of run_trace_ok by name (for Properties_C01.v) *)
Theorem run_at_most_once cf fuel h final tr :
  cf_fix cf = all_fixed -> NoDup (hist_toks h) -> run cf fuel h final = Ok tr -> at_most_once tr.
Proof. intros H1 H2 H3. exact (proj1 (run_trace_ok cf fuel h final tr H1 H2 H3)). Qed.

Theorem run_none_after_destroy cf fuel h final tr :
  cf_fix cf = all_fixed -> NoDup (hist_toks h) -> run cf fuel h final = Ok tr -> none_after_destroy tr.
Proof. intros H1 H2 H3. exact (proj1 (proj2 (run_trace_ok cf fuel h final tr H1 H2 H3))). Qed.

Theorem run_complete_at_destroy cf fuel h final tr :
  cf_fix cf = all_fixed -> NoDup (hist_toks h) -> run cf fuel h final = Ok tr -> complete_at_destroy tr.
Proof. intros H1 H2 H3. exact (proj2 (proj2 (run_trace_ok cf fuel h final tr H1 H2 H3))). Qed.
