From CAres.Core Require Import Reinit.
Local Open Scope nat_scope.

Lemma cupd_same f c v : cupd f c v c = v.
Proof. unfold cupd. rewrite Nat.eqb_refl. reflexivity. Qed.
Lemma cupd_other f c v x : x <> c -> cupd f c v x = f x.
Proof. intros H. unfold cupd. destruct (Nat.eqb_spec x c); [contradiction | reflexivity]. Qed.
Lemma hupd_same f h v : hupd f h v h = v.
Proof. unfold hupd. rewrite Nat.eqb_refl. reflexivity. Qed.
Lemma hupd_other f h v x : x <> h -> hupd f h v x = f x.
Proof. intros H. unfold hupd. destruct (Nat.eqb_spec x h); [contradiction | reflexivity]. Qed.

(* once the mark is cleared a well-shaped program never takes the lock again *)
Lemma cleared_no_acq r : forall hd, helper_ok_from hd true r = true -> has_acq r = false.
Proof.
  induction r as [|a r IH]; intros hd H; simpl; [reflexivity|].
  destruct a; simpl in H.
  - eapply IH; eassumption.
  - apply andb_prop in H. destruct H as [H _]. apply andb_prop in H. destruct H as [_ H]. discriminate.
  - apply andb_prop in H. destruct H as [_ H]. eapply IH; eassumption.
  - apply andb_prop in H. destruct H as [_ H]. eapply IH; eassumption.
Qed.

Section Proofs.
Variable prog : list hact.
Hypothesis Hprog : helper_ok prog = true.

Record Inv (s : sys) : Prop := mkInv {
  iA : forall h st, helpers s h = Some st -> handle s = Some h;
  iB : forall h hd cl r, helpers s h = Some (hd, cl, r) ->
         helper_ok_from hd cl r = true /\ (hd = true <-> lock s = OHelper h);
  iC : forall c, holds (clients s c) = true -> lock s = OClient c;
  iD : forall c h, clients s c = CJoin h ->
         handle s = Some h /\ pending s = true /\
         (forall hd cl r, helpers s h = Some (hd, cl, r) -> cl = true);
  iE : forall c, clients s c = CCreate -> handle s = None /\ pending s = true;
  iF : pending s = false -> forall h hd cl r, handle s = Some h -> helpers s h = Some (hd, cl, r) -> cl = true;
  iG : forall h, handle s = Some h -> exists st, helpers s h = Some st }.

Lemma inv_initial : Inv initial.
Proof.
  constructor; unfold initial; simpl; intros; try discriminate.
Qed.

(* a client holding the lock excludes a reload thread holding it *)
Lemma client_excludes_helper s c h hd cl r :
  Inv s -> holds (clients s c) = true -> helpers s h = Some (hd, cl, r) -> hd = false.
Proof.
  intros I Hc Hh. destruct hd; [|reflexivity].
  destruct (iB s I h true cl r Hh) as [_ [Hl _]]. specialize (Hl eq_refl).
  rewrite (iC s I c Hc) in Hl. discriminate.
Qed.

Ltac cases_c x c := destruct (Nat.eq_dec x c) as [->|?]; [rewrite ?cupd_same in * | rewrite ?cupd_other in * by assumption].
Ltac cases_h x h := destruct (Nat.eq_dec x h) as [->|?]; [rewrite ?hupd_same in * | rewrite ?hupd_other in * by assumption].

Lemma inv_step s s' : Inv s -> step prog s s' -> Inv s'.
Proof.
  intros I Hs.
  inversion Hs as [c Hc | c Hc Hl | c Hc Hp | c h Hc Hp Hh | c Hc Hp Hh | c h hd0 cl0 Hc Hh
                  | c Hc | h hd0 cl0 r0 Hh | h hd0 cl0 r0 Hh Hl | h hd0 cl0 r0 Hh | h hd0 cl0 r0 Hh]; subst s'.
  - (* call *)
    constructor; simpl.
    + exact (iA s I).
    + exact (iB s I).
    + intros x Hx. cases_c x c; [discriminate | exact (iC s I x Hx)].
    + intros x h Hx. cases_c x c; [discriminate | exact (iD s I x h Hx)].
    + intros x Hx. cases_c x c; [discriminate | exact (iE s I x Hx)].
    + exact (iF s I).
    + exact (iG s I).
  - (* lock *)
    assert (Hnone : forall x, holds (clients s x) = false).
    { intros x. destruct (holds (clients s x)) eqn:E; [|reflexivity]. rewrite (iC s I x E) in Hl. discriminate. }
    constructor; simpl.
    + exact (iA s I).
    + intros h hd cl r Hh. destruct (iB s I h hd cl r Hh) as [H1 H2]. split; [exact H1|].
      split; [intros ->; destruct H2 as [H2 _]; specialize (H2 eq_refl); rewrite Hl in H2; discriminate | discriminate].
    + intros x Hx. cases_c x c; [reflexivity | rewrite Hnone in Hx; discriminate].
    + intros x h Hx. cases_c x c; [discriminate | exact (iD s I x h Hx)].
    + intros x Hx. cases_c x c; [discriminate | exact (iE s I x Hx)].
    + exact (iF s I).
    + exact (iG s I).
  - (* skip: a reload is pending *)
    assert (Hl : lock s = OClient c) by (apply (iC s I); rewrite Hc; reflexivity).
    assert (Honly : forall x, holds (clients s x) = true -> x = c).
    { intros x Hx. pose proof (iC s I x Hx) as H. rewrite Hl in H. injection H as ->. reflexivity. }
    constructor; simpl.
    + exact (iA s I).
    + intros h hd cl r Hh. destruct (iB s I h hd cl r Hh) as [H1 H2]. split; [exact H1|].
      split; [intros ->; destruct H2 as [H2 _]; specialize (H2 eq_refl); rewrite Hl in H2; discriminate | discriminate].
    + intros x Hx. cases_c x c; [discriminate | exfalso; apply n; apply Honly; exact Hx].
    + intros x h Hx. cases_c x c; [discriminate | exact (iD s I x h Hx)].
    + intros x Hx. cases_c x c; [discriminate | exact (iE s I x Hx)].
    + exact (iF s I).
    + exact (iG s I).
  - (* mark and join *)
    assert (Hl : lock s = OClient c) by (apply (iC s I); rewrite Hc; reflexivity).
    assert (Honly : forall x, holds (clients s x) = true -> x = c).
    { intros x Hx. pose proof (iC s I x Hx) as H. rewrite Hl in H. injection H as ->. reflexivity. }
    constructor; simpl.
    + exact (iA s I).
    + exact (iB s I).
    + intros x Hx. cases_c x c; [exact Hl | exact (iC s I x Hx)].
    + intros x h' Hx. cases_c x c.
      * injection Hx as <-. split; [exact Hh|]. split; [reflexivity|].
        intros hd cl r Hr. exact (iF s I Hp h hd cl r Hh Hr).
      * exfalso. apply n. apply Honly. rewrite Hx. reflexivity.
    + intros x Hx. cases_c x c; [discriminate|]. exfalso. apply n. apply Honly. rewrite Hx. reflexivity.
    + discriminate.
    + exact (iG s I).
  - (* mark, nothing to join *)
    assert (Hl : lock s = OClient c) by (apply (iC s I); rewrite Hc; reflexivity).
    assert (Honly : forall x, holds (clients s x) = true -> x = c).
    { intros x Hx. pose proof (iC s I x Hx) as H. rewrite Hl in H. injection H as ->. reflexivity. }
    constructor; simpl.
    + intros h st Hst. pose proof (iA s I h st Hst) as H. rewrite Hh in H. discriminate.
    + exact (iB s I).
    + intros x Hx. cases_c x c; [exact Hl | exact (iC s I x Hx)].
    + intros x h' Hx. cases_c x c; [discriminate|]. exfalso. apply n. apply Honly. rewrite Hx. reflexivity.
    + intros x Hx. cases_c x c; [split; reflexivity|]. exfalso. apply n. apply Honly. rewrite Hx. reflexivity.
    + discriminate.
    + discriminate.
  - (* the join returns *)
    assert (Hl : lock s = OClient c) by (apply (iC s I); rewrite Hc; reflexivity).
    assert (Honly : forall x, holds (clients s x) = true -> x = c).
    { intros x Hx. pose proof (iC s I x Hx) as H. rewrite Hl in H. injection H as ->. reflexivity. }
    destruct (iD s I c h Hc) as (Hhd & Hpen & _).
    constructor; simpl.
    + intros h' st Hst. cases_h h' h; [discriminate|].
      pose proof (iA s I h' st Hst) as H. rewrite Hhd in H. injection H as ->. contradiction.
    + intros h' hd cl r Hr. cases_h h' h; [discriminate | exact (iB s I h' hd cl r Hr)].
    + intros x Hx. cases_c x c; [exact Hl | exact (iC s I x Hx)].
    + intros x h' Hx. cases_c x c; [discriminate|]. exfalso. apply n. apply Honly. rewrite Hx. reflexivity.
    + intros x Hx. cases_c x c; [split; [reflexivity | exact Hpen]|]. exfalso. apply n. apply Honly. rewrite Hx. reflexivity.
    + intros _ h' hd cl r Hn. discriminate.
    + discriminate.
  - (* create the new reload thread, unlock *)
    assert (Hl : lock s = OClient c) by (apply (iC s I); rewrite Hc; reflexivity).
    assert (Honly : forall x, holds (clients s x) = true -> x = c).
    { intros x Hx. pose proof (iC s I x Hx) as H. rewrite Hl in H. injection H as ->. reflexivity. }
    destruct (iE s I c Hc) as (Hhn & Hpen).
    assert (Hdead : forall h, helpers s h = None).
    { intros h. destruct (helpers s h) as [st|] eqn:E; [|reflexivity].
      pose proof (iA s I h st E) as H. rewrite Hhn in H. discriminate. }
    constructor; simpl.
    + intros h st Hst. cases_h h (nhelpers s); [reflexivity | rewrite Hdead in Hst; discriminate].
    + intros h hd cl r Hr. cases_h h (nhelpers s); [|rewrite Hdead in Hr; discriminate].
      injection Hr as <- <- <-. split; [exact Hprog|]. split; discriminate.
    + intros x Hx. cases_c x c; [discriminate|]. exfalso. apply n. apply Honly. exact Hx.
    + intros x h Hx. cases_c x c; [discriminate|]. exfalso. apply n. apply Honly. rewrite Hx. reflexivity.
    + intros x Hx. cases_c x c; [discriminate|]. exfalso. apply n. apply Honly. rewrite Hx. reflexivity.
    + rewrite Hpen. discriminate.
    + intros h Hh. injection Hh as <-. rewrite hupd_same. eexists. reflexivity.
  - (* reload thread: work without the lock *)
    destruct (iB s I h hd0 cl0 (HWork :: r0) Hh) as [Hok Hlk]. simpl in Hok.
    constructor; simpl.
    + intros h' st Hst. cases_h h' h; [exact (iA s I h _ Hh) | exact (iA s I h' st Hst)].
    + intros h' hd cl r Hr. cases_h h' h; [injection Hr as <- <- <-; split; assumption | exact (iB s I h' hd cl r Hr)].
    + exact (iC s I).
    + intros x h' Hx. destruct (iD s I x h' Hx) as (H1 & H2 & H3). split; [exact H1|]. split; [exact H2|].
      intros hd cl r Hr. cases_h h' h; [injection Hr as <- <- <-; exact (H3 _ _ _ Hh) | exact (H3 hd cl r Hr)].
    + exact (iE s I).
    + intros Hp h' hd cl r Hhd Hr. cases_h h' h; [injection Hr as <- <- <-; exact (iF s I Hp h _ _ _ Hhd Hh) | exact (iF s I Hp h' hd cl r Hhd Hr)].
    + intros h' Hhd. cases_h h' h; [eexists; reflexivity | exact (iG s I h' Hhd)].
  - (* reload thread takes the lock *)
    destruct (iB s I h hd0 cl0 (HAcq :: r0) Hh) as [Hok Hlk]. simpl in Hok.
    apply andb_prop in Hok. destruct Hok as [Hok1 Hok]. apply andb_prop in Hok1. destruct Hok1 as [_ Hncl].
    assert (Hnone : forall x, holds (clients s x) = false).
    { intros x. destruct (holds (clients s x)) eqn:E; [|reflexivity]. rewrite (iC s I x E) in Hl. discriminate. }
    constructor; simpl.
    + intros h' st Hst. cases_h h' h; [exact (iA s I h _ Hh) | exact (iA s I h' st Hst)].
    + intros h' hd cl r Hr. cases_h h' h.
      * injection Hr as <- <- <-. split; [exact Hok|]. split; reflexivity.
      * destruct (iB s I h' hd cl r Hr) as [H1 H2]. split; [exact H1|].
        split; [intros ->; destruct H2 as [H2 _]; specialize (H2 eq_refl); rewrite Hl in H2; discriminate
               | intros H; injection H as ->; contradiction].
    + intros x Hx. rewrite Hnone in Hx. discriminate.
    + intros x h' Hx. pose proof (Hnone x) as H. rewrite Hx in H. discriminate.
    + intros x Hx. pose proof (Hnone x) as H. rewrite Hx in H. discriminate.
    + intros Hp h' hd cl r Hhd Hr. cases_h h' h; [injection Hr as <- <- <-; exact (iF s I Hp h _ _ _ Hhd Hh) | exact (iF s I Hp h' hd cl r Hhd Hr)].
    + intros h' Hhd. cases_h h' h; [eexists; reflexivity | exact (iG s I h' Hhd)].
  - (* reload thread releases the lock *)
    destruct (iB s I h hd0 cl0 (HRel :: r0) Hh) as [Hok Hlk]. simpl in Hok.
    apply andb_prop in Hok. destruct Hok as [Hheld Hok]. subst hd0.
    assert (Hl : lock s = OHelper h) by (apply Hlk; reflexivity).
    assert (Hnone : forall x, holds (clients s x) = false).
    { intros x. destruct (holds (clients s x)) eqn:E; [|reflexivity]. rewrite (iC s I x E) in Hl. discriminate. }
    constructor; simpl.
    + intros h' st Hst. cases_h h' h; [exact (iA s I h _ Hh) | exact (iA s I h' st Hst)].
    + intros h' hd cl r Hr. cases_h h' h.
      * injection Hr as <- <- <-. split; [exact Hok|]. split; discriminate.
      * destruct (iB s I h' hd cl r Hr) as [H1 H2]. split; [exact H1|].
        split; [intros ->; destruct H2 as [H2 _]; specialize (H2 eq_refl); rewrite Hl in H2; injection H2 as ->; contradiction
               | discriminate].
    + intros x Hx. rewrite Hnone in Hx. discriminate.
    + intros x h' Hx. pose proof (Hnone x) as H. rewrite Hx in H. discriminate.
    + intros x Hx. pose proof (Hnone x) as H. rewrite Hx in H. discriminate.
    + intros Hp h' hd cl r Hhd Hr. cases_h h' h; [injection Hr as <- <- <-; exact (iF s I Hp h _ _ _ Hhd Hh) | exact (iF s I Hp h' hd cl r Hhd Hr)].
    + intros h' Hhd. cases_h h' h; [eexists; reflexivity | exact (iG s I h' Hhd)].
  - (* reload thread clears the mark: it holds the lock, so no client is inside ares_reinit's locked part *)
    destruct (iB s I h hd0 cl0 (HClear :: r0) Hh) as [Hok Hlk]. simpl in Hok.
    apply andb_prop in Hok. destruct Hok as [Hheld Hok]. subst hd0.
    assert (Hl : lock s = OHelper h) by (apply Hlk; reflexivity).
    assert (Hnone : forall x, holds (clients s x) = false).
    { intros x. destruct (holds (clients s x)) eqn:E; [|reflexivity]. rewrite (iC s I x E) in Hl. discriminate. }
    pose proof (iA s I h _ Hh) as Hhandle.
    constructor; simpl.
    + intros h' st Hst. cases_h h' h; [exact Hhandle | exact (iA s I h' st Hst)].
    + intros h' hd cl r Hr. cases_h h' h; [injection Hr as <- <- <-; split; assumption | exact (iB s I h' hd cl r Hr)].
    + exact (iC s I).
    + intros x h' Hx. pose proof (Hnone x) as H. rewrite Hx in H. discriminate.
    + intros x Hx. pose proof (Hnone x) as H. rewrite Hx in H. discriminate.
    + intros _ h' hd cl r Hhd Hr. rewrite Hhandle in Hhd. injection Hhd as <-. rewrite hupd_same in Hr.
      injection Hr as <- <- <-. reflexivity.
    + intros h' Hhd. cases_h h' h; [eexists; reflexivity | exact (iG s I h' Hhd)].
Qed.

Lemma inv_reach s : reach prog s -> Inv s.
Proof. induction 1 as [|s s' _ IH Hs]; [apply inv_initial | eapply inv_step; eassumption]. Qed.

(* No wait cycle through a join: in no reachable state does a client wait (holding the channel
   lock) for a reload thread that still has to take the channel lock. *)
Theorem no_join_cycle s : reach prog s -> ~ join_cycle s.
Proof.
  intros Hr (c & h & hd & cl & r & Hc & Hh & Hacq).
  pose proof (inv_reach s Hr) as I.
  destruct (iD s I c h Hc) as (_ & _ & Hcl). specialize (Hcl hd cl r Hh). subst cl.
  destruct (iB s I h hd true r Hh) as [Hok _].
  rewrite (cleared_no_acq r hd Hok) in Hacq. discriminate.
Qed.

(* ... and the joined thread can always finish: it exists, and unless it has already returned
   one of its own steps is enabled whatever the lock's state *)
Theorem join_makes_progress s c h : reach prog s -> clients s c = CJoin h ->
  exists hd cl r, helpers s h = Some (hd, cl, r) /\ (r = [] \/ exists s', step prog s s').
Proof.
  intros Hr Hc. pose proof (inv_reach s Hr) as I.
  destruct (iD s I c h Hc) as (Hhd & _ & Hcl).
  destruct (iG s I h Hhd) as [[[hd cl] r] Hh].
  exists hd, cl, r. split; [exact Hh|].
  specialize (Hcl hd cl r Hh). subst cl.
  destruct (iB s I h hd true r Hh) as [Hok _].
  pose proof (cleared_no_acq r hd Hok) as Hna.
  destruct r as [|a r]; [left; reflexivity|]. right.
  destruct a; simpl in Hna; try discriminate.
  - eexists. eapply s_hwork. exact Hh.
  - eexists. eapply s_hrel. exact Hh.
  - eexists. eapply s_hclear. exact Hh.
Qed.

(* mutual exclusion on the way: a client inside the locked part of ares_reinit and a reload
   thread inside its bracket never coexist *)
Theorem reinit_mutex s c h hd cl r : reach prog s ->
  holds (clients s c) = true -> helpers s h = Some (hd, cl, r) -> hd = false.
Proof. intros Hr. apply client_excludes_helper. apply inv_reach. exact Hr. Qed.

End Proofs.

(* ---------------------------------------------------------------------------------------- *)
(* an executable scheduler for concrete witnesses: each label fires one rule of [step]        *)
Inductive label := LCall (c : nat) | LLock (c : nat) | LSkip (c : nat) | LMark (c : nat)
                 | LJoined (c : nat) | LCreate (c : nat) | LHelper (h : nat).

Definition exec1 (prog : list hact) (l : label) (s : sys) : option sys :=
  match l with
  | LCall c => match clients s c with
               | CIdle => Some (mkSys (pending s) (handle s) (lock s) (cupd (clients s) c CWantLock) (helpers s) (nhelpers s))
               | _ => None end
  | LLock c => match clients s c, lock s with
               | CWantLock, ONone => Some (mkSys (pending s) (handle s) (OClient c) (cupd (clients s) c CLocked) (helpers s) (nhelpers s))
               | _, _ => None end
  | LSkip c => match clients s c, pending s with
               | CLocked, true => Some (mkSys (pending s) (handle s) ONone (cupd (clients s) c CIdle) (helpers s) (nhelpers s))
               | _, _ => None end
  | LMark c => match clients s c, pending s, handle s with
               | CLocked, false, Some h => Some (mkSys true (handle s) (lock s) (cupd (clients s) c (CJoin h)) (helpers s) (nhelpers s))
               | CLocked, false, None => Some (mkSys true None (lock s) (cupd (clients s) c CCreate) (helpers s) (nhelpers s))
               | _, _, _ => None end
  | LJoined c => match clients s c with
                 | CJoin h => match helpers s h with
                              | Some (_, _, []) => Some (mkSys (pending s) None (lock s) (cupd (clients s) c CCreate) (hupd (helpers s) h None) (nhelpers s))
                              | _ => None end
                 | _ => None end
  | LCreate c => match clients s c with
                 | CCreate => Some (mkSys (pending s) (Some (nhelpers s)) ONone (cupd (clients s) c CIdle)
                                          (hupd (helpers s) (nhelpers s) (Some (false, false, prog))) (S (nhelpers s)))
                 | _ => None end
  | LHelper h => match helpers s h with
                 | Some (hd, cl, HWork :: r) => Some (mkSys (pending s) (handle s) (lock s) (clients s) (hupd (helpers s) h (Some (hd, cl, r))) (nhelpers s))
                 | Some (hd, cl, HAcq :: r) => match lock s with
                                               | ONone => Some (mkSys (pending s) (handle s) (OHelper h) (clients s) (hupd (helpers s) h (Some (true, cl, r))) (nhelpers s))
                                               | _ => None end
                 | Some (hd, cl, HRel :: r) => Some (mkSys (pending s) (handle s) ONone (clients s) (hupd (helpers s) h (Some (false, cl, r))) (nhelpers s))
                 | Some (hd, cl, HClear :: r) => Some (mkSys false (handle s) (lock s) (clients s) (hupd (helpers s) h (Some (hd, true, r))) (nhelpers s))
                 | _ => None end
  end.

Lemma exec1_step prog l s s' : exec1 prog l s = Some s' -> step prog s s'.
Proof.
  destruct l as [c|c|c|c|c|c|h]; simpl; intros H.
  - destruct (clients s c) eqn:E; try discriminate. injection H as <-. apply s_call. exact E.
  - destruct (clients s c) eqn:E; try discriminate. destruct (lock s) eqn:El; try discriminate.
    injection H as <-. apply s_lock; assumption.
  - destruct (clients s c) eqn:E; try discriminate. destruct (pending s) eqn:Ep; try discriminate.
    injection H as <-. rewrite <- Ep at 1. apply s_skip; assumption.
  - destruct (clients s c) eqn:E; try discriminate. destruct (pending s) eqn:Ep; try discriminate.
    destruct (handle s) as [h|] eqn:Eh; injection H as <-.
    + rewrite <- Eh. apply s_mark_join; assumption.
    + apply s_mark_nojoin; assumption.
  - destruct (clients s c) as [| | |h|] eqn:E; try discriminate.
    destruct (helpers s h) as [[[hd cl] [|a r]]|] eqn:Eh; try discriminate.
    injection H as <-. eapply s_joined; eassumption.
  - destruct (clients s c) eqn:E; try discriminate. injection H as <-. apply s_create. exact E.
  - destruct (helpers s h) as [[[hd cl] [|a r]]|] eqn:Eh; try discriminate.
    destruct a.
    + injection H as <-. eapply s_hwork. exact Eh.
    + destruct (lock s) eqn:El; try discriminate. injection H as <-. eapply s_hacq; eassumption.
    + injection H as <-. eapply s_hrel. exact Eh.
    + injection H as <-. eapply s_hclear. exact Eh.
Qed.

Fixpoint exec (prog : list hact) (ls : list label) (s : sys) : option sys :=
  match ls with
  | [] => Some s
  | l :: r => match exec1 prog l s with Some s' => exec prog r s' | None => None end
  end.

Lemma exec_reach prog ls : forall s s', reach prog s -> exec prog ls s = Some s' -> reach prog s'.
Proof.
  induction ls as [|l r IH]; simpl; intros s s' Hr H; [injection H as <-; exact Hr|].
  destruct (exec1 prog l s) as [s1|] eqn:E; [|discriminate].
  eapply IH; [|exact H]. eapply r_step; [exact Hr | eapply exec1_step; exact E].
Qed.

(* Clearing the mark before the work is done (and taking the lock again afterwards) admits the
   wait cycle: a second ares_reinit joins, under the lock, a thread that still needs the lock. *)
Definition early_clear_prog : list hact := [HAcq; HClear; HRel; HWork; HAcq; HRel].

Definition early_clear_schedule : list label :=
  [LCall 0; LLock 0; LMark 0; LCreate 0; LHelper 0; LHelper 0; LHelper 0; LCall 0; LLock 0; LMark 0].

Theorem early_clear_refuted :
  helper_ok early_clear_prog = false /\ exists s, reach early_clear_prog s /\ join_cycle s.
Proof.
  split; [reflexivity|].
  destruct (exec early_clear_prog early_clear_schedule initial) as [s|] eqn:E; [|vm_compute in E; discriminate].
  exists s. split; [eapply exec_reach; [apply r_init | exact E]|].
  vm_compute in E. injection E as <-.
  exists 0, 0, false, true, [HWork; HAcq; HRel]. repeat split; reflexivity.
Qed.

(* non-vacuity for the code's shape: with a well-shaped program a second ares_reinit does get
   to join the first reload thread (after it cleared the mark) *)
Example join_state_reachable :
  let prog := [HAcq; HRel; HAcq; HWork; HClear; HRel] in
  helper_ok prog = true /\
  exists s, reach prog s /\ clients s 0 = CJoin 0.
Proof.
  split; [reflexivity|].
  destruct (exec [HAcq; HRel; HAcq; HWork; HClear; HRel]
                 [LCall 0; LLock 0; LMark 0; LCreate 0; LHelper 0; LHelper 0; LHelper 0; LHelper 0; LHelper 0; LHelper 0;
                  LCall 0; LLock 0; LMark 0] initial) as [s|] eqn:E; [|vm_compute in E; discriminate].
  exists s. split; [eapply exec_reach; [apply r_init | exact E]|].
  vm_compute in E. injection E as <-. reflexivity.
Qed.
