(* Proofs about the generated time arithmetic and the hand models of Core/Time.v (C06/C07). *)
From CAres.Base Require Import CInt.
From CAres.Gen Require Import Consts LeafFns.
From CAres.Core Require Import Time.
From Coq Require Import Sorted.
Local Open Scope Z_scope.

Ltac Zify.zify_post_hook ::= Z.div_mod_to_equations.

(* powers of two used by the generated text, as literals for lia *)
Lemma p63 : 2 ^ 63 = 9223372036854775808. Proof. reflexivity. Qed.
Lemma p61 : 2 ^ 61 = 2305843009213693952. Proof. reflexivity. Qed.
Lemma p62 : 2 ^ 62 = 4611686018427387904. Proof. reflexivity. Qed.
Lemma p64 : 2 ^ 64 = 18446744073709551616. Proof. reflexivity. Qed.
Lemma p32 : 2 ^ 32 = 4294967296. Proof. reflexivity. Qed.
Lemma p31 : 2 ^ 31 = 2147483648. Proof. reflexivity. Qed.

Ltac pows := rewrite ?p63, ?p62, ?p61, ?p64, ?p32, ?p31 in *.

(* turn one boolean comparison (the condition of the next `if`/guard) into a Prop, both ways *)
Ltac bdestr b :=
  let H := fresh "C" in
  destruct b eqn:H;
  repeat match type of H with
    | (_ && _) = true => apply andb_prop in H; destruct H as [? H]
    | (_ && _) = false => apply andb_false_iff in H
    | (_ || _) = false => apply orb_false_iff in H; destruct H as [? H]
    | (_ || _) = true => apply orb_prop in H
    | negb _ = true => apply negb_true_iff in H
    | negb _ = false => apply negb_false_iff in H
    end.

(* destruct the condition of the outermost `if` of the goal *)
Ltac case_if :=
  match goal with |- context [if ?b then _ else _] => bdestr b end.

Ltac b2p :=
  repeat match goal with
    | H : (_ <? _) = true |- _ => apply Z.ltb_lt in H
    | H : (_ <? _) = false |- _ => apply Z.ltb_ge in H
    | H : (_ <=? _) = true |- _ => apply Z.leb_le in H
    | H : (_ <=? _) = false |- _ => apply Z.leb_gt in H
    | H : (_ >? _) = true |- _ => rewrite Z.gtb_ltb in H; apply Z.ltb_lt in H
    | H : (_ >? _) = false |- _ => rewrite Z.gtb_ltb in H; apply Z.ltb_ge in H
    | H : (_ >=? _) = true |- _ => rewrite Z.geb_leb in H; apply Z.leb_le in H
    | H : (_ >=? _) = false |- _ => rewrite Z.geb_leb in H; apply Z.leb_gt in H
    | H : (_ =? _) = true |- _ => apply Z.eqb_eq in H
    | H : (_ =? _) = false |- _ => apply Z.eqb_neq in H
    | H : _ /\ _ |- _ => destruct H
    end.

Ltac solve_guard :=
  b2p; repeat match goal with H : _ \/ _ |- _ => destruct H end; b2p; lia.
(* a guard of the generated text whose condition holds: continue in the true branch *)
Ltac guard_if := case_if; [ b2p | solve [solve_guard] ].

Lemma tv_ok_iff t : tv_okb t = true <-> tv_ok t.
Proof.
  unfold tv_okb, tv_ok. rewrite !andb_true_iff, !Z.leb_le, !Z.ltb_lt. tauto.
Qed.

(* ------------------------------------------------------------------------------------- *)
(* ares_timedout                                                                          *)
(* ------------------------------------------------------------------------------------- *)

Lemma timedout_iff now check :
  tv_ok now -> tv_ok check ->
  timedout now check = Ok (tv_us check <=? tv_us now).
Proof.
  intros [Hnu Hns] [Hcu Hcs]. unfold timedout, c_ares_timedout, tv_us, SEC_LIMIT in *.
  destruct now as [ns nu], check as [cs cu]; cbn [tv_sec tv_usec] in *. pows.
  unfold guard, ARES_TRUE, ARES_FALSE.
  guard_if.
  case_if; b2p.
  { cbn. symmetry. f_equal. apply Z.leb_le. lia. }
  case_if; b2p.
  { cbn. f_equal. symmetry. apply Z.leb_gt. lia. }
  guard_if.
  case_if; b2p; cbn; f_equal; symmetry.
  - apply Z.leb_le. lia.
  - apply Z.leb_gt. lia.
Qed.

(* ------------------------------------------------------------------------------------- *)
(* ares_timeval_remaining                                                                 *)
(* ------------------------------------------------------------------------------------- *)

Lemma remaining_sound now tout :
  tv_ok now -> tv_ok tout ->
  exists r, timeval_remaining now tout = Ok r /\
            0 <= tv_sec r /\ 0 <= tv_usec r < 1000000 /\
            tv_us r = Z.max 0 (tv_us tout - tv_us now).
Proof.
  intros [Hnu Hns] [Htu Hts]. unfold timeval_remaining, c_ares_timeval_remaining, tv_us, SEC_LIMIT in *.
  destruct now as [ns nu], tout as [ts tu]; cbn [tv_sec tv_usec] in *. pows.
  unfold guard.
  case_if.
  { eexists; split; [reflexivity|]. cbn. destruct C; b2p; lia. }
  b2p.
  guard_if.
  case_if; b2p.
  - guard_if.
    eexists; split; [reflexivity|]. cbn [fst snd tv_sec tv_usec].
    assert (ts <> ns) by (destruct C; b2p; lia).
    rewrite (Z.mod_small (tu + 1000000)) by lia.
    rewrite Z.mod_small by lia. lia.
  - eexists; split; [reflexivity|]. cbn [fst snd tv_sec tv_usec].
    rewrite Z.mod_small by lia. lia.
Qed.

(* ------------------------------------------------------------------------------------- *)
(* ares_timeval_diff: exact difference when stop >= start.  NOTE (by reading, harmless for
   its only arithmetic use, ares_metrics_record): the comparison is `>` not `>=`, so equal
   microseconds give usec = 1000000 (not normalised); the value sec*10^6+usec is still exact. *)
(* ------------------------------------------------------------------------------------- *)

Lemma diff_exact tvstart tvstop :
  tv_ok tvstart -> tv_ok tvstop ->
  exists r, timeval_diff tvstart tvstop = Ok r /\
            0 < tv_usec r <= 1000000 /\
            tv_us r = tv_us tvstop - tv_us tvstart.
Proof.
  intros [Hau Has] [Hbu Hbs]. unfold timeval_diff, c_ares_timeval_diff, tv_us, SEC_LIMIT in *.
  destruct tvstart as [ss su], tvstop as [es eu]; cbn [tv_sec tv_usec] in *. pows.
  unfold guard.
  guard_if.
  case_if; b2p.
  - eexists; split; [reflexivity|]. cbn [fst snd tv_sec tv_usec]. rewrite Z.mod_small by lia. lia.
  - guard_if.
    eexists; split; [reflexivity|]. cbn [fst snd tv_sec tv_usec].
    rewrite (Z.mod_small (eu + 1000000)) by lia. rewrite Z.mod_small by lia. lia.
Qed.

(* ------------------------------------------------------------------------------------- *)
(* timeadd                                                                                *)
(* ------------------------------------------------------------------------------------- *)

Lemma swrap64_small z : 0 <= z < 2 ^ 63 -> swrap 64 z = z.
Proof. intros. apply swrap_small; [lia | exact H]. Qed.

Lemma timeadd_exact now ms :
  tv_ok now -> 0 <= ms < 2 ^ 63 ->
  exists r, timeadd now ms = Ok r /\ 0 <= tv_usec r < 1000000 /\
            tv_us r = tv_us now + ms * 1000.
Proof.
  intros [Hu Hs] Hms. unfold timeadd, c_timeadd, tv_us, SEC_LIMIT in *.
  destruct now as [s u]; cbn [tv_sec tv_usec] in *.
  rewrite swrap64_small by exact Hms. pows.
  unfold guard.
  assert (Z.quot ms 1000 = ms / 1000) as Eq by (apply Z.quot_div_nonneg; lia). rewrite Eq.
  guard_if.
  assert (((ms mod 1000 * 1000) mod 18446744073709551616) mod 4294967296 = ms mod 1000 * 1000) as E1.
  { rewrite (Z.mod_small (ms mod 1000 * 1000)) by lia. apply Z.mod_small. lia. }
  rewrite E1.
  assert ((u + ms mod 1000 * 1000) mod 4294967296 = u + ms mod 1000 * 1000) as E2 by (apply Z.mod_small; lia).
  rewrite E2.
  case_if; b2p.
  - guard_if.
    eexists; split; [reflexivity|]. cbn [fst snd tv_sec tv_usec]. lia.
  - eexists; split; [reflexivity|]. cbn [fst snd tv_sec tv_usec]. lia.
Qed.

(* A wait of 2^63 ms or more (size_t) is converted to a NEGATIVE ares_int64_t by
   `(ares_int64_t)millisecs / 1000`: the deadline lands before `now`. *)
Lemma timeadd_huge_goes_backwards :
  exists now ms r, tv_ok now /\ 0 <= ms < 2 ^ 64 /\ timeadd now ms = Ok r /\ tv_us r < tv_us now.
Proof.
  exists (TV 1000 0), (2 ^ 63), (TV (1000 - 9223372036854775) 808000).
  split; [unfold tv_ok, SEC_LIMIT; cbn; lia|]. split; [cbn; lia|]. split; [vm_compute; reflexivity|].
  vm_compute. reflexivity.
Qed.

(* ------------------------------------------------------------------------------------- *)
(* the deadline comparator of channel->queries_by_timeout                                  *)
(* ------------------------------------------------------------------------------------- *)

Lemma cmp_is_compare a b :
  tv_ok a -> tv_ok b ->
  query_timeout_cmp a b = Ok (match tv_us a ?= tv_us b with Lt => -1 | Eq => 0 | Gt => 1 end).
Proof.
  intros [Hau Has] [Hbu Hbs]. unfold query_timeout_cmp, c_ares_query_timeout_cmp_cb, tv_us in *.
  destruct a as [sa ua], b as [sb ub]; cbn [tv_sec tv_usec] in *.
  unfold guard. change (negb (1 =? - 2 ^ 31)) with true. cbv iota.
  case_if; b2p.
  { assert (sa * 1000000 + ua > sb * 1000000 + ub) as G by lia. apply Z.compare_gt_iff in G.
    rewrite (proj2 (Z.compare_gt_iff _ _)) by lia. reflexivity. }
  case_if; b2p.
  { rewrite (proj2 (Z.compare_lt_iff _ _)) by lia. reflexivity. }
  case_if; b2p.
  { rewrite (proj2 (Z.compare_gt_iff _ _)) by lia. reflexivity. }
  case_if; b2p.
  { rewrite (proj2 (Z.compare_lt_iff _ _)) by lia. reflexivity. }
  rewrite (proj2 (Z.compare_eq_iff _ _)) by lia. reflexivity.
Qed.

Lemma cmp_leb_iff a b : tv_ok a -> tv_ok b -> (cmp_leb a b = true <-> tv_us a <= tv_us b).
Proof.
  intros Ha Hb. unfold cmp_leb. rewrite (cmp_is_compare a b Ha Hb).
  destruct (Z.compare_spec (tv_us a) (tv_us b)); cbn; split; intros; try lia; try discriminate; reflexivity.
Qed.

(* total preorder consistent with the deadline order: what the sorted-list theorem of the
   skip list (C19) needs as its hypothesis on the comparator *)
Lemma cmp_total_preorder :
  (forall a, tv_ok a -> cmp_leb a a = true) /\
  (forall a b c, tv_ok a -> tv_ok b -> tv_ok c -> cmp_leb a b = true -> cmp_leb b c = true -> cmp_leb a c = true) /\
  (forall a b, tv_ok a -> tv_ok b -> cmp_leb a b = true \/ cmp_leb b a = true) /\
  (forall a b, tv_ok a -> tv_ok b ->
     exists c, query_timeout_cmp a b = Ok c /\ (c = -1 \/ c = 0 \/ c = 1) /\
               query_timeout_cmp b a = Ok (- c) /\
               (c = 0 <-> tv_us a = tv_us b)).
Proof.
  repeat split.
  - intros a Ha. apply cmp_leb_iff; auto; lia.
  - intros a b c Ha Hb Hc H1 H2. apply cmp_leb_iff in H1; auto. apply cmp_leb_iff in H2; auto.
    apply cmp_leb_iff; auto; lia.
  - intros a b Ha Hb. destruct (Z.le_ge_cases (tv_us a) (tv_us b)); [left|right]; apply cmp_leb_iff; auto.
  - intros a b Ha Hb. rewrite (cmp_is_compare a b Ha Hb), (cmp_is_compare b a Hb Ha).
    rewrite (Z.compare_antisym (tv_us a) (tv_us b)).
    destruct (Z.compare_spec (tv_us a) (tv_us b)); cbn; eexists; (split; [reflexivity|]); repeat split; intros; try lia; try discriminate.
Qed.

Definition sorted_deadlines (l : list timeval) : Prop :=
  StronglySorted (fun a b => cmp_leb a b = true) l.

Lemma sorted_head_min first rest :
  Forall tv_ok (first :: rest) -> sorted_deadlines (first :: rest) ->
  forall d, In d (first :: rest) -> tv_us first <= tv_us d.
Proof.
  intros Hok Hs d Hin. inversion Hs as [|x l Hs' Hall]; subst.
  destruct Hin as [<-|Hin]; [lia|].
  rewrite Forall_forall in Hall. specialize (Hall d Hin).
  inversion Hok as [|x l Hf Hr]; subst. rewrite Forall_forall in Hr.
  apply cmp_leb_iff in Hall; auto.
Qed.

(* ------------------------------------------------------------------------------------- *)
(* ares_timeout_int                                                                        *)
(* ------------------------------------------------------------------------------------- *)

(* caller's maximum: a valid struct timeval (non-negative) *)
Definition maxtv_ok (m : option timeval) : Prop :=
  match m with None => True | Some t => tv_ok t /\ 0 <= tv_sec t end.

Definition opt_le_us (v : option timeval) (bound : Z) : Prop :=
  match v with None => True | Some t => tv_us t <= bound end.

Lemma swrap32_small z : 0 <= z < 1000000 -> swrap 32 z = z.
Proof. intros. apply swrap_small; [lia | change (2 ^ (32 - 1)) with 2147483648; lia]. Qed.

Lemma timeout_int_sound deadlines now maxtv :
  tv_ok now -> Forall tv_ok deadlines -> sorted_deadlines deadlines -> maxtv_ok maxtv ->
  exists h, timeout_int deadlines now maxtv = Ok h /\
    let v := hint_value h maxtv in
    (* NULL only when nothing is outstanding and the caller gave no maximum *)
    (v = None <-> deadlines = [] /\ maxtv = None) /\
    (forall t, v = Some t ->
       0 <= tv_sec t /\ 0 <= tv_usec t < 1000000 /\
       (* never later than ANY pending deadline (0 when one has already passed) *)
       (forall d, In d deadlines -> tv_us t <= Z.max 0 (tv_us d - tv_us now)) /\
       (* never later than the caller's maximum *)
       (forall m, maxtv = Some m -> tv_us t <= tv_us m) /\
       (* and exactly the minimum of the two *)
       match deadlines, maxtv with
       | [], _ => maxtv = Some t
       | first :: _, None => tv_us t = Z.max 0 (tv_us first - tv_us now)
       | first :: _, Some m => tv_us t = Z.min (Z.max 0 (tv_us first - tv_us now)) (tv_us m)
       end).
Proof.
  intros Hnow Hdl Hsorted Hmax.
  destruct deadlines as [|first rest].
  { exists HintMax. split; [reflexivity|]. cbn. split.
    - split; [intros ->; auto | intros [_ ->]; reflexivity].
    - intros t Ht. subst maxtv. cbn in Hmax. destruct Hmax as [[Hu Hs] H0].
      split; [lia|]. split; [lia|]. split; [intros d []|]. split; [intros m [= ->]; lia|]. reflexivity. }
  assert (tv_ok first) as Hfirst by (inversion Hdl; assumption).
  destruct (remaining_sound now first Hnow Hfirst) as (r & Er & Hrs & Hru & Hrv).
  pose proof (sorted_head_min first rest Hdl Hsorted) as Hmin.
  unfold timeout_int. rewrite Er. cbn [bind].
  unfold to_struct_timeval, c_ares_timeval_to_struct_timeval. cbn [bind fst snd].
  rewrite (swrap32_small (tv_usec r)) by lia.
  assert (forall d, In d (first :: rest) -> tv_us r <= Z.max 0 (tv_us d - tv_us now)) as Hall.
  { intros d Hd. specialize (Hmin d Hd). lia. }
  assert (tv_us (TV (tv_sec r) (tv_usec r)) = tv_us r) as Ebuf by reflexivity.
  assert (tv_us r = tv_sec r * 1000000 + tv_usec r) as Ur by reflexivity.
  destruct maxtv as [m|].
  - cbn in Hmax. destruct Hmax as [[Hmu Hms] Hm0].
    unfold of_struct_timeval, c_struct_timeval_to_ares_timeval. cbn [bind fst snd tv_sec tv_usec].
    rewrite (Z.mod_small (tv_usec m)) by (rewrite p32; lia).
    assert (tv_us m = tv_sec m * 1000000 + tv_usec m) as Um by reflexivity.
    (* the two possible answers and what has to be shown for each *)
    assert (tv_us m <= tv_us r ->
            exists h, Ok HintMax = Ok h /\
              (hint_value h (Some m) = None <-> first :: rest = [] /\ Some m = None) /\
              (forall t, hint_value h (Some m) = Some t ->
                 0 <= tv_sec t /\ 0 <= tv_usec t < 1000000 /\
                 (forall d, In d (first :: rest) -> tv_us t <= Z.max 0 (tv_us d - tv_us now)) /\
                 (forall m0, Some m = Some m0 -> tv_us t <= tv_us m0) /\
                 tv_us t = Z.min (Z.max 0 (tv_us first - tv_us now)) (tv_us m))) as RetMax.
    { intros Hle. exists HintMax. split; [reflexivity|]. cbn [hint_value].
      split; [split; [discriminate | intros [? ?]; discriminate]|].
      intros t [= <-]. split; [lia|]. split; [lia|].
      split; [intros d Hd; specialize (Hall d Hd); lia|].
      split; [intros m0 [= <-]; lia|]. lia. }
    assert (tv_us r <= tv_us m ->
            exists h, Ok (HintBuf (TV (tv_sec r) (tv_usec r))) = Ok h /\
              (hint_value h (Some m) = None <-> first :: rest = [] /\ Some m = None) /\
              (forall t, hint_value h (Some m) = Some t ->
                 0 <= tv_sec t /\ 0 <= tv_usec t < 1000000 /\
                 (forall d, In d (first :: rest) -> tv_us t <= Z.max 0 (tv_us d - tv_us now)) /\
                 (forall m0, Some m = Some m0 -> tv_us t <= tv_us m0) /\
                 tv_us t = Z.min (Z.max 0 (tv_us first - tv_us now)) (tv_us m))) as RetBuf.
    { intros Hle. eexists. split; [reflexivity|]. cbn [hint_value].
      split; [split; [discriminate | intros [? ?]; discriminate]|].
      intros t [= <-]. rewrite Ebuf. cbn [tv_sec tv_usec]. split; [lia|]. split; [lia|].
      split; [intros d Hd; specialize (Hall d Hd); lia|].
      split; [intros m0 [= <-]; lia|]. lia. }
    case_if; b2p; [apply RetMax; lia|].
    case_if; b2p; [apply RetBuf; lia|].
    case_if; b2p; [apply RetMax; lia | apply RetBuf; lia].
  - eexists. split; [reflexivity|]. cbn [hint_value].
    split; [split; [discriminate | intros [? ?]; discriminate]|].
    intros t [= <-]. rewrite Ebuf. cbn [tv_sec tv_usec]. split; [lia|]. split; [lia|].
    split; [intros d Hd; specialize (Hall d Hd); lia|].
    split; [intros m0 [=]|]. lia.
Qed.

(* ------------------------------------------------------------------------------------- *)
(* process_timeouts: pop while expired                                                     *)
(* ------------------------------------------------------------------------------------- *)

Lemma timeadd_ok now ms :
  tv_ok now -> tv_sec now < 2 ^ 61 -> 0 <= ms < 2 ^ 63 ->
  exists r, timeadd now ms = Ok r /\ tv_ok r /\ tv_us r = tv_us now + ms * 1000.
Proof.
  intros Hok Hs Hms. destruct (timeadd_exact now ms Hok Hms) as (r & E & Hu & Hv).
  exists r. split; [exact E|]. split; [|exact Hv].
  destruct Hok as [Hnu Hns]. unfold tv_ok, tv_us, SEC_LIMIT in *. pows.
  change (2 ^ 61) with 2305843009213693952 in Hs. split; [exact Hu|]. lia.
Qed.

Section ProcessTimeoutsProofs.
  Variable Q : Type.
  Variable requeue : Q -> option Z.
  Variable now : timeval.
  Hypothesis now_ok : tv_ok now.
  Hypothesis now_small : tv_sec now < 2 ^ 61.
  (* every re-sent query waits at least 1 ms and less than 2^63 ms: this is C06_wait_bounds
     for the (fixed) ares_calc_query_timeout, see Retry_proofs/Calc_proofs *)
  Hypothesis requeue_wait : forall q w, requeue q = Some w -> 1 <= w < 2 ^ 63.

  Let entry := (Q * timeval)%type.
  Definition expiredb (x : Q * timeval) : bool := tv_us (snd x) <=? tv_us now.
  Definition entries_ok (l : list (Q * timeval)) := Forall (fun x => tv_ok (snd x)) l.
  Definition entries_sorted (l : list (Q * timeval)) :=
    StronglySorted (fun a b => tv_us (snd a) <= tv_us (snd b)) l.

  Lemma insert_in x l y : In y (insert_sorted Q x l) <-> y = x \/ In y l.
  Proof.
    induction l as [|z r IH]; cbn.
    - intuition congruence.
    - destruct (cmp_leb (snd z) (snd x)); cbn; rewrite ?IH; intuition congruence.
  Qed.

  Lemma insert_ok x l : tv_ok (snd x) -> entries_ok l -> entries_ok (insert_sorted Q x l).
  Proof.
    intros Hx Hl. unfold entries_ok in *. rewrite Forall_forall in *. intros y Hy.
    apply insert_in in Hy. destruct Hy as [->|Hy]; auto.
  Qed.

  Lemma insert_sorted_sorted x l :
    tv_ok (snd x) -> entries_ok l -> entries_sorted l -> entries_sorted (insert_sorted Q x l).
  Proof.
    intros Hx Hl Hs. induction l as [|z r IH]; cbn.
    - constructor; constructor.
    - inversion Hl as [|? ? Hz Hr]; subst. inversion Hs as [|? ? Hsr Hall]; subst.
      destruct (cmp_leb (snd z) (snd x)) eqn:E.
      + apply cmp_leb_iff in E; auto. constructor; [apply IH; assumption|].
        rewrite Forall_forall in *. intros y Hy. apply insert_in in Hy. destruct Hy as [->|Hy]; auto.
      + assert (tv_us (snd x) < tv_us (snd z)) as Hlt.
        { destruct (Z.lt_ge_cases (tv_us (snd x)) (tv_us (snd z))) as [|Hge]; [assumption|].
          apply Z.ge_le_iff in Hge. apply Z.ge_le in Hge.
          apply (proj2 (cmp_leb_iff (snd z) (snd x) Hz Hx)) in Hge. congruence. }
        constructor; [assumption|]. constructor; [lia|].
        rewrite Forall_forall in *. intros y Hy. specialize (Hall y Hy). lia.
  Qed.

  Lemma insert_filter_expired x l :
    expiredb x = false -> filter expiredb (insert_sorted Q x l) = filter expiredb l.
  Proof.
    intros Hx. induction l as [|z r IH]; cbn.
    - rewrite Hx. reflexivity.
    - destruct (cmp_leb (snd z) (snd x)); cbn.
      + rewrite IH. reflexivity.
      + rewrite Hx. reflexivity.
  Qed.

  Lemma sorted_first_unexpired x l :
    entries_sorted (x :: l) -> expiredb x = false -> Forall (fun y => expiredb y = false) (x :: l).
  Proof.
    intros Hs Hx. inversion Hs as [|? ? _ Hall]; subst. constructor; [assumption|].
    rewrite Forall_forall in *. intros y Hy. specialize (Hall y Hy).
    unfold expiredb in *. apply Z.leb_gt in Hx. apply Z.leb_gt. lia.
  Qed.

  Lemma filter_len_le (l : list (Q * timeval)) : (length (filter expiredb l) <= length l)%nat.
  Proof. induction l as [|y r IH]; cbn; [lia|]. destruct (expiredb y); cbn; lia. Qed.

  Lemma filter_none l : Forall (fun y => expiredb y = false) l -> filter expiredb l = [].
  Proof.
    induction 1 as [|y r Hy _ IH]; cbn; [reflexivity|]. rewrite Hy. exact IH.
  Qed.

  (* where the elements of the final index come from *)
  Definition origin (idx : list (Q * timeval)) (x : Q * timeval) : Prop :=
    In x idx \/ exists w, requeue (fst x) = Some w /\ timeadd now w = Ok (snd x).

  Lemma process_timeouts_main n : forall idx handled,
    entries_ok idx -> entries_sorted idx -> (length (filter expiredb idx) <= n)%nat ->
    exists idx',
      process_timeouts Q requeue n now idx handled
        = Ok (idx', rev handled ++ map fst (filter expiredb idx)) /\
      entries_ok idx' /\ entries_sorted idx' /\
      Forall (fun y => expiredb y = false) idx' /\
      (forall x, In x idx -> expiredb x = false -> In x idx') /\
      (forall x, In x idx' -> origin idx x).
  Proof.
    induction n as [|n IH]; intros idx handled Hok Hs Hlen.
    - destruct idx as [|[q dl] rest]; cbn [process_timeouts].
      + exists []. cbn. rewrite app_nil_r. split; [reflexivity|]. split; [constructor|]. split; [constructor|].
        split; [constructor|]. split; intros x [].
      + inversion Hok as [|? ? Hdl Hrest]; subst. cbn [snd] in Hdl.
        rewrite (timedout_iff now dl now_ok Hdl). cbn [bind].
        destruct (tv_us dl <=? tv_us now) eqn:E.
        * exfalso. cbn in Hlen. unfold expiredb in Hlen at 1. cbn [snd] in Hlen. rewrite E in Hlen. cbn in Hlen. lia.
        * cbn [negb]. pose proof (sorted_first_unexpired (q, dl) rest Hs E) as Hall.
          rewrite (filter_none _ Hall). cbn. rewrite app_nil_r.
          exists ((q, dl) :: rest). repeat split; auto. intros x Hx. left. exact Hx.
    - destruct idx as [|[q dl] rest]; cbn [process_timeouts].
      + exists []. cbn. rewrite app_nil_r. split; [reflexivity|]. split; [constructor|]. split; [constructor|].
        split; [constructor|]. split; intros x [].
      + inversion Hok as [|? ? Hdl Hrest]; subst. cbn [snd] in Hdl.
        inversion Hs as [|? ? Hsrest Hall]; subst.
        rewrite (timedout_iff now dl now_ok Hdl). cbn [bind].
        destruct (tv_us dl <=? tv_us now) eqn:E.
        * cbn [negb].
          assert (filter expiredb ((q, dl) :: rest) = (q, dl) :: filter expiredb rest) as Ef.
          { cbn. unfold expiredb at 1. cbn [snd]. rewrite E. reflexivity. }
          rewrite Ef in Hlen. cbn [length] in Hlen. rewrite Ef. cbn [map fst].
          destruct (requeue q) as [w|] eqn:Erq.
          -- assert (0 <= w < 2 ^ 63) as Hw by (pose proof (requeue_wait q w Erq); lia).
             destruct (timeadd_ok now w now_ok now_small Hw) as (ndl & Eadd & Hndl & Hv).
             rewrite Eadd. cbn [bind].
             assert (expiredb (q, ndl) = false) as Hne.
             { unfold expiredb. cbn [snd]. apply Z.leb_gt. pose proof (requeue_wait q w Erq). lia. }
             destruct (IH (insert_sorted Q (q, ndl) rest) (q :: handled)) as (idx' & Er & H1 & H2 & H3 & H4 & H5).
             { apply insert_ok; assumption. }
             { apply insert_sorted_sorted; assumption. }
             { rewrite insert_filter_expired by exact Hne. lia. }
             exists idx'. rewrite Er. rewrite insert_filter_expired by exact Hne.
             cbn [rev]. rewrite <- app_assoc. cbn [app].
             split; [reflexivity|]. split; [assumption|]. split; [assumption|]. split; [assumption|].
             split.
             ++ intros x [<-|Hx] Hxe.
                ** unfold expiredb in Hxe. cbn [snd] in Hxe. congruence.
                ** apply H4; [|exact Hxe]. apply insert_in. right. exact Hx.
             ++ intros x Hx. destruct (H5 x Hx) as [Hin|Hre]; [|right; exact Hre].
                apply insert_in in Hin. destruct Hin as [->|Hin].
                ** right. exists w. cbn [fst snd]. split; assumption.
                ** left. right. exact Hin.
          -- destruct (IH rest (q :: handled) Hrest Hsrest) as (idx' & Er & H1 & H2 & H3 & H4 & H5); [lia|].
             exists idx'. rewrite Er. cbn [rev]. rewrite <- app_assoc. cbn [app].
             split; [reflexivity|]. split; [assumption|]. split; [assumption|]. split; [assumption|].
             split.
             ++ intros x [<-|Hx] Hxe.
                ** unfold expiredb in Hxe. cbn [snd] in Hxe. congruence.
                ** apply H4; assumption.
             ++ intros x Hx. destruct (H5 x Hx) as [Hin|Hre]; [left; right; exact Hin | right; exact Hre].
        * cbn [negb]. pose proof (sorted_first_unexpired (q, dl) rest Hs E) as Hun.
          rewrite (filter_none _ Hun). cbn. rewrite app_nil_r.
          exists ((q, dl) :: rest). repeat split; auto. intros x Hx. left. exact Hx.
  Qed.

  (* fuel = number of entries is always enough: each expired entry is handled exactly once,
     because a re-sent query gets a deadline strictly after `now` *)
  Theorem process_timeouts_sound idx :
    entries_ok idx -> entries_sorted idx ->
    exists idx',
      process_timeouts Q requeue (length idx) now idx [] = Ok (idx', map fst (filter expiredb idx)) /\
      Forall (fun y => tv_us now < tv_us (snd y)) idx' /\
      (forall x, In x idx -> tv_us now < tv_us (snd x) -> In x idx') /\
      (forall x, In x idx' -> origin idx x) /\
      entries_sorted idx'.
  Proof.
    intros Hok Hs.
    destruct (process_timeouts_main (length idx) idx [] Hok Hs) as (idx' & Er & H1 & H2 & H3 & H4 & H5).
    { apply filter_len_le. }
    exists idx'. cbn [rev app] in Er. split; [exact Er|]. split.
    - rewrite Forall_forall in *. intros y Hy. specialize (H3 y Hy). unfold expiredb in H3.
      apply Z.leb_gt in H3. exact H3.
    - split; [|split; assumption]. intros x Hx Hlt. apply H4; [exact Hx|]. unfold expiredb. apply Z.leb_gt. exact Hlt.
  Qed.
End ProcessTimeoutsProofs.

Lemma hint_example :
  let now := TV 100 500000 in
  let dl := [TV 100 400000; TV 101 0; TV 150 7] in
  tv_ok now /\ Forall tv_ok dl /\ sorted_deadlines dl /\
  timeout_int dl now (Some (TV 0 250000)) = Ok (HintBuf (TV 0 0)) /\
  timeout_int (tl dl) now (Some (TV 0 250000)) = Ok HintMax /\
  timeout_int (tl dl) now None = Ok (HintBuf (TV 0 500000)).
Proof.
  cbv zeta. split; [apply tv_ok_iff; reflexivity|].
  split; [repeat constructor; apply tv_ok_iff; reflexivity|].
  split; [repeat constructor|].
  repeat split; vm_compute; reflexivity.
Qed.
