(* Time arithmetic of c-ares (C06/C07): thin wrappers around the GENERATED leaf functions
   (coq/Gen/LeafFns.v: ares_timedout, timeadd, ares_timeval_remaining, ares_timeval_diff,
   ares_query_timeout_cmp_cb, ares_timeval_to_struct_timeval, struct_timeval_to_ares_timeval)
   and hand models, in the shape of the C code, of the two small functions that are not
   loop-free / use local structs: ares_timeout_int (src/lib/ares_timeout.c) and the
   pop-while-expired loop of process_timeouts (src/lib/ares_process.c). *)
From CAres.Base Require Import CInt.
From CAres.Gen Require Import Consts LeafFns.
Local Open Scope Z_scope.

(* ares_timeval_t { ares_int64_t sec; unsigned int usec; }  and struct timeval *)
Record timeval := TV { tv_sec : Z; tv_usec : Z }.

(* exact time in microseconds (the "rational time" of the property statement) *)
Definition tv_us (t : timeval) : Z := tv_sec t * 1000000 + tv_usec t.

(* range in which the theorems are stated: a normalised timeval whose seconds are far from
   the ends of int64 (ares_tvnow() returns CLOCK_MONOTONIC / gettimeofday seconds) *)
Definition SEC_LIMIT : Z := 2 ^ 62.
Definition tv_okb (t : timeval) : bool :=
  (0 <=? tv_usec t) && (tv_usec t <? 1000000) && (- SEC_LIMIT <=? tv_sec t) && (tv_sec t <? SEC_LIMIT).
Definition tv_ok (t : timeval) : Prop :=
  0 <= tv_usec t < 1000000 /\ - SEC_LIMIT <= tv_sec t < SEC_LIMIT.

(* ---- wrappers: argument order of the generated functions is fixed here, once ---- *)
Definition timedout (now check : timeval) : outcome bool :=
  do r <- c_ares_timedout (tv_sec now) (tv_sec check) (tv_usec now) (tv_usec check);
  Ok (negb (r =? ARES_FALSE)).

Definition timeval_remaining (now tout : timeval) : outcome timeval :=
  do r <- c_ares_timeval_remaining (tv_sec tout) (tv_sec now) (tv_usec tout) (tv_usec now);
  Ok (TV (fst r) (snd r)).

Definition timeval_diff (tvstart tvstop : timeval) : outcome timeval :=
  do r <- c_ares_timeval_diff (tv_sec tvstop) (tv_sec tvstart) (tv_usec tvstop) (tv_usec tvstart);
  Ok (TV (fst r) (snd r)).

Definition timeadd (now : timeval) (millisecs : Z) : outcome timeval :=
  do r <- c_timeadd millisecs (tv_sec now) (tv_usec now);
  Ok (TV (fst r) (snd r)).

Definition query_timeout_cmp (a b : timeval) : outcome Z :=
  c_ares_query_timeout_cmp_cb (tv_sec a) (tv_sec b) (tv_usec a) (tv_usec b).

Definition cmp_leb (a b : timeval) : bool :=
  match query_timeout_cmp a b with Ok c => c <=? 0 | _ => false end.

Definition to_struct_timeval (atv : timeval) : outcome timeval :=
  do r <- c_ares_timeval_to_struct_timeval (tv_sec atv) (tv_usec atv);
  Ok (TV (fst r) (snd r)).

Definition of_struct_timeval (tv : timeval) : outcome timeval :=
  do r <- c_struct_timeval_to_ares_timeval (tv_sec tv) (tv_usec tv);
  Ok (TV (fst r) (snd r)).

(* ---- ares_timeout_int (hand model, same order of checks as the C code) ----
   [deadlines] is channel->queries_by_timeout read front to back; the C code only looks at
   the first node.  The function returns a POINTER: either maxtv itself (possibly NULL) or
   tvbuf after filling it in. *)
Inductive hint := HintMax | HintBuf (t : timeval).

Definition timeout_int (deadlines : list timeval) (now : timeval) (maxtv : option timeval)
  : outcome hint :=
  match deadlines with
  | [] => Ok HintMax                                   (* node == NULL: return maxtv *)
  | first :: _ =>
      do atvbuf <- timeval_remaining now first;
      do tvbuf <- to_struct_timeval atvbuf;
      match maxtv with
      | None => Ok (HintBuf tvbuf)
      | Some m =>
          do amaxtv <- of_struct_timeval m;
          if tv_sec atvbuf >? tv_sec amaxtv then Ok HintMax
          else if tv_sec atvbuf <? tv_sec amaxtv then Ok (HintBuf tvbuf)
          else if tv_usec atvbuf >? tv_usec amaxtv then Ok HintMax
          else Ok (HintBuf tvbuf)
      end
  end.

(* what the caller reads through the returned pointer; None = NULL *)
Definition hint_value (h : hint) (maxtv : option timeval) : option timeval :=
  match h with HintMax => maxtv | HintBuf t => Some t end.

(* ---- process_timeouts (hand model) ----
   The loop looks at the first element of the deadline-ordered index, stops when it has not
   expired, otherwise hands the query to ares_requeue_query(), which either ends it or
   re-sends it with a new deadline [now + wait] (wait computed by ares_calc_query_timeout)
   and re-inserts it in the index.  [requeue q] abstracts that decision: None = query ended,
   Some w = re-sent with a wait of w milliseconds.  [insert] is the ordered insertion of the
   skip list (after all equal elements). *)
Section ProcessTimeouts.
  Variable Q : Type.
  Variable requeue : Q -> option Z.

  Fixpoint insert_sorted (x : Q * timeval) (l : list (Q * timeval)) : list (Q * timeval) :=
    match l with
    | [] => [x]
    | y :: r => if cmp_leb (snd y) (snd x) then y :: insert_sorted x r else x :: y :: r
    end.

  (* handled: queries passed to ares_requeue_query, in order *)
  Fixpoint process_timeouts (fuel : nat) (now : timeval) (idx : list (Q * timeval)) (handled : list Q)
    : outcome (list (Q * timeval) * list Q) :=
    match idx with
    | [] => Ok ([], rev handled)
    | (q, dl) :: rest =>
        do expired <- timedout now dl;
        if negb expired then Ok (idx, rev handled)
        else match fuel with
             | O => Err OutOfFuel
             | S fuel' =>
                 match requeue q with
                 | None => process_timeouts fuel' now rest (q :: handled)
                 | Some w =>
                     do ndl <- timeadd now w;
                     process_timeouts fuel' now (insert_sorted (q, ndl) rest) (q :: handled)
                 end
             end
    end.
End ProcessTimeouts.

(* ---- executable statements of the property (the oracles the engine applies to what the
        implementation returned; extracted as they are) ---- *)
Definition spec_timedout (now check : timeval) : bool := tv_us check <=? tv_us now.
Definition spec_remaining_us (now tout : timeval) : Z := Z.max 0 (tv_us tout - tv_us now).

(* C07: the hint v (None = NULL) is never negative, never later than any pending deadline,
   never later than the caller's maximum, and NULL only when nothing is outstanding and no
   maximum was given *)
Definition hint_okb (deadlines : list timeval) (now : timeval) (maxtv v : option timeval) : bool :=
  match v with
  | None => match deadlines, maxtv with [], None => true | _, _ => false end
  | Some t =>
      (0 <=? tv_sec t) && (0 <=? tv_usec t) && (tv_usec t <? 1000000) &&
      forallb (fun d => tv_us t <=? spec_remaining_us now d) deadlines &&
      match maxtv with None => true | Some m => tv_us t <=? tv_us m end
  end.

(* stable insertion sort by the generated comparator: how the skip list orders deadlines *)
Fixpoint insert_deadline (x : timeval) (l : list timeval) : list timeval :=
  match l with
  | [] => [x]
  | y :: r => if cmp_leb y x then y :: insert_deadline x r else x :: y :: r
  end.
Definition sort_deadlines (l : list timeval) : list timeval := fold_left (fun acc x => insert_deadline x acc) l [].
