(* C10 - every trace of the library model (Core/Conn.v) is accepted by the socket-protocol
   monitor; what acceptance means in terms of the trace itself. *)
From CAres.Base Require Import CInt.
From CAres.Gen Require Import Consts.
From CAres.Core Require Import Conn.
Local Open Scope Z_scope.
Local Open Scope bool_scope.

(* ------------------------------------------------------------------------------------ *)
(* lists                                                                                 *)
(* ------------------------------------------------------------------------------------ *)
Lemma nth_error_last {A} (l : list A) x : nth_error (l ++ [x]) (length l) = Some x.
Proof. rewrite nth_error_app2 by lia. rewrite Nat.sub_diag. reflexivity. Qed.

Lemma upd_last {A} (l : list A) x y : upd (l ++ [x]) (length l) y = l ++ [y].
Proof. induction l as [|h t IH]; cbn; [reflexivity|]. rewrite IH. reflexivity. Qed.

Lemma upd_map {A B} (f : A -> B) l k c : upd (map f l) k (f c) = map f (upd l k c).
Proof.
  revert k. induction l as [|h t IH]; intros k; cbn; [destruct k; reflexivity|].
  destruct k; cbn; [reflexivity|]. rewrite IH. reflexivity.
Qed.

Lemma nth_error_upd_same {A} (l : list A) k x c : nth_error l k = Some c -> nth_error (upd l k x) k = Some x.
Proof.
  revert k. induction l as [|h t IH]; intros k H; destruct k; cbn in *; try discriminate; auto.
Qed.

Lemma upd_length {A} (l : list A) k x : length (upd l k x) = length l.
Proof. revert k. induction l as [|h t IH]; intros k; destruct k; cbn; auto. Qed.

Lemma Forall_upd {A} (P : A -> Prop) l k x : Forall P l -> P x -> Forall P (upd l k x).
Proof.
  intros H. revert k. induction H as [|h t Hh Ht IH]; intros k Hx; destruct k; cbn; constructor; auto.
Qed.

Lemma upd_app_l {A} (pre l : list A) k x : upd (pre ++ l) (length pre + k) x = pre ++ upd l k x.
Proof. induction pre as [|h t IH]; cbn; [reflexivity|]. rewrite IH. reflexivity. Qed.

Lemma nth_error_app_l {A} (pre l : list A) k : nth_error (pre ++ l) (length pre + k) = nth_error l k.
Proof. rewrite nth_error_app2 by lia. f_equal. lia. Qed.

(* ------------------------------------------------------------------------------------ *)
(* monitor runs                                                                          *)
(* ------------------------------------------------------------------------------------ *)
Lemma mon_run_app cfg m t1 t2 m1 :
  mon_run cfg m t1 = Accept m1 -> mon_run cfg m (t1 ++ t2) = mon_run cfg m1 t2.
Proof.
  revert m. induction t1 as [|e t1 IH]; intros m H; cbn in *.
  - injection H as ->. reflexivity.
  - destruct (mon_step cfg m e); [|discriminate]. apply IH. exact H.
Qed.

Definition fresh_only (k : nat) (evs : list sevent) : Prop :=
  Forall (fun e => e = ESetsockopt k \/ e = EBind k \/ e = EConnect k false) evs.

Lemma fresh_opt k b e : (e = ESetsockopt k \/ e = EBind k \/ e = EConnect k false) -> fresh_only k (opt_ev b e).
Proof. intros H. destruct b; cbn; [constructor; [exact H | constructor] | constructor]. Qed.

Lemma fresh_repeat k n : fresh_only k (repeat (EConnect k false) n).
Proof. induction n; cbn; constructor; auto. Qed.

Lemma fresh_app k a b : fresh_only k a -> fresh_only k b -> fresh_only k (a ++ b).
Proof. intros. apply Forall_app. auto. Qed.

Lemma run_fresh cfg l s evs : ms_phase s = PFresh -> fresh_only (length l) evs ->
  mon_run cfg (mkmon (l ++ [s]) false) evs = Accept (mkmon (l ++ [s]) false).
Proof.
  intros Hp H. induction H as [|e evs He Hevs IH]; cbn [mon_run]; [reflexivity|].
  assert (mon_step cfg (mkmon (l ++ [s]) false) e = Accept (mkmon (l ++ [s]) false)) as ->; [|exact IH].
  unfold mon_step. cbn [mn_destroyed].
  destruct He as [-> | [-> | ->]]; unfold on_sock; cbn [mn_socks]; rewrite nth_error_last, Hp; reflexivity.
Qed.

Ltac fresh_split := repeat match goal with |- fresh_only _ (_ ++ _) => apply fresh_app end.

(* the possible shapes of what ares_open_connection does *)
Lemma open_shape cfg k tcp env evs r : open_connection cfg k tcp env = (evs, r) ->
  (r = OpenNoSocket /\ evs = [ESocketFail]) \/
  (r = OpenFailedClosed /\ exists F, fresh_only k F /\
     (evs = ESocket k tcp :: F ++ [EClose k] \/
      evs = ESocket k tcp :: F ++ [EConnect k true] ++ opt_ev (has_gsn cfg) (EGetsockname k) ++ [EClose k])) \/
  (exists F flags tfo, r = OpenOk (mkcs tcp PConnected true flags 0 0 0 tfo false) /\ fresh_only k F /\
     evs = ESocket k tcp :: F ++ [EConnect k true] ++ opt_ev (has_gsn cfg) (EGetsockname k) ++ notify cfg k 0 flags /\
     (flags = 0 \/ flags = 1 \/ flags = 3)).
Proof.
  unfold open_connection. intros H.
  assert (Fs : forall b, fresh_only k (opt_ev b (ESetsockopt k))) by (intros; apply fresh_opt; auto).
  assert (Fb : forall b, fresh_only k (opt_ev b (EBind k))) by (intros; apply fresh_opt; auto).
  set (a1 := opt_ev (opt_sndbuf cfg && sockopt_visible cfg) (ESetsockopt k)) in *.
  set (a2 := opt_ev (opt_rcvbuf cfg && sockopt_visible cfg) (ESetsockopt k)) in *.
  set (a3 := opt_ev (opt_dev cfg && sockopt_visible cfg) (ESetsockopt k)) in *.
  set (a4 := opt_ev (opt_bind cfg && has_bind cfg) (EBind k)) in *.
  set (a5 := opt_ev (tcp && sockopt_visible cfg) (ESetsockopt k)) in *.
  set (g := opt_ev (has_gsn cfg) (EGetsockname k)) in *.
  set (a6 := repeat (EConnect k false) (oe_intr env)) in *.
  assert (F1 : fresh_only k a1) by apply Fs. assert (F2 : fresh_only k a2) by apply Fs.
  assert (F3 : fresh_only k a3) by apply Fs. assert (F4 : fresh_only k a4) by apply Fb.
  assert (F5 : fresh_only k a5) by apply Fs. assert (F6 : fresh_only k a6) by apply fresh_repeat.
  clearbody a1 a2 a3 a4 a5 a6 g.
  destruct (negb (oe_socket_ok env)).
  { inversion H; subst. left. auto. }
  destruct (opt_sndbuf cfg && match oe_sndbuf env with SrFail => true | _ => false end).
  { inversion H; subst. right; left. split; auto. exists a1. split; [exact F1|]. left. reflexivity. }
  destruct (opt_rcvbuf cfg && match oe_rcvbuf env with SrFail => true | _ => false end).
  { inversion H; subst. right; left. split; auto. exists (a1 ++ a2). split; [fresh_split; auto|].
    left. cbn [app]. rewrite <- ?app_assoc. reflexivity. }
  destruct (opt_bind cfg && has_bind cfg && negb (oe_bind_ok env)).
  { inversion H; subst. right; left. split; auto. exists (a1 ++ a2 ++ a3 ++ a4). split; [fresh_split; auto|].
    left. cbn [app]. rewrite <- ?app_assoc. reflexivity. }
  assert (Hfl : let flags := if tcp && oe_tfo_ok env then 0 else Z.lor ARES_CONN_STATE_READ (if tcp then ARES_CONN_STATE_WRITE else 0) in
                flags = 0 \/ flags = 1 \/ flags = 3).
  { destruct (tcp && oe_tfo_ok env); auto. destruct tcp; cbn; auto. }
  destruct (oe_connect env) eqn:Ec.
  - destruct (has_gsn cfg && negb (oe_getsockname_ok env) && negb (tcp && oe_tfo_ok env)).
    + inversion H; subst. right; left. split; auto. exists (a1 ++ a2 ++ a3 ++ a4 ++ a5 ++ a6). split; [fresh_split; auto|].
      right. cbn [app]. rewrite <- ?app_assoc. reflexivity.
    + inversion H; subst. right; right. eexists (a1 ++ a2 ++ a3 ++ a4 ++ a5 ++ a6), _, _.
      split; [reflexivity|]. split; [fresh_split; auto|]. split; [|exact Hfl].
      cbn [app]. rewrite <- ?app_assoc. reflexivity.
  - destruct (has_gsn cfg && negb (oe_getsockname_ok env) && negb (tcp && oe_tfo_ok env)).
    + inversion H; subst. right; left. split; auto. exists (a1 ++ a2 ++ a3 ++ a4 ++ a5 ++ a6). split; [fresh_split; auto|].
      right. cbn [app]. rewrite <- ?app_assoc. reflexivity.
    + inversion H; subst. right; right. eexists (a1 ++ a2 ++ a3 ++ a4 ++ a5 ++ a6), _, _.
      split; [reflexivity|]. split; [fresh_split; auto|]. split; [|exact Hfl].
      cbn [app]. rewrite <- ?app_assoc. reflexivity.
  - inversion H; subst. right; left. split; auto.
    exists (a1 ++ a2 ++ a3 ++ a4 ++ a5 ++ a6 ++ [EConnect k false]).
    split; [fresh_split; auto; constructor; [auto|constructor]|].
    left. cbn [app]. rewrite <- ?app_assoc. reflexivity.
Qed.

(* ------------------------------------------------------------------------------------ *)
(* more list lemmas                                                                      *)
(* ------------------------------------------------------------------------------------ *)
Lemma nth_error_map' {A B} (f : A -> B) l k : nth_error (map f l) k = option_map f (nth_error l k).
Proof. revert k. induction l as [|h t IH]; intros k; destruct k; cbn; auto. Qed.

Lemma upd_same {A} (l : list A) k x : nth_error l k = Some x -> upd l k x = l.
Proof.
  revert k. induction l as [|h t IH]; intros k H; destruct k; cbn in *; try discriminate; auto.
  - injection H as ->. reflexivity.
  - rewrite IH; auto.
Qed.

Lemma upd_upd {A} (l : list A) k x y : upd (upd l k x) k y = upd l k y.
Proof. revert k. induction l as [|h t IH]; intros k; destruct k; cbn; auto. rewrite IH. reflexivity. Qed.

Lemma nth_error_Forall {A} (P : A -> Prop) l k x : Forall P l -> nth_error l k = Some x -> P x.
Proof.
  intros H. revert k. induction H as [|h t Hh Ht IH]; intros k E; destruct k; cbn in E; try discriminate.
  - injection E as ->. exact Hh.
  - eapply IH; eauto.
Qed.

Lemma set_sock_set_sock m k a b : set_sock (set_sock m k a) k b = set_sock m k b.
Proof. unfold set_sock. cbn. rewrite upd_upd. reflexivity. Qed.

Section Sim.
  Variable cfg : mcfg.

  Definition sock_inv (c : csock) : Prop :=
    (cs_tcp c = false -> cs_tx c <= cs_total c) /\
    (cs_tcp c = false -> 0 < udp_max cfg -> cs_total c <= udp_max cfg) /\
    (cs_linked c = true -> cs_phase c = PConnected) /\
    cs_phase c <> PFresh /\
    (cs_phase c = PClosed -> cs_rw c = 0) /\
    (cs_phase c = PConnected -> cs_stopped c = false) /\
    (cs_rw c = 0 \/ cs_rw c = 1 \/ cs_rw c = 3).

  Definition inv (s : cstate) : Prop :=
    Forall sock_inv (st_socks s) /\
    (st_destroyed s = true -> Forall (fun c => cs_phase c = PClosed) (st_socks s)).

  (* notification step, at the level of the monitor *)
  Lemma notify_run m k ms old new :
    nth_error (mn_socks m) k = Some ms -> mn_destroyed m = false ->
    ms_phase ms <> PClosed -> ms_stopped ms = false ->
    ms_watch ms = (if has_cb cfg then old else 0) ->
    mon_run cfg m (notify cfg k old new) =
      Accept (set_sock m k (mkms (ms_tcp ms) (ms_phase ms) (ms_ntx ms) (if has_cb cfg then new else 0)
                                 (has_cb cfg && negb (old =? new) && (new =? 0)))).
  Proof.
    intros Hn Hd Hp Hs Hw. unfold notify. destruct m as [socks d]. cbn [mn_socks mn_destroyed] in *. subst d.
    destruct (has_cb cfg) eqn:Hcb; cbn [andb].
    - destruct (Z.eqb_spec old new) as [->|Hne]; cbn [negb andb mon_run].
      + unfold set_sock. cbn [mn_socks mn_destroyed]. rewrite upd_same; [reflexivity|].
        rewrite Hn. f_equal. destruct ms; cbn in *. subst. reflexivity.
      + unfold mon_step, on_sock. cbn [mn_destroyed mn_socks]. rewrite Hn, Hcb. cbn [negb].
        rewrite Hs, Hw. destruct (Z.eqb_spec new old); [congruence|].
        destruct (ms_phase ms); try congruence; reflexivity.
    - cbn [mon_run]. unfold set_sock. cbn [mn_socks mn_destroyed]. rewrite upd_same; [reflexivity|].
      rewrite Hn. f_equal. destruct ms; cbn in *. subst. reflexivity.
  Qed.

  (* ares_close_connection's second half on any monitor state that sees the connection as it is *)
  Lemma finish_close_run m k c :
    nth_error (mn_socks m) k = Some (abs_sock cfg c) -> mn_destroyed m = false ->
    cs_phase c = PConnected -> cs_stopped c = false ->
    mon_run cfg m (fst (finish_close cfg k c)) = Accept (set_sock m k (abs_sock cfg (snd (finish_close cfg k c)))).
  Proof.
    intros Hn Hd Hp Hs. unfold finish_close. cbn [fst snd].
    erewrite mon_run_app.
    2:{ apply (notify_run m k (abs_sock cfg c) (cs_rw c) 0); auto;
        try (cbn; rewrite Hp; discriminate); try (cbn; destruct (has_cb cfg); reflexivity). }
    cbn [mon_run]. unfold mon_step, on_sock. cbn [set_sock mn_destroyed mn_socks]. rewrite Hd.
    rewrite (nth_error_upd_same _ _ _ _ Hn). cbn [abs_sock ms_phase ms_watch ms_tcp ms_ntx ms_stopped]. rewrite Hp.
    assert ((if has_cb cfg then 0 else 0) =? 0 = true) as -> by (destruct (has_cb cfg); reflexivity).
    rewrite set_sock_set_sock. unfold abs_sock. cbn [cs_tcp cs_phase cs_tx cs_rw cs_stopped].
    rewrite Hs. cbn [orb].
    assert ((if has_cb cfg then 0 else 0) = 0) as -> by (destruct (has_cb cfg); reflexivity).
    rewrite andb_true_r. reflexivity.
  Qed.

  Lemma finish_close_inv k c : sock_inv c -> sock_inv (snd (finish_close cfg k c)).
  Proof.
    intros (I1 & I2 & I3 & I4 & I5 & I6 & I7). unfold finish_close, sock_inv. cbn.
    repeat split; auto; try discriminate.
  Qed.

  Lemma abs_set_cs s k c : set_sock (abs cfg s) k (abs_sock cfg c) = abs cfg (set_cs s k c).
  Proof. unfold set_sock, abs, set_cs. cbn. rewrite upd_map. reflexivity. Qed.

  Lemma abs_nth s k c : nth_error (st_socks s) k = Some c -> nth_error (mn_socks (abs cfg s)) k = Some (abs_sock cfg c).
  Proof. intros H. unfold abs. cbn. rewrite nth_error_map', H. reflexivity. Qed.

  Lemma inv_set_cs s k c : inv s -> st_destroyed s = false -> sock_inv c -> inv (set_cs s k c).
  Proof.
    intros [I1 I2] Hd Hc. split; cbn.
    - apply Forall_upd; auto.
    - rewrite Hd. discriminate.
  Qed.

  (* closing every linked connection *)
  Lemma close_all_run : forall l mpre,
    Forall sock_inv l -> quiescent l = true ->
    mon_run cfg (mkmon (mpre ++ map (abs_sock cfg) l) false) (fst (close_all cfg (length mpre) l))
      = Accept (mkmon (mpre ++ map (abs_sock cfg) (snd (close_all cfg (length mpre) l))) false) /\
    Forall sock_inv (snd (close_all cfg (length mpre) l)) /\
    Forall (fun c => cs_phase c = PClosed) (snd (close_all cfg (length mpre) l)).
  Proof.
    induction l as [|c t IH]; intros mpre Hinv Hq.
    - cbn. auto.
    - inversion Hinv as [|? ? Hc Ht]; subst. cbn [quiescent forallb] in Hq. apply andb_prop in Hq. destruct Hq as [Hqc Hqt].
      cbn [close_all].
      destruct (close_all cfg (S (length mpre)) t) as [evs t'] eqn:Ect.
      destruct (cs_linked c) eqn:Hl.
      + destruct (finish_close cfg (length mpre) c) as [e1 c'] eqn:Efc. cbn [fst snd].
        destruct Hc as (I1 & I2 & I3 & I4 & I5 & I6 & I7). pose proof (I3 Hl) as Hp. pose proof (I6 Hp) as Hs.
        assert (Hfr := finish_close_run (mkmon (mpre ++ map (abs_sock cfg) (c :: t)) false) (length mpre) c).
        rewrite Efc in Hfr. cbn [fst snd] in Hfr.
        erewrite mon_run_app.
        2:{ apply Hfr; auto. cbn [mn_socks map]. rewrite nth_error_app2 by lia. rewrite Nat.sub_diag. reflexivity. }
        unfold set_sock. cbn [mn_socks mn_destroyed map].
        replace (upd (mpre ++ abs_sock cfg c :: map (abs_sock cfg) t) (length mpre) (abs_sock cfg c'))
          with (mpre ++ abs_sock cfg c' :: map (abs_sock cfg) t)
          by (replace (length mpre) with (length mpre + 0)%nat by lia; rewrite upd_app_l; reflexivity).
        specialize (IH (mpre ++ [abs_sock cfg c']) Ht Hqt).
        rewrite app_length in IH. cbn [length] in IH. replace (length mpre + 1)%nat with (S (length mpre)) in IH by lia.
        rewrite Ect in IH. cbn [fst snd] in IH. destruct IH as (R1 & R2 & R3).
        rewrite <- app_assoc in R1. cbn [app] in R1. rewrite R1.
        rewrite <- app_assoc. cbn [app map]. split; [reflexivity|].
        assert (Hc' : sock_inv c' /\ cs_phase c' = PClosed).
        { pose proof (finish_close_inv (length mpre) c (conj I1 (conj I2 (conj I3 (conj I4 (conj I5 (conj I6 I7))))))) as X.
          rewrite Efc in X. cbn [snd] in X. split; auto. unfold finish_close in Efc. inversion Efc. reflexivity. }
        destruct Hc'. split; constructor; auto.
      + cbn [fst snd]. cbn [orb] in Hqc.
        specialize (IH (mpre ++ [abs_sock cfg c]) Ht Hqt).
        rewrite app_length in IH. cbn [length] in IH. replace (length mpre + 1)%nat with (S (length mpre)) in IH by lia.
        rewrite Ect in IH. cbn [fst snd] in IH. destruct IH as (R1 & R2 & R3).
        rewrite <- app_assoc in R1. cbn [app] in R1. cbn [map]. rewrite R1.
        rewrite <- app_assoc. cbn [app]. split; [reflexivity|].
        split; constructor; auto. destruct (cs_phase c); cbn in Hqc; try discriminate; reflexivity.
  Qed.

  Lemma all_closed_abs l : Forall (fun c => cs_phase c = PClosed) l -> all_closed (map (abs_sock cfg) l) = true.
  Proof. induction 1 as [|c t Hc Ht IH]; cbn; auto. rewrite Hc. cbn. exact IH. Qed.

  Lemma step_close_last l s : ms_phase s <> PClosed -> ms_watch s = 0 ->
    mon_step cfg (mkmon (l ++ [s]) false) (EClose (length l))
    = Accept (mkmon (l ++ [mkms (ms_tcp s) PClosed (ms_ntx s) 0 (ms_stopped s)]) false).
  Proof.
    intros Hp Hw. unfold mon_step, on_sock. cbn [mn_destroyed mn_socks]. rewrite nth_error_last, Hw.
    unfold set_sock. cbn [mn_socks mn_destroyed]. rewrite upd_last.
    destruct (ms_phase s); try congruence; reflexivity.
  Qed.

  Lemma step_connect_last l s : ms_phase s = PFresh ->
    mon_step cfg (mkmon (l ++ [s]) false) (EConnect (length l) true)
    = Accept (mkmon (l ++ [mkms (ms_tcp s) PConnected (ms_ntx s) (ms_watch s) (ms_stopped s)]) false).
  Proof.
    intros Hp. unfold mon_step, on_sock. cbn [mn_destroyed mn_socks]. rewrite nth_error_last, Hp.
    unfold set_sock. cbn [mn_socks mn_destroyed]. rewrite upd_last. reflexivity.
  Qed.

  Lemma step_gsn_last l s : ms_phase s = PConnected ->
    mon_step cfg (mkmon (l ++ [s]) false) (EGetsockname (length l)) = Accept (mkmon (l ++ [s]) false).
  Proof.
    intros Hp. unfold mon_step, on_sock. cbn [mn_destroyed mn_socks]. rewrite nth_error_last, Hp. reflexivity.
  Qed.

  Lemma run_gsn_opt_last l s b rest : ms_phase s = PConnected ->
    mon_run cfg (mkmon (l ++ [s]) false) (opt_ev b (EGetsockname (length l)) ++ rest)
    = mon_run cfg (mkmon (l ++ [s]) false) rest.
  Proof.
    intros Hp. destruct b; cbn [opt_ev app mon_run]; [|reflexivity]. rewrite step_gsn_last by exact Hp. reflexivity.
  Qed.

  (* opening a connection *)
  Lemma open_run s tcp env evs r :
    st_destroyed s = false -> open_connection cfg (length (st_socks s)) tcp env = (evs, r) ->
    match r with
    | OpenNoSocket => mon_run cfg (abs cfg s) evs = Accept (abs cfg s)
    | OpenFailedClosed =>
      mon_run cfg (abs cfg s) evs = Accept (abs cfg (mkst (st_socks s ++ [mkcs tcp PClosed false 0 0 0 0 false false]) false))
    | OpenOk c => mon_run cfg (abs cfg s) evs = Accept (abs cfg (mkst (st_socks s ++ [c]) false)) /\ sock_inv c
    end.
  Proof.
    intros Hd Ho. destruct (open_shape _ _ _ _ _ _ Ho) as [[-> ->] | [[-> (F & HF & Hev)] | (F & flags & tfo & -> & HF & -> & Hfl)]].
    - cbn. unfold mon_step. cbn. rewrite Hd. reflexivity.
    - set (l := map (abs_sock cfg) (st_socks s)).
      assert (Hlen : length l = length (st_socks s)) by (unfold l; apply map_length).
      assert (Hstart : mon_step cfg (abs cfg s) (ESocket (length (st_socks s)) tcp)
                       = Accept (mkmon (l ++ [mkms tcp PFresh 0 0 false]) false)).
      { unfold mon_step, abs. cbn [mn_destroyed mn_socks]. rewrite Hd. fold l. rewrite Hlen, Nat.eqb_refl. reflexivity. }
      rewrite <- Hlen in HF.
      assert (Hclosed : abs cfg (mkst (st_socks s ++ [mkcs tcp PClosed false 0 0 0 0 false false]) false)
                        = mkmon (l ++ [mkms tcp PClosed 0 0 false]) false).
      { unfold l, abs. cbn [st_socks st_destroyed]. rewrite map_app. cbn [map]. f_equal. f_equal.
        unfold abs_sock. cbn. destruct (has_cb cfg); reflexivity. }
      rewrite Hclosed.
      rewrite <- Hlen in Hev.
      destruct Hev as [-> | ->]; cbn [mon_run]; rewrite Hlen, Hstart, <- Hlen.
      + erewrite mon_run_app by (apply run_fresh; [reflexivity|exact HF]).
        cbn [mon_run]. rewrite step_close_last by (cbn; auto; discriminate). reflexivity.
      + erewrite mon_run_app by (apply run_fresh; [reflexivity|exact HF]).
        cbn [app mon_run]. rewrite step_connect_last by reflexivity. cbn [ms_tcp ms_ntx ms_watch ms_stopped].
        rewrite run_gsn_opt_last by reflexivity. cbn [mon_run].
        rewrite step_close_last by (cbn; auto; discriminate). reflexivity.
    - set (l := map (abs_sock cfg) (st_socks s)).
      assert (Hlen : length l = length (st_socks s)) by (unfold l; apply map_length).
      assert (Hstart : mon_step cfg (abs cfg s) (ESocket (length (st_socks s)) tcp)
                       = Accept (mkmon (l ++ [mkms tcp PFresh 0 0 false]) false)).
      { unfold mon_step, abs. cbn [mn_destroyed mn_socks]. rewrite Hd. fold l. rewrite Hlen, Nat.eqb_refl. reflexivity. }
      rewrite <- Hlen in HF. split.
      + cbn [mon_run]. rewrite Hstart. rewrite <- Hlen.
        erewrite mon_run_app by (apply run_fresh; [reflexivity|exact HF]).
        cbn [app mon_run]. rewrite step_connect_last by reflexivity. cbn [ms_tcp ms_ntx ms_watch ms_stopped].
        rewrite run_gsn_opt_last by reflexivity.
        set (m1 := mkmon (l ++ [mkms tcp PConnected 0 0 false]) false).
        rewrite (notify_run m1 (length l) (mkms tcp PConnected 0 0 false) 0 flags)
          by (unfold m1; cbn [mn_socks mn_destroyed];
              first [apply nth_error_last | reflexivity | (cbn; discriminate) | (cbn; destruct (has_cb cfg); reflexivity)]).
        unfold m1, set_sock. cbn [mn_socks mn_destroyed ms_tcp ms_phase ms_ntx]. rewrite upd_last.
        unfold abs. cbn [st_socks st_destroyed]. rewrite map_app. cbn [map]. fold l. unfold abs_sock. cbn.
        f_equal. f_equal. f_equal. f_equal.
        destruct (has_cb cfg); cbn; auto. destruct Hfl as [-> | [-> | ->]]; reflexivity.
      + unfold sock_inv. cbn. repeat split; auto; try lia; try discriminate.
  Qed.

  Lemma set_cs_set_cs s k a b : set_cs (set_cs s k a) k b = set_cs s k b.
  Proof. unfold set_cs. cbn. rewrite upd_upd. reflexivity. Qed.

  Lemma set_cs_nth s k c x : nth_error (st_socks s) k = Some c -> nth_error (st_socks (set_cs s k x)) k = Some x.
  Proof. intros H. unfold set_cs. cbn. eapply nth_error_upd_same; eauto. Qed.

  Lemma abs_same s k c c' : nth_error (st_socks s) k = Some c -> abs_sock cfg c' = abs_sock cfg c ->
    abs cfg (set_cs s k c') = abs cfg s.
  Proof.
    intros Hn He. rewrite <- abs_set_cs, He. unfold set_sock, abs. cbn. rewrite upd_same; [reflexivity|].
    rewrite nth_error_map', Hn. reflexivity.
  Qed.

  Lemma step_sendto s k c : nth_error (st_socks s) k = Some c -> st_destroyed s = false -> cs_phase c = PConnected ->
    mon_step cfg (abs cfg s) (ESendto k) = Accept (abs cfg s).
  Proof.
    intros Hn Hd Hp. unfold mon_step, on_sock. cbn [abs mn_destroyed mn_socks]. rewrite Hd, nth_error_map', Hn.
    cbn. rewrite Hp. reflexivity.
  Qed.

  Lemma step_tx s k c : nth_error (st_socks s) k = Some c -> st_destroyed s = false -> cs_phase c = PConnected ->
    (cs_tcp c = false -> 0 < udp_max cfg -> cs_tx c + 1 <= udp_max cfg) ->
    mon_step cfg (abs cfg s) (ETx k)
    = Accept (abs cfg (set_cs s k (mkcs (cs_tcp c) PConnected (cs_linked c) (cs_rw c) (cs_total c) (cs_tx c + 1)
                                         (cs_nq c) (cs_tfo_initial c) (cs_stopped c)))).
  Proof.
    intros Hn Hd Hp Hlim. unfold mon_step, on_sock. cbn [abs mn_destroyed mn_socks]. rewrite Hd, nth_error_map', Hn.
    cbn [option_map abs_sock ms_phase ms_tcp ms_ntx ms_watch ms_stopped]. rewrite Hp.
    assert (negb (cs_tcp c) && (0 <? udp_max cfg) && (udp_max cfg <? cs_tx c + 1) = false) as ->.
    { destruct (cs_tcp c) eqn:Ht; [reflexivity|]. cbn [negb andb].
      destruct (Z.ltb_spec 0 (udp_max cfg)); [|reflexivity]. cbn [andb].
      destruct (Z.ltb_spec (udp_max cfg) (cs_tx c + 1)); [|reflexivity]. specialize (Hlim eq_refl H). lia. }
    rewrite <- abs_set_cs. reflexivity.
  Qed.

  Lemma notify_abs s k c new c' :
    nth_error (st_socks s) k = Some c -> st_destroyed s = false -> cs_phase c = PConnected -> cs_stopped c = false ->
    new <> 0 ->
    abs_sock cfg c' = mkms (cs_tcp c) PConnected (cs_tx c) (if has_cb cfg then new else 0) false ->
    mon_run cfg (abs cfg s) (notify cfg k (cs_rw c) new) = Accept (abs cfg (set_cs s k c')).
  Proof.
    intros Hn Hd Hp Hs Hnew Hc'.
    rewrite (notify_run (abs cfg s) k (abs_sock cfg c) (cs_rw c) new).
    - rewrite <- abs_set_cs, Hc'. cbn [abs_sock ms_tcp ms_phase ms_ntx]. rewrite Hp.
      destruct (Z.eqb_spec new 0); [congruence|]. rewrite andb_false_r. reflexivity.
    - apply abs_nth; auto.
    - exact Hd.
    - cbn. rewrite Hp. discriminate.
    - exact Hs.
    - cbn. reflexivity.
  Qed.

  Lemma valid_rw_cases rw : valid_rw rw = true -> (rw = 1 \/ rw = 3) /\ rw <> 0.
  Proof. unfold valid_rw. intros H. apply orb_prop in H. destruct H as [H|H]; apply Z.eqb_eq in H; lia. Qed.

  (* one step of the library is accepted by the monitor, and the invariant is kept *)
  Lemma step_sim s a s' evs : inv s -> step cfg s a = Some (s', evs) ->
    mon_run cfg (abs cfg s) evs = Accept (abs cfg s') /\ inv s'.
  Proof.
    intros Hinv Hstep. pose proof Hinv as [Hall Hdest]. unfold step in Hstep.
    destruct (st_destroyed s) eqn:Hd; [discriminate|].
    destruct a as [tcp env | sok intr cok | k newrw sent | k newrw sent | k | k | k | k | k failed | ].
    - (* AOpen *)
      destruct (open_connection cfg (length (st_socks s)) tcp env) as [evs0 r] eqn:Eo.
      pose proof (open_run s tcp env evs0 r Hd Eo) as Hrun.
      destruct r as [| | c]; inversion Hstep; subst.
      + split; auto.
      + split; auto. split; cbn; [|discriminate]. apply Forall_app. split; auto. constructor; [|constructor].
        unfold sock_inv. cbn. repeat split; auto; try lia; try discriminate.
      + destruct Hrun as [Hr Hc]. split; auto. split; cbn; [|discriminate]. apply Forall_app. split; auto.
    - (* AProbe *)
      inversion Hstep; subst. clear Hstep. unfold probe.
      set (l := map (abs_sock cfg) (st_socks s)).
      assert (Hlen : length l = length (st_socks s)) by (unfold l; apply map_length).
      assert (Hstart : mon_step cfg (abs cfg s) (ESocket (length l) false)
                       = Accept (mkmon (l ++ [mkms false PFresh 0 0 false]) false)).
      { unfold mon_step, abs. cbn [mn_destroyed mn_socks]. rewrite Hd. fold l. rewrite Nat.eqb_refl. reflexivity. }
      assert (Hclosed : abs cfg (mkst (st_socks s ++ [mkcs false PClosed false 0 0 0 0 false false]) false)
                        = mkmon (l ++ [mkms false PClosed 0 0 false]) false).
      { unfold l, abs. cbn [st_socks st_destroyed]. rewrite map_app. cbn [map]. f_equal. f_equal.
        unfold abs_sock. cbn. destruct (has_cb cfg); reflexivity. }
      assert (Hinv' : inv (mkst (st_socks s ++ [mkcs false PClosed false 0 0 0 0 false false]) false)).
      { split; cbn; [|discriminate]. apply Forall_app. split; auto. constructor; [|constructor].
        unfold sock_inv. cbn. repeat split; auto; try lia; try discriminate. }
      rewrite <- Hlen. destruct sok; cbn [negb].
      + rewrite Hclosed. split; [|exact Hinv']. cbn [mon_run]. rewrite Hstart.
        erewrite mon_run_app by (apply run_fresh; [reflexivity|apply fresh_repeat]).
        destruct cok; cbn [negb mon_run].
        * cbn [app mon_run]. rewrite step_connect_last by reflexivity. cbn [ms_tcp ms_ntx ms_watch ms_stopped].
          rewrite run_gsn_opt_last by reflexivity. cbn [mon_run].
          rewrite step_close_last by (cbn; auto; discriminate). reflexivity.
        * assert (mon_step cfg (mkmon (l ++ [mkms false PFresh 0 0 false]) false) (EConnect (length l) false)
                  = Accept (mkmon (l ++ [mkms false PFresh 0 0 false]) false)) as ->.
          { unfold mon_step, on_sock. cbn [mn_destroyed mn_socks]. rewrite nth_error_last. reflexivity. }
          rewrite step_close_last by (cbn; auto; discriminate). reflexivity.
      + split; auto. cbn. unfold mon_step. cbn. rewrite Hd. reflexivity.
    - (* AQuery *)
      destruct (nth_error (st_socks s) k) as [c|] eqn:Hn; [|discriminate].
      destruct (can_take_query cfg c && valid_rw newrw) eqn:Hc; [|discriminate].
      apply andb_prop in Hc. destruct Hc as [Hcan Hrw]. unfold can_take_query in Hcan.
      apply andb_prop in Hcan. destruct Hcan as [Hcan Hlim]. apply andb_prop in Hcan. destruct Hcan as [Hl Hp].
      assert (Hp' : cs_phase c = PConnected) by (destruct (cs_phase c); cbn in Hp; try discriminate; reflexivity).
      destruct (valid_rw_cases _ Hrw) as [Hrwc Hrw0].
      pose proof (nth_error_Forall _ _ _ _ Hall Hn) as (I1 & I2 & I3 & I4 & I5 & I6 & I7).
      pose proof (I6 Hp') as Hs.
      assert (Hroom : cs_tcp c = false -> 0 < udp_max cfg -> cs_total c < udp_max cfg).
      { intros Ht Hm. rewrite Ht in Hlim. cbn [orb] in Hlim. apply orb_prop in Hlim. destruct Hlim as [Hx|Hx].
        - apply negb_true_iff in Hx. apply Z.ltb_ge in Hx. lia.
        - apply Z.ltb_lt in Hx. exact Hx. }
      inversion Hstep; subst. clear Hstep. split.
      + cbn [app mon_run]. rewrite (step_sendto s k c) by auto. destruct sent; cbn [app mon_run].
        * rewrite (step_tx s k c) by (auto; intros Ht Hm; specialize (Hroom Ht Hm); specialize (I1 Ht); lia).
          set (c1 := mkcs (cs_tcp c) PConnected (cs_linked c) (cs_rw c) (cs_total c) (cs_tx c + 1) (cs_nq c) (cs_tfo_initial c) (cs_stopped c)).
          change (cs_rw c) with (cs_rw c1).
          lazymatch goal with |- _ = Accept (abs cfg (set_cs s k ?cf)) => set (c' := cf) end.
          rewrite (notify_abs (set_cs s k c1) k c1 newrw c');
            [rewrite set_cs_set_cs; reflexivity | apply (set_cs_nth s k c); exact Hn | exact Hd | reflexivity | exact Hs | exact Hrw0 | unfold c', c1; cbn; rewrite ?Hs; reflexivity].
        * erewrite notify_abs; [reflexivity | exact Hn | exact Hd | exact Hp' | exact Hs | exact Hrw0 | ].
          cbn. rewrite Hs. reflexivity.
      + apply inv_set_cs; auto. unfold sock_inv. cbn.
        repeat split; auto; try discriminate.
        * intros Ht. specialize (I1 Ht). destruct sent; lia.
        * intros Ht Hm. specialize (Hroom Ht Hm). lia.
    - (* AWriteEvent *)
      destruct (nth_error (st_socks s) k) as [c|] eqn:Hn; [|discriminate].
      destruct (cs_linked c && phase_eqb (cs_phase c) PConnected && valid_rw newrw &&
                (negb sent || (cs_tx c <? cs_total c) || cs_tcp c)) eqn:Hc; [|discriminate].
      apply andb_prop in Hc. destruct Hc as [Hc Hsent]. apply andb_prop in Hc. destruct Hc as [Hc Hrw].
      apply andb_prop in Hc. destruct Hc as [Hl Hp].
      assert (Hp' : cs_phase c = PConnected) by (destruct (cs_phase c); cbn in Hp; try discriminate; reflexivity).
      destruct (valid_rw_cases _ Hrw) as [Hrwc Hrw0].
      pose proof (nth_error_Forall _ _ _ _ Hall Hn) as (I1 & I2 & I3 & I4 & I5 & I6 & I7).
      pose proof (I6 Hp') as Hs.
      inversion Hstep; subst. clear Hstep. split.
      + cbn [app mon_run]. rewrite (step_sendto s k c) by auto. destruct sent; cbn [app mon_run].
        * rewrite (step_tx s k c); auto.
          2:{ intros Ht Hm. cbn [negb orb] in Hsent. rewrite Ht, orb_false_r in Hsent. apply Z.ltb_lt in Hsent.
              specialize (I2 Ht Hm). lia. }
          set (c1 := mkcs (cs_tcp c) PConnected (cs_linked c) (cs_rw c) (cs_total c) (cs_tx c + 1) (cs_nq c) (cs_tfo_initial c) (cs_stopped c)).
          change (cs_rw c) with (cs_rw c1).
          lazymatch goal with |- _ = Accept (abs cfg (set_cs s k ?cf)) => set (c' := cf) end.
          rewrite (notify_abs (set_cs s k c1) k c1 newrw c');
            [rewrite set_cs_set_cs; reflexivity | apply (set_cs_nth s k c); exact Hn | exact Hd | reflexivity | exact Hs | exact Hrw0 | unfold c', c1; cbn; rewrite ?Hs; reflexivity].
        * erewrite notify_abs; [reflexivity | exact Hn | exact Hd | exact Hp' | exact Hs | exact Hrw0 | ].
          cbn. rewrite Hs. reflexivity.
      + apply inv_set_cs; auto. unfold sock_inv. cbn.
        repeat split; auto; try discriminate.
        * intros Ht. specialize (I1 Ht). destruct sent; [|lia]. cbn [negb orb] in Hsent.
          rewrite Ht, orb_false_r in Hsent. apply Z.ltb_lt in Hsent. lia.
    - (* AReadEvent *)
      destruct (nth_error (st_socks s) k) as [c|] eqn:Hn; [|discriminate].
      destruct (cs_linked c && phase_eqb (cs_phase c) PConnected && negb (Z.land (cs_rw c) ARES_CONN_STATE_READ =? 0)) eqn:Hc; [|discriminate].
      apply andb_prop in Hc. destruct Hc as [Hc Hw]. apply andb_prop in Hc. destruct Hc as [Hl Hp].
      assert (Hp' : cs_phase c = PConnected) by (destruct (cs_phase c); cbn in Hp; try discriminate; reflexivity).
      inversion Hstep; subst. split; [|exact Hinv]. cbn [mon_run].
      unfold mon_step, on_sock. cbn [abs mn_destroyed mn_socks]. rewrite Hd, nth_error_map', Hn.
      cbn [option_map abs_sock ms_phase ms_watch]. rewrite Hp'.
      destruct (has_cb cfg); cbn [andb]; [|reflexivity]. apply negb_true_iff in Hw. rewrite Hw. reflexivity.
    - (* AAnswered *)
      destruct (nth_error (st_socks s) k) as [c|] eqn:Hn; [|discriminate].
      destruct (cs_nq c) as [|n] eqn:Hq; [discriminate|]. inversion Hstep; subst. cbn [mon_run].
      pose proof (nth_error_Forall _ _ _ _ Hall Hn) as (I1 & I2 & I3 & I4 & I5 & I6 & I7).
      split.
      + rewrite (abs_same s k c); auto.
      + apply inv_set_cs; auto. unfold sock_inv. cbn. repeat split; auto.
    - (* AUnlink *)
      destruct (nth_error (st_socks s) k) as [c|] eqn:Hn; [|discriminate].
      destruct (cs_linked c) eqn:Hl; [|discriminate]. inversion Hstep; subst. cbn [mon_run].
      pose proof (nth_error_Forall _ _ _ _ Hall Hn) as (I1 & I2 & I3 & I4 & I5 & I6 & I7).
      split.
      + rewrite (abs_same s k c); auto.
      + apply inv_set_cs; auto. unfold sock_inv. cbn. repeat split; auto; discriminate.
    - (* AFinishClose *)
      destruct (nth_error (st_socks s) k) as [c|] eqn:Hn; [|discriminate].
      destruct (negb (cs_linked c) && phase_eqb (cs_phase c) PConnected) eqn:Hc; [|discriminate].
      apply andb_prop in Hc. destruct Hc as [Hl Hp].
      assert (Hp' : cs_phase c = PConnected) by (destruct (cs_phase c); cbn in Hp; try discriminate; reflexivity).
      pose proof (nth_error_Forall _ _ _ _ Hall Hn) as Hci. pose proof Hci as (I1 & I2 & I3 & I4 & I5 & I6 & I7).
      destruct (finish_close cfg k c) as [e1 c'] eqn:Efc. inversion Hstep; subst.
      pose proof (finish_close_run (abs cfg s) k c (abs_nth s k c Hn) Hd Hp' (I6 Hp')) as Hr.
      rewrite Efc in Hr. cbn [fst snd] in Hr. rewrite Hr, abs_set_cs. split; [reflexivity|].
      apply inv_set_cs; auto. pose proof (finish_close_inv k c Hci) as X. rewrite Efc in X. exact X.
    - (* ACleanup *)
      destruct (nth_error (st_socks s) k) as [c|] eqn:Hn; [|discriminate].
      destruct (cs_linked c && phase_eqb (cs_phase c) PConnected && cleanup_wanted cfg c failed) eqn:Hc; [|discriminate].
      apply andb_prop in Hc. destruct Hc as [Hc Hw]. apply andb_prop in Hc. destruct Hc as [Hl Hp].
      assert (Hp' : cs_phase c = PConnected) by (destruct (cs_phase c); cbn in Hp; try discriminate; reflexivity).
      pose proof (nth_error_Forall _ _ _ _ Hall Hn) as Hci. pose proof Hci as (I1 & I2 & I3 & I4 & I5 & I6 & I7).
      destruct (finish_close cfg k c) as [e1 c'] eqn:Efc. inversion Hstep; subst.
      pose proof (finish_close_run (abs cfg s) k c (abs_nth s k c Hn) Hd Hp' (I6 Hp')) as Hr.
      rewrite Efc in Hr. cbn [fst snd] in Hr. rewrite Hr, abs_set_cs. split; [reflexivity|].
      apply inv_set_cs; auto. pose proof (finish_close_inv k c Hci) as X. rewrite Efc in X. exact X.
    - (* ADestroy *)
      destruct (quiescent (st_socks s)) eqn:Hq; [|discriminate].
      destruct (close_all cfg 0 (st_socks s)) as [e1 l'] eqn:Eca. inversion Hstep; subst.
      pose proof (close_all_run (st_socks s) [] Hall Hq) as Hr. cbn [length app] in Hr. rewrite Eca in Hr.
      cbn [fst snd] in Hr. destruct Hr as (R1 & R2 & R3).
      split.
      + erewrite mon_run_app.
        2:{ unfold abs. rewrite Hd. exact R1. }
        cbn [mon_run]. unfold mon_step. cbn [mn_destroyed mn_socks]. rewrite all_closed_abs by exact R3. reflexivity.
      + split; cbn; auto.
  Qed.

  Lemma inv_init : inv st_init.
  Proof. split; cbn; [constructor|discriminate]. Qed.

  Lemma run_sim : forall acts s s' tr, inv s -> run cfg s acts = Some (s', tr) ->
    mon_run cfg (abs cfg s) tr = Accept (abs cfg s') /\ inv s'.
  Proof.
    induction acts as [|a acts IH]; intros s s' tr Hinv Hrun; cbn [run] in Hrun.
    - inversion Hrun; subst. cbn. auto.
    - destruct (step cfg s a) as [[s1 e1]|] eqn:Es; [|discriminate].
      destruct (run cfg s1 acts) as [[s2 e2]|] eqn:Er; [|discriminate]. inversion Hrun; subst.
      destruct (step_sim s a s1 e1 Hinv Es) as [H1 I1]. destruct (IH s1 s' e2 I1 Er) as [H2 I2].
      split; [|exact I2]. erewrite mon_run_app by exact H1. exact H2.
  Qed.

  (* MAIN: every trace of the library model is accepted by the socket-protocol monitor *)
  Theorem model_accepted : forall acts s tr, run cfg st_init acts = Some (s, tr) ->
    mon_run cfg mon_init tr = Accept (abs cfg s).
  Proof. intros acts s tr H. exact (proj1 (run_sim acts st_init s tr inv_init H)). Qed.
End Sim.

(* ------------------------------------------------------------------------------------ *)
(* What acceptance by the monitor means for the trace itself                             *)
(* ------------------------------------------------------------------------------------ *)
Definition ev_fd (e : sevent) : option nat :=
  match e with
  | ESocket k _ | ESetsockopt k | EBind k | EConnect k _ | EGetsockname k | ESendto k | ERecvfrom k
  | ETx k | EClose k | ESockState k _ => Some k
  | ESocketFail | EDestroyed => None
  end.

Definition is_tx (k : nat) (e : sevent) : bool := match e with ETx k' => Nat.eqb k k' | _ => false end.
Definition count_tx (k : nat) (tr : list sevent) : Z := Z.of_nat (length (filter (is_tx k) tr)).

(* interest last announced for descriptor k in a trace (0: never / stopped) *)
Fixpoint last_notif (k : nat) (tr : list sevent) (cur : Z) : Z :=
  match tr with
  | [] => cur
  | ESockState k' f :: tr' => last_notif k tr' (if Nat.eqb k k' then f else cur)
  | _ :: tr' => last_notif k tr' cur
  end.

Lemma nth_error_upd_other {A} (l : list A) k k' x : k <> k' -> nth_error (upd l k' x) k = nth_error l k.
Proof.
  revert k k'. induction l as [|h t IH]; intros k k' Hne; destruct k, k'; cbn; auto; try congruence.
Qed.

Lemma mon_run_app_inv cfg m t1 t2 m' : mon_run cfg m (t1 ++ t2) = Accept m' ->
  exists m1, mon_run cfg m t1 = Accept m1 /\ mon_run cfg m1 t2 = Accept m'.
Proof.
  revert m. induction t1 as [|e t1 IH]; intros m H; cbn in *.
  - eauto.
  - destruct (mon_step cfg m e); [|discriminate]. apply IH. exact H.
Qed.

Lemma last_notif_app k t1 t2 cur : last_notif k (t1 ++ t2) cur = last_notif k t2 (last_notif k t1 cur).
Proof. revert cur. induction t1 as [|e t1 IH]; intros cur; cbn; auto. destruct e; auto. Qed.

Lemma count_tx_app k t1 t2 : count_tx k (t1 ++ t2) = count_tx k t1 + count_tx k t2.
Proof. unfold count_tx. rewrite filter_app, app_length. lia. Qed.

Section Meaning.
  Variable cfg : mcfg.

  (* the monitor state summarises the history *)
  Definition hist_ok (m : mon) (h : list sevent) : Prop :=
    (forall e k, In e h -> ev_fd e = Some k -> (k < length (mn_socks m))%nat) /\
    (forall k s, nth_error (mn_socks m) k = Some s ->
       (ms_phase s = PClosed -> In (EClose k) h) /\
       ms_ntx s = count_tx k h /\
       (ms_tcp s = false -> 0 < udp_max cfg -> ms_ntx s <= udp_max cfg) /\
       ms_watch s = last_notif k h 0).

  Lemma on_sock_accept m k f m' : on_sock m k f = Accept m' ->
    exists s, nth_error (mn_socks m) k = Some s /\ f s = Accept m'.
  Proof. unfold on_sock. destruct (nth_error (mn_socks m) k); [eauto|discriminate]. Qed.

  Lemma hist_step m h e m' : hist_ok m h -> mon_step cfg m e = Accept m' -> hist_ok m' (h ++ [e]).
  Proof.
    intros [H1 H2] Hs. unfold mon_step in Hs. destruct (mn_destroyed m) eqn:Hd; [discriminate|].
    (* events that leave the socket table unchanged, or change one entry *)
    assert (Hsame : forall k s, ev_fd e = Some k -> mn_socks m' = mn_socks m ->
              nth_error (mn_socks m) k = Some s ->
              (forall k', is_tx k' e = false) -> (forall k' f, e <> ESockState k' f) -> (forall k', e <> EClose k') ->
              hist_ok m' (h ++ [e])).
    { intros k s Hfd Heq Hn Hnt Hns Hnc. split.
      - intros e0 k0 Hin Hf0. rewrite Heq. apply in_app_or in Hin. destruct Hin as [Hin|[<-|[]]]; eauto.
        rewrite Hfd in Hf0. injection Hf0 as <-. apply nth_error_Some. congruence.
      - intros k0 s0 Hn0. rewrite Heq in Hn0. destruct (H2 k0 s0 Hn0) as (A & B & C & D). repeat split.
        + intros Hp. apply in_or_app. left. auto.
        + rewrite count_tx_app. unfold count_tx at 2. cbn [filter]. rewrite Hnt. cbn. lia.
        + exact C.
        + rewrite last_notif_app, <- D. destruct e; cbn; auto. exfalso. eapply Hns; eauto. }
    destruct e as [k tcp| |k|k|k ok|k|k|k|k|k|k fl|].
    - (* ESocket *)
      destruct (Nat.eqb_spec k (length (mn_socks m))) as [->|]; [|discriminate]. injection Hs as <-. split; cbn [mn_socks].
      + intros e0 k0 Hin Hf0. rewrite app_length. cbn. apply in_app_or in Hin. destruct Hin as [Hin|[<-|[]]].
        * specialize (H1 _ _ Hin Hf0). lia.
        * cbn in Hf0. injection Hf0 as <-. lia.
      + intros k0 s0 Hn0.
        destruct (Nat.lt_ge_cases k0 (length (mn_socks m))) as [Hlt|Hge].
        * rewrite nth_error_app1 in Hn0 by exact Hlt. destruct (H2 k0 s0 Hn0) as (A & B & C & D). repeat split.
          -- intros Hp. apply in_or_app. left. auto.
          -- rewrite count_tx_app. unfold count_tx at 2. cbn. lia.
          -- exact C.
          -- rewrite last_notif_app, <- D. reflexivity.
        * assert (k0 = length (mn_socks m)) as ->.
          { assert (k0 < length (mn_socks m ++ [mkms tcp PFresh 0 0 false]))%nat by (apply nth_error_Some; congruence).
            rewrite app_length in H. cbn in H. lia. }
          rewrite nth_error_last in Hn0. injection Hn0 as <-. cbn.
          assert (Hno : forall e0, In e0 h -> ev_fd e0 <> Some (length (mn_socks m))).
          { intros e0 Hin Hf. specialize (H1 _ _ Hin Hf). lia. }
          repeat split; try discriminate; try lia.
          -- rewrite count_tx_app. unfold count_tx. cbn.
             assert (filter (is_tx (length (mn_socks m))) h = []) as ->; [|reflexivity].
             clear -Hno. induction h as [|e0 h IH]; cbn; auto.
             destruct (is_tx (length (mn_socks m)) e0) eqn:E.
             ++ exfalso. destruct e0; cbn in E; try discriminate. apply Nat.eqb_eq in E. subst.
                eapply (Hno (ETx _)); [left; reflexivity|reflexivity].
             ++ apply IH. intros e1 Hin. apply Hno. right. exact Hin.
          -- rewrite last_notif_app. cbn.
             clear -Hno. assert (forall cur, last_notif (length (mn_socks m)) h cur = cur) as ->; [|reflexivity].
             induction h as [|e0 h IH]; intros cur; cbn; auto.
             destruct e0; try (apply IH; intros e1 Hin; apply Hno; right; exact Hin).
             destruct (Nat.eqb_spec (length (mn_socks m)) k).
             ++ exfalso. subst. eapply (Hno (ESockState _ _)); [left; reflexivity|reflexivity].
             ++ apply IH. intros e1 Hin. apply Hno. right. exact Hin.
    - (* ESocketFail *)
      injection Hs as <-. split.
      + intros e0 k0 Hin Hf0. apply in_app_or in Hin. destruct Hin as [Hin|[<-|[]]]; eauto. discriminate.
      + intros k0 s0 Hn0. destruct (H2 k0 s0 Hn0) as (A & B & C & D). repeat split; auto.
        * intros Hp. apply in_or_app. left. auto.
        * rewrite count_tx_app. unfold count_tx at 2. cbn. lia.
        * rewrite last_notif_app, <- D. reflexivity.
    - (* ESetsockopt *)
      destruct (on_sock_accept _ _ _ _ Hs) as (s & Hn & Hf). destruct (ms_phase s) eqn:Hp; try discriminate. injection Hf as <-.
      apply (Hsame k s); auto; discriminate.
    - (* EBind *)
      destruct (on_sock_accept _ _ _ _ Hs) as (s & Hn & Hf). destruct (ms_phase s) eqn:Hp; try discriminate. injection Hf as <-.
      apply (Hsame k s); auto; discriminate.
    - (* EConnect *)
      destruct (on_sock_accept _ _ _ _ Hs) as (s & Hn & Hf). destruct (ms_phase s) eqn:Hp; try discriminate. injection Hf as <-.
      destruct ok.
      + split.
        * intros e0 k0 Hin Hf0. cbn [set_sock mn_socks]. rewrite upd_length.
          apply in_app_or in Hin. destruct Hin as [Hin|[<-|[]]]; eauto. cbn in Hf0. injection Hf0 as <-.
          apply nth_error_Some. congruence.
        * intros k0 s0 Hn0. cbn [set_sock mn_socks] in Hn0. destruct (Nat.eq_dec k0 k) as [->|Hne].
          -- rewrite (nth_error_upd_same _ _ _ _ Hn) in Hn0. injection Hn0 as <-. cbn.
             destruct (H2 k s Hn) as (A & B & C & D). repeat split; auto; try discriminate.
             ++ rewrite count_tx_app. unfold count_tx at 2. cbn. lia.
             ++ rewrite last_notif_app, <- D. reflexivity.
          -- rewrite nth_error_upd_other in Hn0 by exact Hne. destruct (H2 k0 s0 Hn0) as (A & B & C & D). repeat split; auto.
             ++ intros Hp0. apply in_or_app. left. auto.
             ++ rewrite count_tx_app. unfold count_tx at 2. cbn. lia.
             ++ rewrite last_notif_app, <- D. reflexivity.
      + apply (Hsame k s); auto; discriminate.
    - (* EGetsockname *)
      destruct (on_sock_accept _ _ _ _ Hs) as (s & Hn & Hf). destruct (ms_phase s) eqn:Hp; try discriminate. injection Hf as <-.
      apply (Hsame k s); auto; discriminate.
    - (* ESendto *)
      destruct (on_sock_accept _ _ _ _ Hs) as (s & Hn & Hf). destruct (ms_phase s) eqn:Hp; try discriminate. injection Hf as <-.
      apply (Hsame k s); auto; discriminate.
    - (* ERecvfrom *)
      destruct (on_sock_accept _ _ _ _ Hs) as (s & Hn & Hf). destruct (ms_phase s) eqn:Hp; try discriminate.
      destruct (has_cb cfg && (Z.land (ms_watch s) ARES_CONN_STATE_READ =? 0)); [discriminate|]. injection Hf as <-.
      apply (Hsame k s); auto; discriminate.
    - (* ETx *)
      destruct (on_sock_accept _ _ _ _ Hs) as (s & Hn & Hf). destruct (ms_phase s) eqn:Hp; try discriminate.
      destruct (negb (ms_tcp s) && (0 <? udp_max cfg) && (udp_max cfg <? ms_ntx s + 1)) eqn:Hlim; [discriminate|]. injection Hf as <-.
      split.
      + intros e0 k0 Hin Hf0. cbn [set_sock mn_socks]. rewrite upd_length.
        apply in_app_or in Hin. destruct Hin as [Hin|[<-|[]]]; eauto. cbn in Hf0. injection Hf0 as <-.
        apply nth_error_Some. congruence.
      + intros k0 s0 Hn0. cbn [set_sock mn_socks] in Hn0. destruct (Nat.eq_dec k0 k) as [->|Hne].
        * rewrite (nth_error_upd_same _ _ _ _ Hn) in Hn0. injection Hn0 as <-. cbn.
          destruct (H2 k s Hn) as (A & B & C & D). repeat split; auto; try discriminate.
          -- rewrite count_tx_app. unfold count_tx at 2. cbn. rewrite Nat.eqb_refl. cbn. lia.
          -- intros Ht Hm. rewrite Ht in Hlim. cbn [negb andb] in Hlim.
             destruct (Z.ltb_spec 0 (udp_max cfg)); [|lia]. cbn [andb] in Hlim. apply Z.ltb_ge in Hlim. lia.
          -- rewrite last_notif_app, <- D. reflexivity.
        * rewrite nth_error_upd_other in Hn0 by exact Hne. destruct (H2 k0 s0 Hn0) as (A & B & C & D). repeat split; auto.
          -- intros Hp0. apply in_or_app. left. auto.
          -- rewrite count_tx_app. unfold count_tx at 2. cbn.
             destruct (Nat.eqb_spec k0 k); [congruence|]. cbn. lia.
          -- rewrite last_notif_app, <- D. reflexivity.
    - (* EClose *)
      destruct (on_sock_accept _ _ _ _ Hs) as (s & Hn & Hf).
      assert (Hw : ms_watch s = 0 /\ m' = set_sock m k (mkms (ms_tcp s) PClosed (ms_ntx s) 0 (ms_stopped s))).
      { destruct (ms_phase s); try discriminate; destruct (Z.eqb_spec (ms_watch s) 0); try discriminate; injection Hf as <-; auto. }
      destruct Hw as [Hw ->]. split.
      + intros e0 k0 Hin Hf0. cbn [set_sock mn_socks]. rewrite upd_length.
        apply in_app_or in Hin. destruct Hin as [Hin|[<-|[]]]; eauto. cbn in Hf0. injection Hf0 as <-.
        apply nth_error_Some. congruence.
      + intros k0 s0 Hn0. cbn [set_sock mn_socks] in Hn0. destruct (Nat.eq_dec k0 k) as [->|Hne].
        * rewrite (nth_error_upd_same _ _ _ _ Hn) in Hn0. injection Hn0 as <-. cbn.
          destruct (H2 k s Hn) as (A & B & C & D). repeat split; auto.
          -- intros _. apply in_or_app. right. left. reflexivity.
          -- rewrite count_tx_app. unfold count_tx at 2. cbn. lia.
          -- rewrite last_notif_app, <- D. cbn. congruence.
        * rewrite nth_error_upd_other in Hn0 by exact Hne. destruct (H2 k0 s0 Hn0) as (A & B & C & D). repeat split; auto.
          -- intros Hp0. apply in_or_app. left. auto.
          -- rewrite count_tx_app. unfold count_tx at 2. cbn. lia.
          -- rewrite last_notif_app, <- D. reflexivity.
    - (* ESockState *)
      destruct (on_sock_accept _ _ _ _ Hs) as (s & Hn & Hf).
      destruct (negb (has_cb cfg)); [discriminate|].
      assert (Hw : m' = set_sock m k (mkms (ms_tcp s) (ms_phase s) (ms_ntx s) fl (fl =? 0)) /\ ms_phase s <> PClosed).
      { destruct (ms_phase s); try discriminate; destruct (ms_stopped s); try discriminate;
        destruct (fl =? ms_watch s); try discriminate; injection Hf as <-; split; auto; discriminate. }
      destruct Hw as [-> Hpc]. split.
      + intros e0 k0 Hin Hf0. cbn [set_sock mn_socks]. rewrite upd_length.
        apply in_app_or in Hin. destruct Hin as [Hin|[<-|[]]]; eauto. cbn in Hf0. injection Hf0 as <-.
        apply nth_error_Some. congruence.
      + intros k0 s0 Hn0. cbn [set_sock mn_socks] in Hn0. destruct (Nat.eq_dec k0 k) as [->|Hne].
        * rewrite (nth_error_upd_same _ _ _ _ Hn) in Hn0. injection Hn0 as <-. cbn.
          destruct (H2 k s Hn) as (A & B & C & D). repeat split; auto.
          -- intros Hp. congruence.
          -- rewrite count_tx_app. unfold count_tx at 2. cbn. lia.
          -- rewrite last_notif_app. cbn. rewrite Nat.eqb_refl. reflexivity.
        * rewrite nth_error_upd_other in Hn0 by exact Hne. destruct (H2 k0 s0 Hn0) as (A & B & C & D). repeat split; auto.
          -- intros Hp0. apply in_or_app. left. auto.
          -- rewrite count_tx_app. unfold count_tx at 2. cbn. lia.
          -- rewrite last_notif_app, <- D. cbn. destruct (Nat.eqb_spec k0 k); [congruence|reflexivity].
    - (* EDestroyed *)
      destruct (all_closed (mn_socks m)); [|discriminate]. injection Hs as <-. split; cbn [mn_socks].
      + intros e0 k0 Hin Hf0. apply in_app_or in Hin. destruct Hin as [Hin|[<-|[]]]; eauto. discriminate.
      + intros k0 s0 Hn0. destruct (H2 k0 s0 Hn0) as (A & B & C & D). repeat split; auto.
        * intros Hp. apply in_or_app. left. auto.
        * rewrite count_tx_app. unfold count_tx at 2. cbn. lia.
        * rewrite last_notif_app, <- D. reflexivity.
  Qed.

  Lemma hist_run : forall tr m h m', hist_ok m h -> mon_run cfg m tr = Accept m' -> hist_ok m' (h ++ tr).
  Proof.
    induction tr as [|e tr IH]; intros m h m' Hh Hr; cbn in Hr.
    - injection Hr as <-. rewrite app_nil_r. exact Hh.
    - destruct (mon_step cfg m e) as [m1|] eqn:Es; [|discriminate].
      replace (h ++ e :: tr) with ((h ++ [e]) ++ tr) by (rewrite <- app_assoc; reflexivity).
      eapply IH; [|exact Hr]. eapply hist_step; eauto.
  Qed.

  Lemma hist_init : hist_ok mon_init [].
  Proof. split; [intros e k []|]. intros k s Hn. destruct k; discriminate. Qed.

  Lemma hist_accept tr m : mon_run cfg mon_init tr = Accept m -> hist_ok m tr.
  Proof. intros H. exact (hist_run tr mon_init [] m hist_init H). Qed.

  (* a closed descriptor stays closed and every further event on it is rejected; the same for
     "stopped" and further notifications *)
  Definition sticky (P : msock -> Prop) : Prop :=
    forall m e m' k s, mon_step cfg m e = Accept m' -> nth_error (mn_socks m) k = Some s -> P s ->
      ev_fd e <> Some k /\ exists s', nth_error (mn_socks m') k = Some s' /\ P s'.

  Lemma other_kept m k k' x s : k' <> k -> nth_error (mn_socks m) k = Some s ->
    nth_error (mn_socks (set_sock m k' x)) k = Some s.
  Proof. intros Hne Hn. cbn. rewrite nth_error_upd_other; auto. Qed.

  Lemma closed_sticky : sticky (fun s => ms_phase s = PClosed).
  Proof.
    intros m e m' k s Hs Hn Hp. unfold mon_step in Hs. destruct (mn_destroyed m); [discriminate|].
    destruct e as [k' tcp| |k'|k'|k' ok|k'|k'|k'|k'|k'|k' fl|]; cbn [ev_fd].
    - destruct (Nat.eqb_spec k' (length (mn_socks m))) as [->|]; [|discriminate]. injection Hs as <-. split.
      + intros E. injection E as <-. assert (length (mn_socks m) < length (mn_socks m))%nat; [apply nth_error_Some; congruence|lia].
      + exists s. split; auto. cbn. rewrite nth_error_app1; auto. apply nth_error_Some. congruence.
    - injection Hs as <-. split; [discriminate|eauto].
    - destruct (on_sock_accept _ _ _ _ Hs) as (s1 & Hn1 & Hf). split.
      + intros E. injection E as <-. rewrite Hn in Hn1. injection Hn1 as <-. rewrite Hp in Hf. discriminate.
      + destruct (ms_phase s1); try discriminate. injection Hf as <-. eauto.
    - destruct (on_sock_accept _ _ _ _ Hs) as (s1 & Hn1 & Hf). split.
      + intros E. injection E as <-. rewrite Hn in Hn1. injection Hn1 as <-. rewrite Hp in Hf. discriminate.
      + destruct (ms_phase s1); try discriminate. injection Hf as <-. eauto.
    - destruct (on_sock_accept _ _ _ _ Hs) as (s1 & Hn1 & Hf).
      assert (Hne : k' <> k) by (intros ->; rewrite Hn in Hn1; injection Hn1 as <-; rewrite Hp in Hf; discriminate).
      split; [congruence|]. destruct (ms_phase s1); try discriminate. injection Hf as <-.
      destruct ok; [|eauto]. exists s. split; auto. apply other_kept; auto.
    - destruct (on_sock_accept _ _ _ _ Hs) as (s1 & Hn1 & Hf). split.
      + intros E. injection E as <-. rewrite Hn in Hn1. injection Hn1 as <-. rewrite Hp in Hf. discriminate.
      + destruct (ms_phase s1); try discriminate. injection Hf as <-. eauto.
    - destruct (on_sock_accept _ _ _ _ Hs) as (s1 & Hn1 & Hf). split.
      + intros E. injection E as <-. rewrite Hn in Hn1. injection Hn1 as <-. rewrite Hp in Hf. discriminate.
      + destruct (ms_phase s1); try discriminate. injection Hf as <-. eauto.
    - destruct (on_sock_accept _ _ _ _ Hs) as (s1 & Hn1 & Hf). split.
      + intros E. injection E as <-. rewrite Hn in Hn1. injection Hn1 as <-. rewrite Hp in Hf. discriminate.
      + destruct (ms_phase s1); try discriminate. destruct (has_cb cfg && _); try discriminate. injection Hf as <-. eauto.
    - destruct (on_sock_accept _ _ _ _ Hs) as (s1 & Hn1 & Hf).
      assert (Hne : k' <> k) by (intros ->; rewrite Hn in Hn1; injection Hn1 as <-; rewrite Hp in Hf; discriminate).
      split; [congruence|]. destruct (ms_phase s1); try discriminate. destruct (negb (ms_tcp s1) && _ && _); try discriminate.
      injection Hf as <-. exists s. split; auto. apply other_kept; auto.
    - destruct (on_sock_accept _ _ _ _ Hs) as (s1 & Hn1 & Hf).
      assert (Hne : k' <> k) by (intros ->; rewrite Hn in Hn1; injection Hn1 as <-; rewrite Hp in Hf; discriminate).
      split; [congruence|]. exists s. split; auto.
      destruct (ms_phase s1); try discriminate; destruct (ms_watch s1 =? 0); try discriminate; injection Hf as <-; apply other_kept; auto.
    - destruct (on_sock_accept _ _ _ _ Hs) as (s1 & Hn1 & Hf). destruct (negb (has_cb cfg)); [discriminate|].
      assert (Hne : k' <> k) by (intros ->; rewrite Hn in Hn1; injection Hn1 as <-; rewrite Hp in Hf; discriminate).
      split; [congruence|]. exists s. split; auto.
      destruct (ms_phase s1); try discriminate; destruct (ms_stopped s1); try discriminate;
        destruct (fl =? ms_watch s1); try discriminate; injection Hf as <-; apply other_kept; auto.
    - destruct (all_closed (mn_socks m)); [|discriminate]. injection Hs as <-. split; [discriminate|eauto].
  Qed.

  Lemma sticky_run P : sticky P -> forall tr m m' k s, mon_run cfg m tr = Accept m' ->
    nth_error (mn_socks m) k = Some s -> P s -> Forall (fun e => ev_fd e <> Some k) tr.
  Proof.
    intros HP. induction tr as [|e tr IH]; intros m m' k s Hr Hn Hs; [constructor|].
    cbn in Hr. destruct (mon_step cfg m e) as [m1|] eqn:Es; [|discriminate].
    destruct (HP m e m1 k s Es Hn Hs) as (Hne & s' & Hn' & Hs'). constructor; [exact Hne|]. eapply IH; eauto.
  Qed.

  (* C10_no_use_after_close (and: closed at most once, no notification after the close) *)
  Theorem no_use_after_close : forall t1 k t2 m,
    mon_run cfg mon_init (t1 ++ EClose k :: t2) = Accept m -> Forall (fun e => ev_fd e <> Some k) t2.
  Proof.
    intros t1 k t2 m H. destruct (mon_run_app_inv _ _ _ _ _ H) as (m1 & H1 & H2). cbn in H2.
    destruct (mon_step cfg m1 (EClose k)) as [m2|] eqn:Es; [|discriminate].
    assert (exists s, nth_error (mn_socks m2) k = Some s /\ ms_phase s = PClosed) as (s & Hn & Hp).
    { unfold mon_step in Es. destruct (mn_destroyed m1); [discriminate|].
      destruct (on_sock_accept _ _ _ _ Es) as (s1 & Hn1 & Hf).
      destruct (ms_phase s1); try discriminate; destruct (ms_watch s1 =? 0); try discriminate; injection Hf as <-;
        eexists; (split; [cbn; eapply nth_error_upd_same; eauto | reflexivity]). }
    eapply (sticky_run _ closed_sticky); eauto.
  Qed.

  (* C10_closed_exactly_once, first half: never twice *)
  Theorem closed_at_most_once : forall t1 k t2 m,
    mon_run cfg mon_init (t1 ++ EClose k :: t2) = Accept m -> ~ In (EClose k) t2.
  Proof.
    intros t1 k t2 m H Hin. pose proof (no_use_after_close _ _ _ _ H) as Hf.
    rewrite Forall_forall in Hf. apply (Hf _ Hin). reflexivity.
  Qed.

  Lemma all_closed_nth l k s : all_closed l = true -> nth_error l k = Some s -> ms_phase s = PClosed.
  Proof.
    unfold all_closed. intros H Hn. rewrite forallb_forall in H. specialize (H s (nth_error_In _ _ Hn)).
    destruct (ms_phase s); cbn in H; try discriminate; reflexivity.
  Qed.

  (* C10_none_after_destroy (with the second half of "closed exactly once"): when ares_destroy
     returns, every descriptor ever obtained has been closed, and nothing happens afterwards *)
  Theorem none_after_destroy : forall t1 t2 m,
    mon_run cfg mon_init (t1 ++ EDestroyed :: t2) = Accept m ->
    t2 = [] /\ forall k tcp, In (ESocket k tcp) t1 -> In (EClose k) t1.
  Proof.
    intros t1 t2 m H. destruct (mon_run_app_inv _ _ _ _ _ H) as (m1 & H1 & H2). cbn in H2.
    destruct (mon_step cfg m1 EDestroyed) as [m2|] eqn:Es; [|discriminate].
    unfold mon_step in Es. destruct (mn_destroyed m1); [discriminate|].
    destruct (all_closed (mn_socks m1)) eqn:Hac; [|discriminate]. injection Es as <-.
    split.
    - destruct t2 as [|e t2]; [reflexivity|]. cbn in H2. discriminate.
    - intros k tcp Hin. destruct (hist_accept _ _ H1) as [B1 B2].
      pose proof (B1 _ k Hin eq_refl) as Hlt. apply nth_error_Some in Hlt.
      destruct (nth_error (mn_socks m1) k) as [s|] eqn:Hn; [|congruence].
      destruct (B2 k s Hn) as (A & _). apply A. eapply all_closed_nth; eauto.
  Qed.

  (* C10_udp_limit *)
  Theorem udp_limit : forall tr m k s, mon_run cfg mon_init tr = Accept m ->
    nth_error (mn_socks m) k = Some s -> ms_tcp s = false -> 0 < udp_max cfg ->
    count_tx k tr <= udp_max cfg.
  Proof.
    intros tr m k s H Hn Ht Hm. destruct (hist_accept _ _ H) as [_ B2].
    destruct (B2 k s Hn) as (_ & B & C & _). rewrite <- B. auto.
  Qed.

  (* C10_notify_paired *)
  Theorem notify_on_change : forall t1 k f m,
    mon_run cfg mon_init (t1 ++ [ESockState k f]) = Accept m -> f <> last_notif k t1 0.
  Proof.
    intros t1 k f m H. destruct (mon_run_app_inv _ _ _ _ _ H) as (m1 & H1 & H2). cbn in H2.
    destruct (mon_step cfg m1 (ESockState k f)) as [m2|] eqn:Es; [|discriminate].
    unfold mon_step in Es. destruct (mn_destroyed m1); [discriminate|].
    destruct (on_sock_accept _ _ _ _ Es) as (s & Hn & Hf). destruct (hist_accept _ _ H1) as [_ B2].
    destruct (B2 k s Hn) as (_ & _ & _ & D). rewrite <- D.
    destruct (negb (has_cb cfg)); [discriminate|].
    destruct (ms_phase s); try discriminate; destruct (ms_stopped s); try discriminate;
      destruct (Z.eqb_spec f (ms_watch s)); try discriminate; auto.
  Qed.

  Theorem stop_before_close : forall t1 k m,
    mon_run cfg mon_init (t1 ++ [EClose k]) = Accept m -> last_notif k t1 0 = 0.
  Proof.
    intros t1 k m H. destruct (mon_run_app_inv _ _ _ _ _ H) as (m1 & H1 & H2). cbn in H2.
    destruct (mon_step cfg m1 (EClose k)) as [m2|] eqn:Es; [|discriminate].
    unfold mon_step in Es. destruct (mn_destroyed m1); [discriminate|].
    destruct (on_sock_accept _ _ _ _ Es) as (s & Hn & Hf). destruct (hist_accept _ _ H1) as [_ B2].
    destruct (B2 k s Hn) as (_ & _ & _ & D). rewrite <- D.
    destruct (ms_phase s); try discriminate; destruct (Z.eqb_spec (ms_watch s) 0); try discriminate; auto.
  Qed.

  Theorem watched_before_read : forall t1 k m, has_cb cfg = true ->
    mon_run cfg mon_init (t1 ++ [ERecvfrom k]) = Accept m ->
    Z.land (last_notif k t1 0) ARES_CONN_STATE_READ <> 0.
  Proof.
    intros t1 k m Hcb H. destruct (mon_run_app_inv _ _ _ _ _ H) as (m1 & H1 & H2). cbn in H2.
    destruct (mon_step cfg m1 (ERecvfrom k)) as [m2|] eqn:Es; [|discriminate].
    unfold mon_step in Es. destruct (mn_destroyed m1); [discriminate|].
    destruct (on_sock_accept _ _ _ _ Es) as (s & Hn & Hf). destruct (hist_accept _ _ H1) as [_ B2].
    destruct (B2 k s Hn) as (_ & _ & _ & D). rewrite <- D. rewrite Hcb in Hf. cbn [andb] in Hf.
    destruct (ms_phase s); try discriminate.
    destruct (Z.eqb_spec (Z.land (ms_watch s) ARES_CONN_STATE_READ) 0); try discriminate; auto.
  Qed.

  Lemma stopped_step m e m' k s : mon_step cfg m e = Accept m' ->
    nth_error (mn_socks m) k = Some s -> ms_stopped s = true ->
    (forall f, e <> ESockState k f) /\ exists s', nth_error (mn_socks m') k = Some s' /\ ms_stopped s' = true.
  Proof.
    intros Hs Hn Hp. unfold mon_step in Hs. destruct (mn_destroyed m); [discriminate|].
    assert (Hupd : forall x, ms_stopped x = true ->
              exists s', nth_error (mn_socks (set_sock m k x)) k = Some s' /\ ms_stopped s' = true).
    { intros x Hx. exists x. split; auto. cbn. eapply nth_error_upd_same; eauto. }
    destruct e as [k' tcp| |k'|k'|k' ok|k'|k'|k'|k'|k'|k' fl|].
    - destruct (Nat.eqb_spec k' (length (mn_socks m))) as [->|]; [|discriminate]. injection Hs as <-. split; [discriminate|].
      exists s. split; auto. cbn. rewrite nth_error_app1; auto. apply nth_error_Some. congruence.
    - injection Hs as <-. split; [discriminate|eauto].
    - destruct (on_sock_accept _ _ _ _ Hs) as (s1 & Hn1 & Hf). split; [discriminate|].
      destruct (ms_phase s1); try discriminate. injection Hf as <-. eauto.
    - destruct (on_sock_accept _ _ _ _ Hs) as (s1 & Hn1 & Hf). split; [discriminate|].
      destruct (ms_phase s1); try discriminate. injection Hf as <-. eauto.
    - destruct (on_sock_accept _ _ _ _ Hs) as (s1 & Hn1 & Hf). split; [discriminate|].
      destruct (ms_phase s1); try discriminate. injection Hf as <-. destruct ok; [|eauto].
      destruct (Nat.eq_dec k' k) as [->|Hne].
      + rewrite Hn in Hn1. injection Hn1 as <-. apply Hupd. exact Hp.
      + exists s. split; auto. apply other_kept; auto.
    - destruct (on_sock_accept _ _ _ _ Hs) as (s1 & Hn1 & Hf). split; [discriminate|].
      destruct (ms_phase s1); try discriminate. injection Hf as <-. eauto.
    - destruct (on_sock_accept _ _ _ _ Hs) as (s1 & Hn1 & Hf). split; [discriminate|].
      destruct (ms_phase s1); try discriminate. injection Hf as <-. eauto.
    - destruct (on_sock_accept _ _ _ _ Hs) as (s1 & Hn1 & Hf). split; [discriminate|].
      destruct (ms_phase s1); try discriminate. destruct (has_cb cfg && _); try discriminate. injection Hf as <-. eauto.
    - destruct (on_sock_accept _ _ _ _ Hs) as (s1 & Hn1 & Hf). split; [discriminate|].
      destruct (ms_phase s1); try discriminate. destruct (negb (ms_tcp s1) && _ && _); try discriminate. injection Hf as <-.
      destruct (Nat.eq_dec k' k) as [->|Hne].
      + rewrite Hn in Hn1. injection Hn1 as <-. apply Hupd. exact Hp.
      + exists s. split; auto. apply other_kept; auto.
    - destruct (on_sock_accept _ _ _ _ Hs) as (s1 & Hn1 & Hf). split; [discriminate|].
      destruct (Nat.eq_dec k' k) as [->|Hne].
      + rewrite Hn in Hn1. injection Hn1 as <-.
        destruct (ms_phase s); try discriminate; destruct (ms_watch s =? 0); try discriminate; injection Hf as <-; apply Hupd; exact Hp.
      + exists s. split; auto.
        destruct (ms_phase s1); try discriminate; destruct (ms_watch s1 =? 0); try discriminate; injection Hf as <-; apply other_kept; auto.
    - destruct (on_sock_accept _ _ _ _ Hs) as (s1 & Hn1 & Hf). destruct (negb (has_cb cfg)); [discriminate|].
      assert (Hne : k' <> k).
      { intros ->. rewrite Hn in Hn1. injection Hn1 as <-. rewrite Hp in Hf. destruct (ms_phase s); discriminate. }
      split; [intros f E; injection E as E1 E2; congruence|]. exists s. split; auto.
      destruct (ms_phase s1); try discriminate; destruct (ms_stopped s1); try discriminate;
        destruct (fl =? ms_watch s1); try discriminate; injection Hf as <-; apply other_kept; auto.
    - destruct (all_closed (mn_socks m)); [|discriminate]. injection Hs as <-. split; [discriminate|eauto].
  Qed.

  (* the stop notification is final: told to stop exactly once *)
  Theorem stop_is_final : forall t1 k t2 m,
    mon_run cfg mon_init (t1 ++ ESockState k 0 :: t2) = Accept m -> Forall (fun e => forall f, e <> ESockState k f) t2.
  Proof.
    intros t1 k t2 m H. destruct (mon_run_app_inv _ _ _ _ _ H) as (m1 & H1 & H2). cbn in H2.
    destruct (mon_step cfg m1 (ESockState k 0)) as [m2|] eqn:Es; [|discriminate].
    assert (exists s, nth_error (mn_socks m2) k = Some s /\ ms_stopped s = true) as (s & Hn & Hp).
    { unfold mon_step in Es. destruct (mn_destroyed m1); [discriminate|].
      destruct (on_sock_accept _ _ _ _ Es) as (s1 & Hn1 & Hf). destruct (negb (has_cb cfg)); [discriminate|].
      destruct (ms_phase s1); try discriminate; destruct (ms_stopped s1); try discriminate;
        destruct (0 =? ms_watch s1); try discriminate; injection Hf as <-;
        eexists; (split; [cbn; eapply nth_error_upd_same; eauto | reflexivity]). }
    clear H H1 Es. revert m2 s Hn Hp H2. induction t2 as [|e t2 IH]; intros m2 s Hn Hp H2; [constructor|].
    cbn in H2. destruct (mon_step cfg m2 e) as [m3|] eqn:Es; [|discriminate].
    destruct (stopped_step _ _ _ _ _ Es Hn Hp) as (Hne & s' & Hn' & Hp'). constructor; [exact Hne|]. eapply IH; eauto.
  Qed.
End Meaning.

(* ------------------------------------------------------------------------------------ *)
(* ares_fds / ares_getsock                                                               *)
(* ------------------------------------------------------------------------------------ *)
Lemma fds_from_exact cfg : forall l i active,
  Forall (sock_inv cfg) l -> quiescent l = true ->
  fst (fds_from i l active) = open_set_from i (map (abs_sock cfg) l) active.
Proof.
  induction l as [|c t IH]; intros i active Hinv Hq; [reflexivity|].
  inversion Hinv as [|? ? Hc Ht]; subst. cbn [quiescent forallb] in Hq. apply andb_prop in Hq. destruct Hq as [Hqc Hqt].
  cbn [fds_from map open_set_from]. specialize (IH (S i) active Ht Hqt).
  destruct (fds_from (S i) t active) as [r w]. cbn [fst] in *.
  destruct Hc as (I1 & I2 & I3 & I4 & I5 & I6 & I7). cbn [abs_sock ms_phase ms_tcp].
  destruct (cs_linked c) eqn:Hl.
  - rewrite (I3 eq_refl). cbn [phase_eqb andb].
    destruct (cs_tcp c || active); cbn [fst app]; rewrite IH; reflexivity.
  - cbn [orb] in Hqc. destruct (cs_phase c); cbn in Hqc; try discriminate. cbn [phase_eqb andb fst app]. exact IH.
Qed.

(* C10_fds_exact: in a quiescent state (no connection half closed) the read set reported by
   ares_fds / ares_getsock is exactly the set of descriptors that are open at the socket layer,
   UDP ones only while queries are active. *)
Theorem fds_exact cfg acts s tr active : run cfg st_init acts = Some (s, tr) -> quiescent (st_socks s) = true ->
  fst (ares_fds_model s active) = mon_fds (abs cfg s) active /\
  mon_run cfg mon_init tr = Accept (abs cfg s).
Proof.
  intros Hrun Hq. destruct (run_sim cfg acts st_init s tr (inv_init cfg) Hrun) as [Hacc [Hinv _]].
  split; [|exact Hacc]. unfold ares_fds_model, mon_fds, abs. cbn [mn_socks]. apply fds_from_exact; auto.
Qed.

(* the write set is a subset of the read set and consists of the sockets with WRITE interest *)
Lemma fds_write_subset : forall l i active k, In k (snd (fds_from i l active)) -> In k (fst (fds_from i l active)).
Proof.
  induction l as [|c t IH]; intros i active k Hin; [destruct Hin|].
  cbn [fds_from] in *. specialize (IH (S i) active k). destruct (fds_from (S i) t active) as [r w]. cbn [fst snd] in *.
  destruct (cs_linked c && (cs_tcp c || active)); cbn [fst snd] in *; auto.
  destruct (Z.land (cs_rw c) ARES_CONN_STATE_WRITE =? 0); cbn [In] in *; auto. destruct Hin; auto.
Qed.

(* ------------------------------------------------------------------------------------ *)
(* Non-vacuity                                                                           *)
(* ------------------------------------------------------------------------------------ *)
Definition ex_cfg : mcfg := mkcfg 2 true false true false false true true true true.
Definition ex_env_ok : open_env := mkoe true SrOk SrOk true false 1 CnOk true.
Definition ex_env_bindfail : open_env := mkoe true SrNosys SrOk false false 0 CnOk true.
Definition ex_acts : list action :=
  [AOpen false ex_env_ok; AQuery 0 1 true; AQuery 0 1 false; AWriteEvent 0 1 true; AOpen false ex_env_bindfail;
   AOpen false ex_env_ok; AQuery 2 1 true; AProbe true 1 true; AReadEvent 0; AAnswered 0; AAnswered 0;
   ACleanup 0 false; AOpen true (mkoe true SrOk SrOk true true 0 CnInProgress false); AQuery 4 3 true;
   AUnlink 2; AOpen false ex_env_ok; AFinishClose 2; ADestroy].
Example ex_run : exists s tr, run ex_cfg st_init ex_acts = Some (s, tr) /\ (30 <= length tr)%nat /\
  mon_run ex_cfg mon_init tr = Accept (abs ex_cfg s) /\ mn_destroyed (abs ex_cfg s) = true.
Proof. eexists _, _. split; [vm_compute; reflexivity|]. split; [vm_compute; lia|]. split; vm_compute; reflexivity. Qed.
