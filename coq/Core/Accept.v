(* C05 - the ACCEPT path of c-ares: which packets can answer a query, mark a server good,
   or enter the query cache.

   Modelled C code (same checks, same order):
     ares_conn_read          src/lib/ares_conn.c     UDP source address test after recvfrom
     read_answers/process_answer  src/lib/ares_process.c   parse, qid lookup (channel wide),
                             same_questions, [query->conn test], [QR test], ares_cookie_validate,
                             EDNS downgrade, TC -> TCP, SERVFAIL/NOTIMP/REFUSED, qcache insert,
                             server_set_good, end_query
     same_questions          src/lib/ares_process.c
     ares_cookie_validate    src/lib/ares_cookie.c   (timeval_is_set is GENERATED text)
     ares_requeue_query, ares_close_connection/handle_conn_error (as far as queries move)
     generate_unique_qid, ares_send_nolock (id, cache lookup, query creation)  src/lib/ares_send.c
     ares_qcache_insert/_fetch/_expire  src/lib/ares_qcache.c (key table + expiry list)

   The SEND side (which server/connection a query is written to, when a timeout fires, when a
   connection is opened or closed, what ares_cookie_apply does to the per-server cookie) is NOT
   decided by the model: these are input events, so every theorem holds for every scheduling
   policy.  Packets carry a ghost provenance tag.

   Two booleans of [config] select the code variant:
     cf_fix_conn  the check "if (query->conn != conn) drop" exists   (/repo ba01df8, found with C06)
     cf_fix_qr    the check "QR bit must be set" exists              (fixes/C05-qr-check.patch)
     cf_fix_zerolen  ares_socket_recvfrom stores 0 in *read_bytes for an empty UDP datagram
                  (/repo 00b9f6e, found with C20); without it read_conn_packets uses an
                  uninitialised length: undefined behaviour
     cf_udp_garbage_drop  an unparsable UDP datagram is dropped instead of being treated as a
                  connection error (fixes/C05-udp-garbage-drop.patch: PROPOSED, NOT APPLIED - a
                  variant that is not the code in /repo; [fixed_cfg] has it false); TCP is unchanged
   With all four false the model is the pinned tree. *)
From Coq Require Import ZArith List Bool Lia.
From CAres.Base Require Import Outcome CInt.
From CAres.Gen Require Import Consts LeafFns.
Import ListNotations.
Local Open Scope Z_scope.
Local Open Scope bool_scope.

(* ------------------------------------------------------------------------------------- *)
(* Data                                                                                   *)
(* ------------------------------------------------------------------------------------- *)
Definition bytes := list Z.

Fixpoint bytes_eqb (a b : bytes) : bool :=
  match a, b with
  | [], [] => true
  | x :: a', y :: b' => (x =? y) && bytes_eqb a' b'
  | _, _ => false
  end.

(* strcasecmp in the C locale: only A-Z fold *)
Definition tolower (c : Z) : Z := if (65 <=? c) && (c <=? 90) then c + 32 else c.
Definition bytes_caseeqb (a b : bytes) : bool := bytes_eqb (map tolower a) (map tolower b).

Definition zlen {A} (l : list A) : Z := Z.of_nat (length l).
Definition first8 (b : bytes) : bytes := firstn 8 b.
Definition skip8 (b : bytes) : bytes := skipn 8 b.

Record question := mkQn { qn_name : bytes; qn_type : Z; qn_class : Z }.

(* what ares_dns_parse yields, as far as the accept path looks at it; p_tag is ghost;
   p_cookie is the result of ares_dns_cookie_fetch: the FIRST cookie option of the OPT RR, None
   when there is none or when it has no content;
   p_ttl abstracts the TTL computation of ares_qcache_insert (min TTL / SOA minimum) *)
Record packet := mkPkt {
  p_tag : Z; p_id : Z; p_qr : bool; p_opcode : Z; p_tc : bool; p_rcode : Z;
  p_qd : list question; p_has_opt : bool; p_cookie : option bytes; p_ttl : Z }.

Inductive datagram :=
| DEmpty                      (* zero length UDP datagram *)
| DMalformed (tag : Z)        (* ares_dns_parse fails *)
| DParsed (p : packet).

Record cookie := mkCk {
  ck_state : Z; ck_client : bytes; ck_server : bytes; ck_uts_sec : Z; ck_uts_usec : Z }.

Record server := mkSrv { sv_idx : Z; sv_addr : Z; sv_cookie : cookie }.
Record conn := mkConn { cn_id : Z; cn_server : Z; cn_tcp : bool }.

Record query := mkQ {
  q_tok : Z; q_qid : Z; q_qd : list question; q_opcode : Z; q_rd : bool; q_cd : bool;
  q_has_opt : bool; q_nopts : Z;         (* OPT RR present; number of options besides the cookie *)
  q_cookie : option bytes;               (* cookie option of query->query as last written *)
  q_conn : option Z; q_using_tcp : bool; q_try : Z; q_cookie_try : Z; q_no_retries : bool;
  q_error : Z }.

(* cache key: OPCODE|FLAGS|TYPE|CLASS|NAME..., compared by ares_strcaseeq *)
Record ckey := mkKey { k_opcode : Z; k_rd : bool; k_cd : bool; k_qd : list question }.

Record chan := mkChan {
  ch_queries : list query;               (* all_queries / queries_by_qid *)
  ch_conns : list conn;
  ch_servers : list server;
  ch_ctab : list (ckey * Z);             (* qcache->cache : key -> entry (tag) *)
  ch_cexp : list (ckey * Z);             (* qcache->expire : (key, expire_ts) *)
  ch_auth : list Z }.                    (* GHOST: tags judged authentic when they were read *)

Record config := mkCfg {
  cf_dns0x20 : bool; cf_igntc : bool; cf_nocheckresp : bool; cf_usevc : bool;
  cf_max_tries : Z;                      (* ares_slist_len(servers) * tries *)
  cf_qcache : bool; cf_qcache_max_ttl : Z;
  cf_fix_conn : bool; cf_fix_qr : bool; cf_fix_zerolen : bool; cf_udp_garbage_drop : bool }.

Inductive output :=
| OCallback (tok status : Z) (data : option Z)   (* data = tag of the record handed over *)
| OServerGood (srv tag : Z)                      (* server_set_good *)
| OServerFail (srv tag : Z)                      (* server_increment_failures *)
| OCacheInsert (tag : Z)
| OConnError (c : Z).

Definition Inadmissible : Z := (-2)%Z.

(* ------------------------------------------------------------------------------------- *)
(* Small state helpers                                                                    *)
(* ------------------------------------------------------------------------------------- *)
Definition opt_z_eqb (a b : option Z) : bool :=
  match a, b with
  | None, None => true
  | Some x, Some y => x =? y
  | _, _ => false
  end.

Definition find_query (st : chan) (id : Z) : option query :=
  find (fun q => q_qid q =? id) (ch_queries st).
Definition find_conn (st : chan) (c : Z) : option conn :=
  find (fun cn => cn_id cn =? c) (ch_conns st).
Definition find_server (st : chan) (s : Z) : option server :=
  find (fun sv => sv_idx sv =? s) (ch_servers st).

Definition set_queries (st : chan) (l : list query) : chan :=
  mkChan l (ch_conns st) (ch_servers st) (ch_ctab st) (ch_cexp st) (ch_auth st).
Definition set_conns (st : chan) (l : list conn) : chan :=
  mkChan (ch_queries st) l (ch_servers st) (ch_ctab st) (ch_cexp st) (ch_auth st).
Definition set_servers (st : chan) (l : list server) : chan :=
  mkChan (ch_queries st) (ch_conns st) l (ch_ctab st) (ch_cexp st) (ch_auth st).
Definition set_cache (st : chan) (t e : list (ckey * Z)) : chan :=
  mkChan (ch_queries st) (ch_conns st) (ch_servers st) t e (ch_auth st).
Definition set_auth (st : chan) (a : list Z) : chan :=
  mkChan (ch_queries st) (ch_conns st) (ch_servers st) (ch_ctab st) (ch_cexp st) a.

Definition replace_query (q : query) (l : list query) : list query :=
  map (fun x => if q_qid x =? q_qid q then q else x) l.
Definition remove_query (id : Z) (l : list query) : list query :=
  filter (fun x => negb (q_qid x =? id)) l.
Definition update_query (st : chan) (q : query) : chan :=
  set_queries st (replace_query q (ch_queries st)).
Definition drop_query (st : chan) (id : Z) : chan :=
  set_queries st (remove_query id (ch_queries st)).

Definition set_cookie (sv : server) (ck : cookie) : server := mkSrv (sv_idx sv) (sv_addr sv) ck.
Definition update_cookie (st : chan) (idx : Z) (ck : cookie) : chan :=
  set_servers st (map (fun x => if sv_idx x =? idx then set_cookie x ck else x) (ch_servers st)).

Definition q_set_conn (q : query) (c : option Z) : query :=
  mkQ (q_tok q) (q_qid q) (q_qd q) (q_opcode q) (q_rd q) (q_cd q) (q_has_opt q) (q_nopts q)
      (q_cookie q) c (q_using_tcp q) (q_try q) (q_cookie_try q) (q_no_retries q) (q_error q).
Definition q_set_tcp (q : query) (b : bool) : query :=
  mkQ (q_tok q) (q_qid q) (q_qd q) (q_opcode q) (q_rd q) (q_cd q) (q_has_opt q) (q_nopts q)
      (q_cookie q) (q_conn q) b (q_try q) (q_cookie_try q) (q_no_retries q) (q_error q).
Definition q_set_try (q : query) (n : Z) : query :=
  mkQ (q_tok q) (q_qid q) (q_qd q) (q_opcode q) (q_rd q) (q_cd q) (q_has_opt q) (q_nopts q)
      (q_cookie q) (q_conn q) (q_using_tcp q) n (q_cookie_try q) (q_no_retries q) (q_error q).
Definition q_set_cookie_try (q : query) (n : Z) : query :=
  mkQ (q_tok q) (q_qid q) (q_qd q) (q_opcode q) (q_rd q) (q_cd q) (q_has_opt q) (q_nopts q)
      (q_cookie q) (q_conn q) (q_using_tcp q) (q_try q) n (q_no_retries q) (q_error q).
Definition q_set_error (q : query) (e : Z) : query :=
  mkQ (q_tok q) (q_qid q) (q_qd q) (q_opcode q) (q_rd q) (q_cd q) (q_has_opt q) (q_nopts q)
      (q_cookie q) (q_conn q) (q_using_tcp q) (q_try q) (q_cookie_try q) (q_no_retries q) e.
Definition q_set_cookie (q : query) (c : option bytes) : query :=
  mkQ (q_tok q) (q_qid q) (q_qd q) (q_opcode q) (q_rd q) (q_cd q) (q_has_opt q) (q_nopts q)
      c (q_conn q) (q_using_tcp q) (q_try q) (q_cookie_try q) (q_no_retries q) (q_error q).
(* rewrite_without_edns: the OPT RR (and with it every option) is deleted *)
Definition q_strip_edns (q : query) : query :=
  mkQ (q_tok q) (q_qid q) (q_qd q) (q_opcode q) (q_rd q) (q_cd q) false 0
      None (q_conn q) (q_using_tcp q) (q_try q) (q_cookie_try q) (q_no_retries q) (q_error q).

(* ------------------------------------------------------------------------------------- *)
(* same_questions (src/lib/ares_process.c)                                                *)
(* ------------------------------------------------------------------------------------- *)
Fixpoint same_questions_loop (exact : bool) (qs ps : list question) : bool :=
  match qs with
  | [] => true
  | q :: qs' =>
      match ps with
      | [] => false                                  (* ares_dns_record_query_get fails *)
      | p :: ps' =>
          if negb (qn_type q =? qn_type p) || negb (qn_class q =? qn_class p) then false
          else if exact then
                 if negb (bytes_eqb (qn_name q) (qn_name p)) then false
                 else same_questions_loop exact qs' ps'
               else
                 if negb (bytes_caseeqb (qn_name q) (qn_name p)) then false
                 else same_questions_loop exact qs' ps'
      end
  end.

Definition same_questions (cfg : config) (q : query) (p : packet) : bool :=
  if negb (zlen (q_qd q) =? zlen (p_qd p)) then false
  else same_questions_loop (cf_dns0x20 cfg && negb (q_using_tcp q)) (q_qd q) (p_qd p).

(* ------------------------------------------------------------------------------------- *)
(* ares_requeue_query (dnsrec = data), end_query                                          *)
(* ------------------------------------------------------------------------------------- *)
Definition requeue_query (cfg : config) (st : chan) (q : query) (status : Z) (inc : bool)
           (data : option Z) : chan * list output :=
  let q1 := q_set_conn q None in                               (* ares_query_remove_from_conn *)
  let q2 := if negb (status =? ARES_SUCCESS) then q_set_error q1 status else q1 in
  let q3 := if inc then q_set_try q2 (q_try q2 + 1) else q2 in
  if (q_try q3 <? cf_max_tries cfg) && negb (q_no_retries q3) then
    (update_query st q3, [])                                   (* (deferred) ares_send_query *)
  else
    let e := if q_error q3 =? ARES_SUCCESS then ARES_ETIMEOUT else q_error q3 in
    (drop_query st (q_qid q3), [OCallback (q_tok q3) e data]).

(* ------------------------------------------------------------------------------------- *)
(* ares_cookie_validate (src/lib/ares_cookie.c)                                           *)
(* ------------------------------------------------------------------------------------- *)
Definition ck_clear : cookie := mkCk C05_COOKIE_INITIAL (repeat 0 8) [] 0 0.

Inductive verdict := VOk | VDrop.

(* memcmp(a, b, 8) on buffers that hold at least 8 bytes; shorter request cookies cannot be
   produced by ares_cookie_apply, a shorter buffer would be an out-of-bounds read *)
Definition memcmp8_eq (a b : bytes) : outcome bool :=
  guard ((8 <=? zlen a) && (8 <=? zlen b)) OutOfBounds (Ok (bytes_eqb (first8 a) (first8 b))).

(* the decision of ares_cookie_validate and what it does to the server's cookie record, as a
   function of the record, the cookie of the request, the cookie of the response, its rcode and
   the time (the part that does not touch the channel) *)
Inductive cdec :=
| CDrop          (* ARES_EBADRESP: drop the response *)
| COk            (* ARES_SUCCESS *)
| CRequeue.      (* BADCOOKIE that echoes our cookie: count, requeue, drop *)

Definition cookie_decide (ck : cookie) (reqc resp : option bytes) (rcode now_sec now_usec : Z)
  : outcome (cookie * cdec) :=
  let resp_len := match resp with Some c => zlen c | None => 0 end in
  (* Invalid cookie length, drop *)
  if (match resp with Some _ => (resp_len <? 8) || (40 <? resp_len) | None => false end)
  then Ok (ck, CDrop)
  else
  match reqc with
  | None => Ok (ck, COk)                           (* didn't request cookies *)
  | Some req =>
      do mismatch <- match resp with
                     | Some rc => do e <- memcmp8_eq req rc; Ok (negb e)
                     | None => Ok false
                     end;
      if mismatch then Ok (ck, CDrop)
      else
      (* record that we received a server cookie *)
      do ck1 <- match resp with
                | Some rc =>
                    if 8 <? resp_len then
                      do same <- memcmp8_eq (ck_client ck) req;
                      Ok (mkCk C05_COOKIE_SUPPORTED (ck_client ck)
                               (if same then skip8 rc else ck_server ck) 0 0)
                    else Ok ck
                | None => Ok ck
                end;
      if rcode =? ARES_RCODE_BADCOOKIE then
        match resp with
        | None => Ok (ck1, CDrop)                  (* BADCOOKIE without cookie *)
        | Some _ => Ok (ck1, CRequeue)
        end
      else if 8 <? resp_len then Ok (ck1, COk)
      else if ck_state ck1 =? C05_COOKIE_SUPPORTED then
        do isset <- c_timeval_is_set (ck_uts_sec ck1) (ck_uts_usec ck1);
        Ok (if isset =? ARES_FALSE
            then mkCk (ck_state ck1) (ck_client ck1) (ck_server ck1) now_sec now_usec
            else ck1, CDrop)
      else if ck_state ck1 =? C05_COOKIE_GENERATED then
        Ok (mkCk C05_COOKIE_UNSUPPORTED (ck_client ck_clear) (ck_server ck_clear) now_sec now_usec, COk)
      else Ok (ck1, COk)
  end.

Definition cookie_validate (cfg : config) (st : chan) (q : query) (p : packet) (sv : server)
           (now_sec now_usec : Z) : outcome (chan * list output * verdict) :=
  do r <- cookie_decide (sv_cookie sv) (q_cookie q) (p_cookie p) (p_rcode p) now_sec now_usec;
  let '(ck1, d) := r in
  let st1 := update_cookie st (sv_idx sv) ck1 in
  match d with
  | CDrop => Ok (st1, [], VDrop)
  | COk => Ok (st1, [], VOk)
  | CRequeue =>
      let q1 := q_set_cookie_try q (q_cookie_try q + 1) in
      let q2 := if COOKIE_RESEND_MAX <=? q_cookie_try q1 then q_set_tcp q1 true else q1 in
      let '(st2, outs) := requeue_query cfg st1 q2 ARES_SUCCESS false None in
      Ok (st2, outs, VDrop)
  end.

(* ------------------------------------------------------------------------------------- *)
(* query cache                                                                            *)
(* ------------------------------------------------------------------------------------- *)
Fixpoint strip_dot (n : bytes) : bytes :=
  match n with
  | [] => []
  | [c] => if c =? 46 then [] else [c]
  | c :: r => c :: strip_dot r
  end.

Fixpoint qd_key_eqb (a b : list question) : bool :=
  match a, b with
  | [], [] => true
  | x :: a', y :: b' =>
      (qn_type x =? qn_type y) && (qn_class x =? qn_class y) &&
      bytes_caseeqb (strip_dot (qn_name x)) (strip_dot (qn_name y)) && qd_key_eqb a' b'
  | _, _ => false
  end.

Definition key_eqb (a b : ckey) : bool :=
  (k_opcode a =? k_opcode b) && Bool.eqb (k_rd a) (k_rd b) && Bool.eqb (k_cd a) (k_cd b) &&
  qd_key_eqb (k_qd a) (k_qd b).

Definition query_key (opcode : Z) (rd cd : bool) (qd : list question) : ckey := mkKey opcode rd cd qd.

Definition ctab_remove (k : ckey) (t : list (ckey * Z)) : list (ckey * Z) :=
  filter (fun e => negb (key_eqb (fst e) k)) t.
Definition ctab_get (k : ckey) (t : list (ckey * Z)) : option Z :=
  match find (fun e => key_eqb (fst e) k) t with Some e => Some (snd e) | None => None end.

(* ares_qcache_expire: every entry of the expiry list with expire_ts <= now is popped and its
   KEY is removed from the table (also when a newer entry replaced it under the same key) *)
Definition cache_expire (st : chan) (now_sec : Z) : chan :=
  let dead := filter (fun e => snd e <=? now_sec) (ch_cexp st) in
  let live := filter (fun e => negb (snd e <=? now_sec)) (ch_cexp st) in
  set_cache st (fold_left (fun t e => ctab_remove (fst e) t) dead (ch_ctab st)) live.

Definition cache_insert (cfg : config) (st : chan) (q : query) (p : packet) (now_sec : Z)
  : chan * list output :=
  if negb (cf_qcache cfg) then (st, [])
  else if negb ((p_rcode p =? ARES_RCODE_NOERROR) || (p_rcode p =? ARES_RCODE_NXDOMAIN)) then (st, [])
  else if p_tc p then (st, [])
  else
    let ttl := if cf_qcache_max_ttl cfg <? p_ttl p then cf_qcache_max_ttl cfg else p_ttl p in
    if ttl =? 0 then (st, [])
    else
      let k := query_key (q_opcode q) (q_rd q) (q_cd q) (q_qd q) in
      (set_cache st ((k, p_tag p) :: ctab_remove k (ch_ctab st))
                 ((k, now_sec + ttl) :: ch_cexp st),
       [OCacheInsert (p_tag p)]).

(* ------------------------------------------------------------------------------------- *)
(* handle_conn_error / ares_close_connection: every query of the connection is requeued    *)
(* ------------------------------------------------------------------------------------- *)
Fixpoint requeue_all (cfg : config) (st : chan) (qs : list query) (status : Z)
  : chan * list output :=
  match qs with
  | [] => (st, [])
  | q :: r =>
      let '(st1, o1) := requeue_query cfg st q status true None in
      let '(st2, o2) := requeue_all cfg st1 r status in
      (st2, o1 ++ o2)
  end.

(* (the C code unlinks the connection first and frees it last; for the queries the order is
   immaterial because the re-send itself is an input event that comes afterwards) *)
Definition close_connection (cfg : config) (st : chan) (c : Z) (status : Z) : chan * list output :=
  let '(st1, outs) :=
    requeue_all cfg st (filter (fun q => opt_z_eqb (q_conn q) (Some c)) (ch_queries st)) status in
  (set_conns st1 (filter (fun cn => negb (cn_id cn =? c)) (ch_conns st1)), outs).

(* ------------------------------------------------------------------------------------- *)
(* process_answer (src/lib/ares_process.c)                                                *)
(* ------------------------------------------------------------------------------------- *)
Definition issue_might_be_edns (q : query) (p : packet) : bool :=
  if negb (p_rcode p =? ARES_RCODE_FORMERR) then false
  else if negb (q_has_opt q) then false
  else if negb (p_has_opt p) then true
  else if (q_nopts q + (match q_cookie q with Some _ => 1 | None => 0 end)) =? 0 then false
  else true.

Definition process_answer (cfg : config) (st : chan) (cn : conn) (sv : server)
           (now_sec now_usec : Z) (d : datagram) : outcome (chan * list output) :=
  match d with
  | DEmpty => Ok (st, [])                                  (* alen == 0 *)
  | DMalformed tag =>                                      (* EBADRESP -> handle_conn_error *)
      if cf_udp_garbage_drop cfg && negb (cn_tcp cn) then Ok (st, [])
      else
      let '(st1, outs) := close_connection cfg st (cn_id cn) ARES_EBADRESP in
      Ok (st1, OServerFail (sv_idx sv) tag :: OConnError (cn_id cn) :: outs)
  | DParsed p =>
      if cf_fix_qr cfg && negb (p_qr p) then Ok (st, [])       (* not a response *)
      else
      match find_query st (p_id p) with
      | None => Ok (st, [])
      | Some q =>
          if negb (same_questions cfg q p) then Ok (st, [])
          else if cf_fix_conn cfg && negb (opt_z_eqb (q_conn q) (Some (cn_id cn))) then Ok (st, [])
          else
          do r <- cookie_validate cfg st q p sv now_sec now_usec;
          let '(st1, outs1, v) := r in
          match v with
          | VDrop => Ok (st1, outs1)
          | VOk =>
              if issue_might_be_edns q p then
                if negb (q_has_opt q) then                 (* rewrite_without_edns fails *)
                  Ok (drop_query st1 (q_qid q), [OCallback (q_tok q) ARES_EFORMERR None])
                else
                  Ok (update_query st1 (q_set_conn (q_strip_edns q) None), [])
              else if p_tc p && negb (cn_tcp cn) && negb (cf_igntc cfg) then
                Ok (update_query st1 (q_set_conn (q_set_tcp q true) None), [])
              else if negb (cf_nocheckresp cfg) &&
                      ((p_rcode p =? ARES_RCODE_SERVFAIL) || (p_rcode p =? ARES_RCODE_NOTIMP) ||
                       (p_rcode p =? ARES_RCODE_REFUSED)) then
                let status := if p_rcode p =? ARES_RCODE_SERVFAIL then ARES_ESERVFAIL
                              else if p_rcode p =? ARES_RCODE_NOTIMP then ARES_ENOTIMP
                              else ARES_EREFUSED in
                let '(st2, outs2) := requeue_query cfg st1 q status true (Some (p_tag p)) in
                Ok (st2, OServerFail (sv_idx sv) (p_tag p) :: outs2)
              else
                let '(st2, outs2) := cache_insert cfg st1 q p now_sec in
                Ok (drop_query st2 (q_qid q),
                    outs2 ++ [OServerGood (sv_idx sv) (p_tag p);
                              OCallback (q_tok q) ARES_SUCCESS (Some (p_tag p))])
          end
      end
  end.

(* ------------------------------------------------------------------------------------- *)
(* The specification predicate: "authentic, matching response"                            *)
(* ------------------------------------------------------------------------------------- *)
Fixpoint questions_eqb (exact : bool) (a b : list question) : bool :=
  match a, b with
  | [], [] => true
  | x :: a', y :: b' =>
      (qn_type x =? qn_type y) && (qn_class x =? qn_class y) &&
      (if exact then bytes_eqb (qn_name x) (qn_name y) else bytes_caseeqb (qn_name x) (qn_name y)) &&
      questions_eqb exact a' b'
  | _, _ => false
  end.

(* case-sensitive when 0x20 randomisation applies: flag on and the transport is UDP *)
Definition questions_match (cfg : config) (cn : conn) (q : query) (p : packet) : bool :=
  questions_eqb (cf_dns0x20 cfg && negb (cn_tcp cn)) (q_qd q) (p_qd p).

(* the DNS-cookie checks: a cookie in the response is well formed and echoes the client cookie
   the query was sent with; once the server proved cookie support a response must carry a
   server cookie (a BADCOOKIE error that echoes the client cookie is a genuine signal) *)
Definition cookie_ok_core (ck : cookie) (reqc resp : option bytes) (rcode : Z) : bool :=
  match resp with
  | Some pc =>
      (8 <=? zlen pc) && (zlen pc <=? 40) &&
      match reqc with
      | None => true
      | Some rc => bytes_eqb (first8 rc) (first8 pc) &&
                   ((8 <? zlen pc) || negb (ck_state ck =? C05_COOKIE_SUPPORTED) ||
                    (rcode =? ARES_RCODE_BADCOOKIE))
      end
  | None =>
      match reqc with
      | None => true
      | Some _ => negb (ck_state ck =? C05_COOKIE_SUPPORTED) &&
                  negb (rcode =? ARES_RCODE_BADCOOKIE)
      end
  end.

Definition cookie_ok (ck : cookie) (q : query) (p : packet) : bool :=
  cookie_ok_core ck (q_cookie q) (p_cookie p) (p_rcode p).

Definition authentic_b (cfg : config) (cn : conn) (sv : server) (src : Z) (p : packet)
           (q : query) : bool :=
  opt_z_eqb (q_conn q) (Some (cn_id cn)) &&          (* on the connection currently assigned *)
  (cn_tcp cn || (src =? sv_addr sv)) &&              (* from that server's address (UDP) *)
  (p_id p =? q_qid q) &&                             (* the query's current id *)
  questions_match cfg cn q p &&                      (* exactly its question *)
  p_qr p &&                                          (* it is a response *)
  cookie_ok (sv_cookie sv) q p.                      (* the DNS-cookie checks *)

(* ------------------------------------------------------------------------------------- *)
(* generate_unique_qid (src/lib/ares_send.c): the candidate ids are inputs                *)
(* ------------------------------------------------------------------------------------- *)
Fixpoint generate_unique_qid (live : list Z) (ids : list Z) : outcome Z :=
  match ids with
  | [] => Err OutOfFuel
  | id :: rest => if existsb (Z.eqb id) live then generate_unique_qid live rest else Ok id
  end.

(* ------------------------------------------------------------------------------------- *)
(* Events                                                                                 *)
(* ------------------------------------------------------------------------------------- *)
Inductive event :=
| ENew (tok : Z) (qd : list question) (opcode : Z) (rd cd has_opt : bool) (nopts : Z)
       (no_retries nocache : bool) (ids : list Z) (now_sec : Z)     (* ares_send_nolock *)
| EOpenConn (c srv : Z) (tcp : bool)                                (* ares_open_connection *)
| EAssign (qid c : Z) (ck : option bytes)                           (* ares_send_query succeeded *)
| ERequeue (qid status : Z)                                         (* timeout / send failure *)
| EEnd (qid status : Z)                                             (* end_query without record *)
| ECloseConn (c : Z)                                                (* ares_close_connection(SUCCESS) *)
| ESetCookie (srv : Z) (ck : cookie)                                (* ares_cookie_apply bookkeeping *)
| ERead (c src now_sec now_usec : Z) (d : datagram).                (* one datagram / TCP frame *)

Definition cookie_len_ok (ck : option bytes) : bool :=
  match ck with None => true | Some b => (8 <=? zlen b) && (zlen b <=? 40) end.

Definition step (cfg : config) (st : chan) (e : event) : outcome (chan * list output) :=
  match e with
  | ENew tok qd opcode rd cd has_opt nopts no_retries nocache ids now_sec =>
      do id <- generate_unique_qid (map q_qid (ch_queries st)) ids;
      let st1 := if cf_qcache cfg && negb nocache then cache_expire st now_sec else st in
      match (if cf_qcache cfg && negb nocache
             then ctab_get (query_key opcode rd cd qd) (ch_ctab st1) else None) with
      | Some tag => Ok (st1, [OCallback tok ARES_SUCCESS (Some tag)])
      | None =>
          Ok (set_queries st1
                (ch_queries st1 ++
                 [mkQ tok id qd opcode rd cd has_opt nopts None None (cf_usevc cfg) 0 0
                      no_retries ARES_SUCCESS]), [])
      end
  | EOpenConn c srv tcp =>
      match find_conn st c, find_server st srv with
      | None, Some _ => Ok (set_conns st (ch_conns st ++ [mkConn c srv tcp]), [])
      | _, _ => Err Inadmissible
      end
  | EAssign qid c ck =>
      match find_query st qid, find_conn st c with
      | Some q, Some cn =>
          if Bool.eqb (cn_tcp cn) (q_using_tcp q) && cookie_len_ok ck then
            (* ares_cookie_apply: no cookie on TCP, none without OPT RR *)
            let ck' := if cn_tcp cn || negb (q_has_opt q) then None else ck in
            Ok (update_query st (q_set_conn (q_set_cookie q ck') (Some c)), [])
          else Err Inadmissible
      | _, _ => Err Inadmissible
      end
  | ERequeue qid status =>
      match find_query st qid with
      | Some q => Ok (requeue_query cfg st q status true None)
      | None => Err Inadmissible
      end
  | EEnd qid status =>
      match find_query st qid with
      | Some q => Ok (drop_query st qid, [OCallback (q_tok q) status None])
      | None => Err Inadmissible
      end
  | ECloseConn c =>
      match find_conn st c with
      | Some _ => Ok (close_connection cfg st c ARES_SUCCESS)
      | None => Err Inadmissible
      end
  | ESetCookie srv ck =>
      match find_server st srv with
      | Some sv =>
          if (zlen (ck_client ck) =? 8) && (zlen (ck_server ck) <=? 32)
          then Ok (update_cookie st srv ck, [])
          else Err Inadmissible
      | None => Err Inadmissible
      end
  | ERead c src now_sec now_usec d =>
      match find_conn st c with
      | None => Err Inadmissible
      | Some cn =>
          match find_server st (cn_server cn) with
          | None => Err Inadmissible
          | Some sv =>
              (* ares_conn_read: a UDP datagram from another address is thrown away *)
              if negb (cn_tcp cn) && negb (src =? sv_addr sv) then Ok (st, [])
              else if negb (cf_fix_zerolen cfg) && negb (cn_tcp cn) &&
                      (match d with DEmpty => true | _ => false end)
              then UB OutOfBounds       (* *read_bytes never written: length is uninitialised *)
              else
                (* GHOST: remember the tag if the specification calls the packet authentic *)
                let auth := match d with
                            | DParsed p =>
                                if existsb (authentic_b cfg cn sv src p) (ch_queries st)
                                then [p_tag p] else []
                            | _ => []
                            end in
                do r <- process_answer cfg st cn sv now_sec now_usec d;
                let '(st1, outs) := r in
                Ok (set_auth st1 (auth ++ ch_auth st1), outs)
          end
      end
  end.

(* a run keeps, for every event, the state it was applied to and what it produced *)
Fixpoint run_trace (cfg : config) (st : chan) (evs : list event)
  : outcome (list (chan * event * list output) * chan) :=
  match evs with
  | [] => Ok ([], st)
  | e :: r =>
      do x <- step cfg st e;
      let '(st1, outs) := x in
      do y <- run_trace cfg st1 r;
      let '(tr, stn) := y in
      Ok ((st, e, outs) :: tr, stn)
  end.

Definition init_chan (servers : list server) : chan := mkChan [] [] servers [] [] [].

(* ------------------------------------------------------------------------------------- *)
(* Interface for the extracted driver                                                     *)
(* ------------------------------------------------------------------------------------- *)
Definition fixed_cfg (dns0x20 igntc nocheckresp usevc : bool) (max_tries : Z) (qcache : bool)
           (max_ttl : Z) : config :=
  mkCfg dns0x20 igntc nocheckresp usevc max_tries qcache max_ttl true true true false.
Definition pinned_cfg (dns0x20 igntc nocheckresp usevc : bool) (max_tries : Z) (qcache : bool)
           (max_ttl : Z) : config :=
  mkCfg dns0x20 igntc nocheckresp usevc max_tries qcache max_ttl false false false false.

(* the provenance monitor: is there a live query for which this packet is authentic, and
   which one (token) *)
Definition authentic_for (cfg : config) (st : chan) (c src : Z) (p : packet) : option Z :=
  match find_conn st c with
  | None => None
  | Some cn =>
      match find_server st (cn_server cn) with
      | None => None
      | Some sv =>
          match find (authentic_b cfg cn sv src p) (ch_queries st) with
          | Some q => Some (q_tok q)
          | None => None
          end
      end
  end.

(* why the specification rejects a packet for every live query (statistics / case classes):
   0 authentic for some query, 1 no live query has this id, then the first failing conjunct of
   the query with this id: 2 question, 3 connection, 4 source address, 5 QR, 6 cookie *)
Definition reject_reason (cfg : config) (st : chan) (c src : Z) (p : packet) : Z :=
  match find_conn st c with
  | None => 7
  | Some cn =>
      match find_server st (cn_server cn) with
      | None => 7
      | Some sv =>
          match find_query st (p_id p) with
          | None => 1
          | Some q =>
              if negb (questions_match cfg cn q p) then 2
              else if negb (opt_z_eqb (q_conn q) (Some (cn_id cn))) then 3
              else if negb (cn_tcp cn || (src =? sv_addr sv)) then 4
              else if negb (p_qr p) then 5
              else if negb (cookie_ok (sv_cookie sv) q p) then 6
              else 0
          end
      end
  end.
