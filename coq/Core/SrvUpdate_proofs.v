(* C08 - proofs about the server-list update model (SrvUpdate.v) *)
From CAres.Base Require Import CInt.
From CAres.Core Require Import SrvUpdate.
Local Open Scope Z_scope.

Lemma keqb_eq a b : keqb a b = true <-> a = b.
Proof.
  destruct a as [[a1 a2] a3], b as [[b1 b2] b3]. cbn. split.
  - intros H. apply andb_prop in H as [H H3]. apply andb_prop in H as [H1 H2].
    apply Z.eqb_eq in H1, H2, H3. subst. reflexivity.
  - intros H. inversion H. rewrite !Z.eqb_refl. reflexivity.
Qed.

Lemma keqb_refl a : keqb a a = true.
Proof. apply keqb_eq. reflexivity. Qed.

Lemma keqb_neq a b : keqb a b = false <-> a <> b.
Proof. split; intros H. - intros E. apply keqb_eq in E. congruence. - destruct (keqb a b) eqn:E; auto. apply keqb_eq in E. contradiction. Qed.

Lemma existsb_keqb k l : existsb (keqb k) l = true <-> In k l.
Proof.
  rewrite existsb_exists. split.
  - intros (x & Hx & E). apply keqb_eq in E. subst. exact Hx.
  - intros H. exists k. split; [exact H | apply keqb_refl].
Qed.

(* [l] represents the sequence [C]: one server per element, idx = position *)
Definition denotes (l : list srv) (C : list skey) : Prop :=
  NoDup (map s_key l) /\ length l = length C /\ forall s, In s l -> nth_error C (s_idx s) = Some (s_key s).

Lemma find_srv_some l k s : find_srv l k = Some s -> In s l /\ s_key s = k.
Proof.
  induction l as [| x l IH]; cbn; [discriminate |].
  destruct (keqb (s_key x) k) eqn:E.
  - intros H. inversion H; subst. apply keqb_eq in E. auto.
  - intros H. destruct (IH H). auto.
Qed.

Lemma find_srv_none l k : find_srv l k = None -> forall s, In s l -> s_key s <> k.
Proof.
  induction l as [| x l IH]; cbn; intros H s Hs; [contradiction |].
  destruct (keqb (s_key x) k) eqn:E; [discriminate |].
  destruct Hs as [<- | Hs]; [apply keqb_neq; exact E | apply IH; auto].
Qed.

Lemma set_idx_spec l k i : NoDup (map s_key l) ->
  map s_key (set_idx l k i) = map s_key l /\
  (forall s, In s (set_idx l k i) -> (s_key s = k /\ s_idx s = i) \/ (s_key s <> k /\ In s l)) /\
  (forall s, In s l -> s_key s <> k -> In s (set_idx l k i)).
Proof.
  induction l as [| x l IH]; intros N; cbn.
  - split; [reflexivity |]. split; intros s [].
  - inversion N as [| ? ? Nx Nl]; subst.
    destruct (keqb (s_key x) k) eqn:E.
    + apply keqb_eq in E. cbn. split; [reflexivity |]. split.
      * intros s [<- | Hs]; [left; cbn; auto |]. right. split; [| right; exact Hs].
        intros Ek. apply Nx. rewrite E, <- Ek. apply in_map. exact Hs.
      * intros s [<- | Hs] Hk; [contradiction | right; exact Hs].
    + apply keqb_neq in E. destruct (IH Nl) as (M & A & B). cbn. rewrite M. split; [reflexivity |]. split.
      * intros s [<- | Hs]; [right; split; [exact E | left; reflexivity] |].
        destruct (A s Hs) as [H | [H1 H2]]; [left; exact H | right; split; [exact H1 | right; exact H2]].
      * intros s [<- | Hs] Hk; [left; reflexivity | right; apply B; auto].
Qed.

Lemma nodup_key_inj l x y : NoDup (map s_key l) -> In x l -> In y l -> s_key x = s_key y -> x = y.
Proof.
  induction l as [| z l IH]; intros N Hx Hy E; [contradiction |].
  cbn in N. inversion N as [| ? ? Nz Nl]; subst.
  destruct Hx as [<- | Hx], Hy as [<- | Hy]; auto.
  - exfalso. apply Nz. rewrite E. apply in_map. exact Hy.
  - exfalso. apply Nz. rewrite <- E. apply in_map. exact Hx.
Qed.

(* loop invariant: E = distinct keys visited so far, in order *)
Record LInv (cur : list srv) (E : list skey) (servers : list srv) (changed : bool) : Prop := mkLInv {
  li_nodup : NoDup (map s_key servers);
  li_nodupE : NoDup E;
  li_pos : forall s, In s servers -> In (s_key s) E -> nth_error E (s_idx s) = Some (s_key s);
  li_old : forall s, In s servers -> ~ In (s_key s) E -> In s cur;
  li_all : forall k, In k E -> exists s, In s servers /\ s_key s = k;
  li_keep : forall s, In s cur -> exists s', In s' servers /\ s_key s' = s_key s;
  li_same : changed = false -> forall i k, nth_error E i = Some k -> In (mkSrv k i) cur }.

Lemma NoDup_app_snoc {A} (l : list A) x : NoDup l -> ~ In x l -> NoDup (l ++ [x]).
Proof.
  induction l as [| y l IH]; intros N H; cbn.
  - constructor; [intros [] | constructor].
  - inversion N as [| ? ? Ny Nl]; subst. constructor.
    + intros X. apply in_app_or in X as [X | [X | []]]; [contradiction | subst; apply H; left; reflexivity].
    + apply IH; auto. intros X. apply H. right. exact X.
Qed.

Lemma nth_error_app_last {A} (l : list A) x : nth_error (l ++ [x]) (length l) = Some x.
Proof. rewrite nth_error_app2 by lia. rewrite Nat.sub_diag. reflexivity. Qed.

Lemma nth_error_app_old {A} (l : list A) x i y : nth_error l i = Some y -> nth_error (l ++ [x]) i = Some y.
Proof. intros H. rewrite nth_error_app1; [exact H |]. apply nth_error_Some. congruence. Qed.

Lemma nth_error_snoc_inv {A} (l : list A) x i y :
  nth_error (l ++ [x]) i = Some y -> nth_error l i = Some y \/ (i = length l /\ y = x).
Proof.
  intros H. destruct (Nat.lt_ge_cases i (length l)) as [L | L].
  - rewrite nth_error_app1 in H by exact L. auto.
  - rewrite nth_error_app2 in H by exact L. destruct (i - length l)%nat eqn:D.
    + cbn in H. inversion H. right. split; [lia | reflexivity].
    + cbn in H. destruct n; discriminate.
Qed.

Lemma loop_spec cur : forall rest servers earlier E changed l' ch',
  LInv cur E servers changed -> NoDup (map s_key cur) ->
  (forall k, In k earlier <-> In k E) ->
  upd_loop servers earlier rest (length E) changed = (l', ch') ->
  LInv cur (E ++ dedupk E rest) l' ch'.
Proof.
  induction rest as [| k r IH]; intros servers earlier E changed l' ch' I Nc Hm H; cbn [upd_loop dedupk] in *.
  - inversion H; subst. rewrite app_nil_r. exact I.
  - assert (Hex : existsb (keqb k) earlier = existsb (keqb k) E).
    { destruct (existsb (keqb k) E) eqn:X.
      - apply existsb_keqb. apply Hm. apply existsb_keqb. exact X.
      - destruct (existsb (keqb k) earlier) eqn:Y; [| reflexivity].
        apply existsb_keqb in Y. apply Hm in Y. apply existsb_keqb in Y. congruence. }
    rewrite Hex in H. destruct (existsb (keqb k) E) eqn:Ein.
    + (* duplicate entry of the new configuration: skipped *)
      apply (IH servers (k :: earlier) E changed); auto.
      intros x. split; [intros [<- | Hx]; [apply existsb_keqb; exact Ein | apply Hm; exact Hx] | intros Hx; right; apply Hm; exact Hx].
    + assert (Kn : ~ In k E) by (intros X; apply existsb_keqb in X; congruence).
      assert (Hm' : forall x, In x (k :: earlier) <-> In x (E ++ [k])).
      { intros x. rewrite in_app_iff. cbn. rewrite Hm. tauto. }
      assert (Len : S (length E) = length (E ++ [k])) by (rewrite app_length; cbn; lia).
      replace (E ++ k :: dedupk (E ++ [k]) r) with ((E ++ [k]) ++ dedupk (E ++ [k]) r) by (rewrite <- app_assoc; reflexivity).
      destruct I as [I1 I2 I3 I4 I5 I6 I7].
      assert (NE' : NoDup (E ++ [k])).
      { apply NoDup_app_snoc; auto. }
      destruct (find_srv servers k) as [s |] eqn:Ef.
      * destruct (find_srv_some _ _ _ Ef) as [Hs Ks].
        assert (Scur : In s cur) by (apply I4; [exact Hs | rewrite Ks; exact Kn]).
        destruct (Nat.eqb_spec (s_idx s) (length E)) as [Ei | Ei].
        -- (* found at the same position *)
           rewrite Len in H. apply (IH servers (k :: earlier) (E ++ [k]) changed); auto.
           constructor; auto.
           ++ intros x Hx Hk. apply in_app_or in Hk as [Hk | [Hk | []]].
              ** apply nth_error_app_old. apply I3; auto.
              ** assert (x = s) by (apply (nodup_key_inj servers); auto; congruence).
                 subst x. rewrite Ei, Ks. apply nth_error_app_last.
           ++ intros x Hx Hk. apply I4; auto. intros X. apply Hk. apply in_or_app. left. exact X.
           ++ intros x Hx. apply in_app_or in Hx as [Hx | [<- | []]]; [apply I5; exact Hx | exists s; auto].
           ++ intros Hc i x Hn. apply nth_error_snoc_inv in Hn as [Hn | [-> ->]]; [apply I7; auto |].
              rewrite <- Ei, <- Ks. destruct s; exact Scur.
        -- (* found at another position: idx updated, list changed *)
           rewrite Len in H. apply (IH (set_idx servers k (length E)) (k :: earlier) (E ++ [k]) true); auto.
           destruct (set_idx_spec servers k (length E) I1) as (M & A & B).
           constructor; auto.
           ++ rewrite M. exact I1.
           ++ intros x Hx Hk. destruct (A x Hx) as [[K1 K2] | [K1 K2]].
              ** rewrite K1, K2. apply nth_error_app_last.
              ** apply in_app_or in Hk as [Hk | [Hk | []]]; [| congruence]. apply nth_error_app_old. apply I3; auto.
           ++ intros x Hx Hk. destruct (A x Hx) as [[K1 K2] | [K1 K2]].
              ** exfalso. apply Hk. apply in_or_app. right. left. auto.
              ** apply I4; auto. intros X. apply Hk. apply in_or_app. left. exact X.
           ++ intros x Hx. apply in_app_or in Hx as [Hx | [<- | []]].
              ** destruct (I5 x Hx) as (y & Hy & Ky). exists y. split; [| exact Ky]. apply B; [exact Hy |]. rewrite Ky. intros X. apply Kn. rewrite <- X. exact Hx.
              ** exists (mkSrv (s_key s) (length E)). split; [| cbn; exact Ks].
                 clear - Hs Ks. revert Hs. generalize servers. induction servers0 as [| y l IHl]; intros Hs; [contradiction |].
                 cbn. destruct (keqb (s_key y) k) eqn:E0.
                 --- apply keqb_eq in E0. left. rewrite E0, Ks. reflexivity.
                 --- destruct Hs as [<- | Hs]; [apply keqb_neq in E0; contradiction | right; apply IHl; exact Hs].
           ++ intros x Hx. destruct (I6 x Hx) as (y & Hy & Ky).
              destruct (keqb (s_key y) k) eqn:E0.
              ** apply keqb_eq in E0. exists (mkSrv (s_key s) (length E)). split; [| cbn; congruence].
                 clear - Hs Ks. revert Hs. generalize servers. induction servers0 as [| z l IHl]; intros Hs; [contradiction |].
                 cbn. destruct (keqb (s_key z) k) eqn:E1.
                 --- apply keqb_eq in E1. left. rewrite E1, Ks. reflexivity.
                 --- destruct Hs as [<- | Hs]; [apply keqb_neq in E1; contradiction | right; apply IHl; exact Hs].
              ** apply keqb_neq in E0. exists y. split; [apply B; auto | exact Ky].
           ++ intros; discriminate.
      * (* not known: created, list changed *)
        pose proof (find_srv_none _ _ Ef) as Hnone.
        rewrite Len in H. apply (IH (servers ++ [mkSrv k (length E)]) (k :: earlier) (E ++ [k]) true); auto.
        constructor; auto.
        -- rewrite map_app. cbn. apply NoDup_app_snoc; auto.
           intros X. apply in_map_iff in X as (y & Ky & Hy). apply (Hnone y Hy). exact Ky.
        -- intros x Hx Hk. apply in_app_or in Hx as [Hx | [<- | []]].
           ++ apply in_app_or in Hk as [Hk | [Hk | []]]; [apply nth_error_app_old; apply I3; auto |].
              exfalso. apply (Hnone x Hx). auto.
           ++ cbn. apply nth_error_app_last.
        -- intros x Hx Hk. apply in_app_or in Hx as [Hx | [<- | []]].
           ++ apply I4; auto. intros X. apply Hk. apply in_or_app. left. exact X.
           ++ exfalso. apply Hk. cbn. apply in_or_app. right. left. reflexivity.
        -- intros x Hx. apply in_app_or in Hx as [Hx | [<- | []]].
           ++ destruct (I5 x Hx) as (y & Hy & Ky). exists y. split; [apply in_or_app; left; exact Hy | exact Ky].
           ++ exists (mkSrv k (length E)). split; [apply in_or_app; right; left; reflexivity | reflexivity].
        -- intros x Hx. destruct (I6 x Hx) as (y & Hy & Ky). exists y. split; [apply in_or_app; left; exact Hy | exact Ky].
        -- intros; discriminate.
Qed.

Lemma dedupk_in l : forall seen k, In k (dedupk seen l) <-> In k l /\ ~ In k seen.
Proof.
  induction l as [| x l IH]; intros seen k; cbn; [tauto |].
  destruct (existsb (keqb x) seen) eqn:E.
  - rewrite IH. apply existsb_keqb in E. split; [tauto |]. intros [[<- | H] N]; [contradiction | tauto].
  - assert (Nx : ~ In x seen) by (intros X; apply existsb_keqb in X; congruence).
    cbn. rewrite IH, in_app_iff. cbn. split.
    + intros [<- | [H N]]; [tauto |]. split; [tauto |]. intros X. apply N. tauto.
    + intros [[<- | H] N]; [tauto |]. destruct (keqb x k) eqn:Ek; [apply keqb_eq in Ek; tauto |].
      apply keqb_neq in Ek. right. split; [exact H |]. intros [X | [X | []]]; [contradiction | contradiction].
Qed.

Lemma nodup_map_filter (p : srv -> bool) l : NoDup (map s_key l) -> NoDup (map s_key (filter p l)).
Proof.
  induction l as [| x l IH]; intros N; cbn; [constructor |].
  cbn in N. inversion N as [| ? ? Nx Nl]; subst.
  destruct (p x); [| apply IH; exact Nl]. cbn. constructor; [| apply IH; exact Nl].
  intros X. apply Nx. apply in_map_iff in X as (y & Ey & Hy). apply filter_In in Hy as [Hy _].
  rewrite <- Ey. apply in_map. exact Hy.
Qed.

Lemma list_eq_nth {A} : forall (l1 l2 : list A),
  (forall i x, nth_error l1 i = Some x -> nth_error l2 i = Some x) -> (length l2 <= length l1)%nat -> l1 = l2.
Proof.
  induction l1 as [| a l1 IH]; intros [| b l2] H L; cbn in L; try lia; auto.
  - specialize (H 0%nat a eq_refl). discriminate.
  - pose proof (H 0%nat a eq_refl) as H0. cbn in H0. inversion H0; subst. f_equal.
    apply IH; [| lia]. intros i x Hi. apply (H (S i) x). exact Hi.
Qed.

Lemma filter_len_le {A} (p : A -> bool) l : (length (filter p l) <= length l)%nat.
Proof. induction l as [| a l IH]; cbn; [lia |]. destruct (p a); cbn; lia. Qed.

Lemma filter_length_eq {A} (p : A -> bool) l : length (filter p l) = length l -> forall x, In x l -> p x = true.
Proof.
  induction l as [| a l IH]; intros H x Hx; [contradiction |]. cbn in H.
  pose proof (filter_len_le p l) as Hle.
  destruct (p a) eqn:Ea; cbn in H.
  - destruct Hx as [<- | Hx]; [exact Ea | apply IH; [lia | exact Hx]].
  - lia.
Qed.

(* ares_servers_update without ARES_FLAG_PRIMARY: the channel afterwards holds exactly the new
   configuration (duplicates dropped) and, if the cache is NOT flushed, that configuration is the
   previous one, as a sequence *)
Theorem update_flushes_on_change cu ct cur C new cur' changed :
  denotes cur C ->
  servers_update cu ct false cur new = (cur', changed) ->
  denotes cur' (dedupk [] (map (resolve cu ct) new)) /\
  (changed = false -> dedupk [] (map (resolve cu ct) new) = C).
Proof.
  intros (Nc & Lc & Pc) H. unfold servers_update in H.
  set (ks := map (resolve cu ct) new) in *.
  destruct (upd_loop cur [] ks 0%nat false) as [l1 ch1] eqn:E1.
  unfold remove_stale in H. inversion H; subst cur' changed. clear H.
  assert (I0 : LInv cur [] cur false).
  { constructor; auto; try constructor.
    - intros s Hs []. - intros k []. - intros s Hs. exists s. auto. - intros _ i k Hn. destruct i; discriminate. }
  pose proof (loop_spec cur ks cur [] [] false l1 ch1 I0 Nc (fun k => conj (fun x => x) (fun x => x)) E1) as I.
  cbn [app] in I. set (N := dedupk [] ks) in *.
  destruct I as [I1 I2 I3 I4 I5 I6 I7].
  assert (Mem : forall k, In k N <-> In k ks) by (intros k; unfold N; rewrite dedupk_in; cbn; tauto).
  assert (Fk : forall s, in_newconfig ks s = true <-> In (s_key s) N).
  { intros s. unfold in_newconfig. rewrite existsb_keqb. symmetry. apply Mem. }
  split.
  - (* the servers left are exactly the new configuration *)
    split; [apply nodup_map_filter; exact I1 |]. split.
    + apply Nat.le_antisymm.
      * rewrite <- (map_length s_key). apply NoDup_incl_length; [apply nodup_map_filter; exact I1 |].
        intros k Hk. apply in_map_iff in Hk as (s & <- & Hs). apply filter_In in Hs as [_ Hs]. apply Fk. exact Hs.
      * rewrite <- (map_length s_key (filter _ _)). apply NoDup_incl_length; [exact I2 |].
        intros k Hk. destruct (I5 k Hk) as (s & Hs & <-). apply in_map. apply filter_In. split; [exact Hs | apply Fk; exact Hk].
    + intros s Hs. apply filter_In in Hs as [Hs Hf]. apply I3; [exact Hs | apply Fk; exact Hf].
  - intros Hc. apply orb_false_elim in Hc as [Hc1 Hc2]. apply negb_false_iff in Hc2. apply Nat.eqb_eq in Hc2.
    pose proof (filter_length_eq _ _ Hc2) as Hall.
    apply list_eq_nth.
    + intros i k Hn. pose proof (I7 Hc1 i k Hn) as Hin. apply (Pc _ Hin).
    + rewrite <- Lc, <- (map_length s_key cur). apply NoDup_incl_length; [exact Nc |].
      intros k Hk. apply in_map_iff in Hk as (s & <- & Hs). destruct (I6 s Hs) as (s' & Hs' & <-).
      apply Fk. apply Hall. exact Hs'.
Qed.

(* in words: an edit after which the configured sequence differs from the previous one flushes *)
Corollary flush_on_list_change cu ct cur C new cur' changed :
  denotes cur C -> servers_update cu ct false cur new = (cur', changed) ->
  dedupk [] (map (resolve cu ct) new) <> C -> changed = true.
Proof.
  intros D H Hn. destruct (update_flushes_on_change cu ct cur C new cur' changed D H) as [_ Hc].
  destruct changed; [reflexivity | exfalso; apply Hn; apply Hc; reflexivity].
Qed.

(* witnesses: add-only, remove-only, replace, reorder, port change flush; the identical list and a
   list that only repeats entries do not *)
Definition exA : sconf := mkSc 1 0 0.
Definition exB : sconf := mkSc 2 0 0.
Definition exC : sconf := mkSc 3 0 0.
Definition ex_cur : list srv := [mkSrv (1, 53, 53) 0; mkSrv (2, 53, 53) 1].
Lemma ex_cur_denotes : denotes ex_cur [(1, 53, 53); (2, 53, 53)].
Proof.
  split; [cbn; repeat constructor; cbn; intuition congruence |]. split; [reflexivity |].
  intros s [<- | [<- | []]]; reflexivity.
Qed.
Lemma ex_edits :
  snd (servers_update 0 0 false ex_cur [exA; exB; exC]) = true /\
  snd (servers_update 0 0 false ex_cur [exA]) = true /\
  snd (servers_update 0 0 false ex_cur [exA; exC]) = true /\
  snd (servers_update 0 0 false ex_cur [exB; exA]) = true /\
  snd (servers_update 0 0 false ex_cur [exA; mkSc 2 5353 0]) = true /\
  snd (servers_update 0 0 false ex_cur [exA; exB]) = false /\
  snd (servers_update 0 0 false ex_cur [exA; exA; mkSc 2 53 53; exB]) = false.
Proof. vm_compute. repeat split. Qed.
